/-
C18 → C02 for the multi-task VRP family: the post-conditions of `MTVRPGenerator` (proved over exact rationals in
`Props/C18/Mtvrp.lean`: `mtvrp_window`, the distance-limit assertion, `demands_kind`, capacity ≥ any demand) imply the
well-formedness predicate `wf` of the environment model (integer ticks) by scaling, so that "every generated instance is
solvable" is a theorem chain  generator ⇒ `wf` ⇒ `steps_le` / `progress`  for every preset / feature removal.
-/
import Rl4co.Props.C18.Mtvrp
import Rl4co.Props.C02.Mtvrp
import Mathlib.Tactic.Linarith
import Mathlib.Tactic.NormNum

namespace Rl4co.Mtvrp
open Rl4co.Gen.Mtvrp

/-- The instance `i` (integer ticks, `κ` ticks per unit of length / time, `u` ticks per demand unit) is the image of
an output of `MTVRPGenerator`: per customer `j` the raw draws and constants `tw j` (distance to the depot `d`, speed
`v`, …) satisfy the generator's parameter condition `TwCond`; travel times, distances, windows, service times, the
depot window `[0, max_time]`, the distance limit and the demands are the generator's formulas scaled to ticks; the
removed features (`subsample_problems`) are infinite bounds. -/
structure GenPost (κ : ℚ) (u : Int) (i : Inst) (tw : Nat → TwIn) (Tmax limitR : ℚ) (C : Int)
    (minD maxD minB maxB : Int) : Prop where
  κpos   : 0 < κ
  upos   : 0 < u
  cond   : ∀ j, 1 ≤ j → j ≤ i.n → TwCond (tw j) ∧ (tw j).T = Tmax
  travel : ∀ j, 1 ≤ j → j ≤ i.n → (i.T 0 j : ℚ) = κ * ((tw j).d / (tw j).v) ∧ (i.T j 0 : ℚ) = κ * ((tw j).d / (tw j).v)
  dist   : ∀ j, 1 ≤ j → j ≤ i.n → (i.D 0 j : ℚ) = κ * (tw j).d ∧ (i.D j 0 : ℚ) = κ * (tw j).d
  /-- time windows kept (`generate_time_windows`) or removed (`_default_time_window`) -/
  windows : (∀ j, j ≤ i.n → i.late j = none) ∨
            ((∃ l0 : Int, i.late 0 = some l0 ∧ (l0 : ℚ) = κ * Tmax) ∧
             ∀ j, 1 ≤ j → j ≤ i.n → (i.early j : ℚ) = κ * twStart (tw j) ∧ (i.service j : ℚ) = κ * service (tw j) ∧
               ∃ l : Int, i.late j = some l ∧ (l : ℚ) = κ * twEnd (tw j))
  /-- distance limit kept (the assertion of `generate_distance_limit` passed) or removed -/
  limit  : i.limit = none ∨
            (∃ L : Int, i.limit = some L ∧ (L : ℚ) = κ * limitR ∧ ∀ j, 1 ≤ j → j ≤ i.n → (tw j).d * 2 < limitR)
  /-- demands: `generate_demands` (+ `_default_backhaul`), scaled; never above the vehicle capacity -/
  cap    : i.cap = u * C
  bounds : 1 ≤ minD ∧ maxD ≤ C ∧ 1 ≤ minB ∧ maxB ≤ C
  capNonneg : 0 ≤ C
  depot  : i.dL 0 = 0 ∧ i.dB 0 = 0
  demand : ∀ j, 1 ≤ j → j ≤ i.n → ∃ r : Int × Int, i.dL j = u * r.1 ∧ i.dB j = u * r.2 ∧
            ((r.1 = 0 ∧ minB ≤ r.2 ∧ r.2 ≤ maxB) ∨ (r.2 = 0 ∧ minD ≤ r.1 ∧ r.1 ≤ maxD))

theorem gen_servable {κ : ℚ} {u : Int} {i : Inst} {tw : Nat → TwIn} {Tmax limitR : ℚ} {C minD maxD minB maxB : Int}
    (g : GenPost κ u i tw Tmax limitR C minD maxD minB maxB) (j : Nat) (h1 : 1 ≤ j) (h2 : j ≤ i.n) :
    servable i j = true := by
  obtain ⟨hc, hT⟩ := g.cond j h1 h2
  obtain ⟨w1, w2, w3, w4⟩ := mtvrp_window (tw j) hc
  obtain ⟨t1, t2⟩ := g.travel j h1 h2
  obtain ⟨d1, d2⟩ := g.dist j h1 h2
  have κp := g.κpos
  have hdv : 0 ≤ (tw j).d / (tw j).v := div_nonneg hc.hd.le hc.hv.le
  have hT0 : (0 : ℚ) ≤ (i.T 0 j : ℚ) := by rw [t1]; positivity
  -- time windows
  have htw : cmpInf .le (i.T 0 j) (i.late j) = true ∧
      cmpInf .le (if i.openR then 0 else max (i.T 0 j) (i.early j) + i.service j + i.T j 0) (i.late 0) = true := by
    rcases g.windows with hnone | ⟨⟨l0, hl0, hl0v⟩, hw⟩
    · rw [hnone j h2, hnone 0 (by omega)]; exact ⟨rfl, rfl⟩
    · obtain ⟨e1, s1, l, hl, hlv⟩ := hw j h1 h2
      rw [hl, hl0]
      have a1 : (i.T 0 j : ℚ) ≤ (i.early j : ℚ) := by rw [t1, e1]; exact mul_le_mul_of_nonneg_left w1 κp.le
      have a2 : (i.early j : ℚ) ≤ (l : ℚ) := by rw [e1, hlv]; exact mul_le_mul_of_nonneg_left w2.le κp.le
      have a3 : (l : ℚ) + (i.service j : ℚ) + (i.T j 0 : ℚ) ≤ (l0 : ℚ) := by
        rw [hlv, s1, t2, hl0v, ← hT]
        have := mul_le_mul_of_nonneg_left w4 κp.le
        linarith
      have b1 : i.T 0 j ≤ i.early j := by exact_mod_cast a1
      have b2 : i.early j ≤ l := by exact_mod_cast a2
      have b3 : l + i.service j + i.T j 0 ≤ l0 := by exact_mod_cast a3
      have b0 : 0 ≤ i.T 0 j := by exact_mod_cast hT0
      have s0 : 0 ≤ i.service j := by
        have : (0 : ℚ) ≤ (i.service j : ℚ) := by
          rw [s1]; exact mul_nonneg κp.le (le_trans hc.ha (service_range (tw j) hc).1)
        exact_mod_cast this
      have t0 : 0 ≤ i.T j 0 := by
        have : (0 : ℚ) ≤ (i.T j 0 : ℚ) := by rw [t2]; positivity
        exact_mod_cast this
      refine ⟨by simp only [cmpInf, Cmp.eval, decide_eq_true_eq]; omega, ?_⟩
      simp only [cmpInf, Cmp.eval, decide_eq_true_eq]
      split <;> omega
  -- distance limit
  have hlim : cmpInf .le (i.D 0 j + (if i.openR then 0 else i.D j 0)) i.limit = true := by
    rcases g.limit with hnone | ⟨L, hL, hLv, hd⟩
    · rw [hnone]; rfl
    · rw [hL]
      have a : (i.D 0 j : ℚ) + (i.D j 0 : ℚ) ≤ (L : ℚ) := by
        rw [d1, d2, hLv]
        have := mul_le_mul_of_nonneg_left (hd j h1 h2).le κp.le
        linarith
      have b : i.D 0 j + i.D j 0 ≤ L := by exact_mod_cast a
      have c0 : 0 ≤ i.D j 0 := by
        have : (0 : ℚ) ≤ (i.D j 0 : ℚ) := by rw [d2]; have := hc.hd; positivity
        exact_mod_cast this
      simp only [cmpInf, Cmp.eval, decide_eq_true_eq]
      split <;> omega
  -- demands
  obtain ⟨r, hL, hB, hk⟩ := g.demand j h1 h2
  obtain ⟨m1, m2, m3, m4⟩ := g.bounds
  have up := g.upos
  have hdem : ((decide (0 < i.dL j) && decide (i.dL j ≤ i.cap)) || (decide (0 < i.dB j) && decide (i.dB j ≤ i.cap))) = true := by
    rw [hL, hB, g.cap]
    rcases hk with ⟨_, k2, k3⟩ | ⟨_, k2, k3⟩
    · have p : 0 < u * r.2 := Int.mul_pos up (by omega)
      have q : u * r.2 ≤ u * C := Int.mul_le_mul_of_nonneg_left (by omega) up.le
      simp [p, q]
    · have p : 0 < u * r.1 := Int.mul_pos up (by omega)
      have q : u * r.1 ≤ u * C := Int.mul_le_mul_of_nonneg_left (by omega) up.le
      simp [p, q]
  simp only [servable, htw.1, htw.2, hdem, hlim, Bool.and_self]

/-- **gen ⇒ wf**: every instance the MTVRP generator can emit (any preset / feature removal, any legal parameters
inside `TwCond`) is well-formed -/
theorem gen_wf_mtvrp {κ : ℚ} {u : Int} {i : Inst} {tw : Nat → TwIn} {Tmax limitR : ℚ} {C minD maxD minB maxB : Int}
    (g : GenPost κ u i tw Tmax limitR C minD maxD minB maxB) : wf i = true := by
  obtain ⟨m1, m2, m3, m4⟩ := g.bounds
  have up := g.upos
  simp only [wf, demandsOk, Bool.and_eq_true, decide_eq_true_eq, List.all_eq_true, List.mem_range, Bool.or_eq_true]
  refine ⟨⟨?_, ⟨g.depot.1, g.depot.2⟩, ?_⟩, fun k hk => gen_servable g (k + 1) (by omega) (by omega)⟩
  · rw [g.cap]
    exact Int.mul_nonneg up.le g.capNonneg
  · intro k hk
    rcases Nat.eq_zero_or_pos k with h0 | hpos
    · subst h0; simp [g.depot.1, g.depot.2]
    · obtain ⟨r, hL, hB, hkind⟩ := g.demand k hpos (by omega)
      rw [hL, hB]
      rcases hkind with ⟨k1, k2, k3⟩ | ⟨k1, k2, k3⟩
      · rw [k1]; simp; exact Int.mul_nonneg up.le (by omega)
      · rw [k1]; simp; exact Int.mul_nonneg up.le (by omega)

/-- **C18 "every generated instance is solvable", as a theorem chain**: generator post-conditions ⇒ `wf` ⇒ every
mask-confined episode is finished after at most `2n+1` steps … -/
theorem gen_steps_le {κ : ℚ} {u : Int} {i : Inst} {tw : Nat → TwIn} {Tmax limitR : ℚ} {C minD maxD minB maxB : Int}
    (g : GenPost κ u i tw Tmax limitR C minD maxD minB maxB) {as : List Nat} {s : State}
    (h : RunND env i (env.reset i) as s) : as.length ≤ 2 * i.n + 1 :=
  steps_le i (gen_wf_mtvrp g) h

/-- … and while it is not finished the mask offers an action (no dead end, no idling beyond the bound) -/
theorem gen_progress {κ : ℚ} {u : Int} {i : Inst} {tw : Nat → TwIn} {Tmax limitR : ℚ} {C minD maxD minB maxB : Int}
    (g : GenPost κ u i tw Tmax limitR C minD maxD minB maxB) {as : List Nat} {s : State}
    (h : RunND env i (env.reset i) as s) (hd : env.done i s = false) :
    ∃ a, a < env.nAct i ∧ env.mask i s a = true ∧ as.length + 1 ≤ 2 * i.n + 1 :=
  progress i (gen_wf_mtvrp g) h hd

/-- non-vacuity: one customer at distance 1 from the depot, the generator's constants (a = 0.15, b = 0.18, c = 0.2,
max_time = 4.6, distance_limit = 3.0, speed 1, capacity 30), draws 1/2, demand 5; 10 000 ticks per unit -/
def genInst : Inst :=
  { n := 1, cap := 30, dL := fun j => if j = 1 then 5 else 0, dB := fun _ => 0, openR := false, limit := some 30000,
    early := fun j => if j = 1 then 21225 else 0, late := fun j => some (if j = 0 then 46000 else 23125),
    service := fun j => if j = 1 then 1650 else 0,
    D := fun a b => if a = b then 0 else 10000, T := fun a b => if a = b then 0 else 10000 }

example : GenPost 10000 1 genInst (fun _ => ⟨3/20, 9/50, 1/5, 23/5, 1, 1, 1/2, 1/2, 1/2⟩) (23/5) 3 30 1 10 1 10 where
  κpos := by norm_num
  upos := by norm_num
  cond := fun j _ _ => ⟨by constructor <;> norm_num, rfl⟩
  travel := fun j h1 h2 => by
    have : j = 1 := by simp only [genInst] at h2; omega
    subst this; simp [genInst]
  dist := fun j h1 h2 => by
    have : j = 1 := by simp only [genInst] at h2; omega
    subst this; simp [genInst]
  windows := Or.inr ⟨⟨46000, rfl, by norm_num⟩, fun j h1 h2 => by
    have : j = 1 := by simp only [genInst] at h2; omega
    subst this
    refine ⟨by norm_num [genInst, twStart, hMax, service, twLength], by norm_num [genInst, service],
      23125, rfl, by norm_num [twEnd, twStart, hMax, service, twLength]⟩⟩
  limit := Or.inr ⟨30000, rfl, by norm_num, fun j _ _ => by norm_num⟩
  cap := rfl
  bounds := by norm_num
  capNonneg := by norm_num
  depot := ⟨rfl, rfl⟩
  demand := fun j h1 h2 => by
    have : j = 1 := by simp only [genInst] at h2; omega
    subst this
    exact ⟨(5, 0), by simp [genInst], by simp [genInst], Or.inr ⟨rfl, by norm_num, by norm_num⟩⟩

/-- the environment-side reading of the feature set of an instance (what `MTVRPEnv.check_variants` looks at) -/
structure HasFeatures (i : Inst) (f : Features) : Prop where
  openR : i.openR = f.openRoute
  tw    : (f.twFinite = true → ∀ j, j ≤ i.n → i.late j ≠ none) ∧ (f.twFinite = false → ∀ j, j ≤ i.n → i.late j = none)
  limit : (f.limitFinite = true → i.limit ≠ none) ∧ (f.limitFinite = false → i.limit = none)
  back  : f.backhaulAllowed = false → ∀ j, i.dB j = 0

/-- **preset ⇒ features ⇒ WF ⇒ C02**, for each of the 16 variant names of the regenerated preset table: the named
preset exists in `VARIANT_GENERATION_PRESETS`, it enables exactly the features its name spells, and every instance
generated under it (generator post-conditions `GenPost`, feature removals applied) is well-formed, never dead-ends
and finishes every mask-confined episode within `2n+1` steps -/
theorem preset_chain (o tw l b : Bool) :
    ∃ row, Params.genMtvrpPresets.lookup (variantName ⟨o, tw, l, b⟩) = some row ∧
      applyKeep (keepNamed row) = { openRoute := o, twFinite := tw, limitFinite := l, backhaulAllowed := b } ∧
      ∀ {κ : ℚ} {u : Int} {i : Inst} {tws : Nat → TwIn} {Tmax limitR : ℚ} {C minD maxD minB maxB : Int},
        GenPost κ u i tws Tmax limitR C minD maxD minB maxB → HasFeatures i (applyKeep (keepNamed row)) →
        wf i = true ∧ i.openR = o ∧
        (∀ (as : List Nat) (s : State), RunND env i (env.reset i) as s →
          as.length ≤ 2 * i.n + 1 ∧
          (env.done i s = false → ∃ a, a < env.nAct i ∧ env.mask i s a = true)) := by
  have h := named_preset_features o tw l b
  cases hl : Params.genMtvrpPresets.lookup (variantName ⟨o, tw, l, b⟩) with
  | none => simp [hl] at h
  | some row =>
    simp only [hl, Option.map_some, Option.some.injEq] at h
    refine ⟨row, rfl, h, ?_⟩
    intro κ u i tws Tmax limitR C minD maxD minB maxB g hf
    have hwf := gen_wf_mtvrp g
    refine ⟨hwf, by rw [hf.openR, h], ?_⟩
    intro as s hrun
    refine ⟨steps_le i hwf hrun, fun hd => ?_⟩
    obtain ⟨a, ha, hm, _⟩ := progress i hwf hrun hd
    exact ⟨a, ha, hm⟩

/-- the one-customer generator image `genInst` with the features `(o, tw, l, b)` kept and the others removed -/
def genInstF (o tw l b : Bool) : Inst :=
  { genInst with
    openR := o
    late := fun j => if tw then genInst.late j else none
    limit := if l then genInst.limit else none
    dL := fun j => if b then 0 else genInst.dL j
    dB := fun j => if b then genInst.dL j else 0 }

/-- **non-vacuity for every one of the 16 presets**: `genInstF o tw l b` is a generator image with exactly those features -/
theorem genPost_genInstF (o tw l b : Bool) :
    GenPost 10000 1 (genInstF o tw l b) (fun _ => ⟨3/20, 9/50, 1/5, 23/5, 1, 1, 1/2, 1/2, 1/2⟩) (23/5) 3 30 1 10 1 10 ∧
    HasFeatures (genInstF o tw l b) { openRoute := o, twFinite := tw, limitFinite := l, backhaulAllowed := b } := by
  have one : ∀ j, 1 ≤ j → j ≤ (genInstF o tw l b).n → j = 1 := by
    intro j h1 h2; simp only [genInstF, genInst] at h2; omega
  refine ⟨{
    κpos := by norm_num
    upos := by norm_num
    cond := fun j _ _ => ⟨by constructor <;> norm_num, rfl⟩
    travel := fun j h1 h2 => by have := one j h1 h2; subst this; simp [genInstF, genInst]
    dist := fun j h1 h2 => by have := one j h1 h2; subst this; simp [genInstF, genInst]
    windows := by
      cases tw
      · left; intro j _; simp [genInstF]
      · right
        refine ⟨⟨46000, by simp [genInstF, genInst], by norm_num⟩, fun j h1 h2 => ?_⟩
        have := one j h1 h2; subst this
        refine ⟨by norm_num [genInstF, genInst, twStart, hMax, service, twLength], by norm_num [genInstF, genInst, service],
          23125, by simp [genInstF, genInst], by norm_num [twEnd, twStart, hMax, service, twLength]⟩
    limit := by
      cases l
      · left; simp [genInstF]
      · right; exact ⟨30000, by simp [genInstF, genInst], by norm_num, fun j _ _ => by norm_num⟩
    cap := rfl
    bounds := by norm_num
    capNonneg := by norm_num
    depot := by cases b <;> simp [genInstF, genInst]
    demand := fun j h1 h2 => by
      have := one j h1 h2; subst this
      cases b
      · exact ⟨(5, 0), by simp [genInstF, genInst], by simp [genInstF], Or.inr ⟨rfl, by norm_num, by norm_num⟩⟩
      · exact ⟨(0, 5), by simp [genInstF], by simp [genInstF, genInst], Or.inl ⟨rfl, by norm_num, by norm_num⟩⟩ }, ?_⟩
  refine ⟨rfl, ⟨?_, ?_⟩, ⟨?_, ?_⟩, ?_⟩
  · intro h j _; subst h; simp [genInstF, genInst]
  · intro h j _; subst h; simp [genInstF]
  · intro h; subst h; simp [genInstF, genInst]
  · intro h; subst h; simp [genInstF]
  · intro h j; simp only at h; subst h; simp [genInstF]

/-- hence, for every preset name, a generated instance exists and it is solvable -/
theorem preset_instance_solvable (o tw l b : Bool) :
    wf (genInstF o tw l b) = true ∧
    ∀ (as : List Nat) (s : State), RunND env (genInstF o tw l b) (env.reset (genInstF o tw l b)) as s → as.length ≤ 3 := by
  have g := (genPost_genInstF o tw l b).1
  exact ⟨gen_wf_mtvrp g, fun as s h => by simpa [genInstF, genInst] using gen_steps_le g h⟩

end Rl4co.Mtvrp
