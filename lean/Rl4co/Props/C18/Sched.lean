/-
C18, FJSP / JSSP generators: processing times within the documented range and positive, and every real operation
(`n_eligible ≥ 1`) eligible on at least one machine with a positive time — the well-formedness the scheduling
environments need.  Parameter conditions `1 ≤ min_pt`, `min_pt ≤ mean < max_pt` (the generator draws
`mean = randint(min_pt, max_pt)`), at least one machine; satisfied by the extracted defaults (`Tables.sched_defaults`).
-/
import Rl4co.Gen.Sched
import Rl4co.Props.C18.Tables
import Mathlib.Tactic.Linarith
namespace Rl4co.Gen.Sched
open Rl4co.Gen

/-! ### processing times -/

theorem fjsp_bounds (minPt maxPt mean : Int) (h1 : 1 ≤ minPt) (h2 : minPt ≤ mean) (h3 : mean < maxPt) :
    minPt ≤ fjspLow minPt mean ∧ fjspLow minPt mean ≤ mean ∧ mean + 1 ≤ fjspHigh maxPt mean ∧ fjspHigh maxPt mean ≤ maxPt + 1 := by
  have hs : spreadNum = 1 ∧ spreadDen = 5 := by decide   -- obligation on the extracted spread 0.2
  unfold fjspLow fjspHigh roundFrac
  simp only [hs.1, hs.2, Int.max_def, Int.min_def]
  push_cast
  split_ifs <;> omega

/-- FJSP (`same_mean_per_op`): whatever the raw 63-bit draw, the processing time lies in
`[max(min, round(0.8·mean)), min(max, round(1.2·mean))] ⊆ [min_pt, max_pt]`, in particular it is positive -/
theorem fjsp_proc_range (minPt maxPt mean : Int) (raw : Nat) (h1 : 1 ≤ minPt) (h2 : minPt ≤ mean) (h3 : mean < maxPt) :
    minPt ≤ fjspProc minPt maxPt mean raw ∧ fjspProc minPt maxPt mean raw ≤ maxPt ∧ 0 < fjspProc minPt maxPt mean raw := by
  obtain ⟨b1, b2, b3, b4⟩ := fjsp_bounds minPt maxPt mean h1 h2 h3
  unfold fjspProc
  have hpos : 0 < fjspHigh maxPt mean - fjspLow minPt mean := by omega
  have e1 := Int.emod_nonneg (raw : Int) (by omega : fjspHigh maxPt mean - fjspLow minPt mean ≠ 0)
  have e2 := Int.emod_lt_of_pos (raw : Int) hpos
  omega

/-! ### eligibility -/

theorem eligRow_getD (M nElig : Nat) (idx : List Nat) (m : Nat) (hm : m < M) :
    (eligRow M nElig idx).getD m false = decide (idx.getD m 0 + 1 ≤ nElig) := by
  unfold eligRow
  simp [List.getD_eq_getElem?_getD, hm]

/-- a shuffled eligibility row with `n_eligible ≥ 1` has a machine switched on (the machine the shuffle sends to
position 0 of the unshuffled row `[1,…,1,0,…,0]`) -/
theorem elig_exists (M nElig : Nat) (idx : List Nat) (hperm : idx.Perm (List.range M)) (hM : 0 < M) (h1 : 1 ≤ nElig) :
    ∃ m, m < M ∧ (eligRow M nElig idx).getD m false = true := by
  have hlen : idx.length = M := by simpa using hperm.length_eq
  have h0 : 0 ∈ idx := hperm.mem_iff.mpr (by simp [hM])
  obtain ⟨m, hm, hget⟩ := List.getElem_of_mem h0
  refine ⟨m, by omega, ?_⟩
  rw [eligRow_getD M nElig idx m (by omega)]
  have : idx[m]?.getD 0 = 0 := by simp [hm, hget]
  simp [List.getD_eq_getElem?_getD, this]; omega

theorem numEligible_pos_of_getD (col : List Int) (m : Nat) (hm : m < col.length) (h : 0 < col.getD m 0) : 1 ≤ numEligible col := by
  unfold numEligible
  have hmem : col[m] ∈ col.filter (fun t => decide (t > 0)) := by
    rw [List.mem_filter]
    refine ⟨List.getElem_mem _, ?_⟩
    have : col.getD m 0 = col[m] := by simp [List.getD_eq_getElem?_getD, hm]
    rw [this] at h; simpa using h
  exact List.length_pos_of_mem hmem

/-- **fjsp_operation_eligible**: every real operation (`n_eligible ≥ 1`) of a generated FJSP instance can run on
at least one machine with a positive processing time (parameters: `1 ≤ min_pt ≤ mean < max_pt`, at least one
machine, `idx` a permutation of the machines) -/
theorem fjsp_operation_eligible (M : Nat) (minPt maxPt : Int) (nElig : Nat) (idx : List Nat) (mean : Int) (raws : List Nat)
    (hperm : idx.Perm (List.range M)) (hM : 0 < M) (h1 : 1 ≤ nElig)
    (hp1 : 1 ≤ minPt) (hp2 : minPt ≤ mean) (hp3 : mean < maxPt) :
    1 ≤ numEligible (fjspColumn M minPt maxPt nElig idx mean raws) := by
  obtain ⟨m, hm, he⟩ := elig_exists M nElig idx hperm hM h1
  apply numEligible_pos_of_getD _ m (by simp [fjspColumn, hm])
  have : (fjspColumn M minPt maxPt nElig idx mean raws).getD m 0 = fjspProc minPt maxPt mean (raws.getD m 0) := by
    unfold fjspColumn
    simp [List.getD_eq_getElem?_getD, hm]
    intro hcon
    rw [List.getD_eq_getElem?_getD] at he
    simp [hcon] at he
  rw [this]
  exact (fjsp_proc_range minPt maxPt mean _ hp1 hp2 hp3).2.2

/-- without `same_mean_per_op`: times are `randint(min_pt, max_pt + 1)` draws, positive when `min_pt ≥ 1` -/
theorem fjsp_plain_operation_eligible (M nElig : Nat) (idx : List Nat) (times : List Int)
    (hperm : idx.Perm (List.range M)) (hM : 0 < M) (h1 : 1 ≤ nElig) (hpos : ∀ m, m < M → 0 < times.getD m 0) :
    1 ≤ numEligible (fjspColumnPlain M nElig idx times) := by
  obtain ⟨m, hm, he⟩ := elig_exists M nElig idx hperm hM h1
  apply numEligible_pos_of_getD _ m (by simp [fjspColumnPlain, hm])
  have : (fjspColumnPlain M nElig idx times).getD m 0 = times.getD m 0 := by
    unfold fjspColumnPlain
    simp [List.getD_eq_getElem?_getD, hm]
    intro hcon
    rw [List.getD_eq_getElem?_getD] at he
    simp [hcon] at he
  rw [this]; exact hpos m hm

/-- **jssp_operation_eligible**: a JSSP operation runs on its machine with the drawn positive time and on no other -/
theorem jssp_operation_eligible (M machine : Nat) (times : List Int) (hm : machine < M) (hpos : 0 < times.getD machine 0) :
    1 ≤ numEligible (jsspColumn M machine times) ∧
    ∀ m, m ≠ machine → (jsspColumn M machine times).getD m 0 = 0 := by
  constructor
  · apply numEligible_pos_of_getD _ machine (by simp [jsspColumn, hm])
    have : (jsspColumn M machine times).getD machine 0 = times.getD machine 0 := by
      unfold jsspColumn; simp [List.getD_eq_getElem?_getD, hm]
    rw [this]; exact hpos
  · intro m hne
    unfold jsspColumn
    by_cases hlt : m < M
    · simp [List.getD_eq_getElem?_getD, hlt, hne]
    · simp [List.getD_eq_getElem?_getD, hlt]

/-- non-vacuity -/
example : numEligible (fjspColumn 3 1 20 2 [2, 0, 1] 10 [5, 6, 7]) = 2 := by decide
example : [2, 0, 1].Perm (List.range 3) := by decide

/-! ### operation indices -/

theorem cumsum_length : ∀ ns : List Nat, (cumsum ns).length = ns.length
  | [] => rfl
  | n :: ns => by simp [cumsum, cumsum_length ns]

theorem cumsum_getD : ∀ (ns : List Nat) (j : Nat), j < ns.length → (cumsum ns).getD j 0 = (ns.take (j + 1)).sum
  | [], j, h => by simp at h
  | n :: ns, 0, _ => by simp [cumsum]
  | n :: ns, j + 1, h => by
    have hj : j < ns.length := by simpa using h
    have hl : j < (cumsum ns).length := by rw [cumsum_length]; exact hj
    have := cumsum_getD ns j hj
    simp only [cumsum, List.getD_eq_getElem?_getD, List.getElem?_cons_succ, List.getElem?_map, List.take_succ_cons, List.sum_cons] at this ⊢
    rw [List.getElem?_eq_getElem hl] at this ⊢
    simp only [Option.map_some, Option.getD_some] at this ⊢
    omega

/-- **op_index**: job `j` owns the operations `start_j … end_j` with `start_j = Σ_{i<j} n_i`, `end_j = start_j + n_j − 1`;
consecutive jobs are contiguous and the last operation id is `total − 1` -/
theorem op_index (ns : List Nat) (j : Nat) (hj : j < ns.length) :
    (endOps ns).getD j 0 = ((ns.take (j + 1)).sum : Int) - 1 ∧
    (startOps ns).getD j 0 = ((ns.take j).sum : Int) := by
  have hl : j < (cumsum ns).length := by rw [cumsum_length]; exact hj
  have he : ∀ k, k < ns.length → (endOps ns).getD k 0 = ((ns.take (k + 1)).sum : Int) - 1 := by
    intro k hk
    have hk' : k < (cumsum ns).length := by rw [cumsum_length]; exact hk
    have := cumsum_getD ns k hk
    simp only [endOps, List.getD_eq_getElem?_getD, List.getElem?_map] at this ⊢
    rw [List.getElem?_eq_getElem hk'] at this ⊢
    simp only [Option.map_some, Option.getD_some] at this ⊢
    omega
  refine ⟨he j hj, ?_⟩
  cases j with
  | zero => simp [startOps]
  | succ k =>
    have hk : k < ns.length := by omega
    have hk2 : k < (endOps ns).dropLast.length := by simp [endOps, cumsum_length]; omega
    have h1 := he k hk
    simp only [startOps, List.getD_eq_getElem?_getD, List.getElem?_cons_succ, List.getElem?_map] at h1 ⊢
    rw [List.getElem?_eq_getElem hk2]
    have hk3 : k < (endOps ns).length := by simp [endOps, cumsum_length]; omega
    rw [List.getElem?_eq_getElem hk3] at h1
    simp only [Option.map_some, Option.getD_some, List.getElem_dropLast] at h1 ⊢
    omega

example : startOps [2, 3, 1] = [0, 2, 5] ∧ endOps [2, 3, 1] = [1, 4, 5] ∧ padMask 8 [2, 3, 1] = [false, false, false, false, false, false, true, true] := by decide

end Rl4co.Gen.Sched
