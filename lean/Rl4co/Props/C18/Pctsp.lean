/-
C18 ↔ C01/C05 link for PCTSP / SPCTSP: what the instances of the bundled generator look like (ranges
proved in `Props/C18/Routing.lean: pctsp_ranges`), phrased on the environment model's instance type, and
what follows for the environment: the relation between the prize the policy is shown (deterministic =
expected) and the prize that is collected (stochastic, for SPCTSP).

The environment theorems C01–C06 of this family need NO well-formedness of prizes or penalties; the
facts below are therefore additional guarantees for generator instances, not missing hypotheses.
-/
import Rl4co.Props.C18.Routing
import Rl4co.Props.C05.Pctsp
import Rl4co.Props.C02.Pctsp

namespace Rl4co.Pctsp
open Rl4co.Spec.Pctsp Rl4co.Prize

/-- generator-shaped instance: non-negative prizes and penalties, expected prize below `4/n`, stochastic
prize between 0 and twice the expected prize -/
structure GenWF (i : Inst) : Prop where
  det_nonneg : ∀ j, 1 ≤ j → j ≤ i.n → 0 ≤ i.detPrize j
  det_lt     : ∀ j, 1 ≤ j → j ≤ i.n → i.n * i.detPrize j < 4 * i.req
  sto_nonneg : ∀ j, 1 ≤ j → j ≤ i.n → 0 ≤ i.stoPrize j
  sto_le     : ∀ j, 1 ≤ j → j ≤ i.n → i.stoPrize j ≤ 2 * i.detPrize j
  pen_nonneg : ∀ j, 1 ≤ j → j ≤ i.n → 0 ≤ i.pen j

/-- the instance `PCTSPGenerator._generate` emits for the uniform draws `p j / q` (expected prize),
`p2 j / q` (stochastic factor), `pp j / q` (penalty), all `< 1`: prizes in units of `1/(q²·n)`
(so the requirement 1.0 is `q²·n`), penalties as numerators over `q · den(max_penalty)` -/
def genInst (n q : Nat) (mp : Gen.Frac) (p p2 pp : Nat → Nat) (D : Nat → Nat → Int) (stochastic : Bool) : Inst :=
  { n := n, req := (q : Int) * q * n, D := D,
    detPrize := fun j => (q : Int) * Gen.pctspDetPrizeNum (p j),
    stoPrize := fun j => Gen.pctspStochPrizeNum (p2 j) (p j),
    stochastic := stochastic,
    pen := fun j => Gen.pctspPenaltyNum mp (pp j) }

/-- **C18 → environment**: generator instances are `GenWF` (from `Gen.pctsp_ranges`). -/
theorem genInst_wf (n q : Nat) (mp : Gen.Frac) (p p2 pp : Nat → Nat) (D : Nat → Nat → Int) (sto : Bool)
    (hn : 0 < n) (hmp : 0 ≤ mp.1)
    (hp : ∀ j, p j < q) (hp2 : ∀ j, p2 j < q) (hpp : ∀ j, pp j < q) :
    GenWF (genInst n q mp p p2 pp D sto) := by
  have hq : 0 < q := Nat.lt_of_le_of_lt (Nat.zero_le _) (hp 0)
  have hqi : (0 : Int) < q := by exact_mod_cast hq
  have hni : (0 : Int) < n := by exact_mod_cast hn
  refine ⟨?_, ?_, ?_, ?_, ?_⟩
  · intro j _ _
    obtain ⟨_, _, h3, _, _, _⟩ := Gen.pctsp_ranges mp (p j) (p2 j) q hmp (hp j) (hp2 j)
    exact Int.mul_nonneg hqi.le h3
  · intro j _ _
    obtain ⟨_, _, h3, h4, _, _⟩ := Gen.pctsp_ranges mp (p j) (p2 j) q hmp (hp j) (hp2 j)
    simp only [genInst]
    have hnq : (0 : Int) < n * q := Int.mul_pos hni hqi
    nlinarith
  · intro j _ _
    obtain ⟨_, _, _, _, h5, _⟩ := Gen.pctsp_ranges mp (p j) (p2 j) q hmp (hp j) (hp2 j)
    exact h5
  · intro j _ _
    obtain ⟨_, _, _, _, _, h6⟩ := Gen.pctsp_ranges mp (p j) (p2 j) q hmp (hp j) (hp2 j)
    simp only [genInst]
    nlinarith
  · intro j _ _
    obtain ⟨h1, _, _, _, _, _⟩ := Gen.pctsp_ranges mp (pp j) (p2 j) q hmp (hpp j) (hp2 j)
    exact h1

theorem sumTo_le_sumTo {n : Nat} {g h : Nat → Int} (H : ∀ k, k < n → g k ≤ h k) : sumTo n g ≤ sumTo n h := by
  induction n with
  | zero => simp [sumTo]
  | succ n ih =>
    have := ih (fun k hk => H k (Nat.lt_succ_of_lt hk))
    have := H n (Nat.lt_succ_self n)
    simp only [sumTo]
    omega

theorem sumTo_mul (n : Nat) (c : Int) (g : Nat → Int) : sumTo n (fun k => c * g k) = c * sumTo n g := by
  induction n with
  | zero => simp [sumTo]
  | succ n ih => simp only [sumTo, ih]; rw [Int.mul_add]

/-- expected prize of the customers that occur in `as` -/
def expectedCollected (i : Inst) (as : List Nat) : Int :=
  sumTo i.n (fun k => if k + 1 ∈ as then i.detPrize (k + 1) else 0)

/-- the prize really collected is at most twice the expected prize shown to the policy (SPCTSP on a
generator-shaped instance); for PCTSP they coincide -/
theorem collected_le_twice_expected (i : Inst) (hg : GenWF i) (as : List Nat) :
    collected i as ≤ 2 * expectedCollected i as := by
  simp only [collected, expectedCollected]
  rw [← sumTo_mul]
  apply sumTo_le_sumTo
  intro k hk
  by_cases hm : k + 1 ∈ as
  · simp only [hm, if_true, realPrize_eq]
    have h1 := hg.sto_le (k + 1) (by omega) (by omega)
    have h2 := hg.det_nonneg (k + 1) (by omega) (by omega)
    cases i.stochastic <;> simp <;> omega
  · simp [hm]

theorem collected_eq_expected_of_det (i : Inst) (hs : i.stochastic = false) (as : List Nat) :
    collected i as = expectedCollected i as := by
  simp [collected, expectedCollected, realPrize_eq, hs]

/-- **stochastic vs deterministic prize**: a finished mask-confined SPCTSP/PCTSP episode on a
generator-shaped instance that leaves a customer unvisited has collected an EXPECTED prize of at least
half the requirement (all of it for PCTSP). -/
theorem expected_ge_half_of_done (i : Inst) (hg : GenWF i) {as : List Nat} {s : State}
    (h : Run env i (env.reset i) as s) (hd : env.done i s = true) (hnot : ¬ AllVisited i as) :
    i.req ≤ 2 * expectedCollected i as := by
  rcases (feasible_of_run i h hd).prize with hp | hall
  · have := collected_le_twice_expected i hg as
    omega
  · exact absurd hall hnot

/-- the customer part of the mask, the visited set and the step counter do not depend on the prizes
at all: an episode prefix without depot visit is admitted for PCTSP iff it is admitted for SPCTSP -/
theorem admitted_customers_indep (i i' : Inst) (hn : i'.n = i.n) :
    ∀ (cs : List Nat) (s s' : State), (∀ c ∈ cs, c ≠ 0) → s'.vis = s.vis →
      admitted env i' s' cs = admitted env i s cs := by
  intro cs
  induction cs with
  | nil => intro s s' _ _; rfl
  | cons c t ih =>
    intro s s' hnz hv
    have hc0 : c ≠ 0 := hnz c (List.mem_cons_self)
    have hstep : (env.step i' s' c).vis = (env.step i s c).vis := by simp [env, step, hv]
    have ih' := ih (env.step i s c) (env.step i' s' c) (fun d hd => hnz d (List.mem_cons_of_mem _ hd)) hstep
    have hm : env.mask i' s' c = env.mask i s c := by simp [env, mask, hc0, hv]
    have ha : env.nAct i' = env.nAct i := by simp [env, hn]
    simp only [admitted, ih', hm, ha]

/-- **C18 → C02 chain (PCTSP / SPCTSP)**: every generator instance — indeed every instance — has no dead end
in any reachable state and finishes within `max (n+1) 2` steps; C02 needs no well-formedness here. -/
theorem gen_c02 (i : Inst) (_hg : GenWF i) :
    (∀ s : State, Reach env i s → ∃ a, a < env.nAct i ∧ env.mask i s a = true) ∧
    (∀ {as : List Nat} {s : State}, RunND env i (env.reset i) as s → as.length ≤ max (i.n + 1) 2) :=
  ⟨fun s hr => mask_nonempty i s hr, fun h => steps_le i h⟩

/-- Non-vacuity: a generator-shaped instance (n = 2, q = 4, draws 3/4, 1/4; stochastic factors 2/4, 3/4). -/
example : GenWF (genInst 2 4 (3, 2) (fun j => if j = 1 then 3 else 1) (fun j => if j = 1 then 2 else 3)
    (fun _ => 1) (fun _ _ => 0) true) :=
  genInst_wf 2 4 (3, 2) _ _ _ _ true (by decide) (by decide)
    (by intro j; split <;> decide) (by intro j; split <;> decide) (by intro j; decide)

end Rl4co.Pctsp
