/-
C18, translator tie for the MTVRP time windows: `Generated/GenMtvrpTw.lean` (`twGen`) is regenerated on every run from
the statements of `MTVRPGenerator.generate_time_windows`; here it is shown to be the model (`twStart`, `twEnd`, `service`
with the constants read from the source) and the window theorem is restated on the generated definition.  A source edit
that changes an operand, a factor or a constant of the formulas changes `twGen` and breaks `twGen_eq` (`rfl`).
-/
import Rl4co.Generated.GenMtvrpTw
import Rl4co.Props.C18.Mtvrp
namespace Rl4co.Gen.Mtvrp
open Rl4co.Gen.Mtvrp.Generated

/-- the source constants `a, b, c = 0.15, 0.18, 0.2` plugged into an input record -/
def withConsts (i : TwIn) : TwIn := { i with a := 3 / 20, b := 9 / 50, c := 1 / 5 }

/-- **bridge**: the statement-level translation is the model -/
theorem twGen_eq (i : TwIn) : twGen i = (twStart (withConsts i), twEnd (withConsts i), service (withConsts i)) := rfl

/-- the translated constants are the ones the separate token probe extracted (`Params.genMtvrpTwConsts`) -/
theorem consts_agree : Params.genMtvrpTwConsts = [(3, 20), (9, 50), (1, 5)] := by decide

/-- **mtvrp_window on the generated definition**: for every customer away from the depot, positive speed, draws in [0,1)
and room for the round trip (`2·d/v ≤ max_time − 0.18 − 0.2`), the window the *source statements* compute is ordered,
reachable and leaves time to return -/
theorem mtvrp_window_generated (i : TwIn) (hd : 0 < i.d) (hv : 0 < i.v)
    (hus : 0 ≤ i.us ∧ i.us < 1) (hul : 0 ≤ i.ul ∧ i.ul < 1) (hut : 0 ≤ i.ut ∧ i.ut < 1)
    (room : 2 * (i.d / i.v) ≤ i.T - 9 / 50 - 1 / 5) :
    i.d / i.v ≤ (twGen i).1 ∧ (twGen i).1 < (twGen i).2.1 ∧ i.d / i.v ≤ (twGen i).2.1 ∧
      (twGen i).2.1 + (twGen i).2.2 + i.d / i.v ≤ i.T := by
  have c : TwCond (withConsts i) :=
    { ha := by norm_num [withConsts], hab := by norm_num [withConsts], hb := by norm_num [withConsts],
      hbc := by norm_num [withConsts], hd := hd, hv := hv, hus := hus, hul := hul, hut := hut, room := room }
  rw [twGen_eq]
  exact mtvrp_window (withConsts i) c

/-- non-vacuity: the default farthest corner at double speed -/
example : (twGen ⟨0, 0, 0, 23/5, 14142/10000, 2, 1/2, 1/2, 1/2⟩).2.2 = 33 / 200 := by
  rw [twGen_eq]; norm_num [service, withConsts]

end Rl4co.Gen.Mtvrp
