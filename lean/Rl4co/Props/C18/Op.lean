/-
C18 → C01/C02 chain for OP: what the bundled generator emits (prize types `const`, `unif`, `dist` after
upstream fix a68723b; ranges proved in `Props/C18/Routing.lean: op_prize_total`), phrased on the
environment model's instance type, and what follows for the environment.  C02 for OP needs no
well-formedness at all, so the chain is: every generator instance, of every prize type, has no dead end,
keeps finished rows finished and finishes within `max (n+1) 2` steps; its prizes are positive, so the
objective is monotone and every visit pays.
-/
import Rl4co.Props.C18.Routing
import Rl4co.Props.C02.Op
import Rl4co.Props.C01.OpSpecSanity

namespace Rl4co.Op
open Rl4co.Spec.Op Rl4co.Prize

/-- the prize row the generator emits for prize type `t` (hundredths; `x j` = the integer draw for `unif`,
the distance to the depot for `dist`, `dmax` = the largest such distance) -/
def genPrize (t : Gen.PrizeType) (x : Nat → Int) (dmax : Int) : Nat → Int := fun j => Gen.opPrize100 t (x j) dmax

/-- **C18 → environment**: whatever the prize type, every generated prize is in `[0.01, 1]` -/
theorem genPrize_range (t : Gen.PrizeType) (x : Nat → Int) (dmax : Int) (h : ∀ j, Gen.PrizeInput t (x j) dmax) (j : Nat) :
    1 ≤ genPrize t x dmax j ∧ genPrize t x dmax j ≤ 100 :=
  Gen.op_prize_total t (x j) dmax (h j)

/-- hence on a generator instance visiting more customers never collects less … -/
theorem gen_objective_mono (i : Inst) (t : Gen.PrizeType) (x : Nat → Int) (dmax : Int)
    (h : ∀ j, Gen.PrizeInput t (x j) dmax) (hp : i.prize = genPrize t x dmax) {as bs : List Nat}
    (hsub : ∀ j, j ∈ as → j ∈ bs) : objective i as ≤ objective i bs :=
  objective_mono i (fun j _ _ => by rw [hp]; have := (genPrize_range t x dmax h j).1; omega) hsub

/-- … and **C02 for all three prize types**: no dead end in any state, and every mask-confined episode through
unfinished states has at most `max (n+1) 2` steps — for every generator instance, with no further hypothesis. -/
theorem gen_c02 (i : Inst) (t : Gen.PrizeType) (x : Nat → Int) (dmax : Int) (_hp : i.prize = genPrize t x dmax) :
    (∀ s : State, ∃ a, a < env.nAct i ∧ env.mask i s a = true) ∧
    (∀ {as : List Nat} {s : State}, RunND env i (env.reset i) as s → as.length ≤ max (i.n + 1) 2) :=
  ⟨mask_nonempty i, fun h => steps_le i h⟩

/-- Non-vacuity: the three prize types on concrete draws -/
example : genPrize .const (fun _ => 0) 1 3 = 100 ∧ genPrize .unif (fun _ => 41) 1 3 = 42 ∧
    genPrize .dist (fun _ => 50) 100 3 = 50 := by decide

end Rl4co.Op
