/-
C18 → C02 chains "generated ⇒ well-formed ⇒ every episode completes" for the environments whose chain was still
sampled only: SDVRP, mTSP, PDP, FFSP.  (CVRP: `Routing.gen_wf_cvrp`; CVRPTW, SVRP, FLP/MCP/DPP, FJSP/JSSP, MTVRP, PCTSP:
`Props/C02/CvrptwGen`, `SvrpGen`, `SelectGen`, `Props/C18/FjspGenWF`, `MtvrpWf`, `Pctsp`; TSP, ATSP, OP, PCTSP and
SMTWTP need no well-formedness beyond a positive size.)  Each chain ends in the environment family's own C02 step
bound applied to an instance assembled from the generator model's outputs.
-/
import Rl4co.Props.C18.Routing
import Rl4co.Props.C02.Sdvrp
import Rl4co.Props.C02.Mtsp
import Rl4co.Props.C02.Pdp
import Rl4co.Props.C02.Ffsp
namespace Rl4co.Gen
open Rl4co

/-! ### SDVRP (bundled generator = `CVRPGenerator`) -/

/-- the SDVRP instance assembled from generated demands (scaled by the capacity's denominator, as in `gen_wf_cvrp`) -/
def sdvrpInst (n : Nat) (minD maxD : Int) (ps : Nat → Nat) (q : Nat) (c : Frac) (D : Nat → Nat → Int) : Sdvrp.Inst :=
  { n := n, cap := c.1, demand := fun j => cvrpDemand minD maxD (ps j) q * c.2, D := D }

/-- **gen_wf (SDVRP)**: positive capacity and positive (hence non-negative) demands for all draws -/
theorem gen_wf_sdvrp (n : Nat) (minD maxD : Int) (ps : Nat → Nat) (q : Nat) (c : Frac) (D : Nat → Nat → Int)
    (h1 : 1 ≤ minD) (h : minD ≤ maxD) (hq : ∀ j, ps j < q) (hc : 0 < c.1) :
    Sdvrp.WFpos (sdvrpInst n minD maxD ps q c D) where
  cap := hc
  demand j := by
    have := (cvrp_demand_range minD maxD (ps j) q h1 h (hq j)).1
    exact Int.mul_nonneg (by omega) (Int.natCast_nonneg _)

/-- generated ⇒ solvable: every mask-confined SDVRP episode on a generated instance ends within the C02 bound -/
theorem gen_steps_le_sdvrp (n : Nat) (minD maxD : Int) (ps : Nat → Nat) (q : Nat) (c : Frac) (D : Nat → Nat → Int)
    (h1 : 1 ≤ minD) (h : minD ≤ maxD) (hq : ∀ j, ps j < q) (hc : 0 < c.1) {as : List Nat} {s : Sdvrp.State}
    (hr : RunND Sdvrp.env (sdvrpInst n minD maxD ps q c D) (Sdvrp.env.reset (sdvrpInst n minD maxD ps q c D)) as s) :
    (as.length : Int) ≤ 2 * ((n : Int) + Sdvrp.sumTo n (sdvrpInst n minD maxD ps q c D).demand / c.1) + 1 :=
  Sdvrp.steps_le _ (gen_wf_sdvrp n minD maxD ps q c D h1 h hq hc) hr

/-! ### mTSP: `num_agents = randint(min_num_agents, max_num_agents + 1)` -/

def mtspInst (numLoc : Nat) (r : Int) (D : Nat → Nat → Int) : Mtsp.Inst := { n := numLoc - 1, m := r.toNat, D := D }

/-- **gen_wf (mTSP)**: at least one customer and one agent, whatever the integer draw -/
theorem gen_wf_mtsp (numLoc : Nat) (minA maxA r : Int) (D : Nat → Nat → Int) (hn : 2 ≤ numLoc) (hmin : 1 ≤ minA)
    (hr : randintInclusiveOk minA maxA r = true) : Mtsp.WF (mtspInst numLoc r D) := by
  simp only [randintInclusiveOk, decide_eq_true_eq] at hr
  exact ⟨by simp only [mtspInst]; omega, by simp only [mtspInst]; omega⟩

/-- the number of agents stays in the configured range -/
theorem mtsp_agents_range (numLoc : Nat) (minA maxA r : Int) (D : Nat → Nat → Int) (hmin : 1 ≤ minA)
    (hr : randintInclusiveOk minA maxA r = true) :
    minA ≤ ((mtspInst numLoc r D).m : Int) ∧ ((mtspInst numLoc r D).m : Int) ≤ maxA := by
  simp only [randintInclusiveOk, decide_eq_true_eq] at hr
  simp only [mtspInst]; omega

theorem gen_steps_le_mtsp (numLoc : Nat) (minA maxA r : Int) (D : Nat → Nat → Int) (hn : 2 ≤ numLoc) (hmin : 1 ≤ minA)
    (hr : randintInclusiveOk minA maxA r = true) {as : List Nat} {s : Mtsp.State}
    (h : RunND Mtsp.env (mtspInst numLoc r D) (Mtsp.env.reset (mtspInst numLoc r D)) as s) :
    as.length ≤ numLoc + (mtspInst numLoc r D).m - 2 := by
  have := Mtsp.steps_le_text _ (gen_wf_mtsp numLoc minA maxA r D hn hmin hr) h
  simp only [mtspInst] at this ⊢; omega

/-! ### PDP: `num_loc` made even -/

def pdpInst (numLoc : Nat) (force : Bool) (D : Nat → Nat → Int) : Pdp.Inst := { h := pdpNumLoc numLoc / 2, force := force, D := D }

/-- **gen_wf (PDP)**: the emitted number of customers is exactly twice the number of pairs the environment uses
(no customer is left unpaired) and the episode length is positive -/
theorem gen_wf_pdp (numLoc : Nat) (force : Bool) (D : Nat → Nat → Int) (hn : 1 ≤ numLoc) :
    (pdpInst numLoc force D).n = pdpNumLoc numLoc ∧ Pdp.WF (pdpInst numLoc force D) := by
  obtain ⟨he, h1, h2⟩ := pdp_even numLoc
  have hn' : (pdpInst numLoc force D).n = pdpNumLoc numLoc := by simp only [Pdp.Inst.n, pdpInst]; omega
  refine ⟨hn', ?_⟩
  unfold Pdp.WF Pdp.len
  rw [hn']; split <;> omega

/-! ### FFSP: `run_time = randint(min_time, max_time)` -/

def ffspInst (S M J : Nat) (r : Nat → Nat → Int) (flat : Bool) : Ffsp.Inst :=
  { S := S, M := M, J := J, dur := fun j m => (r j m).toNat, perm := fun p => p, flat := flat }

/-- **gen_wf (FFSP)**: positive shape, identity machine permutation, every duration below the environment's sentinel
(`max_time ≤ 999999`) for all integer draws in `[min_time, max_time)` -/
theorem gen_wf_ffsp (S M J : Nat) (r : Nat → Nat → Int) (flat : Bool) (minT maxT : Int) (hS : 0 < S) (hM : 0 < M) (hJ : 0 < J)
    (hmin : 0 ≤ minT) (hmax : maxT ≤ 999999) (hr : ∀ j m, randintExclusiveOk minT maxT (r j m) = true) :
    Ffsp.WF (ffspInst S M J r flat) where
  S_pos := hS
  M_pos := hM
  J_pos := hJ
  perm_lt p hp := hp
  dur_lt j m _ _ := by
    have := hr j m
    simp only [randintExclusiveOk, decide_eq_true_eq] at this
    have h0 : 0 ≤ r j m := by omega
    show (((r j m).toNat : Nat) : Int) < 999999
    rw [Int.toNat_of_nonneg h0]; omega

theorem gen_steps_le_ffsp (S M J : Nat) (r : Nat → Nat → Int) (flat : Bool) (minT maxT : Int) (hS : 0 < S) (hM : 0 < M) (hJ : 0 < J)
    (hmin : 0 ≤ minT) (hmax : maxT ≤ 999999) (hr : ∀ j m, randintExclusiveOk minT maxT (r j m) = true)
    {as : List Nat} {s : Ffsp.State} (h : RunND Ffsp.envM (ffspInst S M J r flat) (Ffsp.envM.reset (ffspInst S M J r flat)) as s) :
    as.length ≤ Ffsp.stepBound (ffspInst S M J r flat) :=
  Ffsp.steps_le _ (gen_wf_ffsp S M J r flat minT maxT hS hM hJ hmin hmax hr) h

/-- non-vacuity -/
example : Mtsp.WF (mtspInst 5 3 (fun _ _ => 1)) := gen_wf_mtsp 5 1 5 3 _ (by decide) (by decide) (by decide)
example : (pdpInst 7 true (fun _ _ => 1)).n = 8 := by decide

end Rl4co.Gen
