/-
The generator / file-reader → environment link for FJSP and JSSP (C18/C19 → C02/C07): the
post-conditions proved about the generator models (`Rl4co.Gen.Sched`: `op_index`,
`fjsp_operation_eligible`, `jssp_operation_eligible`) and about the text-file reader
(`Rl4co.Gen.Persist`: `fjsp_read_write`, `jssp_read_write`) imply the well-formedness `Fjsp.WF` that
every environment theorem (no dead ends, termination, valid schedules, reachability of the optimum)
assumes.  So "generated / re-read instances are solvable" is a chain of theorems.
-/
import Rl4co.Props.C18.Sched
import Rl4co.Props.C19.Persist
import Rl4co.Proofs.Fjsp

namespace Rl4co.Fjsp
open Rl4co.Gen Rl4co.Gen.Sched
open Rl4co.Spec.Fjsp (isReal opOf)

/-- the environment instance the generator's TensorDict describes: `start_op_per_job`, `end_op_per_job`,
`pad_mask` from the operation counts, `proc_times[m][o] = proc m o` -/
def ofOps (M N : Nat) (nOps : List Nat) (proc : Nat → Nat → Int) (mno jssp : Bool) : Inst :=
  { J := nOps.length, M := M, N := N,
    startOp := fun j => ((startOps nOps).getD j 0).toNat,
    endOp := fun j => ((endOps nOps).getD j 0).toNat,
    proc := proc,
    pad := fun o => (padMask N nOps).getD o true,
    maskNoOps := mno, jssp := jssp }

/-! ### prefix sums -/

theorem take_succ_sum : ∀ (ns : List Nat) (j : Nat), j < ns.length →
    (ns.take (j + 1)).sum = (ns.take j).sum + ns.getD j 0
  | [], j, h => by simp at h
  | n :: ns, 0, _ => by simp
  | n :: ns, j + 1, h => by
    have := take_succ_sum ns j (by simpa using h)
    simp only [List.take_succ_cons, List.sum_cons, List.getD_cons_succ] at this ⊢
    omega

theorem take_sum_mono : ∀ (ns : List Nat) (a b : Nat), a ≤ b → (ns.take a).sum ≤ (ns.take b).sum
  | [], a, b, _ => by simp
  | n :: ns, 0, b, _ => by simp
  | n :: ns, a + 1, 0, h => by omega
  | n :: ns, a + 1, b + 1, h => by
    have := take_sum_mono ns a b (by omega)
    simp only [List.take_succ_cons, List.sum_cons]; omega

theorem take_sum_le (ns : List Nat) (a : Nat) : (ns.take a).sum ≤ ns.sum := by
  have := take_sum_mono ns a (a + ns.length) (by omega)
  have e : ns.take (a + ns.length) = ns := List.take_of_length_le (by omega)
  rw [e] at this
  exact this

/-- an operation id below the total belongs to some job's block -/
theorem find_job (ns : List Nat) : ∀ k, k ≤ ns.length → ∀ o, o < (ns.take k).sum →
    ∃ j, j < k ∧ (ns.take j).sum ≤ o ∧ o < (ns.take (j + 1)).sum := by
  intro k
  induction k with
  | zero => intro _ o h; simp at h
  | succ k ih =>
    intro hk o ho
    by_cases hlt : o < (ns.take k).sum
    · obtain ⟨j, hj, h1, h2⟩ := ih (by omega) o hlt
      exact ⟨j, by omega, h1, h2⟩
    · exact ⟨k, by omega, by omega, ho⟩

/-- `start_op_per_job[j]` / `end_op_per_job[j]` of `ofOps` as prefix sums (`op_index`) -/
theorem ofOps_start_end (M N : Nat) (nOps : List Nat) (proc : Nat → Nat → Int) (mno jssp : Bool)
    (h2 : ∀ n, n ∈ nOps → 1 ≤ n) (j : Nat) (hj : j < nOps.length) :
    (ofOps M N nOps proc mno jssp).startOp j = (nOps.take j).sum ∧
    (ofOps M N nOps proc mno jssp).endOp j + 1 = (nOps.take (j + 1)).sum ∧
    (nOps.take j).sum < (nOps.take (j + 1)).sum := by
  obtain ⟨he, hs⟩ := op_index nOps j hj
  have hsucc := take_succ_sum nOps j hj
  have hpos : 1 ≤ nOps.getD j 0 := by
    apply h2
    rw [List.getD_eq_getElem?_getD, List.getElem?_eq_getElem hj]
    exact List.getElem_mem _
  simp only [ofOps, he, hs]
  omega

/-- **the index structure and the eligibility post-conditions give `WF`** -/
theorem wf_ofOps (M N : Nat) (nOps : List Nat) (proc : Nat → Nat → Int) (mno jssp : Bool)
    (h1 : nOps ≠ []) (h2 : ∀ n, n ∈ nOps → 1 ≤ n) (h3 : nOps.sum ≤ N)
    (hnn : ∀ m o, m < M → o < N → 0 ≤ proc m o)
    (helig : ∀ o, o < nOps.sum → ∃ m, m < M ∧ 0 < proc m o)
    (huniq : jssp = true → ∀ o, o < nOps.sum → ∀ m m', m < M → m' < M → 0 < proc m o → 0 < proc m' o → m = m') :
    WF (ofOps M N nOps proc mno jssp) := by
  have hse := ofOps_start_end M N nOps proc mno jssp h2
  have hJ : (ofOps M N nOps proc mno jssp).J = nOps.length := rfl
  have hN : (ofOps M N nOps proc mno jssp).N = N := rfl
  have hlt_total : ∀ j, j < nOps.length → ∀ o, o ≤ (ofOps M N nOps proc mno jssp).endOp j → o < nOps.sum := by
    intro j hj o ho
    obtain ⟨_, h2', _⟩ := hse j hj
    have := take_sum_le nOps (j + 1)
    omega
  refine ⟨?_, ?_, ?_, hnn, ?_, ?_, ?_⟩
  · rw [hJ]; exact List.length_pos_iff.mpr h1
  · intro j hj
    obtain ⟨a, b, c⟩ := hse j hj
    have := take_sum_le nOps (j + 1)
    omega
  · intro j j' hj hj' hlt
    obtain ⟨_, b, _⟩ := hse j hj
    obtain ⟨a', _, _⟩ := hse j' hj'
    have := take_sum_mono nOps (j + 1) j' (by omega)
    omega
  · intro j hj o _ ho
    exact helig o (hlt_total j hj o ho)
  · intro hjs j hj o _ ho
    exact huniq hjs o (hlt_total j hj o ho)
  · intro o ho
    have ho' : o < N := ho
    have hpad : (ofOps M N nOps proc mno jssp).pad o = decide (o ≥ nOps.sum) := by
      simp [ofOps, padMask, List.getD_eq_getElem?_getD, List.getElem?_range ho']
    rw [hpad]
    constructor
    · intro h
      have hlt : o < nOps.sum := by simpa using h
      have : nOps.sum = (nOps.take nOps.length).sum := by rw [List.take_length]
      rw [this] at hlt
      obtain ⟨j, hj, h1', h2'⟩ := find_job nOps nOps.length (Nat.le_refl _) o hlt
      obtain ⟨a, b, _⟩ := hse j hj
      exact anyUpTo_iff.mpr ⟨j, hj, by simp only [opOf, Bool.and_eq_true, decide_eq_true_eq]; omega⟩
    · intro h
      obtain ⟨j, hj, hop⟩ := anyUpTo_iff.mp h
      simp only [opOf, Bool.and_eq_true, decide_eq_true_eq] at hop
      have := hlt_total j hj o hop.2
      simp; omega

/-! ### generator post-conditions ⇒ `WF` -/

theorem exists_pos_of_numEligible (col : List Int) (h : 1 ≤ numEligible col) :
    ∃ m, m < col.length ∧ 0 < col.getD m 0 := by
  unfold numEligible at h
  have hpos : 0 < (col.filter (fun t => decide (t > 0))).length := by omega
  obtain ⟨x, hx⟩ := List.exists_mem_of_length_pos hpos
  rw [List.mem_filter] at hx
  obtain ⟨m, hm, hget⟩ := List.getElem_of_mem hx.1
  refine ⟨m, hm, ?_⟩
  rw [List.getD_eq_getElem?_getD, List.getElem?_eq_getElem hm]
  simp only [Option.getD_some, hget]
  simpa using hx.2

/-- **gen_wf_fjsp**: an FJSP instance as `FJSPGenerator._generate` builds it — at least one job, at least one
operation per job (`min_ops_per_job ≥ 1`), `n_ops_max ≥` total, one column per operation produced by
`fjspColumn` from a shuffle `idx o` (a permutation of the machines), `n_eligible o ≥ 1` on the real
operations and parameters `1 ≤ min_pt ≤ mean o < max_pt` — is well-formed. -/
theorem gen_wf_fjsp (M N : Nat) (nOps : List Nat) (minPt maxPt : Int) (nElig : Nat → Nat) (idx : Nat → List Nat)
    (mean : Nat → Int) (raws : Nat → List Nat) (mno : Bool)
    (h1 : nOps ≠ []) (h2 : ∀ n, n ∈ nOps → 1 ≤ n) (h3 : nOps.sum ≤ N) (hM : 0 < M)
    (hperm : ∀ o, (idx o).Perm (List.range M)) (hel : ∀ o, o < nOps.sum → 1 ≤ nElig o)
    (hp1 : 1 ≤ minPt) (hp2 : ∀ o, minPt ≤ mean o) (hp3 : ∀ o, mean o < maxPt) :
    WF (ofOps M N nOps (fun m o => (fjspColumn M minPt maxPt (nElig o) (idx o) (mean o) (raws o)).getD m 0) mno false) := by
  apply wf_ofOps M N nOps _ mno false h1 h2 h3
  · intro m o hm _
    simp only [fjspColumn, List.getD_eq_getElem?_getD, List.getElem?_map, List.getElem?_range hm, Option.map_some,
      Option.getD_some]
    split
    · exact Int.le_of_lt (fjsp_proc_range minPt maxPt (mean o) _ hp1 (hp2 o) (hp3 o)).2.2
    · exact Int.le_refl 0
  · intro o ho
    have := fjsp_operation_eligible M minPt maxPt (nElig o) (idx o) (mean o) (raws o) (hperm o) hM (hel o ho) hp1 (hp2 o) (hp3 o)
    obtain ⟨m, hm, hpos⟩ := exists_pos_of_numEligible _ this
    exact ⟨m, by simpa [fjspColumn] using hm, hpos⟩
  · intro h; simp at h

/-- **gen_wf_jssp**: a JSSP instance as `JSSPGenerator._generate` builds it (one machine `machine o < M` per
operation with a positive drawn time) is well-formed, including the uniqueness clause JSSP needs. -/
theorem gen_wf_jssp (M N : Nat) (nOps : List Nat) (machine : Nat → Nat) (times : Nat → List Int) (mno : Bool)
    (h1 : nOps ≠ []) (h2 : ∀ n, n ∈ nOps → 1 ≤ n) (h3 : nOps.sum ≤ N)
    (hma : ∀ o, machine o < M) (hpos : ∀ o, 0 < (times o).getD (machine o) 0) :
    WF (ofOps M N nOps (fun m o => (jsspColumn M (machine o) (times o)).getD m 0) mno true) := by
  have hget : ∀ m o, m < M → (jsspColumn M (machine o) (times o)).getD m 0 =
      if m = machine o then (times o).getD m 0 else 0 := by
    intro m o hm
    simp [jsspColumn, List.getD_eq_getElem?_getD, List.getElem?_range hm]
  apply wf_ofOps M N nOps _ mno true h1 h2 h3
  · intro m o hm _
    simp only [hget m o hm]
    split
    · rename_i h; subst h; exact Int.le_of_lt (hpos o)
    · exact Int.le_refl 0
  · intro o _
    exact ⟨machine o, hma o, by simp only [hget _ o (hma o), if_true]; exact hpos o⟩
  · intro _ o _ m m' hm hm' hp hp'
    simp only [hget m o hm] at hp
    simp only [hget m' o hm'] at hp'
    have e1 : m = machine o := by
      apply Classical.byContradiction; intro h; simp [h] at hp
    have e2 : m' = machine o := by
      apply Classical.byContradiction; intro h; simp [h] at hp'
    rw [e1, e2]

/-! ### instances read from files written by the repo's writer ⇒ `WF` -/

open Rl4co.Gen.Persist in
/-- **read_wf_fjsp**: write an instance with the repo's FJSP writer and read it back with the repo's reader:
the instance the environment then gets (`max_ops = N` padding) is well-formed, provided the written
instance was (every real operation has a machine `< numMas` with a positive time, every job has an operation). -/
theorem read_wf_fjsp (i : Persist.Inst) (flex N : Nat) (mno : Bool)
    (h1 : i.nOps ≠ []) (h2 : ∀ n, n ∈ i.nOps → 1 ≤ n) (h3 : i.total ≤ N)
    (helig : ∀ o, o < i.total → ∃ m, m < i.numMas ∧ 0 < i.proc m o) :
    ∃ out, fjspRead (fjspWrite i flex) = some out ∧
      WF (ofOps out.numMas N out.nOps (fun m o => (out.proc m o : Int)) mno false) := by
  obtain ⟨out, hread, _, hM, hn, hproc⟩ := fjsp_read_write i flex h1
  refine ⟨out, hread, ?_⟩
  rw [hM, hn]
  apply wf_ofOps i.numMas N i.nOps _ mno false h1 h2 h3
  · intro m o _ _; exact Int.natCast_nonneg _
  · intro o ho
    obtain ⟨m, hm, hpos⟩ := helig o ho
    refine ⟨m, hm, ?_⟩
    have : out.proc m o = i.proc m o := by rw [hproc]; simp [hm, Persist.Inst.total] at ho ⊢; intro h; omega
    rw [this]; exact_mod_cast hpos
  · intro h; simp at h

open Rl4co.Gen.Persist in
/-- **read_wf_jssp**: the same for the JSSP text format -/
theorem read_wf_jssp (i : Persist.JInst) (N : Nat) (mno : Bool) (hma : ∀ op, i.ma op < i.numMas)
    (h1 : i.nOps ≠ []) (h2 : ∀ n, n ∈ i.nOps → 1 ≤ n) (h3 : i.nOps.sum ≤ N) (hdur : ∀ o, o < i.nOps.sum → 0 < i.dur o) :
    ∃ out, jsspRead (jsspWrite i) = some out ∧
      WF (ofOps out.numMas N out.nOps (fun m o => (out.proc m o : Int)) mno true) := by
  obtain ⟨out, hread, _, hM, hn, hproc⟩ := jssp_read_write i hma h1
  refine ⟨out, hread, ?_⟩
  rw [hM, hn]
  have hval : ∀ m o, o < i.nOps.sum → out.proc m o = if m = i.ma o then i.dur o else 0 := by
    intro m o ho; rw [hproc]; simp [ho, Persist.JInst.proc]
  apply wf_ofOps i.numMas N i.nOps _ mno true h1 h2 h3
  · intro m o _ _; exact Int.natCast_nonneg _
  · intro o ho
    refine ⟨i.ma o, hma o, ?_⟩
    rw [hval _ o ho]; simp; exact hdur o ho
  · intro _ o ho m m' _ _ hp hp'
    rw [hval m o ho] at hp
    rw [hval m' o ho] at hp'
    have e1 : m = i.ma o := by
      apply Classical.byContradiction; intro h; simp [h] at hp
    have e2 : m' = i.ma o := by
      apply Classical.byContradiction; intro h; simp [h] at hp'
    rw [e1, e2]

/-- the chain, spelled out once: a generated FJSP instance has no dead ends and every mask-confined
episode on it ends with a valid schedule (C18 ⇒ C02, C07) -/
theorem gen_fjsp_solvable (M N : Nat) (nOps : List Nat) (minPt maxPt : Int) (nElig : Nat → Nat) (idx : Nat → List Nat)
    (mean : Nat → Int) (raws : Nat → List Nat) (mno : Bool)
    (h1 : nOps ≠ []) (h2 : ∀ n, n ∈ nOps → 1 ≤ n) (h3 : nOps.sum ≤ N) (hM : 0 < M)
    (hperm : ∀ o, (idx o).Perm (List.range M)) (hel : ∀ o, o < nOps.sum → 1 ≤ nElig o)
    (hp1 : 1 ≤ minPt) (hp2 : ∀ o, minPt ≤ mean o) (hp3 : ∀ o, mean o < maxPt) :
    let i := ofOps M N nOps (fun m o => (fjspColumn M minPt maxPt (nElig o) (idx o) (mean o) (raws o)).getD m 0) mno false
    ∀ s, Reach env i s → (∃ a, a < env.nAct i ∧ env.mask i s a = true) ∧ s.err = false := by
  intro i s hs
  have hwf := gen_wf_fjsp M N nOps minPt maxPt nElig idx mean raws mno h1 h2 h3 hM hperm hel hp1 hp2 hp3
  obtain ⟨hinv, hsc⟩ := inv2_of_reach hwf hs
  refine ⟨?_, hinv.errF⟩
  simp only [stepComplete, Bool.and_eq_false_iff, Bool.not_eq_false'] at hsc
  rcases hsc with h | h
  · exact anyUpTo_iff.mp h
  · refine ⟨0, by simp only [env, nAct]; split <;> omega, ?_⟩
    simp only [env, mask, if_true, noOpMask_eq]
    split <;> simp [h]

/-- non-vacuity: the generator example of `Props/C18/Sched.lean` (operation counts `[2, 3, 1]`, padded to 8) -/
example : WF (ofOps 2 8 [2, 3, 1] (fun m o => (jsspColumn 2 (o % 2) [3, 4]).getD m 0) true true) :=
  gen_wf_jssp 2 8 [2, 3, 1] (fun o => o % 2) (fun _ => [3, 4]) true (by decide) (by decide) (by decide)
    (fun o => Nat.mod_lt _ (by decide)) (fun o => by
      have : o % 2 = 0 ∨ o % 2 = 1 := by omega
      rcases this with h | h <;> simp [h])

end Rl4co.Fjsp
