/-
C18, tables and defaults: obligations over the values `harness/extract.py` regenerates from /repo's sources into
`Rl4co/Generated/Params.lean` (`CAPACITIES`, `MAX_LENGTHS`, `VARIANT_GENERATION_PRESETS`, generator defaults).  They
are closed by `decide`, so an edited table entry or default that invalidates a side condition of the generator
theorems breaks this module at `lake build`.  Also: the nearest-key fallback of the lookups only ever returns
table values (any size, on or off the table).
-/
import Rl4co.Gen.Basic
import Rl4co.Gen.Routing
import Rl4co.Gen.Mtvrp
import Rl4co.Generated.Params
namespace Rl4co.Gen
open Rl4co Rl4co.Gen.Mtvrp

/-! ## table lookups -/

theorem nearest_mem {α : Type} (n : Nat) : ∀ (tbl : List (Nat × α)) (e : Nat × α), nearest n tbl = some e → e ∈ tbl
  | [], e, h => by simp [nearest] at h
  | x :: xs, e, h => by
    unfold nearest at h
    cases hn : nearest n xs with
    | none => simp [hn] at h; simp [h]
    | some b =>
      simp only [hn] at h
      split at h
      · simp at h; simp [h]
      · simp at h; subst h; exact List.mem_cons_of_mem _ (nearest_mem n xs b hn)

theorem lookup_mem {α : Type} (tbl : List (Nat × α)) (n : Nat) (v : α) (h : tbl.lookup n = some v) : (n, v) ∈ tbl := by
  induction tbl with
  | nil => simp at h
  | cons x xs ih =>
    obtain ⟨k, w⟩ := x
    simp only [List.lookup_cons] at h
    split at h
    · rename_i heq
      simp at h; simp at heq; subst h; subst heq; simp
    · exact List.mem_cons_of_mem _ (ih h)

/-- whatever the size (on or off the table), the looked-up value is one of the table's values -/
theorem tblLookup_mem {α : Type} (tbl : List (Nat × α)) (n : Nat) (v : α) (h : tblLookup tbl n = some v) :
    ∃ k, (k, v) ∈ tbl := by
  unfold tblLookup at h
  cases hl : tbl.lookup n with
  | some w => simp [hl] at h; subst h; exact ⟨n, lookup_mem tbl n w hl⟩
  | none =>
    simp only [hl] at h
    cases hn : nearest n tbl with
    | none => simp [hn] at h
    | some e =>
      simp [hn] at h; subst h
      exact ⟨e.1, nearest_mem n tbl e hn⟩

/-- a non-empty table always yields a value (the fallback never fails) -/
theorem tblLookup_isSome {α : Type} (tbl : List (Nat × α)) (n : Nat) (h : tbl ≠ []) : (tblLookup tbl n).isSome = true := by
  unfold tblLookup
  cases hl : tbl.lookup n with
  | some w => simp
  | none =>
    cases tbl with
    | nil => exact absurd rfl h
    | cons x xs =>
      simp only [nearest]
      cases nearest n xs with
      | none => simp
      | some b => simp only []; split <;> simp


/-! ## obligations on the extracted tables and defaults -/

/-- every capacity is at least `maxD` (and has a positive denominator) -/
def capsCover (tbl : List (Nat × Frac)) (maxD : Frac) : Bool :=
  tbl.all (fun e => decide (maxD.1 * e.2.2 ≤ e.2.1 * maxD.2) && decide (0 < e.2.2))

/-- **table obligation**: every `CAPACITIES` entry is ≥ the default `max_demand` (CVRP and CVRPTW generators) -/
theorem capacities_cover_max_demand :
    capsCover Params.genCvrpCapacities Params.genCvrpMaxDemand = true ∧
    capsCover Params.genCvrpCapacities Params.genCvrptwMaxDemand = true := by decide

theorem cvrp_defaults : Params.genCvrpMinDemand = (1, 1) ∧ Params.genCvrpMaxDemand.2 = 1 ∧
    1 ≤ Params.genCvrpMinDemand.1 ∧ Params.genCvrpMinDemand.1 ≤ Params.genCvrpMaxDemand.1 := by decide

/-- the dataset writer (`data/generate_data.py`) carries copies of the tables: they agree with the generators' -/
theorem data_tables_agree :
    Params.genDataVrpCapacities = Params.genCvrpCapacities ∧
    Params.genDataOpMaxLengths = Params.genOpMaxLengths ∧
    Params.genDataPctspMaxLengths = Params.genPctspMaxLengths := by decide

/-- `generate_vrp_data` draws raw demands `randint(1, 10)` = 1..9: every table capacity is ≥ 9 -/
theorem data_capacities_cover : capsCover Params.genDataVrpCapacities (9, 1) = true := by decide

theorem max_lengths_pos :
    (Params.genOpMaxLengths.all (fun e => decide (0 < e.2.1 ∧ 0 < e.2.2))) = true ∧
    (Params.genPctspMaxLengths.all (fun e => decide (0 < e.2.1 ∧ 0 < e.2.2))) = true ∧
    Params.genCvrpCapacities ≠ [] ∧ Params.genOpMaxLengths ≠ [] ∧ Params.genPctspMaxLengths ≠ [] := by decide

/-- squares of fractions: `8·(hi − lo)² ≤ r²` with `lo = a/b`, `hi = c/d`, `r = e/f`, cross-multiplied -/
def boxFits (lo hi r : Frac) (strict : Bool) : Bool :=
  let w : Int := hi.1 * lo.2 - lo.1 * hi.2          -- (hi − lo) · (lo.2 · hi.2)
  let wd : Int := (lo.2 : Int) * hi.2
  if strict then decide (8 * (w * w) * ((r.2 : Int) * r.2) < r.1 * r.1 * (wd * wd))
  else decide (8 * (w * w) * ((r.2 : Int) * r.2) ≤ r.1 * r.1 * (wd * wd))

/-- CVRPTW defaults: the farthest corner is at distance `√2·(max_loc − min_loc)`, and
`2·√2·(max_loc − min_loc) + 1 ≤ max_time`, i.e. `8(max_loc − min_loc)² ≤ (max_time − 1)²` -/
theorem cvrptw_defaults_room :
    boxFits Params.genCvrptwMinLoc Params.genCvrptwMaxLoc
      (Params.genCvrptwMaxTime.1 - Params.genCvrptwMaxTime.2, Params.genCvrptwMaxTime.2) false = true ∧
    0 < Params.genCvrptwMaxTime.2 ∧ Params.genCvrptwMaxTime.2 ≤ Params.genCvrptwMaxTime.1 := by decide

/-- the three constants of `generate_time_windows` -/
def twA : Frac := Params.genMtvrpTwConsts.getD 0 (0, 1)
def twB : Frac := Params.genMtvrpTwConsts.getD 1 (0, 1)
def twC : Frac := Params.genMtvrpTwConsts.getD 2 (0, 1)

/-- `max_time − b − c` as a fraction -/
def mtvrpSlack : Frac :=
  (Params.genMtvrpMaxTime.1 * twB.2 * twC.2 - twB.1 * Params.genMtvrpMaxTime.2 * twC.2 - twC.1 * Params.genMtvrpMaxTime.2 * twB.2,
   Params.genMtvrpMaxTime.2 * twB.2 * twC.2)

/-- MTVRP defaults: constants ordered `0 ≤ a ≤ b ≤ c`, `0 < b`; speed 1; the round trip to the farthest corner fits
into `max_time − b − c` and stays below the distance limit; demands fit the smallest vehicle capacity (30) -/
theorem mtvrp_defaults :
    Params.genMtvrpTwConsts.length = 3 ∧
    Frac.le (0, 1) twA = true ∧ Frac.le twA twB = true ∧ Frac.le twB twC = true ∧ Frac.lt (0, 1) twB = true ∧
    Params.genMtvrpSpeed = (1, 1) ∧
    0 < mtvrpSlack.1 ∧
    boxFits Params.genMtvrpMinLoc Params.genMtvrpMaxLoc mtvrpSlack false = true ∧
    boxFits Params.genMtvrpMinLoc Params.genMtvrpMaxLoc Params.genMtvrpDistanceLimit true = true ∧
    Frac.le Params.genMtvrpMaxDemand (30, 1) = true ∧ Frac.le Params.genMtvrpMaxBackhaul (30, 1) = true ∧
    Frac.le (1, 1) Params.genMtvrpMinDemand = true ∧ Frac.le (1, 1) Params.genMtvrpMinBackhaul = true := by decide

/-- scheduling / ATSP / MCP defaults satisfy the parameter conditions of the generator theorems -/
theorem sched_defaults :
    1 ≤ Params.genFjspMinProcessingTime.1 ∧ Params.genFjspMinProcessingTime.1 < Params.genFjspMaxProcessingTime.1 ∧
    Params.genFjspMinProcessingTime.2 = 1 ∧ Params.genFjspMaxProcessingTime.2 = 1 ∧
    1 ≤ Params.genFjspMinEligibleMaPerOp.1 ∧ 1 ≤ Params.genFjspMinOpsPerJob.1 ∧
    Params.genFjspMinOpsPerJob.1 ≤ Params.genFjspMaxOpsPerJob.1 ∧
    1 ≤ Params.genJsspMinProcessingTime.1 ∧ Params.genJsspMinProcessingTime.1 ≤ Params.genJsspMaxProcessingTime.1 := by decide

theorem atsp_mcp_defaults :
    Frac.le (0, 1) Params.genAtspMinDist = true ∧ Frac.le Params.genAtspMinDist Params.genAtspMaxDist = true ∧
    1 ≤ Params.genMcpMinSize.1 ∧ Params.genMcpMinSize.1 ≤ Params.genMcpMaxSize.1 ∧
    1 ≤ Params.genMcpMinWeight.1 ∧ Params.genMcpMinWeight.1 ≤ Params.genMcpMaxWeight.1 := by decide

/-! ## `VARIANT_GENERATION_PRESETS` -/

def featKeys : List String := ["O", "TW", "L", "B"]

def countTrue (k : Keep) : Nat := k.o.toNat + k.tw.toNat + k.l.toNat + k.b.toNat

/-- what a row of `VARIANT_GENERATION_PRESETS` must look like for the positional reading of
`subsample_problems` (column 0 = O, 1 = TW, 2 = L, 3 = B) to mean what the preset's name says -/
def presetRowOk (e : String × List (String × Frac)) : Bool :=
  let keys := e.2.map (·.1)
  let probs := probsOf e.2
  if e.1 = "single_feat_otw" then
    keys == featKeys ++ ["OTW"] && probs.all (fun p => p.1 > 0 && p.2 > 0)
      && (catSupport e.2).all (fun idx =>
            let k := keepCategorical e.1 idx
            decide (countTrue k ≤ 1) || (k.o && k.tw && !k.l && !k.b))
  else if e.1 = "cvrp" then
    keys == featKeys && (catSupport e.2).all (fun idx => keepCategorical e.1 idx == Keep.ofList [])
  else if e.1 = "single_feat" then
    keys == featKeys && probs.all (fun p => p.1 > 0 && p.2 > 0)
      && (catSupport e.2).all (fun idx => decide (countTrue (keepCategorical e.1 idx) ≤ 1))
      && (catSupport e.2) == [0, 1, 2, 3, 4]
  else if e.1 = "all" then
    keys == featKeys && probs.all (fun p => decide (0 < p.1 ∧ p.1 < p.2))   -- every feature both kept and dropped with positive probability
  else
    keys == featKeys && probs.all (fun p => (p.1 == 0 || p.1 == 1) && p.2 == 1)
      && variantName (keepNamed e.2) == e.1

theorem preset_consistent : Params.genMtvrpPresets.all presetRowOk = true := by decide

/-- every one of the 16 feature combinations has its named preset in the table -/
theorem preset_complete : ∀ o tw l b : Bool,
    (Params.genMtvrpPresets.lookup (variantName ⟨o, tw, l, b⟩)).map keepNamed = some ⟨o, tw, l, b⟩ := by decide

/-- non-vacuity: the table is not empty and contains a named three-feature preset -/
example : (Params.genMtvrpPresets.lookup "ovrpltw").map keepNamed = some ⟨true, true, true, false⟩ := by decide
example : tblLookup Params.genCvrpCapacities 17 = some (25, 1) := by decide

end Rl4co.Gen
