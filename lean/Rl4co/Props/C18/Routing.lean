/-
C18, range lemmas of the routing / graph generators as functions of the raw draws: coordinates and every other
affine sampler stay within their bounds, CVRP integer demands lie in `[min_demand, max_demand]` and — divided by the
table capacity, for every size on or off the table — never exceed 1 (so generated instances satisfy the CVRP
environment's `WF`), OP prizes, PDP pairing, MCP membership rows.  (The three generator defects once refuted here — OP's `const`/`unif` prize types, MCP's `cutoffs_masks` width, the
`"center"` constant — are fixed upstream; their statements are now full theorems.)
-/
import Rl4co.Gen.Basic
import Rl4co.Gen.Routing
import Rl4co.Generated.Params
import Rl4co.Props.C18.Tables
import Rl4co.Props.C02.Cvrp
import Mathlib.Tactic.Linarith
namespace Rl4co.Gen
open Rl4co

/-! ### affine samplers (`Uniform(lo, hi).sample()`, `uniform_(lo, hi)`): coordinates, penalties, prizes, skills … -/

theorem aff_lower (lo hi : Int) (p q : Nat) (h : lo ≤ hi) : lo * q ≤ affNum lo hi p q := by
  unfold affNum
  have : (0:Int) ≤ (p:Int) * (hi - lo) := Int.mul_nonneg (Int.natCast_nonneg p) (by omega)
  omega

theorem aff_upper (lo hi : Int) (p q : Nat) (h : lo ≤ hi) (hp : p < q) : affNum lo hi p q ≤ hi * q := by
  unfold affNum
  have h1 : (p:Int) * (hi - lo) ≤ (q:Int) * (hi - lo) :=
    Int.mul_le_mul_of_nonneg_right (by exact_mod_cast hp.le) (by omega)
  nlinarith

theorem aff_upper_strict (lo hi : Int) (p q : Nat) (h : lo < hi) (hp : p < q) : affNum lo hi p q < hi * q := by
  unfold affNum
  have h1 : (p:Int) * (hi - lo) < (q:Int) * (hi - lo) :=
    Int.mul_lt_mul_of_pos_right (by exact_mod_cast hp) (by omega)
  nlinarith

/-- `⌊lo + u(hi−lo)⌋ + add` stays in `[lo + add, hi + add]` (and below `hi + add` when `lo < hi`) for `0 ≤ lo` -/
theorem affInt_range (lo hi add : Int) (p q : Nat) (h0 : 0 ≤ lo) (h : lo ≤ hi) (hp : p < q) :
    lo + add ≤ affInt lo hi add p q ∧ affInt lo hi add p q ≤ hi + add ∧ (lo < hi → affInt lo hi add p q ≤ hi + add - 1) := by
  have hq : (0:Int) < (q:Int) := by exact_mod_cast (Nat.lt_of_le_of_lt (Nat.zero_le p) hp)
  have hl := aff_lower lo hi p q h
  have hu := aff_upper lo hi p q h hp
  have hnn : 0 ≤ affNum lo hi p q := le_trans (Int.mul_nonneg h0 hq.le) hl
  unfold affInt truncDiv
  rw [Int.tdiv_eq_ediv_of_nonneg hnn]
  refine ⟨?_, ?_, ?_⟩
  · have := Int.le_ediv_of_mul_le hq hl; omega
  · have : affNum lo hi p q / (q:Int) ≤ hi := by
      apply Int.ediv_le_of_le_mul hq; exact hu
    omega
  · intro hlt
    have hs := aff_upper_strict lo hi p q hlt hp
    have : affNum lo hi p q / (q:Int) < hi := Int.ediv_lt_of_lt_mul hq hs
    omega


/-- coordinates: `min_loc ≤ loc ≤ max_loc` (strictly below `max_loc` when the box is non-degenerate) for every draw -/
theorem coord_in_bounds (minLoc maxLoc : Int) (p q : Nat) (h : minLoc ≤ maxLoc) (hp : p < q) :
    minLoc * q ≤ coordNum minLoc maxLoc p q ∧ coordNum minLoc maxLoc p q ≤ maxLoc * q :=
  ⟨aff_lower minLoc maxLoc p q h, aff_upper minLoc maxLoc p q h hp⟩

/-- PCTSP: `0 ≤ penalty < max_penalty`, `0 ≤ deterministic prize < 4/n`, `0 ≤ stochastic prize < 2·deterministic prize`
(numerators over the respective denominators) -/
theorem pctsp_ranges (mp : Frac) (p p2 q : Nat) (hmp : 0 ≤ mp.1) (hp : p < q) (hp2 : p2 < q) :
    0 ≤ pctspPenaltyNum mp p ∧ pctspPenaltyNum mp p ≤ mp.1 * q ∧
    0 ≤ pctspDetPrizeNum p ∧ pctspDetPrizeNum p < 4 * q ∧
    0 ≤ pctspStochPrizeNum p2 p ∧ pctspStochPrizeNum p2 p ≤ 2 * q * pctspDetPrizeNum p := by
  unfold pctspStochPrizeNum pctspDetPrizeNum pctspPenaltyNum
  have hp' : (p : Int) < q := by exact_mod_cast hp
  have hp2' : (p2 : Int) < q := by exact_mod_cast hp2
  have h0 : (0 : Int) ≤ p := Int.natCast_nonneg p
  have h02 : (0 : Int) ≤ p2 := Int.natCast_nonneg p2
  refine ⟨Int.mul_nonneg h0 hmp, ?_, by omega, by omega, ?_, ?_⟩
  · nlinarith
  · exact Int.mul_nonneg (by omega) (by omega)
  · nlinarith

/-- SVRP: every customer's required skill is at most the best technician's level (`skills = max(techs)·u`, `u < 1`),
so every customer can be served by some technician -/
theorem svrp_skill_le_best (techMax : Int) (p2 q2 : Nat) (h0 : 0 ≤ techMax) (hp : p2 < q2) :
    0 ≤ svrpSkillNum techMax p2 ∧ svrpSkillNum techMax p2 ≤ techMax * q2 := by
  unfold svrpSkillNum
  have : (p2 : Int) ≤ q2 := by exact_mod_cast hp.le
  exact ⟨Int.mul_nonneg h0 (Int.natCast_nonneg _), Int.mul_le_mul_of_nonneg_left this h0⟩

/-! ### the `"center"` distribution -/

/-- **center_in_bounds**: the constant of the `"center"` distribution, `(high + low)/2`, lies in `[low, high]`
for every box (fixed upstream in 4726d9c; before it was `(high − low)/2`) -/
theorem center_in_bounds (lo hi : Int) (h : lo ≤ hi) : 2 * lo ≤ centerTwice lo hi ∧ centerTwice lo hi ≤ 2 * hi := by
  have hmid : Params.genCenterIsMid = true := by decide   -- obligation on the extracted formula
  unfold centerTwice; rw [hmid]; simp only [if_true]; omega

example : centerTwice 2 3 = 5 := by decide

/-! ### CVRP -/

theorem demand_shape : Params.genCvrpDemandShape = (-1, -1, 1) := by decide

/-- CVRP: every generated integer demand lies in `[min_demand, max_demand]` (never reaching `max_demand` when the
range is non-degenerate) -/
theorem cvrp_demand_range (minD maxD : Int) (p q : Nat) (h1 : 1 ≤ minD) (h : minD ≤ maxD) (hp : p < q) :
    minD ≤ cvrpDemand minD maxD p q ∧ cvrpDemand minD maxD p q ≤ maxD ∧
    (minD < maxD → cvrpDemand minD maxD p q ≤ maxD - 1) := by
  unfold cvrpDemand
  rw [demand_shape]
  have := affInt_range (minD + -1) (maxD + -1) 1 p q (by omega) (by omega) hp
  simp only [] at this ⊢
  omega

/-- a capacity override (or any capacity) at least `max_demand` keeps every demand within the vehicle -/
theorem cvrp_demand_fits_of_cap (minD maxD : Int) (p q : Nat) (c : Frac) (h1 : 1 ≤ minD) (h : minD ≤ maxD) (hp : p < q)
    (hc : maxD * c.2 ≤ c.1) : demandFits (cvrpDemand minD maxD p q) c = true := by
  have hd := (cvrp_demand_range minD maxD p q h1 h hp).2.1
  have : cvrpDemand minD maxD p q * (c.2 : Int) ≤ maxD * c.2 := Int.mul_le_mul_of_nonneg_right hd (Int.natCast_nonneg _)
  simp only [demandFits, decide_eq_true_eq]; omega

/-- **cvrp_demand_le_capacity**: with the default demand range and the `CAPACITIES` table, for *every* `num_loc`
(table key or not — the nearest-key fallback) and every draw, `demand / capacity ≤ 1` -/
theorem cvrp_demand_le_capacity (n : Nat) (p q : Nat) (hp : p < q) (c : Frac) (hc : cvrpCapacity none n = some c) :
    demandFits (cvrpDemand Params.genCvrpMinDemand.1 Params.genCvrpMaxDemand.1 p q) c = true := by
  obtain ⟨k, hk⟩ := tblLookup_mem Params.genCvrpCapacities n c (by simpa [cvrpCapacity] using hc)
  have hcov := List.all_eq_true.mp capacities_cover_max_demand.1 (k, c) hk
  simp only [Bool.and_eq_true, decide_eq_true_eq] at hcov
  obtain ⟨d1, d2, d3, d4⟩ := cvrp_defaults
  apply cvrp_demand_fits_of_cap _ _ p q c d3 d4 hp
  have := hcov.1
  rw [d2] at this
  omega

/-- the table never fails to produce a capacity -/
theorem cvrp_capacity_total (n : Nat) : (cvrpCapacity none n).isSome = true :=
  tblLookup_isSome _ n max_lengths_pos.2.2.1

/-- **gen_wf (CVRP)**: an instance assembled from generated demands and a capacity ≥ `max_demand` satisfies the
well-formedness predicate `Rl4co.Cvrp.WF` under which the CVRP environment's termination theorem (C02) is proved.
Demands are scaled by the capacity's denominator so that both sides are integers. -/
theorem gen_wf_cvrp (n : Nat) (minD maxD : Int) (ps : Nat → Nat) (q : Nat) (c : Frac) (D : Nat → Nat → Int)
    (h1 : 1 ≤ minD) (h : minD ≤ maxD) (hq : ∀ j, ps j < q) (hc : maxD * c.2 ≤ c.1) :
    Rl4co.Cvrp.WF { n := n, cap := c.1, demand := fun j => cvrpDemand minD maxD (ps j) q * c.2, D := D } := by
  intro j _ _
  have := cvrp_demand_fits_of_cap minD maxD (ps j) q c h1 h (hq j) hc
  simpa [demandFits] using this

/-- non-vacuity: default range, draw 7/8 → demand 8 ≤ 30 -/
example : cvrpDemand 1 10 7 8 = 8 ∧ demandFits 8 (30, 1) = true := by decide

/-! ### OP prizes -/

/-- admissible raw input of a prize type: `const` none, `unif` an integer draw of `randint(0, 100)`,
`dist` a distance `0 ≤ d ≤ dmax` with `dmax > 0` -/
def PrizeInput (t : PrizeType) (x dmax : Int) : Prop :=
  match t with
  | .const => True
  | .unif => 0 ≤ x ∧ x < 100
  | .dist => 0 ≤ x ∧ x ≤ dmax ∧ 0 < dmax

/-- `prize_type = "dist"`: prizes are hundredths in `[1, 100]` (so `0.01 ≤ prize ≤ 1`) -/
theorem op_prize_range (d dmax : Int) (h0 : 0 ≤ d) (h1 : d ≤ dmax) (h2 : 0 < dmax) :
    1 ≤ opPrize100 .dist d dmax ∧ opPrize100 .dist d dmax ≤ 100 := by
  unfold opPrize100
  simp only []
  rw [Int.tdiv_eq_ediv_of_nonneg (by omega)]
  have h3 := Int.ediv_nonneg (by omega : 0 ≤ d * 99) h2.le
  have h4 : d * 99 / dmax ≤ 99 := Int.ediv_le_of_le_mul h2 (by omega)
  omega

/-- **op_prize_total**: every documented prize type (`const`, `unif`, `dist`) yields a prize in `[0.01, 1]`
(hundredths in `[1, 100]`) for every admissible draw (the `const`/`unif` branches run since a68723b) -/
theorem op_prize_total (t : PrizeType) (x dmax : Int) (h : PrizeInput t x dmax) :
    1 ≤ opPrize100 t x dmax ∧ opPrize100 t x dmax ≤ 100 := by
  cases t with
  | const => simp [opPrize100]
  | unif => simp only [PrizeInput] at h; simp only [opPrize100]; omega
  | dist => exact op_prize_range x dmax h.1 h.2.1 h.2.2

example : opPrize100 .unif 99 0 = 100 ∧ opPrize100 .const 0 0 = 100 ∧ opPrize100 .dist 5 13 = 39 := by decide

/-! ### PDP pairing -/

theorem pdp_even (n : Nat) : pdpNumLoc n % 2 = 0 ∧ n ≤ pdpNumLoc n ∧ pdpNumLoc n ≤ n + 1 := by
  unfold pdpNumLoc; split <;> simp_all; omega

/-- with an even number `N` of customers the map pickup `i` ↦ delivery `i + N/2` is a bijection from
`{1..N/2}` onto `{N/2+1..N}` -/
theorem pdp_pairing (N : Nat) (hN : N % 2 = 0) :
    (∀ i, 1 ≤ i → i ≤ N / 2 → N / 2 < pdpDelivery N i ∧ pdpDelivery N i ≤ N) ∧
    (∀ i j, pdpDelivery N i = pdpDelivery N j → i = j) ∧
    (∀ k, N / 2 < k → k ≤ N → ∃ i, 1 ≤ i ∧ i ≤ N / 2 ∧ pdpDelivery N i = k) := by
  unfold pdpDelivery
  refine ⟨fun i h1 h2 => by omega, fun i j h => by omega, fun k h1 h2 => ⟨k - N / 2, by omega, by omega, by omega⟩⟩

/-! ### MCP -/

theorem mcp_clamp_range (mn mx : Int) (p q : Nat) (h : mn ≤ mx) :
    mn ≤ mcpClampFloor mn mx p q ∧ mcpClampFloor mn mx p q ≤ mx := by
  unfold mcpClampFloor
  simp only [Int.max_def, Int.min_def]
  split_ifs <;> omega

theorem count_map_zero (a x : Nat) (hx : x ≠ 0) (l : List Nat) :
    (l.map (fun y => if y = a then 0 else y)).count x = if x = a then 0 else l.count x := by
  induction l with
  | nil => simp
  | cons y ys ih =>
    simp only [List.map_cons, List.count_cons, ih]
    by_cases hxa : x = a
    · subst hxa
      by_cases hy : y = x
      · simp [hy, Ne.symm hx]
      · simp [hy]
    · by_cases hy : y = a
      · subst hy; simp [hxa, Ne.symm hxa]
        intro h; exact absurd h.symm hx
      · simp [hxa, hy]

/-- `remove_repeat`: no item (non-zero entry) is listed twice in a membership row -/
theorem removeRepeat_nodup (l : List Nat) (x : Nat) (hx : x ≠ 0) : (removeRepeat l).count x ≤ 1 := by
  induction l with
  | nil => simp [removeRepeat]
  | cons y ys ih =>
    simp only [removeRepeat, List.count_cons, count_map_zero y x hx]
    by_cases hxy : x = y
    · subst hxy; simp
    · have : (y == x) = false := by simp; exact fun h => hxy h.symm
      simp [hxy, this]; exact ih

theorem removeRepeat_length (l : List Nat) : (removeRepeat l).length = l.length := by
  induction l with
  | nil => simp [removeRepeat]
  | cons y ys ih => simp [removeRepeat, ih]


theorem removeRepeat_mem (l : List Nat) (x : Nat) (hx : x ∈ removeRepeat l) : x = 0 ∨ x ∈ l := by
  induction l generalizing x with
  | nil => simp [removeRepeat] at hx
  | cons y ys ih =>
    simp only [removeRepeat, List.mem_cons, List.mem_map] at hx
    rcases hx with rfl | ⟨z, hz, hzx⟩
    · right; simp
    · split at hzx
      · left; exact hzx.symm
      · subst hzx
        rcases ih z hz with h | h
        · left; exact h
        · right; simp [h]

/-- **mcp_gen_total**: for every draw of items and every (clamped) set size a membership row comes out, as wide as
the sampled maximum; no item is listed twice; every listed item is one of the first `size` drawn items (fixed
upstream in 202be23: the mask is cut at the sampled maximum) -/
theorem mcp_gen_total (items : List Nat) (size : Nat) :
    (mcpRow items size).length = items.length ∧
    (∀ x, x ≠ 0 → (mcpRow items size).count x ≤ 1) ∧
    (∀ x, x ∈ mcpRow items size → x = 0 ∨ x ∈ items.take size) := by
  refine ⟨by simp [mcpRow, removeRepeat_length], fun x hx => removeRepeat_nodup _ x hx, ?_⟩
  intro x hx
  rcases removeRepeat_mem _ x hx with h | h
  · left; exact h
  · simp only [List.mem_map, List.mem_range] at h
    obtain ⟨k, hk, hkx⟩ := h
    split at hkx
    · right
      rw [List.mem_take_iff_getElem]
      refine ⟨k, by omega, ?_⟩
      simp [List.getD_eq_getElem?_getD, hk] at hkx
      exact hkx
    · left; exact hkx.symm

example : mcpRow [3, 3, 5] 2 = [3, 0, 0] ∧ mcpRow [1, 2] 2 = [1, 2] := by decide

end Rl4co.Gen
