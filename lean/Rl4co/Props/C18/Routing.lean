/-
C18, range lemmas of the routing / graph generators as functions of the raw draws: coordinates and every other
affine sampler stay within their bounds, CVRP integer demands lie in `[min_demand, max_demand]` and — divided by the
table capacity, for every size on or off the table — never exceed 1 (so generated instances satisfy the CVRP
environment's `WF`), OP prizes, PDP pairing, MCP membership rows.  Two generator defects are stated and refuted:
OP's `const`/`unif` prize types and MCP's `cutoffs_masks` width.
-/
import Rl4co.Gen.Basic
import Rl4co.Gen.Routing
import Rl4co.Generated.Params
import Rl4co.Props.C18.Tables
import Rl4co.Props.C02.Cvrp
import Mathlib.Tactic.Linarith
namespace Rl4co.Gen
open Rl4co

/-! ### affine samplers (`Uniform(lo, hi).sample()`, `uniform_(lo, hi)`): coordinates, penalties, prizes, skills … -/

theorem aff_lower (lo hi : Int) (p q : Nat) (h : lo ≤ hi) : lo * q ≤ affNum lo hi p q := by
  unfold affNum
  have : (0:Int) ≤ (p:Int) * (hi - lo) := Int.mul_nonneg (Int.natCast_nonneg p) (by omega)
  omega

theorem aff_upper (lo hi : Int) (p q : Nat) (h : lo ≤ hi) (hp : p < q) : affNum lo hi p q ≤ hi * q := by
  unfold affNum
  have h1 : (p:Int) * (hi - lo) ≤ (q:Int) * (hi - lo) :=
    Int.mul_le_mul_of_nonneg_right (by exact_mod_cast hp.le) (by omega)
  nlinarith

theorem aff_upper_strict (lo hi : Int) (p q : Nat) (h : lo < hi) (hp : p < q) : affNum lo hi p q < hi * q := by
  unfold affNum
  have h1 : (p:Int) * (hi - lo) < (q:Int) * (hi - lo) :=
    Int.mul_lt_mul_of_pos_right (by exact_mod_cast hp) (by omega)
  nlinarith

/-- `⌊lo + u(hi−lo)⌋ + add` stays in `[lo + add, hi + add]` (and below `hi + add` when `lo < hi`) for `0 ≤ lo` -/
theorem affInt_range (lo hi add : Int) (p q : Nat) (h0 : 0 ≤ lo) (h : lo ≤ hi) (hp : p < q) :
    lo + add ≤ affInt lo hi add p q ∧ affInt lo hi add p q ≤ hi + add ∧ (lo < hi → affInt lo hi add p q ≤ hi + add - 1) := by
  have hq : (0:Int) < (q:Int) := by exact_mod_cast (Nat.lt_of_le_of_lt (Nat.zero_le p) hp)
  have hl := aff_lower lo hi p q h
  have hu := aff_upper lo hi p q h hp
  have hnn : 0 ≤ affNum lo hi p q := le_trans (Int.mul_nonneg h0 hq.le) hl
  unfold affInt truncDiv
  rw [Int.tdiv_eq_ediv_of_nonneg hnn]
  refine ⟨?_, ?_, ?_⟩
  · have := Int.le_ediv_of_mul_le hq hl; omega
  · have : affNum lo hi p q / (q:Int) ≤ hi := by
      apply Int.ediv_le_of_le_mul hq; exact hu
    omega
  · intro hlt
    have hs := aff_upper_strict lo hi p q hlt hp
    have : affNum lo hi p q / (q:Int) < hi := Int.ediv_lt_of_lt_mul hq hs
    omega


/-- coordinates: `min_loc ≤ loc ≤ max_loc` (strictly below `max_loc` when the box is non-degenerate) for every draw -/
theorem coord_in_bounds (minLoc maxLoc : Int) (p q : Nat) (h : minLoc ≤ maxLoc) (hp : p < q) :
    minLoc * q ≤ coordNum minLoc maxLoc p q ∧ coordNum minLoc maxLoc p q ≤ maxLoc * q :=
  ⟨aff_lower minLoc maxLoc p q h, aff_upper minLoc maxLoc p q h hp⟩

/-- PCTSP: `0 ≤ penalty < max_penalty`, `0 ≤ deterministic prize < 4/n`, `0 ≤ stochastic prize < 2·deterministic prize`
(numerators over the respective denominators) -/
theorem pctsp_ranges (mp : Frac) (p p2 q : Nat) (hmp : 0 ≤ mp.1) (hp : p < q) (hp2 : p2 < q) :
    0 ≤ pctspPenaltyNum mp p ∧ pctspPenaltyNum mp p ≤ mp.1 * q ∧
    0 ≤ pctspDetPrizeNum p ∧ pctspDetPrizeNum p < 4 * q ∧
    0 ≤ pctspStochPrizeNum p2 p ∧ pctspStochPrizeNum p2 p ≤ 2 * q * pctspDetPrizeNum p := by
  unfold pctspStochPrizeNum pctspDetPrizeNum pctspPenaltyNum
  have hp' : (p : Int) < q := by exact_mod_cast hp
  have hp2' : (p2 : Int) < q := by exact_mod_cast hp2
  have h0 : (0 : Int) ≤ p := Int.natCast_nonneg p
  have h02 : (0 : Int) ≤ p2 := Int.natCast_nonneg p2
  refine ⟨Int.mul_nonneg h0 hmp, ?_, by omega, by omega, ?_, ?_⟩
  · nlinarith
  · exact Int.mul_nonneg (by omega) (by omega)
  · nlinarith

/-- SVRP: every customer's required skill is at most the best technician's level (`skills = max(techs)·u`, `u < 1`),
so every customer can be served by some technician -/
theorem svrp_skill_le_best (techMax : Int) (p2 q2 : Nat) (h0 : 0 ≤ techMax) (hp : p2 < q2) :
    0 ≤ svrpSkillNum techMax p2 ∧ svrpSkillNum techMax p2 ≤ techMax * q2 := by
  unfold svrpSkillNum
  have : (p2 : Int) ≤ q2 := by exact_mod_cast hp.le
  exact ⟨Int.mul_nonneg h0 (Int.natCast_nonneg _), Int.mul_le_mul_of_nonneg_left this h0⟩

/-! ### the `"center"` distribution -/

/-- C18 "coordinates within bounds" for the `"center"` distribution as stated: the constant lies in `[lo, hi]` -/
def center_in_bounds_statement : Prop :=
  ∀ lo hi : Int, lo ≤ hi → 2 * lo ≤ centerTwice lo hi ∧ centerTwice lo hi ≤ 2 * hi

/-- it fails for a box that does not start at 0: `get_sampler` uses `(high − low)/2`, not `(high + low)/2`
(`min_loc = 2, max_loc = 3` puts every "centre" at 0.5) -/
theorem center_in_bounds_counterexample : ¬ center_in_bounds_statement := by
  intro h; have := h 2 3 (by decide); simp [centerTwice] at this

/-- in bounds exactly when `3·lo ≤ hi` (in particular for the default `lo = 0`) -/
theorem center_in_bounds_partial (lo hi : Int) (h0 : 0 ≤ lo) (_h : lo ≤ hi) :
    (2 * lo ≤ centerTwice lo hi ∧ centerTwice lo hi ≤ 2 * hi) ↔ 3 * lo ≤ hi := by
  unfold centerTwice; omega

/-! ### CVRP -/

theorem demand_shape : Params.genCvrpDemandShape = (-1, -1, 1) := by decide

/-- CVRP: every generated integer demand lies in `[min_demand, max_demand]` (never reaching `max_demand` when the
range is non-degenerate) -/
theorem cvrp_demand_range (minD maxD : Int) (p q : Nat) (h1 : 1 ≤ minD) (h : minD ≤ maxD) (hp : p < q) :
    minD ≤ cvrpDemand minD maxD p q ∧ cvrpDemand minD maxD p q ≤ maxD ∧
    (minD < maxD → cvrpDemand minD maxD p q ≤ maxD - 1) := by
  unfold cvrpDemand
  rw [demand_shape]
  have := affInt_range (minD + -1) (maxD + -1) 1 p q (by omega) (by omega) hp
  simp only [] at this ⊢
  omega

/-- a capacity override (or any capacity) at least `max_demand` keeps every demand within the vehicle -/
theorem cvrp_demand_fits_of_cap (minD maxD : Int) (p q : Nat) (c : Frac) (h1 : 1 ≤ minD) (h : minD ≤ maxD) (hp : p < q)
    (hc : maxD * c.2 ≤ c.1) : demandFits (cvrpDemand minD maxD p q) c = true := by
  have hd := (cvrp_demand_range minD maxD p q h1 h hp).2.1
  have : cvrpDemand minD maxD p q * (c.2 : Int) ≤ maxD * c.2 := Int.mul_le_mul_of_nonneg_right hd (Int.natCast_nonneg _)
  simp only [demandFits, decide_eq_true_eq]; omega

/-- **cvrp_demand_le_capacity**: with the default demand range and the `CAPACITIES` table, for *every* `num_loc`
(table key or not — the nearest-key fallback) and every draw, `demand / capacity ≤ 1` -/
theorem cvrp_demand_le_capacity (n : Nat) (p q : Nat) (hp : p < q) (c : Frac) (hc : cvrpCapacity none n = some c) :
    demandFits (cvrpDemand Params.genCvrpMinDemand.1 Params.genCvrpMaxDemand.1 p q) c = true := by
  obtain ⟨k, hk⟩ := tblLookup_mem Params.genCvrpCapacities n c (by simpa [cvrpCapacity] using hc)
  have hcov := List.all_eq_true.mp capacities_cover_max_demand.1 (k, c) hk
  simp only [Bool.and_eq_true, decide_eq_true_eq] at hcov
  obtain ⟨d1, d2, d3, d4⟩ := cvrp_defaults
  apply cvrp_demand_fits_of_cap _ _ p q c d3 d4 hp
  have := hcov.1
  rw [d2] at this
  omega

/-- the table never fails to produce a capacity -/
theorem cvrp_capacity_total (n : Nat) : (cvrpCapacity none n).isSome = true :=
  tblLookup_isSome _ n max_lengths_pos.2.2.1

/-- **gen_wf (CVRP)**: an instance assembled from generated demands and a capacity ≥ `max_demand` satisfies the
well-formedness predicate `Rl4co.Cvrp.WF` under which the CVRP environment's termination theorem (C02) is proved.
Demands are scaled by the capacity's denominator so that both sides are integers. -/
theorem gen_wf_cvrp (n : Nat) (minD maxD : Int) (ps : Nat → Nat) (q : Nat) (c : Frac) (D : Nat → Nat → Int)
    (h1 : 1 ≤ minD) (h : minD ≤ maxD) (hq : ∀ j, ps j < q) (hc : maxD * c.2 ≤ c.1) :
    Rl4co.Cvrp.WF { n := n, cap := c.1, demand := fun j => cvrpDemand minD maxD (ps j) q * c.2, D := D } := by
  intro j _ _
  have := cvrp_demand_fits_of_cap minD maxD (ps j) q c h1 h (hq j) hc
  simpa [demandFits] using this

/-- non-vacuity: default range, draw 7/8 → demand 8 ≤ 30 -/
example : cvrpDemand 1 10 7 8 = 8 ∧ demandFits 8 (30, 1) = true := by decide

/-! ### OP prizes -/

/-- `prize_type = "dist"`: prizes are hundredths in `[1, 100]` (so `0.01 ≤ prize ≤ 1`) -/
theorem op_prize_range (d dmax : Int) (h0 : 0 ≤ d) (h1 : d ≤ dmax) (h2 : 0 < dmax) :
    ∃ v, opPrize100 .dist d dmax = some v ∧ 1 ≤ v ∧ v ≤ 100 := by
  refine ⟨1 + Int.tdiv (d * 99) dmax, rfl, ?_, ?_⟩
  · rw [Int.tdiv_eq_ediv_of_nonneg (by omega)]
    have := Int.ediv_nonneg (by omega : 0 ≤ d * 99) h2.le
    omega
  · rw [Int.tdiv_eq_ediv_of_nonneg (by omega)]
    have : d * 99 / dmax ≤ 99 := Int.ediv_le_of_le_mul h2 (by omega)
    omega

/-- C18 for OP as stated: every documented prize type yields prizes -/
def op_prize_total_statement : Prop :=
  ∀ (t : PrizeType) (d dmax : Int), 0 ≤ d → d ≤ dmax → 0 < dmax → (opPrize100 t d dmax).isSome = true

/-- it fails: `const` (and `unif`) raise — the generator reads `self.device`, which it never sets -/
theorem op_prize_total_counterexample : ¬ op_prize_total_statement := by
  intro h; have := h .const 1 1 (by decide) (by decide) (by decide); simp [opPrize100] at this

theorem op_prize_total_partial (d dmax : Int) (h0 : 0 ≤ d) (h1 : d ≤ dmax) (h2 : 0 < dmax) :
    (opPrize100 .dist d dmax).isSome = true := by
  obtain ⟨v, hv, _⟩ := op_prize_range d dmax h0 h1 h2; simp [hv]

/-- what the `unif` branch computes once the attribute error is repaired: hundredths in [1, 100] -/
theorem op_prize_unif_intended (r : Int) (h : 0 ≤ r ∧ r < 100) : 1 ≤ opPrizeUnifIntended r ∧ opPrizeUnifIntended r ≤ 100 := by
  unfold opPrizeUnifIntended; omega

/-! ### PDP pairing -/

theorem pdp_even (n : Nat) : pdpNumLoc n % 2 = 0 ∧ n ≤ pdpNumLoc n ∧ pdpNumLoc n ≤ n + 1 := by
  unfold pdpNumLoc; split <;> simp_all; omega

/-- with an even number `N` of customers the map pickup `i` ↦ delivery `i + N/2` is a bijection from
`{1..N/2}` onto `{N/2+1..N}` -/
theorem pdp_pairing (N : Nat) (hN : N % 2 = 0) :
    (∀ i, 1 ≤ i → i ≤ N / 2 → N / 2 < pdpDelivery N i ∧ pdpDelivery N i ≤ N) ∧
    (∀ i j, pdpDelivery N i = pdpDelivery N j → i = j) ∧
    (∀ k, N / 2 < k → k ≤ N → ∃ i, 1 ≤ i ∧ i ≤ N / 2 ∧ pdpDelivery N i = k) := by
  unfold pdpDelivery
  refine ⟨fun i h1 h2 => by omega, fun i j h => by omega, fun k h1 h2 => ⟨k - N / 2, by omega, by omega, by omega⟩⟩

/-! ### MCP -/

theorem mcp_clamp_range (mn mx : Int) (p q : Nat) (h : mn ≤ mx) :
    mn ≤ mcpClampFloor mn mx p q ∧ mcpClampFloor mn mx p q ≤ mx := by
  unfold mcpClampFloor
  simp only [Int.max_def, Int.min_def]
  split_ifs <;> omega

/-- C18 for the MCP generator as stated: for every draw of set sizes (the membership tensor has as many columns
`m` as the largest sampled size, `1 ≤ m ≤ max_size`) a membership row comes out -/
def mcp_gen_total_statement : Prop :=
  ∀ (maxSize : Nat) (items : List Nat) (size : Nat), 1 ≤ items.length → items.length ≤ maxSize →
    (mcpRow maxSize items size).isSome = true

/-- it fails: `max_size = 3`, largest sampled size 2 — `cutoffs_masks` has 3 columns, the membership tensor 2 -/
theorem mcp_gen_total_counterexample : ¬ mcp_gen_total_statement := by
  intro h; have := h 3 [1, 2] 2 (by decide) (by decide); simp [mcpRow] at this

/-- exactly when the largest sampled size reaches `max_size` (or is 1, where broadcasting hides the mismatch)
does generation succeed -/
theorem mcp_gen_total_partial (maxSize : Nat) (items : List Nat) (size : Nat) (h1 : 1 ≤ items.length) (h2 : items.length ≤ maxSize) :
    (mcpRow maxSize items size).isSome = true ↔ (items.length = maxSize ∨ items.length = 1) := by
  unfold mcpRow
  simp only []
  by_cases ha : items.length = maxSize
  · simp [ha]
  · by_cases hb : items.length = 1
    · have hm : ¬ (1 = maxSize) := by omega
      simp [hb, hm]
    · have hc : maxSize ≠ 1 := by omega
      simp [ha, hb, hc]

/-- when it succeeds with `m = max_size` the row is the intended one (mask cut at the sampled maximum) -/
theorem mcp_row_eq_intended (items : List Nat) (size : Nat) :
    mcpRow items.length items size = some (mcpRowIntended items size) := by
  simp [mcpRow, mcpRowIntended]

theorem count_map_zero (a x : Nat) (hx : x ≠ 0) (l : List Nat) :
    (l.map (fun y => if y = a then 0 else y)).count x = if x = a then 0 else l.count x := by
  induction l with
  | nil => simp
  | cons y ys ih =>
    simp only [List.map_cons, List.count_cons, ih]
    by_cases hxa : x = a
    · subst hxa
      by_cases hy : y = x
      · simp [hy, Ne.symm hx]
      · simp [hy]
    · by_cases hy : y = a
      · subst hy; simp [hxa, Ne.symm hxa]
        intro h; exact absurd h.symm hx
      · simp [hxa, hy]

/-- `remove_repeat`: no item (non-zero entry) is listed twice in a membership row -/
theorem removeRepeat_nodup (l : List Nat) (x : Nat) (hx : x ≠ 0) : (removeRepeat l).count x ≤ 1 := by
  induction l with
  | nil => simp [removeRepeat]
  | cons y ys ih =>
    simp only [removeRepeat, List.count_cons, count_map_zero y x hx]
    by_cases hxy : x = y
    · subst hxy; simp
    · have : (y == x) = false := by simp; exact fun h => hxy h.symm
      simp [hxy, this]; exact ih

theorem removeRepeat_length (l : List Nat) : (removeRepeat l).length = l.length := by
  induction l with
  | nil => simp [removeRepeat]
  | cons y ys ih => simp [removeRepeat, ih]

end Rl4co.Gen
