/-
C18, ATSP: the min-plus closure loop of `ATSPGenerator._generate` as coded — a *single* pass
`for i in range(n): dms = minimum(dms, dms[:, [i]] + dms[[i], :])` after zeroing the diagonal — is Floyd–Warshall:
with non-negative raw entries the output has zero diagonal, non-negative entries not above the raw ones, and
satisfies the triangle inequality.  (Exact arithmetic; float32 additions may break it by rounding — sampled by the
harness.)  The non-negativity hypothesis is needed (example below).
-/
import Rl4co.Gen.Atsp
namespace Rl4co.Gen.Atsp

/-- what one knows of the matrix before the loop: zero diagonal, non-negative entries -/
structure Pre (D : Mat) : Prop where
  diag : ∀ a, D a a = 0
  nonneg : ∀ a b, 0 ≤ D a b

/-- invariant after `k` iterations: `Pre`, and the triangle inequality through every intermediate `j < k` -/
structure Inv (D : Mat) (k : Nat) : Prop extends Pre D where
  tri : ∀ a b j, j < k → D a b ≤ D a j + D j b

theorem relax_le (D : Mat) (i a b : Nat) : relax D i a b ≤ D a b := by
  unfold relax; exact Int.min_le_left _ _

theorem relax_le_via (D : Mat) (i a b : Nat) : relax D i a b ≤ D a i + D i b := by
  unfold relax; exact Int.min_le_right _ _

theorem relax_eq (D : Mat) (i a b : Nat) : relax D i a b = D a b ∨ relax D i a b = D a i + D i b := by
  unfold relax; rcases Int.le_total (D a b) (D a i + D i b) with h | h
  · left; exact Int.min_eq_left h
  · right; exact Int.min_eq_right h

theorem relax_row (D : Mat) (h : Pre D) (i a : Nat) : relax D i a i = D a i := by
  unfold relax; rw [h.diag i]; simp

theorem relax_col (D : Mat) (h : Pre D) (i b : Nat) : relax D i i b = D i b := by
  unfold relax; rw [h.diag i]; simp

theorem relax_pre (D : Mat) (h : Pre D) (i : Nat) : Pre (relax D i) where
  diag a := by
    have h1 := h.nonneg a i; have h2 := h.nonneg i a; have h3 := h.diag a
    unfold relax; rw [h3]; exact Int.min_eq_left (by omega)
  nonneg a b := by
    have h1 := h.nonneg a b; have h2 := h.nonneg a i; have h3 := h.nonneg i b
    unfold relax; exact Int.le_min.mpr ⟨h1, by omega⟩

/-- one loop iteration extends the set of admissible intermediates by `k` -/
theorem relax_inv (D : Mat) (k : Nat) (h : Inv D k) : Inv (relax D k) (k + 1) where
  toPre := relax_pre D h.toPre k
  tri a b j hj := by
    have hle := relax_le D k a b
    have hvia := relax_le_via D k a b
    rcases Nat.lt_succ_iff_lt_or_eq.mp hj with hlt | heq
    · -- j < k : four cases on the two relaxed legs
      have t1 := h.tri a b j hlt
      have t2 := h.tri a k j hlt
      have t3 := h.tri k b j hlt
      have t4 := h.tri k k j hlt
      have d0 := h.diag k
      rcases relax_eq D k a j with e1 | e1 <;> rcases relax_eq D k j b with e2 | e2 <;> rw [e1, e2] <;> omega
    · subst heq
      rw [relax_row D h.toPre, relax_col D h.toPre]; exact hvia

theorem closure_inv (D : Mat) (h : Pre D) : ∀ k, Inv (closure D k) k
  | 0 => { toPre := h, tri := fun _ _ _ hj => absurd hj (Nat.not_lt_zero _) }
  | k + 1 => relax_inv (closure D k) k (closure_inv D h k)

theorem zeroDiag_pre (raw : Mat) (h : ∀ a b, 0 ≤ raw a b) : Pre (zeroDiag raw) where
  diag a := by simp [zeroDiag]
  nonneg a b := by unfold zeroDiag; split <;> simp [h]

/-- **atsp_triangle**: with non-negative raw entries (`0 ≤ min_dist`), the coded loop — one pass
`for i in range(n)` of `minimum(dms, dms[:, [i]] + dms[[i], :])` after zeroing the diagonal — yields a matrix
with zero diagonal, non-negative entries and the triangle inequality through every node `b < n`
(`a`, `c` arbitrary): the single pass is the full min-plus closure. -/
theorem atsp_triangle (raw : Mat) (n : Nat) (h : ∀ a b, 0 ≤ raw a b) (a b c : Nat) (hb : b < n) :
    gen raw n true a c ≤ gen raw n true a b + gen raw n true b c := by
  have := (closure_inv (zeroDiag raw) (zeroDiag_pre raw h) n).tri a c b hb
  simpa [gen] using this

theorem atsp_diag (raw : Mat) (n : Nat) (h : ∀ a b, 0 ≤ raw a b) (tm : Bool) (a : Nat) : gen raw n tm a a = 0 := by
  cases tm
  · simp [gen, zeroDiag]
  · simpa [gen] using (closure_inv (zeroDiag raw) (zeroDiag_pre raw h) n).diag a

theorem atsp_nonneg (raw : Mat) (n : Nat) (h : ∀ a b, 0 ≤ raw a b) (tm : Bool) (a b : Nat) : 0 ≤ gen raw n tm a b := by
  cases tm
  · simpa [gen] using (zeroDiag_pre raw h).nonneg a b
  · simpa [gen] using (closure_inv (zeroDiag raw) (zeroDiag_pre raw h) n).nonneg a b

/-- entries never grow: the output is below the raw matrix off the diagonal (so `≤ max_dist`) -/
theorem closure_le (D : Mat) : ∀ k a b, closure D k a b ≤ D a b
  | 0, _, _ => Int.le_refl _
  | k + 1, a, b => Int.le_trans (relax_le _ k a b) (closure_le D k a b)

/-- the hypothesis is needed: with a negative entry the single pass does not even keep the diagonal at zero -/
def negRaw : Mat := fun a b => if a = 0 ∧ b = 1 then -3 else if a = 1 ∧ b = 0 then 1 else 5
example : gen negRaw 2 true 0 0 = -2 := by decide

/-- non-vacuity: a 3-node matrix whose raw form violates the triangle inequality -/
def exRaw : Mat := fun a b => if a = 0 ∧ b = 1 then 10 else 1
example : ¬ (zeroDiag exRaw 0 1 ≤ zeroDiag exRaw 0 2 + zeroDiag exRaw 2 1) := by decide
example : gen exRaw 3 true 0 1 = 2 := by decide
end Rl4co.Gen.Atsp
