/-
C18, sanity of the specifications the generator checks are judged by (independent of the generator models): the
executable oracles the harness evaluates on real outputs mean what the property text says, are monotone in the obvious
directions, are satisfiable and refutable; plus the obligations on source forms that the models take for granted.
-/
import Rl4co.Gen.Atsp
import Rl4co.Gen.Cvrptw
import Rl4co.Gen.Sched
import Rl4co.Gen.Mtvrp
import Rl4co.Generated.Params
import Mathlib.Tactic.Linarith
namespace Rl4co.Gen

/-! ### triangle oracle -/

/-- the executable triangle test the harness runs on generated ATSP matrices is exactly the triangle inequality on
the first `n` indices -/
theorem Atsp.triangleOk_iff (n : Nat) (xs : List Int) :
    Atsp.triangleOk n xs = true ↔
      ∀ a, a < n → ∀ b, b < n → ∀ c, c < n → xs.getD (a * n + c) 0 ≤ xs.getD (a * n + b) 0 + xs.getD (b * n + c) 0 := by
  simp [Atsp.triangleOk, List.all_eq_true]

/-- a symmetric "metric-like" matrix passes, a shortcut-violating one fails: the oracle is neither vacuous nor void -/
example : Atsp.triangleOk 3 [0, 1, 2, 1, 0, 1, 2, 1, 0] = true := by decide
example : Atsp.triangleOk 3 [0, 1, 5, 1, 0, 1, 5, 1, 0] = false := by decide

/-! ### time-window oracle -/

namespace Cvrptw

/-- more time never hurts: `WindowOk` is monotone in `max_time` -/
theorem windowOk_mono_T (i : In) (w : Int × Int) (T' : Int) (hT : i.T ≤ T') (h : WindowOk i w) :
    WindowOk { i with T := T' } w := by
  obtain ⟨h1, h2, h3, h4⟩ := h
  exact ⟨h1, h2, h3, by show w.2 * i.S + i.dur + i.d ≤ T'; omega⟩

/-- a closer customer keeps a window well-formed: monotone (downwards) in the distance -/
theorem windowOk_mono_d (i : In) (w : Int × Int) (d' : Int) (hd : d' ≤ i.d) (h : WindowOk i w) :
    WindowOk { i with d := d' } w := by
  obtain ⟨h1, h2, h3, h4⟩ := h
  exact ⟨h1, h2, by show d' ≤ w.2 * i.S; omega, by show w.2 * i.S + i.dur + d' ≤ i.T; omega⟩

/-- what `WindowOk` buys: the out-and-back trip depot → customer → depot is feasible — service can start at
`t = max(dist, window start)`, which lies inside the window, and the vehicle is back by `max_time` -/
theorem windowOk_trip (i : In) (w : Int × Int) (hS : 0 < i.S) (h : WindowOk i w) :
    let t := max i.d (w.1 * i.S)
    w.1 * i.S ≤ t ∧ t ≤ w.2 * i.S ∧ t + i.dur + i.d ≤ i.T := by
  obtain ⟨h1, h2, h3, h4⟩ := h
  have hS' : (0 : Int) < (i.S : Int) := by exact_mod_cast hS
  have hlt : w.1 * (i.S : Int) ≤ w.2 * i.S := Int.mul_le_mul_of_nonneg_right (by omega) hS'.le
  simp only [Int.max_def]
  split_ifs <;> refine ⟨?_, ?_, ?_⟩ <;> omega

/-- refutable: an unordered window, one that closes before arrival, one that leaves no time to return -/
example : ¬ WindowOk ⟨1, 100, 10, 0, 0, 0, 1⟩ (20, 20) := by decide
example : ¬ WindowOk ⟨1, 100, 10, 0, 0, 0, 1⟩ (3, 9) := by decide
example : ¬ WindowOk ⟨1, 100, 10, 0, 0, 0, 1⟩ (50, 95) := by decide
example : WindowOk ⟨1, 100, 10, 0, 0, 0, 1⟩ (10, 90) := by decide

end Cvrptw

/-! ### scheduling oracle -/

namespace Sched

/-- `numEligible` counts what it says: it is positive iff some machine has a positive time -/
theorem numEligible_pos_iff (col : List Int) : 1 ≤ numEligible col ↔ ∃ t, t ∈ col ∧ 0 < t := by
  unfold numEligible
  constructor
  · intro h
    have : 0 < (col.filter (fun t => decide (t > 0))).length := by omega
    obtain ⟨t, ht⟩ := List.exists_mem_of_length_pos this
    rw [List.mem_filter] at ht
    exact ⟨t, ht.1, by simpa using ht.2⟩
  · rintro ⟨t, ht, hpos⟩
    have : t ∈ col.filter (fun t => decide (t > 0)) := by rw [List.mem_filter]; exact ⟨ht, by simpa using hpos⟩
    exact List.length_pos_of_mem this

/-- `ColumnsOk` is literally "every operation that is not padding is eligible on at least one machine with a
positive processing time" -/
theorem columnsOk_iff (cols : List (List Int)) (pad : List Bool) :
    ColumnsOk cols pad = true ↔
      ∀ k, k < cols.length → pad.getD k true = false → ∃ t, t ∈ cols.getD k [] ∧ 0 < t := by
  simp only [ColumnsOk, List.all_eq_true, List.mem_range, Bool.or_eq_true, decide_eq_true_eq]
  constructor
  · intro h k hk hp
    rcases h k hk with h1 | h1
    · rw [hp] at h1; exact absurd h1 (by decide)
    · exact (numEligible_pos_iff _).mp h1
  · intro h k hk
    cases hp : pad.getD k true
    · right; exact (numEligible_pos_iff _).mpr (h k hk hp)
    · left; rfl

example : ColumnsOk [[0, 3], [0, 0]] [false, true] = true ∧ ColumnsOk [[0, 3], [0, 0]] [false, false] = false := by decide

end Sched

/-! ### preset names -/

/-- the name of a variant determines its feature set: two different feature sets never share a name, so "the preset
enables exactly the features in its name" (`preset_consistent`) is a statement about a well-defined map -/
theorem Mtvrp.variantName_injective :
    ∀ o tw l b o' tw' l' b' : Bool,
      Mtvrp.variantName ⟨o, tw, l, b⟩ = Mtvrp.variantName ⟨o', tw', l', b'⟩ → (o = o' ∧ tw = tw' ∧ l = l' ∧ b = b') := by
  decide

/-! ### source forms the models take for granted (regenerated from the sources; a recognised different form breaks these) -/

theorem source_forms :
    Params.genMcpCutoffSampled = true ∧      -- MCP mask cut at the sampled maximum (`Gen.mcpRow`)
    Params.genAtspLoopFull = true ∧          -- `for i in range(self.num_loc)` (`Gen.Atsp.closure … n`)
    Params.genDataAtspLoopFull = true ∧      -- the numpy twin in generate_data.py
    Params.genCenterIsMid = true ∧ Params.genLoadDataPerRow = true ∧
    Params.genCvrptwRepair = (-1, 1) ∧ Params.genFjspSpread = (1, 5) := by decide

end Rl4co.Gen
