/-
C06 for CVRP: the model of `CVRPEnv.check_solution_validity` (sort-and-compare + running load with
depot = −capacity, clamp at 0, tolerance) accepts every solution that is feasible by the independent
definition — whether or not it ever returns to the depot, with leading / repeated / trailing depot
visits — and every solution it accepts is feasible up to the tolerance.
-/
import Rl4co.Env.Cvrp
import Rl4co.Spec.Cvrp
import Rl4co.Proofs.Sort
import Rl4co.Props.C05.Cvrp

namespace Rl4co.Cvrp
open Rl4co.Spec.Cvrp

/-- feasible up to the checker's tolerance on the route loads -/
structure FeasibleWithin (tol : Int) (i : Inst) (as : List Nat) : Prop where
  range : ∀ a ∈ as, a ≤ i.n
  once  : ∀ j, 1 ≤ j → j ≤ i.n → as.count j = 1
  load  : ∀ r ∈ routes as, routeLoad i r ≤ i.cap + tol

theorem checkLoads_complete (i : Inst) (hd : ∀ j, 0 ≤ i.demand j) (tol : Int) (htol : 0 ≤ tol)
    (hcap : 0 ≤ i.cap) (as : List Nat) :
    ∀ u, 0 ≤ u →
      (∀ r rs, routes as = r :: rs → routeLoad i r + u ≤ i.cap ∧ ∀ r' ∈ rs, routeLoad i r' ≤ i.cap) →
      checkLoads i tol u as = true := by
  induction as with
  | nil => intro u _ _; rfl
  | cons a as ih =>
    intro u hu hl
    obtain ⟨r1, rs1, h1⟩ := routes_cons_exists as
    by_cases h0 : a = 0
    · subst h0
      have hl' := hl [] (routes as) (by simp [routes])
      have hu' : u ≤ i.cap := by simpa [routeLoad] using hl'.1
      have hclamp : (if u + -i.cap < 0 then 0 else u + -i.cap) = 0 := by split <;> omega
      simp only [checkLoads, if_true, hclamp, Params.cvrpCheckCapCmp, Cmp.eval, Bool.and_eq_true,
        decide_eq_true_eq]
      refine ⟨by omega, ih 0 (Int.le_refl 0) (fun r rs hrs => ?_)⟩
      rw [h1] at hl'; rw [h1] at hrs
      simp only [List.cons.injEq] at hrs
      obtain ⟨e1, e2⟩ := hrs; subst e1 e2
      exact ⟨by have := hl'.2 _ List.mem_cons_self; omega, fun r' hr' => hl'.2 r' (by simp [hr'])⟩
    · have hl' := hl (a :: r1) rs1 (by simp [routes, h0, h1])
      have hr1 := routeLoad_nonneg i hd r1
      have hda := hd a
      have h2 := hl'.1
      simp only [routeLoad, List.map_cons, List.sum_cons] at h2 hr1
      have hclamp : (if u + i.demand a < 0 then 0 else u + i.demand a) = u + i.demand a := by
        split <;> omega
      simp only [checkLoads, h0, if_false, hclamp, Params.cvrpCheckCapCmp, Cmp.eval,
        Bool.and_eq_true, decide_eq_true_eq]
      refine ⟨by omega, ih (u + i.demand a) (by omega) (fun r rs hrs => ?_)⟩
      rw [h1] at hrs
      simp only [List.cons.injEq] at hrs
      obtain ⟨e1, e2⟩ := hrs; subst e1 e2
      exact ⟨by simp only [routeLoad]; omega, hl'.2⟩

/-- **C06 (CVRP), completeness.** -/
theorem check_complete (i : Inst) (hd : ∀ j, 0 ≤ i.demand j) (hcap : 0 ≤ i.cap) (tol : Int)
    (htol : 0 ≤ tol) (as : List Nat) (hf : Feasible i as) : check i tol as = true := by
  simp only [check, Bool.and_eq_true]
  refine ⟨(sortedTest_iff i.n as).2 ⟨hf.range, hf.once⟩, ?_⟩
  apply checkLoads_complete i hd tol htol hcap as 0 (Int.le_refl 0)
  intro r rs hrs
  exact ⟨by have := hf.load r (by rw [hrs]; simp); omega,
    fun r' hr' => hf.load r' (by rw [hrs]; simp [hr'])⟩

theorem checkLoads_sound (i : Inst) (hd : ∀ j, 0 ≤ i.demand j) (tol : Int) (as : List Nat) :
    ∀ u, 0 ≤ u → u ≤ i.cap + tol → checkLoads i tol u as = true →
      ∀ r rs, routes as = r :: rs →
        routeLoad i r + u ≤ i.cap + tol ∧ ∀ r' ∈ rs, routeLoad i r' ≤ i.cap + tol := by
  induction as with
  | nil =>
    intro u _ hu _ r rs hrs
    simp only [routes, List.cons.injEq] at hrs
    obtain ⟨e1, e2⟩ := hrs; subst e1 e2
    simp [routeLoad, hu]
  | cons a as ih =>
    intro u hu0 hu hc r rs hrs
    obtain ⟨r1, rs1, h1⟩ := routes_cons_exists as
    by_cases h0 : a = 0
    · subst h0
      simp only [checkLoads, if_true, Params.cvrpCheckCapCmp, Cmp.eval, Bool.and_eq_true,
        decide_eq_true_eq] at hc
      obtain ⟨hc1, hc2⟩ := hc
      simp only [routes, if_true, List.cons.injEq] at hrs
      obtain ⟨e1, e2⟩ := hrs; subst e1 e2
      refine ⟨by simp [routeLoad, hu], ?_⟩
      have hu' : 0 ≤ (if u + -i.cap < 0 then 0 else u + -i.cap) := by split <;> omega
      have := ih _ hu' hc1 hc2 r1 rs1 h1
      intro r' hr'
      rw [h1] at hr'
      rcases List.mem_cons.mp hr' with hh | hh
      · subst hh; omega
      · exact this.2 r' hh
    · have hda := hd a
      have hclamp : (if u + i.demand a < 0 then 0 else u + i.demand a) = u + i.demand a := by
        split <;> omega
      simp only [checkLoads, h0, if_false, hclamp, Params.cvrpCheckCapCmp, Cmp.eval,
        Bool.and_eq_true, decide_eq_true_eq] at hc
      obtain ⟨hc1, hc2⟩ := hc
      simp only [routes, h0, if_false, h1, List.cons.injEq] at hrs
      obtain ⟨e1, e2⟩ := hrs; subst e1 e2
      have := ih _ (by omega) hc1 hc2 r1 rs1 h1
      refine ⟨?_, this.2⟩
      have h2 := this.1
      simp only [routeLoad, List.map_cons, List.sum_cons] at h2 ⊢
      omega

/-- **C06 (CVRP), soundness up to the tolerance.** -/
theorem check_sound (i : Inst) (hd : ∀ j, 0 ≤ i.demand j) (tol : Int) (htol : 0 ≤ i.cap + tol)
    (as : List Nat) (h : check i tol as = true) : FeasibleWithin tol i as := by
  simp only [check, Bool.and_eq_true] at h
  obtain ⟨hs, hl⟩ := h
  obtain ⟨h1, h2⟩ := (sortedTest_iff i.n as).1 hs
  refine ⟨h1, h2, fun r hr => ?_⟩
  obtain ⟨r1, rs1, h3⟩ := routes_cons_exists as
  have := checkLoads_sound i hd tol as 0 (Int.le_refl 0) htol hl r1 rs1 h3
  rw [h3] at hr
  rcases List.mem_cons.mp hr with hh | hh
  · subst hh; omega
  · exact this.2 r hh

/-- Non-vacuity: a feasible solution that never returns to the depot and fills the vehicle exactly. -/
example : check ⟨2, 8, fun _ => 4, fun _ _ => 1⟩ 0 [1, 2] = true :=
  check_complete _ (by intro j; simp) (by decide) 0 (by decide) _ ((feasible_iff _ _).1 (by decide))
/-- … and an overloaded one is rejected (contrapositive of soundness). -/
example : check ⟨2, 8, fun _ => 5, fun _ _ => 1⟩ 0 [1, 2] ≠ true := by
  intro h
  have := (check_sound _ (by intro j; simp) 0 (by decide) _ h).load [1, 2] (by simp [routes])
  simp [routeLoad] at this

end Rl4co.Cvrp
