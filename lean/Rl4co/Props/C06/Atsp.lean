/-
C06 for ATSP: `check_solution_validity` (sorted actions == arange(width of the action tensor)).
* complete: every feasible tour is accepted;
* sound ONLY for action lists of full width: the checker never looks at the number of nodes of the
  instance, so it accepts e.g. the tour `[0,1,2]` on a 5-node instance (customers 3 and 4 never
  visited).  The full soundness statement is therefore false of the code (known finding); the
  partial theorem has the extra hypothesis `as.length = n`.
-/
import Rl4co.Proofs.TspfamAtsp
import Rl4co.Spec.Atsp
import Rl4co.Proofs.Sort
import Rl4co.Proofs.TspfamParams

namespace Rl4co.Atsp
open Rl4co.Tspfam

/-- **C06 (ATSP), completeness.** -/
theorem check_complete (i : Inst) {as : List Nat} (hf : Spec.Atsp.Feasible i.n as) :
    check i as = true := by
  rw [check_eq, hf.length_eq]
  exact (sortedIsRange_iff i.n as).mpr ((Spec.Tsp.feasible_iff_perm i.n as).mp hf)

/-- full soundness, as the property demands it -/
def check_sound_statement : Prop :=
  ∀ (i : Inst) (as : List Nat), check i as = true → Spec.Atsp.Feasible i.n as

/-- … is false of the code: a short tour over the first nodes is accepted. -/
theorem check_sound_counterexample : ¬ check_sound_statement := by
  intro h
  have hc : check ⟨5, fun _ _ => 0⟩ [0, 1, 2] = true := by
    rw [check_eq]
    exact (sortedIsRange_iff 3 [0, 1, 2]).mpr (List.Perm.refl _)
  have := (h ⟨5, fun _ _ => 0⟩ [0, 1, 2] hc).once 4 (by decide)
  simp at this

/-- **C06 (ATSP), soundness for full-width action lists.** -/
theorem check_sound_partial (i : Inst) {as : List Nat} (hlen : as.length = i.n)
    (hc : check i as = true) : Spec.Atsp.Feasible i.n as := by
  rw [check_eq, hlen] at hc
  exact (Spec.Tsp.feasible_iff_perm i.n as).mpr ((sortedIsRange_iff i.n as).mp hc)

/-- what acceptance means in general: a permutation of `0..L-1`, `L` the width of the action list -/
theorem check_iff (i : Inst) (as : List Nat) :
    check i as = true ↔ Spec.Atsp.Feasible as.length as := by
  rw [check_eq, sortedIsRange_iff]
  exact (Spec.Tsp.feasible_iff_perm as.length as).symm

theorem feasible_iff_check_and_width (i : Inst) (as : List Nat) :
    Spec.Atsp.Feasible i.n as ↔ (check i as = true ∧ as.length = i.n) :=
  ⟨fun hf => ⟨check_complete i hf, Spec.Tsp.Feasible.length_eq hf⟩, fun ⟨hc, hl⟩ => check_sound_partial i hl hc⟩

theorem checkWith_true_iff (i : Inst) (as : List Nat) :
    checkWith true i as = true ↔ Spec.Atsp.Feasible i.n as := by
  rw [checkWith_true_eq, Bool.and_eq_true, decide_eq_true_eq, sortedIsRange_iff]
  show _ ↔ Spec.Tsp.Feasible i.n as
  rw [Spec.Tsp.feasible_iff_perm]
  constructor
  · exact fun h => h.2
  · intro h; exact ⟨by simpa using h.length_eq, h⟩

theorem width_source_is_action_tensor : Params.atspCheckWidthFromInst = false := rfl

theorem check_sound_complete_of_fixed (hfix : Params.atspCheckWidthFromInst = true) (i : Inst) (as : List Nat) :
    check i as = true ↔ Spec.Atsp.Feasible i.n as := by
  rw [check, hfix]; exact checkWith_true_iff i as

/-- Non-vacuity. -/
example : check ⟨3, fun _ _ => 0⟩ [2, 0, 1] = true :=
  check_complete _ ((Spec.Tsp.feasible_iff 3 [2, 0, 1]).mp (by decide))

end Rl4co.Atsp
