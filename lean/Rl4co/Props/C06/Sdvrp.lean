/-
C06 for SDVRP.  Model of `SDVRPEnv.check_solution_validity`: greedy replay over `demands` = [−capacity]
++ demand, the rule "no two consecutive depot visits while anything is non-zero", and the final
`(demands == 0).all()` over ALL columns, the depot column included.

* `check_sound`: every accepted visit sequence is feasible (its greedy split is a valid witness).
* `check_of_run` (completeness on what the environment produces): a finished mask-confined episode that
  contains a depot visit is accepted.
* `check_complete_counterexample`: the full completeness statement is FALSE, already for mask-generated
  solutions — a finished episode WITHOUT a depot visit (all demand fits one vehicle) is rejected because
  the depot column still holds −capacity (`check_rejects_run`).  Further feasible shapes that are rejected:
  an empty route in the middle (`check_rejects_double_depot`), a sequence that needs a non-greedy split
  (`check_rejects_nongreedy`).  Known findings `sdvrp-checker-*-C06`.
-/
import Rl4co.Env.Sdvrp
import Rl4co.Spec.Sdvrp
import Rl4co.Proofs.SdvrpGreedy
import Rl4co.Props.C02.Sdvrp

namespace Rl4co.Sdvrp
open Rl4co.Spec.Sdvrp

theorem allZero_iff (n : Nat) (dem : Nat → Int) : allZero n dem = true ↔ ∀ j, j ≤ n → dem j = 0 := by
  simp only [allZero, List.all_eq_true, List.mem_range, beq_iff_eq]
  exact ⟨fun h j hj => h j (by omega), fun h j hj => h j (by omega)⟩

/-- an accepted list leaves nothing undelivered under the greedy rule -/
theorem checkGo_final (i : Inst) (as : List Nat) : ∀ dem used prev, checkGo i dem used prev as = true →
    ∀ j, 1 ≤ j → j ≤ i.n → greedyRem i dem used as j = 0 := by
  induction as with
  | nil =>
    intro dem used prev h j _ hj
    simp only [checkGo] at h
    exact (allZero_iff i.n dem).1 h j hj
  | cons a as ih =>
    intro dem used prev h j hj1 hj2
    simp only [checkGo, Bool.and_eq_true] at h
    have h2 := h.2
    by_cases ha : a = 0
    · subst ha
      simp only [if_true] at h2
      have := ih _ _ _ h2 j hj1 hj2
      simp only [greedyRem, if_true]
      have e := greedyRem_congr i as dem (upd dem 0 (dem 0 - min (dem 0) (i.cap - used))) 0
        (fun k hk => by
          have : k ≠ 0 := by omega
          simp [this]) j hj1
      rw [e]; exact this
    · simp only [ha, if_false] at h2
      have := ih _ _ _ h2 j hj1 hj2
      simp only [greedyRem, ha, if_false]
      exact this

/-- **C06 (SDVRP), soundness**, strong form: the greedy split of an accepted list is valid. -/
theorem greedyFeasible_of_check (i : Inst) (hw : WF i) (as : List Nat) (h : check i as = true) :
    greedyFeasible i as = true := by
  simp only [check, Bool.and_eq_true, List.all_eq_true, decide_eq_true_eq] at h
  obtain ⟨hrange, hgo⟩ := h
  have F := greedy_facts i hw.cap as i.demand 0 (fun j _ => hw.demand j) (Int.le_refl 0) hw.cap
  apply (validSplit_iff i _).2
  refine ⟨?_, F.nonneg, F.depot, ?_, ?_⟩
  · intro z hz
    exact hrange z.1 (List.of_mem_zip hz).1
  · intro l hl
    obtain ⟨l1, ls1, h1⟩ := loads_cons_exists (greedySplit i as)
    have := F.load l1 ls1 h1
    rw [h1] at hl
    rcases List.mem_cons.mp hl with hh | hh
    · subst hh; omega
    · exact this.2 l hh
  · intro j hj1 hj2
    have hs := F.served j hj1
    have hfin := checkGo_final i as _ _ _ hgo j hj1 hj2
    have e := greedyRem_congr i as (fun j => if j = 0 then -i.cap else i.demand j) i.demand 0
      (fun k hk => by have : k ≠ 0 := by omega
                      simp [this]) j hj1
    simp only [greedySplit]
    omega

/-- **C06 (SDVRP), soundness.** -/
theorem check_sound (i : Inst) (hw : WF i) (as : List Nat) (h : check i as = true) : Feasible i as :=
  feasible_of_greedy i as (greedyFeasible_of_check i hw as h)

/-- relation between an environment state and the checker's loop state -/
structure Rel (i : Inst) (s : State) (dem : Nat → Int) (used : Int) (prev : Option Nat) : Prop where
  custs : ∀ j, 1 ≤ j → dem j = s.rem j
  used  : used = s.used
  d0    : dem 0 = 0 ∨ dem 0 = - i.cap
  prev0 : prev = some 0 → s.cur = 0 ∧ dem 0 = 0

theorem check_sim (i : Inst) (hw : WFpos i) {s s' : State} {as : List Nat} (h : Run env i s as s') :
    ∀ dem used prev, CInv i s → Rel i s dem used prev → s'.done = true → (dem 0 = 0 ∨ 0 ∈ as) →
      checkGo i dem used prev as = true := by
  induction h with
  | nil s =>
    intro dem used prev hi hr hd h0
    simp only [checkGo]
    apply (allZero_iff i.n dem).2
    intro j hj
    by_cases hj0 : j = 0
    · subst hj0
      rcases h0 with h | h
      · exact h
      · simp at h
    · rw [hr.custs j (by omega)]
      have h1 := hi.e.flag hd j hj
      have h2 := hi.e.remNN j (by omega)
      omega
  | @cons s s' a as ha hm _ ih =>
    intro dem used prev hi hr hd h0
    have hcap := hw.cap
    have hu0 := hi.e.used0
    have huc := hi.e.usedC
    simp only [checkGo, Bool.and_eq_true]
    refine ⟨?_, ?_⟩
    · -- the double-depot assertion
      by_cases hp : (prev == some 0 && a == 0) = true
      · simp only [Bool.and_eq_true, beq_iff_eq] at hp
        obtain ⟨hp1, hp2⟩ := hp
        subst hp2
        obtain ⟨hc, hd0⟩ := hr.prev0 hp1
        have hus := hi.depotEmpty hc
        have hmm : mask i s 0 = true := hm
        simp only [mask, if_true, Bool.not_eq_true', Bool.and_eq_false_iff, beq_eq_false_iff_ne] at hmm
        have hany : anyLoc i s = false := by
          rcases hmm with h | h
          · exact absurd hc h
          · exact h
        have hz : allZero i.n dem = true := by
          apply (allZero_iff i.n dem).2
          intro j hj
          by_cases hj0 : j = 0
          · subst hj0; exact hd0
          · rw [hr.custs j (by omega)]
            simp only [anyLoc, List.any_eq_false, List.mem_range] at hany
            have := hany (j - 1) (by omega)
            rw [Nat.sub_add_cancel (by omega)] at this
            simp only [locOk, Params.sdvrpMaskRemCmp, Params.sdvrpMaskCapCmp, Cmp.eval] at this
            have h' : (decide (s.rem j = 0) || decide (s.used ≥ i.cap)) = true := by
              cases hb : (decide (s.rem j = 0) || decide (s.used ≥ i.cap))
              · rw [hb] at this; exact absurd this (by simp)
              · rfl
            simp only [Bool.or_eq_true, decide_eq_true_eq] at h'
            rcases h' with h | h
            · exact h
            · omega
        simp [hz]
      · have : (prev == some 0 && a == 0) = false := by simpa using hp
        simp [this]
    · -- one step of both machines, then the induction hypothesis
      have hi' := cinv_step i s a hi
      by_cases ha0 : a = 0
      · subst ha0
        simp only [if_true]
        have hdel : delivered i s 0 = 0 := by simp only [delivered_eq, hi.e.rem0]; omega
        have hd0' : dem 0 - min (dem 0) (i.cap - used) = 0 := by
          have := hr.used
          rcases hr.d0 with h | h <;> omega
        apply ih _ _ _ hi'
        · refine ⟨?_, by simp [step_used], Or.inl (by simp [hd0']), fun _ => ⟨rfl, by simp [hd0']⟩⟩
          intro j hj
          have hne : j ≠ 0 := by omega
          simp only [upd_apply, hne, if_false, env, step]
          exact hr.custs j hj
        · exact hd
        · left; simp [hd0']
      · simp only [ha0, if_false]
        have hda : dem a = s.rem a := hr.custs a (by omega)
        have hdq : min (dem a) (i.cap - used) = delivered i s a := by
          simp only [delivered_eq, hda, hr.used]
        apply ih _ _ _ hi'
        · refine ⟨?_, ?_, ?_, ?_⟩
          · intro j hj
            simp only [upd_apply, env, step, hdq]
            split
            · rename_i h; subst h; rw [hda]
            · exact hr.custs j hj
          · rw [step_used]; simp only [ne_eq, ha0, not_false_eq_true, if_true, ← hdq, hr.used]
          · have hne : (0 : Nat) ≠ a := fun h => ha0 h.symm
            simp only [upd_apply, hne, if_false]; exact hr.d0
          · intro hp
            simp only [Option.some.injEq] at hp
            exact absurd hp ha0
        · exact hd
        · have hne : (0 : Nat) ≠ a := fun h => ha0 h.symm
          rcases h0 with h | h
          · left; simp only [upd_apply, hne, if_false]; exact h
          · right
            rcases List.mem_cons.mp h with hh | hh
            · exact absurd hh.symm ha0
            · exact hh

/-- **C06 (SDVRP), completeness on mask-generated solutions that visit the depot.** -/
theorem check_of_run (i : Inst) (hw : WFpos i) {as : List Nat} {s : State}
    (h : Run env i (env.reset i) as s) (hd : env.done i s = true) (h0 : 0 ∈ as) : check i as = true := by
  simp only [check, Bool.and_eq_true, List.all_eq_true, decide_eq_true_eq]
  refine ⟨?_, ?_⟩
  · have : ∀ {s s' : State} {as : List Nat}, Run env i s as s' → ∀ a ∈ as, a ≤ i.n := by
      intro s s' as h
      induction h with
      | nil s => intro a ha; simp at ha
      | cons ha _ _ ih =>
        intro b hb
        rcases List.mem_cons.mp hb with hh | hh
        · subst hh; simp only [env] at ha; omega
        · exact ih b hh
    exact this h
  · apply check_sim i hw h _ _ _ (cinv_reset i hw.wf) ?_ hd (Or.inr h0)
    refine ⟨?_, rfl, Or.inr (by simp), fun hp => by simp at hp⟩
    intro j hj
    have : j ≠ 0 := by omega
    simp [env, reset, this]

/-- the full completeness statement -/
def check_complete_statement : Prop :=
  ∀ (i : Inst) (as : List Nat), WFpos i → Feasible i as → check i as = true

/-- one customer with demand 4, capacity 8: the episode `[1]` is mask-confined and finished, hence
feasible, but the checker rejects it (depot column still −8). -/
theorem check_rejects_run :
    ∃ (i : Inst) (as : List Nat) (s : State), WFpos i ∧ Run env i (env.reset i) as s ∧
      env.done i s = true ∧ Feasible i as ∧ check i as = false := by
  refine ⟨⟨1, 8, fun _ => 4, fun _ _ => 0⟩, [1], _, ⟨by decide, fun _ => by show (0 : Int) ≤ 4; decide⟩,
    (run_iff_admitted _ _ _ _ _).2 ⟨by decide, rfl⟩, by decide, ?_, by decide⟩
  exact feasible_of_greedy _ _ (by decide)

theorem check_complete_counterexample : ¬ check_complete_statement := by
  intro h
  obtain ⟨i, as, _, hw, _, _, hf, hc⟩ := check_rejects_run
  have := h i as hw hf
  rw [hc] at this
  exact absurd this (by simp)

/-- a feasible solution with an empty route in the middle is rejected -/
theorem check_rejects_double_depot :
    ∃ (i : Inst) (as : List Nat), WFpos i ∧ Feasible i as ∧ 0 ∈ as ∧ check i as = false :=
  ⟨⟨2, 8, fun _ => 4, fun _ _ => 0⟩, [1, 0, 0, 2, 0], ⟨by decide, fun _ => by show (0 : Int) ≤ 4; decide⟩,
    feasible_of_greedy _ _ (by decide), by decide, by decide⟩

/-- a visit sequence that is feasible only with a non-greedy split is rejected: capacity 2, demands 2 and
1, `[1,2,0,1,0]` with amounts 1,1,−,1,− -/
theorem check_rejects_nongreedy :
    ∃ (i : Inst) (as : List Nat), WFpos i ∧ Feasible i as ∧ greedyFeasible i as = false ∧ check i as = false :=
  ⟨⟨2, 2, fun j => if j = 1 then 2 else 1, fun _ _ => 0⟩, [1, 2, 0, 1, 0],
    ⟨by decide, fun j => by show (0 : Int) ≤ if j = 1 then 2 else 1; split <;> omega⟩,
    feasible_of_witness _ _ [1, 1, 0, 1, 0] rfl (by decide), by decide, by decide⟩

/-- Non-vacuity: the C01 example continued to a depot visit is accepted. -/
example : check exInst [1, 2, 0, 2] = true := by decide

end Rl4co.Sdvrp
