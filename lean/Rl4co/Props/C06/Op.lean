/-
C06 for OP: does `check_solution_validity` agree with the definition?

* `check_complete`  every Spec-feasible action list (with or without a final return, with trailing
                    depot padding, with a leading depot, …) is accepted — given the triangle
                    inequality through the depot and `L ≤` the checker's per-node bounds.

KNOWN FINDING (`known_findings.json`: op-checker-open-tour-C06).  The checker measures
`get_tour_length(locs[actions])`, the cycle through the listed nodes only.  For a list that neither
starts nor ends with the depot the two depot legs are replaced by the edge last → first, so
over-length tours are accepted.  Hence the full soundness statement is FALSE of the faithful model:

* `check_sound_statement`       accepted ⇒ feasible within the checker's tolerance;
* `check_sound_counterexample`  its refutation on the bounds read back from the real code (unit
                                2^-26): depot (0.5,0.5), customers (0.75,0.5), (0.765625,0.5),
                                max_length 0.25, actions `[1, 2]` (true length 0.53125, measured 0.03125);
* `check_sound_partial`         what does hold: an accepted list that ends (or starts) at the depot —
                                in particular every mask-generated episode — is feasible within the
                                tolerance.
-/
import Rl4co.Env.Op
import Rl4co.Spec.Op
import Rl4co.Proofs.OpShared

namespace Rl4co.Op
open Rl4co.Spec.Op Rl4co.Prize

/-- triangle inequality through the depot (Euclidean distances satisfy it) -/
def TriViaDepot (i : Inst) : Prop := ∀ a b, i.D a b ≤ i.D a 0 + i.D 0 b

theorem check_eq_true_iff (i : Inst) (as : List Nat) :
    check i as = true ↔
      (∀ a ∈ as, a ≤ i.n) ∧ (∀ j, 1 ≤ j → as.count j ≤ 1) ∧
      (∀ j, j ≤ i.n → rollLen i.D as ≤ i.cbound j) := by
  simp only [check, Bool.and_eq_true, List.all_eq_true, decide_eq_true_eq, adjOk_sort_iff,
    List.mem_range, Params.opCheckLenCmp, Cmp.eval]
  constructor
  · rintro ⟨⟨h1, h2⟩, h3⟩
    exact ⟨h1, h2, fun j hj => h3 j (by omega)⟩
  · rintro ⟨h1, h2, h3⟩
    exact ⟨⟨h1, h2⟩, fun j hj => h3 j (by omega)⟩

/-- **C06 (OP), completeness.** -/
theorem check_complete (i : Inst) (hd00 : 0 ≤ i.D 0 0) (htri : TriViaDepot i)
    (hcb : ∀ j, j ≤ i.n → i.L ≤ i.cbound j) {as : List Nat} (hf : Feasible i as) :
    check i as = true := by
  rw [check_eq_true_iff]
  refine ⟨hf.range, ?_, ?_⟩
  · intro j hj
    by_cases hjn : j ≤ i.n
    · exact hf.once j hj hjn
    · have : j ∉ as := fun hm => hjn (hf.range j hm)
      rw [List.count_eq_zero_of_not_mem this]; omega
  · intro j hj
    have h1 := rollLen_le_depot_tour i.D hd00 htri as
    have h2 := hf.length
    have h3 := hcb j hj
    simp only [tourLen] at h2
    omega

/-- The full soundness statement. -/
def check_sound_statement : Prop :=
  ∀ (i : Inst) (tol : Int) (as : List Nat), i.D 0 0 = 0 → (∃ j, j ≤ i.n ∧ i.cbound j ≤ i.L + tol) →
    check i as = true → FeasibleWithin tol i as

/-- the real checker bounds of: depot (0.5,0.5), customers (0.75,0.5) and (0.765625,0.5),
max_length 0.25; unit 2^-26 -/
def cexCheck : Inst :=
  { n := 2, L := 16777216,
    D := fun a b => if a = b then 0 else if a + b = 1 then 16777216 else if a + b = 2 then 17825792 else 1048576,
    prize := fun _ => 33554432, budget := fun j => if j = 0 then 16777149 else if j = 1 then -67 else -1048643,
    cbound := fun _ => 16777888 }

/-- **C06 (OP), counterexample**: `[1, 2]` is accepted although the tour through the depot is more
than twice the budget. -/
theorem check_sound_counterexample : ¬ check_sound_statement := by
  intro h
  have hchk : check cexCheck [1, 2] = true := by
    rw [check_eq_true_iff]
    refine ⟨by decide, fun j _ => List.nodup_iff_count.mp (by decide) j, fun j _ => ?_⟩
    show rollLen cexCheck.D [1, 2] ≤ 16777888
    decide
  have := h cexCheck 672 [1, 2] (by decide) ⟨0, by decide, by decide⟩ hchk
  have hl := this.length
  revert hl
  decide

/-- the list is closed at the depot: it ends or starts with a depot visit -/
def ClosedAtDepot (as : List Nat) : Prop := (∃ u, as = u ++ [0]) ∨ (∃ u, as = 0 :: u)

/-- for lists closed at the depot the checker measures the tour through the depot -/
theorem rollLen_eq_tourLen (i : Inst) (hd00 : i.D 0 0 = 0) {as : List Nat} (hc : ClosedAtDepot as) :
    rollLen i.D as = tourLen i as := by
  rcases hc with ⟨u, rfl⟩ | ⟨u, rfl⟩
  · have hl : ((0 :: (u ++ [0])).getLast (by simp)) = 0 := by
      rw [List.getLast_cons (by simp)]; simp
    simp only [tourLen]
    rw [pathLen_append_singleton, hl, hd00, rollLen_snoc_depot]
    simp
  · rw [rollLen_eq_closedLen]
    simp only [closedLen, tourLen]
    have e : 0 :: (0 :: u) ++ [0] = 0 :: 0 :: (u ++ [0]) := by simp
    rw [e, pathLen_cons_cons, hd00]
    simp

/-- **C06 (OP), partial soundness**: accepted lists closed at the depot are feasible within the
tolerance by which the checker's bound exceeds `L`. -/
theorem check_sound_partial (i : Inst) (tol : Int) (hd00 : i.D 0 0 = 0)
    (hcb : ∃ j, j ≤ i.n ∧ i.cbound j ≤ i.L + tol) {as : List Nat} (hc : ClosedAtDepot as)
    (h : check i as = true) : FeasibleWithin tol i as := by
  rw [check_eq_true_iff] at h
  obtain ⟨h1, h2, h3⟩ := h
  obtain ⟨j, hj, hb⟩ := hcb
  refine ⟨h1, fun j hj _ => h2 j hj, ?_⟩
  have := h3 j hj
  rw [rollLen_eq_tourLen i hd00 hc] at this
  omega

/-- Non-vacuity: on the same real bounds the closed list `[1, 2, 0]` is rejected, and the hypotheses
of `check_complete` hold for the instance. -/
example : check cexCheck [1, 2, 0] = false := by
  cases h : check cexCheck [1, 2, 0] with
  | false => rfl
  | true =>
    have := ((check_eq_true_iff _ _).mp h).2.2 0 (by decide)
    revert this; decide
example : ∀ j, j ≤ cexCheck.n → cexCheck.L ≤ cexCheck.cbound j := by intro j _; simp [cexCheck]
example : check { cexCheck with L := 35651584, cbound := fun _ => 35652256 } [1, 2, 0] = true := by
  rw [check_eq_true_iff]
  refine ⟨by decide, fun j _ => List.nodup_iff_count.mp (by decide) j, fun j _ => ?_⟩
  show rollLen cexCheck.D [1, 2, 0] ≤ 35652256
  decide

/-! ### the batched checker on a single-column action tensor

KNOWN FINDING (`known_findings.json`: op-checker-single-column-batch-C06).  `get_reward` hands whole
batches to the checker.  For a batch of `B ≥ 2` rows whose action tensor has ONE column,
`gather_by_index` squeezes the step dimension and `get_tour_length` rolls over the batch: every row
is tested with the perimeter of the polygon through the rows' selected nodes.  The verdict on the
batch is therefore not the conjunction of the verdicts on its rows. -/

/-- the batch verdict is the conjunction of the row verdicts -/
def check_single_column_batch_statement : Prop :=
  ∀ (rows : List (Inst × Nat)) (X : Nat → Nat → Int), (∀ r, X r r = 0) →
    (∀ ia ∈ rows, ia.1.D ia.2 ia.2 = 0) →
    checkSingleColumnBatch rows X = rows.all (fun ia => check ia.1 [ia.2])

theorem sortNat_singleton (a : Nat) : sortNat [a] = [a] := by simp [sortNat]

theorem check_singleton (i : Inst) (a : Nat) (hd : i.D a a = 0) :
    check i [a] = (decide (a ≤ i.n) &&
      (List.range (i.n + 1)).all (fun j => Params.opCheckLenCmp.eval 0 (i.cbound j))) := by
  simp only [check, sortNat_singleton, adjOk, List.all_cons, List.all_nil, Bool.and_true]
  have : rollLen i.D [a] = 0 := by simp [rollLen, roll1, hd]
  rw [this]

/-- two rows `[0]`, `[0]` of two instances (n = 0, checker bound 0.25 + 1e-5 in units of 2^-26) whose
depots are 0.5 apart: each row alone is accepted (length 0), the batch is rejected (perimeter 1.0) -/
def cexRow : Inst :=
  { n := 0, L := 16777216, D := fun _ _ => 0, prize := fun _ => 0, budget := fun _ => 16777149,
    cbound := fun _ => 16777888 }

/-- **C06 (OP), batched checker, counterexample.** -/
theorem check_single_column_batch_counterexample : ¬ check_single_column_batch_statement := by
  intro h
  have := h [(cexRow, 0), (cexRow, 0)] (fun r r' => if r = r' then 0 else 33554432)
    (by intro r; simp) (by intro ia hia; simp at hia; subst hia; rfl)
  rw [List.all_cons, List.all_cons, List.all_nil, check_singleton cexRow 0 rfl] at this
  revert this
  decide

/-- **C06 (OP), batched checker, partial**: for a batch of one row the single-column path agrees with
the row-wise checker. -/
theorem check_single_column_batch_partial (i : Inst) (a : Nat) (X : Nat → Nat → Int) (hX : X 0 0 = 0)
    (hd : i.D a a = 0) : checkSingleColumnBatch [(i, a)] X = check i [a] := by
  rw [check_singleton i a hd]
  simp [checkSingleColumnBatch, hX]

end Rl4co.Op
