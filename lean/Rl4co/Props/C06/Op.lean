/-
C06 for OP: does `check_solution_validity` agree with the definition?

* `check_complete`  every Spec-feasible action list (with or without a final return, with trailing
                    depot padding, with a leading depot, …) is accepted — given the triangle
                    inequality through the depot and `L ≤` the checker's per-node bounds.

KNOWN FINDING (`known_findings.json`: op-checker-open-tour-C06).  The checker measures
`get_tour_length(locs[actions])`, the cycle through the listed nodes only.  For a list that neither
starts nor ends with the depot the two depot legs are replaced by the edge last → first, so
over-length tours are accepted.  Hence the full soundness statement is FALSE of the faithful model:

* `check_sound_statement`       accepted ⇒ feasible within the checker's tolerance;
* `check_sound_counterexample`  its refutation on the bounds read back from the real code (unit
                                2^-26): depot (0.5,0.5), customers (0.75,0.5), (0.765625,0.5),
                                max_length 0.25, actions `[1, 2]` (true length 0.53125, measured 0.03125);
* `check_sound_partial`         what does hold: an accepted list that ends (or starts) at the depot —
                                in particular every mask-generated episode — is feasible within the
                                tolerance.
-/
import Rl4co.Env.Op
import Rl4co.Spec.Op
import Rl4co.Proofs.OpShared
import Rl4co.Proofs.OpGenerated

namespace Rl4co.Op
open Rl4co.Spec.Op Rl4co.Prize

/-- triangle inequality through the depot (Euclidean distances satisfy it) -/
def TriViaDepot (i : Inst) : Prop := ∀ a b, i.D a b ≤ i.D a 0 + i.D 0 b

theorem check_eq_true_iff (i : Inst) (as : List Nat) :
    check i as = true ↔
      (∀ a ∈ as, a ≤ i.n) ∧ (∀ j, 1 ≤ j → as.count j ≤ 1) ∧
      (∀ j, j ≤ i.n → rollLen i.D as ≤ i.cbound j) := by
  simp only [check, Bool.and_eq_true, List.all_eq_true, decide_eq_true_eq, adjOk_sort_iff,
    List.mem_range, Params.opCheckLenCmp, Cmp.eval]
  constructor
  · rintro ⟨⟨h1, h2⟩, h3⟩
    exact ⟨h1, h2, fun j hj => h3 j (by omega)⟩
  · rintro ⟨h1, h2, h3⟩
    exact ⟨⟨h1, h2⟩, fun j hj => h3 j (by omega)⟩

/-- **C06 (OP), completeness.** -/
theorem check_complete (i : Inst) (hd00 : 0 ≤ i.D 0 0) (htri : TriViaDepot i)
    (hcb : ∀ j, j ≤ i.n → i.L ≤ i.cbound j) {as : List Nat} (hf : Feasible i as) :
    check i as = true := by
  rw [check_eq_true_iff]
  refine ⟨hf.range, ?_, ?_⟩
  · intro j hj
    by_cases hjn : j ≤ i.n
    · exact hf.once j hj hjn
    · have : j ∉ as := fun hm => hjn (hf.range j hm)
      rw [List.count_eq_zero_of_not_mem this]; omega
  · intro j hj
    have h1 := rollLen_le_depot_tour i.D hd00 htri as
    have h2 := hf.length
    have h3 := hcb j hj
    simp only [tourLen] at h2
    omega

/-- The full soundness statement. -/
def check_sound_statement : Prop :=
  ∀ (i : Inst) (tol : Int) (as : List Nat), i.D 0 0 = 0 → (∃ j, j ≤ i.n ∧ i.cbound j ≤ i.L + tol) →
    check i as = true → FeasibleWithin tol i as

/-- the real checker bounds of: depot (0.5,0.5), customers (0.75,0.5) and (0.765625,0.5),
max_length 0.25; unit 2^-26 -/
def cexCheck : Inst :=
  { n := 2, L := 16777216,
    D := fun a b => if a = b then 0 else if a + b = 1 then 16777216 else if a + b = 2 then 17825792 else 1048576,
    prize := fun _ => 33554432, budget := fun j => if j = 0 then 16777149 else if j = 1 then -67 else -1048643,
    cbound := fun _ => 16777888 }

/-- **C06 (OP), counterexample**: `[1, 2]` is accepted although the tour through the depot is more
than twice the budget. -/
theorem check_sound_counterexample : ¬ check_sound_statement := by
  intro h
  have hchk : check cexCheck [1, 2] = true := by
    rw [check_eq_true_iff]
    refine ⟨by decide, fun j _ => List.nodup_iff_count.mp (by decide) j, fun j _ => ?_⟩
    show rollLen cexCheck.D [1, 2] ≤ 16777888
    decide
  have := h cexCheck 672 [1, 2] (by decide) ⟨0, by decide, by decide⟩ hchk
  have hl := this.length
  revert hl
  decide

/-- the list is closed at the depot: it ends or starts with a depot visit -/
def ClosedAtDepot (as : List Nat) : Prop := (∃ u, as = u ++ [0]) ∨ (∃ u, as = 0 :: u)

/-- for lists closed at the depot the checker measures the tour through the depot -/
theorem rollLen_eq_tourLen (i : Inst) (hd00 : i.D 0 0 = 0) {as : List Nat} (hc : ClosedAtDepot as) :
    rollLen i.D as = tourLen i as := by
  rcases hc with ⟨u, rfl⟩ | ⟨u, rfl⟩
  · have hl : ((0 :: (u ++ [0])).getLast (by simp)) = 0 := by
      rw [List.getLast_cons (by simp)]; simp
    simp only [tourLen]
    rw [pathLen_append_singleton, hl, hd00, rollLen_snoc_depot]
    simp
  · rw [rollLen_eq_closedLen]
    simp only [closedLen, tourLen]
    have e : 0 :: (0 :: u) ++ [0] = 0 :: 0 :: (u ++ [0]) := by simp
    rw [e, pathLen_cons_cons, hd00]
    simp

/-- **C06 (OP), partial soundness**: accepted lists closed at the depot are feasible within the
tolerance by which the checker's bound exceeds `L`. -/
theorem check_sound_partial (i : Inst) (tol : Int) (hd00 : i.D 0 0 = 0)
    (hcb : ∃ j, j ≤ i.n ∧ i.cbound j ≤ i.L + tol) {as : List Nat} (hc : ClosedAtDepot as)
    (h : check i as = true) : FeasibleWithin tol i as := by
  rw [check_eq_true_iff] at h
  obtain ⟨h1, h2, h3⟩ := h
  obtain ⟨j, hj, hb⟩ := hcb
  refine ⟨h1, fun j hj _ => h2 j hj, ?_⟩
  have := h3 j hj
  rw [rollLen_eq_tourLen i hd00 hc] at this
  omega

/-- Non-vacuity: on the same real bounds the closed list `[1, 2, 0]` is rejected, and the hypotheses
of `check_complete` hold for the instance. -/
example : check cexCheck [1, 2, 0] = false := by
  cases h : check cexCheck [1, 2, 0] with
  | false => rfl
  | true =>
    have := ((check_eq_true_iff _ _).mp h).2.2 0 (by decide)
    revert this; decide
example : ∀ j, j ≤ cexCheck.n → cexCheck.L ≤ cexCheck.cbound j := by intro j _; simp [cexCheck]
example : check { cexCheck with L := 35651584, cbound := fun _ => 35652256 } [1, 2, 0] = true := by
  rw [check_eq_true_iff]
  refine ⟨by decide, fun j _ => List.nodup_iff_count.mp (by decide) j, fun j _ => ?_⟩
  show rollLen cexCheck.D [1, 2, 0] ≤ 35652256
  decide

/-! ### the batched checker on a single-column action tensor

`get_reward` hands whole batches to the checker.  For a batch whose action tensor has ONE column the
code path differs from the general one (`gather_by_index` may squeeze a dimension of size one).
Since upstream fix 9be001b (`squeeze=False`) the verdict on such a batch is the conjunction of the
verdicts on its rows — the former known finding op-checker-single-column-batch-C06 is repaired; the
harness keeps comparing the real batched checker with this model as a regression probe. -/

theorem sortNat_singleton (a : Nat) : sortNat [a] = [a] := by simp [sortNat]

theorem check_singleton (i : Inst) (a : Nat) :
    check i [a] = (decide (a ≤ i.n) &&
      (List.range (i.n + 1)).all (fun j => Params.opCheckLenCmp.eval (i.D a a) (i.cbound j))) := by
  simp only [check, sortNat_singleton, adjOk, List.all_cons, List.all_nil, Bool.and_true]
  have : rollLen i.D [a] = i.D a a := by simp [rollLen, roll1]
  rw [this]

theorem all_and_all {α : Type} (l : List α) (p q : α → Bool) :
    (l.all p && l.all q) = l.all (fun x => p x && q x) := by
  induction l with
  | nil => rfl
  | cons x t ih =>
    simp only [List.all_cons, ← ih]
    cases p x <;> cases q x <;> cases t.all p <;> cases t.all q <;> rfl

/-- **C06 (OP), batched checker on single-column action tensors**: the verdict on the batch is the
conjunction of the row-wise verdicts, for every batch (any size, any instances, any nodes). -/
theorem check_single_column_batch (rows : List (Inst × Nat)) :
    checkSingleColumnBatch rows = rows.all (fun ia => check ia.1 [ia.2]) := by
  simp only [checkSingleColumnBatch, all_and_all, check_singleton]

/-- Non-vacuity: two rows `[0]`, `[0]` (checker bound 0.25 + 1e-5 in units of 2^-26) whose depots are
0.5 apart — the witness of the repaired finding — are accepted row by row and as a batch. -/
def cexRow : Inst :=
  { n := 0, L := 16777216, D := fun _ _ => 0, prize := fun _ => 0, budget := fun _ => 16777149,
    cbound := fun _ => 16777888 }
example : checkSingleColumnBatch [(cexRow, 0), (cexRow, 0)] = true := by decide

/-! ### exact characterisations of the accepted set -/

/-- **C06 (OP), exact, any list**: the checker accepts exactly the lists in range, without a repeated
customer, whose CYCLE through the listed nodes (no depot legs unless the depot is listed) fits all the
per-node bounds. -/
theorem check_iff_cycle (i : Inst) (as : List Nat) :
    check i as = true ↔
      (∀ a ∈ as, a ≤ i.n) ∧ (∀ j, 1 ≤ j → as.count j ≤ 1) ∧ (∀ j, j ≤ i.n → closedLen i.D as ≤ i.cbound j) := by
  rw [check_eq_true_iff, rollLen_eq_closedLen]

/-- **C06 (OP), exact, lists closed at the depot**: accepted ⇔ in range, no repeated customer, and the tour
depot → list → depot fits all the per-node bounds. -/
theorem check_iff_of_closed (i : Inst) (hd00 : i.D 0 0 = 0) {as : List Nat} (hc : ClosedAtDepot as) :
    check i as = true ↔
      (∀ a ∈ as, a ≤ i.n) ∧ (∀ j, 1 ≤ j → as.count j ≤ 1) ∧ (∀ j, j ≤ i.n → tourLen i as ≤ i.cbound j) := by
  rw [check_eq_true_iff, rollLen_eq_tourLen i hd00 hc]

/-- **C06 (OP), exact iff**: when every per-node bound is `L + tol`, a list closed at the depot is accepted
⇔ it is feasible within `tol`. -/
theorem check_iff_feasibleWithin (i : Inst) (tol : Int) (hd00 : i.D 0 0 = 0)
    (hcb : ∀ j, j ≤ i.n → i.cbound j = i.L + tol) {as : List Nat} (hc : ClosedAtDepot as) :
    check i as = true ↔ FeasibleWithin tol i as := by
  rw [check_iff_of_closed i hd00 hc]
  constructor
  · rintro ⟨h1, h2, h3⟩
    exact ⟨h1, fun j hj _ => h2 j hj, by have := h3 0 (by omega); rw [hcb 0 (by omega)] at this; exact this⟩
  · rintro ⟨h1, h2, h3⟩
    refine ⟨h1, ?_, fun j hj => by rw [hcb j hj]; exact h3⟩
    intro j hj
    by_cases hjn : j ≤ i.n
    · exact h2 j hj hjn
    · have : j ∉ as := fun hm => hjn (h1 j hm)
      rw [List.count_eq_zero_of_not_mem this]; omega

/-! ### the checker's bound from the extracted tolerance -/

theorem checkPrecomp_iff (i : Inst) (U rho : Int) : checkPrecomp i U rho = true ↔ CheckPrecomp i U rho := by
  simp only [checkPrecomp, List.all_eq_true, List.mem_range, Bool.and_eq_true, decide_eq_true_eq, CheckPrecomp]
  constructor
  · intro h j hj; exact h j (by omega)
  · intro h j hj; exact h j (by omega)

/-- the bounds the checker derives are `L + 1e-5` (extracted) up to rounding: never below `L` … -/
theorem cbound_ge_of_checkPrecomp (i : Inst) (U rho : Int) (hp : CheckPrecomp i U rho)
    (hrho : 100000 * rho ≤ U) : ∀ j, j ≤ i.n → i.L ≤ i.cbound j := by
  intro j hj
  have := (hp j hj).1
  simp only [Params.opCheckTol] at this
  omega

/-- … and at most `1e-5 + rho` above it. -/
theorem cbound_le_of_checkPrecomp (i : Inst) (U rho tol : Int) (hp : CheckPrecomp i U rho)
    (ht : U + 100000 * rho ≤ 100000 * tol) : ∀ j, j ≤ i.n → i.cbound j ≤ i.L + tol := by
  intro j hj
  have := (hp j hj).2
  simp only [Params.opCheckTol] at this
  omega

/-- **C06 (OP), completeness with the bound inside the model.** -/
theorem check_complete_precomp (i : Inst) (U rho : Int) (hd00 : 0 ≤ i.D 0 0) (htri : TriViaDepot i)
    (hp : CheckPrecomp i U rho) (hrho : 100000 * rho ≤ U) {as : List Nat} (hf : Feasible i as) :
    check i as = true :=
  check_complete i hd00 htri (cbound_ge_of_checkPrecomp i U rho hp hrho) hf

/-- **C06 (OP), soundness (lists closed at the depot) with the bound inside the model**: accepted ⇒
feasible within `1e-5 + rho`. -/
theorem check_sound_precomp (i : Inst) (U rho tol : Int) (hd00 : i.D 0 0 = 0)
    (hp : CheckPrecomp i U rho) (ht : U + 100000 * rho ≤ 100000 * tol) {as : List Nat}
    (hc : ClosedAtDepot as) (h : check i as = true) : FeasibleWithin tol i as :=
  check_sound_partial i tol hd00 ⟨0, by omega, cbound_le_of_checkPrecomp i U rho tol hp ht 0 (by omega)⟩ hc h

/-- Non-vacuity: the real checker bounds of `cexCheck` (unit 2^-26) are `L + 1e-5` up to one unit. -/
example : CheckPrecomp cexCheck 67108864 1 := (checkPrecomp_iff _ _ _).mp (by decide)

/-! ### the repaired checker, and exactly which lists the shipped one accepts wrongly -/

/-- the checker with the depot prepended to the gathered locations (as the CVRP / PCTSP rewards do): it
measures the tour depot → listed nodes → depot for EVERY list -/
def checkRepaired (i : Inst) (as : List Nat) : Bool :=
  as.all (fun a => decide (a ≤ i.n)) &&
  adjOk (sortNat as) &&
  (List.range (i.n + 1)).all (fun j => Params.opCheckLenCmp.eval (rollLen i.D (0 :: as)) (i.cbound j))

theorem rollLen_depot_cons (i : Inst) (as : List Nat) : rollLen i.D (0 :: as) = tourLen i as := by
  rw [rollLen_eq_closedLen]; rfl

/-- **C06 (OP), repaired clause**: with the depot prepended the checker is exact for ALL lists (closed at the
depot or not): accepted ⇔ feasible within the tolerance. -/
theorem checkRepaired_iff (i : Inst) (tol : Int) (hcb : ∀ j, j ≤ i.n → i.cbound j = i.L + tol) (as : List Nat) :
    checkRepaired i as = true ↔ FeasibleWithin tol i as := by
  simp only [checkRepaired, Bool.and_eq_true, List.all_eq_true, decide_eq_true_eq, adjOk_sort_iff,
    List.mem_range, Params.opCheckLenCmp, Cmp.eval, rollLen_depot_cons]
  constructor
  · rintro ⟨⟨h1, h2⟩, h3⟩
    exact ⟨h1, fun j hj _ => h2 j hj, by have := h3 0 (by omega); rw [hcb 0 (by omega)] at this; exact this⟩
  · rintro ⟨h1, h2, h3⟩
    refine ⟨⟨h1, ?_⟩, fun j hj => by rw [hcb j (by omega)]; exact h3⟩
    intro j hj
    by_cases hjn : j ≤ i.n
    · exact h2 j hj hjn
    · have : j ∉ as := fun hm => hjn (h1 j hm)
      rw [List.count_eq_zero_of_not_mem this]; omega

/-- **C06 (OP), the wrongly accepted set**: the shipped checker accepts a list that is NOT feasible within the
tolerance exactly when the list is in range, repeats no customer, its cycle through the listed nodes fits the
bound, and the tour through the depot does not. -/
theorem wrongly_accepted_iff (i : Inst) (tol : Int) (hcb : ∀ j, j ≤ i.n → i.cbound j = i.L + tol) (as : List Nat) :
    (check i as = true ∧ ¬ FeasibleWithin tol i as) ↔
      ((∀ a ∈ as, a ≤ i.n) ∧ (∀ j, 1 ≤ j → as.count j ≤ 1) ∧ closedLen i.D as ≤ i.L + tol ∧ i.L + tol < tourLen i as) := by
  rw [check_iff_cycle]
  constructor
  · rintro ⟨⟨h1, h2, h3⟩, hn⟩
    have hc := h3 0 (by omega)
    rw [hcb 0 (by omega)] at hc
    refine ⟨h1, h2, hc, ?_⟩
    apply Classical.byContradiction
    intro hlt
    exact hn ⟨h1, fun j hj _ => h2 j hj, by omega⟩
  · rintro ⟨h1, h2, h3, h4⟩
    refine ⟨⟨h1, h2, fun j hj => by rw [hcb j hj]; exact h3⟩, ?_⟩
    intro hf
    have := hf.length
    omega

/-- the two checkers agree on lists closed at the depot (in particular on every mask-generated episode) -/
theorem checkRepaired_eq_of_closed (i : Inst) (hd00 : i.D 0 0 = 0) {as : List Nat} (hc : ClosedAtDepot as) :
    checkRepaired i as = check i as := by
  simp only [checkRepaired, check, rollLen_depot_cons, rollLen_eq_tourLen i hd00 hc]

/-- Non-vacuity: the witness of the finding, `[1, 2]` on `cexCheck`, is accepted by the shipped checker and
rejected by the repaired one. -/
example : checkRepaired cexCheck [1, 2] = false := by
  cases h : checkRepaired cexCheck [1, 2] with
  | false => rfl
  | true =>
    have := ((checkRepaired_iff cexCheck 672 (by intro j _; rfl) [1, 2]).mp h).length
    revert this; decide

end Rl4co.Op
