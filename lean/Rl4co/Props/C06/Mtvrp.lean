/-
C06 for the multi-task VRP environment: `MTVRPEnv.check_solution_validity` against the independent
definition `Spec.Mtvrp.Feasible`.

FINDINGS that remain (each with a `…_statement`, a machine-checked counterexample and the strongest partial
theorem):
* completeness fails: the depot deadline is applied to open routes, which never drive back
  (`check_complete_counterexample_open`);
* soundness fails: "linehauls before backhauls" is never tested (`check_sound_counterexample`) and the way back
  of the last route is not tested when the action list does not end at the depot
  (`check_sound_counterexample_final_leg`).
Fixed upstream and now proved positively: the replayed clock honours `speed` (afacad0; no `T = D` hypothesis
any more, `spInst` / `slowInst` are positive examples) and the batched checker is the conjunction of the
row-wise checkers for ANY capacities (0be4e8c; `checkBatch_eq_all`).
`check_iff` characterises the accepted set EXACTLY (`Spec.Mtvrp.Accepted` = `Feasible` with precisely the three
omissions), so soundness and completeness up to the three findings are one theorem; `check_iff_feasible` is the
resulting equivalence with `Feasible` when none of the three omissions can matter.
`check_complete_partial` / `check_sound_partial` hold for every feature valuation (all 16 variants), any speed
and every action list of any length.
-/
import Rl4co.Proofs.MtvrpAccepted

namespace Rl4co.Mtvrp
open Rl4co.Spec.Mtvrp

/-- **C06 (MTVRP), soundness, partial**: if the checker accepts, the solution is feasible — PROVIDED every
route keeps its linehauls before its backhauls and (for closed routes) the action list ends with a depot
visit.  Neither proviso can be dropped, see the counterexamples below. -/
theorem check_sound_partial (i : Inst) (hwf : wf i = true) (as : List Nat)
    (hord : ∀ r ∈ routes as, Ordered i r) (hend : i.openR = true ∨ endsAtDepot as = true)
    (h : check i as = true) : Feasible i as := by
  simp only [check, checkWith, Bool.and_eq_true] at h
  obtain ⟨⟨⟨⟨hsort, hstat⟩, hrep⟩, hcL⟩, hcB⟩ := h
  obtain ⟨hrange, honce⟩ := (sortedTest_iff i.n as).1 hsort
  refine ⟨hrange, honce, ?_⟩
  intro r hr hne
  obtain ⟨r1, rs1, h1⟩ := routes_cons_exists as
  have hlim := checkStatic_limit hstat
  have hP : i.openR = true ∨ endsAtDepot as = true ∨ ((0 : Nat) = 0 ∧ as = []) := by
    rcases hend with h | h
    · exact Or.inl h
    · exact Or.inr (Or.inl h)
  have hrp := replay_sound i hlim as 0 0 0 hlim hrep hP r1 rs1 h1
  have hL := c1_sound i.cap i.dL (wf_depot hwf).1 as 0 hcL r1 rs1 h1
  have hB := c1_sound i.cap i.dB (wf_depot hwf).2 as 0 hcB r1 rs1 h1
  rw [h1] at hr
  have htd : ContTD i 0 0 0 r := by
    rcases List.mem_cons.mp hr with h | h
    · subst h; exact hrp.1 (Or.inr hne)
    · exact hrp.2 r h hne
  have hl : (r.map i.dL).sum ≤ i.cap := by
    rcases List.mem_cons.mp hr with h | h
    · subst h; have := hL.1 hne; omega
    · exact hL.2 r h hne
  have hb : (r.map i.dB).sum ≤ i.cap := by
    rcases List.mem_cons.mp hr with h | h
    · subst h; have := hB.1 hne; omega
    · exact hB.2 r h hne
  refine ⟨hl, hb, hord r (by rw [h1]; exact hr), ?_, htd.2⟩
  simpa [within, routeDist, ContTD] using htd.1


/-- **C06 (MTVRP), completeness, partial**: the checker accepts every feasible solution of a well-formed
instance that passes the checker's static data asserts — PROVIDED, for open routes, the depot stays open long
enough after every customer's deadline (`slackOk`, what the generator guarantees).  The proviso cannot be
dropped. -/
theorem check_complete_partial (i : Inst) (hwf : wf i = true) (hstat : checkStatic i = true)
    (hD : ∀ a b, 0 ≤ i.D a b) (h00 : i.D 0 0 = 0) (hT00 : i.T 0 0 = 0)
    (hslack : i.openR = true → ∀ j, 1 ≤ j → j ≤ i.n → slackOk i j = true)
    (as : List Nat) (hf : Feasible i as) : check i as = true := by
  simp only [check, checkWith, Bool.and_eq_true]
  have hroute : ∀ r ∈ routes as, (r.map i.dL).sum ≤ i.cap ∧ (r.map i.dB).sum ≤ i.cap := by
    intro r hr
    by_cases hne : r = []
    · subst hne; simp [wf_cap hwf]
    · exact ⟨(hf.route r hr hne).loadL, (hf.route r hr hne).loadB⟩
  refine ⟨⟨⟨⟨(sortedTest_iff i.n as).2 ⟨hf.range, hf.once⟩, hstat⟩, ?_⟩, ?_⟩, ?_⟩
  · apply replay_complete i hstat hD h00 hT00 hslack as 0 0 0 hf.range (by omega) (fun _ => ⟨rfl, rfl⟩)
      (fun h => absurd rfl h)
    intro r rs hrs
    have key : ∀ r' ∈ routes as, r' ≠ [] → ContTD i 0 0 0 r' := by
      intro r' hr' hne
      have := hf.route r' hr' hne
      refine ⟨?_, this.time⟩
      simpa [within, routeDist] using this.dist
    refine ⟨fun hc => ?_, fun r' hr' hne => key r' (by rw [hrs]; exact List.mem_cons_of_mem _ hr') hne⟩
    rcases hc with hc | hc
    · exact absurd rfl hc
    · exact key r (by rw [hrs]; simp) hc
  · apply c1_complete i.n i.cap i.dL (wf_cap hwf) (wf_depot hwf).1 (fun k hk => (wf_dem hwf k (by omega)).1) as 0
      hf.range
    intro r rs hrs
    exact ⟨by have := (hroute r (by rw [hrs]; simp)).1; omega,
      fun r' hr' => (hroute r' (by rw [hrs]; exact List.mem_cons_of_mem _ hr')).1⟩
  · apply c1_complete i.n i.cap i.dB (wf_cap hwf) (wf_depot hwf).2 (fun k hk => (wf_dem hwf k (by omega)).2.1) as 0
      hf.range
    intro r rs hrs
    exact ⟨by have := (hroute r (by rw [hrs]; simp)).2; omega,
      fun r' hr' => (hroute r' (by rw [hrs]; exact List.mem_cons_of_mem _ hr')).2⟩

/-- `sortedTest` on the two small shapes used by the witnesses below -/
theorem sortedTest_1 : sortedTest 1 [1, 0] = true :=
  (sortedTest_iff 1 [1, 0]).2 ⟨by decide, by
    intro j h1 h2
    have : j = 1 := by omega
    subst this; decide⟩
theorem sortedTest_2 : sortedTest 2 [1, 2, 0] = true :=
  (sortedTest_iff 2 [1, 2, 0]).2 ⟨by decide, by
    intro j h1 h2
    have : j = 1 ∨ j = 2 := by omega
    rcases this with rfl | rfl <;> decide⟩
theorem sortedTest_2' : sortedTest 2 [1, 2] = true :=
  (sortedTest_iff 2 [1, 2]).2 ⟨by decide, by
    intro j h1 h2
    have : j = 1 ∨ j = 2 := by omega
    rcases this with rfl | rfl <;> decide⟩

/-- nodes on a line at abscissae `x`, distances `|x a - x b|` -/
def lineInst (n : Nat) (x : Nat → Int) : Inst :=
  { n := n, cap := 4, dL := fun j => if j = 0 then 0 else 1, dB := fun _ => 0, openR := false, limit := none,
    early := fun _ => 0, late := fun _ => none, service := fun _ => 0,
    D := fun a b => ((x a - x b).natAbs : Int), T := fun a b => ((x a - x b).natAbs : Int) }

/-! ### completeness -/

/-- The full completeness statement of C06 for this checker. -/
def check_complete_statement : Prop :=
  ∀ (i : Inst) (as : List Nat), wf i = true → checkStatic i = true → (∀ a b, 0 ≤ i.D a b) → i.D 0 0 = 0 →
    i.T 0 0 = 0 → Feasible i as → check i as = true

/-- former witness 1 (speed 2): one customer at distance 512, travel time 256, deadline 300 — `[1, 0]` is
feasible and, since afacad0 (the replay divides by `speed`), accepted -/
def spInst : Inst :=
  { lineInst 1 (fun j => 512 * j) with
    T := fun a b => 256 * (((a : Int) - b).natAbs : Int),
    late := fun j => some (if j = 0 then 4096 else 300) }

/-- witness 2 (open routes, speed 1): one customer at distance 256, the depot closes at 300 -/
def opInst : Inst :=
  { lineInst 1 (fun j => 256 * j) with
    openR := true, late := fun j => some (if j = 0 then 300 else 2048) }

/-- **the checker applies the depot deadline to open routes**: `[1, 0]` is feasible for open routes (the
vehicle does not drive back; the mask offers it) but the checker tests the arrival time 512 of the uncharged
leg back against the depot deadline 300 and raises. -/
theorem check_complete_counterexample_open : ¬ check_complete_statement := by
  intro h
  have hc := h opInst [1, 0] (by decide) (by decide)
    (by intro a b; simp only [opInst, lineInst]; omega) (by decide) (by decide) ((feasible_iff _ _).1 (by decide))
  have : checkReplay opInst 0 0 0 [1, 0] = false := by decide
  simp [check, checkWith, this] at hc

/-- … although the environment's mask generates exactly this episode -/
example : ∃ s, Run env opInst (env.reset opInst) [1, 0] s ∧ env.done opInst s = true :=
  ⟨_, (run_iff_admitted _ _ _ _ _).2 ⟨by decide, rfl⟩, by decide⟩

/-! ### soundness -/

/-- The full soundness statement of C06 for this checker (there is no tolerance in it). -/
def check_sound_statement : Prop :=
  ∀ (i : Inst) (as : List Nat), wf i = true → check i as = true → Feasible i as

/-- witness 3 (VRPB): customer 1 is a backhaul, customer 2 a linehaul -/
def ordInst : Inst :=
  { lineInst 2 (fun j => 128 * j) with
    dL := fun j => if j = 2 then 1 else 0, dB := fun j => if j = 1 then 1 else 0 }

theorem check_of_parts {i : Inst} {as : List Nat} (h1 : sortedTest i.n as = true)
    (h2 : (checkStatic i && checkReplay i 0 0 0 as && checkC1 i.cap i.dL 0 as && checkC1 i.cap i.dB 0 as) = true) :
    check i as = true := by
  simp only [Bool.and_eq_true] at h2
  simp [check, checkWith, h1, h2.1.1.1, h2.1.1.2, h2.1.2, h2.2]

/-- **the checker never tests "linehauls before backhauls"**: `[1, 2, 0]` serves the backhaul customer 1
before the linehaul customer 2 in the same route and is accepted. -/
theorem check_sound_counterexample : ¬ check_sound_statement := by
  intro h
  have hf := h ordInst [1, 2, 0] (by decide) (check_of_parts sortedTest_2 (by decide))
  have := (feasible_iff _ _).2 hf
  revert this; decide

/-- witness 4 (VRPL): customers at distance 300 on either side of the depot, limit 1024 -/
def flInst : Inst :=
  { lineInst 2 (fun j => if j = 0 then 512 else if j = 1 then 212 else 812) with limit := some 1024 }

/-- **the last route's way back is never tested when the action list does not end at the depot**: the
closed route `[1, 2]` has length 300 + 600 + 300 = 1200 > 1024; the checker accepts `[1, 2]` (and rejects
`[1, 2, 0]`).  The reward charges the way back in both cases. -/
theorem check_sound_counterexample_final_leg : ¬ check_sound_statement := by
  intro h
  have hf := h flInst [1, 2] (by decide) (check_of_parts sortedTest_2' (by decide))
  have := (feasible_iff _ _).2 hf
  revert this; decide

example : checkReplay flInst 0 0 0 [1, 2, 0] = false := by decide

/-- former witness 5 (speed 1/2): customers at 128 and 256, travel times doubled, service 64 at customer 1,
deadline 1030 at customer 2: arrival at customer 2 via customer 1 is 512 + 64 + 512 = 1088 > 1030 -/
def slowInst : Inst :=
  { lineInst 2 (fun j => 128 * j) with
    T := fun a b => 4 * (128 * (((a : Int) - b).natAbs : Int)),
    late := fun j => some (if j = 0 then 8192 else if j = 1 then 2048 else 1030),
    service := fun j => if j = 1 then 64 else 0 }

/-- the speed-related witnesses are now judged correctly (afacad0) -/
example : Feasible spInst [1, 0] ∧ check spInst [1, 0] = true :=
  ⟨(feasible_iff _ _).1 (by decide), check_of_parts sortedTest_1 (by decide)⟩
example : ¬ Feasible slowInst [1, 2, 0] ∧ check slowInst [1, 2, 0] = false := by
  refine ⟨fun h => ?_, ?_⟩
  · have := (feasible_iff _ _).2 h
    revert this; decide
  · have : checkReplay slowInst 0 0 0 [1, 2, 0] = false := by decide
    simp [check, checkWith, this]

/-! ### the batched checker (`_check_c1`: `used_cap : [B]` against `vehicle_capacity.squeeze(-1) : [B]`) -/

theorem zipWith_map_self {α β γ : Type} (g : α → β → γ) (f : α → β) :
    ∀ l : List α, List.zipWith g l (l.map f) = l.map (fun x => g x (f x))
  | [] => rfl
  | x :: l => by simp [zipWith_map_self g f l]

/-- **The batched checker is the conjunction of the row-wise checkers**, whatever the capacities of the rows
(before 0be4e8c this held only for equal capacities). -/
theorem checkBatch_eq_all (rows : List (Inst × List Nat)) :
    checkBatch rows = rows.all (fun r => check r.1 r.2) := by
  unfold checkBatch
  rw [zipWith_map_self, List.all_map]
  rfl

/-- two one-customer rows: capacity 8 with demand 6, capacity 4 with demand 2 -/
def capRow (cap dem : Int) : Inst := { lineInst 1 (fun j => 256 * j) with cap := cap, dL := fun j => if j = 0 then 0 else dem }

/-- the former cross-row witness: both rows feasible, the batch is accepted -/
example : checkBatch [(capRow 8 6, [1, 0]), (capRow 4 2, [1, 0])] = true := by
  rw [checkBatch_eq_all]
  have h1 : check (capRow 8 6) [1, 0] = true := check_of_parts sortedTest_1 (by decide)
  have h2 : check (capRow 4 2) [1, 0] = true := check_of_parts sortedTest_1 (by decide)
  simp [h1, h2]

/-- **C06 (MTVRP), the accepted set, exactly.**  On a well-formed instance that passes the checker's static data
asserts (non-negative distances, `D 0 0 = T 0 0 = 0`), `check_solution_validity` accepts an action list IF AND ONLY IF
it is `Accepted`: every customer exactly once, both capacities respected on every route, and length / clock fine on
every route — where, unlike `Feasible`, the linehaul/backhaul order is not looked at, the depot deadline also binds
open routes, and the trailing route's way back is not looked at.  So the checker is sound and complete up to exactly
the three known omissions, for every feature valuation, any speed, every action list. -/
theorem check_iff (i : Inst) (hwf : wf i = true) (hstat : checkStatic i = true) (hD : ∀ a b, 0 ≤ i.D a b)
    (h00 : i.D 0 0 = 0) (hT00 : i.T 0 0 = 0) (as : List Nat) : check i as = true ↔ Accepted i as := by
  have hlim := checkStatic_limit hstat
  have hl0 := (checkStatic_node hstat 0 (by omega)).1
  have hne := routes_ne_nil as
  constructor
  · intro h
    simp only [check, checkWith, Bool.and_eq_true, hstat, and_true] at h
    obtain ⟨⟨⟨hsort, hrep⟩, hcL⟩, hcB⟩ := h
    obtain ⟨hrange, honce⟩ := (sortedTest_iff i.n as).1 hsort
    obtain ⟨r1, rs1, h1⟩ := routes_cons_exists as
    have hacc := (accR_iff_routes i hlim hl0 h00 hT00 (routes as) hne).1
      ((replay_iff i hstat hD as 0 0 0 hrange hlim).1 hrep)
    have hL := c1_sound i.cap i.dL (wf_depot hwf).1 as 0 hcL r1 rs1 h1
    have hB := c1_sound i.cap i.dB (wf_depot hwf).2 as 0 hcB r1 rs1 h1
    have loads : ∀ r ∈ routes as, r ≠ [] → (r.map i.dL).sum ≤ i.cap ∧ (r.map i.dB).sum ≤ i.cap := by
      intro r hr hrne
      rw [h1] at hr
      rcases List.mem_cons.mp hr with e | e
      · subst e; have := hL.1 hrne; have := hB.1 hrne; omega
      · exact ⟨hL.2 r e hrne, hB.2 r e hrne⟩
    refine ⟨hrange, honce, ?_, ?_⟩
    · intro r hr hrne
      have hc := hacc.1 r hr hrne
      have hl := loads r (mem_of_dropLast _ r hr) hrne
      exact ⟨hl.1, hl.2, by simpa [within, routeDist, ClosedC] using hc.1, hc.2⟩
    · intro r hr hrne
      have hc := hacc.2 r hr hrne
      have hl := loads r (mem_of_last _ r hr) hrne
      exact ⟨hl.1, hl.2, by simpa [within, TrailC] using hc.1, hc.2⟩
  · intro h
    simp only [check, checkWith, Bool.and_eq_true, hstat, and_true]
    have loads : ∀ r ∈ routes as, (r.map i.dL).sum ≤ i.cap ∧ (r.map i.dB).sum ≤ i.cap := by
      intro r hr
      by_cases hrne : r = []
      · subst hrne; simp [wf_cap hwf]
      · rcases mem_dropLast_or_last _ r hr with e | e
        · exact ⟨(h.closed r e hrne).loadL, (h.closed r e hrne).loadB⟩
        · exact ⟨(h.trail r e hrne).loadL, (h.trail r e hrne).loadB⟩
    refine ⟨⟨⟨(sortedTest_iff i.n as).2 ⟨h.range, h.once⟩, ?_⟩, ?_⟩, ?_⟩
    · apply (replay_iff i hstat hD as 0 0 0 h.range hlim).2
      apply (accR_iff_routes i hlim hl0 h00 hT00 (routes as) hne).2
      refine ⟨fun r hr hrne => ?_, fun r hr hrne => ?_⟩
      · have hc := h.closed r hr hrne
        exact ⟨by simpa [within, routeDist] using hc.dist, hc.time⟩
      · have hc := h.trail r hr hrne
        exact ⟨by simpa [within] using hc.dist, hc.time⟩
    · apply c1_complete i.n i.cap i.dL (wf_cap hwf) (wf_depot hwf).1 (fun k hk => (wf_dem hwf k (by omega)).1) as 0
        h.range
      intro r rs hrs
      exact ⟨by have := (loads r (by rw [hrs]; simp)).1; omega,
        fun r' hr' => (loads r' (by rw [hrs]; exact List.mem_cons_of_mem _ hr')).1⟩
    · apply c1_complete i.n i.cap i.dB (wf_cap hwf) (wf_depot hwf).2 (fun k hk => (wf_dem hwf k (by omega)).2.1) as 0
        h.range
      intro r rs hrs
      exact ⟨by have := (loads r (by rw [hrs]; simp)).2; omega,
        fun r' hr' => (loads r' (by rw [hrs]; exact List.mem_cons_of_mem _ hr')).2⟩


/-- **C06 corollary**: when the three omissions cannot matter (routes keep linehauls before backhauls, the list ends
at the depot or routes are open, and for open routes the depot stays open after the deadlines) the checker decides
feasibility exactly. -/
theorem check_iff_feasible (i : Inst) (hwf : wf i = true) (hstat : checkStatic i = true) (hD : ∀ a b, 0 ≤ i.D a b)
    (h00 : i.D 0 0 = 0) (hT00 : i.T 0 0 = 0)
    (hslack : i.openR = true → ∀ j, 1 ≤ j → j ≤ i.n → slackOk i j = true)
    (as : List Nat) (hord : ∀ r ∈ routes as, Ordered i r) (hend : i.openR = true ∨ endsAtDepot as = true) :
    check i as = true ↔ Feasible i as :=
  ⟨check_sound_partial i hwf as hord hend, check_complete_partial i hwf hstat hD h00 hT00 hslack as⟩

/-- … and then `Accepted` and `Feasible` coincide -/
theorem accepted_iff_feasible (i : Inst) (hwf : wf i = true) (hstat : checkStatic i = true) (hD : ∀ a b, 0 ≤ i.D a b)
    (h00 : i.D 0 0 = 0) (hT00 : i.T 0 0 = 0)
    (hslack : i.openR = true → ∀ j, 1 ≤ j → j ≤ i.n → slackOk i j = true)
    (as : List Nat) (hord : ∀ r ∈ routes as, Ordered i r) (hend : i.openR = true ∨ endsAtDepot as = true) :
    Accepted i as ↔ Feasible i as := by
  rw [← check_iff i hwf hstat hD h00 hT00 as]
  exact check_iff_feasible i hwf hstat hD h00 hT00 hslack as hord hend

/-- non-vacuity of `check_iff`: its hypotheses hold for `exInst`, and `[1, 2, 0]` is accepted -/
example : (∀ a b, 0 ≤ exInst.D a b) ∧ exInst.D 0 0 = 0 ∧ exInst.T 0 0 = 0 :=
  ⟨by intro a b; simp only [exInst]; split <;> omega, by decide, by decide⟩
example : Accepted exInst [1, 2, 0] :=
  (check_iff exInst (by decide) (by decide) (by intro a b; simp only [exInst]; split <;> omega) (by decide) (by decide)
    [1, 2, 0]).1 (check_of_parts sortedTest_2 (by decide))

/-- non-vacuity of the partial theorems: `exInst` satisfies all their hypotheses and `[1, 2, 0]` is feasible -/
example : wf exInst = true ∧ checkStatic exInst = true ∧ Feasible exInst [1, 2, 0] ∧ endsAtDepot [1, 2, 0] = true :=
  ⟨by decide, by decide, (feasible_iff _ _).1 (by decide), by decide⟩

end Rl4co.Mtvrp
