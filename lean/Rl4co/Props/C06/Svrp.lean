/-
C06 for SVRP.  Model of `SVRPEnv.check_solution_validity` = sort-and-compare test ∧ a skill loop over the
depot positions that tests a segment only when a depot visit CLOSES it and indexes `techs[tech]` at
every depot visit.

* `check_sound_counterexample`: the full soundness statement is FALSE — the customers after the last depot
  visit are never tested (`[1,2]` with customer 2 beyond technician 0 is accepted).  Known finding
  `svrp-checker-open-last-segment-C06`.
* `check_sound_partial`: acceptance implies feasibility of everything except the open last route
  (`Spec.feasibleClosed`); `check_sound_closed`: a solution that ends with a depot visit and is accepted
  is feasible.
* `check_complete_partial`: a feasible solution with at most T depot visits is accepted;
  `check_complete_counterexample`: with more depot visits (trailing padding) the checker raises
  (index out of range) although the solution is feasible.  Known finding
  `svrp-checker-more-depot-visits-than-technicians-C06`.
-/
import Rl4co.Env.Svrp
import Rl4co.Spec.Svrp
import Rl4co.Proofs.Sort
import Rl4co.Props.C01.Svrp
import Rl4co.Props.C04.Svrp

namespace Rl4co.Svrp
open Rl4co.Spec.Svrp

/-- what the skill loop tests, in terms of routes: every route that is followed by another one (closed
by a depot visit) needs an existing technician covering it; the last route is not looked at -/
def closedOk (i : Inst) : Nat → List (List Nat) → Bool
  | _, [] => true
  | _, [_] => true
  | k, r :: r' :: rs =>
    (decide (k < i.T) && r.all (fun j => decide (i.skills j ≤ i.techs k))) && closedOk i (k + 1) (r' :: rs)

theorem checkSkills_eq (i : Inst) (as : List Nat) : ∀ k seg r rs, routes as = r :: rs →
    checkSkills i k seg as = closedOk i k ((seg ++ r) :: rs) := by
  induction as with
  | nil =>
    intro k seg r rs h
    simp only [routes, List.cons.injEq] at h
    obtain ⟨h1, h2⟩ := h; subst h1 h2
    simp [checkSkills, closedOk]
  | cons a as ih =>
    intro k seg r rs h
    obtain ⟨r1, rs1, h1⟩ := routes_cons_exists as
    by_cases h0 : a = 0
    · subst h0
      simp only [routes, if_true, List.cons.injEq] at h
      obtain ⟨e1, e2⟩ := h; subst e1 e2
      rw [h1]
      have := ih (k + 1) [] r1 rs1 h1
      simp only [List.nil_append] at this
      simp only [checkSkills, if_true, this, closedOk, List.append_nil, Params.svrpCheckSkillCmp, Cmp.eval]
    · simp only [routes, h0, if_false, h1, List.cons.injEq] at h
      obtain ⟨e1, e2⟩ := h; subst e1 e2
      have := ih k (seg ++ [a]) r1 rs1 h1
      simp only [checkSkills, h0, if_false, this, List.append_assoc, List.singleton_append]

theorem routes_length (as : List Nat) : (routes as).length = as.count 0 + 1 := by
  induction as with
  | nil => simp [routes]
  | cons a as ih =>
    obtain ⟨r1, rs1, h1⟩ := routes_cons_exists as
    by_cases h0 : a = 0
    · subst h0; simp [routes, ih]
    · rw [h1] at ih
      simp [routes, h0, h1] at ih ⊢
      omega

theorem closedOk_of_routesOk (i : Inst) (rs : List (List Nat)) : ∀ k, routesOk i k rs = true →
    k + rs.length ≤ i.T + 1 → closedOk i k rs = true := by
  induction rs with
  | nil => intro _ _ _; rfl
  | cons r rs ih =>
    intro k h hl
    cases rs with
    | nil => rfl
    | cons r' rs' =>
      simp only [routesOk, routeOk, Bool.and_eq_true, Bool.or_eq_true, List.isEmpty_iff,
        List.all_eq_true, decide_eq_true_eq] at h
      simp only [List.length_cons] at hl
      have hk : k < i.T := by omega
      simp only [closedOk, Bool.and_eq_true, decide_eq_true_eq, List.all_eq_true]
      refine ⟨⟨hk, ?_⟩, ih (k + 1) ?_ (by simp only [List.length_cons]; omega)⟩
      · rcases h.1 with h1 | h1
        · subst h1; simp
        · exact h1.2
      · simp only [routesOk, routeOk, Bool.and_eq_true, Bool.or_eq_true, List.isEmpty_iff,
          List.all_eq_true, decide_eq_true_eq]
        exact h.2

theorem routesOk_dropLast_of_closedOk (i : Inst) (rs : List (List Nat)) : ∀ k, closedOk i k rs = true →
    routesOk i k rs.dropLast = true := by
  induction rs with
  | nil => intro _ _; rfl
  | cons r rs ih =>
    intro k h
    cases rs with
    | nil => rfl
    | cons r' rs' =>
      simp only [closedOk, Bool.and_eq_true, decide_eq_true_eq, List.all_eq_true] at h
      have := ih (k + 1) h.2
      simp only [List.dropLast_cons_cons, routesOk, routeOk, Bool.and_eq_true, Bool.or_eq_true,
        List.isEmpty_iff, List.all_eq_true, decide_eq_true_eq]
      exact ⟨Or.inr h.1, this⟩

/-- **C06 (SVRP), completeness for at most T depot visits.** -/
theorem check_complete_partial (i : Inst) (as : List Nat) (hf : Feasible i as) (hz : zeros as ≤ i.T) :
    check i as = true := by
  simp only [check, Bool.and_eq_true]
  refine ⟨(sortedTest_iff i.n as).2 ⟨hf.range, hf.once⟩, ?_⟩
  obtain ⟨r, rs, h⟩ := routes_cons_exists as
  rw [checkSkills_eq i as 0 [] r rs h, List.nil_append, ← h]
  apply closedOk_of_routesOk i _ 0 hf.skill
  rw [routes_length]
  simp only [zeros] at hz
  omega

/-- **C06 (SVRP), soundness up to the open last route.** -/
theorem check_sound_partial (i : Inst) (as : List Nat) (h : check i as = true) :
    feasibleClosed i as = true := by
  simp only [check, Bool.and_eq_true] at h
  obtain ⟨hs, hk⟩ := h
  obtain ⟨h1, h2⟩ := (sortedTest_iff i.n as).1 hs
  obtain ⟨r, rs, hr⟩ := routes_cons_exists as
  rw [checkSkills_eq i as 0 [] r rs hr, List.nil_append, ← hr] at hk
  simp only [feasibleClosed, Bool.and_eq_true, List.all_eq_true, decide_eq_true_eq, List.mem_range,
    beq_iff_eq]
  exact ⟨⟨h1, fun k hk' => h2 (k + 1) (by omega) (by omega)⟩, routesOk_dropLast_of_closedOk i _ 0 hk⟩

theorem routes_dropLast_append_zero (as : List Nat) : (routes (as ++ [0])).dropLast = routes as := by
  rw [routes_append_zero, List.dropLast_concat]

theorem routesOk_append_empty (i : Inst) (rs : List (List Nat)) : ∀ k,
    routesOk i k (rs ++ [[]]) = routesOk i k rs := by
  induction rs with
  | nil => intro k; simp [routesOk, routeOk]
  | cons r rs ih => intro k; simp [routesOk, ih]

/-- an accepted solution that ends with a depot visit is feasible -/
theorem check_sound_closed (i : Inst) (as : List Nat) (h : check i (as ++ [0]) = true) :
    Feasible i (as ++ [0]) := by
  have hp := check_sound_partial i _ h
  simp only [feasibleClosed, Bool.and_eq_true, routes_dropLast_append_zero] at hp
  apply (feasible_iff i _).1
  simp only [feasible, Bool.and_eq_true]
  refine ⟨hp.1, ?_⟩
  rw [routes_append_zero, routesOk_append_empty]
  exact hp.2

/-- the full soundness statement -/
def check_sound_statement : Prop := ∀ (i : Inst) (as : List Nat), check i as = true → Feasible i as

theorem check_sound_counterexample : ¬ check_sound_statement := by
  intro h
  have hc : check exInst [1, 2] = true := by
    simp only [check, Bool.and_eq_true]
    refine ⟨(sortedTest_iff _ _).2 ⟨by decide, ?_⟩, by decide⟩
    intro j h1 h2
    have h2' : j ≤ 2 := h2
    have : j = 1 ∨ j = 2 := by omega
    rcases this with h | h <;> subst h <;> decide
  have := (feasible_iff _ _).2 (h exInst [1, 2] hc)
  revert this
  decide

/-- the full completeness statement -/
def check_complete_statement : Prop := ∀ (i : Inst) (as : List Nat), Feasible i as → check i as = true

/-- one technician, one customer: `[1,0,0]` (a finished episode padded once) is feasible, the second depot
visit makes the checker index `techs[1]`. -/
theorem check_complete_counterexample : ¬ check_complete_statement := by
  intro h
  have := h ⟨1, 1, fun _ => 5, fun _ => 3, fun _ => 1, fun _ _ => 0⟩ [1, 0, 0] ((feasible_iff _ _).1 (by decide))
  simp only [check, Bool.and_eq_true] at this
  have h2 := this.2
  revert h2
  decide

/-- Non-vacuity: skill exactly = technician level, last technician. -/
example : Feasible exInst [1, 0, 2] ∧ zeros [1, 0, 2] ≤ exInst.T := ⟨(feasible_iff _ _).1 (by decide), by decide⟩

end Rl4co.Svrp
