/-
C06 for PDP: `check_solution_validity` (depot prepended unless `force_start_at_depot`; sorted ==
arange(width); no depot strictly inside; `argsort` positions of pickups < deliveries, the split being
derived from the width).
* complete: every feasible solution is accepted (both modes);
* sound for action lists of full width (no forced start): accepted ⇒ feasible;
* NOT sound in general: all sizes come from the width of the action tensor, so on a 2-pair instance
  the list `[1, 2]` (both pickups, no delivery ever made) is accepted — known finding.
-/
import Rl4co.Proofs.TspfamPdp
import Rl4co.Proofs.Sort
import Rl4co.Proofs.TspfamParams
import Rl4co.Props.C05.Pdp

namespace Rl4co.Pdp
open Rl4co.Tspfam

theorem zipWith_map_same {α β : Type} (f : β → β → Bool) (g g' : α → β) (l : List α) :
    List.zipWith f (l.map g) (l.map g') = l.map (fun x => f (g x) (g' x)) := by
  induction l with
  | nil => rfl
  | cons x xs ih => simp [ih]

/-- equal sizes: element-wise comparison -/
theorem bcastLt_same_iff (m : Nat) (g g' : Nat → Nat) :
    bcastLt ((List.range m).map g) ((List.range m).map g') = true ↔ ∀ t, t < m → g t < g' t := by
  simp only [bcastLt, Tspfam.bcastCmp, Cmp.evalNat, List.length_map, if_true, zipWith_map_same, List.all_map,
    List.all_eq_true, List.mem_range, Function.comp, id, decide_eq_true_eq]

/-- the checker body on the (possibly depot-prefixed) action list -/
def checkActs (acts : List Nat) : Bool :=
  let L := acts.length
  let k := L / 2 + 1
  sortedIsRange L acts &&
  ((acts.drop 1).dropLast).all (fun a => a != 0) &&
  bcastLt ((List.range (k - 1)).map (fun t => acts.idxOf (1 + t)))
    ((List.range (L - k)).map (fun t => acts.idxOf (k + t)))

theorem check_eq (i : Inst) (as : List Nat) :
    check i as = checkActs (if i.force then as else 0 :: as) := by
  rw [check_unfold]; rfl

/-- what acceptance means for an action list of odd width `2m + 1` -/
theorem checkActs_iff_odd (m : Nat) (acts : List Nat) (hlen : acts.length = 2 * m + 1) :
    checkActs acts = true ↔
      acts.Perm (List.range (2 * m + 1)) ∧ (∀ a ∈ (acts.drop 1).dropLast, a ≠ 0) ∧
      ∀ t, t < m → acts.idxOf (1 + t) < acts.idxOf (m + 1 + t) := by
  have hk : (2 * m + 1) / 2 + 1 = m + 1 := by omega
  have h1 : m + 1 - 1 = m := by omega
  have h2 : 2 * m + 1 - (m + 1) = m := by omega
  simp only [checkActs, hlen, hk, h1, h2, Bool.and_eq_true, sortedIsRange_iff, bcastLt_same_iff,
    List.all_eq_true, bne_iff_ne, ne_eq, and_assoc]

theorem idxOf_cons_zero (cs : List Nat) {v : Nat} (hv : v ≠ 0) :
    (0 :: cs).idxOf v = cs.idxOf v + 1 := by
  have : ((0 : Nat) == v) = false := by simpa using fun h : 0 = v => hv h.symm
  simp [List.idxOf_cons, this]

theorem range_succ_eq (n : Nat) : List.range (n + 1) = 0 :: List.range' 1 n := by
  rw [List.range_eq_range', List.range'_succ]

/-- acceptance of `0 :: cs` of full width ⇔ `cs` feasible -/
theorem checkActs_cons_iff (h : Nat) (cs : List Nat) (hlen : cs.length = 2 * h) :
    checkActs (0 :: cs) = true ↔ Spec.Pdp.Feasible h cs := by
  rw [checkActs_iff_odd h (0 :: cs) (by simp [hlen])]
  constructor
  · rintro ⟨hp, _, hpr⟩
    rw [range_succ_eq] at hp
    obtain ⟨hr, ho⟩ := (once_iff_perm (2 * h) cs).mpr hp.cons_inv
    refine ⟨hr, ho, ?_⟩
    intro p hp1 hp2
    have := hpr (p - 1) (by omega)
    have e1 : 1 + (p - 1) = p := by omega
    have e2 : h + 1 + (p - 1) = p + h := by omega
    rw [e1, e2, idxOf_cons_zero cs (by omega), idxOf_cons_zero cs (by omega)] at this
    omega
  · intro hf
    refine ⟨?_, ?_, ?_⟩
    · rw [range_succ_eq]
      exact List.Perm.cons 0 (spec_perm hf)
    · intro a ha
      simp only [List.drop_succ_cons, List.drop_zero] at ha
      have := hf.range a (List.dropLast_subset cs ha)
      omega
    · intro t ht
      have := hf.prec (1 + t) (by omega) (by omega)
      have e2 : h + 1 + t = 1 + t + h := by omega
      rw [e2, idxOf_cons_zero cs (by omega), idxOf_cons_zero cs (by omega)]
      omega

/-- **C06 (PDP, no forced start), completeness.** -/
theorem check_complete (i : Inst) (hf : i.force = false) {cs : List Nat}
    (hfe : Spec.Pdp.Feasible i.h cs) : check i cs = true := by
  rw [check_eq, hf]
  exact (checkActs_cons_iff i.h cs (spec_length hfe)).mpr hfe

/-- **C06 (PDP, forced start), completeness.** -/
theorem check_complete_force (i : Inst) (hf : i.force = true) {as : List Nat}
    (hfe : Spec.Pdp.FeasibleF i.h as) : check i as = true := by
  obtain ⟨cs, rfl, hfe⟩ := hfe
  rw [check_eq, hf]
  exact (checkActs_cons_iff i.h cs (spec_length hfe)).mpr hfe

/-- full soundness, as the property demands it -/
def check_sound_statement : Prop :=
  ∀ (i : Inst) (cs : List Nat), i.force = false → check i cs = true → Spec.Pdp.Feasible i.h cs

/-- … is false of the code: two pairs (1→3, 2→4), both pickups made, no delivery: accepted. -/
theorem check_sound_counterexample : ¬ check_sound_statement := by
  intro hs
  have hc : check ⟨2, false, fun _ _ => 0⟩ [1, 2] = true := by
    rw [check_eq]
    refine (checkActs_iff_odd 1 [0, 1, 2] rfl).mpr ⟨List.Perm.refl _, ?_, ?_⟩
    · intro a ha; simp at ha; omega
    · intro t ht
      have : t = 0 := by omega
      subst this; decide
  have := (hs ⟨2, false, fun _ _ => 0⟩ [1, 2] rfl hc).once 3 (by decide) (by decide)
  simp at this

/-- **C06 (PDP, no forced start), soundness for full-width action lists.** -/
theorem check_sound_partial (i : Inst) (hf : i.force = false) {cs : List Nat}
    (hlen : cs.length = i.n) (hc : check i cs = true) : Spec.Pdp.Feasible i.h cs := by
  rw [check_eq, hf] at hc
  exact (checkActs_cons_iff i.h cs hlen).mp hc

/-- **C06 (PDP, forced start), soundness for full-width action lists that start at the depot.** -/
theorem check_sound_partial_force (i : Inst) (hf : i.force = true) {cs : List Nat}
    (hlen : cs.length = i.n) (hc : check i (0 :: cs) = true) : Spec.Pdp.FeasibleF i.h (0 :: cs) := by
  rw [check_eq, hf] at hc
  exact ⟨cs, rfl, (checkActs_cons_iff i.h cs hlen).mp hc⟩

/-- acceptance of `cs ++ [0]` of full width ⇒ `cs` feasible (the depot written at the end) -/
theorem feasible_of_checkActs_snoc (h : Nat) (cs : List Nat) (hlen : cs.length = 2 * h)
    (hc : checkActs (cs ++ [0]) = true) : Spec.Pdp.Feasible h cs := by
  obtain ⟨hp, _, hpr⟩ := (checkActs_iff_odd h (cs ++ [0]) (by simp [hlen])).mp hc
  rw [range_succ_eq] at hp
  have hmid : (cs ++ [0]).Perm (0 :: cs) := by
    have := List.perm_middle (a := 0) (l₁ := cs) (l₂ := [])
    simp only [List.append_nil] at this
    exact this
  have hp' : (0 :: cs).Perm (0 :: List.range' 1 (2 * h)) := hmid.symm.trans hp
  obtain ⟨hr, ho⟩ := (once_iff_perm (2 * h) cs).mpr hp'.cons_inv
  refine ⟨hr, ho, ?_⟩
  have hmem : ∀ v, 1 ≤ v → v ≤ 2 * h → v ∈ cs := by
    intro v hv1 hv2
    have := ho v hv1 hv2
    exact List.count_pos_iff.mp (by omega)
  intro p hp1 hp2
  have := hpr (p - 1) (by omega)
  have e1 : 1 + (p - 1) = p := by omega
  have e2 : h + 1 + (p - 1) = p + h := by omega
  rw [e1, e2, List.idxOf_append, List.idxOf_append, if_pos (hmem p hp1 (by omega)),
    if_pos (hmem (p + h) (by omega) (by omega))] at this
  exact this

/-- **C06 (PDP, forced start), soundness for full-width action lists**: an accepted list of width
`n + 1` is a feasible closed depot tour — the depot first (what the mask produces) or last (the same
closed walk), and a feasible customer sequence in between. -/
theorem check_sound_partial_force_tour (i : Inst) (hf : i.force = true) {as : List Nat}
    (hlen : as.length = i.n + 1) (hc : check i as = true) : Spec.Pdp.FeasibleTour i.h as := by
  rw [check_eq, hf] at hc
  simp only [if_true] at hc
  have hlen' : as.length = 2 * i.h + 1 := by simpa [Inst.n] using hlen
  obtain ⟨hp, hmid, _⟩ := (checkActs_iff_odd i.h as hlen').mp hc
  have h0 : 0 ∈ as := (hp.mem_iff).mpr (by simp)
  cases as with
  | nil => cases h0
  | cons a rest =>
    have hrl : rest.length = 2 * i.h := by simpa using hlen'
    by_cases ha : a = 0
    · subst ha
      exact ⟨rest, Or.inl rfl, (checkActs_cons_iff i.h rest hrl).mp hc⟩
    · -- the depot is in `rest`, not in its `dropLast`: it is the last element
      have h0r : 0 ∈ rest := by
        rcases List.mem_cons.mp h0 with hh | hh
        · exact absurd hh.symm ha
        · exact hh
      simp only [List.drop_succ_cons, List.drop_zero] at hmid
      rcases List.eq_nil_or_concat rest with hnil | ⟨ys, b, hb⟩
      · subst hnil; cases h0r
      · simp only [List.concat_eq_append] at hb
        subst hb
        rw [List.dropLast_concat] at hmid
        have hb0 : b = 0 := by
          rcases List.mem_append.mp h0r with hh | hh
          · exact absurd rfl (hmid 0 hh)
          · have : 0 = b := by simpa using hh
            exact this.symm
        subst hb0
        refine ⟨a :: ys, Or.inr (by simp), ?_⟩
        apply feasible_of_checkActs_snoc i.h (a :: ys) (by simpa using hrl)
        simpa using hc

/-- **C06 (PDP, no forced start), exact characterisation.** -/
theorem feasible_iff_check_and_width (i : Inst) (hf : i.force = false) (cs : List Nat) :
    Spec.Pdp.Feasible i.h cs ↔ (check i cs = true ∧ cs.length = i.n) :=
  ⟨fun h => ⟨check_complete i hf h, by simpa [Inst.n] using spec_length h⟩,
   fun ⟨hc, hl⟩ => check_sound_partial i hf hl hc⟩

/-- a feasible customer sequence followed by the depot is accepted as well -/
theorem checkActs_snoc_of_feasible (h : Nat) (cs : List Nat) (hf : Spec.Pdp.Feasible h cs) :
    checkActs (cs ++ [0]) = true := by
  have hlen := spec_length hf
  refine (checkActs_iff_odd h (cs ++ [0]) (by simp [hlen])).mpr ⟨?_, ?_, ?_⟩
  · rw [range_succ_eq]
    have hmid : (cs ++ [0]).Perm (0 :: cs) := by
      have := List.perm_middle (a := 0) (l₁ := cs) (l₂ := [])
      simp only [List.append_nil] at this
      exact this
    exact hmid.trans (List.Perm.cons 0 (spec_perm hf))
  · intro a ha
    have hsub : a ∈ cs := by
      cases cs with
      | nil => simp at ha
      | cons c rest =>
        simp only [List.cons_append, List.drop_succ_cons, List.drop_zero, List.dropLast_concat] at ha
        exact List.mem_cons_of_mem _ ha
    have := hf.range a hsub
    omega
  · intro t ht
    have hmem : ∀ v, 1 ≤ v → v ≤ 2 * h → v ∈ cs := by
      intro v hv1 hv2
      exact List.count_pos_iff.mp (by have := hf.once v hv1 hv2; omega)
    have := hf.prec (1 + t) (by omega) (by omega)
    have e2 : h + 1 + t = 1 + t + h := by omega
    rw [e2, List.idxOf_append, List.idxOf_append, if_pos (hmem (1 + t) (by omega) (by omega)),
      if_pos (hmem (1 + t + h) (by omega) (by omega))]
    exact this

/-- **C06 (PDP, forced start), exact characterisation**: the accepted full-width action lists are exactly
the feasible closed depot tours (depot first or last). -/
theorem feasibleTour_iff_check_and_width (i : Inst) (hf : i.force = true) (as : List Nat) :
    Spec.Pdp.FeasibleTour i.h as ↔ (check i as = true ∧ as.length = i.n + 1) := by
  constructor
  · rintro ⟨cs, (rfl | rfl), hfe⟩
    · exact ⟨check_complete_force i hf ⟨cs, rfl, hfe⟩, by simp [Inst.n, spec_length hfe]⟩
    · refine ⟨?_, by simp [Inst.n, spec_length hfe]⟩
      rw [check_eq, hf]
      exact checkActs_snoc_of_feasible i.h cs hfe
  · rintro ⟨hc, hl⟩
    exact check_sound_partial_force_tour i hf hl hc

theorem plainCheck_eq_checkActs (acts : List Nat) : plainCheck acts = checkActs acts := rfl

/-- **C06 (PDP, no forced start), repaired clause**: with every size taken from the instance the checker
accepts exactly the feasible customer sequences. -/
theorem checkWith_true_iff (i : Inst) (hf : i.force = false) (cs : List Nat) :
    checkWith true i cs = true ↔ Spec.Pdp.Feasible i.h cs := by
  rw [checkWith_eq, feasible_iff_check_and_width i hf cs, check_unfold]
  simp only [actsOf, hf, Bool.false_eq_true, if_false, Bool.not_true, Bool.false_or, Bool.and_eq_true,
    decide_eq_true_eq, List.length_cons]
  constructor
  · rintro ⟨h1, h2⟩; exact ⟨h2, by omega⟩
  · rintro ⟨h1, h2⟩; exact ⟨by omega, h1⟩

/-- **C06 (PDP, forced start), repaired clause**: accepts exactly the feasible closed depot tours. -/
theorem checkWith_true_iff_force (i : Inst) (hf : i.force = true) (as : List Nat) :
    checkWith true i as = true ↔ Spec.Pdp.FeasibleTour i.h as := by
  rw [checkWith_eq, feasibleTour_iff_check_and_width i hf as, check_unfold]
  simp only [actsOf, hf, if_true, Bool.not_true, Bool.false_or, Bool.and_eq_true, decide_eq_true_eq]
  exact ⟨fun ⟨h1, h2⟩ => ⟨h2, h1⟩, fun ⟨h1, h2⟩ => ⟨h2, h1⟩⟩

theorem width_source_is_action_tensor : Params.pdpCheckWidthFromInst = false := rfl

theorem check_sound_complete_of_fixed (hfix : Params.pdpCheckWidthFromInst = true) (i : Inst)
    (hf : i.force = false) (cs : List Nat) : check i cs = true ↔ Spec.Pdp.Feasible i.h cs := by
  rw [check, hfix]; exact checkWith_true_iff i hf cs

theorem check_sound_complete_of_fixed_force (hfix : Params.pdpCheckWidthFromInst = true) (i : Inst)
    (hf : i.force = true) (as : List Nat) : check i as = true ↔ Spec.Pdp.FeasibleTour i.h as := by
  rw [check, hfix]; exact checkWith_true_iff_force i hf as

/-- Non-vacuity. -/
example : check ⟨2, false, fun _ _ => 0⟩ [2, 1, 4, 3] = true :=
  check_complete _ rfl ((Spec.Pdp.feasible_iff 2 _).mp (by decide))

end Rl4co.Pdp
