/-
C06 for PCTSP / SPCTSP: `check_solution_validity` agrees with the definition, in both directions:

* `check_complete`  every Spec-feasible action list (with or without a final return, with trailing
                    depot padding, with depot visits anywhere) is accepted, for any tolerance ≥ 0;
* `check_sound`     every accepted action list is feasible up to the prize tolerance: entries in
                    range, no customer twice, and the real prize collected is at least
                    `requirement − tol` or every customer is visited.

The checker's second disjunct counts the non-depot entries of the action list; that this number is
`n` exactly when every customer occurs (given no duplicates) is the counting lemma `length_eq_counts`.
-/
import Rl4co.Env.Pctsp
import Rl4co.Spec.Pctsp
import Rl4co.Proofs.OpShared
import Rl4co.Props.C01.Pctsp

namespace Rl4co.Pctsp
open Rl4co.Spec.Pctsp Rl4co.Prize

/-- length of a list with entries `≤ n` = number of depot entries + Σ_j multiplicity of customer j -/
theorem length_eq_counts (n : Nat) (as : List Nat) (hr : ∀ a ∈ as, a ≤ n) :
    (as.length : Int) = (as.count 0 : Int) + sumTo n (fun k => (as.count (k + 1) : Int)) := by
  induction as with
  | nil => simp [sumTo_zero]
  | cons a t ih =>
    have ih' := ih (fun b hb => hr b (List.mem_cons_of_mem _ hb))
    have han : a ≤ n := hr a (List.mem_cons_self)
    have hsplit : (fun k => ((a :: t).count (k + 1) : Int)) =
        (fun k => (if k + 1 = a then (1 : Int) else 0) + (t.count (k + 1) : Int)) := by
      funext k
      rw [List.count_cons]
      by_cases hk : k + 1 = a
      · simp [hk]; omega
      · have : ¬ (a = k + 1) := fun h => hk h.symm
        simp [hk, this]
    rw [hsplit, sumTo_add, sumTo_single, List.count_cons]
    by_cases h0 : a = 0
    · subst h0
      have : ¬ (1 ≤ 0 ∧ 0 ≤ n) := by omega
      simp only [List.length_cons, this, if_false]
      simp
      omega
    · have : 1 ≤ a ∧ a ≤ n := by omega
      simp only [List.length_cons, this]
      simp [h0]
      omega

theorem sumTo_le_of_le_one (n : Nat) (c : Nat → Int) (h : ∀ k, k < n → c k ≤ 1) : sumTo n c ≤ n := by
  induction n with
  | zero => simp [sumTo]
  | succ n ih =>
    have := ih (fun k hk => h k (Nat.lt_succ_of_lt hk))
    have := h n (Nat.lt_succ_self n)
    simp only [sumTo]
    omega

/-- a sum of `n` terms `≤ 1` that reaches `n` has all terms equal to 1 -/
theorem all_one_of_sumTo_eq (n : Nat) (c : Nat → Int) (h : ∀ k, k < n → c k ≤ 1)
    (hs : sumTo n c = n) : ∀ k, k < n → c k = 1 := by
  induction n with
  | zero => intro k hk; omega
  | succ n ih =>
    have hle := sumTo_le_of_le_one n c (fun k hk => h k (Nat.lt_succ_of_lt hk))
    have hn := h n (Nat.lt_succ_self n)
    simp only [sumTo] at hs
    have h1 : c n = 1 := by omega
    have h2 : sumTo n c = n := by omega
    intro k hk
    rcases Nat.lt_succ_iff_lt_or_eq.mp hk with hlt | heq
    · exact ih (fun k hk => h k (Nat.lt_succ_of_lt hk)) h2 k hlt
    · subst heq; exact h1

theorem sumTo_all_one (n : Nat) (c : Nat → Int) (h : ∀ k, k < n → c k = 1) : sumTo n c = n := by
  induction n with
  | zero => simp [sumTo]
  | succ n ih =>
    have := ih (fun k hk => h k (Nat.lt_succ_of_lt hk))
    have := h n (Nat.lt_succ_self n)
    simp only [sumTo]
    omega

/-- with no repeated customer, the number of non-depot entries is `n` iff every customer occurs -/
theorem nonzero_count_eq_iff (i : Inst) (as : List Nat) (hr : ∀ a ∈ as, a ≤ i.n)
    (ho : ∀ j, 1 ≤ j → as.count j ≤ 1) :
    as.length - as.count 0 = i.n ↔ AllVisited i as := by
  have hlen := length_eq_counts i.n as hr
  have hc0 : as.count 0 ≤ as.length := List.count_le_length
  constructor
  · intro h j hj1 hj2
    have hs : sumTo i.n (fun k => (as.count (k + 1) : Int)) = i.n := by omega
    have := all_one_of_sumTo_eq i.n _ (fun k _ => by have := ho (k + 1) (by omega); omega) hs (j - 1)
      (by omega)
    have e : j - 1 + 1 = j := by omega
    simp only [e] at this
    exact List.count_pos_iff.mp (by omega)
  · intro h
    have hs : sumTo i.n (fun k => (as.count (k + 1) : Int)) = i.n := by
      apply sumTo_all_one
      intro k hk
      have h1 := ho (k + 1) (by omega)
      have h2 : 0 < as.count (k + 1) := List.count_pos_iff.mpr (h (k + 1) (by omega) (by omega))
      omega
    omega

/-- the checker's literal `1` is the requirement of the problem (extracted constant) -/
theorem checkReq_eq (i : Inst) : checkReq i = i.req := by
  simp [checkReq, Params.pctspCheckPrizeBase]

theorem check_eq_true_iff (i : Inst) (tol : Int) (as : List Nat) :
    check i tol as = true ↔
      (∀ a ∈ as, a ≤ i.n) ∧ (∀ j, 1 ≤ j → as.count j ≤ 1) ∧
      (i.req - tol ≤ gatherSum (realPrize i) as ∨ as.length - as.count 0 = i.n) := by
  simp only [check, Bool.and_eq_true, Bool.or_eq_true, List.all_eq_true, decide_eq_true_eq,
    adjOk_sort_iff, checkReq_eq, Params.pctspCheckPrizeCmp, Cmp.eval, ge_iff_le]
  constructor
  · rintro ⟨⟨h1, h2⟩, h3⟩; exact ⟨h1, h2, h3⟩
  · rintro ⟨h1, h2, h3⟩; exact ⟨⟨h1, h2⟩, h3⟩

theorem once_all (i : Inst) {as : List Nat} (hr : ∀ a ∈ as, a ≤ i.n)
    (ho : ∀ j, 1 ≤ j → j ≤ i.n → as.count j ≤ 1) : ∀ j, 1 ≤ j → as.count j ≤ 1 := by
  intro j hj
  by_cases hjn : j ≤ i.n
  · exact ho j hj hjn
  · have : j ∉ as := fun hm => hjn (hr j hm)
    rw [List.count_eq_zero_of_not_mem this]; omega

/-- **C06 (PCTSP / SPCTSP), completeness.** -/
theorem check_complete (i : Inst) (tol : Int) (htol : 0 ≤ tol) {as : List Nat} (hf : Feasible i as) :
    check i tol as = true := by
  rw [check_eq_true_iff]
  have ho := once_all i hf.range hf.once
  refine ⟨hf.range, ho, ?_⟩
  rcases hf.prize with hp | hall
  · left
    rw [gatherSum_eq_sumTo i.n (realPrize i) as hf.range hf.once]
    simp only [collected] at hp
    omega
  · right
    exact (nonzero_count_eq_iff i as hf.range ho).mpr hall

/-- **C06 (PCTSP / SPCTSP), soundness.** -/
theorem check_sound (i : Inst) (tol : Int) {as : List Nat} (h : check i tol as = true) :
    FeasibleWithin tol i as := by
  rw [check_eq_true_iff] at h
  obtain ⟨h1, h2, h3⟩ := h
  refine ⟨h1, fun j hj _ => h2 j hj, ?_⟩
  rcases h3 with hp | hc
  · left
    simp only [collected]
    rw [← gatherSum_eq_sumTo i.n (realPrize i) as h1 (fun j hj _ => h2 j hj)]
    exact hp
  · right
    exact (nonzero_count_eq_iff i as h1 h2).mp hc

/-- Non-vacuity: on the example instance `[1, 2]` (never returns, prize exactly the requirement) is
feasible, hence accepted; `[1, 3, 0]` (prize 3 < 4 − 0) is rejected. -/
example : Feasible exInst [1, 2] := (feasible_iff _ _).mp (by decide)
example : check exInst 0 [1, 3, 0] = false := by
  cases h : check exInst 0 [1, 3, 0] with
  | false => rfl
  | true =>
    have := (check_sound _ _ h).prize
    rcases this with hp | hall
    · revert hp; decide
    · have := hall 2 (by decide) (by decide); revert this; decide

/-- **C06 (PCTSP / SPCTSP), exact iff**: the checker accepts a list ⇔ the list is feasible within the
prize tolerance (any list: with or without return, padding, depot visits in between). -/
theorem check_iff_feasibleWithin (i : Inst) (tol : Int) (as : List Nat) :
    check i tol as = true ↔ FeasibleWithin tol i as := by
  constructor
  · exact check_sound i tol
  · intro hf
    rw [check_eq_true_iff]
    have ho := once_all i hf.range hf.once
    refine ⟨hf.range, ho, ?_⟩
    rcases hf.prize with hp | hall
    · left
      rw [gatherSum_eq_sumTo i.n (realPrize i) as hf.range hf.once]
      simpa [collected] using hp
    · right
      exact (nonzero_count_eq_iff i as hf.range ho).mpr hall

/-- with tolerance 0 the checker decides feasibility exactly -/
theorem check_zero_iff_feasible (i : Inst) (as : List Nat) : check i 0 as = true ↔ Feasible i as := by
  rw [check_iff_feasibleWithin]
  constructor
  · rintro ⟨h1, h2, h3⟩; exact ⟨h1, h2, by simpa using h3⟩
  · rintro ⟨h1, h2, h3⟩; exact ⟨h1, h2, by simpa using h3⟩

/-- **C06, soundness with the extracted tolerance** (`>= 1 - 1e-5`): if the tick tolerance handed to the
model is at most `1e-5` of the requirement, an accepted list collects at least `(1 − 1e-5)·requirement`
or visits everybody. -/
theorem check_sound_extracted (i : Inst) (tol : Int)
    (htol : Params.pctspCheckTol.2 * tol ≤ -Params.pctspCheckTol.1 * i.req) {as : List Nat}
    (h : check i tol as = true) :
    99999 * i.req ≤ 100000 * collected i as ∨ AllVisited i as := by
  simp only [Params.pctspCheckTol] at htol
  rcases (check_sound i tol h).prize with hp | hall
  · left; omega
  · exact Or.inr hall

end Rl4co.Pctsp
