/-
C06 for the two improvement-environment checkers (`TSPkoptEnv.check_solution_validity`,
`PDPRuinRepairEnv.check_solution_validity`): completeness is proved for every size; soundness FAILS
(sub-tours are accepted) — full statement, counterexample and the strongest partial theorem below.
-/
import Rl4co.Proofs.ImproveOracle
import Rl4co.Proofs.ImprovePdpOracle

namespace Rl4co.Improve.Check
open Rl4co.Spec.Improve

/-- the successor array of a tour is a permutation of `0..n-1` -/
theorem map_perm_of_isTour (r : Rec) (n : Nat) (h : IsTour r n) :
    ((List.range n).map r).Perm (List.range n) := by
  obtain ⟨seq, hperm, hcyc⟩ := h
  have h1 : ((List.range n).map r).Perm (seq.map r) := (hperm.symm.map r)
  refine h1.trans (List.Perm.trans ?_ hperm)
  cases seq with
  | nil => simp
  | cons x t =>
    rw [cycleOf_map r x t hcyc]
    exact (List.perm_append_comm : (t ++ [x]).Perm ([x] ++ t))

/-- **C06 (k-opt TSP checker, completeness).** every single `n`-cycle passes. -/
theorem kopt_complete (r : Rec) (n : Nat) (h : IsTour r n) : checkKopt n r = true :=
  (sortedIsRange_iff n _).mpr (map_perm_of_isTour r n h)

/-- the full soundness claim … -/
def kopt_sound_statement : Prop := ∀ (n : Nat) (r : Rec), checkKopt n r = true → IsTour r n

/-- … fails: `rec_best = [1, 0, 3, 2]` (two sub-tours 0↔1 and 2↔3) is accepted. -/
theorem kopt_sound_counterexample : ¬ kopt_sound_statement := by
  intro h
  have h1 := h 4 (fun j => [1, 0, 3, 2].getD j 0) ((sortedIsRange_iff 4 _).mpr (by decide))
  have h2 := isTourB_of_isTour _ _ h1
  revert h2
  decide

/-- what acceptance does guarantee: every node has exactly one successor and one predecessor
(the successor array is a permutation of `0..n-1`), not that it is ONE cycle. -/
theorem kopt_sound_partial (r : Rec) (n : Nat) (h : checkKopt n r = true) :
    ((List.range n).map r).Perm (List.range n) :=
  (sortedIsRange_iff n _).mp h

theorem sublist_pair_decomp {x y : Nat} : ∀ {l : List Nat}, [x, y].Sublist l →
    ∃ A B C, l = A ++ x :: (B ++ y :: C) := by
  intro l
  induction l with
  | nil => intro h; simp at h
  | cons a l ih =>
    intro h
    by_cases hax : a = x
    · subst hax
      have h' : [y].Sublist l := by
        cases h with
        | cons _ h => exact (List.sublist_cons_self a [y]).trans h
        | cons_cons _ h => exact h
      obtain ⟨B, C, hBC⟩ := List.append_of_mem (List.singleton_sublist.mp h')
      exact ⟨[], B, C, by simp [hBC]⟩
    · have h' : [x, y].Sublist l := by
        cases h with
        | cons _ h => exact h
        | cons_cons _ h => exact absurd rfl hax
      obtain ⟨A, B, C, hl⟩ := ih h'
      exact ⟨a :: A, B, C, by simp [hl]⟩

/-- **C06 (PDP ruin-repair checker, completeness).** every valid PDP tour on an odd number of
nodes (depot + h pickups + h deliveries) passes. -/
theorem pdp_complete (r : Rec) (gs : Nat) (hodd : gs % 2 = 1) (h : PdpValid r gs) :
    checkPdp gs r = true := by
  obtain ⟨rest, hperm, hcyc, hprec⟩ := h
  have hnd : (0 :: rest).Nodup := hperm.nodup_iff.mpr List.nodup_range
  have hlen : (0 :: rest).length = gs := hperm.length_eq.trans List.length_range
  simp only [checkPdp, Bool.and_eq_true, decide_eq_true_eq, List.all_eq_true, List.mem_range]
  refine ⟨⟨kopt_complete r gs ⟨_, hperm, hcyc⟩, ?_⟩, ?_⟩
  · omega
  intro k hk
  obtain ⟨A, B, C, hdec⟩ := sublist_pair_decomp (hprec (k + 1) (by omega) (by omega))
  have hA : A ≠ [] := by
    intro e; subst e; simp at hdec
  have h1 := vt_exact gs r rest hcyc hnd hlen A (k + 1) (B ++ (k + 1 + gs / 2) :: C) hdec
  have hdec2 : 0 :: rest = (A ++ (k + 1) :: B) ++ (k + 1 + gs / 2) :: C := by rw [hdec]; simp
  have h2 := vt_exact gs r rest hcyc hnd hlen _ (k + 1 + gs / 2) C hdec2
  rw [h1, h2]
  simp [hA]

def pdp_sound_statement : Prop := ∀ (gs : Nat) (r : Rec), gs % 2 = 1 → checkPdp gs r = true → PdpValid r gs

/-- … fails: `rec_best = [3, 2, 1, 4, 0]` on 5 nodes (depot cycle 0→3→4→0 through both deliveries, the
pickups 1↔2 on a separate sub-tour, never visited from the depot) is accepted. -/
theorem pdp_sound_counterexample : ¬ pdp_sound_statement := by
  intro h
  have hchk : checkPdp 5 (fun j => [3, 2, 1, 4, 0].getD j 0) = true := by
    simp only [checkPdp, checkKopt, Bool.and_eq_true]
    exact ⟨⟨(sortedIsRange_iff 5 _).mpr (by decide), by decide⟩, by decide⟩
  obtain ⟨rest, hperm, hcyc, _⟩ := h 5 (fun j => [3, 2, 1, 4, 0].getD j 0) (by decide) hchk
  have h2 := isTourB_of_isTour _ 5 ⟨_, hperm, hcyc⟩
  revert h2
  decide

/-- what acceptance does guarantee: IF the accepted array is a single cycle, then every pickup
precedes its delivery. -/
theorem pdp_sound_partial (r : Rec) (gs : Nat) (hodd : gs % 2 = 1) (hc : checkPdp gs r = true)
    (ht : IsTour r gs) : PdpValid r gs := by
  obtain ⟨rest, hperm, hcyc⟩ := isTour_from r gs ht 0 (by omega)
  have hnd : (0 :: rest).Nodup := hperm.nodup_iff.mpr List.nodup_range
  have hlen : (0 :: rest).length = gs := hperm.length_eq.trans List.length_range
  have hmem : ∀ z, z ∈ 0 :: rest ↔ z < gs := fun z => hperm.mem_iff.trans List.mem_range
  simp only [checkPdp, Bool.and_eq_true, decide_eq_true_eq, List.all_eq_true, List.mem_range] at hc
  obtain ⟨_, hvt⟩ := hc
  refine ⟨rest, hperm, hcyc, ?_⟩
  intro i hi1 hi2
  have hlt := hvt (i - 1) (by omega)
  have e1 : i - 1 + 1 = i := by omega
  rw [e1] at hlt
  obtain ⟨A, B, hdec⟩ := List.append_of_mem ((hmem i).mpr (by omega))
  have hA : A ≠ [] := by
    intro e; subst e; simp at hdec; omega
  have h1 := vt_exact gs r rest hcyc hnd hlen A i B hdec
  have hjm : i + gs / 2 ∈ A ++ i :: B := hdec ▸ (hmem _).mpr (by omega)
  unfold Before
  rcases List.mem_append.mp hjm with hj | hj
  · exfalso
    obtain ⟨A1, A2, hA12⟩ := List.append_of_mem hj
    have hdec2 : 0 :: rest = A1 ++ (i + gs / 2) :: (A2 ++ i :: B) := by rw [hdec, hA12]; simp
    have h2 := vt_exact gs r rest hcyc hnd hlen A1 _ _ hdec2
    have hA1 : A1 ≠ [] := by
      intro e; subst e; simp at hdec2; omega
    rw [h1, h2] at hlt
    simp only [hA, hA1, if_false] at hlt
    rw [hA12] at hlt; simp at hlt; omega
  · rcases List.mem_cons.mp hj with hj | hj
    · omega
    · rw [hdec]
      exact (List.Sublist.cons_cons i (List.singleton_sublist.mpr hj)).trans (List.sublist_append_right A _)

/-- Non-vacuity of the completeness theorems: the tour 0→1→3→2→4→0 is valid and passes both checkers. -/
example : checkKopt 5 (fun j => [1, 3, 4, 2, 0].getD j 0) = true ∧
    checkPdp 5 (fun j => [1, 3, 4, 2, 0].getD j 0) = true := by
  simp only [checkPdp, checkKopt, Bool.and_eq_true]
  exact ⟨(sortedIsRange_iff 5 _).mpr (by decide), ⟨(sortedIsRange_iff 5 _).mpr (by decide), by decide⟩, by decide⟩

end Rl4co.Improve.Check
