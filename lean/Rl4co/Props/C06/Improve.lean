/-
C06 for the two improvement-environment checkers (`TSPkoptEnv.check_solution_validity`,
`PDPRuinRepairEnv.check_solution_validity`): completeness is proved for every size; soundness FAILS
(sub-tours are accepted) — full statement, counterexample and the strongest partial theorem below.
-/
import Rl4co.Proofs.ImproveOracle
import Rl4co.Proofs.ImprovePdpOracle
import Rl4co.Props.C09.ImproveCode

namespace Rl4co.Improve.Check
open Rl4co.Spec.Improve

/-- the successor array of a tour is a permutation of `0..n-1` -/
theorem map_perm_of_isTour (r : Rec) (n : Nat) (h : IsTour r n) :
    ((List.range n).map r).Perm (List.range n) := by
  obtain ⟨seq, hperm, hcyc⟩ := h
  have h1 : ((List.range n).map r).Perm (seq.map r) := (hperm.symm.map r)
  refine h1.trans (List.Perm.trans ?_ hperm)
  cases seq with
  | nil => simp
  | cons x t =>
    rw [cycleOf_map r x t hcyc]
    exact (List.perm_append_comm : (t ++ [x]).Perm ([x] ++ t))

/-- **C06 (k-opt TSP checker, completeness).** every single `n`-cycle passes. -/
theorem kopt_complete (r : Rec) (n : Nat) (h : IsTour r n) : checkKopt n r = true :=
  (sortedIsRange_iff n _).mpr (map_perm_of_isTour r n h)

/-- the full soundness claim … -/
def kopt_sound_statement : Prop := ∀ (n : Nat) (r : Rec), checkKopt n r = true → IsTour r n

/-- … fails: `rec_best = [1, 0, 3, 2]` (two sub-tours 0↔1 and 2↔3) is accepted. -/
theorem kopt_sound_counterexample : ¬ kopt_sound_statement := by
  intro h
  have h1 := h 4 (fun j => [1, 0, 3, 2].getD j 0) ((sortedIsRange_iff 4 _).mpr (by decide))
  have h2 := isTourB_of_isTour _ _ h1
  revert h2
  decide

/-- what acceptance does guarantee: every node has exactly one successor and one predecessor
(the successor array is a permutation of `0..n-1`), not that it is ONE cycle. -/
theorem kopt_sound_partial (r : Rec) (n : Nat) (h : checkKopt n r = true) :
    ((List.range n).map r).Perm (List.range n) :=
  (sortedIsRange_iff n _).mp h

theorem sublist_pair_decomp {x y : Nat} : ∀ {l : List Nat}, [x, y].Sublist l →
    ∃ A B C, l = A ++ x :: (B ++ y :: C) := by
  intro l
  induction l with
  | nil => intro h; simp at h
  | cons a l ih =>
    intro h
    by_cases hax : a = x
    · subst hax
      have h' : [y].Sublist l := by
        cases h with
        | cons _ h => exact (List.sublist_cons_self a [y]).trans h
        | cons_cons _ h => exact h
      obtain ⟨B, C, hBC⟩ := List.append_of_mem (List.singleton_sublist.mp h')
      exact ⟨[], B, C, by simp [hBC]⟩
    · have h' : [x, y].Sublist l := by
        cases h with
        | cons _ h => exact h
        | cons_cons _ h => exact absurd rfl hax
      obtain ⟨A, B, C, hl⟩ := ih h'
      exact ⟨a :: A, B, C, by simp [hl]⟩

/-- **C06 (PDP ruin-repair checker, completeness).** every valid PDP tour on an odd number of
nodes (depot + h pickups + h deliveries) passes. -/
theorem pdp_complete (r : Rec) (gs : Nat) (hodd : gs % 2 = 1) (h : PdpValid r gs) :
    checkPdp gs r = true := by
  obtain ⟨rest, hperm, hcyc, hprec⟩ := h
  have hnd : (0 :: rest).Nodup := hperm.nodup_iff.mpr List.nodup_range
  have hlen : (0 :: rest).length = gs := hperm.length_eq.trans List.length_range
  simp only [checkPdp, Bool.and_eq_true, decide_eq_true_eq, List.all_eq_true, List.mem_range]
  refine ⟨⟨kopt_complete r gs ⟨_, hperm, hcyc⟩, ?_⟩, ?_⟩
  · omega
  intro k hk
  obtain ⟨A, B, C, hdec⟩ := sublist_pair_decomp (hprec (k + 1) (by omega) (by omega))
  have hA : A ≠ [] := by
    intro e; subst e; simp at hdec
  have h1 := vt_exact gs r rest hcyc hnd hlen A (k + 1) (B ++ (k + 1 + gs / 2) :: C) hdec
  have hdec2 : 0 :: rest = (A ++ (k + 1) :: B) ++ (k + 1 + gs / 2) :: C := by rw [hdec]; simp
  have h2 := vt_exact gs r rest hcyc hnd hlen _ (k + 1 + gs / 2) C hdec2
  rw [h1, h2]
  simp [hA]

def pdp_sound_statement : Prop := ∀ (gs : Nat) (r : Rec), gs % 2 = 1 → checkPdp gs r = true → PdpValid r gs

/-- … fails: `rec_best = [3, 2, 1, 4, 0]` on 5 nodes (depot cycle 0→3→4→0 through both deliveries, the
pickups 1↔2 on a separate sub-tour, never visited from the depot) is accepted. -/
theorem pdp_sound_counterexample : ¬ pdp_sound_statement := by
  intro h
  have hchk : checkPdp 5 (fun j => [3, 2, 1, 4, 0].getD j 0) = true := by
    simp only [checkPdp, checkKopt, Bool.and_eq_true]
    exact ⟨⟨(sortedIsRange_iff 5 _).mpr (by decide), by decide⟩, by decide⟩
  obtain ⟨rest, hperm, hcyc, _⟩ := h 5 (fun j => [3, 2, 1, 4, 0].getD j 0) (by decide) hchk
  have h2 := isTourB_of_isTour _ 5 ⟨_, hperm, hcyc⟩
  revert h2
  decide

/-- what acceptance does guarantee: IF the accepted array is a single cycle, then every pickup
precedes its delivery. -/
theorem pdp_sound_partial (r : Rec) (gs : Nat) (hodd : gs % 2 = 1) (hc : checkPdp gs r = true)
    (ht : IsTour r gs) : PdpValid r gs := by
  obtain ⟨rest, hperm, hcyc⟩ := isTour_from r gs ht 0 (by omega)
  have hnd : (0 :: rest).Nodup := hperm.nodup_iff.mpr List.nodup_range
  have hlen : (0 :: rest).length = gs := hperm.length_eq.trans List.length_range
  have hmem : ∀ z, z ∈ 0 :: rest ↔ z < gs := fun z => hperm.mem_iff.trans List.mem_range
  simp only [checkPdp, Bool.and_eq_true, decide_eq_true_eq, List.all_eq_true, List.mem_range] at hc
  obtain ⟨_, hvt⟩ := hc
  refine ⟨rest, hperm, hcyc, ?_⟩
  intro i hi1 hi2
  have hlt := hvt (i - 1) (by omega)
  have e1 : i - 1 + 1 = i := by omega
  rw [e1] at hlt
  obtain ⟨A, B, hdec⟩ := List.append_of_mem ((hmem i).mpr (by omega))
  have hA : A ≠ [] := by
    intro e; subst e; simp at hdec; omega
  have h1 := vt_exact gs r rest hcyc hnd hlen A i B hdec
  have hjm : i + gs / 2 ∈ A ++ i :: B := hdec ▸ (hmem _).mpr (by omega)
  unfold Before
  rcases List.mem_append.mp hjm with hj | hj
  · exfalso
    obtain ⟨A1, A2, hA12⟩ := List.append_of_mem hj
    have hdec2 : 0 :: rest = A1 ++ (i + gs / 2) :: (A2 ++ i :: B) := by rw [hdec, hA12]; simp
    have h2 := vt_exact gs r rest hcyc hnd hlen A1 _ _ hdec2
    have hA1 : A1 ≠ [] := by
      intro e; subst e; simp at hdec2; omega
    rw [h1, h2] at hlt
    simp only [hA, hA1, if_false] at hlt
    rw [hA12] at hlt; simp at hlt; omega
  · rcases List.mem_cons.mp hj with hj | hj
    · omega
    · rw [hdec]
      exact (List.Sublist.cons_cons i (List.singleton_sublist.mpr hj)).trans (List.sublist_append_right A _)

/-- Non-vacuity of the completeness theorems: the tour 0→1→3→2→4→0 is valid and passes both checkers. -/
example : checkKopt 5 (fun j => [1, 3, 4, 2, 0].getD j 0) = true ∧
    checkPdp 5 (fun j => [1, 3, 4, 2, 0].getD j 0) = true := by
  simp only [checkPdp, checkKopt, Bool.and_eq_true]
  exact ⟨(sortedIsRange_iff 5 _).mpr (by decide), ⟨(sortedIsRange_iff 5 _).mpr (by decide), by decide⟩, by decide⟩

end Rl4co.Improve.Check

namespace Rl4co.Improve.Check
open Rl4co.Spec.Improve

/-! ### exact characterisation of what the two checkers accept -/

/-- **C06 (k-opt TSP checker, exact).** accepted ⟺ the successor array is a permutation of `0..n-1` -/
theorem kopt_accepts_iff (r : Rec) (n : Nat) :
    checkKopt n r = true ↔ ((List.range n).map r).Perm (List.range n) :=
  sortedIsRange_iff n _

theorem walk_append (r : Rec) : ∀ (a b x : Nat),
    walk r (a + b) x = walk r a x ++ walk r b ((x :: walk r a x).getLastD x) := by
  intro a
  induction a with
  | zero => intro b x; simp [walk]
  | succ a ih =>
    intro b x
    have : a + 1 + b = (a + b) + 1 := by omega
    rw [this]
    simp only [walk, List.cons_append]
    rw [ih b (r x)]
    simp only [List.getLastD_eq_getLast?, List.getLast?_cons_cons]
    cases hh : (r x :: walk r a (r x)).getLast? with
    | none => simp at hh
    | some v => rfl

theorem walk_lt (r : Rec) (n : Nat) (hr : ∀ j, j < n → r j < n) : ∀ (k x : Nat), x < n → ∀ y ∈ walk r k x, y < n := by
  intro k
  induction k with
  | zero => intro x _ y hy; simp [walk] at hy
  | succ k ih =>
    intro x hx y hy
    simp only [walk, List.mem_cons] at hy
    rcases hy with rfl | hy
    · exact hr x hx
    · exact ih (r x) (hr x hx) y hy

/-- **single cycle = permutation + connected**: `rec` is a tour iff it is a permutation array and the walk of
`n` steps from node 0 meets every node. -/
theorem isTour_iff_perm_connected (r : Rec) (n : Nat) (hn : 0 < n) :
    IsTour r n ↔ ((List.range n).map r).Perm (List.range n) ∧ ∀ j, j < n → j ∈ walk r n 0 := by
  constructor
  · intro h
    refine ⟨map_perm_of_isTour r n h, ?_⟩
    obtain ⟨rest, hperm, hcyc⟩ := isTour_from r n h 0 hn
    have hlen : (0 :: rest).length = n := hperm.length_eq.trans List.length_range
    rw [cycleOf_cons] at hcyc
    have hw := walk_of_linked r (rest ++ [0]) 0 (by simpa using hcyc)
    have hl : (rest ++ [0]).length = n := by simpa using hlen
    rw [hl] at hw
    intro j hj
    rw [hw]
    have : j ∈ 0 :: rest := hperm.mem_iff.mpr (List.mem_range.mpr hj)
    simp only [List.mem_cons, List.mem_append, List.not_mem_nil, or_false] at this ⊢
    exact this.symm
  · rintro ⟨hp, hconn⟩
    apply isTour_of_isTourB
    have hr : ∀ j, j < n → r j < n := by
      intro j hj
      have : r j ∈ (List.range n).map r := List.mem_map.mpr ⟨j, List.mem_range.mpr hj, rfl⟩
      exact List.mem_range.mp (hp.mem_iff.mp this)
    have hwl := walk_length r n 0
    have hwlt := walk_lt r n hr n 0 hn
    -- the walk has n entries and contains 0..n-1: it is a permutation of them
    have hsub : List.range n ⊆ walk r n 0 := fun j hj => hconn j (List.mem_range.mp hj)
    have hperm : (List.range n).Perm (walk r n 0) :=
      (List.subperm_of_subset List.nodup_range hsub).perm_of_length_le (by simp [hwl])
    have hnd : (walk r n 0).Nodup := hperm.nodup_iff.mp List.nodup_range
    simp only [isTourB, Bool.and_eq_true, decide_eq_true_eq, List.all_eq_true, Bool.or_eq_true, beq_iff_eq]
    refine ⟨⟨hnd, hwlt⟩, Or.inr ?_⟩
    -- 0 occurs, and it must be the last entry
    obtain ⟨A, B, hAB⟩ := List.append_of_mem (hconn 0 hn)
    have hlenAB : A.length + 1 + B.length = n := by
      have := congrArg List.length hAB; simp [hwl] at this; omega
    have hsplit := walk_append r (A.length + 1) B.length 0
    rw [hlenAB, hAB] at hsplit
    have e : A ++ 0 :: B = (A ++ [0]) ++ B := by simp
    rw [e] at hsplit
    have hinj := List.append_inj hsplit (by simp [walk_length])
    have hlast : ((0 : Nat) :: walk r (A.length + 1) 0).getLastD 0 = 0 := by
      rw [← hinj.1, List.getLastD_eq_getLast?]
      have : (0 :: (A ++ [0])) = (0 :: A) ++ [0] := by simp
      rw [this, List.getLast?_append]; simp
    rw [hlast] at hinj
    cases B with
    | nil => rw [hAB]; simp
    | cons b B' =>
      exfalso
      have hb : b = r 0 := by
        have := hinj.2; simp only [List.length_cons, walk, List.cons.injEq] at this; exact this.1
      -- the first entry of the walk is r 0 as well
      have hhead : ∃ t, walk r n 0 = r 0 :: t := by
        cases n with
        | zero => omega
        | succ m => exact ⟨_, rfl⟩
      obtain ⟨t, ht⟩ := hhead
      rw [hAB] at ht hnd
      cases A with
      | nil =>
        simp only [List.nil_append, List.cons.injEq] at ht
        rw [← ht.1] at hb
        rw [hb] at hnd
        simp at hnd
      | cons a A' =>
        simp only [List.cons_append, List.cons.injEq] at ht
        rw [ht.1, hb] at hnd
        simp at hnd

/-- **C06 (k-opt TSP checker): soundness up to the sub-tour defect.**  A successor array is a valid tour iff
the checker accepts it AND the walk from node 0 meets every node — the checker tests exactly the first half. -/
theorem kopt_valid_iff (r : Rec) (n : Nat) (hn : 0 < n) :
    IsTour r n ↔ checkKopt n r = true ∧ ∀ j, j < n → j ∈ walk r n 0 := by
  rw [isTour_iff_perm_connected r n hn, kopt_accepts_iff]

/-- position (1-based) of the LAST occurrence of `x` in `w`, 0 when it does not occur -/
def lastHit (w : List Nat) (x : Nat) : Nat := if x ∈ w then w.length - w.reverse.idxOf x else 0

theorem lastHit_decomp (A : List Nat) (x : Nat) (B : List Nat) (hx : x ∉ B) :
    lastHit (A ++ x :: B) x = A.length + 1 := by
  have hmem : x ∈ A ++ x :: B := by simp
  simp only [lastHit, hmem, if_true, List.reverse_append, List.reverse_cons, List.append_assoc]
  have : B.reverse ++ ([x] ++ A.reverse) = B.reverse ++ x :: A.reverse := by simp
  rw [this, idxOf_decomp B.reverse x _ (by simpa using hx)]
  simp; omega

/-- the `visited_time` walk on ANY successor array (no validity assumed): a node keeps the stamp of the LAST
time the walk meets it -/
theorem vtLoop_general (r : Rec) : ∀ (W : List Nat) (pre i : Nat) (vt : Nat → Nat), Linked r (pre :: W) →
    ∀ x, (x ∉ W ∧ vtLoop r W.length i pre vt x = vt x) ∨
      (∃ A B, W = A ++ x :: B ∧ x ∉ B ∧ vtLoop r W.length i pre vt x = i + A.length + 1) := by
  intro W
  induction W with
  | nil => intro pre i vt _ x; exact Or.inl ⟨by simp, rfl⟩
  | cons w W ih =>
    intro pre i vt hl x
    rw [linked_cons_cons] at hl
    have hstep : vtLoop r (w :: W).length i pre vt = vtLoop r W.length (i + 1) w (upd vt w (i + 1)) := by
      simp only [List.length_cons, vtLoop, hl.1]
    rw [hstep]
    rcases ih w (i + 1) (upd vt w (i + 1)) hl.2 x with ⟨hx, hv⟩ | ⟨A, B, hW, hxB, hv⟩
    · by_cases hxw : x = w
      · subst hxw
        right
        exact ⟨[], W, rfl, hx, by rw [hv]; simp [upd]⟩
      · left
        exact ⟨by simp [hxw, hx], by rw [hv]; simp [upd, hxw]⟩
    · right
      exact ⟨w :: A, B, by rw [hW]; rfl, hxB, by rw [hv]; simp; omega⟩

theorem visitedTime_eq_lastHit (r : Rec) (n : Nat) (x : Nat) :
    visitedTime n r x = lastHit (walk r n 0) x := by
  have hl := walk_linked r n 0
  have hlen := walk_length r n 0
  have := vtLoop_general r (walk r n 0) 0 0 (fun _ => 0) hl x
  rw [hlen] at this
  unfold visitedTime
  rcases this with ⟨hx, hv⟩ | ⟨A, B, hW, hxB, hv⟩
  · rw [hv]; simp [lastHit, hx]
  · rw [hv, hW, lastHit_decomp A x B hxB]; omega

/-- **C06 (PDP ruin-repair checker, exact).**  On `gs = 2h+1` nodes the checker accepts exactly the
permutation arrays in which, along the `gs`-step walk from the depot, the last visit of every delivery comes
after the last visit of its pickup — a pickup that is NEVER visited counts as "before" (stamp 0), which is the
sub-tour defect; a delivery that is never visited is rejected. -/
theorem pdp_accepts_iff (r : Rec) (gs : Nat) (hodd : gs % 2 = 1) :
    checkPdp gs r = true ↔ ((List.range gs).map r).Perm (List.range gs) ∧
      ∀ i, 1 ≤ i → i ≤ gs / 2 → lastHit (walk r gs 0) i < lastHit (walk r gs 0) (i + gs / 2) := by
  simp only [checkPdp, Bool.and_eq_true, decide_eq_true_eq, List.all_eq_true, List.mem_range,
    visitedTime_eq_lastHit]
  rw [kopt_accepts_iff]
  constructor
  · rintro ⟨⟨hp, _⟩, hk⟩
    refine ⟨hp, fun i h1 h2 => ?_⟩
    have := hk (i - 1) (by omega)
    have e : i - 1 + 1 = i := by omega
    rwa [e] at this
  · rintro ⟨hp, hi⟩
    exact ⟨⟨hp, by omega⟩, fun k hk => hi (k + 1) (by omega) (by omega)⟩

/-- **C06 (PDP checker): soundness up to the sub-tour defect.**  A successor array on `2h+1` nodes is a valid
PDP tour iff the checker accepts it AND the walk from the depot meets every node. -/
theorem pdp_valid_iff (r : Rec) (gs : Nat) (hodd : gs % 2 = 1) :
    PdpValid r gs ↔ checkPdp gs r = true ∧ ∀ j, j < gs → j ∈ walk r gs 0 := by
  have hgs : 0 < gs := by omega
  constructor
  · intro h
    have ht : IsTour r gs := by obtain ⟨rest, hp, hc, _⟩ := h; exact ⟨_, hp, hc⟩
    exact ⟨pdp_complete r gs hodd h, ((isTour_iff_perm_connected r gs hgs).mp ht).2⟩
  · rintro ⟨hc, hconn⟩
    have hk : checkKopt gs r = true := by
      simp only [checkPdp, Bool.and_eq_true] at hc; exact hc.1.1
    exact pdp_sound_partial r gs hodd hc ((kopt_valid_iff r gs hgs).mpr ⟨hk, hconn⟩)

/-! ### translator tie for the checkers -/

theorem zipWith_eq_all : ∀ (l1 l2 : List Nat), l1.length = l2.length →
    ((List.zipWith (fun a b => Cmp.evalNat .eq a b) l1 l2).all id = true ↔ l2 = l1) := by
  intro l1
  induction l1 with
  | nil => intro l2 h; cases l2 <;> simp_all
  | cons a l1 ih =>
    intro l2 h
    cases l2 with
    | nil => simp at h
    | cons b l2 =>
      have := ih l2 (by simpa using h)
      simp only [List.zipWith_cons_cons, List.all_cons, Bool.and_eq_true, id, Cmp.evalNat,
        decide_eq_true_eq, List.cons.injEq]
      simp only [Cmp.evalNat] at this
      constructor
      · rintro ⟨h1, h2⟩; exact ⟨h1.symm, this.mp h2⟩
      · rintro ⟨h1, h2⟩; exact ⟨h1.symm, this.mpr h2⟩

theorem checkKoptC_eq (n : Nat) (r : Rec) : checkKoptC .eq n r = checkKopt n r := by
  have hlen : (List.range n).length = (sortNat ((List.range n).map r)).length := by
    rw [(sortNat_perm _).length_eq]; simp
  have h := zipWith_eq_all (List.range n) (sortNat ((List.range n).map r)) hlen
  simp only [checkKoptC, checkKopt, sortedIsRange]
  rw [Bool.eq_iff_iff, h]; simp

/-- obligations: `arange == sort(rec_best)` in both checkers, `visited_time[pickups] < visited_time[deliveries]`,
stamps `i + 1` over `range(graph_size)` -/
theorem checkParams_ok : Params.improveKoptCheckCmp = .eq ∧ Params.improvePdpCheckCmp = .eq ∧
    Params.improvePdpCheckPrecCmp = .lt ∧ Params.improvePdpCheckVt = (1, 0) := by decide

/-- **tie.** the executed checker models (tokens from the current source) are the ones of the C06 theorems -/
theorem code_checkKopt_eq : Code.checkKopt = checkKopt := by
  funext n r; unfold Code.checkKopt; rw [checkParams_ok.1]; exact checkKoptC_eq n r

theorem code_checkPdp_eq : Code.checkPdp = checkPdp := by
  funext gs r
  unfold Code.checkPdp
  rw [checkParams_ok.2.1, checkParams_ok.2.2.1, checkParams_ok.2.2.2]
  simp only [checkPdpC, checkPdp, checkKoptC_eq, Code.visitedTimeC_std, Cmp.evalNat]

/-- Non-vacuity of the characterisations: the accepted non-tour `[1,0,3,2]` is a permutation whose walk from 0
misses node 2; on the accepted PDP non-tour `[3,2,1,4,0]` the pickups are never hit. -/
example :
    let r : Rec := fun j => [1, 0, 3, 2].getD j 0
    ((List.range 4).map r).Perm (List.range 4) ∧ 2 ∉ walk r 4 0 ∧
    lastHit (walk (fun j => [3, 2, 1, 4, 0].getD j 0) 5 0) 1 = 0 ∧
    lastHit (walk (fun j => [3, 2, 1, 4, 0].getD j 0) 5 0) 3 = 4 := by decide

end Rl4co.Improve.Check

namespace Rl4co.Improve.Check
open Rl4co.Spec.Improve

/-! ### the repaired clause: adding "every node was stamped" makes both checkers exact -/

/-- a node is stamped by the `visited_time` walk iff the walk meets it -/
theorem stamped_iff_mem (r : Rec) (n x : Nat) : 0 < visitedTime n r x ↔ x ∈ walk r n 0 := by
  rw [visitedTime_eq_lastHit]
  unfold lastHit
  by_cases h : x ∈ walk r n 0
  · simp only [h, if_true, iff_true]
    have := List.idxOf_lt_length_of_mem (List.mem_reverse.mpr h)
    simp at this; omega
  · simp [h]

/-- the k-opt checker with the missing clause `(visited_time > 0).all()` added -/
def checkKoptRepaired (n : Nat) (r : Rec) : Bool :=
  checkKopt n r && (List.range n).all (fun j => decide (0 < visitedTime n r j))

/-- the PDP checker with the same clause added -/
def checkPdpRepaired (gs : Nat) (r : Rec) : Bool :=
  checkPdp gs r && (List.range gs).all (fun j => decide (0 < visitedTime gs r j))

/-- **C06 (repaired k-opt checker).** with the clause "every node is met by the walk from node 0" the checker
accepts exactly the single `n`-cycles: sound AND complete. -/
theorem kopt_repaired_iff (r : Rec) (n : Nat) (hn : 0 < n) : checkKoptRepaired n r = true ↔ IsTour r n := by
  rw [kopt_valid_iff r n hn]
  simp only [checkKoptRepaired, Bool.and_eq_true, List.all_eq_true, List.mem_range, decide_eq_true_eq,
    stamped_iff_mem]

/-- **C06 (repaired PDP checker).** accepts exactly the valid PDP tours. -/
theorem pdp_repaired_iff (r : Rec) (gs : Nat) (hodd : gs % 2 = 1) : checkPdpRepaired gs r = true ↔ PdpValid r gs := by
  rw [pdp_valid_iff r gs hodd]
  simp only [checkPdpRepaired, Bool.and_eq_true, List.all_eq_true, List.mem_range, decide_eq_true_eq,
    stamped_iff_mem]

/-- the two accepted non-tours of the known findings are rejected by the repaired checkers -/
example : checkKoptRepaired 4 (fun j => [1, 0, 3, 2].getD j 0) = false ∧
    checkPdpRepaired 5 (fun j => [3, 2, 1, 4, 0].getD j 0) = false := by
  constructor
  · have : ¬ IsTour (fun j => [1, 0, 3, 2].getD j 0) 4 := fun h => by
      have := isTourB_of_isTour _ _ h; revert this; decide
    rw [← kopt_repaired_iff _ 4 (by omega)] at this; simpa using this
  · have : ¬ PdpValid (fun j => [3, 2, 1, 4, 0].getD j 0) 5 := fun ⟨rest, hp, hc, _⟩ => by
      have := isTourB_of_isTour _ 5 ⟨_, hp, hc⟩; revert this; decide
    rw [← pdp_repaired_iff _ 5 (by decide)] at this; simpa using this

/-! ### Spec-level sanity -/

/-- a tour exists for every size: the round trip `j ↦ j + 1 mod n` -/
theorem isTour_succ_mod (n : Nat) (hn : 0 < n) : IsTour (fun j => (j + 1) % n) n := by
  apply isTour_of_isTourB
  have hw : ∀ (k x : Nat), x + k ≤ n → x < n →
      walk (fun j => (j + 1) % n) k x = (List.range k).map (fun i => (x + i + 1) % n) := by
    intro k
    induction k with
    | zero => intro x _ _; rfl
    | succ k ih =>
      intro x hx hxn
      simp only [walk]
      by_cases hlast : x + 1 < n
      · rw [Nat.mod_eq_of_lt hlast, ih (x + 1) (by omega) hlast, List.range_succ_eq_map]
        simp only [List.map_cons, List.map_map, Nat.add_zero, Nat.mod_eq_of_lt hlast]
        congr 1
        apply List.map_congr_left
        intro i _; simp; congr 1; omega
      · have hk : k = 0 := by omega
        subst hk; simp [walk]
  have h0 := hw n 0 (by omega) hn
  simp only [Nat.zero_add] at h0
  -- the walk is 1, 2, …, n-1, 0
  have hlist : walk (fun j => (j + 1) % n) n 0 = (List.range (n - 1)).map (· + 1) ++ [0] := by
    rw [h0]
    obtain ⟨m, rfl⟩ : ∃ m, n = m + 1 := ⟨n - 1, by omega⟩
    rw [List.range_succ, List.map_append]
    simp only [Nat.add_sub_cancel, List.map_cons, List.map_nil, Nat.mod_self]
    congr 1
    apply List.map_congr_left
    intro i hi
    exact Nat.mod_eq_of_lt (by have := List.mem_range.mp hi; omega)
  simp only [isTourB, hlist, Bool.and_eq_true, decide_eq_true_eq, List.all_eq_true, Bool.or_eq_true, beq_iff_eq]
  refine ⟨⟨?_, ?_⟩, Or.inr (by simp)⟩
  · rw [List.nodup_append]
    refine ⟨?_, by simp, ?_⟩
    · rw [List.Nodup, List.pairwise_map]
      exact (List.pairwise_lt_range).imp (by intro a b h; omega)
    · intro a ha b hb; simp at ha hb; omega
  · intro x hx
    simp only [List.mem_append, List.mem_map, List.mem_range, List.mem_cons, List.not_mem_nil, or_false] at hx
    rcases hx with ⟨i, hi, rfl⟩ | rfl <;> omega

/-- `Before` is a strict order on duplicate-free sequences: never both ways, never reflexive -/
theorem before_asymm (l : List Nat) (hnd : l.Nodup) (x y : Nat) (h : Before l x y) : ¬ Before l y x := by
  have hx : x ∈ l := h.subset (by simp)
  have hy : y ∈ l := h.subset (by simp)
  by_cases hxy : x = y
  · subst hxy
    intro _
    have : [x, x].Nodup := h.nodup hnd
    simp at this
  · intro h'
    have h1 := (before_iff_idxOf l hnd x y hx hy hxy).mp h
    have h2 := (before_iff_idxOf l hnd y x hy hx (Ne.symm hxy)).mp h'
    omega

theorem perm_sum_int {l1 l2 : List Int} (h : l1.Perm l2) : l1.sum = l2.sum := by
  induction h with
  | nil => rfl
  | cons x _ ih => simp [ih]
  | swap x y l => simp only [List.sum_cons]; omega
  | trans _ _ ih1 ih2 => omega

/-- the tour length does not depend on where the cyclic listing starts: it is the sum of `D` along the listing -/
theorem cost_eq_sum_listing (n : Nat) (D : Nat → Nat → Int) (r : Rec) (seq : List Nat)
    (hp : seq.Perm (List.range n)) :
    cost n D r = (seq.map (fun j => D j (r j))).sum := by
  unfold cost
  exact (perm_sum_int (hp.map _)).symm

theorem map_getD_range (L : List Nat) : (List.range L.length).map (fun j => L.getD j 0) = L := by
  apply List.ext_getElem (by simp)
  intro i h1 h2
  simp at h1
  simp [List.getD_eq_getElem?_getD, List.getElem?_eq_getElem h1]

/-- **the objective does not depend on the orientation of the tour**: for a symmetric distance matrix the
reversed tour (`rec.argsort()`, the predecessor array) has the same length. -/
theorem cost_reverse (n : Nat) (D : Nat → Nat → Int) (hD : ∀ a b, D a b = D b a) (r : Rec) (ht : IsTour r n) :
    cost n D (argsort n r) = cost n D r := by
  have hp := map_perm_of_isTour r n ht
  have hmap := argsortL_map n r hp
  have hlen : (argsortL n r).length = n := by
    have := congrArg List.length hmap; simpa using this
  have hL : (List.range n).map (argsort n r) = argsortL n r := by
    have := map_getD_range (argsortL n r)
    rw [hlen] at this; exact this
  have hperm : ((List.range n).map (argsort n r)).Perm (List.range n) := by
    rw [hL]; exact isortBy_perm r (List.range n)
  rw [cost_eq_sum_listing n D r _ hperm]
  unfold cost
  rw [List.map_map]
  congr 1
  apply List.map_congr_left
  intro j hj
  have hj' := List.mem_range.mp hj
  simp only [Function.comp]
  -- r (argsort j) = j
  have hval : r (argsort n r j) = j := by
    have := congrArg (fun l => l[j]?) hmap
    simp only [List.getElem?_map, List.getElem?_range hj'] at this
    have hj2 : j < (argsortL n r).length := by omega
    rw [List.getElem?_eq_getElem hj2] at this
    have e : argsort n r j = (argsortL n r)[j] := by
      simp [argsort, List.getD_eq_getElem?_getD, List.getElem?_eq_getElem hj2]
    rw [e]; simpa using this
  rw [hval, hD]

end Rl4co.Improve.Check
