/-
C06 for CVRPTW.  Model of `CVRPTWEnv.check_solution_validity` = CVRP's checker ∧ static assertions on
the instance ∧ a clock simulation that TRUNCATES the arrival time with `.int()`.

* `check_complete`: on an instance passing the static assertions, every Spec-feasible solution is
  accepted (the truncated clock never runs ahead of the true one).
* `check_sound_counterexample`: the full soundness statement is FALSE — a solution that reaches a customer
  1/8 after its deadline is accepted because 13/8 truncates to 1 (genuine defect, known finding
  `cvrptw-checker-int-clock-C06`).
* `check_sound_partial`: on integral data (all distances, window starts and durations multiples of the
  unit) the truncation is the identity and acceptance implies feasibility up to the load tolerance.
-/
import Rl4co.Env.Cvrptw
import Rl4co.Spec.Cvrptw
import Rl4co.Props.C05.Cvrptw
import Rl4co.Props.C06.Cvrp

namespace Rl4co.Cvrptw
open Rl4co.Spec.Cvrptw

theorem truncInt_le {unit x : Int} (hu : 0 < unit) (hx : 0 ≤ x) : truncInt unit x ≤ x := by
  unfold truncInt
  rw [Int.tdiv_eq_ediv_of_nonneg hx]
  exact Int.ediv_mul_le x (by omega)

theorem truncInt_nonneg {unit x : Int} (hu : 0 < unit) (hx : 0 ≤ x) : 0 ≤ truncInt unit x := by
  unfold truncInt
  rw [Int.tdiv_eq_ediv_of_nonneg hx]
  exact Int.mul_nonneg (Int.ediv_nonneg hx (by omega)) (by omega)

/-- what the static assertions give for one node -/
theorem static_node (i : Inst) (e0 : Int) (h : checkStatic i e0 = true) (j : Nat) (hj : j ≤ i.base.n) :
    0 ≤ i.twS j ∧ 0 ≤ i.dur j ∧ i.twS j < i.twE j := by
  simp only [checkStatic, List.all_eq_true, List.mem_range, Bool.and_eq_true, decide_eq_true_eq,
    Params.cvrptwCheckOrderCmp, Params.cvrptwCheckStaticCmp, Cmp.eval] at h
  have := h j (by omega)
  exact ⟨this.1.1.1.1.2, this.1.2, this.2⟩

/-- the checker's truncated clock `tc` stays at or below the true clock `t`, so it accepts -/
theorem checkClock_complete (i : Inst) (unit e0 : Int) (hu : 0 < unit) (hD : ∀ a b, 0 ≤ i.base.D a b)
    (hs : checkStatic i e0 = true) (as : List Nat) :
    ∀ t tc cur, (∀ a ∈ as, a ≤ i.base.n) → 0 ≤ tc → tc ≤ t → clockOk i t cur as = true →
      checkClock i unit tc cur as = true := by
  induction as with
  | nil => intro _ _ _ _ _ _ _; rfl
  | cons a as ih =>
    intro t tc cur hr h0 hle hk
    simp only [clockOk, Bool.and_eq_true, decide_eq_true_eq] at hk
    obtain ⟨hk1, hk2⟩ := hk
    obtain ⟨hS, hdur, hSE⟩ := static_node i e0 hs a (hr a (by simp))
    have hx : 0 ≤ tc + i.base.D cur a := by have := hD cur a; omega
    have h1 := truncInt_le hu hx
    have h2 := truncInt_nonneg hu hx
    simp only [checkClock, Params.cvrptwCheckTwCmp, Cmp.eval, Bool.and_eq_true, decide_eq_true_eq]
    refine ⟨by omega, ?_⟩
    by_cases ha0 : a = 0
    · subst ha0
      simp only [if_true]
      simp only [ne_eq, not_true_eq_false, if_false] at hk2
      exact ih 0 0 0 (fun b hb => hr b (by simp [hb])) (Int.le_refl 0) (Int.le_refl 0) hk2
    · simp only [ha0, if_false]
      simp only [ne_eq, ha0, not_false_eq_true, if_true] at hk2
      exact ih _ _ a (fun b hb => hr b (by simp [hb])) (by omega) (by omega) hk2

/-- **C06 (CVRPTW), completeness.** -/
theorem check_complete (i : Inst) (hd : ∀ j, 0 ≤ i.base.demand j) (hcap : 0 ≤ i.base.cap)
    (tol unit e0 : Int) (htol : 0 ≤ tol) (hu : 0 < unit) (hD : ∀ a b, 0 ≤ i.base.D a b)
    (hs : checkStatic i e0 = true) (as : List Nat) (hf : Feasible i as) :
    check i tol unit e0 as = true := by
  simp only [check, Bool.and_eq_true]
  refine ⟨⟨Cvrp.check_complete i.base hd hcap tol htol as hf.base, hs⟩, ?_⟩
  obtain ⟨r1, rs1, e⟩ := routes_cons_exists as
  have hk := clock_of_routes i as 0 0 r1 rs1 e (hf.tw r1 (by simp [e]))
    (fun r' hr' => hf.tw r' (by simp [e, hr']))
  exact checkClock_complete i unit e0 hu hD hs as 0 0 0 hf.base.range (Int.le_refl 0) (Int.le_refl 0) hk

/-- the full soundness statement one would like to have -/
def check_sound_statement : Prop :=
  ∀ (i : Inst) (tol unit : Int) (as : List Nat), 0 < unit → (∀ j, 0 ≤ i.base.demand j) →
    0 ≤ i.base.cap + tol → (∀ a b, 0 ≤ i.base.D a b) → RetOK i →
    check i tol unit (i.twE 0) as = true → FeasibleWithin tol i as

/-- unit = 8 ticks; depot 0, customer 1 at distance 4 (deadline 4), customer 2 at distance 12 from the
depot and 9 from customer 1 (deadline 12); `[1,2,0]` reaches customer 2 at 13 > 12, but the checker's
clock reads trunc(4)=0 after customer 1 and trunc(0+9)=8 ≤ 12 at customer 2. -/
def lateInst : Inst :=
  { base := ⟨2, 8, fun _ => 1,
      fun a b => if a = b then 0 else if (a = 0 ∧ b = 1) ∨ (a = 1 ∧ b = 0) then 4
        else if (a = 0 ∧ b = 2) ∨ (a = 2 ∧ b = 0) then 12 else 9⟩
    twS := fun _ => 0, twE := fun j => if j = 0 then 800 else if j = 1 then 4 else 12, dur := fun _ => 0 }

theorem check_sound_counterexample : ¬ check_sound_statement := by
  intro h
  have hD : ∀ a b, 0 ≤ lateInst.base.D a b := by
    intro a b
    simp only [lateInst]
    split
    · omega
    · split
      · omega
      · split <;> omega
  have hret : RetOK lateInst := by
    refine ⟨by decide, ?_⟩
    intro j h1 h2
    have h2' : j ≤ 2 := h2
    have : j = 1 ∨ j = 2 := by omega
    rcases this with h | h <;> subst h <;> decide
  have hchk : check lateInst 0 8 (lateInst.twE 0) [1, 2, 0] = true := by
    simp only [check, Bool.and_eq_true]
    refine ⟨⟨?_, by decide⟩, by decide⟩
    exact Cvrp.check_complete lateInst.base (by intro j; simp [lateInst]) (by decide) 0 (Int.le_refl 0) _
      ((Spec.Cvrp.feasible_iff _ _).1 (by decide))
  have := h lateInst 0 8 [1, 2, 0] (by decide) (by intro j; simp [lateInst]) (by decide) hD hret hchk
  have htw := this.tw [1, 2] (by decide)
  revert htw
  decide

/-- integral data: every distance, window start and duration is a multiple of the unit -/
structure Integral (i : Inst) (unit : Int) : Prop where
  dist : ∀ a b, unit ∣ i.base.D a b
  twS  : ∀ j, unit ∣ i.twS j
  dur  : ∀ j, unit ∣ i.dur j

theorem truncInt_of_dvd {unit x : Int} (h : unit ∣ x) : truncInt unit x = x := by
  unfold truncInt
  exact Int.tdiv_mul_cancel h

theorem dvd_max {u a b : Int} (ha : u ∣ a) (hb : u ∣ b) : u ∣ max a b := by
  rcases Int.le_total a b with h | h
  · rw [Int.max_eq_right h]; exact hb
  · rw [Int.max_eq_left h]; exact ha

/-- on integral data the checker's clock is the true flat clock -/
theorem clock_of_checkClock (i : Inst) (unit : Int) (hI : Integral i unit) (as : List Nat) :
    ∀ t cur, unit ∣ t → checkClock i unit t cur as = true → clockOk i t cur as = true := by
  induction as with
  | nil => intro _ _ _ _; rfl
  | cons a as ih =>
    intro t cur ht hc
    have hx : unit ∣ t + i.base.D cur a := Int.dvd_add ht (hI.dist cur a)
    simp only [checkClock, truncInt_of_dvd hx, Params.cvrptwCheckTwCmp, Cmp.eval, Bool.and_eq_true,
      decide_eq_true_eq] at hc
    obtain ⟨hc1, hc2⟩ := hc
    simp only [clockOk, Bool.and_eq_true, decide_eq_true_eq]
    refine ⟨by omega, ?_⟩
    by_cases ha0 : a = 0
    · subst ha0
      simp only [if_true] at hc2
      simp only [ne_eq, not_true_eq_false, if_false]
      exact ih 0 0 (Int.dvd_zero unit) hc2
    · simp only [ha0, if_false] at hc2
      simp only [ne_eq, ha0, not_false_eq_true, if_true]
      exact ih _ a (Int.dvd_add (dvd_max hx (hI.twS a)) (hI.dur a)) hc2

/-- **C06 (CVRPTW), soundness on integral data** (loads up to the tolerance, time windows exactly). -/
theorem check_sound_partial (i : Inst) (hd : ∀ j, 0 ≤ i.base.demand j) (tol unit e0 : Int)
    (htol : 0 ≤ i.base.cap + tol) (hI : Integral i unit) (hw : RetOK i) (as : List Nat)
    (h : check i tol unit e0 as = true) : FeasibleWithin tol i as := by
  simp only [check, Bool.and_eq_true] at h
  obtain ⟨⟨hb, _⟩, hc⟩ := h
  have hbs := Cvrp.check_sound i.base hd tol htol as hb
  refine ⟨hbs.range, hbs.once, hbs.load, ?_⟩
  have hk := clock_of_checkClock i unit hI as 0 0 (Int.dvd_zero unit) hc
  obtain ⟨r1, rs1, e⟩ := routes_cons_exists as
  have := routes_of_clock i hw as 0 0 hbs.range hk (by have := hw.depot; omega) r1 rs1 e
  intro r hr
  rw [e] at hr
  rcases List.mem_cons.mp hr with hh | hh
  · subst hh; exact this.1
  · exact this.2 r hh

/-- Non-vacuity: the boundary instance of C01 passes the static assertions, is integral for unit 1, and
its feasible solution `[1,2,0]` (every deadline met with equality) is accepted by `check_complete`;
the late solution of `lateInst` is rejected as soon as the unit is 1 (no truncation). -/
example : checkStatic exInst (exInst.twE 0) = true := by decide
example : Integral exInst 1 := ⟨fun _ _ => Int.one_dvd _, fun _ => Int.one_dvd _, fun _ => Int.one_dvd _⟩
example : check exInst 0 1 (exInst.twE 0) [1, 2, 0] = true :=
  check_complete exInst (by intro j; simp [exInst]) (by decide) 0 1 _ (Int.le_refl 0) (by decide)
    (by
      intro a b
      simp only [exInst]
      split
      · omega
      · split
        · omega
        · split <;> omega)
    (by decide) _ ((feasible_iff _ _).1 (by decide))
example : checkClock lateInst 1 0 0 [1, 2, 0] = false := by decide

/-- The static assertion reads the depot deadline of batch row 0 (`e0`): the same feasible solution of the
same instance is accepted next to itself and rejected when the first row of the batch has the depot
deadline 2 (known finding `cvrptw-checker-row0-depot-deadline-C06`). -/
theorem check_row0_dependence :
    Feasible exInst [1, 2, 0] ∧ check exInst 0 1 (exInst.twE 0) [1, 2, 0] = true ∧
      check exInst 0 1 2 [1, 2, 0] = false := by
  refine ⟨(feasible_iff _ _).1 (by decide), ?_, ?_⟩
  · exact check_complete exInst (by intro j; simp [exInst]) (by decide) 0 1 _ (Int.le_refl 0) (by decide)
      (by
        intro a b
        simp only [exInst]
        split
        · omega
        · split
          · omega
          · split <;> omega)
      (by decide) _ ((feasible_iff _ _).1 (by decide))
  · have : checkStatic exInst 2 = false := by decide
    simp [check, Params.cvrptwCheckRow0, this]

/-- the static assertion `tw_start + dist + duration <= depot deadline` admits equality (customer 2 of the
boundary instance: 0 + 3 + 0 = 3) and rejects one tick less — depends on the extracted operator
`Params.cvrptwCheckStaticCmp = le`. -/
theorem checkStatic_boundary : checkStatic exInst 3 = true ∧ checkStatic exInst 2 = false := by decide

end Rl4co.Cvrptw
