/-
C06 for the multi-task VRP environment, the repaired checker: `checkR fx` is `check_solution_validity` with any subset
of its three known omissions repaired (`fx.order`: the linehaul/backhaul order is tested; `fx.openDepot`: the depot
deadline is not applied to open routes; `fx.finalLeg`: the trailing route's way back is replayed).
`checkR_sound` / `checkR_complete`: each repair removes exactly its proviso; `checkR_fixed_iff`: with all three the
checker accepts exactly the feasible solutions.  A maintainer's fix of one clause is verified by switching the
corresponding flag of the model on and re-running the correspondence.
-/
import Rl4co.Props.C06.Mtvrp
import Rl4co.Proofs.MtvrpReward

namespace Rl4co.Mtvrp
open Rl4co.Spec.Mtvrp

theorem checkR_none (i : Inst) (as : List Nat) : checkR ⟨false, false, false⟩ i as = check i as := by
  simp [checkR]

theorem routes_snoc_zero : ∀ as : List Nat, routes (as ++ [0]) = routes as ++ [[]]
  | [] => by simp [routes]
  | a :: as => by
    have ih := routes_snoc_zero as
    obtain ⟨r1, rs1, h1⟩ := routes_cons_exists as
    by_cases h0 : a = 0
    · subst h0; simp [routes, ih]
    · simp only [List.cons_append, routes, h0, if_false, ih, h1, List.cons_append]

theorem endsAtDepot_snoc : ∀ as : List Nat, endsAtDepot (as ++ [0]) = true
  | [] => by simp [endsAtDepot]
  | [a] => by simp [endsAtDepot]
  | a :: b :: as => by
    have := endsAtDepot_snoc (b :: as)
    simpa [endsAtDepot] using this

theorem feasible_snoc_zero (c : Cmp) (i : Inst) (as : List Nat) : FeasibleC c i (as ++ [0]) ↔ FeasibleC c i as := by
  constructor
  · rintro ⟨h1, h2, h3⟩
    refine ⟨fun a ha => h1 a (by simp [ha]), ?_, ?_⟩
    · intro j hj1 hj2
      have := h2 j hj1 hj2
      have hne : (0 == j) = false := by simp; omega
      simpa [List.count_append, List.count_cons, hne] using this
    · intro r hr hne
      exact h3 r (by rw [routes_snoc_zero]; simp [hr]) hne
  · rintro ⟨h1, h2, h3⟩
    refine ⟨?_, ?_, ?_⟩
    · intro a ha
      rcases List.mem_append.mp ha with h | h
      · exact h1 a h
      · simp at h; omega
    · intro j hj1 hj2
      have hne : (0 == j) = false := by simp; omega
      simpa [List.count_append, List.count_cons, hne] using h2 j hj1 hj2
    · intro r hr hne
      rw [routes_snoc_zero] at hr
      rcases List.mem_append.mp hr with h | h
      · exact h3 r h hne
      · simp at h; exact absurd h hne

theorem timeOk_relax (c : Cmp) (i : Inst) (ho : i.openR = true) : ∀ (r : List Nat) (cur : Nat) (t : Int), 0 ∉ r →
    timeOk c (relaxDepot i) cur t r = timeOk c i cur t r
  | [], _, _, _ => by simp [timeOk, relaxDepot, ho]
  | a :: r, cur, t, h => by
    have ha : a ≠ 0 := fun e => h (by simp [e])
    have ih := timeOk_relax c i ho r a (max (t + i.T cur a) (i.early a) + i.service a) (fun e => h (by simp [e]))
    simp only [timeOk]
    have e1 : (relaxDepot i).late a = i.late a := by simp [relaxDepot, ho, ha]
    have e2 : (relaxDepot i).T = i.T := by simp [relaxDepot, ho]
    have e3 : (relaxDepot i).early = i.early := by simp [relaxDepot, ho]
    have e4 : (relaxDepot i).service = i.service := by simp [relaxDepot, ho]
    rw [e1, e2, e3, e4, ih]

theorem feasible_relax (c : Cmp) (i : Inst) (as : List Nat) : FeasibleC c (relaxDepot i) as ↔ FeasibleC c i as := by
  cases ho : i.openR
  · have : relaxDepot i = i := by simp [relaxDepot, ho]
    rw [this]
  · have hn : (relaxDepot i).n = i.n := by simp [relaxDepot, ho]
    have key : ∀ r ∈ routes as, RouteOk c (relaxDepot i) r ↔ RouteOk c i r := by
      intro r hr
      have h0 := zero_not_mem_routes as r hr
      have ht := timeOk_relax c i ho r 0 0 h0
      have e1 : (relaxDepot i).dL = i.dL := by simp [relaxDepot, ho]
      have e2 : (relaxDepot i).dB = i.dB := by simp [relaxDepot, ho]
      have e3 : (relaxDepot i).cap = i.cap := by simp [relaxDepot, ho]
      have e4 : routeDist (relaxDepot i) r = routeDist i r := by simp [routeDist, relaxDepot, ho]
      have e5 : (relaxDepot i).limit = i.limit := by simp [relaxDepot, ho]
      have e6 : Ordered (relaxDepot i) r ↔ Ordered i r := by unfold Ordered; rw [e1, e2]
      constructor
      · rintro ⟨a, b, c', d, e⟩
        exact ⟨by rw [← e1, ← e3]; exact a, by rw [← e2, ← e3]; exact b, e6.1 c', by rw [← e4, ← e5]; exact d, by rw [← ht]; exact e⟩
      · rintro ⟨a, b, c', d, e⟩
        exact ⟨by rw [e1, e3]; exact a, by rw [e2, e3]; exact b, e6.2 c', by rw [e4, e5]; exact d, by rw [ht]; exact e⟩
    constructor
    · rintro ⟨h1, h2, h3⟩
      exact ⟨by rw [← hn]; exact h1, by rw [← hn]; exact h2, fun r hr hne => (key r hr).1 (h3 r hr hne)⟩
    · rintro ⟨h1, h2, h3⟩
      exact ⟨by rw [hn]; exact h1, by rw [hn]; exact h2, fun r hr hne => (key r hr).2 (h3 r hr hne)⟩

theorem wf_relax {i : Inst} (h : wf i = true) : wf (relaxDepot i) = true := by
  cases ho : i.openR
  · have : relaxDepot i = i := by simp [relaxDepot, ho]
    rw [this]; exact h
  · have hs : ∀ j, 1 ≤ j → servable i j = true → servable (relaxDepot i) j = true := by
      intro j hj hsv
      have hj0 : j ≠ 0 := by omega
      simp only [servable, ho, if_true, Bool.and_eq_true] at hsv
      simp only [servable, relaxDepot, ho, if_true, hj0, if_false, cmpInf, Bool.and_eq_true]
      exact ⟨⟨⟨hsv.1.1.1, trivial⟩, hsv.1.2⟩, hsv.2⟩
    simp only [wf, Bool.and_eq_true, List.all_eq_true, List.mem_range] at h ⊢
    refine ⟨⟨by simpa [relaxDepot, ho] using h.1.1, by simpa [demandsOk, relaxDepot, ho] using h.1.2⟩, ?_⟩
    intro k hk
    have hk' : k < i.n := by simpa [relaxDepot, ho] using hk
    exact hs (k + 1) (by omega) (h.2 k hk')

theorem slack_relax (i : Inst) (ho : (relaxDepot i).openR = true) (j : Nat) : slackOk (relaxDepot i) j = true := by
  have ho' : i.openR = true := by
    cases h : i.openR
    · simp [relaxDepot, h] at ho
    · rfl
  simp [slackOk, relaxDepot, ho']

theorem orderTest_iff (i : Inst) (as : List Nat) : orderTest i as = true ↔ ∀ r ∈ routes as, Ordered i r := by
  simp [orderTest, Ordered]

/-- **C06, the repaired checker is sound and complete.**  With the three omissions repaired — the linehaul/backhaul
order is tested, the depot deadline is not applied to open routes, and the way back of the trailing route is replayed
(a depot visit appended) — `check_solution_validity` accepts EXACTLY the feasible solutions, for every feature
valuation, any speed and every action list.  (`hstat`: the static data asserts, with the depot-return assert not
applied to open routes.) -/
theorem checkR_fixed_iff (i : Inst) (hwf : wf i = true) (hstat : checkStatic (relaxDepot i) = true)
    (hD : ∀ a b, 0 ≤ i.D a b) (h00 : i.D 0 0 = 0) (hT00 : i.T 0 0 = 0) (as : List Nat) :
    checkR ⟨true, true, true⟩ i as = true ↔ Feasible i as := by
  have hD' : ∀ a b, 0 ≤ (relaxDepot i).D a b := by
    intro a b; cases ho : i.openR <;> simp [relaxDepot, ho, hD]
  have h00' : (relaxDepot i).D 0 0 = 0 := by cases ho : i.openR <;> simp [relaxDepot, ho, h00]
  have hT00' : (relaxDepot i).T 0 0 = 0 := by cases ho : i.openR <;> simp [relaxDepot, ho, hT00]
  have hdl : (relaxDepot i).dL = i.dL := by cases ho : i.openR <;> simp [relaxDepot, ho]
  have hdb : (relaxDepot i).dB = i.dB := by cases ho : i.openR <;> simp [relaxDepot, ho]
  have hordR : ∀ bs, (∀ r ∈ routes bs, Ordered (relaxDepot i) r) ↔ ∀ r ∈ routes bs, Ordered i r := by
    intro bs; unfold Ordered; rw [hdl, hdb]
  simp only [checkR, if_true, Bool.and_eq_true, orderTest_iff]
  constructor
  · rintro ⟨hord, hchk⟩
    have hord' : ∀ r ∈ routes (as ++ [0]), Ordered (relaxDepot i) r := by
      rw [hordR]
      intro r hr
      rw [routes_snoc_zero] at hr
      rcases List.mem_append.mp hr with h | h
      · exact hord r h
      · simp at h; subst h; simp [Ordered]
    have := check_sound_partial (relaxDepot i) (wf_relax hwf) (as ++ [0]) hord' (Or.inr (endsAtDepot_snoc as)) hchk
    exact (feasible_relax .le i as).1 ((feasible_snoc_zero .le _ as).1 this)
  · intro hf
    refine ⟨?_, ?_⟩
    · intro r hr
      by_cases hne : r = []
      · subst hne; simp [Ordered]
      · exact (hf.route r hr hne).order
    · apply check_complete_partial (relaxDepot i) (wf_relax hwf) hstat hD' h00' hT00'
        (fun ho j _ _ => slack_relax i ho j)
      exact (feasible_snoc_zero .le _ as).2 ((feasible_relax .le i as).2 hf)

/-- **each repair removes exactly its proviso (soundness)**: whatever subset of the repairs is switched on, an accepted
solution is feasible provided the provisos of the repairs NOT switched on hold -/
theorem checkR_sound (fx : Repairs) (i : Inst) (hwf : wf i = true) (as : List Nat)
    (hord : fx.order = true ∨ ∀ r ∈ routes as, Ordered i r)
    (hend : fx.finalLeg = true ∨ i.openR = true ∨ endsAtDepot as = true)
    (h : checkR fx i as = true) : Feasible i as := by
  obtain ⟨fo, fd, ff⟩ := fx
  simp only [checkR, Bool.and_eq_true] at h
  obtain ⟨h1, h2⟩ := h
  have hordI : ∀ r ∈ routes as, Ordered i r := by
    rcases hord with e | e
    · simp only at e; subst e
      simpa [orderTest_iff] using h1
    · exact e
  -- the instance and the action list the replay really ran on
  have hdl : (relaxDepot i).dL = i.dL := by cases ho : i.openR <;> simp [relaxDepot, ho]
  have hdb : (relaxDepot i).dB = i.dB := by cases ho : i.openR <;> simp [relaxDepot, ho]
  have hopen : (relaxDepot i).openR = i.openR := by cases ho : i.openR <;> simp [relaxDepot, ho]
  have ordSnoc : ∀ (j : Inst), (∀ r ∈ routes as, Ordered j r) → ∀ r ∈ routes (as ++ [0]), Ordered j r := by
    intro j hj r hr
    rw [routes_snoc_zero] at hr
    rcases List.mem_append.mp hr with e | e
    · exact hj r e
    · simp at e; subst e; simp [Ordered]
  have ordRelax : ∀ bs, (∀ r ∈ routes bs, Ordered i r) → ∀ r ∈ routes bs, Ordered (relaxDepot i) r := by
    intro bs hb; unfold Ordered; rw [hdl, hdb]; exact hb
  cases fd <;> cases ff <;> simp only [if_true, if_false, Bool.false_eq_true] at h2
  · -- no depot repair, no final-leg repair
    have hend' : i.openR = true ∨ endsAtDepot as = true := by
      rcases hend with e | e
      · simp at e
      · exact e
    exact check_sound_partial i hwf as hordI hend' h2
  · exact (feasible_snoc_zero .le i as).1
      (check_sound_partial i hwf (as ++ [0]) (ordSnoc i hordI) (Or.inr (endsAtDepot_snoc as)) h2)
  · have hend' : (relaxDepot i).openR = true ∨ endsAtDepot as = true := by
      rcases hend with e | e | e
      · simp at e
      · exact Or.inl (by rw [hopen]; exact e)
      · exact Or.inr e
    exact (feasible_relax .le i as).1
      (check_sound_partial (relaxDepot i) (wf_relax hwf) as (ordRelax as hordI) hend' h2)
  · exact (feasible_relax .le i as).1 ((feasible_snoc_zero .le _ as).1
      (check_sound_partial (relaxDepot i) (wf_relax hwf) (as ++ [0]) (ordRelax _ (ordSnoc i hordI))
        (Or.inr (endsAtDepot_snoc as)) h2))

/-- **each repair removes exactly its proviso (completeness)**: a feasible solution is accepted whatever repairs are on;
the depot-slack proviso for open routes is needed only while the open-route repair is off -/
theorem checkR_complete (fx : Repairs) (i : Inst) (hwf : wf i = true)
    (hstat : checkStatic (if fx.openDepot then relaxDepot i else i) = true)
    (hD : ∀ a b, 0 ≤ i.D a b) (h00 : i.D 0 0 = 0) (hT00 : i.T 0 0 = 0)
    (hslack : fx.openDepot = true ∨ (i.openR = true → ∀ j, 1 ≤ j → j ≤ i.n → slackOk i j = true))
    (as : List Nat) (hf : Feasible i as) : checkR fx i as = true := by
  obtain ⟨fo, fd, ff⟩ := fx
  have hD' : ∀ a b, 0 ≤ (relaxDepot i).D a b := by
    intro a b; cases ho : i.openR <;> simp [relaxDepot, ho, hD]
  have h00' : (relaxDepot i).D 0 0 = 0 := by cases ho : i.openR <;> simp [relaxDepot, ho, h00]
  have hT00' : (relaxDepot i).T 0 0 = 0 := by cases ho : i.openR <;> simp [relaxDepot, ho, hT00]
  simp only [checkR, Bool.and_eq_true]
  refine ⟨?_, ?_⟩
  · cases fo
    · simp
    · simp only [if_true, orderTest_iff]
      intro r hr
      by_cases hne : r = []
      · subst hne; simp [Ordered]
      · exact (hf.route r hr hne).order
  · cases fd <;> cases ff <;> simp only [if_true, if_false, Bool.false_eq_true] at hstat ⊢
    · have hs : i.openR = true → ∀ j, 1 ≤ j → j ≤ i.n → slackOk i j = true := by
        rcases hslack with e | e
        · simp at e
        · exact e
      exact check_complete_partial i hwf hstat hD h00 hT00 hs as hf
    · have hs : i.openR = true → ∀ j, 1 ≤ j → j ≤ i.n → slackOk i j = true := by
        rcases hslack with e | e
        · simp at e
        · exact e
      exact check_complete_partial i hwf hstat hD h00 hT00 hs (as ++ [0]) ((feasible_snoc_zero .le i as).2 hf)
    · exact check_complete_partial (relaxDepot i) (wf_relax hwf) hstat hD' h00' hT00'
        (fun ho j _ _ => slack_relax i ho j) as ((feasible_relax .le i as).2 hf)
    · exact check_complete_partial (relaxDepot i) (wf_relax hwf) hstat hD' h00' hT00'
        (fun ho j _ _ => slack_relax i ho j) (as ++ [0])
        ((feasible_snoc_zero .le _ as).2 ((feasible_relax .le i as).2 hf))

/-- the three former counterexamples are judged correctly by the repaired checker -/
example : checkR ⟨true, true, true⟩ ordInst [1, 2, 0] = false := by
  have : orderTest ordInst [1, 2, 0] = false := by decide
  simp [checkR, this]
example : checkReplay flInst 0 0 0 ([1, 2] ++ [0]) = false := by decide
example : checkReplay (relaxDepot opInst) 0 0 0 ([1, 0] ++ [0]) = true := by decide

end Rl4co.Mtvrp
