/-
C06 for CVRPTW, the repaired clauses.  The two defects of `check_solution_validity` (the `.int()` on the
arrival time, known finding `cvrptw-checker-int-clock-C06`; the static assertion reading batch row 0's depot
deadline, `cvrptw-checker-row0-depot-deadline-C06`) are explicit switches of `checkG`.
* `check_eq_checkG`: the modelled checker is `checkG` at the switch values extracted from the source.
* `checkG_sound_repaired`: WITHOUT the truncation, acceptance implies feasibility (loads up to the tolerance,
  time windows exactly) for ALL data, not only integral ones — so the `.int()` is the only obstacle to soundness.
* `checkG_complete_repaired`: WITHOUT the row-0 read, every feasible solution of an instance passing its own
  static assertions is accepted whatever the first row of the batch is (any `e0`).
* `checkG_repaired_iff`: with both repaired and tolerance 0 the checker decides the Spec exactly.
-/
import Rl4co.Props.C06.Cvrptw

namespace Rl4co.Cvrptw
open Rl4co.Spec.Cvrptw

theorem checkClock_eq (i : Inst) (unit : Int) (as : List Nat) : ∀ t cur,
    checkClock i unit t cur as = checkClockG Params.cvrptwCheckTruncates i unit t cur as := by
  induction as with
  | nil => intro _ _; rfl
  | cons a as ih => intro t cur; simp only [checkClock, checkClockG, ih]

theorem check_eq_checkG (i : Inst) (tol unit e0 : Int) (as : List Nat) :
    check i tol unit e0 as = checkG Params.cvrptwCheckTruncates Params.cvrptwCheckRow0 i tol unit e0 as := by
  simp only [check, checkG, checkClock_eq]

/-- without truncation the checker's clock is the true flat clock -/
theorem clock_of_checkClockG_exact (i : Inst) (unit : Int) (as : List Nat) :
    ∀ t cur, checkClockG false i unit t cur as = true → clockOk i t cur as = true := by
  induction as with
  | nil => intro _ _ _; rfl
  | cons a as ih =>
    intro t cur hc
    simp only [checkClockG, Params.cvrptwCheckTwCmp, Cmp.eval, Bool.and_eq_true, decide_eq_true_eq,
      Bool.false_eq_true, if_false] at hc
    obtain ⟨hc1, hc2⟩ := hc
    simp only [clockOk, Bool.and_eq_true, decide_eq_true_eq]
    refine ⟨by omega, ?_⟩
    by_cases ha0 : a = 0
    · subst ha0
      simp only [if_true] at hc2
      simp only [ne_eq, not_true_eq_false, if_false]
      exact ih 0 0 hc2
    · simp only [ha0, if_false] at hc2
      simp only [ne_eq, ha0, not_false_eq_true, if_true]
      exact ih _ a hc2

/-- **soundness of the checker without `.int()`**, for all data -/
theorem checkG_sound_repaired (row0 : Bool) (i : Inst) (hd : ∀ j, 0 ≤ i.base.demand j) (tol unit e0 : Int)
    (htol : 0 ≤ i.base.cap + tol) (hw : RetOK i) (as : List Nat)
    (h : checkG false row0 i tol unit e0 as = true) : FeasibleWithin tol i as := by
  simp only [checkG, Bool.and_eq_true] at h
  obtain ⟨⟨hb, _⟩, hc⟩ := h
  have hbs := Cvrp.check_sound i.base hd tol htol as hb
  refine ⟨hbs.range, hbs.once, hbs.load, ?_⟩
  have hk := clock_of_checkClockG_exact i unit as 0 0 hc
  obtain ⟨r1, rs1, e⟩ := routes_cons_exists as
  have := routes_of_clock i hw as 0 0 hbs.range hk (by have := hw.depot; omega) r1 rs1 e
  intro r hr
  rw [e] at hr
  rcases List.mem_cons.mp hr with hh | hh
  · subst hh; exact this.1
  · exact this.2 r hh

/-- the clock part accepts feasible solutions with or without truncation -/
theorem checkClockG_complete (trunc : Bool) (i : Inst) (unit e0 : Int) (hu : 0 < unit)
    (hD : ∀ a b, 0 ≤ i.base.D a b) (hs : checkStatic i e0 = true) (as : List Nat) :
    ∀ t tc cur, (∀ a ∈ as, a ≤ i.base.n) → 0 ≤ tc → tc ≤ t → clockOk i t cur as = true →
      checkClockG trunc i unit tc cur as = true := by
  induction as with
  | nil => intro _ _ _ _ _ _ _; rfl
  | cons a as ih =>
    intro t tc cur hr h0 hle hk
    simp only [clockOk, Bool.and_eq_true, decide_eq_true_eq] at hk
    obtain ⟨hk1, hk2⟩ := hk
    obtain ⟨hS, hdur, hSE⟩ := static_node i e0 hs a (hr a (by simp))
    have hx : 0 ≤ tc + i.base.D cur a := by have := hD cur a; omega
    have h1 := truncInt_le hu hx
    have h2 := truncInt_nonneg hu hx
    have h3 : (if trunc then truncInt unit (tc + i.base.D cur a) else tc + i.base.D cur a) ≤ tc + i.base.D cur a := by
      cases trunc <;> simp [h1]
    have h4 : 0 ≤ (if trunc then truncInt unit (tc + i.base.D cur a) else tc + i.base.D cur a) := by
      cases trunc <;> simp [h2, hx]
    simp only [checkClockG, Params.cvrptwCheckTwCmp, Cmp.eval, Bool.and_eq_true, decide_eq_true_eq]
    refine ⟨by omega, ?_⟩
    by_cases ha0 : a = 0
    · subst ha0
      simp only [if_true]
      simp only [ne_eq, not_true_eq_false, if_false] at hk2
      exact ih 0 0 0 (fun b hb => hr b (by simp [hb])) (Int.le_refl 0) (Int.le_refl 0) hk2
    · simp only [ha0, if_false]
      simp only [ne_eq, ha0, not_false_eq_true, if_true] at hk2
      exact ih _ _ a (fun b hb => hr b (by simp [hb])) (by omega) (by omega) hk2

/-- **completeness of the checker without the row-0 read**: independent of `e0` (of the batch's first row) -/
theorem checkG_complete_repaired (trunc : Bool) (i : Inst) (hd : ∀ j, 0 ≤ i.base.demand j) (hcap : 0 ≤ i.base.cap)
    (tol unit e0 : Int) (htol : 0 ≤ tol) (hu : 0 < unit) (hD : ∀ a b, 0 ≤ i.base.D a b)
    (hs : checkStatic i (i.twE 0) = true) (as : List Nat) (hf : Feasible i as) :
    checkG trunc false i tol unit e0 as = true := by
  simp only [checkG, Bool.and_eq_true, Bool.false_eq_true, if_false]
  refine ⟨⟨Cvrp.check_complete i.base hd hcap tol htol as hf.base, hs⟩, ?_⟩
  obtain ⟨r1, rs1, e⟩ := routes_cons_exists as
  have hk := clock_of_routes i as 0 0 r1 rs1 e (hf.tw r1 (by simp [e]))
    (fun r' hr' => hf.tw r' (by simp [e, hr']))
  exact checkClockG_complete trunc i unit _ hu hD hs as 0 0 0 hf.base.range (Int.le_refl 0) (Int.le_refl 0) hk

/-- **the repaired checker decides the Spec** (tolerance 0, instance passing its own static assertions) -/
theorem checkG_repaired_iff (i : Inst) (hd : ∀ j, 0 ≤ i.base.demand j) (hcap : 0 ≤ i.base.cap) (unit e0 : Int)
    (hu : 0 < unit) (hD : ∀ a b, 0 ≤ i.base.D a b) (hs : checkStatic i (i.twE 0) = true) (hw : RetOK i)
    (as : List Nat) : checkG false false i 0 unit e0 as = true ↔ Feasible i as := by
  constructor
  · intro h
    have := checkG_sound_repaired false i hd 0 unit e0 (by omega) hw as h
    exact ⟨⟨this.range, this.once, fun r hr => by have := this.load r hr; omega⟩, this.tw⟩
  · exact checkG_complete_repaired false i hd hcap 0 unit e0 (Int.le_refl 0) hu hD hs as

/-- Non-vacuity: the late solution of `lateInst` that the real checker accepts is rejected by the repaired one;
the row-0 example is accepted by the repaired one whatever `e0`. -/
example : checkG true true lateInst 0 8 (lateInst.twE 0) [1, 2, 0] = true ∧
    checkClockG false lateInst 8 0 0 [1, 2, 0] = false := by
  refine ⟨?_, by decide⟩
  have e : checkG true true lateInst 0 8 (lateInst.twE 0) [1, 2, 0] = check lateInst 0 8 (lateInst.twE 0) [1, 2, 0] := by
    rw [check_eq_checkG]; rfl
  rw [e]
  simp only [check, Bool.and_eq_true]
  refine ⟨⟨?_, by decide⟩, by decide⟩
  exact Cvrp.check_complete lateInst.base (by intro j; simp [lateInst]) (by decide) 0 (Int.le_refl 0) _
    ((Spec.Cvrp.feasible_iff _ _).1 (by decide))

end Rl4co.Cvrptw
