/-
C12 from the mTSP side: which forced multi-start nodes the mTSP reset mask admits.

`MTSPGenerator.num_loc` counts the depot, so the reset mask has width `num_loc = n + 1` and the customers
are `1..n`.  The generic `select_start_nodes` gives row `r` of the `k`-fold batch the node
`(r / B) % num_loc + 1` (`Ops.startsOf`, `Ops.envRule "mtsp"`).  `starts_admitted_iff`: ALL forced
starts are valid actions that the reset mask offers **iff** `k ≤ n` — in particular for the default
`k = get_num_starts = n` (`default_starts_admitted`), and never for `k = num_loc` (the finding
`mtsp-start-out-of-range-C12` of the ops family).  Together with C05 (`run_of_feasible`) every admitted
start is the first action of a finished episode.

Also: an instance whose `num_agents` is a draw of the generator (`randint(min, max + 1)`) with
`min_num_agents ≥ 1` satisfies the well-formedness hypothesis `1 ≤ m` of the mTSP theorems.
-/
import Rl4co.Proofs.Mtsp
import Rl4co.Train.Select
import Rl4co.Gen.Routing

namespace Rl4co.Mtsp
open Rl4co.Ops

/-- the rule the generic code applies to mTSP: offset 1, modulus `generator.num_loc = n + 1` -/
theorem envRule_mtsp (i : Inst) (a l : Nat) : envRule "mtsp" (i.n + 1) a l = (1, i.n + 1) := by
  simp [envRule, genericRule, Params.opsNoDepotStartEnvs]

/-- `get_num_starts` for mTSP: mask width minus the depot = number of customers -/
theorem getNumStarts_mtsp (i : Inst) : envGetNumStarts "mtsp" (env.nAct i) (i.n + 1) = i.n := by
  simp [envGetNumStarts, getNumStarts, depotList, Params.opsNumStartsDepotEnvs, env]

/-- **All `k·B` forced start nodes are in range and offered by the reset mask iff `k ≤ n`.** -/
theorem starts_admitted_iff (i : Inst) (B k : Nat) (hB : 0 < B) :
    (∀ s ∈ startsOf B k 1 (i.n + 1), s < env.nAct i ∧ env.mask i (env.reset i) s = true) ↔ k ≤ i.n := by
  constructor
  · intro h
    apply Classical.byContradiction
    intro hk
    have hmem : i.n + 1 ∈ startsOf B k 1 (i.n + 1) := by
      simp only [startsOf, List.mem_map, List.mem_range]
      refine ⟨i.n * B, ?_, ?_⟩
      · exact Nat.mul_lt_mul_of_lt_of_le (by omega) (Nat.le_refl B) hB
      · rw [Nat.mul_div_cancel _ hB, Nat.mod_eq_of_lt (by omega)]
    have := (h _ hmem).1
    simp [env] at this
  · intro hk s hs
    simp only [startsOf, List.mem_map, List.mem_range] at hs
    obtain ⟨r, hr, rfl⟩ := hs
    have hq : r / B < k := (Nat.div_lt_iff_lt_mul hB).mpr hr
    have hmod : (r / B) % (i.n + 1) = r / B := Nat.mod_eq_of_lt (by omega)
    rw [hmod]
    refine ⟨by simp only [env]; omega, ?_⟩
    simp [env, mask, reset]

/-- the default number of starts is fine -/
theorem default_starts_admitted (i : Inst) (B : Nat) (hB : 0 < B) :
    ∀ s ∈ startsOf B (envGetNumStarts "mtsp" (env.nAct i) (i.n + 1))
        (envRule "mtsp" (i.n + 1) (env.nAct i) (i.n + 1)).1 (envRule "mtsp" (i.n + 1) (env.nAct i) (i.n + 1)).2,
      s < env.nAct i ∧ env.mask i (env.reset i) s = true := by
  rw [getNumStarts_mtsp, envRule_mtsp]
  exact (starts_admitted_iff i B i.n hB).mpr (Nat.le_refl _)

/-- generator-facing well-formedness: a `num_agents` drawn by `torch.randint(min_num_agents, max_num_agents + 1)`
with `min_num_agents ≥ 1` gives an instance with at least one agent (and at most `max_num_agents`) -/
theorem agents_of_generator (i : Inst) (lo hi : Int) (h : Gen.randintInclusiveOk lo hi (i.m : Int) = true)
    (hlo : 1 ≤ lo) : 1 ≤ i.m ∧ (i.m : Int) ≤ hi := by
  simp only [Gen.randintInclusiveOk, decide_eq_true_eq] at h
  omega

/-- Non-vacuity: 3 customers, batch 2: the default 3 starts per instance are the customers 1, 2, 3. -/
example : startsOf 2 3 1 4 = [1, 1, 2, 2, 3, 3] := by decide

end Rl4co.Mtsp
