/-
Spec-level sanity for `Rl4co/Spec/Ops.lean` (the run-time oracles of C12 / C17): each executable oracle is
pinned down by a declarative characterisation that does not mention the models, so a vacuous or mis-stated
oracle would be noticed.  No Mathlib.
-/
import Rl4co.Spec.Ops
namespace Rl4co.Spec.Ops

theorem all_range_iff (n : Nat) (p : Nat → Bool) : (List.range n).all p = true ↔ ∀ r, r < n → p r = true := by
  simp [List.all_eq_true, List.mem_range]

/-- `expandOk` says exactly "row r carries instance r mod B" -/
theorem expandOk_iff (B : Nat) (tags : List Nat) :
    expandOk B tags = true ↔ ∀ r, r < tags.length → tags.getD r 0 = r % B := by
  simp [expandOk, List.all_eq_true, List.mem_range]

theorem nodup_iff (xs : List Nat) : nodup xs = true ↔ xs.Nodup := by
  induction xs with
  | nil => simp [nodup]
  | cons x xs ih => simp [nodup, ih, List.nodup_cons]

/-- `bestOk` says exactly: the returned value bounds all rollouts of the instance and is attained by the chosen one -/
theorem bestOk_iff (rs : List Int) (c : Nat) (ret : Int) :
    bestOk rs c ret = true ↔ (∀ r ∈ rs, r ≤ ret) ∧ c < rs.length ∧ rs.getD c 0 = ret := by
  simp [bestOk, List.all_eq_true, and_assoc]

/-- … hence the accepted value is unique (it is THE maximum), whichever rollout attains it -/
theorem bestOk_value_unique (rs : List Int) (c c' : Nat) (ret ret' : Int)
    (h : bestOk rs c ret = true) (h' : bestOk rs c' ret' = true) : ret = ret' := by
  obtain ⟨h1, h2, h3⟩ := (bestOk_iff rs c ret).mp h
  obtain ⟨h1', h2', h3'⟩ := (bestOk_iff rs c' ret').mp h'
  have m : rs.getD c 0 ∈ rs := by
    rw [List.getD_eq_getElem?_getD, List.getElem?_eq_getElem h2]; exact List.getElem_mem h2
  have m' : rs.getD c' 0 ∈ rs := by
    rw [List.getD_eq_getElem?_getD, List.getElem?_eq_getElem h2']; exact List.getElem_mem h2'
  have a := h1' _ m
  have b := h1 _ m'
  rw [h3] at a; rw [h3'] at b
  exact Int.le_antisymm a b

/-- `startsOk` accepts feasible pairwise distinct starts, and demands nothing when fewer than `k` feasible starts exist -/
theorem startsOk_of (lo hi : Nat) (mask : Nat → Bool) (starts : List Nat)
    (hf : ∀ s ∈ starts, mask s = true) (hd : starts.Nodup) : startsOk lo hi mask starts = true := by
  simp only [startsOk]
  split
  · simp only [Bool.and_eq_true, List.all_eq_true]
    exact ⟨hf, (nodup_iff starts).mpr hd⟩
  · rfl

theorem startsOk_iff (lo hi : Nat) (mask : Nat → Bool) (starts : List Nat) (hk : starts.length ≤ feasible lo hi mask) :
    startsOk lo hi mask starts = true ↔ (∀ s ∈ starts, mask s = true) ∧ starts.Nodup := by
  simp [startsOk, hk, List.all_eq_true, nodup_iff]

/-- the stronger oracle used for rules that pick among the feasible nodes implies nothing less than the text's -/
theorem startsFeasStrong_imp (lo hi : Nat) (mask : Nat → Bool) (starts : List Nat) (hne : starts ≠ [])
    (h : startsFeasStrongOk lo hi mask starts = true) : startsFeasOk lo hi mask starts = true := by
  simp only [startsFeasStrongOk, startsFeasOk] at h ⊢
  split
  · rename_i hk
    have : 1 ≤ feasible lo hi mask := by
      have : 0 < starts.length := List.length_pos_iff.mpr hne
      omega
    simpa [this] using h
  · rfl

theorem fetchOk_iff (rq dl ex : List Nat) : fetchOk rq dl ex = true ↔ dl = rq ∧ (ex = [] ∨ ex = rq) := by
  simp [fetchOk, List.isEmpty_iff]

/-- without shuffling `loaderOk` pins the delivered ids to `0..n-1` in order, with consistent batch sizes -/
theorem loaderOk_seq (n bs : Nat) (ids sizes ex : List Nat) (h : loaderOk n bs false ids sizes ex = true) :
    ids = List.range n ∧ sizes.sum = n ∧ (∀ s ∈ sizes, 0 < s ∧ s ≤ bs) ∧ (∀ s ∈ sizes.dropLast, s = bs) ∧
    (ex = [] ∨ ex = ids) := by
  simp only [loaderOk, Bool.false_eq_true, if_false, Bool.and_eq_true, Bool.or_eq_true, beq_iff_eq,
    List.all_eq_true, decide_eq_true_eq, List.isEmpty_iff] at h
  obtain ⟨⟨⟨⟨h1, h2⟩, h3⟩, h4⟩, h5⟩ := h
  exact ⟨h1, h2, h3, h4, h5⟩

/-- with shuffling: every instance exactly once -/
theorem loaderOk_shuffle (n bs : Nat) (ids sizes ex : List Nat) (h : loaderOk n bs true ids sizes ex = true) :
    ids.length = n ∧ ids.Nodup ∧ (∀ i ∈ ids, i < n) ∧ (ex = [] ∨ ex = ids) := by
  simp only [loaderOk, if_true, Bool.and_eq_true, Bool.or_eq_true, beq_iff_eq,
    List.all_eq_true, decide_eq_true_eq, List.isEmpty_iff, nodup_iff] at h
  obtain ⟨⟨⟨⟨⟨⟨h1, h2⟩, h3⟩, _⟩, _⟩, _⟩, h5⟩ := h
  exact ⟨h1, h2, h3, h5⟩

/-! the oracles are not vacuous: they accept the canonical layouts and reject the classical mistakes -/
example : regroupOk 2 3 [0, 2, 4, 1, 3, 5] = true := by decide          -- k-major regrouping
example : regroupOk 2 3 [0, 1, 2, 3, 4, 5] = false := by decide         -- instance-major regrouping mixes instances
example : regroupOk 2 3 [0, 2, 2, 1, 3, 5] = false := by decide         -- a row twice
example : expandOk 2 [0, 1, 0, 1] = true ∧ expandOk 2 [0, 0, 1, 1] = false := by decide
example : startsOk 1 5 (fun j => j != 1) [1, 2, 3] = false := by decide -- infeasible start although 3 feasible exist
example : startsOk 1 5 (fun j => j != 1) [2, 2, 3] = false := by decide -- repeated start
example : startsOk 1 5 (fun j => j == 2) [2, 2, 2] = true := by decide  -- fewer than k feasible: nothing demanded
example : bestOk [3, 7, 7, 1] 2 7 = true ∧ bestOk [3, 7, 7, 1] 0 7 = false ∧ bestOk [3, 7, 7, 1] 0 3 = false := by decide
example : loaderOk 5 2 false [0, 1, 2, 3, 4] [2, 2, 1] [] = true ∧ loaderOk 5 2 false [0, 1, 2, 3, 4] [2, 1, 2] [] = false := by
  decide
example : loaderOk 3 2 true [2, 0, 1] [2, 1] [2, 1, 0] = false := by decide   -- an extra delivered with another instance

end Rl4co.Spec.Ops
