/-
C12, PDP clause: `PDPEnv.select_start_nodes` / `get_num_starts` (the environment's own override of the
start-node rule).  The override is the generic rule `Ops.startsOf B k 1 h` (pickups `1..h`), so the
index laws of `Props/C12/Select.lean` apply; with `force_start_at_depot = False` the reset mask admits
exactly the pickups, hence every forced start is a feasible first move and the starts of one instance
are pairwise distinct whenever `k ≤ h = get_num_starts`.
With `force_start_at_depot = True` the reset mask admits ONLY the depot while the override still returns
pickups: every forced start is infeasible (known finding) — statement, counterexample and the exact
negative result below.
-/
import Rl4co.Proofs.TspfamPdp
import Rl4co.Props.C12.Select

namespace Rl4co.Pdp
open Rl4co.Tspfam

/-- the override is the generic start rule with `lo = 1` and `m = h` startable nodes -/
theorem selectStartNodes_eq_startsOf (i : Inst) (B k : Nat) :
    selectStartNodes i B k = Ops.startsOf B k 1 i.h := by
  rw [selectStartNodes_eq]; rfl

/-- `get_num_starts` = number of pickups -/
theorem numStarts_eq_pickups (i : Inst) : numStarts i = i.h := numStarts_eq i

/-- every selected node is a pickup -/
theorem starts_are_pickups (i : Inst) (hpos : 0 < i.h) (B k : Nat) :
    ∀ s ∈ selectStartNodes i B k, 1 ≤ s ∧ s ≤ i.h := by
  rw [selectStartNodes_eq_startsOf]
  intro s hs
  have := Ops.starts_in_range B k 1 i.h hpos s hs
  omega

/-- without the forced depot start the reset mask offers exactly the pickups -/
theorem reset_mask_iff_pickup (i : Inst) (hf : i.force = false) (a : Nat) :
    env.mask i (env.reset i) a = true ↔ (1 ≤ a ∧ a ≤ i.h) := by
  simp only [env, mask, reset, hf, Bool.false_eq_true, if_false]
  by_cases h0 : a = 0
  · subst h0; simp
  · simp only [h0, if_false, toDeliver0_eq, decide_eq_true_eq]; omega

/-- **C12 (PDP), starts are feasible first moves** (`force_start_at_depot = False`, `k ≤ get_num_starts`). -/
theorem starts_feasible (i : Inst) (hf : i.force = false) (B k b : Nat) (hb : b < B)
    (hk : k ≤ numStarts i) :
    ∀ s ∈ Ops.instStarts B k b (selectStartNodes i B k), env.mask i (env.reset i) s = true := by
  rw [selectStartNodes_eq_startsOf]
  rw [numStarts_eq] at hk
  exact Ops.starts_feasible_of_mask B k 1 i.h b hb hk (env.mask i (env.reset i))
    (fun a h1 h2 => (reset_mask_iff_pickup i hf a).mpr ⟨h1, by omega⟩)

/-- **C12 (PDP), starts of one instance are pairwise distinct** (`k ≤ get_num_starts`). -/
theorem starts_distinct (i : Inst) (B k b : Nat) (hb : b < B) (hk : k ≤ numStarts i) :
    (Ops.instStarts B k b (selectStartNodes i B k)).Nodup := by
  rw [selectStartNodes_eq_startsOf]
  rw [numStarts_eq] at hk
  exact Ops.starts_distinct B k 1 i.h b hb hk

/-- what the property demands under the forced depot start -/
def starts_feasible_force_statement : Prop :=
  ∀ (i : Inst), i.force = true → ∀ (B k b : Nat), b < B → k ≤ numStarts i →
    ∀ s ∈ Ops.instStarts B k b (selectStartNodes i B k), env.mask i (env.reset i) s = true

/-- … is false of the code: one pair, one start — the start is pickup 1, the reset mask admits only the depot. -/
theorem starts_feasible_force_counterexample : ¬ starts_feasible_force_statement := by
  intro h
  have := h ⟨1, true, fun _ _ => 0⟩ rfl 1 1 0 (by decide) (by rw [numStarts_eq]; decide) 1
    (by rw [selectStartNodes_eq_startsOf]; decide)
  simp [env, mask, reset] at this

/-- exact negative result: with the forced depot start NO selected start node is admitted by the reset mask -/
theorem starts_infeasible_force (i : Inst) (hf : i.force = true) (hpos : 0 < i.h) (B k : Nat) :
    ∀ s ∈ selectStartNodes i B k, env.mask i (env.reset i) s = false := by
  intro s hs
  have := starts_are_pickups i hpos B k s hs
  have h0 : s ≠ 0 := by omega
  simp [env, mask, reset, hf, h0]

/-- Non-vacuity: 3 pairs, batch of 2, 3 starts: rows are forced to 1,1,2,2,3,3. -/
example : selectStartNodes ⟨3, false, fun _ _ => 0⟩ 2 3 = [1, 1, 2, 2, 3, 3] := by
  rw [selectStartNodes_eq]; decide

end Rl4co.Pdp
