/-
C12 — forced start nodes and best-of-k selection (model: `Rl4co/Train/Select.lean`).

Start nodes (every rule of the code base is `startsOf B k lo m`, see `envRule_table`):
* `starts_row`, `starts_prefix`       row `j·B+b` is forced to `(j mod m) + lo`; for `k ≤ m` instance `b`
                                       gets exactly `lo, lo+1, …, lo+k-1`
* `starts_distinct`                    `k ≤ #startable` ⇒ pairwise distinct per instance
* `starts_in_range`                    every start is a startable index
* `starts_feasible_of_mask`            interface lemma: feasible iff the reset mask admits that prefix
  (`start_infeasible_of_mask` is the converse used by the findings)
* `starts_dup_of_gt`, `default_starts_le`, `default_starts_gt`
OP (rule fixed upstream in d560d2a; full theorems): `op_starts_feasible` (feasible for the own instance
whenever it has ≥ 1 feasible customer), `op_starts_distinct` (≥ k feasible ⇒ pairwise distinct),
`op_starts_eq_generic` (all customers feasible ⇒ identical to the generic depot rule), `op_starts_row`
(row j·B+b depends on instance b's mask only).
Best-of-k: `select_best_correct` for every tie-breaking of `max` (`IsArgmax`);
`get_best_actions_statement` is FALSE of the code (`get_best_actions_counterexample`),
`get_best_actions_partial`.
No Mathlib needed.
-/
import Rl4co.Train.Select
import Rl4co.Props.C12.Batchify
namespace Rl4co.Ops

/-! ### forced starts -/

theorem startsOf_length (B k lo m : Nat) : (startsOf B k lo m).length = k * B := by
  simp [startsOf]

/-- **C12 `starts_row`**: the forced start of row `r` depends on the copy index `r / B` only. -/
theorem starts_row (B k lo m r : Nat) (hr : r < k * B) :
    (startsOf B k lo m).getD r 0 = (r / B) % m + lo := by
  simp [startsOf, List.getD_eq_getElem?_getD, hr]

theorem instStarts_startsOf (B k lo m b : Nat) (hb : b < B) :
    instStarts B k b (startsOf B k lo m) = (List.range k).map (fun j => j % m + lo) := by
  simp only [instStarts]
  apply List.map_congr_left
  intro j hj
  have hj : j < k := List.mem_range.mp hj
  have hlt : j * B + b < k * B := by
    calc j * B + b < j * B + B := by omega
      _ = (j + 1) * B := by rw [Nat.add_mul, Nat.one_mul]
      _ ≤ k * B := Nat.mul_le_mul_right B hj
  rw [starts_row B k lo m _ hlt]
  have : (j * B + b) / B = j := by
    rw [Nat.mul_comm, Nat.mul_add_div (by omega : B > 0), Nat.div_eq_of_lt hb, Nat.add_zero]
  rw [this]

/-- **C12 `starts_prefix`**: when `k ≤ m` (number of startable indices) every instance is forced to
exactly the index prefix `lo, lo+1, …, lo+k-1`. -/
theorem starts_prefix (B k lo m b : Nat) (hb : b < B) (hk : k ≤ m) :
    instStarts B k b (startsOf B k lo m) = (List.range k).map (fun j => j + lo) := by
  rw [instStarts_startsOf B k lo m b hb]
  apply List.map_congr_left
  intro j hj
  have hj : j < k := List.mem_range.mp hj
  rw [Nat.mod_eq_of_lt (by omega)]

theorem nodup_map_add (k lo : Nat) : ((List.range k).map (fun j => j + lo)).Nodup := by
  rw [List.Nodup, List.pairwise_map]
  exact List.Pairwise.imp (fun {a b} (h : a < b) => by omega) (List.pairwise_lt_range)

/-- **C12 `starts_distinct`**: `k ≤ #startable` ⇒ the forced starts of instance `b` are pairwise
distinct. -/
theorem starts_distinct (B k lo m b : Nat) (hb : b < B) (hk : k ≤ m) :
    (instStarts B k b (startsOf B k lo m)).Nodup := by
  rw [starts_prefix B k lo m b hb hk]; exact nodup_map_add k lo

/-- **C12 `starts_in_range`**: every forced start is one of the `m` startable indices `lo … lo+m-1`. -/
theorem starts_in_range (B k lo m : Nat) (hm : 0 < m) :
    ∀ s ∈ startsOf B k lo m, lo ≤ s ∧ s < lo + m := by
  intro s hs
  simp only [startsOf, List.mem_map, List.mem_range] at hs
  obtain ⟨r, _, rfl⟩ := hs
  have := Nat.mod_lt (r / B) hm
  omega

/-- **C12 `starts_feasible_of_mask`** (interface to the environment families): if the reset mask of
instance `b` admits the index prefix `lo … lo+k-1`, every forced start of `b` is feasible. -/
theorem starts_feasible_of_mask (B k lo m b : Nat) (hb : b < B) (hk : k ≤ m) (mask : Nat → Bool)
    (hmask : ∀ a, lo ≤ a → a < lo + k → mask a = true) :
    ∀ s ∈ instStarts B k b (startsOf B k lo m), mask s = true := by
  rw [starts_prefix B k lo m b hb hk]
  intro s hs
  simp only [List.mem_map, List.mem_range] at hs
  obtain ⟨j, hj, rfl⟩ := hs
  exact hmask _ (by omega) (by omega)

/-- conversely the forced starts ARE that prefix, so a mask that rejects one of `lo … lo+k-1` makes a
forced start infeasible, however many other feasible starts exist -/
theorem start_infeasible_of_mask (B k lo m b : Nat) (hb : b < B) (hk : k ≤ m) (mask : Nat → Bool)
    (a : Nat) (ha : lo ≤ a) (ha' : a < lo + k) (hmask : mask a = false) :
    ∃ s ∈ instStarts B k b (startsOf B k lo m), mask s = false := by
  rw [starts_prefix B k lo m b hb hk]
  refine ⟨a, ?_, hmask⟩
  simp only [List.mem_map, List.mem_range]
  exact ⟨a - lo, by omega, by omega⟩

/-- more starts than startable indices always repeats one (the hypothesis `k ≤ m` is needed) -/
theorem starts_dup_of_gt (B k lo m b : Nat) (hb : b < B) (hm : 0 < m) (hk : m < k) :
    ¬ (instStarts B k b (startsOf B k lo m)).Nodup := by
  rw [instStarts_startsOf B k lo m b hb]
  intro hnd
  rw [List.Nodup, List.pairwise_map] at hnd
  have h0 : (0 : Nat) ∈ List.range k := List.mem_range.mpr (by omega)
  have := List.pairwise_iff_getElem.mp hnd 0 m (by simp; omega) (by simp; omega) hm
  simp at this


/-- **translator tie of the generic rule**: the expression the code evaluates (expander, `arange`
start, modulus, offset — all regenerated from `utils/ops.py`) is `startsOf` with `lo = 1` for depot
environments and `lo = 0` otherwise. -/
theorem genericStartsCode_eq (B k g : Nat) :
    genericStartsCode true B k g = startsOf B k 1 g ∧ genericStartsCode false B k g = startsOf B k 0 g := by
  simp [genericStartsCode, startsOf, Params.opsDepotInterleave, Params.opsNoDepotInterleave,
    Params.opsDepotArangeStart, Params.opsDepotModAdd, Params.opsDepotPlus]

/-! ### the rules of the individual environments -/

/-- every env rule is an instance of `startsOf`, so `starts_row / starts_distinct / starts_in_range /
starts_feasible_of_mask` apply to all of them; the table of `(lo, m)`: -/
theorem envRule_table (g a l : Nat) :
    envRule "tsp" g a l = (0, g) ∧ envRule "atsp" g a l = (0, g) ∧
    envRule "flp" g a l = (0, a) ∧ envRule "mcp" g a l = (0, a) ∧
    envRule "pdp" g a l = (1, (l - 1) / 2) ∧ envRule "mtvrp" g a l = (1, l - 1) ∧
    envRule "cvrp" g a l = (1, g) ∧ envRule "cvrptw" g a l = (1, g) ∧ envRule "sdvrp" g a l = (1, g) ∧
    envRule "svrp" g a l = (1, g) ∧ envRule "pctsp" g a l = (1, g) ∧
    envRule "spctsp" g a l = (1, g) ∧ envRule "mtsp" g a l = (1, g) ∧ envRule "mdcpdp" g a l = (1, g) := by
  simp [envRule, genericRule, Params.opsNoDepotStartEnvs]

/-- the default number of starts never exceeds the number of startable indices for the environments
`get_num_starts` knows about (`n` customers, generator's `num_loc = n`, mask width `n + 1`, `locs`
incl. depot `n + 1`; TSP-likes: width `n`) … -/
theorem default_starts_le :
    (∀ n, envGetNumStarts "cvrp" (n + 1) (n + 1) ≤ (envRule "cvrp" n (n + 1) (n + 1)).2) ∧
    (∀ n, envGetNumStarts "pctsp" (n + 1) (n + 1) ≤ (envRule "pctsp" n (n + 1) (n + 1)).2) ∧
    (∀ n, envGetNumStarts "pdp" (n + 1) (n + 1) ≤ (envRule "pdp" n (n + 1) (n + 1)).2) ∧
    (∀ n, envGetNumStarts "tsp" n n ≤ (envRule "tsp" n n n).2) ∧
    (∀ n, envGetNumStarts "flp" n n ≤ (envRule "flp" n n n).2) := by
  simp [envGetNumStarts, getNumStarts, depotList, envRule, genericRule, Params.opsNoDepotStartEnvs,
    Params.opsNumStartsDepotEnvs]

/-- … but for depot environments it does not know (`svrp`, `mtvrp`, `mdcpdp`, …) the default is the
full mask width `n + 1 > n`: node 1 is forced twice. -/
theorem default_starts_gt :
    (∀ n, (envRule "mtvrp" n (n + 1) (n + 1)).2 < envGetNumStarts "mtvrp" (n + 1) (n + 1)) ∧
    (∀ n, (envRule "svrp" n (n + 1) (n + 1)).2 < envGetNumStarts "svrp" (n + 1) (n + 1)) := by
  simp [envGetNumStarts, getNumStarts, depotList, envRule, genericRule, Params.opsNoDepotStartEnvs,
    Params.opsNumStartsDepotEnvs]

/-! ### more starts than customers: forced starts that are not even action indices (findings) -/

theorem startsOf_lt (B k lo m : Nat) (hB : 0 < B) :
    ∀ s ∈ startsOf B k lo m, s < lo + k := by
  intro s hs
  simp only [startsOf, List.mem_map, List.mem_range] at hs
  obtain ⟨r, hr, rfl⟩ := hs
  have h1 : r / B < k := (Nat.div_lt_iff_lt_mul hB).mpr hr
  have h2 : r / B % m ≤ r / B := Nat.mod_le _ _
  omega

/-- mTSP: the generator's `num_loc = n` counts the depot, the reset mask has width `n` (customers
`1..n-1`), and the generic rule is `(j mod n) + 1`.  Claim: every forced start is an action index. -/
def mtsp_starts_in_mask_statement : Prop :=
  ∀ (n B k : Nat), 0 < B → ∀ s ∈ startsOf B k (envRule "mtsp" n n n).1 (envRule "mtsp" n n n).2, s < n

/-- `num_loc = 3` (two customers), `num_starts = 3`: the third forced start is index 3 of a width-3 mask. -/
theorem mtsp_starts_in_mask_counterexample : ¬ mtsp_starts_in_mask_statement := by
  intro h
  have := h 3 1 3 (by decide) 3 (by decide)
  omega

/-- **partial**: with at most `n - 1` starts (the number of customers, which is also the default) all is well. -/
theorem mtsp_starts_in_mask_partial (n B k : Nat) (hB : 0 < B) (hk : k + 1 ≤ n) :
    ∀ s ∈ startsOf B k (envRule "mtsp" n n n).1 (envRule "mtsp" n n n).2, s < n := by
  have hr : envRule "mtsp" n n n = (1, n) := by simp [envRule, genericRule, Params.opsNoDepotStartEnvs]
  rw [hr]
  intro s hs
  have := startsOf_lt B k 1 n hB s hs
  omega

/-- SMTWTP: the generator has no `num_loc` (modulus `0xFFFFFFFF`), the mask has width `n + 1` (dummy job 0
plus `n` jobs) and `get_num_starts` is not told about it, so the DEFAULT number of starts is `n + 1`. -/
def smtwtp_starts_in_mask_statement : Prop :=
  ∀ (n B : Nat), 0 < B → n + 1 < 0xFFFFFFFF →
    ∀ s ∈ startsOf B (envGetNumStarts "smtwtp" (n + 1) (n + 1))
      (envRule "smtwtp" 0xFFFFFFFF (n + 1) (n + 1)).1 (envRule "smtwtp" 0xFFFFFFFF (n + 1) (n + 1)).2, s < n + 1

/-- two jobs: default `num_starts = 3`, forced starts 1, 2, 3 — index 3 does not exist. -/
theorem smtwtp_starts_in_mask_counterexample : ¬ smtwtp_starts_in_mask_statement := by
  intro h
  have := h 2 1 (by decide) (by decide) 3 (by decide)
  omega

/-- **partial**: with at most `n` starts every forced start is a job index. -/
theorem smtwtp_starts_in_mask_partial (n B k : Nat) (hB : 0 < B) (hk : k ≤ n) (hn : n < 0xFFFFFFFF) :
    ∀ s ∈ startsOf B k (envRule "smtwtp" 0xFFFFFFFF (n + 1) (n + 1)).1
      (envRule "smtwtp" 0xFFFFFFFF (n + 1) (n + 1)).2, s < n + 1 := by
  have hr : envRule "smtwtp" 0xFFFFFFFF (n + 1) (n + 1) = (1, 0xFFFFFFFF) := by
    simp [envRule, genericRule, Params.opsNoDepotStartEnvs]
  rw [hr]
  intro s hs
  have := startsOf_lt B k 1 0xFFFFFFFF hB s hs
  omega

/-- DPP / MDPP do not override the multi-start functions: generic depot rule with the generator lacking
`num_loc`, although every cell `0 … n-1` is an action and keep-out / probe cells are masked at reset. -/
theorem dpp_rule (a l : Nat) :
    envRule "dpp" 0xFFFFFFFF a l = (1, 0xFFFFFFFF) ∧ envRule "mdpp" 0xFFFFFFFF a l = (1, 0xFFFFFFFF) ∧
    envGetNumStarts "dpp" a l = a ∧ envGetNumStarts "mdpp" a l = a := by
  simp [envRule, genericRule, envGetNumStarts, getNumStarts, depotList, Params.opsNoDepotStartEnvs,
    Params.opsNumStartsDepotEnvs]

/-- claim: with the default number of starts (= number of cells `n`) every forced start is a cell index -/
def dpp_starts_in_mask_statement : Prop :=
  ∀ (n B : Nat), 0 < B → n < 0xFFFFFFFF →
    ∀ s ∈ startsOf B (envGetNumStarts "dpp" n n) (envRule "dpp" 0xFFFFFFFF n n).1 (envRule "dpp" 0xFFFFFFFF n n).2, s < n

/-- 3×3 grid: default `num_starts = 9` forces the cells 1 … 9 — cell 9 does not exist. -/
theorem dpp_starts_in_mask_counterexample : ¬ dpp_starts_in_mask_statement := by
  intro h
  have := h 9 1 (by decide) (by decide) 9 (by decide)
  omega

/-- **partial**: with fewer starts than cells every forced start is a cell index. -/
theorem dpp_starts_in_mask_partial (n B k : Nat) (hB : 0 < B) (hk : k + 1 ≤ n) :
    ∀ s ∈ startsOf B k (envRule "dpp" 0xFFFFFFFF n n).1 (envRule "dpp" 0xFFFFFFFF n n).2, s < n := by
  rw [(dpp_rule n n).1]
  intro s hs
  have := startsOf_lt B k 1 0xFFFFFFFF hB s hs
  omega

/-- claim: the forced starts are offered by the reset mask whenever `k` offered cells exist -/
def dpp_starts_offered_statement : Prop :=
  ∀ (n B k b : Nat) (mask : Nat → Bool), b < B → k ≤ ((List.range n).filter mask).length →
    ∀ s ∈ instStarts B k b (startsOf B k (envRule "dpp" 0xFFFFFFFF n n).1 (envRule "dpp" 0xFFFFFFFF n n).2), mask s = true

/-- 3×3 grid with keep-out cell 2 (8 offered cells), `k = 3`: cells 1, 2, 3 are forced. -/
theorem dpp_starts_offered_counterexample : ¬ dpp_starts_offered_statement := by
  intro h
  have := h 9 1 3 0 (fun j => j != 2) (by decide) (by decide) 2 (by decide)
  revert this; decide

/-- **partial**: offered iff the reset mask offers the cells `1 … k` (the generic interface lemma) -/
theorem dpp_starts_offered_partial (n B k b : Nat) (mask : Nat → Bool) (hb : b < B) (hk : k ≤ 0xFFFFFFFF)
    (hmask : ∀ a, 1 ≤ a → a < 1 + k → mask a = true) :
    ∀ s ∈ instStarts B k b (startsOf B k (envRule "dpp" 0xFFFFFFFF n n).1 (envRule "dpp" 0xFFFFFFFF n n).2), mask s = true := by
  rw [(dpp_rule n n).1]
  exact starts_feasible_of_mask B k 1 0xFFFFFFFF b hb hk mask hmask

/-- the other depot environments wrap back onto customer 1: with `m = ` number of customers every forced
start stays within `1..m` for EVERY `k` (so `num_starts`/beam width > `num_loc` repeats feasible customers) -/
theorem generic_starts_wrap (B k m : Nat) (hm : 0 < m) :
    ∀ s ∈ startsOf B k 1 m, 1 ≤ s ∧ s ≤ m := by
  intro s hs
  have := starts_in_range B k 1 m hm s hs
  omega

/-! ### OP (fixed rule, upstream d560d2a): feasible nodes in ascending order, cycling -/

theorem feasCount_eq (n : Nat) (mask : Nat → Bool) : feasCount n mask = (opFeas n mask).length := rfl

theorem opFeas_mem {n : Nat} {mask : Nat → Bool} {x : Nat} (h : x ∈ opFeas n mask) :
    x < n ∧ mask (x + 1) = true := by
  simpa [opFeas, List.mem_filter] using h

theorem opFeas_nodup (n : Nat) (mask : Nat → Bool) : (opFeas n mask).Nodup :=
  List.Pairwise.filter _ (List.nodup_range)

/-- copy `j` is forced to the `(j mod #feasible)`-th feasible customer -/
theorem opPick_eq (n : Nat) (mask : Nat → Bool) (j : Nat) (h1 : 1 ≤ feasCount n mask) :
    ∃ h : j % feasCount n mask < (opFeas n mask).length,
      opPick n mask j = (opFeas n mask)[j % feasCount n mask] + 1 := by
  have hlt : j % feasCount n mask < (opFeas n mask).length := by
    rw [← feasCount_eq]; exact Nat.mod_lt _ h1
  refine ⟨hlt, ?_⟩
  have hmax : max Params.opsOpClampMin (feasCount n mask) = feasCount n mask := by
    simp only [Params.opsOpClampMin]; omega
  simp only [opPick, opOrder, Params.opsOpArgsortStable, Params.opsOpCountPerInstance, if_true, hmax]
  rw [List.getD_eq_getElem?_getD, List.getElem?_append_left hlt, List.getElem?_eq_getElem hlt]
  rfl

/-- **C12 `op_starts_feasible`**: every forced start is a customer `1..n` that is feasible for its own
instance, whenever the instance has at least one feasible customer (any `k`, any batch-mates). -/
theorem op_starts_feasible (n k : Nat) (mask : Nat → Bool) (h1 : 1 ≤ feasCount n mask) :
    ∀ s ∈ opInstStarts n k mask, 1 ≤ s ∧ s ≤ n ∧ mask s = true := by
  intro s hs
  simp only [opInstStarts, List.mem_map, List.mem_range] at hs
  obtain ⟨j, _, rfl⟩ := hs
  obtain ⟨hlt, he⟩ := opPick_eq n mask j h1
  rw [he]
  have := opFeas_mem (List.getElem_mem hlt)
  exact ⟨by omega, by omega, this.2⟩

theorem opInstStarts_eq_take (n k : Nat) (mask : Nat → Bool) (hk : k ≤ feasCount n mask) :
    opInstStarts n k mask = ((opFeas n mask).take k).map (· + 1) := by
  apply List.ext_getElem
  · simp [opInstStarts, ← feasCount_eq]; omega
  · intro j h1 h2
    have hj : j < k := by simpa [opInstStarts] using h1
    have hpos : 1 ≤ feasCount n mask := by omega
    obtain ⟨hlt, he⟩ := opPick_eq n mask j hpos
    simp only [opInstStarts, List.getElem_map, List.getElem_range, he, List.getElem_take]
    congr 2
    exact Nat.mod_eq_of_lt (by omega)

/-- **C12 `op_starts_distinct`**: with at least `k` feasible customers the `k` forced starts of the
instance are pairwise distinct (they are its first `k` feasible customers). -/
theorem op_starts_distinct (n k : Nat) (mask : Nat → Bool) (hk : k ≤ feasCount n mask) :
    (opInstStarts n k mask).Nodup := by
  rw [opInstStarts_eq_take n k mask hk, List.Nodup, List.pairwise_map]
  have : ((opFeas n mask).take k).Nodup := List.Pairwise.sublist (List.take_sublist _ _) (opFeas_nodup n mask)
  exact List.Pairwise.imp (fun {a b} (h : a ≠ b) => by omega) this

/-- **C12 `op_starts_eq_generic`**: when all customers are feasible the fixed rule is identical to the
generic depot rule `(j mod n) + 1` (what every other depot environment, and OP before the fix, uses). -/
theorem op_starts_eq_generic (n k : Nat) (mask : Nat → Bool) (hn : 1 ≤ n)
    (hall : ∀ j, j < n → mask (j + 1) = true) :
    opInstStarts n k mask = (List.range k).map (fun j => j % n + 1) := by
  have hF : opFeas n mask = List.range n := by
    simp only [opFeas]
    exact List.filter_eq_self.mpr (fun j hj => hall j (List.mem_range.mp hj))
  have hc : feasCount n mask = n := by rw [feasCount_eq, hF, List.length_range]
  apply List.map_congr_left
  intro j _
  obtain ⟨hlt, he⟩ := opPick_eq n mask j (by omega)
  rw [he]
  simp only [hF, hc, List.getElem_range]

theorem op_starts_eq_generic' (B n k b : Nat) (hb : b < B) (mask : Nat → Bool) (hn : 1 ≤ n)
    (hall : ∀ j, j < n → mask (j + 1) = true) :
    opInstStarts n k mask = instStarts B k b (startsOf B k 1 n) := by
  rw [op_starts_eq_generic n k mask hn hall, instStarts_startsOf B k 1 n b hb]

/-- **C12 `op_starts_row`**: row `j·B + b` of the batched result is copy `j` of instance `b` — the starts
of an instance depend on its own mask only (no batch-global test any more). -/
theorem op_starts_row (n k : Nat) (masks : List (Nat → Bool)) (b : Nat) (hb : b < masks.length) :
    instStarts masks.length k b (opStarts n k masks) =
      opInstStarts n k (masks.getD b (fun _ => false)) := by
  simp only [instStarts, opInstStarts]
  apply List.map_congr_left
  intro j hj
  have hj : j < k := List.mem_range.mp hj
  have hlt : j * masks.length + b < k * masks.length := by
    calc j * masks.length + b < j * masks.length + masks.length := by omega
      _ = (j + 1) * masks.length := by rw [Nat.add_mul, Nat.one_mul]
      _ ≤ k * masks.length := Nat.mul_le_mul_right _ hj
  have hmod : (j * masks.length + b) % masks.length = b := by
    rw [Nat.mul_comm, Nat.mul_add_mod, Nat.mod_eq_of_lt hb]
  have hdiv : (j * masks.length + b) / masks.length = j := by
    rw [Nat.mul_comm, Nat.mul_add_div (by omega : masks.length > 0), Nat.div_eq_of_lt hb, Nat.add_zero]
  simp [opStarts, Params.opsOpReplicaMajor, List.getD_eq_getElem?_getD, hlt, hmod, hdiv]

/-- OP's default number of starts is the number of customers -/
theorem op_default_starts (n : Nat) : envGetNumStarts "op" (n + 1) (n + 1) = n := by
  simp [envGetNumStarts, getNumStarts, depotList, Params.opsNumStartsDepotEnvs]

/-! ### the decoding hooks and `sample_n_random_actions` -/

/-- **C12 `hookRule_eq_envRule`**: the forced starts of `DecodingStrategy.pre_decoder_hook` (multistart) and of
`BeamSearch.pre_decoder_hook` (beam search) are those of the environment's own `select_start_nodes` method —
the overrides of PDP / MTVRP / FLP / MCP (and OP's feasible-node rule) are not bypassed. -/
theorem hookRule_eq_envRule (beam : Bool) (env : String) (g a l : Nat) : hookRule beam env g a l = envRule env g a l := by
  cases beam <;> simp [hookRule, Params.decBeamEnvSelect, Params.decMultistartEnvSelect]

/-- where the distinction matters: the generic helper would give PDP all `num_loc` nodes instead of its pickups -/
example : genericRule "pdp" 6 = (1, 6) ∧ envRule "pdp" 6 7 7 = (1, 3) := by
  simp [genericRule, envRule, Params.opsNoDepotStartEnvs]

theorem all_range {n : Nat} {p : Nat → Bool} (h : (List.range n).all p = true) (r : Nat) (hr : r < n) :
    p r = true := by
  rw [List.all_eq_true] at h
  exact h r (List.mem_range.mpr hr)

theorem sampleNRows_eq (B n b : Nat) (sel : List Nat) : sampleNRows B n b sel = instStarts B n b sel := by
  simp [sampleNRows, Params.opsSampleNReplicaMajor]

/-- **C12 `sampleN_rows`**: whatever `sample_n_random_actions` draws (relation `sampleNOk`), the `n` forced
actions found at rows `j·B + b` — the rows of instance `b` under the k-major expansion — are feasible for
instance `b`, and pairwise distinct unless the batch-global replacement branch was taken. -/
theorem sampleN_rows (w n : Nat) (masks : List (Nat → Bool)) (sel : List Nat)
    (hok : sampleNOk w n masks sel = true) (b : Nat) (hb : b < masks.length) :
    (∀ s ∈ instStarts masks.length n b sel, s < w ∧ (masks.getD b (fun _ => false)) s = true) ∧
    (sampleNReplace w n masks = false → nodupB (instStarts masks.length n b sel) = true) := by
  simp only [sampleNOk, Bool.and_eq_true, Bool.or_eq_true] at hok
  obtain ⟨⟨_, hall⟩, hd⟩ := hok
  have hb' := all_range hall b hb
  rw [sampleNRows_eq] at hb'
  refine ⟨?_, ?_⟩
  · intro s hs
    have := List.all_eq_true.mp hb' s hs
    simpa using this
  · intro hr
    rcases hd with hd | hd
    · rw [hr] at hd; exact absurd hd (by decide)
    · have := all_range hd b hb
      rwa [sampleNRows_eq] at this

/-- **C12 `fjsp_starts_rows`**: the forced starts of `FJSPEnv` / `JSSPEnv.select_start_nodes` (which delegates to
`sample_n_random_actions`, extracted) found at rows `j·B + b` are feasible actions of instance `b`, and pairwise
distinct whenever every instance of the batch has at least `n` feasible first actions (no replacement). -/
theorem fjsp_starts_rows (w n : Nat) (masks : List (Nat → Bool)) (sel : List Nat)
    (hok : fjspStartsOk w n masks sel = true) (b : Nat) (hb : b < masks.length) :
    (∀ s ∈ instStarts masks.length n b sel, s < w ∧ (masks.getD b (fun _ => false)) s = true) ∧
    (sampleNReplace w n masks = false → nodupB (instStarts masks.length n b sel) = true) := by
  simp only [fjspStartsOk, Params.fjspStartsDelegate, if_true] at hok
  exact sampleN_rows w n masks sel hok b hb

/-! ### best-of-k selection -/

/-- what is assumed of the tie-breaking of `Tensor.max(dim)`: it returns *an* index of a maximum -/
def IsArgmax (am : (Nat → Int) → Nat → Nat) : Prop :=
  ∀ f k, 0 < k → am f k < k ∧ ∀ j, j < k → f j ≤ f (am f k)

theorem argmaxFirst_succ (f : Nat → Int) (k : Nat) :
    argmaxFirst f (k + 1) = if f (argmaxFirst f k) < f k then k else argmaxFirst f k := rfl

theorem argmaxLast_succ (f : Nat → Int) (k : Nat) :
    argmaxLast f (k + 1) = if f (argmaxLast f k) ≤ f k then k else argmaxLast f k := rfl

theorem argmaxFirst_spec (f : Nat → Int) (k : Nat) :
    argmaxFirst f (k + 1) < k + 1 ∧ ∀ j, j < k + 1 → f j ≤ f (argmaxFirst f (k + 1)) := by
  induction k with
  | zero =>
    have h0 : argmaxFirst f 1 = 0 := by simp [argmaxFirst]
    rw [h0]
    refine ⟨by omega, ?_⟩
    intro j hj
    have : j = 0 := by omega
    subst this; exact Int.le_refl _
  | succ k ih =>
    obtain ⟨h1, h2⟩ := ih
    rw [argmaxFirst_succ f (k + 1)]
    generalize argmaxFirst f (k + 1) = m at h1 h2 ⊢
    split
    · rename_i hlt
      refine ⟨by omega, ?_⟩
      intro j hj
      rcases Nat.lt_succ_iff_lt_or_eq.mp hj with hj' | rfl
      · exact Int.le_trans (h2 j hj') (Int.le_of_lt hlt)
      · exact Int.le_refl _
    · rename_i hge
      refine ⟨by omega, ?_⟩
      intro j hj
      rcases Nat.lt_succ_iff_lt_or_eq.mp hj with hj' | rfl
      · exact h2 j hj'
      · exact Int.not_lt.mp hge

theorem argmaxLast_spec (f : Nat → Int) (k : Nat) :
    argmaxLast f (k + 1) < k + 1 ∧ ∀ j, j < k + 1 → f j ≤ f (argmaxLast f (k + 1)) := by
  induction k with
  | zero =>
    have h0 : argmaxLast f 1 = 0 := by simp [argmaxLast]
    rw [h0]
    refine ⟨by omega, ?_⟩
    intro j hj
    have : j = 0 := by omega
    subst this; exact Int.le_refl _
  | succ k ih =>
    obtain ⟨h1, h2⟩ := ih
    rw [argmaxLast_succ f (k + 1)]
    generalize argmaxLast f (k + 1) = m at h1 h2 ⊢
    split
    · rename_i hle
      refine ⟨by omega, ?_⟩
      intro j hj
      rcases Nat.lt_succ_iff_lt_or_eq.mp hj with hj' | rfl
      · exact Int.le_trans (h2 j hj') hle
      · exact Int.le_refl _
    · rename_i hgt
      refine ⟨by omega, ?_⟩
      intro j hj
      rcases Nat.lt_succ_iff_lt_or_eq.mp hj with hj' | rfl
      · exact h2 j hj'
      · exact Int.le_of_lt (Int.not_le.mp hgt)

theorem argmaxFirst_isArgmax : IsArgmax argmaxFirst := by
  intro f k hk
  obtain ⟨k', rfl⟩ : ∃ k', k = k' + 1 := ⟨k - 1, by omega⟩
  exact argmaxFirst_spec f k'

theorem argmaxLast_isArgmax : IsArgmax argmaxLast := by
  intro f k hk
  obtain ⟨k', rfl⟩ : ∃ k', k = k' + 1 := ⟨k - 1, by omega⟩
  exact argmaxLast_spec f k'

theorem unbatchify1_get {α : Type} (x : Tens α) (B k : Nat) (hk : 0 < k) (rest : List Nat)
    (h : x.shape = (B * k) :: rest) (b j : Nat) (t : List Nat) :
    (unbatchify x [k]).get (b :: j :: t) = x.get ((j * B + b) :: t) := by
  have hu : unbatchify x [k] = unbatchifySingle x k := by
    simp [unbatchify, loopOrder, unbatchifyStep, hk]
  rw [hu, unbatchifySingle_get _ _ _ _ h, Nat.mul_div_cancel _ hk]

/-- **C12 `select_best_correct`**: for every batch size `B`, every `k ≥ 1`, every reward vector and
every tie-breaking of `max`: `_select_best` returns for instance `b` the maximum reward among its own
`k` rollouts (rows `j·B + b`), and the actions / log-probabilities / TensorDict row it returns are
those of that very rollout `j* = bestIdx`. -/
theorem select_best_correct (am : (Nat → Int) → Nat → Nat) (ham : IsArgmax am) (rew : Tens Int)
    (B k : Nat) (hk : 0 < k) (hr : rew.shape = [B * k]) (b : Nat) :
    bestIdx am rew k b < k ∧
    (∀ j, j < k → rew.get [j * B + b] ≤ rew.get [bestIdx am rew k b * B + b]) ∧
    (selectBest am rew rew k).get [b] = rew.get [bestIdx am rew k b * B + b] ∧
    (∀ (α : Type) (x : Tens α) (rest : List Nat), x.shape = (B * k) :: rest →
      (selectBest am rew x k).shape = B :: rest ∧
      ∀ t, (selectBest am rew x k).get (b :: t) = x.get ((bestIdx am rew k b * B + b) :: t)) := by
  have hget : ∀ j, (unbatchify rew [k]).get [b, j] = rew.get [j * B + b] :=
    fun j => unbatchify1_get rew B k hk [] hr b j []
  obtain ⟨h1, h2⟩ := ham (fun j => (unbatchify rew [k]).get [b, j]) k hk
  refine ⟨h1, ?_, ?_, ?_⟩
  · intro j hj
    have := h2 j hj
    simp only [hget] at this
    simpa [bestIdx, hget] using this
  · exact (unbatchifyAndGather_get rew B k hk [] hr _).2 b []
  · intro α x rest hx
    exact ⟨(unbatchifyAndGather_get x B k hk rest hx _).1,
      fun t => (unbatchifyAndGather_get x B k hk rest hx _).2 b t⟩

/-! ### `get_best_actions` -/

/-- what `get_best_actions(actions, max_idxs)` is meant to return (first action shown; the full claim
would be the whole sequence): the actions of rollout `max_idxs b` of instance `b` -/
def get_best_actions_statement : Prop :=
  ∀ (B k L : Nat) (actions : Tens Nat) (idx : Nat → Nat), 0 < B → 0 < k →
    actions.shape = [B * k, L] → (∀ b, b < B → idx b < k) →
    ∀ b, b < B → (getBestActions actions B idx).get [b, 0, 0] = actions.get [idx b * B + b, 0]

theorem getBestActions_get {α : Type} (actions : Tens α) (B k : Nat) (hB : 0 < B) (rest : List Nat)
    (h : actions.shape = (B * k) :: rest) (idx : Nat → Nat) (b : Nat) (t : List Nat) :
    (getBestActions actions B idx).get (b :: t) = actions.get [idx b, 0] := by
  have hu : unbatchify actions [B] = unbatchifySingle actions B := by
    simp [unbatchify, loopOrder, unbatchifyStep, hB]
  simp only [getBestActions, hu]
  rw [unbatchifySingle_get _ _ _ _ h]
  simp

/-- two instances, two rollouts each, best rollout of both is copy 1: the function returns rows 1 and
1 of the flat batch (instance 1 / copy 0) instead of rows 2 and 3. -/
theorem get_best_actions_counterexample : ¬ get_best_actions_statement := by
  intro h
  have := h 2 2 1 { shape := [4, 1], get := fun i => i.headD 0 } (fun _ => 1) (by decide) (by decide)
    rfl (by decide) 0 (by decide)
  rw [getBestActions_get _ 2 2 (by decide) [1] rfl] at this
  revert this; decide

/-- **`get_best_actions_partial`**: with a single instance (`B = 1`) the returned entry is the first
action of the selected rollout (and nothing but the first action is returned: shape `[B,1,1]`). -/
theorem get_best_actions_partial (k L : Nat) (actions : Tens Nat) (idx : Nat → Nat)
    (h : actions.shape = [1 * k, L]) :
    (getBestActions actions 1 idx).shape = [1, 1, 1] ∧
    (getBestActions actions 1 idx).get [0, 0, 0] = actions.get [idx 0 * 1 + 0, 0] := by
  refine ⟨rfl, ?_⟩
  rw [getBestActions_get _ 1 k (by decide) [L] h]
  simp

/-! ### SymNCO's `best_multistart_actions` -/

/-- what the validation branch of `SymNCO.shared_step` means to compute from
`actions : [B, S, A, …]` and `max_idxs : [B, A]`: for every instance and augmentation the actions of
the best start, `[B, A, …]` -/
def symnco_best_statement : Prop :=
  ∀ (B S A : Nat) (src : Tens Nat) (idx : Nat → Nat → Nat), src.shape = [B, S, A] →
    (gatherDefaultDim src idx).shape = [B, A] ∧
    ∀ b a, a < A → (gatherDefaultDim src idx).get [b, a] = src.get [b, idx b a, a]

/-- with two augmentations the result has shape `[B, 2, 2]`: one entry per (augmentation,
augmentation) pair instead of one per augmentation. -/
theorem symnco_best_counterexample : ¬ symnco_best_statement := by
  intro h
  have := (h 1 2 2 { shape := [1, 2, 2], get := fun _ => 0 } (fun _ _ => 0) rfl).1
  revert this; decide

/-- **`symnco_best_partial`**: without augmentation (`A = 1`) the gather is the intended one. -/
theorem symnco_best_partial (B S : Nat) (src : Tens Nat) (idx : Nat → Nat → Nat)
    (h : src.shape = [B, S, 1]) :
    (gatherDefaultDim src idx).shape = [B, 1] ∧
    ∀ b, (gatherDefaultDim src idx).get [b, 0] = src.get [b, idx b 0, 0] := by
  simp [gatherDefaultDim, h]

/-! ### non-vacuity -/

example : instStarts 2 3 1 (startsOf 2 3 1 5) = [1, 2, 3] := by decide
example : startsOf 2 3 1 5 = [1, 1, 2, 2, 3, 3] := by decide
example : (instStarts 1 3 0 (startsOf 1 3 1 2)) = [1, 2, 1] := by decide
example : IsArgmax argmaxFirst ∧ IsArgmax argmaxLast := ⟨argmaxFirst_isArgmax, argmaxLast_isArgmax⟩
example : argmaxFirst (fun j => [5, 7, 7, 1].getD j 0) 4 = 1 ∧ argmaxLast (fun j => [5, 7, 7, 1].getD j 0) 4 = 2 := by
  decide
/-- `B = 2`, `k = 3`, rewards `[5,1,5,7,2,7]`: instance 0 owns rows 0,2,4, instance 1 rows 1,3,5 -/
example : (selectBest argmaxFirst ⟨[6], fun i => [5, 1, 5, 7, 2, 7].getD (i.headD 0) 0⟩ (iota 6) 3).flat = [0, 3] := by
  decide
/-- the former counterexamples: feasible {2,3,4}, `k = 3` now gives {2,3,4}; … -/
example : opInstStarts 4 3 (fun j => j == 0 || (decide (2 ≤ j) && decide (j ≤ 4))) = [2, 3, 4] := by decide
/-- … and a batch-mate with a single feasible node no longer disturbs instance 0 -/
example : opStarts 4 2 [fun j => decide (j ≤ 2), fun j => j == 0 || j == 2] = [1, 2, 2, 2] := by decide
example : feasCount 4 (fun j => j == 0 || (decide (2 ≤ j) && decide (j ≤ 4))) = 3 := by decide
example : opInstStarts 4 5 (fun j => j == 0 || j == 3) = [3, 3, 3, 3, 3] := by decide

end Rl4co.Ops
