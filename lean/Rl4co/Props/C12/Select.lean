/-
C12 — forced start nodes and best-of-k selection (model: `Rl4co/Train/Select.lean`).

Start nodes (every rule of the code base is `startsOf B k lo m`, see `envRule_table`):
* `starts_row`, `starts_prefix`       row `j·B+b` is forced to `(j mod m) + lo`; for `k ≤ m` instance `b`
                                       gets exactly `lo, lo+1, …, lo+k-1`
* `starts_distinct`                    `k ≤ #startable` ⇒ pairwise distinct per instance
* `starts_in_range`                    every start is a startable index
* `starts_feasible_of_mask`            interface lemma: feasible iff the reset mask admits that prefix
  (`start_infeasible_of_mask` is the converse used by the findings)
* `starts_dup_of_gt`, `default_starts_le`, `default_starts_gt`
OP (finding): `op_starts_feasible_statement`, `op_starts_distinct_statement` are FALSE of the code
(`…_counterexample`), `op_starts_partial` is what does hold.
Best-of-k: `select_best_correct` for every tie-breaking of `max` (`IsArgmax`);
`get_best_actions_statement` is FALSE of the code (`get_best_actions_counterexample`),
`get_best_actions_partial`.
No Mathlib needed.
-/
import Rl4co.Train.Select
import Rl4co.Props.C12.Batchify
namespace Rl4co.Ops

/-! ### forced starts -/

theorem startsOf_length (B k lo m : Nat) : (startsOf B k lo m).length = k * B := by
  simp [startsOf]

/-- **C12 `starts_row`**: the forced start of row `r` depends on the copy index `r / B` only. -/
theorem starts_row (B k lo m r : Nat) (hr : r < k * B) :
    (startsOf B k lo m).getD r 0 = (r / B) % m + lo := by
  simp [startsOf, List.getD_eq_getElem?_getD, hr]

theorem instStarts_startsOf (B k lo m b : Nat) (hb : b < B) :
    instStarts B k b (startsOf B k lo m) = (List.range k).map (fun j => j % m + lo) := by
  simp only [instStarts]
  apply List.map_congr_left
  intro j hj
  have hj : j < k := List.mem_range.mp hj
  have hlt : j * B + b < k * B := by
    calc j * B + b < j * B + B := by omega
      _ = (j + 1) * B := by rw [Nat.add_mul, Nat.one_mul]
      _ ≤ k * B := Nat.mul_le_mul_right B hj
  rw [starts_row B k lo m _ hlt]
  have : (j * B + b) / B = j := by
    rw [Nat.mul_comm, Nat.mul_add_div (by omega : B > 0), Nat.div_eq_of_lt hb, Nat.add_zero]
  rw [this]

/-- **C12 `starts_prefix`**: when `k ≤ m` (number of startable indices) every instance is forced to
exactly the index prefix `lo, lo+1, …, lo+k-1`. -/
theorem starts_prefix (B k lo m b : Nat) (hb : b < B) (hk : k ≤ m) :
    instStarts B k b (startsOf B k lo m) = (List.range k).map (fun j => j + lo) := by
  rw [instStarts_startsOf B k lo m b hb]
  apply List.map_congr_left
  intro j hj
  have hj : j < k := List.mem_range.mp hj
  rw [Nat.mod_eq_of_lt (by omega)]

theorem nodup_map_add (k lo : Nat) : ((List.range k).map (fun j => j + lo)).Nodup := by
  rw [List.Nodup, List.pairwise_map]
  exact List.Pairwise.imp (fun {a b} (h : a < b) => by omega) (List.pairwise_lt_range)

/-- **C12 `starts_distinct`**: `k ≤ #startable` ⇒ the forced starts of instance `b` are pairwise
distinct. -/
theorem starts_distinct (B k lo m b : Nat) (hb : b < B) (hk : k ≤ m) :
    (instStarts B k b (startsOf B k lo m)).Nodup := by
  rw [starts_prefix B k lo m b hb hk]; exact nodup_map_add k lo

/-- **C12 `starts_in_range`**: every forced start is one of the `m` startable indices `lo … lo+m-1`. -/
theorem starts_in_range (B k lo m : Nat) (hm : 0 < m) :
    ∀ s ∈ startsOf B k lo m, lo ≤ s ∧ s < lo + m := by
  intro s hs
  simp only [startsOf, List.mem_map, List.mem_range] at hs
  obtain ⟨r, _, rfl⟩ := hs
  have := Nat.mod_lt (r / B) hm
  omega

/-- **C12 `starts_feasible_of_mask`** (interface to the environment families): if the reset mask of
instance `b` admits the index prefix `lo … lo+k-1`, every forced start of `b` is feasible. -/
theorem starts_feasible_of_mask (B k lo m b : Nat) (hb : b < B) (hk : k ≤ m) (mask : Nat → Bool)
    (hmask : ∀ a, lo ≤ a → a < lo + k → mask a = true) :
    ∀ s ∈ instStarts B k b (startsOf B k lo m), mask s = true := by
  rw [starts_prefix B k lo m b hb hk]
  intro s hs
  simp only [List.mem_map, List.mem_range] at hs
  obtain ⟨j, hj, rfl⟩ := hs
  exact hmask _ (by omega) (by omega)

/-- conversely the forced starts ARE that prefix, so a mask that rejects one of `lo … lo+k-1` makes a
forced start infeasible, however many other feasible starts exist -/
theorem start_infeasible_of_mask (B k lo m b : Nat) (hb : b < B) (hk : k ≤ m) (mask : Nat → Bool)
    (a : Nat) (ha : lo ≤ a) (ha' : a < lo + k) (hmask : mask a = false) :
    ∃ s ∈ instStarts B k b (startsOf B k lo m), mask s = false := by
  rw [starts_prefix B k lo m b hb hk]
  refine ⟨a, ?_, hmask⟩
  simp only [List.mem_map, List.mem_range]
  exact ⟨a - lo, by omega, by omega⟩

/-- more starts than startable indices always repeats one (the hypothesis `k ≤ m` is needed) -/
theorem starts_dup_of_gt (B k lo m b : Nat) (hb : b < B) (hm : 0 < m) (hk : m < k) :
    ¬ (instStarts B k b (startsOf B k lo m)).Nodup := by
  rw [instStarts_startsOf B k lo m b hb]
  intro hnd
  rw [List.Nodup, List.pairwise_map] at hnd
  have h0 : (0 : Nat) ∈ List.range k := List.mem_range.mpr (by omega)
  have := List.pairwise_iff_getElem.mp hnd 0 m (by simp; omega) (by simp; omega) hm
  simp at this


/-! ### the rules of the individual environments -/

/-- every env rule is an instance of `startsOf`, so `starts_row / starts_distinct / starts_in_range /
starts_feasible_of_mask` apply to all of them; the table of `(lo, m)`: -/
theorem envRule_table (g a l : Nat) :
    envRule "tsp" g a l = (0, g) ∧ envRule "atsp" g a l = (0, g) ∧
    envRule "flp" g a l = (0, a) ∧ envRule "mcp" g a l = (0, a) ∧
    envRule "pdp" g a l = (1, (l - 1) / 2) ∧ envRule "mtvrp" g a l = (1, l - 1) ∧
    envRule "cvrp" g a l = (1, g) ∧ envRule "cvrptw" g a l = (1, g) ∧ envRule "sdvrp" g a l = (1, g) ∧
    envRule "svrp" g a l = (1, g) ∧ envRule "op" g a l = (1, g) ∧ envRule "pctsp" g a l = (1, g) ∧
    envRule "spctsp" g a l = (1, g) ∧ envRule "mtsp" g a l = (1, g) ∧ envRule "mdcpdp" g a l = (1, g) := by
  simp [envRule, genericRule, Params.opsNoDepotStartEnvs]

/-- the default number of starts never exceeds the number of startable indices for the environments
`get_num_starts` knows about (`n` customers, generator's `num_loc = n`, mask width `n + 1`, `locs`
incl. depot `n + 1`; TSP-likes: width `n`) … -/
theorem default_starts_le :
    (∀ n, envGetNumStarts "cvrp" (n + 1) (n + 1) ≤ (envRule "cvrp" n (n + 1) (n + 1)).2) ∧
    (∀ n, envGetNumStarts "op" (n + 1) (n + 1) ≤ (envRule "op" n (n + 1) (n + 1)).2) ∧
    (∀ n, envGetNumStarts "pctsp" (n + 1) (n + 1) ≤ (envRule "pctsp" n (n + 1) (n + 1)).2) ∧
    (∀ n, envGetNumStarts "pdp" (n + 1) (n + 1) ≤ (envRule "pdp" n (n + 1) (n + 1)).2) ∧
    (∀ n, envGetNumStarts "tsp" n n ≤ (envRule "tsp" n n n).2) ∧
    (∀ n, envGetNumStarts "flp" n n ≤ (envRule "flp" n n n).2) := by
  simp [envGetNumStarts, getNumStarts, depotList, envRule, genericRule, Params.opsNoDepotStartEnvs,
    Params.opsNumStartsDepotEnvs]

/-- … but for depot environments it does not know (`svrp`, `mtvrp`, `mdcpdp`, …) the default is the
full mask width `n + 1 > n`: node 1 is forced twice. -/
theorem default_starts_gt :
    (∀ n, (envRule "mtvrp" n (n + 1) (n + 1)).2 < envGetNumStarts "mtvrp" (n + 1) (n + 1)) ∧
    (∀ n, (envRule "svrp" n (n + 1) (n + 1)).2 < envGetNumStarts "svrp" (n + 1) (n + 1)) := by
  simp [envGetNumStarts, getNumStarts, depotList, envRule, genericRule, Params.opsNoDepotStartEnvs,
    Params.opsNumStartsDepotEnvs]

/-! ### OP: the resampling branch -/

/-- the full claim for OP: whenever instance `b` has at least `k` feasible starts, all its forced
starts are feasible … -/
def op_starts_feasible_statement : Prop :=
  ∀ (n k : Nat) (masks : List (Nat → Bool)) (sel : List Nat),
    opStartsOk n n k masks sel = true →
    ∀ b, b < masks.length → k ≤ feasCount n (masks.getD b (fun _ => false)) →
      ∀ s ∈ instStarts masks.length k b sel, (masks.getD b (fun _ => false)) s = true

/-- … and pairwise distinct. -/
def op_starts_distinct_statement : Prop :=
  ∀ (n k : Nat) (masks : List (Nat → Bool)) (sel : List Nat),
    opStartsOk n n k masks sel = true →
    ∀ b, b < masks.length → k ≤ feasCount n (masks.getD b (fun _ => false)) →
      (instStarts masks.length k b sel).Nodup

/-- 4 customers, feasible first moves {2,3,4}, `k = 3`: exactly 3 feasible starts exist, the
resampling test `3 < 3` is false, and the forced starts are {1,2,3} — node 1 is infeasible. -/
theorem op_starts_feasible_counterexample : ¬ op_starts_feasible_statement := by
  intro h
  have := h 4 3 [fun j => j == 0 || (decide (2 ≤ j) && decide (j ≤ 4))] [1, 2, 3] (by decide) 0
    (by decide) (by decide) 1 (by decide)
  revert this; decide

/-- two instances, `k = 2`: instance 0 has the feasible starts {1,2}, its batch-mate only {2}, so the
*batch-global* test sends both through sampling with replacement, which may (and on the real code
does, see the replayed witness) return {1,1} for instance 0. -/
theorem op_starts_distinct_counterexample : ¬ op_starts_distinct_statement := by
  intro h
  have := h 4 2 [fun j => decide (j ≤ 2), fun j => j == 0 || j == 2] [1, 2, 1, 2] (by decide) 0
    (by decide) (by decide)
  revert this; decide

theorem all_range {n : Nat} {p : Nat → Bool} (h : (List.range n).all p = true) (r : Nat) (hr : r < n) :
    p r = true := by
  rw [List.all_eq_true] at h
  exact h r (List.mem_range.mpr hr)

/-- **`op_starts_partial`**: (a) in the resampling branch every forced start is feasible for its
instance; (b) in the deterministic branch the starts of instance `b` are feasible if its mask admits
the prefix `1 … k`, and they are pairwise distinct (`k ≤ num_loc`). -/
theorem op_starts_partial (n g k : Nat) (masks : List (Nat → Bool)) (sel : List Nat)
    (hok : opStartsOk n g k masks sel = true) (b : Nat) (hb : b < masks.length) :
    (opResample n k masks = true →
      ∀ s ∈ instStarts masks.length k b sel, (masks.getD b (fun _ => false)) s = true) ∧
    (opResample n k masks = false → k ≤ g →
      (instStarts masks.length k b sel).Nodup ∧
      ((∀ a, 1 ≤ a → a < 1 + k → (masks.getD b (fun _ => false)) a = true) →
        ∀ s ∈ instStarts masks.length k b sel, (masks.getD b (fun _ => false)) s = true)) := by
  refine ⟨?_, ?_⟩
  · intro hrs s hs
    simp only [opStartsOk, hrs, if_true, resampledOk, Bool.and_eq_true] at hok
    obtain ⟨_, hall⟩ := hok
    simp only [instStarts, List.mem_map, List.mem_range] at hs
    obtain ⟨j, hj, rfl⟩ := hs
    have hlt : j * masks.length + b < k * masks.length := by
      calc j * masks.length + b < j * masks.length + masks.length := by omega
        _ = (j + 1) * masks.length := by rw [Nat.add_mul, Nat.one_mul]
        _ ≤ k * masks.length := Nat.mul_le_mul_right _ hj
    have := all_range hall _ hlt
    simp only [Bool.and_eq_true] at this
    have hmod : (j * masks.length + b) % masks.length = b := by
      rw [Nat.mul_comm, Nat.mul_add_mod, Nat.mod_eq_of_lt hb]
    rw [hmod] at this
    exact this.2
  · intro hrs hk
    simp only [opStartsOk, hrs] at hok
    have hsel : sel = startsOf masks.length k 1 g := by simpa using hok
    subst hsel
    exact ⟨starts_distinct _ k 1 g b hb hk, starts_feasible_of_mask _ k 1 g b hb hk _⟩

/-! ### best-of-k selection -/

/-- what is assumed of the tie-breaking of `Tensor.max(dim)`: it returns *an* index of a maximum -/
def IsArgmax (am : (Nat → Int) → Nat → Nat) : Prop :=
  ∀ f k, 0 < k → am f k < k ∧ ∀ j, j < k → f j ≤ f (am f k)

theorem argmaxFirst_succ (f : Nat → Int) (k : Nat) :
    argmaxFirst f (k + 1) = if f (argmaxFirst f k) < f k then k else argmaxFirst f k := rfl

theorem argmaxLast_succ (f : Nat → Int) (k : Nat) :
    argmaxLast f (k + 1) = if f (argmaxLast f k) ≤ f k then k else argmaxLast f k := rfl

theorem argmaxFirst_spec (f : Nat → Int) (k : Nat) :
    argmaxFirst f (k + 1) < k + 1 ∧ ∀ j, j < k + 1 → f j ≤ f (argmaxFirst f (k + 1)) := by
  induction k with
  | zero =>
    have h0 : argmaxFirst f 1 = 0 := by simp [argmaxFirst]
    rw [h0]
    refine ⟨by omega, ?_⟩
    intro j hj
    have : j = 0 := by omega
    subst this; exact Int.le_refl _
  | succ k ih =>
    obtain ⟨h1, h2⟩ := ih
    rw [argmaxFirst_succ f (k + 1)]
    generalize argmaxFirst f (k + 1) = m at h1 h2 ⊢
    split
    · rename_i hlt
      refine ⟨by omega, ?_⟩
      intro j hj
      rcases Nat.lt_succ_iff_lt_or_eq.mp hj with hj' | rfl
      · exact Int.le_trans (h2 j hj') (Int.le_of_lt hlt)
      · exact Int.le_refl _
    · rename_i hge
      refine ⟨by omega, ?_⟩
      intro j hj
      rcases Nat.lt_succ_iff_lt_or_eq.mp hj with hj' | rfl
      · exact h2 j hj'
      · exact Int.not_lt.mp hge

theorem argmaxLast_spec (f : Nat → Int) (k : Nat) :
    argmaxLast f (k + 1) < k + 1 ∧ ∀ j, j < k + 1 → f j ≤ f (argmaxLast f (k + 1)) := by
  induction k with
  | zero =>
    have h0 : argmaxLast f 1 = 0 := by simp [argmaxLast]
    rw [h0]
    refine ⟨by omega, ?_⟩
    intro j hj
    have : j = 0 := by omega
    subst this; exact Int.le_refl _
  | succ k ih =>
    obtain ⟨h1, h2⟩ := ih
    rw [argmaxLast_succ f (k + 1)]
    generalize argmaxLast f (k + 1) = m at h1 h2 ⊢
    split
    · rename_i hle
      refine ⟨by omega, ?_⟩
      intro j hj
      rcases Nat.lt_succ_iff_lt_or_eq.mp hj with hj' | rfl
      · exact Int.le_trans (h2 j hj') hle
      · exact Int.le_refl _
    · rename_i hgt
      refine ⟨by omega, ?_⟩
      intro j hj
      rcases Nat.lt_succ_iff_lt_or_eq.mp hj with hj' | rfl
      · exact h2 j hj'
      · exact Int.le_of_lt (Int.not_le.mp hgt)

theorem argmaxFirst_isArgmax : IsArgmax argmaxFirst := by
  intro f k hk
  obtain ⟨k', rfl⟩ : ∃ k', k = k' + 1 := ⟨k - 1, by omega⟩
  exact argmaxFirst_spec f k'

theorem argmaxLast_isArgmax : IsArgmax argmaxLast := by
  intro f k hk
  obtain ⟨k', rfl⟩ : ∃ k', k = k' + 1 := ⟨k - 1, by omega⟩
  exact argmaxLast_spec f k'

theorem unbatchify1_get {α : Type} (x : Tens α) (B k : Nat) (hk : 0 < k) (rest : List Nat)
    (h : x.shape = (B * k) :: rest) (b j : Nat) (t : List Nat) :
    (unbatchify x [k]).get (b :: j :: t) = x.get ((j * B + b) :: t) := by
  have hu : unbatchify x [k] = unbatchifySingle x k := by
    simp [unbatchify, loopOrder, unbatchifyStep, hk]
  rw [hu, unbatchifySingle_get _ _ _ _ h, Nat.mul_div_cancel _ hk]

/-- **C12 `select_best_correct`**: for every batch size `B`, every `k ≥ 1`, every reward vector and
every tie-breaking of `max`: `_select_best` returns for instance `b` the maximum reward among its own
`k` rollouts (rows `j·B + b`), and the actions / log-probabilities / TensorDict row it returns are
those of that very rollout `j* = bestIdx`. -/
theorem select_best_correct (am : (Nat → Int) → Nat → Nat) (ham : IsArgmax am) (rew : Tens Int)
    (B k : Nat) (hk : 0 < k) (hr : rew.shape = [B * k]) (b : Nat) :
    bestIdx am rew k b < k ∧
    (∀ j, j < k → rew.get [j * B + b] ≤ rew.get [bestIdx am rew k b * B + b]) ∧
    (selectBest am rew rew k).get [b] = rew.get [bestIdx am rew k b * B + b] ∧
    (∀ (α : Type) (x : Tens α) (rest : List Nat), x.shape = (B * k) :: rest →
      (selectBest am rew x k).shape = B :: rest ∧
      ∀ t, (selectBest am rew x k).get (b :: t) = x.get ((bestIdx am rew k b * B + b) :: t)) := by
  have hget : ∀ j, (unbatchify rew [k]).get [b, j] = rew.get [j * B + b] :=
    fun j => unbatchify1_get rew B k hk [] hr b j []
  obtain ⟨h1, h2⟩ := ham (fun j => (unbatchify rew [k]).get [b, j]) k hk
  refine ⟨h1, ?_, ?_, ?_⟩
  · intro j hj
    have := h2 j hj
    simp only [hget] at this
    simpa [bestIdx, hget] using this
  · exact (unbatchifyAndGather_get rew B k hk [] hr _).2 b []
  · intro α x rest hx
    exact ⟨(unbatchifyAndGather_get x B k hk rest hx _).1,
      fun t => (unbatchifyAndGather_get x B k hk rest hx _).2 b t⟩

/-! ### `get_best_actions` -/

/-- what `get_best_actions(actions, max_idxs)` is meant to return (first action shown; the full claim
would be the whole sequence): the actions of rollout `max_idxs b` of instance `b` -/
def get_best_actions_statement : Prop :=
  ∀ (B k L : Nat) (actions : Tens Nat) (idx : Nat → Nat), 0 < B → 0 < k →
    actions.shape = [B * k, L] → (∀ b, b < B → idx b < k) →
    ∀ b, b < B → (getBestActions actions B idx).get [b, 0, 0] = actions.get [idx b * B + b, 0]

theorem getBestActions_get {α : Type} (actions : Tens α) (B k : Nat) (hB : 0 < B) (rest : List Nat)
    (h : actions.shape = (B * k) :: rest) (idx : Nat → Nat) (b : Nat) (t : List Nat) :
    (getBestActions actions B idx).get (b :: t) = actions.get [idx b, 0] := by
  have hu : unbatchify actions [B] = unbatchifySingle actions B := by
    simp [unbatchify, loopOrder, unbatchifyStep, hB]
  simp only [getBestActions, hu]
  rw [unbatchifySingle_get _ _ _ _ h]
  simp

/-- two instances, two rollouts each, best rollout of both is copy 1: the function returns rows 1 and
1 of the flat batch (instance 1 / copy 0) instead of rows 2 and 3. -/
theorem get_best_actions_counterexample : ¬ get_best_actions_statement := by
  intro h
  have := h 2 2 1 { shape := [4, 1], get := fun i => i.headD 0 } (fun _ => 1) (by decide) (by decide)
    rfl (by decide) 0 (by decide)
  rw [getBestActions_get _ 2 2 (by decide) [1] rfl] at this
  revert this; decide

/-- **`get_best_actions_partial`**: with a single instance (`B = 1`) the returned entry is the first
action of the selected rollout (and nothing but the first action is returned: shape `[B,1,1]`). -/
theorem get_best_actions_partial (k L : Nat) (actions : Tens Nat) (idx : Nat → Nat)
    (h : actions.shape = [1 * k, L]) :
    (getBestActions actions 1 idx).shape = [1, 1, 1] ∧
    (getBestActions actions 1 idx).get [0, 0, 0] = actions.get [idx 0 * 1 + 0, 0] := by
  refine ⟨rfl, ?_⟩
  rw [getBestActions_get _ 1 k (by decide) [L] h]
  simp

/-! ### SymNCO's `best_multistart_actions` -/

/-- what the validation branch of `SymNCO.shared_step` means to compute from
`actions : [B, S, A, …]` and `max_idxs : [B, A]`: for every instance and augmentation the actions of
the best start, `[B, A, …]` -/
def symnco_best_statement : Prop :=
  ∀ (B S A : Nat) (src : Tens Nat) (idx : Nat → Nat → Nat), src.shape = [B, S, A] →
    (gatherDefaultDim src idx).shape = [B, A] ∧
    ∀ b a, a < A → (gatherDefaultDim src idx).get [b, a] = src.get [b, idx b a, a]

/-- with two augmentations the result has shape `[B, 2, 2]`: one entry per (augmentation,
augmentation) pair instead of one per augmentation. -/
theorem symnco_best_counterexample : ¬ symnco_best_statement := by
  intro h
  have := (h 1 2 2 { shape := [1, 2, 2], get := fun _ => 0 } (fun _ _ => 0) rfl).1
  revert this; decide

/-- **`symnco_best_partial`**: without augmentation (`A = 1`) the gather is the intended one. -/
theorem symnco_best_partial (B S : Nat) (src : Tens Nat) (idx : Nat → Nat → Nat)
    (h : src.shape = [B, S, 1]) :
    (gatherDefaultDim src idx).shape = [B, 1] ∧
    ∀ b, (gatherDefaultDim src idx).get [b, 0] = src.get [b, idx b 0, 0] := by
  simp [gatherDefaultDim, h]

/-! ### non-vacuity -/

example : instStarts 2 3 1 (startsOf 2 3 1 5) = [1, 2, 3] := by decide
example : startsOf 2 3 1 5 = [1, 1, 2, 2, 3, 3] := by decide
example : (instStarts 1 3 0 (startsOf 1 3 1 2)) = [1, 2, 1] := by decide
example : IsArgmax argmaxFirst ∧ IsArgmax argmaxLast := ⟨argmaxFirst_isArgmax, argmaxLast_isArgmax⟩
example : argmaxFirst (fun j => [5, 7, 7, 1].getD j 0) 4 = 1 ∧ argmaxLast (fun j => [5, 7, 7, 1].getD j 0) 4 = 2 := by
  decide
/-- `B = 2`, `k = 3`, rewards `[5,1,5,7,2,7]`: instance 0 owns rows 0,2,4, instance 1 rows 1,3,5 -/
example : (selectBest argmaxFirst ⟨[6], fun i => [5, 1, 5, 7, 2, 7].getD (i.headD 0) 0⟩ (iota 6) 3).flat = [0, 3] := by
  decide
example : opStartsOk 4 4 3 [fun j => j == 0 || (decide (2 ≤ j) && decide (j ≤ 4))] [1, 2, 3] = true := by decide
example : opResample 4 3 [fun j => j == 0 || (decide (2 ≤ j) && decide (j ≤ 4))] = false := by decide
example : opResample 4 2 [fun j => decide (j ≤ 2), fun j => j == 0 || j == 2] = true := by decide

end Rl4co.Ops
