/-
C12 ↔ C01 interface for OP.  `select_start_nodes` (OP branch, after upstream fix d560d2a; modelled in
`Rl4co/Train/Select.lean`, theorems in `Props/C12/Select.lean`) forces the first move of each of the `k`
rollouts of an instance.  Instantiated with the reset mask of THIS environment model, every forced
start is an admitted first move, so the forced rollout is a mask-confined run and everything proved
about mask-confined runs (C01 feasibility, C02 termination, C03 reward) applies to multi-start
rollouts of OP as well.
-/
import Rl4co.Props.C12.Select
import Rl4co.Props.C01.Op

namespace Rl4co.Op
open Rl4co.Spec.Op

/-- a customer the reset mask admits makes the feasible count positive -/
theorem feasCount_pos_of_admitted (i : Inst) {c : Nat} (h1 : 1 ≤ c) (h2 : c ≤ i.n)
    (hm : env.mask i (env.reset i) c = true) :
    1 ≤ Rl4co.Ops.feasCount i.n (env.mask i (env.reset i)) := by
  simp only [Rl4co.Ops.feasCount]
  apply List.length_pos_iff.mpr
  intro hnil
  have : c - 1 ∈ (List.range i.n).filter (fun j => env.mask i (env.reset i) (j + 1)) := by
    rw [List.mem_filter]
    refine ⟨List.mem_range.mpr (by omega), ?_⟩
    have e : c - 1 + 1 = c := by omega
    simp only [e, hm]
  rw [hnil] at this
  simp at this

/-- **C12/C01 interface (OP)**: every start node forced by `select_start_nodes` on the reset mask of the
model is an admitted first move — a one-step mask-confined run. -/
theorem forced_start_admitted (i : Inst) (k : Nat)
    (h1 : 1 ≤ Rl4co.Ops.feasCount i.n (env.mask i (env.reset i))) :
    ∀ s ∈ Rl4co.Ops.opInstStarts i.n k (env.mask i (env.reset i)),
      Run env i (env.reset i) [s] (env.step i (env.reset i) s) := by
  intro s hs
  obtain ⟨hs1, hs2, hm⟩ := Rl4co.Ops.op_starts_feasible i.n k (env.mask i (env.reset i)) h1 s hs
  exact Run.cons (by simp [env]; omega) hm (Run.nil _)

/-- hence every mask-confined continuation of a forced start is a feasible orienteering solution -/
theorem forced_rollout_feasible (i : Inst) (hwf : WF i) (k : Nat)
    (h1 : 1 ≤ Rl4co.Ops.feasCount i.n (env.mask i (env.reset i)))
    {s : Nat} (hs : s ∈ Rl4co.Ops.opInstStarts i.n k (env.mask i (env.reset i)))
    {as : List Nat} {st : State} (h : Run env i (env.step i (env.reset i) s) as st) :
    Feasible i (s :: as) := by
  have h0 := forced_start_admitted i k h1 s hs
  have := h0.append h
  exact feasible_of_run i hwf this

/-- Non-vacuity: on the example instance (budget 21, both customers at distance 10) both customers are
feasible starts and the two forced starts are `1, 2`. -/
example : Rl4co.Ops.opInstStarts exInst.n 2 (env.mask exInst (env.reset exInst)) = [1, 2] := by decide

end Rl4co.Op
