/-
C12 for the multi-task VRP environment, the clause "forced start actions are feasible for their instance and pairwise
distinct per instance whenever at least k feasible starts exist": `MTVRPEnv.select_start_nodes` (its own override:
`arange(num_starts).repeat_interleave(B) % num_loc + 1`, modulus and offset extracted from the source).  Copy `s` of
instance `b` sits at row `s * B + b` of the k-major expanded batch and is forced to start at customer `s % n + 1`:
always a customer index in range; pairwise distinct per instance as long as `k ≤ n`; and, on a well-formed instance,
offered by the mask of the reset state — for every feature valuation (all 16 variants).
-/
import Rl4co.Proofs.MtvrpWf

namespace Rl4co.Mtvrp

theorem startNode_eq (n B idx : Nat) : startNode n B idx = (idx / B) % n + 1 := by
  simp [startNode, Params.mtvrpStartModIsNumLoc, Params.mtvrpStartOffset]

/-- the start of copy `s` of instance `b` -/
theorem startNode_row (n B s b : Nat) (hb : b < B) : startNode n B (s * B + b) = s % n + 1 := by
  rw [startNode_eq]
  have hB : 0 < B := by omega
  have : (s * B + b) / B = s := by
    rw [Nat.mul_comm, Nat.mul_add_div hB, Nat.div_eq_of_lt hb]; simp
  rw [this]

/-- every forced start is a customer index in range -/
theorem startNode_range (n B idx : Nat) (hn : 0 < n) : 1 ≤ startNode n B idx ∧ startNode n B idx ≤ n := by
  rw [startNode_eq]
  have := Nat.mod_lt (idx / B) hn
  omega

/-- **pairwise distinct per instance** whenever at least `k` starts exist (`k ≤ n`) -/
theorem startNode_distinct (n B k s s' b : Nat) (hk : k ≤ n) (hs : s < k) (hs' : s' < k) (hne : s ≠ s') (hb : b < B) :
    startNode n B (s * B + b) ≠ startNode n B (s' * B + b) := by
  rw [startNode_row n B s b hb, startNode_row n B s' b hb, Nat.mod_eq_of_lt (by omega), Nat.mod_eq_of_lt (by omega)]
  omega

/-- … and with more starts than customers they wrap around (the documented behaviour, not a defect) -/
example : startNode 3 2 (0 * 2 + 1) = startNode 3 2 (3 * 2 + 1) := by decide

/-- **forced starts are feasible**: on a well-formed instance the mask of the reset state offers the start node of
every row -/
theorem start_admitted (i : Inst) (hwf : wf i = true) (hn : 0 < i.n) (B idx : Nat) :
    startNode i.n B idx < env.nAct i ∧ env.mask i (env.reset i) (startNode i.n B idx) = true := by
  obtain ⟨h1, h2⟩ := startNode_range i.n B idx hn
  refine ⟨by simp only [env]; omega, ?_⟩
  have h0 : startNode i.n B idx ≠ 0 := by omega
  have := canVisit_of_fresh hwf (fresh_reset i) (s := reset i) rfl h1 h2 rfl
  simp [env, mask_def, h0, this]

/-- the forced first step keeps the episode inside the mask-confined runs the other properties speak about -/
theorem start_run (i : Inst) (hwf : wf i = true) (hn : 0 < i.n) (B idx : Nat) :
    Run env i (env.reset i) [startNode i.n B idx] (env.step i (env.reset i) (startNode i.n B idx)) := by
  obtain ⟨h1, h2⟩ := start_admitted i hwf hn B idx
  exact Run.cons h1 h2 (Run.nil _)

/-- non-vacuity / sanity: 2 instances, 3 starts, 3 customers: rows 0..5 start at 1,1,2,2,3,3 -/
example : startNodes 3 2 3 = [1, 1, 2, 2, 3, 3] := by decide

end Rl4co.Mtvrp
