/-
Multi-start interface of the selection environments (C12 clause "forced start nodes are feasible and
distinct", instantiated for this family through `Rl4co.Ops`).

`FLPEnv` / `MCPEnv` override `get_num_starts` (= mask width) and `select_start_nodes`
(`arange(k).repeat_interleave(B) % width`): `Ops.envRule "flp" = Ops.envRule "mcp" = (0, nAct)`.
For every `k ≤ n` the forced starts of every instance are `0 … k-1`: pairwise distinct, offered by the
reset mask, and each can be completed to a feasible selection (so no forced row is a dead end).

`DPPEnv` / `MDPPEnv` do NOT override them: the generic rule forces cells `1 … k` regardless of the
keep-out / probe layout (and `get_num_starts` = number of cells, so the default `k` forces the
non-existent cell `n`) — `Dpp.forced_start_not_offered`, `Dpp.default_start_out_of_range`
(observed on the real code; reported to the owner of C12).
-/
import Rl4co.Props.C12.Select
import Rl4co.Props.C05.Flp
import Rl4co.Props.C05.Mcp
import Rl4co.Props.C05.Dpp

namespace Rl4co

/-- the other indices below `n`, in increasing order -/
def others (n s : Nat) : List Nat := (List.range n).filter (fun j => j != s)

theorem others_length (n s : Nat) (hs : s < n) : (others n s).length + 1 = n := by
  have h1 : cnt n (upd (fun _ : Nat => true) s false) + 1 = cnt n (fun _ => true) := cnt_upd_false hs rfl
  rw [cnt_true] at h1
  have h2 : cnt n (fun j => j != s) = cnt n (upd (fun _ : Nat => true) s false) :=
    cnt_congr (fun j _ => by by_cases h : j = s <;> simp [upd, h])
  show cnt n (fun j => j != s) + 1 = n
  omega

/-- a selection of `q` distinct indices below `n` that starts with `s` -/
def completion (n s q : Nat) : List Nat := s :: (others n s).take (q - 1)

theorem completion_spec (n s q : Nat) (hs : s < n) (hq1 : 1 ≤ q) (hqn : q ≤ n) :
    (completion n s q).length = q ∧ (completion n s q).Nodup ∧ ∀ a ∈ completion n s q, a < n := by
  have hl := others_length n s hs
  have hmem : ∀ a, a ∈ (others n s).take (q - 1) → a < n ∧ a ≠ s := by
    intro a ha
    have := List.mem_of_mem_take ha
    simp only [others, List.mem_filter, List.mem_range, bne_iff_ne] at this
    exact this
  refine ⟨?_, ?_, ?_⟩
  · simp only [completion, List.length_cons, List.length_take]; omega
  · refine List.nodup_cons.mpr ⟨fun h => (hmem s h).2 rfl, ?_⟩
    exact (List.take_sublist _ _).nodup ((List.nodup_range).filter _)
  · intro a ha
    rcases List.mem_cons.mp ha with h | h
    · subst h; exact hs
    · exact (hmem a h).1

namespace Flp
open Ops

/-- **forced starts (FLP)**: with `k ≤ n` starts, the forced first actions of instance `b` are pairwise
distinct, each is offered by the reset mask, and each extends to a complete feasible episode. -/
theorem forced_starts_ok (i : Inst) (hwf : WF i) (B k b : Nat) (hb : b < B) (hk : k ≤ i.n) :
    let sel := instStarts B k b (startsOf B k (envRule "flp" 0 i.n 0).1 (envRule "flp" 0 i.n 0).2)
    sel.Nodup ∧ ∀ s ∈ sel, s < env.nAct i ∧ env.mask i (env.reset i) s = true ∧
      ∃ as st, RunND env i (env.reset i) (s :: as) st ∧ env.done i st = true := by
  have hrule : envRule "flp" 0 i.n 0 = (0, i.n) := (envRule_table 0 i.n 0).2.2.1
  simp only [hrule]
  refine ⟨starts_distinct B k 0 i.n b hb hk, fun s hs => ?_⟩
  have hrange : s < i.n := by
    rw [starts_prefix B k 0 i.n b hb hk] at hs
    simp only [List.mem_map, List.mem_range] at hs
    obtain ⟨j, hj, rfl⟩ := hs; omega
  refine ⟨hrange, rfl, ?_⟩
  obtain ⟨h1, h2, h3⟩ := completion_spec i.n s i.quota.toNat hrange (by have := hwf.1; omega) (by have := hwf.2; omega)
  have hf : Spec.Flp.Feasible i (completion i.n s i.quota.toNat) :=
    ⟨by rw [h1]; have := hwf.1; omega, h2, h3⟩
  obtain ⟨st, hr, hd⟩ := run_of_feasible i hwf hf
  exact ⟨_, st, hr, hd⟩

end Flp

namespace Mcp
open Ops

/-- **forced starts (MCP)** -/
theorem forced_starts_ok (i : Inst) (hwf : WF i) (B k b : Nat) (hb : b < B) (hk : k ≤ i.nSets) :
    let sel := instStarts B k b (startsOf B k (envRule "mcp" 0 i.nSets 0).1 (envRule "mcp" 0 i.nSets 0).2)
    sel.Nodup ∧ ∀ s ∈ sel, s < env.nAct i ∧ env.mask i (env.reset i) s = true ∧
      ∃ as st, RunND env i (env.reset i) (s :: as) st ∧ env.done i st = true := by
  have hrule : envRule "mcp" 0 i.nSets 0 = (0, i.nSets) := (envRule_table 0 i.nSets 0).2.2.2.1
  simp only [hrule]
  refine ⟨starts_distinct B k 0 i.nSets b hb hk, fun s hs => ?_⟩
  have hrange : s < i.nSets := by
    rw [starts_prefix B k 0 i.nSets b hb hk] at hs
    simp only [List.mem_map, List.mem_range] at hs
    obtain ⟨j, hj, rfl⟩ := hs; omega
  refine ⟨hrange, rfl, ?_⟩
  obtain ⟨h1, h2, h3⟩ := completion_spec i.nSets s i.quota.toNat hrange (by have := hwf.1; omega) (by have := hwf.2; omega)
  have hf : Spec.Mcp.Feasible i (completion i.nSets s i.quota.toNat) :=
    ⟨by rw [h1]; have := hwf.1; omega, h2, h3⟩
  obtain ⟨st, hr, hd⟩ := run_of_feasible i hwf hf
  exact ⟨_, st, hr, hd⟩

end Mcp

namespace Dpp
open Ops

/-- the rule DPP / MDPP fall under (no override, generator without `num_loc`): cells `1 … k` -/
theorem rule : envRule "dpp" 0xFFFFFFFF 0 0 = (1, 0xFFFFFFFF) ∧ envRule "mdpp" 0xFFFFFFFF 0 0 = (1, 0xFFFFFFFF) := by
  simp [envRule, genericRule, Params.opsNoDepotStartEnvs]

/-- a forced start of DPP / MDPP that the reset mask does not offer: whenever one of the cells `1 … k`
is a keep-out cell or a probing port, it is forced nevertheless -/
theorem forced_start_not_offered (i : Inst) (B k b : Nat) (hb : b < B) (hk : k ≤ 0xFFFFFFFF)
    (a : Nat) (ha : 1 ≤ a) (hak : a < 1 + k) (hmask : env.mask i (env.reset i) a = false) :
    ∃ s ∈ instStarts B k b (startsOf B k 1 0xFFFFFFFF), env.mask i (env.reset i) s = false :=
  start_infeasible_of_mask B k 1 0xFFFFFFFF b hb hk (env.mask i (env.reset i)) a ha hak hmask

/-- with the default number of starts (`get_num_starts` = number of cells `n`) the last forced start is
the cell index `n`, outside the action range `0 … n-1` -/
theorem default_start_out_of_range (n B b : Nat) (hb : b < B) (hn : 0 < n) (hle : n ≤ 0xFFFFFFFF) :
    n ∈ instStarts B n b (startsOf B n 1 0xFFFFFFFF) := by
  rw [starts_prefix B n 1 0xFFFFFFFF b hb hle]
  simp only [List.mem_map, List.mem_range]
  exact ⟨n - 1, by omega, by omega⟩

example : getNumStarts "dpp" 9 = 9 := by decide

end Dpp
end Rl4co
