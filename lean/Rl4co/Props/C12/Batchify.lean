/-
C12 — replicated rollouts keep their instance: the layout laws of `batchify` / `unbatchify`
(`rl4co/utils/ops.py`) for every batch size, every replication factor and every nesting of factors.

* `batchify_row`          row `r` of `batchify x (k₁,…,kₘ)` is row `r % B` of `x`
* `unbatchify_layout`     exact index law of `unbatchify` (first factor = fastest copy digit)
* `unbatchify_instance`   regrouping keeps every row with its instance, bijectively
* `unbatchify_batchify`   expansion followed by its inverse is the identity
* `rearrange_unbatchify`  the AM decoder's `unbatchify` … `rearrange "b s l -> (s b) l"` round trip
* `unbatchifyAndGather_get` `unbatchify_and_gather(x, idx, k)[b] = x[idx b · B + b]`
No Mathlib needed.
-/
import Rl4co.Train.Batchify
namespace Rl4co.Ops
variable {α : Type}

theorem batchify_cons (x : Tens α) (k : Nat) (ks : List Nat) :
    batchify x (k :: ks) = batchifyStep (batchify x ks) k := by
  simp [batchify, loopOrder, Params.opsLoopsReversed, List.foldl_append]

theorem unbatchify_cons (x : Tens α) (k : Nat) (ks : List Nat) :
    unbatchify x (k :: ks) = unbatchifyStep (unbatchify x ks) k := by
  simp [unbatchify, loopOrder, Params.opsLoopsReversed, List.foldl_append]

@[simp] theorem batchify_nil (x : Tens α) : batchify x [] = x := rfl
@[simp] theorem unbatchify_nil (x : Tens α) : unbatchify x [] = x := rfl

theorem batchifySingle_shape (x : Tens α) (k n : Nat) (rest : List Nat) (h : x.shape = n :: rest) :
    (batchifySingle x k).shape = (n * k) :: rest := by
  simp [batchifySingle, h]

theorem batchifySingle_get (x : Tens α) (k n : Nat) (rest : List Nat) (h : x.shape = n :: rest)
    (r : Nat) (t : List Nat) : (batchifySingle x k).get (r :: t) = x.get ((r % n) :: t) := by
  simp [batchifySingle, h]

theorem mult_pos (ks : List Nat) : 0 < mult ks := by
  induction ks with
  | nil => simp [mult]
  | cons k ks ih =>
    simp only [mult]
    split
    · exact Nat.mul_pos (by assumption) ih
    · simpa using ih

/-- **C12 `batchify_row`** (any nesting, zero factors skipped as in the code). -/
theorem batchify_row (ks : List Nat) (x : Tens α) (B : Nat) (rest : List Nat)
    (h : x.shape = B :: rest) :
    (batchify x ks).shape = (B * mult ks) :: rest ∧
    ∀ r t, r < B * mult ks → (batchify x ks).get (r :: t) = x.get ((r % B) :: t) := by
  induction ks with
  | nil =>
    refine ⟨by simp [mult, h], ?_⟩
    intro r t hr
    simp [mult] at hr
    simp [Nat.mod_eq_of_lt hr]
  | cons k ks ih =>
    obtain ⟨ihs, ihg⟩ := ih
    rw [batchify_cons]
    by_cases hk : k > 0
    · simp only [batchifyStep, hk, if_true, mult]
      refine ⟨?_, ?_⟩
      · rw [batchifySingle_shape _ _ _ _ ihs]
        congr 1
        rw [Nat.mul_assoc, Nat.mul_comm (mult ks) k]
      · intro r t hr
        rw [batchifySingle_get _ _ _ _ ihs]
        have hpos : 0 < B * mult ks := by
          rcases Nat.eq_zero_or_pos (B * mult ks) with h0 | h0
          · rw [← Nat.mul_assoc, Nat.mul_comm B k, Nat.mul_assoc, h0] at hr; simp at hr
          · exact h0
        rw [ihg _ _ (Nat.mod_lt _ hpos)]
        rw [Nat.mod_mul_right_mod]
    · have hk0 : k = 0 := by omega
      subst hk0
      simp only [batchifyStep, mult]
      simpa using ⟨ihs, ihg⟩


theorem unbatchifySingle_shape (x : Tens α) (k n : Nat) (rest : List Nat) (h : x.shape = n :: rest) :
    (unbatchifySingle x k).shape = (n / k) :: k :: rest := by
  simp [unbatchifySingle, h]

theorem unbatchifySingle_get (x : Tens α) (k n : Nat) (rest : List Nat) (h : x.shape = n :: rest)
    (b j : Nat) (t : List Nat) :
    (unbatchifySingle x k).get (b :: j :: t) = x.get ((j * (n / k) + b) :: t) := by
  simp [unbatchifySingle, h]

/-- product of strictly positive factors -/
def prod : List Nat → Nat
  | [] => 1
  | k :: ks => k * prod ks

/-- **C12 `unbatchify_layout`**: the exact index law of `unbatchify`, any nesting.
For `y : [B·k₁·…·kₘ, …]`, entry `[b][j₁]…[jₘ]` of `unbatchify y (k₁,…,kₘ)` is row
`b + B·(j₁ + k₁·(j₂ + k₂·(…)))` of `y` (first factor varies fastest among the copies). -/
theorem unbatchify_layout (ks : List Nat) (hpos : ∀ k ∈ ks, 0 < k) (y : Tens α) (B : Nat)
    (rest : List Nat) (h : y.shape = (B * prod ks) :: rest) :
    (unbatchify y ks).shape = B :: (ks ++ rest) ∧
    ∀ b js t, js.length = ks.length →
      (unbatchify y ks).get (b :: (js ++ t)) = y.get ((b + B * mixedRadix js ks) :: t) := by
  induction ks generalizing B with
  | nil =>
    refine ⟨by simp [prod] at h; simp [h], ?_⟩
    intro b js t hl
    have : js = [] := by simpa using hl
    subst this
    simp [mixedRadix]
  | cons k ks ih =>
    have hk : 0 < k := hpos k (by simp)
    have hpos' : ∀ k' ∈ ks, 0 < k' := fun k' hk' => hpos k' (by simp [hk'])
    have h' : y.shape = (B * k * prod ks) :: rest := by
      rw [h]; simp [prod, Nat.mul_assoc]
    obtain ⟨ihs, ihg⟩ := ih hpos' (B * k) h'
    rw [unbatchify_cons]
    simp only [unbatchifyStep, hk, if_true]
    refine ⟨?_, ?_⟩
    · rw [unbatchifySingle_shape _ _ _ _ ihs]
      simp [Nat.mul_div_cancel _ hk]
    · intro b js t hl
      match js, hl with
      | j :: js', hl =>
        have hl' : js'.length = ks.length := by simpa using hl
        show (unbatchifySingle (unbatchify y ks) k).get (b :: j :: (js' ++ t)) = _
        rw [unbatchifySingle_get _ _ _ _ ihs, ihg _ _ _ hl', Nat.mul_div_cancel _ hk]
        simp only [mixedRadix]
        congr 2
        rw [Nat.mul_add, ← Nat.mul_assoc B k, Nat.mul_comm j B]
        omega

theorem unbatchify_layout2 (y : Tens α) (B a s : Nat) (ha : 0 < a) (hs : 0 < s) (rest : List Nat)
    (h : y.shape = (B * (a * s)) :: rest) (b i j : Nat) (t : List Nat) :
    (unbatchify y [a, s]).get (b :: i :: j :: t) = y.get ((j * (a * B) + i * B + b) :: t) := by
  have hp : ∀ k ∈ [a, s], 0 < k := by
    intro k hk; simp at hk; rcases hk with rfl | rfl <;> assumption
  have := (unbatchify_layout [a, s] hp y B rest (by simp [prod, h])).2 b [i, j] t rfl
  simp only [List.cons_append, List.nil_append] at this
  rw [this]
  simp only [mixedRadix]
  congr 2
  simp only [Nat.mul_zero, Nat.add_zero, Nat.mul_add]
  rw [Nat.mul_comm i B, Nat.mul_comm j (a * B), Nat.mul_comm a B, Nat.mul_assoc B a j]
  omega


/-- digits `js` are within the factors `ks` -/
def Digits : List Nat → List Nat → Prop
  | [], [] => True
  | j :: js, k :: ks => j < k ∧ Digits js ks
  | _, _ => False

theorem Digits.length {js ks : List Nat} (h : Digits js ks) : js.length = ks.length := by
  induction js generalizing ks with
  | nil => cases ks <;> simp_all [Digits]
  | cons j js ih =>
    cases ks with
    | nil => simp [Digits] at h
    | cons k ks => simp [Digits] at h; simp [ih h.2]

theorem mixedRadix_lt {js ks : List Nat} (h : Digits js ks) : mixedRadix js ks < prod ks := by
  induction js generalizing ks with
  | nil => cases ks <;> simp_all [Digits, mixedRadix, prod]
  | cons j js ih =>
    cases ks with
    | nil => simp [Digits] at h
    | cons k ks =>
      simp only [Digits] at h
      have := ih h.2
      simp only [mixedRadix, prod]
      calc j + k * mixedRadix js ks < k + k * mixedRadix js ks := by omega
        _ = k * (mixedRadix js ks + 1) := by rw [Nat.mul_add, Nat.mul_one, Nat.add_comm]
        _ ≤ k * prod ks := Nat.mul_le_mul_left k this

theorem mixedRadix_inj {js js' ks : List Nat} (h : Digits js ks) (h' : Digits js' ks)
    (he : mixedRadix js ks = mixedRadix js' ks) : js = js' := by
  induction js generalizing js' ks with
  | nil =>
    cases ks with
    | nil => cases js' <;> simp_all [Digits]
    | cons k ks => simp [Digits] at h
  | cons j js ih =>
    cases ks with
    | nil => simp [Digits] at h
    | cons k ks =>
      cases js' with
      | nil => simp [Digits] at h'
      | cons j' js' =>
        simp only [Digits] at h h'
        simp only [mixedRadix] at he
        have h1 : (j + k * mixedRadix js ks) % k = (j' + k * mixedRadix js' ks) % k := by rw [he]
        rw [Nat.add_mul_mod_self_left, Nat.add_mul_mod_self_left, Nat.mod_eq_of_lt h.1,
          Nat.mod_eq_of_lt h'.1] at h1
        subst h1
        have h2 : k * mixedRadix js ks = k * mixedRadix js' ks := by omega
        have hk : 0 < k := by omega
        have h3 := Nat.eq_of_mul_eq_mul_left hk h2
        rw [ih h.2 h'.2 h3]

/-- **C12 `unbatchify_instance`**: regrouping puts every row into the group of its instance
(`row % B`), loses no row and duplicates none (the digit ↦ row map is injective and in range). -/
theorem unbatchify_instance (ks : List Nat) (hpos : ∀ k ∈ ks, 0 < k) (y : Tens α) (B : Nat)
    (rest : List Nat) (h : y.shape = (B * prod ks) :: rest) (b : Nat) (hb : b < B) (js : List Nat)
    (hd : Digits js ks) (t : List Nat) :
    ∃ r, r < B * prod ks ∧ r % B = b ∧ r / B = mixedRadix js ks ∧
      (unbatchify y ks).get (b :: (js ++ t)) = y.get (r :: t) := by
  refine ⟨b + B * mixedRadix js ks, ?_, ?_, ?_, (unbatchify_layout ks hpos y B rest h).2 b js t hd.length⟩
  · have := mixedRadix_lt hd
    calc b + B * mixedRadix js ks < B + B * mixedRadix js ks := by omega
      _ = B * (mixedRadix js ks + 1) := by rw [Nat.mul_add, Nat.mul_one, Nat.add_comm]
      _ ≤ B * prod ks := Nat.mul_le_mul_left B this
  · rw [Nat.add_mul_mod_self_left, Nat.mod_eq_of_lt hb]
  · rw [Nat.add_mul_div_left _ _ (by omega : 0 < B), Nat.div_eq_of_lt hb, Nat.zero_add]

theorem mult_eq_prod (ks : List Nat) (hpos : ∀ k ∈ ks, 0 < k) : mult ks = prod ks := by
  induction ks with
  | nil => rfl
  | cons k ks ih =>
    have hk : 0 < k := hpos k (by simp)
    simp only [mult, prod, hk, if_true]
    rw [ih (fun k' hk' => hpos k' (by simp [hk']))]

/-- **C12 `unbatchify_batchify`**: expansion followed by its inverse is the identity — every copy
slice `[·][j₁]…[jₘ]` of `unbatchify (batchify x ks) ks` is `x` itself (any nesting). -/
theorem unbatchify_batchify (ks : List Nat) (hpos : ∀ k ∈ ks, 0 < k) (x : Tens α) (B : Nat)
    (rest : List Nat) (h : x.shape = B :: rest) :
    (unbatchify (batchify x ks) ks).shape = B :: (ks ++ rest) ∧
    ∀ b js t, b < B → Digits js ks →
      (unbatchify (batchify x ks) ks).get (b :: (js ++ t)) = x.get (b :: t) := by
  obtain ⟨hs, hg⟩ := batchify_row ks x B rest h
  rw [mult_eq_prod ks hpos] at hs hg
  refine ⟨(unbatchify_layout ks hpos _ B rest hs).1, ?_⟩
  intro b js t hb hd
  obtain ⟨r, hr, hm, _, he⟩ := unbatchify_instance ks hpos _ B rest hs b hb js hd t
  rw [he, hg r t hr, hm]

/-- factors `0` are skipped by both loops (`… if s > 0 else x`), e.g. POMO's `(n_aug = 0, n_start)` -/
theorem unbatchify_skip_zero (x : Tens α) (ks : List Nat) :
    unbatchify x ks = unbatchify x (ks.filter (· > 0)) := by
  induction ks with
  | nil => rfl
  | cons k ks ih =>
    by_cases hk : k > 0
    · simp only [hk, decide_true, List.filter_cons_of_pos]
      rw [unbatchify_cons, unbatchify_cons, ih]
    · have : decide (k > 0) = false := by simpa using hk
      rw [List.filter_cons_of_neg (by simpa using hk), unbatchify_cons, ← ih]
      simp [unbatchifyStep, hk]

theorem batchify_skip_zero (x : Tens α) (ks : List Nat) :
    batchify x ks = batchify x (ks.filter (· > 0)) := by
  induction ks with
  | nil => rfl
  | cons k ks ih =>
    by_cases hk : k > 0
    · simp only [hk, decide_true, List.filter_cons_of_pos]
      rw [batchify_cons, batchify_cons, ih]
    · rw [List.filter_cons_of_neg (by simpa using hk), batchify_cons, ← ih]
      simp [batchifyStep, hk]

/-- **AM decoder cache regrouping**: `rearrange(f(unbatchify(td, S)), "b s … -> (s b) …")` puts
the value computed for row `r` back at row `r` (`unbatchify` then flatten-back is the identity). -/
theorem rearrange_unbatchify (y : Tens α) (B S : Nat) (hS : 0 < S) (rest : List Nat)
    (h : y.shape = (B * S) :: rest) :
    (rearrangeSB (unbatchify y [S])).shape = (S * B) :: rest ∧
    ∀ r t, (rearrangeSB (unbatchify y [S])).get (r :: t) = y.get (r :: t) := by
  have hu : unbatchify y [S] = unbatchifySingle y S := by
    simp [unbatchify, loopOrder, unbatchifyStep, hS]
  have hs := unbatchifySingle_shape y S _ _ h
  rw [Nat.mul_div_cancel _ hS] at hs
  rw [hu]
  refine ⟨by simp [rearrangeSB, hs], ?_⟩
  intro r t
  simp only [rearrangeSB, hs]
  rw [unbatchifySingle_get _ _ _ _ h, Nat.mul_div_cancel _ hS, Nat.div_add_mod']

/-- `unbatchify_and_gather(x, idx, k)[b] = x[idx b · B + b]` -/
theorem unbatchifyAndGather_get (x : Tens α) (B k : Nat) (hk : 0 < k) (rest : List Nat)
    (h : x.shape = (B * k) :: rest) (idx : Nat → Nat) :
    (unbatchifyAndGather x idx k).shape = B :: rest ∧
    ∀ b t, (unbatchifyAndGather x idx k).get (b :: t) = x.get ((idx b * B + b) :: t) := by
  have hu : unbatchify x [k] = unbatchifySingle x k := by
    simp [unbatchify, loopOrder, unbatchifyStep, hk]
  have hs := unbatchifySingle_shape x k _ _ h
  rw [Nat.mul_div_cancel _ hk] at hs
  simp only [unbatchifyAndGather, hu, gatherDim1, hs]
  refine ⟨trivial, ?_⟩
  intro b t
  rw [unbatchifySingle_get _ _ _ _ h, Nat.mul_div_cancel _ hk]



/-! ### TensorDicts (nested keys), AM decoder, `gather_by_index` -/

/-- **C12 `batchifyTD_row`**: for a TensorDict, at EVERY key path (nested entries included), row `r` of the
expansion is row `r % B` of the original. -/
theorem batchifyTD_row (ks : List Nat) (td : TD α) (B : Nat) (rest : List String → List Nat)
    (h : ∀ path, (td path).shape = B :: rest path) (path : List String) :
    ((batchifyTD td ks) path).shape = (B * mult ks) :: rest path ∧
    ∀ r t, r < B * mult ks → ((batchifyTD td ks) path).get (r :: t) = (td path).get ((r % B) :: t) :=
  batchify_row ks (td path) B (rest path) (h path)

/-- **C12 `unbatchifyTD_batchifyTD`**: expansion followed by its inverse is the identity at every key path. -/
theorem unbatchifyTD_batchifyTD (ks : List Nat) (hpos : ∀ k ∈ ks, 0 < k) (td : TD α) (B : Nat)
    (rest : List String → List Nat) (h : ∀ path, (td path).shape = B :: rest path) (path : List String) :
    ((unbatchifyTD (batchifyTD td ks) ks) path).shape = B :: (ks ++ rest path) ∧
    ∀ b js t, b < B → Digits js ks →
      ((unbatchifyTD (batchifyTD td ks) ks) path).get (b :: (js ++ t)) = (td path).get (b :: t) :=
  unbatchify_batchify ks hpos (td path) B (rest path) (h path)

/-- **AM decoder, static embeddings** (with the extracted `unbatchify(td, num_starts)` and
`"b s l -> (s b) l"`): what is computed for row `r` of the regrouped state lands at row `r` again. -/
theorem am_static_roundtrip (y : Tens α) (B S : Nat) (hS : 0 < S) (rest : List Nat)
    (h : y.shape = (B * S) :: rest) :
    (amFlatten (amRegroup y S)).shape = (S * B) :: rest ∧
    ∀ r t, (amFlatten (amRegroup y S)).get (r :: t) = y.get (r :: t) := by
  simp only [amFlatten, amRegroup, Params.amFlattenReplicaMajor, Params.amStaticUnbatchify, if_true]
  exact rearrange_unbatchify y B S hS rest h

/-- **AM decoder, dynamic embeddings**: the cache row that meets state row `r` of the `S`-fold expanded
batch is the cache of instance `r % B` — the same law as the state's own expansion (`batchify_row`). -/
theorem am_dynamic_pairing (c : Tens α) (B S : Nat) (hS : 0 < S) (rest : List Nat) (h : c.shape = B :: rest) :
    (cacheBatchify c S).shape = (B * S) :: rest ∧
    ∀ r t, r < B * S → (cacheBatchify c S).get (r :: t) = c.get ((r % B) :: t) := by
  have := batchify_row [S] c B rest h
  simp only [mult, hS, if_true, Nat.mul_one] at this
  simpa [cacheBatchify, Params.amCacheUsesBatchify] using this

theorem replicateSite_pairing (x : Tens α) (B S : Nat) (hS : 0 < S) (rest : List Nat) (h : x.shape = B :: rest) :
    (replicateSite true x S).shape = (B * S) :: rest ∧
    ∀ r t, r < B * S → (replicateSite true x S).get (r :: t) = x.get ((r % B) :: t) := by
  have := batchify_row [S] x B rest h
  simp only [mult, hS, if_true, Nat.mul_one] at this
  simpa [replicateSite] using this

/-- **C12 `zoo_replication_pairing`**: every multi-start replication site of the policy zoo outside the AM decoder
(L2D's encoder embeddings, the non-autoregressive heat-map index, MatNet/FFSP's state, EAS's state) expands
start-major like the decoding state itself: the row that meets state row `r` belongs to instance `r % B`. -/
theorem zoo_replication_pairing (x : Tens α) (B S : Nat) (hS : 0 < S) (rest : List Nat) (h : x.shape = B :: rest) :
    (∀ r t, r < B * S → (l2dHidden x S).get (r :: t) = x.get ((r % B) :: t)) ∧
    (∀ r t, r < B * S → (narIndex x S).get (r :: t) = x.get ((r % B) :: t)) ∧
    (∀ r t, r < B * S → (matnetTd x S).get (r :: t) = x.get ((r % B) :: t)) ∧
    (∀ r t, r < B * (S + 1) → (easTd x S).get (r :: t) = x.get ((r % B) :: t)) := by
  refine ⟨?_, ?_, ?_, ?_⟩
  · simpa [l2dHidden, Params.l2dHiddenUsesBatchify] using (replicateSite_pairing x B S hS rest h).2
  · simpa [narIndex, Params.narIndexUsesBatchify] using (replicateSite_pairing x B S hS rest h).2
  · simpa [matnetTd, Params.matnetTdUsesBatchify] using (replicateSite_pairing x B S hS rest h).2
  · simpa [easTd, Params.easTdUsesBatchify] using (replicateSite_pairing x B (S + 1) (by omega) rest h).2

/-- the instance-major form pairs state row `r` (instance `r % B`) with the embeddings of instance `r / S`:
two instances, two starts — row 1 (instance 1) meets instance 0's embeddings -/
theorem replicateSite_instance_major_mismatch :
    (replicateSite false (iota 2) 2).flat = [0, 0, 1, 1] ∧ (replicateSite true (iota 2) 2).flat = [0, 1, 0, 1] := by
  decide

/-- **`gather_by_index`, when the step dimension survives**: for `src : [B, N, …]`, `idx : [B, S]` the result is
`[B, S, …]` with `[b][s] = src[b][idx b s]` iff `S ≠ 1` or `squeeze = False` … -/
theorem gatherIdx_step_survives (src : Tens α) (B N S : Nat) (rest : List Nat) (h : src.shape = B :: N :: rest)
    (idx : Nat → Nat → Nat) (squeeze : Bool) (hs : S ≠ 1 ∨ squeeze = false) :
    (gatherIdx src S idx squeeze).shape = B :: S :: rest ∧
    ∀ b s t, (gatherIdx src S idx squeeze).get (b :: s :: t) = src.get (b :: idx b s :: t) := by
  have hc : ((S == Params.opsGatherSqueezeSize) && squeeze) = false := by
    rcases hs with hs | hs
    · simp [Params.opsGatherSqueezeSize, hs]
    · simp [hs]
  simp [gatherIdx, h, hc]

/-- … and a single step with `squeeze = True` LOSES it: the result is `[B, …]`. -/
theorem gatherIdx_step_lost (src : Tens α) (B N : Nat) (rest : List Nat) (h : src.shape = B :: N :: rest)
    (idx : Nat → Nat → Nat) :
    (gatherIdx src 1 idx true).shape = B :: rest ∧
    ∀ b t, (gatherIdx src 1 idx true).get (b :: t) = src.get (b :: idx b 0 :: t) := by
  simp [gatherIdx, h, Params.opsGatherSqueezeSize]

/-- the default call (`squeeze=True`, `dim=1`) on a one-step index therefore drops the step dimension (the root
of upstream fix f2d5960); passing `squeeze=False` keeps it for every `S` -/
theorem gatherIdx_default_one_step (src : Tens α) (B N : Nat) (rest : List Nat) (h : src.shape = B :: N :: rest)
    (idx : Nat → Nat → Nat) :
    (gatherIdxDefault src 1 idx).shape = B :: rest ∧
    ∀ S, (gatherIdx src S idx false).shape = B :: S :: rest := by
  refine ⟨?_, fun S => (gatherIdx_step_survives src B N S rest h idx false (Or.inr rfl)).1⟩
  simp only [gatherIdxDefault, Params.opsGatherDimDefault, Params.opsGatherSqueezeDefault]
  exact (gatherIdx_step_lost src B N rest h idx).1

/-! ### non-vacuity: the hypotheses are satisfiable and the laws are the ones observed on the code -/

example : (batchify (iota 2) [2, 3]).flat = [0, 1, 0, 1, 0, 1, 0, 1, 0, 1, 0, 1] := by decide
example : (iota 2).shape = 2 :: [] := rfl
example : ∀ k ∈ [2, 3], 0 < k := by decide
example : (iota 12).shape = (2 * prod [2, 3]) :: [] := by decide
example : Digits [1, 2] [2, 3] := by simp [Digits]
/-- `unbatchify (0..11) (2,3)` is `[B=2][a=2][s=3]` with entry `[b][i][j] = j·4 + i·2 + b` -/
example : (unbatchify (iota 12) [2, 3]).flat = [0, 4, 8, 2, 6, 10, 1, 5, 9, 3, 7, 11] := by decide
example : (unbatchify (iota 12) [2, 3]).shape = [2, 2, 3] := by decide
example : (unbatchify (batchify (iota 2) [2, 3]) [2, 3]).flat = [0, 0, 0, 0, 0, 0, 1, 1, 1, 1, 1, 1] := by
  decide
example : (unbatchify (iota 6) [0, 3]).flat = (unbatchify (iota 6) [3]).flat := by decide
example : (rearrangeSB (unbatchify (iota 6) [3])).flat = (iota 6).flat := by decide

end Rl4co.Ops
