/-
C20 — translator tie.  The driver executes the "as coded" definitions of `Rl4co/Train/Coded.lean`, whose
decision-critical tokens are regenerated from the Python AST on every run (`Rl4co.Generated.Params`,
`harness/probes/train.py`).  The obligations `…C_eq` below hold for the extracted tokens only: a source edit that
changes the flattening order of `RewardScaler.update`, one of Welford's four statements, `count - 1`, the
moving-average recurrence or its first-evaluation test, the warm-up comparison `epoch < n_epochs`, the weight
`(epoch + 1) / n_epochs` or the mixture stops this file from compiling.  The corollaries restate the C20 theorems
for the as-coded definitions (in particular: for score tensors of ANY shape, `lead` being arbitrary).
-/
import Rl4co.Train.Coded
import Rl4co.Props.C20.TrainWelford
import Rl4co.Props.C20.TrainBaselines

namespace Rl4co.Train
open Rl4co.Spec.Train
variable {K : Type} [Field K]

/-! ### obligations (token-dependent) -/

/-- `RewardScaler.update` as coded is the reference batched Welford update, whatever the shape of the tensor
(`lead = len(batch)` is irrelevant because the batch is flattened before it is counted). -/
theorem Welford.updateC_eq (lead : Nat) (st : Welford.St K) (b : List K) :
    Welford.updateC lead st b = Welford.update st b := rfl

theorem Welford.varianceC_eq (st : Welford.St K) : Welford.varianceC st = Welford.variance st := rfl

theorem Welford.callC_eq (sq : K → K) (eps : K) (mode : Welford.Mode K) (lead : Nat) (st : Welford.St K) (b : List K) :
    Welford.callC sq eps mode lead st b = Welford.call sq eps mode st b := by
  cases mode <;> rfl

section dec
variable [DecidableEq K]

theorem Ema.stepC_eq (beta : K) (v : Option K) (m : K) : Ema.stepC beta v m = Ema.step beta v m := by
  cases v <;> rfl

theorem Ema.evalC_eq (beta : K) (v : Option K) (R : Ten (Dual K)) : Ema.evalC beta v R = Ema.eval beta v R := by
  cases v <;> rfl

omit [DecidableEq K] in
theorem Warmup.epochCallbackC_eq (st : Warmup.St K) (e : Nat) :
    Warmup.epochCallbackC st e = Warmup.epochCallback st e := by
  simp [Warmup.epochCallbackC, Warmup.epochCallback, Params.trainWarmupCmp, Params.trainWarmupAlphaTag, Cmp.evalNat]

omit [DecidableEq K] in
/-- the warm-up baseline stores the configured horizon and gives its moving average the configured decay -/
theorem Warmup.configC_eq (n : Nat) (beta d : K) : Warmup.configC n beta d = (n, beta) := rfl

/-- `get_reinforce_baseline('rollout', n_epochs=…, exp_beta=…)` passes both options on to the warm-up baseline -/
theorem rollout_kwargs_passed : Params.trainRolloutKwPassed = true := rfl

theorem Warmup.evalC_eq (beta : K) (st : Warmup.St K) (inner : Ten (Dual K) × Dual K) (R : Ten (Dual K)) :
    Warmup.evalC beta st inner R = Warmup.eval beta st inner R := by
  unfold Warmup.evalC Warmup.eval
  cases Warmup.branch st <;> simp [Ema.evalC_eq, Params.trainWarmupMixTag, Params.trainWarmupLossMixTag] <;> rfl

end dec

/-! ### the C20 theorems for the as-coded definitions -/

/-- a history of score tensors: each given by `len(tensor)` and its entries in row-major order -/
def Welford.runC (st : Welford.St K) (hist : List (Nat × List K)) : Welford.St K :=
  hist.foldl (fun st p => Welford.updateC p.1 st p.2) st

theorem Welford.runC_eq (st : Welford.St K) (hist : List (Nat × List K)) :
    Welford.runC st hist = Welford.run st (hist.map (·.2)) := by
  induction hist generalizing st with
  | nil => rfl
  | cons p ps ih => simp only [Welford.runC, List.foldl_cons, List.map_cons, Welford.run, Welford.updateC_eq] at ih ⊢; exact ih _

/-- **C20 `welford_exact`, as coded, any tensor shapes.**  After any history of score tensors of any shapes
(0-d, `[B]`, `[B,S]`, … — `lead` arbitrary) the statistics are count, mean and sum of squared deviations of every
ENTRY observed. -/
theorem Welford.welford_exact_coded [CharZero K] (hist : List (Nat × List K)) :
    let st := Welford.runC (Welford.init : Welford.St K) hist
    let xs := (hist.map (·.2)).flatten
    st.count = xs.length ∧ (xs ≠ [] → st.mean = mean xs ∧ st.M2 = sumSqDev xs) := by
  rw [Welford.runC_eq]; exact Welford.welford_exact (hist.map (·.2))

/-- **C20 `scale_norm` / `scale_scale`, as coded.** -/
theorem Welford.scale_norm_coded [CharZero K] (sq : K → K) (eps : K) (hist : List (Nat × List K)) (lead : Nat)
    (b : List K) (hN : 2 ≤ ((hist.map (·.2)).flatten ++ b).length) :
    (Welford.callC sq eps Welford.Mode.norm lead (Welford.runC Welford.init hist) b).2
      = b.map (fun x => (x - mean ((hist.map (·.2)).flatten ++ b))
                          / (sq (sampleVar ((hist.map (·.2)).flatten ++ b)) + eps)) := by
  rw [Welford.callC_eq, Welford.runC_eq]; exact Welford.scale_norm sq eps _ b hN

theorem Welford.scale_scale_coded [CharZero K] (sq : K → K) (eps : K) (hist : List (Nat × List K)) (lead : Nat)
    (b : List K) (hN : 2 ≤ ((hist.map (·.2)).flatten ++ b).length) :
    (Welford.callC sq eps Welford.Mode.scale lead (Welford.runC Welford.init hist) b).2
      = b.map (fun x => x / (sq (sampleVar ((hist.map (·.2)).flatten ++ b)) + eps)) := by
  rw [Welford.callC_eq, Welford.runC_eq]; exact Welford.scale_scale sq eps _ b hN

section dec2
variable [DecidableEq K]

/-- **C20 `ema_first` / `ema_recurrence`, as coded** — in particular when the stored average is exactly 0 the
recurrence still applies (the first-evaluation test is `is None`, not truthiness). -/
theorem ema_coded (beta m : K) :
    Ema.stepC beta none m = m ∧ ∀ v, Ema.stepC beta (some v) m = beta * v + (1 - beta) * m :=
  ⟨by rw [Ema.stepC_eq]; rfl, fun v => by rw [Ema.stepC_eq]; rfl⟩

/-- callbacks of epochs `0 … e` in order, as coded -/
def Warmup.afterEpochC (n e : Nat) : Warmup.St K :=
  (List.range (e + 1)).foldl Warmup.epochCallbackC (Warmup.init n)

omit [DecidableEq K] in
theorem Warmup.afterEpochC_eq (n e : Nat) : (Warmup.afterEpochC n e : Warmup.St K) = Warmup.afterEpoch n e := by
  have : (Warmup.epochCallbackC : Warmup.St K → Nat → Warmup.St K) = Warmup.epochCallback := by
    funext st e; exact Warmup.epochCallbackC_eq st e
  simp [Warmup.afterEpochC, Warmup.afterEpoch, this]

omit [DecidableEq K] in
/-- **C20 `warmup_alpha`, as coded**: the weight after the callback of epoch `e` is `min 1 ((e+1)/n)` — it reaches
1 at epoch `n - 1` and stays there for every later epoch. -/
theorem warmup_alpha_coded [CharZero K] (n e : Nat) (hn : 0 < n) :
    (Warmup.afterEpochC n e : Warmup.St K).alpha = warmupAlpha n e := by
  rw [Warmup.afterEpochC_eq]; exact warmup_alpha n e hn

/-- **C20 `warmup_convex`, as coded.** -/
theorem warmup_convex_coded (beta : K) (st : Warmup.St K) (inner : Ten (Dual K) × Dual K) (R : Ten (Dual K))
    (out : Ten (Dual K) × Dual K × Warmup.St K) (h : Warmup.evalC beta st inner R = some out) (i j : Nat) :
    (out.1.f i j).v = st.alpha * (inner.1.get i j).v + (1 - st.alpha) * (Ema.evalC beta st.ema R).2.2
      ∨ (st.alpha = 1 ∧ out.1 = inner.1 ∧ out.2.1 = inner.2) := by
  rw [Warmup.evalC_eq] at h; rw [Ema.evalC_eq]; exact warmup_convex beta st inner R out h i j

end dec2

/-- Non-vacuity: a `[2,2]` score tensor after a 0-d one (`lead` 2 resp. 1 — never used): count 5. -/
example : (Welford.runC (Welford.init : Welford.St Rat) [(1, [3]), (2, [1, 2, 3, 4])]).count = 5 := by
  decide +kernel

end Rl4co.Train
