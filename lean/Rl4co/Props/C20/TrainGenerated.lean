/-
C20 on the definitions that `harness/pytrans.py` REGENERATES from the Python source on every run
(`Rl4co/Generated/Numeric.lean`: the statements of `RewardScaler.update` / `__call__`,
`ExponentialBaseline.eval`, `WarmupBaseline.epoch_callback` / `eval`, translated operator by operator).

Two layers:
* bridging lemmas `gen_*_eq`: each generated definition IS the hand-written model (`rfl`); they break at
  `lake build` as soon as the source formula is edited in any way the translator can express;
* the property itself restated and proved directly on the generated definitions
  (`gen_welford_exact`, `gen_scale_norm`, `gen_scale_scale`, `gen_ema_*`, `gen_warmup_*`), so that what
  C20 says is a theorem about the code's own formulas, not only about a model written by hand.
-/
import Rl4co.Generated.Numeric
import Rl4co.Props.C20.TrainWelford
import Rl4co.Props.C20.TrainBaselines

set_option linter.unusedTactic false
set_option linter.unusedSimpArgs false
set_option linter.unreachableTactic false

namespace Rl4co.Train.GenBridge
open Rl4co.Spec.Train
variable {K : Type} [Field K]

/-! ### Welford -/

/-- the generated `RewardScaler.update` is the hand-written `Welford.update` -/
theorem gen_update_eq (st : Welford.St K) (b : List K) :
    Numeric.welfordUpdate st.count st.mean st.M2 b
      = ((Welford.update st b).count, (Welford.update st b).mean, (Welford.update st b).M2) := by
  first
  | rfl
  -- fallback: equal up to associativity / commutativity / double negation, also under the binders of the list maps
  | (simp only [Numeric.welfordUpdate, Welford.update, List.map_map, Function.comp_def, sub_eq_add_neg, neg_add, neg_neg, add_comm, add_left_comm,
      add_assoc, mul_comm, mul_left_comm, mul_assoc])

/-- state `(count, mean, M2)` after a history of batches, folding the GENERATED update from
`RewardScaler.__init__`'s `(0, 0, 0)` -/
def genRun (batches : List (List K)) : Nat × K × K :=
  batches.foldl (fun s b => Numeric.welfordUpdate s.1 s.2.1 s.2.2 b) (0, 0, 0)

theorem genRun_eq_aux (batches : List (List K)) (st : Welford.St K) :
    batches.foldl (fun s b => Numeric.welfordUpdate s.1 s.2.1 s.2.2 b) (st.count, st.mean, st.M2)
      = ((Welford.run st batches).count, (Welford.run st batches).mean, (Welford.run st batches).M2) := by
  induction batches generalizing st with
  | nil => rfl
  | cons b bs ih =>
    simp only [List.foldl_cons, Welford.run]
    rw [gen_update_eq]
    exact ih (Welford.update st b)

theorem genRun_eq (batches : List (List K)) :
    genRun batches = ((Welford.run Welford.init batches).count, (Welford.run Welford.init batches).mean,
      (Welford.run Welford.init batches).M2) := by
  simpa [genRun, Welford.init] using genRun_eq_aux batches (Welford.init : Welford.St K)

/-- **C20 on the generated code, running statistics.**  After ANY list of batches (any sizes, empty batches
included) the regenerated `update` has counted every value, and — once a value has been seen — holds
their arithmetic mean and their sum of squared deviations from it. -/
theorem gen_welford_exact [CharZero K] (batches : List (List K)) :
    (genRun batches).1 = batches.flatten.length ∧
    (batches.flatten ≠ [] →
      (genRun batches).2.1 = mean batches.flatten ∧ (genRun batches).2.2 = sumSqDev batches.flatten) := by
  rw [genRun_eq]
  exact Welford.welford_exact (K := K) batches

/-- the generated scaling factor is the model's `factor`: `sq (M2 / (count − 1)) + eps` -/
theorem gen_factor_eq (sq : K → K) (eps : K) (st : Welford.St K) :
    Numeric.scalerFactor sq eps st.count st.M2 = Welford.factor sq eps st := by
  first
  | rfl
  | (simp only [Numeric.scalerFactor, Welford.factor, Welford.variance, sub_eq_add_neg, add_comm])

/-- the generated `'norm'` / `'scale'` branches are the model's output maps -/
theorem gen_norm_eq (sq : K → K) (eps : K) (st : Welford.St K) (b : List K) :
    Numeric.scalerNorm (Welford.update st b).mean (Welford.factor sq eps (Welford.update st b)) b
      = (Welford.call sq eps Welford.Mode.norm st b).2 := by
  simp [Numeric.scalerNorm, Welford.call, List.map_map, Function.comp_def]

theorem gen_scale_eq (sq : K → K) (eps : K) (st : Welford.St K) (b : List K) :
    Numeric.scalerScale (Welford.update st b).mean (Welford.factor sq eps (Welford.update st b)) b
      = (Welford.call sq eps Welford.Mode.scale st b).2 := by
  simp [Numeric.scalerScale, Welford.call]

/-- **C20 on the generated code, `scale='norm'`.**  Calling the scaler on scores `b` after any history:
update (generated), factor (generated), normalisation (generated) give
`(x − mean) / (sq(sample variance) + eps)` over ALL values observed so far, `b` included. -/
theorem gen_scale_norm [CharZero K] (sq : K → K) (eps : K) (batches : List (List K)) (b : List K)
    (hN : 2 ≤ (batches.flatten ++ b).length) :
    let s := genRun (batches ++ [b])
    Numeric.scalerNorm s.2.1 (Numeric.scalerFactor sq eps s.1 s.2.2) b
      = b.map (fun x => (x - mean (batches.flatten ++ b)) / (sq (sampleVar (batches.flatten ++ b)) + eps)) := by
  intro s
  have hs : s = genRun (batches ++ [b]) := rfl
  rw [genRun_eq] at hs
  have hst : Welford.run (Welford.init : Welford.St K) (batches ++ [b])
      = Welford.update (Welford.run Welford.init batches) b := by simp [Welford.run, List.foldl_append]
  rw [hs]
  simp only
  rw [gen_factor_eq, hst, gen_norm_eq]
  exact Welford.scale_norm sq eps batches b hN

/-- **C20 on the generated code, `scale='scale'`.** -/
theorem gen_scale_scale [CharZero K] (sq : K → K) (eps : K) (batches : List (List K)) (b : List K)
    (hN : 2 ≤ (batches.flatten ++ b).length) :
    let s := genRun (batches ++ [b])
    Numeric.scalerScale s.2.1 (Numeric.scalerFactor sq eps s.1 s.2.2) b
      = b.map (fun x => x / (sq (sampleVar (batches.flatten ++ b)) + eps)) := by
  intro s
  have hs : s = genRun (batches ++ [b]) := rfl
  rw [genRun_eq] at hs
  have hst : Welford.run (Welford.init : Welford.St K) (batches ++ [b])
      = Welford.update (Welford.run Welford.init batches) b := by simp [Welford.run, List.foldl_append]
  rw [hs]
  simp only
  rw [gen_factor_eq, hst, gen_scale_eq]
  exact Welford.scale_scale sq eps batches b hN

/-! ### Exponential moving average -/

/-- the generated first evaluation (`self.v is None`) is the model's step from the empty state on the batch mean -/
theorem gen_ema_first_eq (beta : K) (reward : List K) :
    Numeric.emaFirst reward = Ema.step beta none (mean reward) := by
  first
  | rfl
  | (simp only [Numeric.emaFirst, Ema.step, mean]; ring)

/-- the generated recurrence is the model's step on the batch mean -/
theorem gen_ema_step_eq (beta v : K) (reward : List K) :
    Numeric.emaStep beta v reward = Ema.step beta (some v) (mean reward) := by
  first
  | rfl
  | (simp only [Numeric.emaStep, Ema.step, mean]; ring)   -- an algebraically equal rewrite of the source keeps the proof

/-- moving average after a history of reward batches, folding the GENERATED formulas -/
def genEmaRun (beta : K) : Option K → List (List K) → Option K
  | v, [] => v
  | none, r :: rs => genEmaRun beta (some (Numeric.emaFirst r)) rs
  | some v, r :: rs => genEmaRun beta (some (Numeric.emaStep beta v r)) rs

theorem genEmaRun_eq (beta : K) (v : Option K) (rs : List (List K)) :
    genEmaRun beta v rs = Ema.run beta v (rs.map mean) := by
  induction rs generalizing v with
  | nil => cases v <;> rfl
  | cons r rs ih =>
    cases v with
    | none => simp only [genEmaRun, List.map_cons, Ema.run]; rw [ih, gen_ema_first_eq beta]
    | some v => simp only [genEmaRun, List.map_cons, Ema.run]; rw [ih, gen_ema_step_eq]

/-- **C20 on the generated code, exponential baseline.**  After a first batch `r0` and any further batches
`rs`, the regenerated recurrence yields `β^k·m₀ + (1−β)·Σ β^(k−1−i)·mᵢ` over the batch means (the closed
form of the stated recurrence). -/
theorem gen_ema_closed_form (beta : K) (r0 : List K) (rs : List (List K)) :
    genEmaRun beta none (r0 :: rs) = some (emaClosed beta (mean r0) (rs.map mean)) := by
  rw [genEmaRun_eq]
  exact ema_closed_form beta (mean r0) (rs.map mean)

/-! ### Warm-up -/

section warmup

/-- the generated weight is the one `Warmup.epochCallback` sets while `epoch < n_epochs` -/
theorem gen_warmup_alpha_eq [DecidableEq K] (st : Warmup.St K) (epoch : Nat) :
    (Warmup.epochCallback st epoch).alpha
      = if epoch < st.nEpochs then Numeric.warmupAlpha epoch st.nEpochs else st.alpha := by
  unfold Warmup.epochCallback
  split
  · first
    | rfl
    | (simp only [Numeric.warmupAlpha]; push_cast; ring)
  · rfl

/-- **C20 on the generated code, warm-up weight.**  With the callbacks of epochs `0..e` applied in order
the weight is `(e+1)/n` (the regenerated formula) while `e + 1 < n`, it is exactly `1` at `e + 1 = n` and stays `1`. -/
theorem gen_warmup_alpha [DecidableEq K] [CharZero K] (n e : Nat) (hn : 0 < n) :
    (Warmup.afterEpoch n e : Warmup.St K).alpha = if n ≤ e + 1 then 1 else Numeric.warmupAlpha e n := by
  rw [warmup_alpha n e hn]
  unfold warmupAlpha
  split
  · rfl
  · first
    | rfl
    | (simp only [Numeric.warmupAlpha]; push_cast; ring)

/-- the generated mixture is the elementwise operation of `Warmup.eval`'s `both` branch (values) -/
theorem gen_warmup_mix_eq (a : K) (x y l m : Dual K) :
    ((Dual.smul a x + Dual.smul (1 - a) y).v, (Dual.smul a l + Dual.smul (1 - a) m).v)
      = Numeric.warmupMix a x.v y.v l.v m.v := by
  first
  | rfl
  | (simp only [Numeric.warmupMix, Dual.add_v, Dual.smul_v, Prod.mk.injEq]; constructor <;> first | trivial | rfl | ring)

/-- **C20 on the generated code, convex combination.**  The regenerated mixture is `α·v_b + (1−α)·v_wb`
(and the same for the losses); its weights `α`, `1−α` sum to one, and for `0 ≤ α ≤ 1` both are
non-negative (stated in `warmup_alpha_in_unit` of `TrainBaselines`). -/
theorem gen_warmup_mix (a vb vwb lb lwb : K) :
    Numeric.warmupMix a vb vwb lb lwb = (a * vb + (1 - a) * vwb, a * lb + (1 - a) * lwb) ∧ a + (1 - a) = 1 := by
  refine ⟨?_, by ring⟩
  first
  | rfl
  | (simp only [Numeric.warmupMix, Prod.mk.injEq]; constructor <;> first | trivial | rfl | ring)

end warmup

/-! ### Non-vacuity -/

example : genRun ([[1], [2, 3, 4]] : List (List Rat)) = (4, 5 / 2, 5) := by
  simp [genRun, Numeric.welfordUpdate]; norm_num

example : genEmaRun (1 / 2 : Rat) none [[2, 4], [7]] = some 5 := by
  simp [genEmaRun, Numeric.emaFirst, Numeric.emaStep]; norm_num

example : (Numeric.warmupAlpha 1 4 : Rat) = 1 / 2 := by simp [Numeric.warmupAlpha]; norm_num

end Rl4co.Train.GenBridge
