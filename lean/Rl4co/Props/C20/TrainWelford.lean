/-
C20 (running statistics): the batched Welford update of `RewardScaler`, exactly as the code writes it, is
exact for ANY history of batches of any sizes — count, mean and sum of squared deviations of everything
observed — and `__call__` returns the stated transformation of its input.  Over an arbitrary field of
characteristic zero (so in particular over ℚ and ℝ); the square root is an arbitrary function `sq`.
-/
import Rl4co.Train.Welford
import Rl4co.Spec.Train
import Mathlib.Tactic.Ring
import Mathlib.Tactic.FieldSimp
import Mathlib.Tactic.Linarith
import Mathlib.Algebra.BigOperators.Group.List.Basic

namespace Rl4co.Train.Welford
open Rl4co.Spec.Train
variable {K : Type} [Field K]

theorem sum_sub_const (b : List K) (c : K) :
    (b.map (fun x => x - c)).sum = b.sum - (b.length : K) * c := by
  induction b with
  | nil => simp
  | cons x xs ih => simp [ih]; ring

theorem sum_div_const (b : List K) (c : K) :
    (b.map (fun x => x / c)).sum = b.sum / c := by
  induction b with
  | nil => simp
  | cons x xs ih => simp [ih]; ring

theorem sum_dev_mul (b : List K) (c e : K) :
    (List.zipWith (fun a b => a * b) (b.map (fun x => x - c)) (b.map (fun x => x - e))).sum
      = (b.map (fun x => x * x)).sum - (c + e) * b.sum + (b.length : K) * (c * e) := by
  induction b with
  | nil => simp
  | cons x xs ih =>
    simp only [List.map_cons, List.zipWith_cons_cons, List.sum_cons, List.length_cons, Nat.cast_succ, ih]
    ring

theorem sum_sq_dev (b : List K) (c : K) :
    (b.map (fun x => (x - c) * (x - c))).sum
      = (b.map (fun x => x * x)).sum - 2 * c * b.sum + (b.length : K) * (c * c) := by
  induction b with
  | nil => simp
  | cons x xs ih =>
    simp only [List.map_cons, List.sum_cons, List.length_cons, Nat.cast_succ, ih]
    ring

/-- the invariant carried along a history: `xs` is everything observed so far -/
def Inv (st : St K) (xs : List K) : Prop :=
  st.count = xs.length ∧ (xs.length : K) * st.mean = xs.sum ∧
    st.M2 = (xs.map (fun x => (x - st.mean) * (x - st.mean))).sum

theorem inv_init : Inv (init : St K) [] := by simp [Inv, init]

/-- one batched update (any batch size, including 0 and 1) preserves the invariant -/
theorem inv_update [CharZero K] (st : St K) (xs b : List K) (h : Inv st xs) :
    Inv (update st b) (xs ++ b) := by
  obtain ⟨hc, hm, hM⟩ := h
  by_cases hz : xs.length + b.length = 0
  · have hx : xs = [] := List.eq_nil_of_length_eq_zero (by omega)
    have hb : b = [] := List.eq_nil_of_length_eq_zero (by omega)
    subst hx; subst hb
    simp [Inv, update] at *
    exact ⟨hc, hM⟩
  · have hN : ((xs.length : K) + (b.length : K)) ≠ 0 := by
      have : ((xs.length + b.length : Nat) : K) ≠ 0 := Nat.cast_ne_zero.mpr hz
      simpa using this
    refine ⟨by simp [update, hc], ?_, ?_⟩
    · simp only [update, hc, List.length_append, Nat.cast_add, List.sum_append, sum_div_const, sum_sub_const]
      rw [← hm]; field_simp; ring
    · simp only [update, hc, Nat.cast_add, List.sum_append, List.map_append,
        sum_div_const, sum_sub_const, sum_dev_mul, sum_sq_dev, hM]
      rw [← hm]; field_simp; ring

theorem inv_run [CharZero K] (batches : List (List K)) (st : St K) (xs : List K) (h : Inv st xs) :
    Inv (run st batches) (xs ++ batches.flatten) := by
  induction batches generalizing st xs with
  | nil => simpa [run] using h
  | cons b bs ih =>
    have := ih (update st b) (xs ++ b) (inv_update st xs b h)
    simpa [run, List.append_assoc] using this

theorem mean_of_inv [CharZero K] (st : St K) (xs : List K) (h : Inv st xs) (hne : xs ≠ []) :
    st.mean = mean xs := by
  have hN : (xs.length : K) ≠ 0 := Nat.cast_ne_zero.mpr (by simpa using hne)
  unfold mean
  rw [← h.2.1]; field_simp

/-- **C20 `welford_exact`.**  After ANY list of batches (any sizes, empty batches included), starting from
the initial state: `count` is the number of values observed, and — as soon as one value has been
observed — `mean` is their arithmetic mean and `M2` the sum of their squared deviations from it. -/
theorem welford_exact [CharZero K] (batches : List (List K)) :
    let st := run (init : St K) batches
    let xs := batches.flatten
    st.count = xs.length ∧ (xs ≠ [] → st.mean = mean xs ∧ st.M2 = sumSqDev xs) := by
  intro st xs
  have h : Inv st xs := by simpa using inv_run batches init [] inv_init
  refine ⟨h.1, fun hne => ?_⟩
  have hm := mean_of_inv st xs h hne
  exact ⟨hm, by rw [h.2.2, hm]; rfl⟩

/-- the quantity under the square root is the sample variance of everything observed -/
theorem welford_variance [CharZero K] (batches : List (List K)) (hne : batches.flatten ≠ []) :
    variance (run (init : St K) batches) = sampleVar batches.flatten := by
  obtain ⟨hc, h⟩ := welford_exact (K := K) batches
  obtain ⟨_, hM⟩ := h hne
  simp only [variance, sampleVar, hM, hc]

/-- the statistics after a call in `norm`/`scale` mode are those of the history extended by the scores -/
theorem call_state_norm (sq : K → K) (eps : K) (batches : List (List K)) (b : List K) :
    (call sq eps Mode.norm (run init batches) b).1 = run (init : St K) (batches ++ [b]) := by
  simp [call, run, List.foldl_append]

theorem call_state_scale (sq : K → K) (eps : K) (batches : List (List K)) (b : List K) :
    (call sq eps Mode.scale (run init batches) b).1 = run (init : St K) (batches ++ [b]) := by
  simp [call, run, List.foldl_append]

/-- **C20 `scale_norm`.**  With `scale='norm'`, after any history, the output for scores `b` is
`(x − mean) / (sq(sample variance) + eps)` with mean and sample variance of ALL values observed so far
(the scores included), provided at least two values have been observed. -/
theorem scale_norm [CharZero K] (sq : K → K) (eps : K) (batches : List (List K)) (b : List K)
    (hN : 2 ≤ (batches.flatten ++ b).length) :
    (call sq eps Mode.norm (run init batches) b).2
      = b.map (fun x => (x - mean (batches.flatten ++ b)) / (sq (sampleVar (batches.flatten ++ b)) + eps)) := by
  have hne : (batches ++ [b]).flatten ≠ [] := by
    intro h; have : (batches.flatten ++ b).length = 0 := by simpa using congrArg List.length h
    omega
  have hfl : (batches ++ [b]).flatten = batches.flatten ++ b := by simp
  have hst : update (run init batches) b = run (init : St K) (batches ++ [b]) := by
    simp [run, List.foldl_append]
  obtain ⟨_, h⟩ := welford_exact (K := K) (batches ++ [b])
  obtain ⟨hm, _⟩ := h hne
  have hv := welford_variance (K := K) (batches ++ [b]) hne
  simp only [call, factor, hst, hm, hv, hfl]

/-- **C20 `scale_scale`.**  With `scale='scale'`: `x / (sq(sample variance) + eps)`. -/
theorem scale_scale [CharZero K] (sq : K → K) (eps : K) (batches : List (List K)) (b : List K)
    (hN : 2 ≤ (batches.flatten ++ b).length) :
    (call sq eps Mode.scale (run init batches) b).2
      = b.map (fun x => x / (sq (sampleVar (batches.flatten ++ b)) + eps)) := by
  have hne : (batches ++ [b]).flatten ≠ [] := by
    intro h; have : (batches.flatten ++ b).length = 0 := by simpa using congrArg List.length h
    omega
  have hfl : (batches ++ [b]).flatten = batches.flatten ++ b := by simp
  have hst : update (run init batches) b = run (init : St K) (batches ++ [b]) := by
    simp [run, List.foldl_append]
  have hv := welford_variance (K := K) (batches ++ [b]) hne
  simp only [call, factor, hst, hv, hfl]

/-- scaling switched off / integer scale: the statistics are untouched and the output is `x` / `x / c` -/
theorem scale_off (sq : K → K) (eps : K) (st : St K) (b : List K) :
    call sq eps Mode.off st b = (st, b) := rfl
theorem scale_int (sq : K → K) (eps c : K) (st : St K) (b : List K) :
    call sq eps (Mode.divInt c) st b = (st, b.map (fun x => x / c)) := rfl

/-- Non-vacuity: two batches of sizes 1 and 3 over ℚ; count 4, mean 5/2, M2 = 5, and the normalised output
(with `sq` the identity, `eps = 0`) of the last batch. -/
example :
    let st := run (init : St Rat) [[1], [2, 3, 4]]
    st.count = 4 ∧ st.mean = 5 / 2 ∧ st.M2 = 5 := by
  refine ⟨rfl, ?_, ?_⟩ <;> simp [run, update, init] <;> norm_num

end Rl4co.Train.Welford
