/-
Spec-level sanity (C20 / C16): lemmas that pin the reference definitions of `Rl4co/Spec/Train.lean` down independently
of the models — a vacuous or mis-stated `Spec` would violate them.
-/
import Rl4co.Spec.Train
import Rl4co.Proofs.TrainSums
import Rl4co.Props.C20.TrainWelford
import Rl4co.Props.C20.TrainBaselines
import Mathlib.Tactic.Ring
import Mathlib.Tactic.FieldSimp
import Mathlib.Tactic.Linarith
import Mathlib.Algebra.Order.Field.Basic

namespace Rl4co.Spec.Train
open Rl4co.Train
variable {K : Type} [Field K]

/-- the mean of a constant list is the constant -/
theorem mean_const [CharZero K] (c : K) (n : Nat) (hn : 0 < n) : mean (List.replicate n c) = c := by
  have hK : (n : K) ≠ 0 := Nat.cast_ne_zero.mpr (by omega)
  simp only [mean, List.sum_replicate, List.length_replicate, nsmul_eq_mul]
  field_simp

/-- shifting every observation by `c` shifts the mean by `c` … -/
theorem mean_shift [CharZero K] (xs : List K) (c : K) (hne : xs ≠ []) :
    mean (xs.map (fun x => x + c)) = mean xs + c := by
  have hK : (xs.length : K) ≠ 0 := Nat.cast_ne_zero.mpr (by simpa using hne)
  have hs : (xs.map (fun x => x + c)).sum = xs.sum + (xs.length : K) * c := by
    clear hne hK
    induction xs with
    | nil => simp
    | cons x xs ih => simp only [List.map_cons, List.sum_cons, List.length_cons, Nat.cast_succ, ih]; ring
  simp only [mean, hs, List.length_map]
  field_simp

/-- … and leaves the sum of squared deviations (hence the sample variance and standard deviation) unchanged: the
statistics used for scaling do not depend on where the scores are centred. -/
theorem sumSqDev_shift [CharZero K] (xs : List K) (c : K) (hne : xs ≠ []) :
    sumSqDev (xs.map (fun x => x + c)) = sumSqDev xs := by
  simp only [sumSqDev, mean_shift xs c hne, List.map_map]
  congr 1
  apply List.map_congr_left
  intro x _
  simp only [Function.comp]
  ring

theorem sampleVar_shift [CharZero K] (xs : List K) (c : K) (hne : xs ≠ []) :
    sampleVar (xs.map (fun x => x + c)) = sampleVar xs := by
  simp only [sampleVar, sumSqDev_shift xs c hne, List.length_map]

/-- constant observations have zero spread -/
theorem sumSqDev_const [CharZero K] (c : K) (n : Nat) (hn : 0 < n) : sumSqDev (List.replicate n c) = 0 := by
  simp [sumSqDev, mean_const c n hn]

/-- the surrogate is linear in the log-likelihood direction (so "gradient of the surrogate" is the surrogate of the
gradient) and vanishes for zero advantages -/
theorem surrogate_add (n : Nat) (adv l1 l2 : Nat → K) :
    surrogate n adv (fun i => l1 i + l2 i) = surrogate n adv l1 + surrogate n adv l2 := by
  simp only [surrogate, mul_add, sumTo_add']; ring

theorem surrogate_zero_adv (n : Nat) (ll : Nat → K) : surrogate n (fun _ => 0) ll = 0 := by
  simp [surrogate, sumTo_zero']

/-- a baseline that shifts every reward of an instance by the same constant does not change the shared-baseline
surrogate: only reward DIFFERENCES within an instance matter -/
theorem sharedSurrogate_shift [CharZero K] (B S : Nat) (hS : 0 < S) (R ll : Nat → Nat → K) (c : Nat → K) :
    sharedSurrogate B S (fun b s => R b s + c b) ll = sharedSurrogate B S R ll := by
  have hK : (S : K) ≠ 0 := Nat.cast_ne_zero.mpr (by omega)
  simp only [sharedSurrogate]
  congr 2
  apply sumTo_congr; intro b _
  apply sumTo_congr; intro s _
  rw [sumTo_add', sumTo_const]
  field_simp
  ring

section ordered
variable [LinearOrder K] [IsStrictOrderedRing K]

/-- the warm-up weight lies in (0, 1], never decreases, and is 1 from epoch `n − 1` on -/
theorem warmupAlpha_bounds (n e : Nat) (hn : 0 < n) : 0 < (warmupAlpha n e : K) ∧ (warmupAlpha n e : K) ≤ 1 := by
  have hnK : (0 : K) < (n : K) := Nat.cast_pos.mpr hn
  unfold warmupAlpha
  by_cases h : n ≤ e + 1
  · simp [h]
  · rw [if_neg h]
    refine ⟨div_pos (by exact_mod_cast Nat.succ_pos e) hnK, ?_⟩
    rw [div_le_iff₀ hnK, one_mul]
    have : e + 1 ≤ n := by omega
    exact_mod_cast this

theorem warmupAlpha_mono (n e : Nat) (hn : 0 < n) : (warmupAlpha n e : K) ≤ warmupAlpha n (e + 1) := by
  have hnK : (0 : K) < (n : K) := Nat.cast_pos.mpr hn
  unfold warmupAlpha
  by_cases h : n ≤ e + 1
  · rw [if_pos h, if_pos (by omega)]
  · rw [if_neg h]
    by_cases h2 : n ≤ e + 1 + 1
    · rw [if_pos h2, div_le_iff₀ hnK, one_mul]
      have : e + 1 ≤ n := by omega
      exact_mod_cast this
    · rw [if_neg h2]
      apply div_le_div_of_nonneg_right _ (le_of_lt hnK)
      exact_mod_cast Nat.le_succ (e + 1)

omit [LinearOrder K] [IsStrictOrderedRing K] in
theorem warmupAlpha_one_of_le (n e : Nat) (h : n ≤ e + 1) : (warmupAlpha n e : K) = 1 := by
  simp [warmupAlpha, h]

omit [IsStrictOrderedRing K] in
/-- at ratio 1 (the first inner update) with `lo ≤ 1 ≤ hi` the PPO reference reduces to
`−mean A + vf·mean huber(v − R) − ent·mean h`: the plain policy-gradient surrogate -/
theorem ppo_at_ratio_one (n : Nat) (lo hi vfL entL : K) (hlo : lo ≤ 1) (hhi : 1 ≤ hi) (A v R h : Nat → K) :
    ppo n lo hi vfL entL (fun _ => 1) A v R h
      = -(sumTo n A / (n : K)) + vfL * (sumTo n (fun i => huber (v i - R i)) / (n : K)) - entL * (sumTo n h / (n : K)) := by
  have hc : clip lo hi (1 : K) = 1 := by
    simp [clip, not_lt.mpr hlo, not_lt.mpr hhi]
  simp only [ppo, hc, one_mul, minK, lt_irrefl, if_false]

end ordered

/-- a constant history of batch means keeps the exponential moving average constant (the weights sum to one) -/
theorem ema_const_history (beta m : K) (k : Nat) :
    Ema.run beta none (List.replicate (k + 1) m) = some m := by
  induction k with
  | zero => simp [Ema.run, Ema.step]
  | succ k ih =>
    rw [show List.replicate (k + 1 + 1) m = List.replicate (k + 1) m ++ [m] from by
      rw [List.replicate_succ' ]]
    rw [ema_run_snoc, ih]
    simp [Ema.step]; ring

/-- Non-vacuity: mean and sample variance of `[1, 2, 3, 6]` shifted by 10. -/
example : mean ([1, 2, 3, 6].map (fun x : Rat => x + 10)) = 13 ∧ sampleVar ([1, 2, 3, 6].map (fun x : Rat => x + 10)) = 14 / 3 := by
  constructor <;> decide +kernel

end Rl4co.Spec.Train
