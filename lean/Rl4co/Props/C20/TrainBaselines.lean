/-
C20 (stateful baselines): the exponential-moving-average baseline follows its recurrence exactly (first value
= batch mean; closed form), and the warm-up baseline is the convex combination `alpha·v_b + (1−alpha)·v_wb`
whose weight after the callback of epoch `e` is `min 1 ((e+1)/n)`.
-/
import Rl4co.Train.Baselines
import Rl4co.Spec.Train
import Mathlib.Tactic.Ring
import Mathlib.Tactic.FieldSimp
import Mathlib.Tactic.Linarith
import Mathlib.Algebra.BigOperators.Group.List.Basic
import Mathlib.Algebra.Order.Field.Basic
import Mathlib.Data.List.Induction

namespace Rl4co.Train
open Rl4co.Spec.Train

section ema
variable {K : Type} [Field K]

/-- **C20 `ema_first`.**  The first evaluation returns the batch mean. -/
theorem ema_first (beta m : K) : Ema.step beta none m = m := rfl

/-- **C20 `ema_recurrence`.**  Every later evaluation: `v ← beta·v + (1−beta)·mean`. -/
theorem ema_recurrence (beta v m : K) : Ema.step beta (some v) m = beta * v + (1 - beta) * m := rfl

/-- `ExponentialBaseline.eval` on dual numbers: the value returned (and stored) is the recurrence applied to
the mean of the rewards, and it carries no gradient whatever gradient the rewards carry. -/
theorem ema_eval (beta : K) (v : Option K) (R : Ten (Dual K)) :
    let out := Ema.eval beta v R
    out.2.2 = Ema.step beta v (Ten.meanAll R).v ∧ out.1.sh = Shape.s ∧
      (out.1.f 0 0).v = out.2.2 ∧ (out.1.f 0 0).d = 0 ∧ out.2.1 = 0 := by
  cases v <;> simp [Ema.eval, Ema.step, Ten.scalar]

theorem pw_eq_pow (b : K) (n : Nat) : pw b n = b ^ n := by
  induction n with
  | zero => simp [pw]
  | succ n ih => simp [pw, ih, pow_succ]

theorem ema_run_snoc (beta : K) (v : Option K) (ms : List K) (m : K) :
    Ema.run beta v (ms ++ [m]) = some (Ema.step beta (Ema.run beta v ms) m) := by
  induction ms generalizing v with
  | nil => simp [Ema.run]
  | cons x xs ih => simp [Ema.run, ih]

/-- closed form of the recurrence: after batch means `m₀, m₁, …, m_t` the stored value is
`β^t m₀ + (1−β) Σ_{k=1..t} β^{t−k} m_k`. -/
theorem ema_closed_form (beta m0 : K) (ms : List K) :
    Ema.run beta none (m0 :: ms) = some (emaClosed beta m0 ms) := by
  induction ms using List.reverseRecOn with
  | nil => simp [Ema.run, Ema.step, emaClosed, pw]
  | append_singleton ms m ih =>
    rw [← List.cons_append, ema_run_snoc, ih]
    simp only [Ema.step, emaClosed, List.length_append, List.length_singleton, Option.some.injEq]
    rw [List.range_succ, List.map_append, List.sum_append]
    simp only [List.map_cons, List.map_nil, List.sum_cons, List.sum_nil, add_zero, Nat.add_sub_cancel,
      Nat.sub_self, pw]
    have h1 : ∀ k ∈ List.range ms.length,
        pw beta (ms.length - k) * (ms ++ [m]).getD k 0 = beta * (pw beta (ms.length - 1 - k) * ms.getD k 0) := by
      intro k hk
      have hk' : k < ms.length := List.mem_range.mp hk
      have e : ms.length - k = (ms.length - 1 - k) + 1 := by omega
      have g : (ms ++ [m]).getD k 0 = ms.getD k 0 := by
        simp [List.getD_eq_getElem?_getD, List.getElem?_append_left hk']
      rw [e, pw, g]; ring
    rw [List.map_congr_left h1]
    have h2 : (List.map (fun k => beta * (pw beta (ms.length - 1 - k) * ms.getD k 0)) (List.range ms.length)).sum
        = beta * (List.map (fun k => pw beta (ms.length - 1 - k) * ms.getD k 0) (List.range ms.length)).sum := by
      generalize List.range ms.length = l
      induction l with
      | nil => simp
      | cons x xs ih => simp only [List.map_cons, List.sum_cons, ih]; ring
    rw [h2]
    have h3 : (ms ++ [m]).getD ms.length 0 = m := by simp
    rw [h3]; ring

end ema

section warmup
variable {K : Type} [Field K] [DecidableEq K]

/-- callbacks of epochs `0, 1, …, e`, in order (what the trainer does) -/
def Warmup.afterEpoch (n e : Nat) : Warmup.St K :=
  (List.range (e + 1)).foldl Warmup.epochCallback (Warmup.init n)

omit [DecidableEq K] in
theorem Warmup.afterEpoch_succ (n e : Nat) :
    (Warmup.afterEpoch n (e + 1) : Warmup.St K) = Warmup.epochCallback (Warmup.afterEpoch n e) (e + 1) := by
  simp [Warmup.afterEpoch, List.range_succ, List.foldl_append]

omit [DecidableEq K] in
theorem Warmup.afterEpoch_nEpochs (n e : Nat) : (Warmup.afterEpoch n e : Warmup.St K).nEpochs = n := by
  induction e with
  | zero => simp [Warmup.afterEpoch, Warmup.epochCallback, Warmup.init]; split <;> rfl
  | succ e ih => rw [Warmup.afterEpoch_succ]; simp only [Warmup.epochCallback]; split <;> simp [ih]

omit [DecidableEq K] in
/-- **C20 `warmup_alpha`.**  After the callback of epoch `e` (epochs called in order from 0) the weight is
`(e+1)/n` while `e + 1 < n` and `1` from then on. -/
theorem warmup_alpha [CharZero K] (n e : Nat) (hn : 0 < n) :
    (Warmup.afterEpoch n e : Warmup.St K).alpha = warmupAlpha n e := by
  have hnK : (n : K) ≠ 0 := Nat.cast_ne_zero.mpr (by omega)
  induction e with
  | zero =>
    simp only [Warmup.afterEpoch, List.range_succ, List.range_zero, List.nil_append, List.foldl_cons,
      List.foldl_nil, Warmup.epochCallback, Warmup.init, warmupAlpha]
    rw [if_pos hn]
    by_cases h1 : n ≤ 0 + 1
    · have : n = 1 := by omega
      subst this; simp
    · rw [if_neg h1]
  | succ e ih =>
    rw [Warmup.afterEpoch_succ]
    simp only [Warmup.epochCallback, Warmup.afterEpoch_nEpochs]
    by_cases h : e + 1 < n
    · rw [if_pos h]
      simp only [warmupAlpha]
      by_cases h1 : n ≤ e + 1 + 1
      · have : n = e + 1 + 1 := by omega
        rw [if_pos h1, this]; exact div_self (Nat.cast_ne_zero.mpr (by omega))
      · rw [if_neg h1]
    · rw [if_neg h, ih]
      simp only [warmupAlpha]
      rw [if_pos (by omega), if_pos (by omega)]

end warmup

section warmup_ord
variable {K : Type} [Field K] [LinearOrder K] [IsStrictOrderedRing K]

/-- the weight is `min 1 ((e+1)/n)`: it moves from `1/n` to `1` over the configured `n` epochs -/
theorem warmupAlpha_eq_min (n e : Nat) (hn : 0 < n) :
    (warmupAlpha n e : K) = min 1 (((e + 1 : Nat) : K) / (n : K)) := by
  have hnK : (0 : K) < (n : K) := Nat.cast_pos.mpr hn
  unfold warmupAlpha
  by_cases h : n ≤ e + 1
  · rw [if_pos h, min_eq_left]
    rw [le_div_iff₀ hnK, one_mul]; exact_mod_cast h
  · rw [if_neg h, min_eq_right]
    rw [div_le_iff₀ hnK, one_mul]
    have : e + 1 ≤ n := by omega
    exact_mod_cast this

end warmup_ord

section convex
variable {K : Type} [Field K] [DecidableEq K]

/-- **C20 `warmup_convex`.**  Whatever the weight, when `WarmupBaseline.eval` succeeds its value is, entry by
entry (with broadcasting of the scalar moving average), `alpha·v_b + (1−alpha)·v_wb` and its loss
`alpha·l_b + (1−alpha)·l_wb`, where `v_wb` is the warm-up moving average after this evaluation when it is
evaluated (`alpha ≠ 1`), and the wrapped baseline's `(v_b, l_b)` is only used when `alpha ≠ 0`. -/
theorem warmup_convex (beta : K) (st : Warmup.St K) (inner : Ten (Dual K) × Dual K) (R : Ten (Dual K))
    (out : Ten (Dual K) × Dual K × Warmup.St K) (h : Warmup.eval beta st inner R = some out) (i j : Nat) :
    let vwb := (Ema.eval beta st.ema R).2.2
    (out.1.f i j).v = st.alpha * (inner.1.get i j).v + (1 - st.alpha) * vwb
      ∨ (st.alpha = 1 ∧ out.1 = inner.1 ∧ out.2.1 = inner.2)  := by
  intro vwb
  unfold Warmup.eval at h
  cases hb : Warmup.branch st with
  | inner =>
    right
    rw [hb] at h
    simp only [Option.some.injEq] at h
    have ha : st.alpha = 1 := by
      unfold Warmup.branch at hb
      by_cases h1 : st.alpha = 1
      · exact h1
      · rw [if_neg h1] at hb; split at hb <;> cases hb
    subst h; exact ⟨ha, rfl, rfl⟩
  | warm =>
    left
    rw [hb] at h
    have ha : st.alpha = 0 := by
      unfold Warmup.branch at hb
      by_cases h1 : st.alpha = 1
      · rw [if_pos h1] at hb; cases hb
      · rw [if_neg h1] at hb
        by_cases h0 : st.alpha = 0
        · exact h0
        · rw [if_neg h0] at hb; cases hb
    simp only [Option.some.injEq] at h
    subst h
    have := ema_eval beta st.ema R
    simp only at this
    obtain ⟨_, hsh, hv, _, _⟩ := this
    rw [ha]
    simp only [zero_mul, zero_add, sub_zero, one_mul]
    show ((Ema.eval beta st.ema R).1.f i j).v = (Ema.eval beta st.ema R).2.2
    cases hv0 : st.ema <;> simp [Ema.eval, Ten.scalar]
  | both =>
    left
    rw [hb] at h
    simp only at h
    split at h
    · rename_i v hv
      simp only [Option.some.injEq] at h
      subst h
      unfold Ten.bop at hv
      split at hv
      · rename_i sh hsh
        simp only [Option.some.injEq] at hv
        subst hv
        simp only [Ten.map, Ten.get, Dual.add_v, Dual.smul_v]
        cases hv0 : st.ema <;> simp [vwb, hv0, Ema.eval, Ten.scalar]
      · cases hv
    · cases h

end convex

/-- Non-vacuity: `n = 4`; after the callback of epoch 1 the weight is 1/2; the mixture of an inner value
`[10, 20]` with a first moving-average evaluation on rewards `[2, 4]` (mean 3) is `[13/2, 23/2]`. -/
example :
    (Warmup.afterEpoch 4 1 : Warmup.St Rat).alpha = 1 / 2 ∧
    ((Warmup.eval (1/2 : Rat) (Warmup.afterEpoch 4 1)
        (Ten.vec 2 (fun j => Dual.const (if j = 0 then 10 else 20)), 0)
        (Ten.vec 2 (fun j => Dual.const (if j = 0 then 2 else 4)))).map
      (fun o => ((o.1.f 0 0).v, (o.1.f 0 1).v))) = some (13 / 2, 23 / 2) := by
  constructor
  · rw [warmup_alpha 4 1 (by decide)]; simp [warmupAlpha]; norm_num
  · decide +kernel

end Rl4co.Train
