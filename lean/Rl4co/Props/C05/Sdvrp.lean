/-
C05 for SDVRP.  In the library a split-delivery solution is a visit sequence whose amounts are fixed by
the greedy rule ("deliver as much as possible").  `run_of_feasible`: every non-empty visit sequence whose
greedy split is valid (`Spec.Sdvrp.greedyFeasible`) and that is canonical — it does not start with a
depot visit, never stays at the depot twice in a row and every customer visit hands over a positive
amount (the documented pruning of pointless moves) — is a mask-confined run that the environment
declares finished.  Equality cases are included: a visit that fills the vehicle exactly, and a visit
whose remaining demand equals the remaining capacity, are offered.
Scope: completeness is relative to the greedy split; that the optimum over ALL valid splits is reached by
a greedy-canonical sequence (true under the triangle inequality) is a statement about the problem, not
about the mask, and is only sampled by the harness on tiny instances.
-/
import Rl4co.Env.Sdvrp
import Rl4co.Spec.Sdvrp
import Rl4co.Proofs.SdvrpGreedy
import Rl4co.Props.C02.Sdvrp

namespace Rl4co.Sdvrp
open Rl4co.Spec.Sdvrp

/-- every customer visit of the greedy replay hands over a positive amount -/
def allPositive (zs : List (Nat × Int)) : Bool := zs.all (fun z => z.1 == 0 || decide (0 < z.2))

theorem noDoubleDepot_tail {a : Nat} {as : List Nat} (h : noDoubleDepot (a :: as) = true) :
    noDoubleDepot as = true := by
  cases as with
  | nil => rfl
  | cons b r =>
    simp only [noDoubleDepot, Bool.and_eq_true] at h
    exact h.2

theorem run_of_greedy (i : Inst) (as : List Nat) :
    ∀ s : State, CInv i s → (∀ a ∈ as, a ≤ i.n) →
      allPositive (as.zip (greedy i s.rem s.used as)) = true →
      noDoubleDepot as = true → (s.cur = 0 → as.head? ≠ some 0) →
      ∃ s', Run env i s as s' := by
  induction as with
  | nil => intro s _ _ _ _ _; exact ⟨s, Run.nil s⟩
  | cons a as ih =>
    intro s hi hr hp hnd hst
    have ha : a < env.nAct i := by have := hr a (by simp); simp [env]; omega
    have hi' := cinv_step i s a hi
    have hu0 := hi.e.used0
    have huc := hi.e.usedC
    by_cases h0 : a = 0
    · subst h0
      have hcur : s.cur ≠ 0 := fun h => hst h (by simp)
      have hm : env.mask i s 0 = true := by simp [env, mask, hcur]
      have hdel : delivered i s 0 = 0 := by simp only [delivered_eq, hi.e.rem0]; omega
      have hrem : ∀ j, 1 ≤ j → (env.step i s 0).rem j = s.rem j := by
        intro j hj
        have : j ≠ 0 := by omega
        simp [env, step, this]
      have hused : (env.step i s 0).used = 0 := by simp [step_used]
      have hp' : allPositive (as.zip (greedy i (env.step i s 0).rem (env.step i s 0).used as)) = true := by
        rw [hused, greedy_congr i as _ s.rem 0 hrem]
        simp only [greedy, if_true, List.zip_cons_cons, allPositive, List.all_cons, Bool.and_eq_true] at hp
        exact hp.2
      obtain ⟨s', hrun⟩ := ih (env.step i s 0) hi' (fun b hb => hr b (by simp [hb])) hp'
        (noDoubleDepot_tail hnd)
        (fun _ => by
          cases as with
          | nil => simp
          | cons b r =>
            simp only [noDoubleDepot, Bool.and_eq_true, Bool.not_eq_true', Bool.and_eq_false_iff,
              beq_eq_false_iff_ne, ne_eq] at hnd
            rcases hnd.1 with h | h
            · exact absurd trivial h
            · simpa using h)
      exact ⟨s', Run.cons ha hm hrun⟩
    · simp only [greedy, h0, if_false, List.zip_cons_cons, allPositive, List.all_cons, Bool.and_eq_true,
        Bool.or_eq_true, beq_iff_eq, decide_eq_true_eq] at hp
      obtain ⟨hq, hp2⟩ := hp
      have hq' : 0 < min (s.rem a) (i.cap - s.used) := by
        simpa [h0] using hq
      have hm : env.mask i s a = true := by
        simp only [env, mask, h0, if_false, locOk, Params.sdvrpMaskRemCmp, Params.sdvrpMaskCapCmp, Cmp.eval,
          Bool.not_eq_true', Bool.or_eq_false_iff, decide_eq_false_iff_not]
        constructor <;> omega
      have hused : (env.step i s a).used = s.used + min (s.rem a) (i.cap - s.used) := by
        simp [step_used, h0, delivered_eq]
      have hrem : (env.step i s a).rem = upd s.rem a (s.rem a - min (s.rem a) (i.cap - s.used)) := by
        simp [env, step, delivered_eq]
      have hp' : allPositive (as.zip (greedy i (env.step i s a).rem (env.step i s a).used as)) = true := by
        rw [hused, hrem]; exact hp2
      obtain ⟨s', hrun⟩ := ih (env.step i s a) hi' (fun b hb => hr b (by simp [hb])) hp'
        (noDoubleDepot_tail hnd) (fun h => by simp [env, step] at h; exact absurd h h0)
      exact ⟨s', Run.cons ha hm hrun⟩

/-- after at least one step the flag is the test on the remaining demands -/
theorem done_eq_of_run (i : Inst) {s s' : State} {as : List Nat} (h : Run env i s as s') (hne : as ≠ []) :
    s'.done = !(anyRem i.n s'.rem) := by
  induction h with
  | nil s => exact absurd rfl hne
  | @cons s s' a as _ _ hrest ih =>
    by_cases he : as = []
    · subst he
      cases hrest
      rfl
    · exact ih he

/-- **C05 (SDVRP).** -/
theorem run_of_feasible (i : Inst) (hw : WFpos i) (as : List Nat) (hne : as ≠ [])
    (hf : greedyFeasible i as = true) (hc : canonical i as = true) :
    ∃ s, Run env i (env.reset i) as s ∧ env.done i s = true := by
  have hv := (validSplit_iff i _).1 hf
  simp only [canonical, Bool.and_eq_true, bne_iff_ne, ne_eq] at hc
  obtain ⟨⟨hhead, hnd⟩, hpos⟩ := hc
  have hcongr : ∀ j, 1 ≤ j → (env.reset i).rem j = i.demand j := by
    intro j hj
    have : j ≠ 0 := by omega
    simp [env, reset, this]
  have hrange : ∀ a ∈ as, a ≤ i.n := by
    intro a ha
    have hl := greedy_length i as i.demand 0
    obtain ⟨k, hk, rfl⟩ := List.mem_iff_getElem.mp ha
    have hz : (as[k], (greedy i i.demand 0 as)[k]'(by omega)) ∈ greedySplit i as := by
      simp only [greedySplit]
      apply List.mem_iff_getElem.mpr
      refine ⟨k, by simp [List.length_zip, hl, hk], by simp⟩
    exact hv.range _ hz
  obtain ⟨s, hrun⟩ := run_of_greedy i as (env.reset i) (cinv_reset i hw.wf) hrange
    (by
      have hu : (env.reset i).used = 0 := rfl
      rw [hu, greedy_congr i as _ i.demand 0 hcongr]
      exact hpos)
    hnd (fun _ => hhead)
  refine ⟨s, hrun, ?_⟩
  obtain ⟨hi, hrem⟩ := rem_eq_greedyRem i hrun (einv_reset i hw.wf)
  have F := greedy_facts i hw.wf.cap as i.demand 0 (fun j _ => hw.demand j) (Int.le_refl 0) hw.wf.cap
  show s.done = true
  rw [done_eq_of_run i hrun hne]
  have : anyRem i.n s.rem = false := by
    apply anyRem_eq_false_of
    intro j hj
    by_cases hj0 : j = 0
    · subst hj0; rw [hi.rem0]; exact Int.le_refl 0
    · have h1 := hrem j (by omega)
      have hu : (env.reset i).used = 0 := rfl
      rw [hu, greedyRem_congr i as _ i.demand 0 hcongr j (by omega)] at h1
      have h2 := F.served j (by omega)
      have h3 := hv.served j (by omega) hj
      simp only [greedySplit] at h3
      omega
  simp [this]

/-- Non-vacuity: the C01 example — customer 2 (demand 12 > capacity 8) receives 4 (vehicle exactly full)
and then 8 (a whole load). -/
example : greedyFeasible exInst [1, 2, 0, 2] = true ∧ canonical exInst [1, 2, 0, 2] = true := by decide

end Rl4co.Sdvrp
