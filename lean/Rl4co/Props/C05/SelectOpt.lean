/-
C05 for FLP and MCP as an EQUATION OF OPTIMA: `Spec.*.optimum` is the brute-force optimum (maximum of
the objective-derived value over an explicit enumeration of all feasible selections); the best reward
over complete mask-confined episodes equals it — there is an episode that attains it and none
exceeds it.  (DPP / MDPP have no such statement: their reward, the impedance simulator, is not
modelled; for them C05 is the set equality `Dpp.complete_iff_feasible`.)  No Mathlib.
-/
import Rl4co.Spec.SelectOpt
import Rl4co.Props.C05.Flp
import Rl4co.Props.C05.Mcp

namespace Rl4co

theorem le_maxList {l : List Int} {x : Int} (h : x ∈ l) : x ≤ maxList l := by
  have := minList_le (l := l.map (fun x => -x)) (x := -x) (List.mem_map.mpr ⟨x, h, rfl⟩)
  unfold maxList; omega

theorem maxList_mem {l : List Int} (h : l ≠ []) : maxList l ∈ l := by
  have hne : l.map (fun x => -x) ≠ [] := by simpa using h
  obtain ⟨y, hy, hyv⟩ := List.mem_map.mp (minList_mem hne)
  unfold maxList
  rw [← hyv]; simpa using hy

theorem mem_allSeqs (n q : Nat) (as : List Nat) :
    as ∈ allSeqs n q ↔ as.length = q ∧ ∀ a ∈ as, a < n := by
  induction q generalizing as with
  | zero =>
    simp only [allSeqs, List.mem_singleton]
    constructor
    · intro h; subst h; simp
    · intro h; exact List.length_eq_zero_iff.mp h.1
  | succ q ih =>
    simp only [allSeqs, List.mem_flatMap, List.mem_range, List.mem_map]
    constructor
    · rintro ⟨a, ha, bs, hbs, rfl⟩
      obtain ⟨h1, h2⟩ := (ih bs).mp hbs
      refine ⟨by simp [h1], ?_⟩
      intro x hx
      rcases List.mem_cons.mp hx with h | h
      · subst h; exact ha
      · exact h2 x h
    · rintro ⟨h1, h2⟩
      cases as with
      | nil => simp at h1
      | cons a bs =>
        refine ⟨a, h2 a (by simp), bs, (ih bs).mpr ⟨by simpa using h1, fun x hx => h2 x (by simp [hx])⟩, rfl⟩

namespace Spec.Flp
open Rl4co.Flp (Inst)

theorem mem_candidates (i : Inst) (as : List Nat) : as ∈ candidates i ↔ Feasible i as := by
  simp only [candidates, List.mem_filter, mem_allSeqs, feasible_iff]
  constructor
  · exact fun h => h.2
  · intro h
    refine ⟨⟨?_, h.range⟩, h⟩
    have := h.len; omega

end Spec.Flp

namespace Spec.Mcp
open Rl4co.Mcp (Inst)

theorem mem_candidates (i : Inst) (as : List Nat) : as ∈ candidates i ↔ Feasible i as := by
  simp only [candidates, List.mem_filter, mem_allSeqs, feasible_iff]
  constructor
  · exact fun h => h.2
  · intro h
    refine ⟨⟨?_, h.range⟩, h⟩
    have := h.len; omega

end Spec.Mcp

/-- `0, 1, …, q-1` : a feasible selection exists whenever `1 ≤ quota ≤ n` -/
theorem range_feasible_aux (n : Nat) (q : Int) (h1 : 1 ≤ q) (h2 : q ≤ n) :
    ((List.range q.toNat).length : Int) = q ∧ (List.range q.toNat).Nodup ∧ ∀ a ∈ List.range q.toNat, a < n := by
  refine ⟨by simp; omega, List.nodup_range, ?_⟩
  intro a ha
  have := List.mem_range.mp ha
  omega

namespace Flp
open Spec.Flp

/-- **C05 (FLP), best reward through the mask = brute-force optimum.** -/
theorem best_reward_eq_optimum (i : Inst) (hwf : WF i) :
    (∃ as s, RunND env i (env.reset i) as s ∧ env.done i s = true ∧ reward i s = optimum i) ∧
    (∀ as s, RunND env i (env.reset i) as s → env.done i s = true → reward i s ≤ optimum i) := by
  have hne : ∀ as, Feasible i as → as ≠ [] := by
    intro as hf h0; subst h0
    have := hf.len; have := hwf.1; simp at *; omega
  constructor
  · have hfeas : Feasible i (List.range i.quota.toNat) := by
      obtain ⟨a, b, c⟩ := range_feasible_aux i.n i.quota hwf.1 hwf.2
      exact ⟨a, b, c⟩
    have hcne : (candidates i).map (fun as => - objective i as) ≠ [] := by
      intro h0
      have := (mem_candidates i _).mpr hfeas
      simp at h0; rw [h0] at this; cases this
    obtain ⟨as, has, hv⟩ := List.mem_map.mp (maxList_mem hcne)
    have hf := (mem_candidates i as).mp has
    obtain ⟨s, hr, hd⟩ := run_of_feasible i hwf hf
    exact ⟨as, s, hr, hd, by rw [reward_eq_objective i hr.run (hne as hf)]; exact hv⟩
  · intro as s hr hd
    have hf := feasible_of_run i hwf hr hd
    rw [reward_eq_objective i hr.run (hne as hf)]
    exact le_maxList (List.mem_map.mpr ⟨as, (mem_candidates i as).mpr hf, rfl⟩)

/-- the optimum is the value of a feasible selection and bounds every feasible selection -/
theorem optimum_spec (i : Inst) (hwf : WF i) :
    (∃ as, Feasible i as ∧ optimum i = - objective i as) ∧ ∀ as, Feasible i as → - objective i as ≤ optimum i := by
  obtain ⟨⟨as, s, hr, hd, he⟩, _⟩ := best_reward_eq_optimum i hwf
  have hf := feasible_of_run i hwf hr hd
  have hne : as ≠ [] := by
    intro h0; subst h0; have := hf.len; have := hwf.1; simp at *; omega
  refine ⟨⟨as, hf, by rw [← he, reward_eq_objective i hr.run hne]⟩, fun bs hb => ?_⟩
  exact le_maxList (List.mem_map.mpr ⟨bs, (mem_candidates i bs).mpr hb, rfl⟩)

/-- Non-vacuity / sanity: three collinear locations 0, 1, 3 (distance = |a − b|), one facility: the
optimum is to open location 1 (objective 1 + 0 + 2 = 3). -/
example : optimum ⟨3, 1, fun a b => ((([0, 1, 3] : List Int).getD a 0) - (([0, 1, 3] : List Int).getD b 0)).natAbs,
    fun _ => 9⟩ = -3 := by decide

end Flp

namespace Mcp
open Spec.Mcp

/-- **C05 (MCP), best reward through the mask = brute-force optimum.** -/
theorem best_reward_eq_optimum (i : Inst) (hwf : WF i) :
    (∃ as s, RunND env i (env.reset i) as s ∧ env.done i s = true ∧ reward i s = optimum i) ∧
    (∀ as s, RunND env i (env.reset i) as s → env.done i s = true → reward i s ≤ optimum i) := by
  constructor
  · have hfeas : Feasible i (List.range i.quota.toNat) := by
      obtain ⟨a, b, c⟩ := range_feasible_aux i.nSets i.quota hwf.1 hwf.2
      exact ⟨a, b, c⟩
    have hcne : (candidates i).map (objective i) ≠ [] := by
      intro h0
      have := (mem_candidates i _).mpr hfeas
      simp at h0; rw [h0] at this; cases this
    obtain ⟨as, has, hv⟩ := List.mem_map.mp (maxList_mem hcne)
    have hf := (mem_candidates i as).mp has
    obtain ⟨s, hr, hd⟩ := run_of_feasible i hwf hf
    exact ⟨as, s, hr, hd, by rw [reward_eq_objective i hr.run]; exact hv⟩
  · intro as s hr hd
    have hf := feasible_of_run i hwf hr hd
    rw [reward_eq_objective i hr.run]
    exact le_maxList (List.mem_map.mpr ⟨as, (mem_candidates i as).mpr hf, rfl⟩)

theorem optimum_spec (i : Inst) (hwf : WF i) :
    (∃ as, Feasible i as ∧ optimum i = objective i as) ∧ ∀ as, Feasible i as → objective i as ≤ optimum i := by
  obtain ⟨⟨as, s, hr, hd, he⟩, _⟩ := best_reward_eq_optimum i hwf
  have hf := feasible_of_run i hwf hr hd
  refine ⟨⟨as, hf, by rw [← he, reward_eq_objective i hr.run]⟩, fun bs hb => ?_⟩
  exact le_maxList (List.mem_map.mpr ⟨bs, (mem_candidates i bs).mpr hb, rfl⟩)

/-- sets `{1,2}`, `{3}`, `{2,4}`, weights `5,6,7,8`, two sets: best is `{1,2}` + `{3}`?  5+6+7 = 18 vs
`{1,2}`+`{2,4}` = 19 vs `{3}`+`{2,4}` = 21. -/
example : optimum ⟨3, 4, 2, 2, fun j k => ([[1, 2], [3, 0], [2, 4]].getD j []).getD k 0, fun x => x + 5⟩ = 21 := by
  decide

end Mcp
end Rl4co
