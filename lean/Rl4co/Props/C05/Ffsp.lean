/-
C05 for FFSP.
(1) Per decision the mask offers *exactly* the jobs that are in the current stage and whose previous
    operation is completed by the current time — completion exactly *at* the current time included
    (`mask_iff_available`).
(2) **The set of schedules reachable through the mask is exactly the declarative class
    `Spec.Ffsp.Expressible`** (at an idle machine with an available job the sweep must start a job unless
    some job has not yet completed the previous stage): `episode_expressible` (every finished
    mask-confined episode's schedule is valid and expressible) and `expressible_reachable` (every valid
    expressible schedule is the schedule of some finished mask-confined episode), for ALL instances with
    durations ≥ 0 and a bijective machine permutation (true of every `IndexTables` row).  Hence the
    rewards reachable through the mask are exactly the negated makespans of the valid expressible
    schedules (`reachable_rewards_eq`), and the best reward through the mask equals minus the optimum
    over that class (`best_reward_is_expressible_optimum`).
(3) Negative part (known finding): the class is a proper subclass of the valid schedules and the optimum
    can lie outside it: `opt_reachable_statement` ("as good as any valid schedule") is refuted by a
    1-stage, 2-machine, 2-job instance on which *every* mask-confined episode, under either machine
    permutation, has makespan 3 while running both jobs on the fast machine gives 2.
-/
import Rl4co.Props.C03.Ffsp
import Rl4co.Proofs.FfspComplete
import Rl4co.Proofs.FfspTables
namespace Rl4co.Ffsp
open Rl4co.Spec.Ffsp

/-- 1 stage, 2 machines (machine 0 fast, machine 1 slow), 2 jobs -/
def hid (swap : Bool) : Inst :=
  ⟨1, 2, 2, fun _ m => if m = 0 then 1 else 3, fun p => if swap then 1 - p else p, true⟩

/-- both jobs one after the other on the fast machine: a valid schedule of makespan 2 -/
def hidOpt : List Op := [⟨0, 0, 0⟩, ⟨1, 0, 1⟩]

theorem hidOpt_valid (b : Bool) : valid (hid b) hidOpt = true ∧ makespan (hid b) hidOpt = 2 := by
  cases b <;> decide

theorem runND_nil_inv {I S : Type} {e : Env I S} {i : I} {s s' : S} (h : RunND e i s [] s') : s' = s := by
  cases h; rfl

theorem runND_cons_inv {I S : Type} {e : Env I S} {i : I} {s s' : S} {a : Nat} {as : List Nat}
    (h : RunND e i s (a :: as) s') :
    e.done i s = false ∧ a < e.nAct i ∧ e.mask i s a = true ∧ RunND e i (e.step i s a) as s' := by
  cases h with
  | cons h1 h2 h3 h4 => exact ⟨h1, h2, h3, h4⟩

/-- second step of an episode on `hid b` that started with job `a0`: only the other job is offered,
after it the episode is over with reward −3 -/
theorem hid_second (b : Bool) (a0 : Nat) (h0 : a0 = 0 ∨ a0 = 1) (as : List Nat) (s : State)
    (hr : RunND env (hid b) (env.step (hid b) (env.reset (hid b)) a0) as s) (hd : s.done = true) :
    s.reward = some (-3) := by
  match as, hr with
  | [], hr =>
    have := runND_nil_inv hr; subst this
    rcases h0 with rfl | rfl <;> cases b <;> (revert hd; decide)
  | a :: as, hr =>
    obtain ⟨_, ha, hm, hrest⟩ := runND_cons_inv hr
    have ha' : a < 3 := ha
    match as, hrest with
    | [], hrest =>
      have := runND_nil_inv hrest; subst this
      rcases h0 with rfl | rfl <;> cases b <;>
        (match a, ha', hm with
         | 0, _, hm => first | decide | (revert hm; decide)
         | 1, _, hm => first | decide | (revert hm; decide)
         | 2, _, hm => first | decide | (revert hm; decide))
    | a2 :: as, hrest =>
      obtain ⟨hd3, _, _, _⟩ := runND_cons_inv hrest
      exfalso
      rcases h0 with rfl | rfl <;> cases b <;>
        (match a, ha', hm, hd3 with
         | 0, _, hm, hd3 => first | (revert hm; decide) | (revert hd3; decide)
         | 1, _, hm, hd3 => first | (revert hm; decide) | (revert hd3; decide)
         | 2, _, hm, hd3 => first | (revert hm; decide) | (revert hd3; decide))

/-- every finished mask-confined episode on `hid` has reward −3, under either machine permutation -/
theorem hid_all_runs (b : Bool) (as : List Nat) (s : State)
    (hr : RunND env (hid b) (env.reset (hid b)) as s) (hd : s.done = true) : s.reward = some (-3) := by
  match as, hr with
  | [], hr =>
    have := runND_nil_inv hr; subst this
    cases b <;> (revert hd; decide)
  | a :: as, hr =>
    obtain ⟨_, ha, hm, hrest⟩ := runND_cons_inv hr
    have ha' : a < 3 := ha
    match a, ha', hm, hrest with
    | 0, _, _, hrest => exact hid_second b 0 (Or.inl rfl) as s hrest hd
    | 1, _, _, hrest => exact hid_second b 1 (Or.inr rfl) as s hrest hd
    | 2, _, hm, _ => exfalso; cases b <;> (revert hm; decide)


/-- The statement one would like (C05): for every valid schedule some mask-confined episode is at
least as good. -/
def opt_reachable_statement : Prop :=
  ∀ (i : Inst), WF i → ∀ ops, Valid i ops →
    ∃ as s r, RunND env i (env.reset i) as s ∧ s.done = true ∧ s.reward = some r ∧ - makespan i ops ≤ r

theorem hid_wf (b : Bool) : WF (hid b) :=
  ⟨by simp [hid], by simp [hid], by simp [hid],
   by intro p hp; have : p < 2 := hp; cases b <;> simp [hid] <;> omega,
   by intro j m _ _; apply small_lt_unset; simp only [hid]; split <;> omega⟩

/-- **The mask hides the optimum** (known finding `ffsp-mask-hides-optimum-C05`). -/
theorem not_opt_reachable : ¬ opt_reachable_statement := by
  intro hst
  obtain ⟨as, s, r, hr, hd, hrw, hle⟩ :=
    hst (hid false) (hid_wf false) hidOpt ((valid_iff _ _).mp (hidOpt_valid false).1)
  have := hid_all_runs false as s hr hd
  rw [this] at hrw
  injection hrw with hrw
  rw [(hidOpt_valid false).2] at hle
  omega

/-- … and it stays hidden when the other machine permutation (the other multi-start) is used. -/
theorem optimum_hidden (b : Bool) (as : List Nat) (s : State)
    (hr : RunND env (hid b) (env.reset (hid b)) as s) (hd : s.done = true) :
    s.reward = some (-3) ∧ valid (hid b) hidOpt = true ∧ makespan (hid b) hidOpt = 2 :=
  ⟨hid_all_runs b as s hr hd, hidOpt_valid b⟩

/-! ### The mask offers exactly the available jobs -/

theorem jexact_advance (i : Inst) (s : State) (e : JExact i s) : JExact i (advance i s) := by
  intro j hj hp
  by_cases hw : s.sub + 1 = MT i
  · have hb : (s.sub + 1 == MT i) = true := by simpa using hw
    have e1 : (advance i s).jwait j = s.jwait j - 1 := by simp [advance, hb]
    have e2 : (advance i s).time = s.time + 1 := by simp [advance, hb]
    rw [e1] at hp
    obtain ⟨m, h1, h2⟩ := e j hj (by omega)
    refine ⟨m, h1, ?_⟩
    rw [e1, e2]
    have : (advance i s).sched m j = s.sched m j := rfl
    omega
  · have hb : (s.sub + 1 == MT i) = false := by simpa using hw
    have e1 : (advance i s).jwait j = s.jwait j := by simp [advance, hb]
    have e2 : (advance i s).time = s.time := by simp [advance, hb]
    rw [e1] at hp
    obtain ⟨m, h1, h2⟩ := e j hj hp
    exact ⟨m, h1, by rw [e1, e2]; exact h2⟩

theorem jexact_iter (i : Inst) (s : State) (e : JExact i s) : ∀ n, JExact i (iter i n s)
  | 0 => e
  | n + 1 => jexact_advance i _ (jexact_iter i s e n)

theorem jexact_moveNext (i : Inst) (s : State) (e : JExact i s) : JExact i (moveNext i s) := by
  unfold moveNext
  split
  · exact e
  · obtain ⟨n, _, _, he⟩ := moveLoop_is_iter i (moveFuel i s) s
    rw [he]; exact jexact_iter i s e n

theorem jexact_apply (i : Inst) (s : State) (e : JExact i s) (a : Nat) : JExact i (apply i s a) := by
  intro j hj hp
  obtain ⟨e1, _, _, _, _, e6, _, _⟩ := apply_fields i s a
  by_cases hja : j = a
  · subst hja
    have hjw : (apply i s j).jwait j = i.dur j s.midx := by rw [e6, upd_same]; simp [jobDur, hj]
    have hsch : (apply i s j).sched s.midx j = (s.time : Int) := by rw [apply_sched]; simp
    refine ⟨s.midx, ?_, ?_⟩
    · rw [hsch]; have := unset_neg; omega
    · rw [hsch, e1, hjw]
  · rw [e6, upd_other _ _ _ _ hja] at hp
    obtain ⟨m, h1, h2⟩ := e j hj hp
    have hs : (apply i s a).sched m j = s.sched m j := by
      rw [apply_sched]; simp [hja]
    exact ⟨m, by rw [hs]; exact h1, by rw [hs, e1, e6, upd_other _ _ _ _ hja]; exact h2⟩

theorem jexact_of_reach (i : Inst) {s : State} (hr : Reach envM i s) : JExact i s :=
  inv_of_reach (e := envM) (Inv := JExact i) (fun j _ hp => absurd hp (Nat.lt_irrefl 0))
    (fun s a hi _ _ => by
      show JExact i (updateMask i (moveNext i (apply i s a)))
      exact jexact_moveNext i _ (jexact_apply i s hi a)) hr

/-- **C05 (FFSP), per decision.**  In every unfinished state of a row the mask offers job `a` iff `a`
is in the stage of the current machine and all its operations so far are completed by the current time
(`≤`: a job whose previous operation ends exactly now is offered). -/
theorem mask_iff_available (i : Inst) (h : WF i) {s : State} (hr : Reach envM i s) (a : Nat) (ha : a < i.J) :
    s.mask a = true ↔
      (s.jloc a = stageOf i s.sub ∧
        ∀ m, s.sched m a ≠ UNSET → s.sched m a + (i.dur a m : Int) ≤ (s.time : Int)) := by
  have l := live_of_reach i h hr
  rw [mask_job i s l.fresh ha]
  simp only [Bool.and_eq_true, beq_iff_eq]
  constructor
  · rintro ⟨h1, h2⟩
    refine ⟨h1, fun m hs => ?_⟩
    have := l.core.job_busy m a ha hs
    rw [h2] at this; simpa using this
  · rintro ⟨h1, h2⟩
    refine ⟨h1, ?_⟩
    apply Classical.byContradiction
    intro hne
    obtain ⟨m, hs, he⟩ := jexact_of_reach i hr a ha (by omega)
    have := h2 m hs
    omega

/-- Non-vacuity: on `hid false` both jobs are offered at reset (and the wait action is not). -/
example : (reset (hid false)).mask 0 = true ∧ (reset (hid false)).mask 1 = true ∧
    (reset (hid false)).mask 2 = false := by decide


/-! ### Reachable through the mask = expressible -/

/-- bijectivity of the machine permutation -/
def PermBij (i : Inst) : Prop := PermInj i ∧ PermSurj i

theorem ofMatrix_congr (i : Inst) {σ τ : Nat → Nat → Int}
    (h : ∀ m j, m < MT i → j < i.J → σ m j = τ m j) : ∀ o, o ∈ ofMatrix i σ ↔ o ∈ ofMatrix i τ := by
  intro o
  rw [mem_ofMatrix, mem_ofMatrix]
  constructor
  · rintro ⟨h1, h2, h3, h4⟩
    exact ⟨h1, h2, by rw [← h _ _ h1 h2]; exact h3, by rw [← h _ _ h1 h2]; exact h4⟩
  · rintro ⟨h1, h2, h3, h4⟩
    exact ⟨h1, h2, by rw [h _ _ h1 h2]; exact h3, by rw [h _ _ h1 h2]; exact h4⟩

theorem ofMatrix_eq (i : Inst) {σ τ : Nat → Nat → Int}
    (h : ∀ m j, m < MT i → j < i.J → σ m j = τ m j) : ofMatrix i σ = ofMatrix i τ := by
  unfold ofMatrix
  have key : ∀ n, n ≤ MT i →
      (List.range n).flatMap (fun m =>
        ((List.range i.J).filter (fun j => σ m j != UNSET)).map (fun j => (⟨j, m, σ m j⟩ : Op))) =
      (List.range n).flatMap (fun m =>
        ((List.range i.J).filter (fun j => τ m j != UNSET)).map (fun j => (⟨j, m, τ m j⟩ : Op))) := by
    intro n
    induction n with
    | zero => intro _; rfl
    | succ n ih =>
      intro hle
      rw [List.range_succ, List.flatMap_append, List.flatMap_append, ih (by omega)]
      congr 1
      simp only [List.flatMap_cons, List.flatMap_nil, List.append_nil]
      have hf : (List.range i.J).filter (fun j => σ n j != UNSET) =
          (List.range i.J).filter (fun j => τ n j != UNSET) :=
        List.filter_congr (fun j hj => by rw [h n j (by omega) (List.mem_range.mp hj)])
      rw [hf]
      apply List.map_congr_left
      intro j hj
      rw [h n j (by omega) (List.mem_range.mp (List.mem_filter.mp hj).1)]
  exact key _ (Nat.le_refl _)

/-- **C05 (FFSP): the mask reaches exactly the expressible schedules.**  A schedule matrix `σ` is the
schedule of some finished mask-confined episode iff its operation list is valid and expressible. -/
theorem reachable_iff_expressible (i : Inst) (h : WF i) (hb : PermBij i) (σ : Nat → Nat → Int) :
    (∃ as s, RunND env i (env.reset i) as s ∧ s.done = true ∧
        ∀ m j, m < MT i → j < i.J → s.sched m j = σ m j) ↔
    (Valid i (ofMatrix i σ) ∧ Expressible i (ofMatrix i σ)) := by
  constructor
  · rintro ⟨as, s, hr, hd, hag⟩
    have hv := schedule_valid i h hr hd
    have he := episode_expressible i h hb.1 hr hd
    have hlist : ofMatrix i s.sched = ofMatrix i σ := ofMatrix_eq i hag
    rw [← hlist]; exact ⟨hv, he⟩
  · rintro ⟨hv, he⟩
    exact expressible_reachable i h hb.1 hb.2 σ hv he

/-- **The rewards reachable through the mask are exactly the negated makespans of the valid expressible
schedules.** -/
theorem reachable_rewards_eq (i : Inst) (h : WF i) (hb : PermBij i) (v : Int) :
    (∃ as s, RunND env i (env.reset i) as s ∧ s.done = true ∧ s.reward = some (-v)) ↔
    (∃ σ : Nat → Nat → Int, Valid i (ofMatrix i σ) ∧ Expressible i (ofMatrix i σ) ∧
        makespan i (ofMatrix i σ) = v) := by
  constructor
  · rintro ⟨as, s, hr, hd, hrw⟩
    refine ⟨s.sched, schedule_valid i h hr hd, episode_expressible i h hb.1 hr hd, ?_⟩
    have := (reward_eq_makespan i h hr hd).1
    rw [hrw] at this
    injection this with this; omega
  · rintro ⟨σ, hv, he, hmk⟩
    obtain ⟨as, s, hr, hd, hag⟩ := expressible_reachable i h hb.1 hb.2 σ hv he
    refine ⟨as, s, hr, hd, ?_⟩
    have hrw := (reward_eq_makespan i h hr hd).1
    have hlist : ofMatrix i s.sched = ofMatrix i σ := ofMatrix_eq i hag
    rw [hrw, hlist, hmk]

/-- **Best reward through the mask = −(optimum over the expressible class)**, as an `∃ … ∧ ∀ …`
statement: `r` is attained by a finished mask-confined episode and no episode does better, iff `−r` is the
makespan of a valid expressible schedule and no valid expressible schedule has a smaller one. -/
theorem best_reward_is_expressible_optimum (i : Inst) (h : WF i) (hb : PermBij i) (r : Int) :
    ((∃ as s, RunND env i (env.reset i) as s ∧ s.done = true ∧ s.reward = some r) ∧
      (∀ as s r', RunND env i (env.reset i) as s → s.done = true → s.reward = some r' → r' ≤ r)) ↔
    ((∃ σ : Nat → Nat → Int, Valid i (ofMatrix i σ) ∧ Expressible i (ofMatrix i σ) ∧
        makespan i (ofMatrix i σ) = -r) ∧
      (∀ σ : Nat → Nat → Int, Valid i (ofMatrix i σ) → Expressible i (ofMatrix i σ) →
        -r ≤ makespan i (ofMatrix i σ))) := by
  have key := reachable_rewards_eq i h hb
  constructor
  · rintro ⟨⟨as, s, hr, hd, hrw⟩, hbest⟩
    refine ⟨(key (-r)).mp ⟨as, s, hr, hd, by simpa using hrw⟩, ?_⟩
    intro σ hv he
    obtain ⟨as', s', hr', hd', hrw'⟩ := (key (makespan i (ofMatrix i σ))).mpr ⟨σ, hv, he, rfl⟩
    have := hbest as' s' _ hr' hd' hrw'
    omega
  · rintro ⟨hex, hall⟩
    obtain ⟨as, s, hr, hd, hrw⟩ := (key (-r)).mpr hex
    refine ⟨⟨as, s, hr, hd, by simpa using hrw⟩, ?_⟩
    intro as' s' r' hr' hd' hrw'
    obtain ⟨σ, hv, he, hmk⟩ := (key (-r')).mp ⟨as', s', hr', hd', by simpa using hrw'⟩
    have := hall σ hv he
    omega

/-- every row of a batch is stepped with a bijective machine permutation (`IndexTables`), so the three
theorems above apply to every row inside the permutation table -/
theorem rowInst_permBij (tb : Tables) (S J : Nat) (flat : Bool) (dur : Nat → Nat → Nat) (row : Nat)
    (hrow : pomoIdx tb.bs row < fact tb.M) : PermBij (rowInst tb S J flat dur row) :=
  ⟨tables_perm_inj tb row hrow, tables_perm_surj tb row hrow⟩

/-- Non-vacuity: on the witness instance the expressible class is non-empty and misses the optimum — the
schedule of the episode `[0, 1]` is valid and expressible with makespan 3, `hidOpt` (makespan 2) is valid
but not expressible. -/
example : valid (hid false) (ofMatrix (hid false) (exec env (hid false) (reset (hid false)) [0, 1]).sched) = true ∧
    expressible (hid false) (ofMatrix (hid false) (exec env (hid false) (reset (hid false)) [0, 1]).sched) = true ∧
    expressible (hid false) hidOpt = false := by decide
example : PermBij (hid false) :=
  ⟨fun _ _ _ _ he => he, fun y hy => ⟨y, hy, rfl⟩⟩

/-! ### Where the expressible class sits: strict non-delay ⊆ expressible ⊆ valid, both proper -/

/-- every schedule that is non-delay with the sweep's tie rule is expressible (the premise of the
expressibility condition never arises) -/
theorem expressible_of_strictNonDelay (i : Inst) (ops : List Op) (hs : StrictNonDelay i ops)
    (hnd : ∀ o, o ∈ ops → ∀ o', o' ∈ ops → o ≠ o' → o.machine = o'.machine → o.start ≠ o'.start) :
    Expressible i ops :=
  ⟨fun t ht sub hsub hidle hav => absurd hav (hs t ht sub hsub hidle), hnd⟩

/-- 2 stages × 2 machines, 3 unit jobs -/
def nd3 (swap : Bool) : Inst :=
  ⟨2, 2, 3, fun _ _ => 1, fun p => if swap then 1 - p else p, true⟩

/-- jobs 0,1 start together and job 2 follows, in both stages (a permutation schedule without any
avoidable idling); job 2 takes the *second* machine of stage 0 and the *first* machine of stage 1 -/
def nd3Ops : List Op :=
  [⟨0, 0, 0⟩, ⟨1, 1, 0⟩, ⟨2, 1, 1⟩, ⟨0, 2, 1⟩, ⟨1, 3, 1⟩, ⟨2, 2, 2⟩]

/-- **Not every non-delay permutation schedule is expressible** — under either machine permutation:
the machine order of the sweep is the same in every stage, so "second machine first" in stage 0 and
"first machine first" in stage 1 cannot both be met.  (The makespan 3 of this schedule is nevertheless
reachable; `expressible` ⊊ `valid` costs optimality only on instances like `hid`.) -/
theorem nondelay_permutation_not_expressible (b : Bool) :
    valid (nd3 b) nd3Ops = true ∧ NonDelay (nd3 b) nd3Ops ∧ PermutationSchedule (nd3 b) nd3Ops ∧
    ¬ Expressible (nd3 b) nd3Ops := by
  cases b <;> decide

/-- an expressible schedule that is not non-delay (waiting while a job is still in the previous stage):
on `ex` (`Props/C07`) the episode `[0, 1, wait, 0, 1]` — the classes are incomparable with plain
non-delay, and strict non-delay is a proper subclass -/
example : Expressible ex (ofMatrix ex (exec env ex (reset ex) [0, 1, 2, 0, 1]).sched) ∧
    ¬ StrictNonDelay ex (ofMatrix ex (exec env ex (reset ex) [0, 1, 2, 0, 1]).sched) := by decide

/-! ### Zero durations: why `Expressible` has its second clause -/

/-- one machine, two jobs of duration 0 -/
def zz : Inst := ⟨1, 1, 2, fun _ _ => 0, fun p => p, true⟩
/-- both jobs at time 0 on the one machine: a *valid* schedule (empty intervals do not overlap) that
satisfies the idle-machine clause of expressibility — and is not reachable: the sweep visits a machine
once per time unit -/
def zzOps : List Op := [⟨0, 0, 0⟩, ⟨1, 0, 0⟩]
def zzSigma : Nat → Nat → Int := fun m j => if m = 0 ∧ j < 2 then 0 else UNSET

theorem double_start_clause_needed :
    valid zz zzOps = true ∧ ofMatrix zz zzSigma = zzOps ∧
    (∀ t, t ≤ horizon zzOps → ∀ sub, sub < MT zz → Idle zz zzOps (machineOf zz sub) t →
      (∃ j, j < zz.J ∧ Avail zz zzOps j t sub) → SkipOK zz zzOps (sub / zz.M) t) ∧
    ¬ ∃ as s, RunND env zz (env.reset zz) as s ∧ s.done = true ∧
        ∀ m j, m < MT zz → j < zz.J → s.sched m j = zzSigma m j := by
  refine ⟨by decide, by decide, by decide, ?_⟩
  intro hex
  have hw : WF zz := ⟨by decide, by decide, by decide, fun p hp => hp, fun j m _ _ => small_lt_unset (by simp [zz])⟩
  have hb : PermBij zz := ⟨fun _ _ _ _ he => he, fun y hy => ⟨y, hy, rfl⟩⟩
  have := ((reachable_iff_expressible zz hw hb zzSigma).mp hex).2
  have he : ofMatrix zz zzSigma = zzOps := by decide
  rw [he] at this
  revert this
  decide

end Rl4co.Ffsp
