/-
C05 for OP: does the mask hide a feasible tour?

KNOWN FINDING (`known_findings.json`: op-margin-hides-equality-C05).  `_reset` subtracts `1e-6` from
the per-node budget and the mask compares with a strict `>`, so a tour whose length equals
`max_length` exactly — feasible by the problem statement, accepted by the env's own checker — is
never offered.  Hence the full completeness statement is FALSE of the faithful model:

* `run_of_feasible_statement`       the full statement (every canonical feasible tour is a finished
                                    mask-confined run), for well-formed instances;
* `run_of_feasible_counterexample`  its refutation on the budgets read back from the real reset state
                                    of a two-node instance (unit 2^-26): depot (0.5,0.5), customer
                                    (0.75,0.5), max_length 0.5, tour `[1, 0]` of length exactly 0.5;
* `run_of_feasible_partial`         what does hold: if the pre-computed budgets are within `eps` of
                                    `L − D j 0`, every canonical feasible tour of length ≤ `L − eps`
                                    is a finished mask-confined run (for a margin-free environment,
                                    `eps = 0`, this is the full statement);
* `opt_reachable_partial`           every feasible action list (canonical or not) with that slack has a
                                    finished mask-confined episode collecting the same prize.

`Canonical` removes exactly the documented pruning: the episode ends at the first return to the
depot; the empty tour is `[0, 0]` (the code does not count a depot step at `i = 0` as a return).
-/
import Rl4co.Env.Op
import Rl4co.Spec.Op
import Rl4co.Props.C01.Op
import Rl4co.Props.C03.Op

namespace Rl4co.Op
open Rl4co.Spec.Op Rl4co.Prize

/-- canonical complete solutions: customers, then one return; or the empty tour `[0, 0]` -/
def Canonical (as : List Nat) : Prop :=
  as = [0, 0] ∨ ∃ cs, cs ≠ [] ∧ (∀ c ∈ cs, c ≠ 0) ∧ as = cs ++ [0]

/-- triangle inequality towards the depot (Euclidean distances satisfy it) -/
def TriToDepot (i : Inst) : Prop := ∀ a b, i.D a 0 ≤ i.D a b + i.D b 0

/-- the pre-computed budgets are not more than `eps` below `L − D j 0` -/
def MarginLe (i : Inst) (eps : Int) : Prop :=
  ∀ j, 1 ≤ j → j ≤ i.n → i.L - i.D j 0 - eps ≤ i.budget j

/-- The full completeness statement. -/
def run_of_feasible_statement : Prop :=
  ∀ (i : Inst) (as : List Nat), WF i → TriToDepot i → Feasible i as → Canonical as →
    ∃ s, Run env i (env.reset i) as s ∧ env.done i s = true

/-- the real reset state of: depot (0.5,0.5), one customer at (0.75,0.5), max_length 0.5; unit 2^-26 -/
def cexInst : Inst :=
  { n := 1, L := 33554432, D := fun a b => if a = b then 0 else 16777216, prize := fun _ => 67108864,
    budget := fun j => if j = 0 then 33554364 else 16777149, cbound := fun _ => 33555104 }

theorem cex_wf : WF cexInst :=
  ⟨by decide, by decide, by
    intro j h1 h2
    have : j = 1 := by simp only [cexInst] at h2; omega
    subst this; decide⟩

theorem cex_tri : TriToDepot cexInst := by
  intro a b
  simp only [cexInst]
  split <;> split <;> split <;> omega

theorem cex_feasible : Feasible cexInst [1, 0] := (feasible_iff _ _).mp (by decide)

theorem cex_canonical : Canonical [1, 0] := Or.inr ⟨[1], by simp, by simp, rfl⟩

/-- **C05 (OP), counterexample**: the tour `[1, 0]` has length exactly `max_length` and is not offered. -/
theorem run_of_feasible_counterexample : ¬ run_of_feasible_statement := by
  intro h
  obtain ⟨s, hr, _⟩ := h cexInst [1, 0] cex_wf cex_tri cex_feasible cex_canonical
  have := ((run_iff_admitted _ _ _ _ _).mp hr).1
  revert this
  decide

/-- the way home is never longer than any path home -/
theorem dist_le_path (i : Inst) (htri : TriToDepot i) (t : List Nat) (c : Nat) :
    i.D c 0 ≤ pathLen i.D (c :: t ++ [0]) := by
  induction t generalizing c with
  | nil => simp [pathLen]
  | cons y t ih =>
    have h1 : c :: (y :: t) ++ [0] = c :: y :: (t ++ [0]) := by simp
    have h2 : y :: (t ++ [0]) = y :: t ++ [0] := by simp
    rw [h1, pathLen_cons_cons, h2]
    have := ih y
    have := htri c y
    omega

/-- customers of a tour with slack `eps` are admitted one after the other (generalised start state) -/
theorem run_customers (i : Inst) (eps : Int) (htri : TriToDepot i) (hmar : MarginLe i eps) :
    ∀ (cs : List Nat) (s : State), s.vis 0 = false →
      (∀ c ∈ cs, c ≠ 0 ∧ c ≤ i.n ∧ s.vis c = false) → cs.Nodup →
      s.len + pathLen i.D (s.cur :: cs ++ [0]) ≤ i.L - eps →
      ∃ s', Run env i s cs s' ∧ s'.vis 0 = false ∧ s'.i = s.i + cs.length := by
  intro cs
  induction cs with
  | nil => intro s hv _ _ _; exact ⟨s, Run.nil s, hv, by simp⟩
  | cons c t ih =>
    intro s hv0 hcs hnd hlen
    obtain ⟨hc0, hcn, hvc⟩ := hcs c (List.mem_cons_self)
    obtain ⟨hnot, hnd'⟩ := List.nodup_cons.mp hnd
    have h1 : s.cur :: (c :: t) ++ [0] = s.cur :: c :: (t ++ [0]) := by simp
    have h2 : c :: (t ++ [0]) = c :: t ++ [0] := by simp
    rw [h1, pathLen_cons_cons, h2] at hlen
    have hhome := dist_le_path i htri t c
    have hbud := hmar c (by omega) hcn
    have hmask : env.mask i s c = true := by
      simp only [env, mask, hc0, if_false, baseMask, exceeds, Params.opMaskLenCmp, Cmp.eval, hvc, hv0,
        Bool.false_or, Bool.not_eq_true', decide_eq_false_iff_not]
      omega
    have hv0' : (env.step i s c).vis 0 = false := by
      simp only [env, step, upd_apply]
      have : (0 : Nat) ≠ c := fun h => hc0 h.symm
      simp [this, hv0]
    have hcs' : ∀ d ∈ t, d ≠ 0 ∧ d ≤ i.n ∧ (env.step i s c).vis d = false := by
      intro d hd
      obtain ⟨hd0, hdn, hvd⟩ := hcs d (List.mem_cons_of_mem _ hd)
      refine ⟨hd0, hdn, ?_⟩
      have : d ≠ c := fun h => hnot (h ▸ hd)
      simp [env, step, this, hvd]
    have hlen' : (env.step i s c).len + pathLen i.D ((env.step i s c).cur :: t ++ [0]) ≤ i.L - eps := by
      simp only [env, step]; omega
    obtain ⟨s', hr, hv', hi'⟩ := ih (env.step i s c) hv0' hcs' hnd' hlen'
    refine ⟨s', Run.cons (by simp [env]; omega) hmask hr, hv', ?_⟩
    rw [hi']; simp [env, step]; omega

/-- **C05 (OP), partial**: feasible canonical tours that keep `eps` of the budget unused are finished
mask-confined runs, `eps` being any bound on the code's margin. -/
theorem run_of_feasible_partial (i : Inst) (eps : Int) (hd00 : i.D 0 0 = 0) (htri : TriToDepot i)
    (hmar : MarginLe i eps) {as : List Nat} (hf : Feasible i as) (hslack : tourLen i as ≤ i.L - eps) (hc : Canonical as) :
    ∃ s, Run env i (env.reset i) as s ∧ env.done i s = true := by
  rcases hc with h00 | ⟨cs, hne, hnz, has⟩
  · subst h00
    refine ⟨exec env i (env.reset i) [0, 0], (run_iff_admitted _ _ _ _ _).mpr ⟨?_, rfl⟩, ?_⟩
    · simp [admitted, env, mask, Params.opDepotForcedOpen]
    · simp [exec, env, done, step, reset, Params.opDoneCmp, Cmp.evalNat]
  · subst has
    have hcs : ∀ c ∈ cs, c ≠ 0 ∧ c ≤ i.n ∧ (env.reset i).vis c = false := by
      intro c hc
      exact ⟨hnz c hc, hf.range c (List.mem_append_left _ hc), rfl⟩
    have hnd : cs.Nodup := by
      rw [List.nodup_iff_count]
      intro a
      by_cases hmem : a ∈ cs
      · have ha0 := hnz a hmem
        have han := hf.range a (List.mem_append_left _ hmem)
        have := hf.once a (by omega) han
        rw [List.count_append] at this
        omega
      · rw [List.count_eq_zero_of_not_mem hmem]; omega
    have hlen : (env.reset i).len + pathLen i.D ((env.reset i).cur :: cs ++ [0]) ≤ i.L - eps := by
      have e : 0 :: (cs ++ [0]) ++ [0] = (0 :: (cs ++ [0])) ++ [0] := by simp
      have hl : ((0 :: (cs ++ [0])).getLast (by simp)) = 0 := by
        rw [List.getLast_cons (by simp)]; simp
      simp only [tourLen] at hslack
      rw [e, pathLen_append_singleton, hl, hd00] at hslack
      simpa [env, reset] using hslack
    obtain ⟨s', hr, hv', hi'⟩ := run_customers i eps htri hmar cs (env.reset i) rfl hcs hnd hlen
    have hm0 : env.mask i s' 0 = true := by simp [env, mask, Params.opDepotForcedOpen]
    refine ⟨env.step i s' 0, hr.snoc (by simp [env]) hm0, ?_⟩
    have hpos : 0 < cs.length := List.length_pos_iff.mpr hne
    simp only [env, reset] at hi'
    simp [env, done, step, Params.opDoneCmp, Cmp.evalNat, hi']
    omega

theorem canon_canonical (as : List Nat) : Canonical (canon as) := by
  unfold canon
  split
  · exact Or.inl rfl
  · rename_i h
    exact Or.inr ⟨customers as, h, fun c hc => (mem_customers.mp hc).2, rfl⟩

/-- the canonical representative collects the same prize -/
theorem objective_canon (i : Inst) (as : List Nat) : objective i (canon as) = objective i as := by
  simp only [objective]
  apply sumTo_congr
  intro k _
  have : (k + 1 ∈ canon as) ↔ (k + 1 ∈ as) := mem_canon (by omega)
  by_cases h : k + 1 ∈ as <;> simp [h, this]

/-- … is feasible and not longer -/
theorem canon_feasible (i : Inst) (h00 : i.D 0 0 = 0) (htri : ∀ a b, i.D a b ≤ i.D a 0 + i.D 0 b)
    {as : List Nat} (hf : Feasible i as) :
    Feasible i (canon as) ∧ tourLen i (canon as) ≤ tourLen i as := by
  have hlen := pathLen_canon_le i.D h00 htri as
  refine ⟨⟨canon_range hf.range, ?_, ?_⟩, hlen⟩
  · intro j h1 h2
    rw [count_canon as j (by omega)]
    exact hf.once j h1 h2
  · have := hf.length
    simp only [tourLen] at this ⊢
    omega

/-- **C05 (OP), optimum reachable, partial**: for every feasible tour — canonical or not — that keeps
`eps` of the budget unused there is a finished mask-confined episode collecting the same prize. -/
theorem opt_reachable_partial (i : Inst) (eps : Int) (h00 : i.D 0 0 = 0) (htri0 : TriToDepot i)
    (htri : ∀ a b, i.D a b ≤ i.D a 0 + i.D 0 b) (hmar : MarginLe i eps)
    {as : List Nat} (hf : Feasible i as) (hslack : tourLen i as ≤ i.L - eps) :
    ∃ as' s, Run env i (env.reset i) as' s ∧ env.done i s = true ∧ reward i as' = objective i as := by
  obtain ⟨hf', hle⟩ := canon_feasible i h00 htri hf
  obtain ⟨s, hr, hd⟩ := run_of_feasible_partial i eps h00 htri0 hmar hf' (by omega) (canon_canonical as)
  exact ⟨canon as, s, hr, hd, by rw [reward_eq_objective i hr hd, objective_canon]⟩

/-- Non-vacuity of the partial theorem: on the real budgets of `cexInst` the margin is at most 67
units (2^-26 each, i.e. 1e-6 rounded), and with `max_length = 0.5 + 2^-19` (budgets read back) the
same tour is offered. -/
example : MarginLe cexInst 67 := by
  intro j h1 h2
  have : j = 1 := by simp only [cexInst] at h2; omega
  subst this; decide
example : ∃ s, Run env { cexInst with L := 33554560, budget := fun j => if j = 0 then 33554492 else 16777276, cbound := fun _ => 33555232 }
    (env.reset cexInst) [1, 0] s ∧ s.done = true :=
  ⟨_, (run_iff_admitted _ _ _ _ _).2 ⟨by decide, rfl⟩, by decide⟩

end Rl4co.Op
