/-
C05 for OP: does the mask hide a feasible tour?

KNOWN FINDING (`known_findings.json`: op-margin-hides-equality-C05).  `_reset` subtracts `1e-6` from
the per-node budget and the mask compares with a strict `>`, so a tour whose length equals
`max_length` exactly — feasible by the problem statement, accepted by the env's own checker — is
never offered.  Hence the full completeness statement is FALSE of the faithful model:

* `run_of_feasible_statement`       the full statement (every canonical feasible tour is a finished
                                    mask-confined run), for well-formed instances;
* `run_of_feasible_counterexample`  its refutation on the budgets read back from the real reset state
                                    of a two-node instance (unit 2^-26): depot (0.5,0.5), customer
                                    (0.75,0.5), max_length 0.5, tour `[1, 0]` of length exactly 0.5;
* `run_of_feasible_partial`         what does hold: if the pre-computed budgets are within `eps` of
                                    `L − D j 0`, every canonical feasible tour of length ≤ `L − eps`
                                    is a finished mask-confined run (for a margin-free environment,
                                    `eps = 0`, this is the full statement);
* `opt_reachable_partial`           every feasible action list (canonical or not) with that slack has a
                                    finished mask-confined episode collecting the same prize;
* `Precomp` / `marginGe_of_precomp` / `marginLe_of_precomp` / `feasible_of_run_precomp`
                                    the reset-time pre-computation `max_length − dist − 1e-6` (constant
                                    extracted from the source) inside the model: the read-back budgets are
                                    that formula up to a rounding error, which yields both margin bounds and
                                    C01 without any further hypothesis on the budgets;
* `opt_eq_margin` / `opt_sandwich` / `reachable_le_feasible`
                                    the best prize reachable through the mask EQUALS the optimum over the
                                    feasible tours of length ≤ L − margin, and is ≤ the optimum over ≤ L.

`Canonical` removes exactly the documented pruning: the episode ends at the first return to the
depot; the empty tour is `[0, 0]` (the code does not count a depot step at `i = 0` as a return).
-/
import Rl4co.Env.Op
import Rl4co.Spec.Op
import Rl4co.Props.C01.Op
import Rl4co.Props.C03.Op

namespace Rl4co.Op
open Rl4co.Spec.Op Rl4co.Prize

/-- canonical complete solutions: customers, then one return; or the empty tour `[0, 0]` -/
def Canonical (as : List Nat) : Prop :=
  as = [0, 0] ∨ ∃ cs, cs ≠ [] ∧ (∀ c ∈ cs, c ≠ 0) ∧ as = cs ++ [0]

/-- triangle inequality towards the depot (Euclidean distances satisfy it) -/
def TriToDepot (i : Inst) : Prop := ∀ a b, i.D a 0 ≤ i.D a b + i.D b 0

/-- the pre-computed budgets are not more than `eps` below `L − D j 0` -/
def MarginLe (i : Inst) (eps : Int) : Prop :=
  ∀ j, 1 ≤ j → j ≤ i.n → i.L - i.D j 0 - eps ≤ i.budget j

/-- The full completeness statement. -/
def run_of_feasible_statement : Prop :=
  ∀ (i : Inst) (as : List Nat), WF i → TriToDepot i → Feasible i as → Canonical as →
    ∃ s, Run env i (env.reset i) as s ∧ env.done i s = true

/-- the real reset state of: depot (0.5,0.5), one customer at (0.75,0.5), max_length 0.5; unit 2^-26 -/
def cexInst : Inst :=
  { n := 1, L := 33554432, D := fun a b => if a = b then 0 else 16777216, prize := fun _ => 67108864,
    budget := fun j => if j = 0 then 33554364 else 16777149, cbound := fun _ => 33555104 }

theorem cex_wf : WF cexInst :=
  ⟨by decide, by decide, by
    intro j h1 h2
    have : j = 1 := by simp only [cexInst] at h2; omega
    subst this; decide⟩

theorem cex_tri : TriToDepot cexInst := by
  intro a b
  simp only [cexInst]
  split <;> split <;> split <;> omega

theorem cex_feasible : Feasible cexInst [1, 0] := (feasible_iff _ _).mp (by decide)

theorem cex_canonical : Canonical [1, 0] := Or.inr ⟨[1], by simp, by simp, rfl⟩

/-- **C05 (OP), counterexample**: the tour `[1, 0]` has length exactly `max_length` and is not offered. -/
theorem run_of_feasible_counterexample : ¬ run_of_feasible_statement := by
  intro h
  obtain ⟨s, hr, _⟩ := h cexInst [1, 0] cex_wf cex_tri cex_feasible cex_canonical
  have := ((run_iff_admitted _ _ _ _ _).mp hr).1
  revert this
  decide

/-- the way home is never longer than any path home -/
theorem dist_le_path (i : Inst) (htri : TriToDepot i) (t : List Nat) (c : Nat) :
    i.D c 0 ≤ pathLen i.D (c :: t ++ [0]) := by
  induction t generalizing c with
  | nil => simp [pathLen]
  | cons y t ih =>
    have h1 : c :: (y :: t) ++ [0] = c :: y :: (t ++ [0]) := by simp
    have h2 : y :: (t ++ [0]) = y :: t ++ [0] := by simp
    rw [h1, pathLen_cons_cons, h2]
    have := ih y
    have := htri c y
    omega

/-- customers of a tour with slack `eps` are admitted one after the other (generalised start state) -/
theorem run_customers (i : Inst) (eps : Int) (htri : TriToDepot i) (hmar : MarginLe i eps) :
    ∀ (cs : List Nat) (s : State), s.vis 0 = false →
      (∀ c ∈ cs, c ≠ 0 ∧ c ≤ i.n ∧ s.vis c = false) → cs.Nodup →
      s.len + pathLen i.D (s.cur :: cs ++ [0]) ≤ i.L - eps →
      ∃ s', Run env i s cs s' ∧ s'.vis 0 = false ∧ s'.i = s.i + cs.length := by
  intro cs
  induction cs with
  | nil => intro s hv _ _ _; exact ⟨s, Run.nil s, hv, by simp⟩
  | cons c t ih =>
    intro s hv0 hcs hnd hlen
    obtain ⟨hc0, hcn, hvc⟩ := hcs c (List.mem_cons_self)
    obtain ⟨hnot, hnd'⟩ := List.nodup_cons.mp hnd
    have h1 : s.cur :: (c :: t) ++ [0] = s.cur :: c :: (t ++ [0]) := by simp
    have h2 : c :: (t ++ [0]) = c :: t ++ [0] := by simp
    rw [h1, pathLen_cons_cons, h2] at hlen
    have hhome := dist_le_path i htri t c
    have hbud := hmar c (by omega) hcn
    have hmask : env.mask i s c = true := by
      simp only [env, mask, hc0, if_false, baseMask, exceeds, Params.opMaskLenCmp, Cmp.eval, hvc, hv0,
        Bool.false_or, Bool.not_eq_true', decide_eq_false_iff_not]
      omega
    have hv0' : (env.step i s c).vis 0 = false := by
      simp only [env, step, upd_apply]
      have : (0 : Nat) ≠ c := fun h => hc0 h.symm
      simp [this, hv0]
    have hcs' : ∀ d ∈ t, d ≠ 0 ∧ d ≤ i.n ∧ (env.step i s c).vis d = false := by
      intro d hd
      obtain ⟨hd0, hdn, hvd⟩ := hcs d (List.mem_cons_of_mem _ hd)
      refine ⟨hd0, hdn, ?_⟩
      have : d ≠ c := fun h => hnot (h ▸ hd)
      simp [env, step, this, hvd]
    have hlen' : (env.step i s c).len + pathLen i.D ((env.step i s c).cur :: t ++ [0]) ≤ i.L - eps := by
      simp only [env, step]; omega
    obtain ⟨s', hr, hv', hi'⟩ := ih (env.step i s c) hv0' hcs' hnd' hlen'
    refine ⟨s', Run.cons (by simp [env]; omega) hmask hr, hv', ?_⟩
    rw [hi']; simp [env, step]; omega

/-- **C05 (OP), partial**: feasible canonical tours that keep `eps` of the budget unused are finished
mask-confined runs, `eps` being any bound on the code's margin. -/
theorem run_of_feasible_partial (i : Inst) (eps : Int) (hd00 : i.D 0 0 = 0) (htri : TriToDepot i)
    (hmar : MarginLe i eps) {as : List Nat} (hf : Feasible i as) (hslack : tourLen i as ≤ i.L - eps) (hc : Canonical as) :
    ∃ s, Run env i (env.reset i) as s ∧ env.done i s = true := by
  rcases hc with h00 | ⟨cs, hne, hnz, has⟩
  · subst h00
    refine ⟨exec env i (env.reset i) [0, 0], (run_iff_admitted _ _ _ _ _).mpr ⟨?_, rfl⟩, ?_⟩
    · simp [admitted, env, mask, Params.opDepotForcedOpen]
    · simp [exec, env, done, step, reset, Params.opDoneCmp, Cmp.evalNat]
  · subst has
    have hcs : ∀ c ∈ cs, c ≠ 0 ∧ c ≤ i.n ∧ (env.reset i).vis c = false := by
      intro c hc
      exact ⟨hnz c hc, hf.range c (List.mem_append_left _ hc), rfl⟩
    have hnd : cs.Nodup := by
      rw [List.nodup_iff_count]
      intro a
      by_cases hmem : a ∈ cs
      · have ha0 := hnz a hmem
        have han := hf.range a (List.mem_append_left _ hmem)
        have := hf.once a (by omega) han
        rw [List.count_append] at this
        omega
      · rw [List.count_eq_zero_of_not_mem hmem]; omega
    have hlen : (env.reset i).len + pathLen i.D ((env.reset i).cur :: cs ++ [0]) ≤ i.L - eps := by
      have e : 0 :: (cs ++ [0]) ++ [0] = (0 :: (cs ++ [0])) ++ [0] := by simp
      have hl : ((0 :: (cs ++ [0])).getLast (by simp)) = 0 := by
        rw [List.getLast_cons (by simp)]; simp
      simp only [tourLen] at hslack
      rw [e, pathLen_append_singleton, hl, hd00] at hslack
      simpa [env, reset] using hslack
    obtain ⟨s', hr, hv', hi'⟩ := run_customers i eps htri hmar cs (env.reset i) rfl hcs hnd hlen
    have hm0 : env.mask i s' 0 = true := by simp [env, mask, Params.opDepotForcedOpen]
    refine ⟨env.step i s' 0, hr.snoc (by simp [env]) hm0, ?_⟩
    have hpos : 0 < cs.length := List.length_pos_iff.mpr hne
    simp only [env, reset] at hi'
    simp [env, done, step, Params.opDoneCmp, Cmp.evalNat, hi']
    omega

theorem canon_canonical (as : List Nat) : Canonical (canon as) := by
  unfold canon
  split
  · exact Or.inl rfl
  · rename_i h
    exact Or.inr ⟨customers as, h, fun c hc => (mem_customers.mp hc).2, rfl⟩

/-- the canonical representative collects the same prize -/
theorem objective_canon (i : Inst) (as : List Nat) : objective i (canon as) = objective i as := by
  simp only [objective]
  apply sumTo_congr
  intro k _
  have : (k + 1 ∈ canon as) ↔ (k + 1 ∈ as) := mem_canon (by omega)
  by_cases h : k + 1 ∈ as <;> simp [h, this]

/-- … is feasible and not longer -/
theorem canon_feasible (i : Inst) (h00 : i.D 0 0 = 0) (htri : ∀ a b, i.D a b ≤ i.D a 0 + i.D 0 b)
    {as : List Nat} (hf : Feasible i as) :
    Feasible i (canon as) ∧ tourLen i (canon as) ≤ tourLen i as := by
  have hlen := pathLen_canon_le i.D h00 htri as
  refine ⟨⟨canon_range hf.range, ?_, ?_⟩, hlen⟩
  · intro j h1 h2
    rw [count_canon as j (by omega)]
    exact hf.once j h1 h2
  · have := hf.length
    simp only [tourLen] at this ⊢
    omega

/-- **C05 (OP), optimum reachable, partial**: for every feasible tour — canonical or not — that keeps
`eps` of the budget unused there is a finished mask-confined episode collecting the same prize. -/
theorem opt_reachable_partial (i : Inst) (eps : Int) (h00 : i.D 0 0 = 0) (htri0 : TriToDepot i)
    (htri : ∀ a b, i.D a b ≤ i.D a 0 + i.D 0 b) (hmar : MarginLe i eps)
    {as : List Nat} (hf : Feasible i as) (hslack : tourLen i as ≤ i.L - eps) :
    ∃ as' s, Run env i (env.reset i) as' s ∧ env.done i s = true ∧ reward i as' = objective i as := by
  obtain ⟨hf', hle⟩ := canon_feasible i h00 htri hf
  obtain ⟨s, hr, hd⟩ := run_of_feasible_partial i eps h00 htri0 hmar hf' (by omega) (canon_canonical as)
  exact ⟨canon as, s, hr, hd, by rw [reward_eq_objective i hr hd, objective_canon]⟩

/-- Non-vacuity of the partial theorem: on the real budgets of `cexInst` the margin is at most 67
units (2^-26 each, i.e. 1e-6 rounded), and with `max_length = 0.5 + 2^-19` (budgets read back) the
same tour is offered. -/
example : MarginLe cexInst 67 := by
  intro j h1 h2
  have : j = 1 := by simp only [cexInst] at h2; omega
  subst this; decide
example : ∃ s, Run env { cexInst with L := 33554560, budget := fun j => if j = 0 then 33554492 else 16777276, cbound := fun _ => 33555232 }
    (env.reset cexInst) [1, 0] s ∧ s.done = true :=
  ⟨_, (run_iff_admitted _ _ _ _ _).2 ⟨by decide, rfl⟩, by decide⟩

/-! ### the reset-time pre-computation inside the model -/

/-- the pre-computation also bounds the margin from above: at most `1e-6 + rho` below `L − D j 0` -/
theorem marginLe_of_precomp (i : Inst) (U rho eps : Int) (hp : Precomp i U rho)
    (he : U + 1000000 * rho ≤ 1000000 * eps) : MarginLe i eps := by
  intro j h1 h2
  have := (hp j h1 h2).1
  simp only [budgetSpecScaled, Params.opResetMargin] at this
  omega

/-! ### what is reachable through the mask, relative to the margin -/

/-- invariant: closing the tour from the current node keeps `m` of the budget, or nothing has moved -/
def CanReturnM (i : Inst) (m : Int) (s : State) : Prop :=
  s.len + i.D s.cur 0 ≤ i.L - m ∨ (s.len = 0 ∧ s.cur = 0)

theorem canReturnM_of_run (i : Inst) (m : Int) (hd : i.D 0 0 = 0) (hmg : MarginGe i m)
    {as : List Nat} {s : State} (h : Run env i (env.reset i) as s) : CanReturnM i m s := by
  refine inv_of_reach (Inv := CanReturnM i m) (Or.inr ⟨rfl, rfl⟩) ?_ ⟨as, h⟩
  intro s a hinv ha hm
  simp only [env] at ha hm
  by_cases h0 : a = 0
  · subst h0
    rcases hinv with hl | ⟨h1, h2⟩
    · left; simp only [env, step, hd]; omega
    · right; simp [env, step, h1, h2, hd]
  · obtain ⟨_, _, h3⟩ := mask_customer h0 hm
    have := hmg a (by omega) (by omega)
    left
    simp only [env, step]
    omega

/-- every mask-confined run keeps `m` of the budget unused (if the budgets do and `m ≤ L`) -/
theorem tourLen_le_of_run (i : Inst) (m : Int) (hd : i.D 0 0 = 0) (hmg : MarginGe i m) (hmL : m ≤ i.L)
    {as : List Nat} {s : State} (h : Run env i (env.reset i) as s) : tourLen i as ≤ i.L - m := by
  obtain ⟨hl, hc⟩ := len_of_run i h
  simp only [env, reset, Int.zero_add] at hl hc
  simp only [tourLen]
  rw [depot_tour_eq, ← hl, ← hc]
  rcases canReturnM_of_run i m hd hmg h with h1 | ⟨h1, h2⟩
  · exact h1
  · rw [h1, h2, hd]; omega

/-- prizes of finished mask-confined episodes -/
def ReachablePrize (i : Inst) (v : Int) : Prop :=
  ∃ as s, Run env i (env.reset i) as s ∧ env.done i s = true ∧ reward i as = v

/-- prizes of feasible tours that keep `m` of the budget unused -/
def SlackPrize (i : Inst) (m : Int) (v : Int) : Prop :=
  ∃ as, Feasible i as ∧ tourLen i as ≤ i.L - m ∧ objective i as = v

/-- `v` is the maximum of the set `P` -/
def IsMaxOf (P : Int → Prop) (v : Int) : Prop := P v ∧ ∀ w, P w → w ≤ v

/-- **C05 (OP), lower half of the sandwich**: whatever a feasible tour with slack `eps` (an upper bound of
the code's margin) collects is collected by some finished mask-confined episode. -/
theorem reachable_of_slack (i : Inst) (eps : Int) (hd : i.D 0 0 = 0) (htri0 : TriToDepot i)
    (htri : ∀ a b, i.D a b ≤ i.D a 0 + i.D 0 b) (hmar : MarginLe i eps) {v : Int}
    (h : SlackPrize i eps v) : ReachablePrize i v := by
  obtain ⟨as, hf, hs, hv⟩ := h
  obtain ⟨as', s, hr, hdn, hrew⟩ := opt_reachable_partial i eps hd htri0 htri hmar hf hs
  exact ⟨as', s, hr, hdn, by rw [hrew, hv]⟩

/-- **C05 (OP), upper half of the sandwich**: whatever a finished mask-confined episode collects is the
prize of a feasible tour with slack `m` (a lower bound of the code's margin). -/
theorem slack_of_reachable (i : Inst) (m : Int) (hd : i.D 0 0 = 0) (hm0 : 0 ≤ m) (hmL : m ≤ i.L)
    (hmg : MarginGe i m) {v : Int} (h : ReachablePrize i v) : SlackPrize i m v := by
  obtain ⟨as, s, hr, hdn, hv⟩ := h
  have hwf : WF i := ⟨hd, by omega, fun j h1 h2 => by have := hmg j h1 h2; omega⟩
  exact ⟨as, feasible_of_run i hwf hr, tourLen_le_of_run i m hd hmg hmL hr,
    by rw [← reward_eq_objective i hr hdn, hv]⟩

/-- **C05 (OP), the optimum through the mask relative to the margin.**  If the budgets sit exactly `m`
below `L − D j 0` (the code's formula without rounding, `m = 1e-6`), the prizes reachable through the
mask are exactly the prizes of the feasible tours of length `≤ L − m`; in particular the best prize
reachable through the mask EQUALS the optimum over those tours … -/
theorem opt_eq_margin (i : Inst) (m : Int) (hd : i.D 0 0 = 0) (htri0 : TriToDepot i)
    (htri : ∀ a b, i.D a b ≤ i.D a 0 + i.D 0 b) (hm0 : 0 ≤ m) (hmL : m ≤ i.L)
    (hle : MarginLe i m) (hge : MarginGe i m) (v : Int) :
    (ReachablePrize i v ↔ SlackPrize i m v) ∧
    (IsMaxOf (ReachablePrize i) v ↔ IsMaxOf (SlackPrize i m) v) := by
  have hiff : ∀ w, ReachablePrize i w ↔ SlackPrize i m w := fun w =>
    ⟨slack_of_reachable i m hd hm0 hmL hge, reachable_of_slack i m hd htri0 htri hle⟩
  refine ⟨hiff v, ?_⟩
  simp only [IsMaxOf, hiff]

/-- … and never exceeds the optimum over all feasible tours (length `≤ L`). -/
theorem reachable_le_feasible (i : Inst) (m : Int) (hd : i.D 0 0 = 0) (hm0 : 0 ≤ m) (hmL : m ≤ i.L)
    (hge : MarginGe i m) {v opt : Int} (hv : ReachablePrize i v) (hopt : IsMaxOf (SlackPrize i 0) opt) :
    v ≤ opt := by
  obtain ⟨as, hf, hs, ho⟩ := slack_of_reachable i m hd hm0 hmL hge hv
  exact hopt.2 v ⟨as, hf, by omega, ho⟩

/-- with rounding: the reachable optimum is sandwiched between the optima for the two margins -/
theorem opt_sandwich (i : Inst) (mlo mhi : Int) (hd : i.D 0 0 = 0) (htri0 : TriToDepot i)
    (htri : ∀ a b, i.D a b ≤ i.D a 0 + i.D 0 b) (hm0 : 0 ≤ mlo) (hmL : mlo ≤ i.L)
    (hge : MarginGe i mlo) (hle : MarginLe i mhi) {v vlo vhi : Int}
    (hv : IsMaxOf (ReachablePrize i) v) (hlo : IsMaxOf (SlackPrize i mlo) vlo)
    (hhi : IsMaxOf (SlackPrize i mhi) vhi) : vhi ≤ v ∧ v ≤ vlo :=
  ⟨hv.2 vhi (reachable_of_slack i mhi hd htri0 htri hle hhi.1),
   hlo.2 v (slack_of_reachable i mlo hd hm0 hmL hge hv.1)⟩

/-- Non-vacuity: on the real budgets of `cexInst` (unit 2^-26, `U = 2^26`) the pre-computation holds with a
rounding error of one unit, hence `MarginGe 66` and `MarginLe 69`; the empty tour is always reachable. -/
example : Precomp cexInst 67108864 1 := (precomp_iff _ _ _).mp (by decide)
example : MarginGe cexInst 66 := marginGe_of_precomp cexInst 67108864 1 66 ((precomp_iff _ _ _).mp (by decide)) (by decide)
example : MarginLe cexInst 69 := marginLe_of_precomp cexInst 67108864 1 69 ((precomp_iff _ _ _).mp (by decide)) (by decide)
example : ReachablePrize cexInst 0 :=
  ⟨[0, 0], _, (run_iff_admitted _ _ _ _ _).2 ⟨by decide, rfl⟩, by decide, by decide⟩

/-! ### the repaired clause, and exactly which tours the margin hides -/

/-- **C05 (OP), repaired clause**: if `_reset` did not subtract the margin (budgets ≥ `L − D j 0`), the mask —
with its strict `>` — offers every canonical feasible tour, those of length exactly `max_length` included. -/
theorem run_of_feasible_no_margin (i : Inst) (hd00 : i.D 0 0 = 0) (htri : TriToDepot i) (h0 : MarginLe i 0)
    {as : List Nat} (hf : Feasible i as) (hc : Canonical as) :
    ∃ s, Run env i (env.reset i) as s ∧ env.done i s = true :=
  run_of_feasible_partial i 0 hd00 htri h0 hf (by have := hf.length; omega) hc

/-- **C05 (OP), exact**: with budgets exactly `m` below `L − D j 0` (the code: `m = 1e-6`), a canonical feasible
tour is a finished mask-confined run IFF it keeps `m` of the budget unused. -/
theorem run_iff_slack (i : Inst) (m : Int) (hd00 : i.D 0 0 = 0) (htri : TriToDepot i) (hmL : m ≤ i.L)
    (hle : MarginLe i m) (hge : MarginGe i m) {as : List Nat} (hf : Feasible i as) (hc : Canonical as) :
    (∃ s, Run env i (env.reset i) as s ∧ env.done i s = true) ↔ tourLen i as ≤ i.L - m := by
  constructor
  · rintro ⟨s, hr, _⟩
    exact tourLen_le_of_run i m hd00 hge hmL hr
  · intro hs
    exact run_of_feasible_partial i m hd00 htri hle hf hs hc

/-- **C05 (OP), the hidden set**: the canonical feasible tours the mask does NOT offer are exactly those whose
remaining slack `L − length` lies in `[0, m)`. -/
theorem hidden_iff (i : Inst) (m : Int) (hd00 : i.D 0 0 = 0) (htri : TriToDepot i) (hmL : m ≤ i.L)
    (hle : MarginLe i m) (hge : MarginGe i m) {as : List Nat} (hc : Canonical as) :
    (Feasible i as ∧ ¬ ∃ s, Run env i (env.reset i) as s ∧ env.done i s = true) ↔
      (Feasible i as ∧ 0 ≤ slack i as ∧ slack i as < m) := by
  constructor
  · rintro ⟨hf, hn⟩
    have h1 : ¬ tourLen i as ≤ i.L - m := fun h => hn ((run_iff_slack i m hd00 htri hmL hle hge hf hc).mpr h)
    have h2 := hf.length
    simp only [slack]
    exact ⟨hf, by omega, by omega⟩
  · rintro ⟨hf, _, h2⟩
    refine ⟨hf, ?_⟩
    rw [run_iff_slack i m hd00 htri hmL hle hge hf hc]
    simp only [slack] at h2
    omega

/-- Non-vacuity: `cexInst` with the margin removed from its budgets offers the tour of length exactly `L`. -/
example : ∃ s, Run env { cexInst with budget := fun j => if j = 0 then 33554432 else 16777216 }
    (env.reset cexInst) [1, 0] s ∧ s.done = true :=
  ⟨_, (run_iff_admitted _ _ _ _ _).2 ⟨by decide, rfl⟩, by decide⟩

end Rl4co.Op
