/-
C05 for SVRP, exact form.  `complete_iff`: the action lists of finished mask-confined episodes (the decoding
loop stops at `done`) are EXACTLY the feasible solutions that are canonical — no technician is sent home
without a customer while he could serve one of the customers still to come — and tight (no proper prefix
already visits every node).  Hence (`best_through_mask_eq_canonical_optimum`) the best reward through the
mask equals minus the least objective over the canonical feasible solutions; that this can be strictly
worse than the true optimum is the known finding (`skipped_technician_better`).
-/
import Rl4co.Props.C02.Svrp
import Rl4co.Props.C03.Svrp
import Rl4co.Props.C05.Svrp

namespace Rl4co.Svrp
open Rl4co.Spec.Svrp

/-- every node 0..n occurs in `p` -/
def Complete (i : Inst) (p : List Nat) : Prop := ∀ j, j ≤ i.n → j ∈ p
/-- no proper prefix is already complete -/
def Tight (i : Inst) (as : List Nat) : Prop := ∀ k, k < as.length → ¬ Complete i (as.take k)

theorem not_done_iff (i : Inst) (s : State) : env.done i s = false ↔ ∃ j, j ≤ i.n ∧ s.vis j = false := by
  constructor
  · intro hd
    apply Classical.byContradiction
    intro hne
    have hall : AllVis i s := fun j _ h2 => by
      by_cases hv : s.vis j = true
      · exact hv
      · exact absurd ⟨j, h2, by simpa using hv⟩ hne
    have h0 : s.vis 0 = true := by
      by_cases hv : s.vis 0 = true
      · exact hv
      · exact absurd ⟨0, Nat.zero_le _, by simpa using hv⟩ hne
    rw [done_of_allVis i s hall h0] at hd
    exact absurd hd (by simp)
  · rintro ⟨j, hj, hv⟩
    by_cases hd : env.done i s = true
    · have := all_visited_of_done i s hd j (by omega)
      rw [hv] at this; exact absurd this (by simp)
    · simpa using hd

/-- canonicity of everything the mask admits, generalised over the start state -/
theorem canon_of_run (i : Inst) {s s' : State} {as : List Nat} (h : Run env i s as s') :
    canonFrom i s.tech (s.cur == 0) as := by
  induction h with
  | nil s => trivial
  | @cons s s' a as ha hm hrest ih =>
    simp only [canonFrom]
    refine ⟨?_, ?_⟩
    · intro h0 hdep j hj hj0
      subst h0
      have hm' : mask i s 0 = true := hm
      have hcur : s.cur = 0 := by simpa using hdep
      simp only [mask_eq, maskRef, if_true, Bool.not_eq_true', Bool.and_eq_false_iff, Bool.or_eq_false_iff,
        beq_eq_false_iff_ne, ne_eq] at hm'
      have hany : anyLoc i s = false := by
        rcases hm' with h | h
        · exact absurd hcur h.1
        · exact h
      obtain ⟨hrange, hnot, _, _⟩ := visits_of_run i hrest
      have hjn : j ≤ i.n := hrange j hj
      have hl := anyLoc_false hany j (by omega) hjn
      -- j occurs later, so it is not yet visited (neither before nor by this depot step)
      have hvj : s.vis j = false := by
        by_cases hv : s.vis j = true
        · have : (env.step i s 0).vis j = true := by
            simp only [env, step_eq, stepRef, upd_apply]; split <;> simp [hv]
          exact absurd hj (hnot j (by omega) this)
        · simpa using hv
      simp only [locOk, Params.svrpMaskSkillCmp, Cmp.eval, hvj, Bool.not_false, Bool.true_and,
        decide_eq_false_iff_not] at hl
      exact hl
    · have ht : (env.step i s a).tech = (if a = 0 then s.tech + 1 else s.tech) := by
        simp only [env, step_eq, stepRef]; split <;> simp
      have hc : (env.step i s a).cur = a := by simp [env, step_eq, stepRef]
      rw [ht, hc] at ih
      have hdec : decide (a = 0) = (a == 0) := by by_cases h : a = 0 <;> simp [h]
      rw [hdec]; exact ih

/-- along a run through unfinished states no proper prefix is complete (generalised over the start state) -/
theorem tight_of_runND (i : Inst) {s s' : State} {as : List Nat} (h : RunND env i s as s') :
    ∀ k, k < as.length → ∃ j, j ≤ i.n ∧ (s.vis j || decide (j ∈ as.take k)) = false := by
  induction h with
  | nil s => intro k hk; simp at hk
  | @cons s s' a as hd ha hm _ ih =>
    intro k hk
    cases k with
    | zero =>
      obtain ⟨j, hj, hv⟩ := (not_done_iff i s).1 hd
      exact ⟨j, hj, by simp [hv]⟩
    | succ k =>
      obtain ⟨j, hj, hv⟩ := ih k (by simpa using hk)
      refine ⟨j, hj, ?_⟩
      simp only [env, step_eq, stepRef, upd_apply, Bool.or_eq_false_iff, decide_eq_false_iff_not] at hv
      simp only [List.take_succ_cons, List.mem_cons, Bool.or_eq_false_iff, decide_eq_false_iff_not, not_or]
      by_cases hja : j = a
      · subst hja; simp at hv
      · simp only [hja, if_false] at hv
        exact ⟨hv.1, hja, hv.2⟩

theorem runND_of_run_tight (i : Inst) {s s' : State} {as : List Nat} (h : Run env i s as s')
    (ht : ∀ k, k < as.length → ∃ j, j ≤ i.n ∧ (s.vis j || decide (j ∈ as.take k)) = false) :
    RunND env i s as s' := by
  induction h with
  | nil s => exact RunND.nil s
  | @cons s s' a as ha hm _ ih =>
    have hd : env.done i s = false := by
      obtain ⟨j, hj, hv⟩ := ht 0 (by simp)
      exact (not_done_iff i s).2 ⟨j, hj, by simpa using hv⟩
    refine RunND.cons hd ha hm (ih ?_)
    intro k hk
    obtain ⟨j, hj, hv⟩ := ht (k + 1) (by simpa using hk)
    refine ⟨j, hj, ?_⟩
    simp only [List.take_succ_cons, List.mem_cons, Bool.or_eq_false_iff, decide_eq_false_iff_not, not_or] at hv
    simp only [env, step_eq, stepRef, upd_apply, Bool.or_eq_false_iff, decide_eq_false_iff_not]
    have hja : j ≠ a := hv.2.1
    simp only [hja, if_false]
    exact ⟨hv.1, hv.2.2⟩

/-- **C05 (SVRP), exact characterisation of what the mask reaches.** -/
theorem complete_iff (i : Inst) (hw : WF i) (as : List Nat) :
    (∃ s, RunND env i (env.reset i) as s ∧ env.done i s = true) ↔
      Feasible i as ∧ Canonical i as ∧ Tight i as := by
  constructor
  · rintro ⟨s, hr, hd⟩
    have hf := feasible_of_run i hw hr.run hd
    obtain ⟨_, _, _, hvis⟩ := visits_of_run i hr.run
    refine ⟨hf, ⟨?_, ?_⟩, ?_⟩
    · simpa [env, reset] using canon_of_run i hr.run
    · have := all_visited_of_done i s hd 0 (Nat.succ_pos _)
      rw [hvis 0] at this
      simpa [env, reset] using this
    · intro k hk hc
      obtain ⟨j, hj, hv⟩ := tight_of_runND i hr k hk
      simp only [env, reset, Bool.false_or, decide_eq_false_iff_not] at hv
      exact hv (hc j hj)
  · rintro ⟨hf, hc, ht⟩
    obtain ⟨s, hr, hd⟩ := run_of_feasible i as hf hc
    refine ⟨s, runND_of_run_tight i hr ?_, hd⟩
    intro k hk
    have := ht k hk
    simp only [Complete] at this
    have : ∃ j, j ≤ i.n ∧ j ∉ as.take k := by
      apply Classical.byContradiction
      intro hne
      apply this
      intro j hj
      apply Classical.byContradiction
      intro hnm
      exact hne ⟨j, hj, hnm⟩
    obtain ⟨j, hj, hnm⟩ := this
    exact ⟨j, hj, by simp [env, reset, hnm]⟩

/-- **best reward through the mask = −(least objective over the canonical feasible solutions)**: if `opt` is
optimal among the feasible canonical solutions, some finished mask-confined episode attains
−objective(opt) and no finished run of the decoding loop has a larger reward. -/
theorem best_through_mask_eq_canonical_optimum (i : Inst) (hw : WF i) (h00 : i.D 0 0 = 0)
    (opt : List Nat) (hopt : Feasible i opt) (hcan : Canonical i opt)
    (hmin : ∀ bs, Feasible i bs → Canonical i bs → objective i opt ≤ objective i bs) :
    (∃ s, Run env i (env.reset i) opt s ∧ env.done i s = true ∧ reward i opt = - objective i opt) ∧
    (∀ bs s, RunND env i (env.reset i) bs s → env.done i s = true → reward i bs ≤ - objective i opt) := by
  constructor
  · obtain ⟨s, hr, hd⟩ := run_of_feasible i opt hopt hcan
    exact ⟨s, hr, hd, reward_eq_objective i h00 opt⟩
  · intro bs s hr hd
    obtain ⟨hf, hc, _⟩ := (complete_iff i hw bs).1 ⟨s, hr, hd⟩
    have := hmin bs hf hc
    rw [reward_eq_objective i h00]
    omega

/-- Non-vacuity: `[1,0,2]` on the C01 instance is feasible, canonical and tight. -/
example : Feasible exInst [1, 0, 2] ∧ Canonical exInst [1, 0, 2] ∧ Tight exInst [1, 0, 2] := by
  refine ⟨(feasible_iff _ _).1 (by decide), (canonical_iff _ _).1 (by decide), ?_⟩
  intro k hk hc
  have hk' : k < 3 := hk
  have h2 := hc 2 (by decide)
  have : k = 0 ∨ k = 1 ∨ k = 2 := by omega
  rcases this with h | h | h <;> subst h <;> simp at h2

end Rl4co.Svrp
