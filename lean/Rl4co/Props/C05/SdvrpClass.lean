/-
C05 for SDVRP, exact form.  `complete_iff`: on an instance with positive capacity, non-negative demands and
at least one positive demand, the action lists of finished mask-confined episodes (the decoding loop stops
at `done`) are EXACTLY the non-empty visit sequences whose greedy split is valid
(`Spec.Sdvrp.greedyFeasible`), that are canonical (no leading depot visit, no two consecutive depot visits,
every customer visit hands over a positive amount) and that end with a customer visit.  Hence
(`best_through_mask_eq_greedy_optimum`) the best reward through the mask equals minus the least objective
over that class.  Whether that class always contains an optimum of the existential specification (all
valid splits) is a statement about the problem (it needs a route-exchange argument under the triangle
inequality) and is NOT proved here; the harness samples it on tiny instances.
-/
import Rl4co.Props.C03.Sdvrp
import Rl4co.Props.C05.Sdvrp

namespace Rl4co.Sdvrp
open Rl4co.Spec.Sdvrp

/-- the `done` flag agrees with the remaining demands (true after every step; at reset iff some demand is
positive) -/
def FlagOK (i : Inst) (s : State) : Prop := s.done = !(anyRem i.n s.rem)

theorem flagOK_step (i : Inst) (s : State) (a : Nat) : FlagOK i (env.step i s a) := rfl

theorem anyRem_congr {n : Nat} {f g : Nat → Int} (h : ∀ j, j ≤ n → f j = g j) : anyRem n f = anyRem n g := by
  unfold anyRem
  apply Bool.eq_iff_iff.mpr
  simp only [List.any_eq_true, List.mem_range]
  constructor
  · rintro ⟨j, hj, hp⟩; exact ⟨j, hj, by rw [← h j (by omega)]; exact hp⟩
  · rintro ⟨j, hj, hp⟩; exact ⟨j, hj, by rw [h j (by omega)]; exact hp⟩

theorem rem_step_depot (i : Inst) (s : State) (hi : CInv i s) (j : Nat) : (env.step i s 0).rem j = s.rem j := by
  have hdel : delivered i s 0 = 0 := by
    have := hi.e.used0; have := hi.e.usedC
    simp only [delivered_eq, hi.e.rem0]; omega
  simp only [env, step, upd_apply, hdel]
  split
  · rename_i h; subst h; omega
  · rfl

theorem flagOK_reset (i : Inst) (hpos : ∃ j, 1 ≤ j ∧ j ≤ i.n ∧ 0 < i.demand j) : FlagOK i (env.reset i) := by
  obtain ⟨j, h1, h2, h3⟩ := hpos
  have : anyRem i.n (env.reset i).rem = true := by
    simp only [anyRem, List.any_eq_true, List.mem_range, Params.sdvrpDoneCmp, Cmp.eval, decide_eq_true_eq]
    refine ⟨j, by omega, ?_⟩
    have : j ≠ 0 := by omega
    simp [env, reset, this, h3]
  show (env.reset i).done = !(anyRem i.n (env.reset i).rem)
  rw [this]; rfl

/-- every customer visit the mask admits hands over a positive amount (generalised over the start state) -/
theorem positive_of_run (i : Inst) {s s' : State} {as : List Nat} (h : Run env i s as s') (hi : CInv i s) :
    allPositive (as.zip (greedy i s.rem s.used as)) = true := by
  induction h with
  | nil s => rfl
  | @cons s s' a as ha hm _ ih =>
    have hi' := cinv_step i s a hi
    have ih' := ih hi'
    by_cases h0 : a = 0
    · subst h0
      have hrem : ∀ j, 1 ≤ j → (env.step i s 0).rem j = s.rem j := fun j _ => rem_step_depot i s hi j
      have hused : (env.step i s 0).used = 0 := by simp [step_used]
      rw [hused, greedy_congr i as _ s.rem 0 hrem] at ih'
      simp only [greedy, if_true, List.zip_cons_cons, allPositive, List.all_cons, Bool.and_eq_true]
      exact ⟨by simp, ih'⟩
    · have hmm : mask i s a = true := hm
      simp only [mask, h0, if_false, locOk, Params.sdvrpMaskRemCmp, Params.sdvrpMaskCapCmp, Cmp.eval,
        Bool.not_eq_true', Bool.or_eq_false_iff, decide_eq_false_iff_not] at hmm
      have hra := hi.e.remNN a (by omega)
      have hused : (env.step i s a).used = s.used + min (s.rem a) (i.cap - s.used) := by
        simp [step_used, h0, delivered_eq]
      have hrem : (env.step i s a).rem = upd s.rem a (s.rem a - min (s.rem a) (i.cap - s.used)) := by
        simp [env, step, delivered_eq]
      rw [hused, hrem] at ih'
      simp only [greedy, h0, if_false, List.zip_cons_cons, allPositive, List.all_cons, Bool.and_eq_true,
        Bool.or_eq_true, beq_iff_eq, decide_eq_true_eq]
      exact ⟨Or.inr (by omega), ih'⟩

/-- shape of what the mask admits from an unfinished state (generalised over the start state): no depot
visit while at the depot -/
theorem shape_of_runND (i : Inst) (hw : WFpos i) {s s' : State} {as : List Nat} (h : RunND env i s as s')
    (hi : CInv i s) (hf : FlagOK i s) :
    noDoubleDepot as = true ∧ (s.cur = 0 → as.head? ≠ some 0) := by
  induction h with
  | nil s => exact ⟨rfl, fun _ => by simp⟩
  | @cons s s' a as hd ha hm _ ih =>
    obtain ⟨ih1, ih2⟩ := ih (cinv_step i s a hi) (flagOK_step i s a)
    have hhead : s.cur = 0 → a ≠ 0 := by
      intro hc h0
      subst h0
      -- depot → depot is admitted only when nothing is servable, i.e. nothing remains: then the state is finished
      have hus := hi.depotEmpty hc
      have hmm : mask i s 0 = true := hm
      simp only [mask, if_true, Bool.not_eq_true', Bool.and_eq_false_iff, beq_eq_false_iff_ne] at hmm
      have hany : anyLoc i s = false := by
        rcases hmm with h | h
        · exact absurd hc h
        · exact h
      have hK0 : K i s = 0 := by
        apply (K_eq_zero_iff i s).2
        intro j h1 h2
        simp only [anyLoc, List.any_eq_false, List.mem_range] at hany
        have := hany (j - 1) (by omega)
        rw [Nat.sub_add_cancel h1] at this
        simp only [locOk, Params.sdvrpMaskRemCmp, Params.sdvrpMaskCapCmp, Cmp.eval] at this
        have h' : (decide (s.rem j = 0) || decide (s.used ≥ i.cap)) = true := by
          cases hb : (decide (s.rem j = 0) || decide (s.used ≥ i.cap))
          · rw [hb] at this; exact absurd this (by simp)
          · rfl
        simp only [Bool.or_eq_true, decide_eq_true_eq] at h'
        have := hw.cap
        rcases h' with h | h <;> omega
      have hz := (K_eq_zero_iff i s).1 hK0
      have : anyRem i.n s.rem = false := by
        apply anyRem_eq_false_of
        intro j hj
        by_cases hj0 : j = 0
        · subst hj0; rw [hi.e.rem0]; exact Int.le_refl 0
        · exact hz j (by omega) hj
      have hdone : s.done = true := by rw [hf, this]; rfl
      have hd' : s.done = false := hd
      rw [hdone] at hd'; exact absurd hd' (by simp)
    refine ⟨?_, fun hc => by simpa using hhead hc⟩
    cases as with
    | nil => rfl
    | cons b r =>
      simp only [noDoubleDepot, Bool.and_eq_true, Bool.not_eq_true', Bool.and_eq_false_iff, beq_eq_false_iff_ne]
      refine ⟨?_, ih1⟩
      by_cases h0 : a = 0
      · right
        have := ih2 (by simp [env, step, h0])
        simpa using this
      · left; exact h0

/-- a depot visit cannot be the step that finishes the episode -/
theorem last_of_runND (i : Inst) {s s' : State} {as : List Nat} (h : RunND env i s as s') (hi : CInv i s)
    (hf : FlagOK i s) (hne : as ≠ []) (hd' : s'.done = true) : as.getLast? ≠ some 0 := by
  induction h with
  | nil s => exact absurd rfl hne
  | @cons s s' a as hd ha hm hrest ih =>
    by_cases he : as = []
    · subst he
      cases hrest
      intro hl
      have h0 : a = 0 := by simpa using hl
      subst h0
      have hfl : (env.step i s 0).done = !(anyRem i.n (env.step i s 0).rem) := rfl
      rw [anyRem_congr (fun j _ => rem_step_depot i s hi j), ← hf] at hfl
      have hd0 : s.done = false := hd
      rw [hfl, hd0] at hd'; exact absurd hd' (by simp)
    · have := ih (cinv_step i s a hi) (flagOK_step i s a) he hd'
      cases as with
      | nil => exact absurd rfl he
      | cons b r => simpa [List.getLast?_cons_cons] using this

/-- from a finished state only depot visits deliver nothing: a non-empty positive continuation ends with 0 -/
theorem last_zero_of_done (i : Inst) {s s' : State} {as : List Nat} (h : Run env i s as s') (hi : CInv i s)
    (hd : s.done = true) (hne : as ≠ []) (hp : allPositive (as.zip (greedy i s.rem s.used as)) = true) :
    as.getLast? = some 0 := by
  induction h with
  | nil s => exact absurd rfl hne
  | @cons s s' a as ha hm hrest ih =>
    have hz : ∀ j, j ≤ i.n → s.rem j ≤ 0 := hi.e.flag hd
    have hau : a ≤ i.n := by simp only [env] at ha; omega
    have h0 : a = 0 := by
      by_cases h0 : a = 0
      · exact h0
      · exfalso
        simp only [greedy, h0, if_false, List.zip_cons_cons, allPositive, List.all_cons, Bool.and_eq_true,
          Bool.or_eq_true, beq_iff_eq, decide_eq_true_eq] at hp
        have := hz a hau
        have hq : 0 < min (s.rem a) (i.cap - s.used) := by simpa [h0] using hp.1
        omega
    subst h0
    by_cases he : as = []
    · subst he; rfl
    · have hi' := cinv_step i s 0 hi
      have hd1 : (env.step i s 0).done = true := by
        show (!(anyRem i.n (env.step i s 0).rem)) = true
        rw [anyRem_congr (fun j _ => rem_step_depot i s hi j), anyRem_eq_false_of i.n s.rem hz]; rfl
      have hrem : ∀ j, 1 ≤ j → (env.step i s 0).rem j = s.rem j := fun j _ => rem_step_depot i s hi j
      have hused : (env.step i s 0).used = 0 := by simp [step_used]
      have hp' : allPositive (as.zip (greedy i (env.step i s 0).rem (env.step i s 0).used as)) = true := by
        rw [hused, greedy_congr i as _ s.rem 0 hrem]
        simp only [greedy, if_true, List.zip_cons_cons, allPositive, List.all_cons, Bool.and_eq_true] at hp
        exact hp.2
      have := ih hi' hd1 he hp'
      cases as with
      | nil => exact absurd rfl he
      | cons b r => simpa [List.getLast?_cons_cons] using this

theorem runND_of_run (i : Inst) {s s' : State} {as : List Nat} (h : Run env i s as s') (hi : CInv i s)
    (hp : allPositive (as.zip (greedy i s.rem s.used as)) = true) (hl : as.getLast? ≠ some 0) :
    RunND env i s as s' := by
  induction h with
  | nil s => exact RunND.nil s
  | @cons s s' a as ha hm hrest ih =>
    have hd : env.done i s = false := by
      by_cases hd : s.done = true
      · exact absurd (last_zero_of_done i (Run.cons ha hm hrest) hi hd (by simp) hp) hl
      · simpa [env, done] using hd
    refine RunND.cons hd ha hm ?_
    by_cases he : as = []
    · subst he; cases hrest; exact RunND.nil _
    · have hi' := cinv_step i s a hi
      have hl' : as.getLast? ≠ some 0 := by
        cases as with
        | nil => exact absurd rfl he
        | cons b r => simpa [List.getLast?_cons_cons] using hl
      apply ih hi' _ hl'
      by_cases h0 : a = 0
      · subst h0
        have hrem : ∀ j, 1 ≤ j → (env.step i s 0).rem j = s.rem j := fun j _ => rem_step_depot i s hi j
        have hused : (env.step i s 0).used = 0 := by simp [step_used]
        rw [hused, greedy_congr i as _ s.rem 0 hrem]
        simp only [greedy, if_true, List.zip_cons_cons, allPositive, List.all_cons, Bool.and_eq_true] at hp
        exact hp.2
      · have hused : (env.step i s a).used = s.used + min (s.rem a) (i.cap - s.used) := by
          simp [step_used, h0, delivered_eq]
        have hrem : (env.step i s a).rem = upd s.rem a (s.rem a - min (s.rem a) (i.cap - s.used)) := by
          simp [env, step, delivered_eq]
        rw [hused, hrem]
        simp only [greedy, h0, if_false, List.zip_cons_cons, allPositive, List.all_cons, Bool.and_eq_true] at hp
        exact hp.2

/-- **C05 (SDVRP), exact characterisation of what the mask reaches.** -/
theorem complete_iff (i : Inst) (hw : WFpos i) (hpos : ∃ j, 1 ≤ j ∧ j ≤ i.n ∧ 0 < i.demand j) (as : List Nat) :
    (∃ s, RunND env i (env.reset i) as s ∧ env.done i s = true) ↔
      as ≠ [] ∧ greedyFeasible i as = true ∧ canonical i as = true ∧ as.getLast? ≠ some 0 := by
  have hcongr : ∀ j, 1 ≤ j → (env.reset i).rem j = i.demand j := by
    intro j hj
    have : j ≠ 0 := by omega
    simp [env, reset, this]
  have hi0 := cinv_reset i hw.wf
  have hu : (env.reset i).used = 0 := rfl
  constructor
  · rintro ⟨s, hr, hd⟩
    have hne : as ≠ [] := by
      intro he; subst he; cases hr
      simp [env, done, reset] at hd
    have hgf := greedyFeasible_of_run i hw.wf hr.run hd
    have hpp := positive_of_run i hr.run hi0
    rw [hu, greedy_congr i as _ i.demand 0 hcongr] at hpp
    obtain ⟨hnd, hhead⟩ := shape_of_runND i hw hr hi0 (flagOK_reset i hpos)
    refine ⟨hne, hgf, ?_, last_of_runND i hr hi0 (flagOK_reset i hpos) hne hd⟩
    simp only [canonical, Bool.and_eq_true, bne_iff_ne, ne_eq]
    exact ⟨⟨hhead rfl, hnd⟩, hpp⟩
  · rintro ⟨hne, hgf, hcan, hl⟩
    obtain ⟨s, hr, hd⟩ := run_of_feasible i hw as hne hgf hcan
    simp only [canonical, Bool.and_eq_true] at hcan
    refine ⟨s, runND_of_run i hr hi0 ?_ hl, hd⟩
    rw [hu, greedy_congr i as _ i.demand 0 hcongr]
    exact hcan.2

/-- **best reward through the mask = −(least objective over the greedy-canonical class)** -/
theorem best_through_mask_eq_greedy_optimum (i : Inst) (hw : WFpos i) (h00 : i.D 0 0 = 0)
    (hpos : ∃ j, 1 ≤ j ∧ j ≤ i.n ∧ 0 < i.demand j)
    (opt : List Nat) (hne : opt ≠ []) (hgf : greedyFeasible i opt = true) (hcan : canonical i opt = true)
    (hmin : ∀ bs, greedyFeasible i bs = true → canonical i bs = true → objective i opt ≤ objective i bs) :
    (∃ s, Run env i (env.reset i) opt s ∧ env.done i s = true ∧ reward i opt = - objective i opt) ∧
    (∀ bs s, RunND env i (env.reset i) bs s → env.done i s = true → reward i bs ≤ - objective i opt) := by
  constructor
  · obtain ⟨s, hr, hd⟩ := run_of_feasible i hw opt hne hgf hcan
    exact ⟨s, hr, hd, reward_eq_objective i h00 opt⟩
  · intro bs s hr hd
    obtain ⟨_, h1, h2, _⟩ := (complete_iff i hw hpos bs).1 ⟨s, hr, hd⟩
    have := hmin bs h1 h2
    rw [reward_eq_objective i h00]
    omega

/-- Non-vacuity: the C01 example. -/
example : greedyFeasible exInst [1, 2, 0, 2] = true ∧ canonical exInst [1, 2, 0, 2] = true ∧
    [1, 2, 0, 2].getLast? ≠ some 0 := by decide

end Rl4co.Sdvrp
