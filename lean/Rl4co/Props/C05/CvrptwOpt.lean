/-
C05 for CVRPTW, optimum form.  `opt_reachable`: for EVERY feasible solution (canonical or not) there is a
mask-confined finished episode with the same objective — the normalised solution, which drops exactly
the pruned moves (leading depot visits, staying at the depot, never returning).  Together with C01 (every
finished episode is feasible) and C03 (reward = −objective):
`best_through_mask_eq_optimum`: if the problem has an optimal solution `opt`, then some finished
mask-confined episode attains reward −objective(opt), every finished mask-confined episode has reward
≤ that, and every feasible solution has −objective ≤ that.  I.e. max reward through the mask = −min
objective over feasible solutions, as an `∃ … ∧ ∀ …` statement.
-/
import Rl4co.Proofs.VrpCanon
import Rl4co.Props.C01.Cvrptw
import Rl4co.Props.C03.Cvrptw
import Rl4co.Props.C05.Cvrptw

namespace Rl4co.Cvrptw
open Rl4co.Spec.Cvrptw

theorem noDoubleDepot_append (r : List Nat) (hr : r ≠ []) (h0 : 0 ∉ r) (t : List Nat)
    (ht : t.head? ≠ some 0) (hnd : Cvrp.noDoubleDepot t) : Cvrp.noDoubleDepot (r ++ 0 :: t) := by
  induction r with
  | nil => exact absurd rfl hr
  | cons a r ih =>
    have ha : a ≠ 0 := fun e => h0 (by simp [e])
    cases r with
    | nil =>
      simp only [List.cons_append, List.nil_append, Cvrp.noDoubleDepot]
      refine ⟨fun h => ha h.1, ?_⟩
      cases t with
      | nil => trivial
      | cons b t' =>
        simp only [Cvrp.noDoubleDepot]
        exact ⟨fun h => ht (by simp [h.2]), hnd⟩
    | cons b r' =>
      have := ih (by simp) (fun e => h0 (by simp at e ⊢; exact Or.inr e))
      simp only [List.cons_append, Cvrp.noDoubleDepot] at this ⊢
      exact ⟨fun h => ha h.1, this⟩

theorem noDoubleDepot_rebuild (rs : List (List Nat)) (h : ∀ r ∈ rs, r ≠ [] ∧ 0 ∉ r) :
    Cvrp.noDoubleDepot (rebuild rs) := by
  induction rs with
  | nil => simp [rebuild, Cvrp.noDoubleDepot]
  | cons r rs ih =>
    have hrs : ∀ r' ∈ rs, r' ≠ [] ∧ 0 ∉ r' := fun r' hr' => h r' (by simp [hr'])
    obtain ⟨hr, h0⟩ := h r (by simp)
    simp only [rebuild]
    apply noDoubleDepot_append r hr h0 _ _ (ih hrs)
    cases rs with
    | nil => simp [rebuild]
    | cons r2 rs2 => exact rebuild_head _ (by simp) hrs

/-- the normalised form of a CVRP-feasible solution with at least one customer is canonical -/
theorem canonical_normalize (i : Cvrp.Inst) (hn : 1 ≤ i.n) (as : List Nat)
    (hf : Spec.Cvrp.Feasible i as) : Cvrp.Canonical (normalize as) := by
  have hall : ∀ r ∈ (routes as).filter (fun r => !r.isEmpty), r ≠ [] ∧ 0 ∉ r := by
    intro r hr
    obtain ⟨h1, h2⟩ := List.mem_filter.mp hr
    exact ⟨by simpa using h2, routes_zero_free as r h1⟩
  have hne : (routes as).filter (fun r => !r.isEmpty) ≠ [] := by
    -- customer 1 occurs, so its route is non-empty
    intro he
    have hc := hf.once 1 (Nat.le_refl 1) hn
    rw [count_eq_sum_routes as 1 (by decide)] at hc
    have : ((routes as).map (List.count 1)).sum = 0 := by
      rw [← sum_map_filter_nonempty (List.count 1) (by simp), he]; rfl
    omega
  exact ⟨rebuild_head _ hne hall, noDoubleDepot_rebuild _ hall, zero_mem_rebuild _ hne⟩

/-- normalisation preserves feasibility (null trip in time: `D 0 0 ≤ twE 0`) -/
theorem feasible_normalize (i : Inst) (hcap : 0 ≤ i.base.cap) (h0 : i.base.D 0 0 ≤ i.twE 0) (as : List Nat)
    (hf : Feasible i as) : Feasible i (normalize as) := by
  have hsub : ∀ r ∈ routes (normalize as), r ∈ routes as ∨ r = [] := by
    intro r hr
    rw [routes_normalize] at hr
    rcases List.mem_append.mp hr with h | h
    · exact Or.inl (List.mem_filter.mp h).1
    · exact Or.inr (by simpa using h)
  refine ⟨⟨?_, ?_, ?_⟩, ?_⟩
  · intro a ha
    rcases mem_normalize as a ha with h | h
    · omega
    · exact hf.base.range a h
  · intro j h1 h2
    rw [count_normalize as j (by omega)]
    exact hf.base.once j h1 h2
  · intro r hr
    rcases hsub r hr with h | h
    · exact hf.base.load r h
    · subst h; simpa [Spec.Cvrp.routeLoad] using hcap
  · intro r hr
    rcases hsub r hr with h | h
    · exact hf.tw r h
    · subst h; simp [routeOk, h0]

/-- **C05 (CVRPTW), optimum form**: every feasible solution has a mask-confined finished episode of the same
objective value. -/
theorem opt_reachable (i : Inst) (hn : 1 ≤ i.base.n) (hd : ∀ j, 0 ≤ i.base.demand j) (hcap : 0 ≤ i.base.cap)
    (h0 : i.base.D 0 0 ≤ i.twE 0) (as : List Nat) (hf : Feasible i as) :
    ∃ as' s, Run env i (env.reset i) as' s ∧ env.done i s = true ∧ objective i as' = objective i as := by
  have hf' := feasible_normalize i hcap h0 as hf
  obtain ⟨s, hr, hdn⟩ := run_of_feasible i hd (normalize as) hf' (canonical_normalize i.base hn as hf.base)
  exact ⟨normalize as, s, hr, hdn, routesLen_normalize i.base.D as⟩

/-- **max reward through the mask = −(min objective over feasible solutions)**, as an `∃ … ∧ ∀ …` statement:
given an optimal feasible solution `opt`, some finished mask-confined episode has reward −objective(opt),
and no finished mask-confined episode has a larger reward. -/
theorem best_through_mask_eq_optimum (i : Inst) (hn : 1 ≤ i.base.n) (hd : ∀ j, 0 ≤ i.base.demand j)
    (hcap : 0 ≤ i.base.cap) (h00 : i.base.D 0 0 = 0) (hw : RetOK i)
    (opt : List Nat) (hopt : Feasible i opt) (hmin : ∀ bs, Feasible i bs → objective i opt ≤ objective i bs) :
    (∃ as s, Run env i (env.reset i) as s ∧ env.done i s = true ∧ reward i as = - objective i opt) ∧
    (∀ bs s, Run env i (env.reset i) bs s → env.done i s = true → reward i bs ≤ - objective i opt) := by
  have h0 : i.base.D 0 0 ≤ i.twE 0 := hw.depot
  constructor
  · obtain ⟨as', s, hr, hdn, ho⟩ := opt_reachable i hn hd hcap h0 opt hopt
    exact ⟨as', s, hr, hdn, by rw [reward_eq_objective i h00, ho]⟩
  · intro bs s hr hdn
    have hf := feasible_of_run i hcap hw hr hdn
    have := hmin bs hf
    rw [reward_eq_objective i h00]
    omega

/-- Non-vacuity: a non-canonical feasible solution (leading depot visit, empty route, no final return) and
its normal form on the boundary instance of C01. -/
example : Feasible exInst [0, 1, 0, 0, 2] ∧ normalize [0, 1, 0, 0, 2] = [1, 0, 2, 0] :=
  ⟨(feasible_iff _ _).1 (by decide), by decide⟩

end Rl4co.Cvrptw
