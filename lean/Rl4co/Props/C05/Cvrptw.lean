/-
C05 for CVRPTW: the mask hides no feasible solution.  Every solution that is feasible by the
independent definition (time windows with `≤`: an arrival exactly at the end of a window is allowed)
and canonical in CVRP's sense (does not start at the depot, never stays at the depot twice in a row,
visits the depot at least once — the documented pruning) is a mask-confined run that the environment
declares finished.  No well-formedness of the windows is needed for this direction.
-/
import Rl4co.Env.Cvrptw
import Rl4co.Spec.Cvrptw
import Rl4co.Props.C01.Cvrptw
import Rl4co.Props.C05.Cvrp

namespace Rl4co.Cvrptw
open Rl4co.Spec.Cvrptw

/-- per-route clocks of the specification ⇒ flat clock along the action list -/
theorem clock_of_routes (i : Inst) (as : List Nat) :
    ∀ t cur r rs, routes as = r :: rs → routeOk i t cur r = true →
      (∀ r' ∈ rs, routeOk i 0 0 r' = true) → clockOk i t cur as = true := by
  induction as with
  | nil => intro _ _ _ _ _ _ _; rfl
  | cons a as ih =>
    intro t cur r rs hr h1 h2
    obtain ⟨r1, rs1, e⟩ := routes_cons_exists as
    by_cases h0 : a = 0
    · subst h0
      simp only [routes, if_true, List.cons.injEq] at hr
      obtain ⟨e1, e2⟩ := hr; subst e1 e2
      simp only [routeOk, decide_eq_true_eq] at h1
      simp only [clockOk, Bool.and_eq_true, decide_eq_true_eq, ne_eq, not_true_eq_false, if_false]
      refine ⟨h1, ih 0 0 r1 rs1 e (h2 r1 (by simp [e])) (fun r' hr' => h2 r' (by simp [e, hr']))⟩
    · simp only [routes, h0, if_false, e, List.cons.injEq] at hr
      obtain ⟨e1, e2⟩ := hr; subst e1 e2
      simp only [routeOk, Bool.and_eq_true, decide_eq_true_eq] at h1
      simp only [clockOk, Bool.and_eq_true, decide_eq_true_eq, ne_eq, h0, not_false_eq_true, if_true]
      exact ⟨h1.1, ih _ a r1 rs1 e h1.2 h2⟩

/-- a CVRP run whose flat clock is in time lifts to a CVRPTW run over the same base states -/
theorem run_lift (i : Inst) {b b' : Cvrp.State} {as : List Nat} (h : Run Cvrp.env i.base b as b') :
    ∀ s : State, s.base = b → CacheOk i s → clockOk i s.time b.cur as = true →
      ∃ s', Run env i s as s' ∧ s'.base = b' := by
  induction h with
  | nil b => intro s hs _ _; exact ⟨s, Run.nil s, hs⟩
  | @cons b b' a as ha hm _ ih =>
    intro s hs hc hk
    simp only [clockOk, Bool.and_eq_true, decide_eq_true_eq] at hk
    obtain ⟨hk1, hk2⟩ := hk
    subst hs
    have hmask : env.mask i s a = true := by
      show (Cvrp.mask i.base s.base a && canReach i s a) = true
      rw [Bool.and_eq_true]
      refine ⟨hm, ?_⟩
      simp [canReach, Params.cvrptwMaskTwCmp, Cmp.eval, hk1]
    have ht : (env.step i s a).time =
        (if a ≠ 0 then max (s.time + i.base.D s.base.cur a) (i.twS a) + i.dur a else 0) := by
      rw [step_time, hc a]
    obtain ⟨s', hrun, hb⟩ := ih (env.step i s a) rfl (cache_refresh i _ _) (by
      rw [ht]
      exact hk2)
    exact ⟨s', Run.cons ha hmask hrun, hb⟩

/-- **C05 (CVRPTW).** -/
theorem run_of_feasible (i : Inst) (hd : ∀ j, 0 ≤ i.base.demand j) (as : List Nat)
    (hf : Feasible i as) (hc : Cvrp.Canonical as) :
    ∃ s, Run env i (env.reset i) as s ∧ env.done i s = true := by
  obtain ⟨b, hrun, hdone⟩ := Cvrp.run_of_feasible i.base hd as hf.base hc
  obtain ⟨r1, rs1, e⟩ := routes_cons_exists as
  have hk := clock_of_routes i as 0 0 r1 rs1 e (hf.tw r1 (by simp [e]))
    (fun r' hr' => hf.tw r' (by simp [e, hr']))
  obtain ⟨s', hr, hb⟩ := run_lift i hrun (env.reset i) rfl (cache_refresh i _ _) hk
  refine ⟨s', hr, ?_⟩
  show Cvrp.done i.base s'.base = true
  rw [hb]; exact hdone

/-- Non-vacuity: the boundary instance of C01 (every deadline met with equality). -/
example : Feasible exInst [1, 2, 0] ∧ Cvrp.Canonical [1, 2, 0] := by
  refine ⟨(feasible_iff _ _).1 (by decide), ⟨by decide, ?_, by decide⟩⟩
  simp [Cvrp.noDoubleDepot]

end Rl4co.Cvrptw
