/-
C05 for TSP: the mask hides nothing — every permutation of the nodes is a mask-confined episode that
the environment declares finished; together with C01 the set of complete mask-confined episodes IS
the set of feasible tours, so the best reward reachable through the mask is the optimum.
-/
import Rl4co.Proofs.TspfamTsp
import Rl4co.Props.C01.Tsp

namespace Rl4co.Tsp
open Rl4co.Tspfam

/-- **C05 (TSP).** -/
theorem run_of_feasible (i : Inst) (hpos : 0 < i.n) {as : List Nat} (hf : Spec.Tsp.Feasible i.n as) :
    ∃ s, Run env i (env.reset i) as s ∧ env.done i s = true := by
  have hrun := availEnv.run_of_nodup mask_eq_avail (i := i) as (env.reset i) hf.nodup hf.range
    (fun _ _ => rfl)
  exact ⟨_, hrun, (availEnv.run_length hpos hrun).mpr hf.length_eq⟩

/-- complete mask-confined episodes = feasible tours (C01 + C05) -/
theorem complete_run_iff_feasible (i : Inst) (hpos : 0 < i.n) (as : List Nat) :
    (∃ s, Run env i (env.reset i) as s ∧ env.done i s = true) ↔ Spec.Tsp.Feasible i.n as :=
  ⟨fun ⟨_, h, hd⟩ => feasible_of_run i h hd, run_of_feasible i hpos⟩

/-- Non-vacuity. -/
example : Spec.Tsp.Feasible 3 [2, 0, 1] := (Spec.Tsp.feasible_iff 3 [2, 0, 1]).mp (by decide)

end Rl4co.Tsp
