/-
C05 for TSP: the mask hides nothing — every permutation of the nodes is a mask-confined episode that
the environment declares finished; together with C01 the set of complete mask-confined episodes IS
the set of feasible tours, so the best reward reachable through the mask is the optimum.
-/
import Rl4co.Props.C03.Tsp
import Rl4co.Proofs.TspfamOpt
import Rl4co.Proofs.TspfamTsp
import Rl4co.Props.C01.Tsp

namespace Rl4co.Tsp
open Rl4co.Tspfam

/-- **C05 (TSP).** -/
theorem run_of_feasible (i : Inst) (hpos : 0 < i.n) {as : List Nat} (hf : Spec.Tsp.Feasible i.n as) :
    ∃ s, Run env i (env.reset i) as s ∧ env.done i s = true := by
  have hrun := availEnv.run_of_nodup mask_eq_avail (i := i) as (env.reset i) hf.nodup hf.range
    (fun _ _ => rfl)
  exact ⟨_, hrun, (availEnv.run_length hpos hrun).mpr hf.length_eq⟩

/-- complete mask-confined episodes = feasible tours (C01 + C05) -/
theorem complete_run_iff_feasible (i : Inst) (hpos : 0 < i.n) (as : List Nat) :
    (∃ s, Run env i (env.reset i) as s ∧ env.done i s = true) ↔ Spec.Tsp.Feasible i.n as :=
  ⟨fun ⟨_, h, hd⟩ => feasible_of_run i h hd, run_of_feasible i hpos⟩

/-- Non-vacuity. -/
example : Spec.Tsp.Feasible 3 [2, 0, 1] := (Spec.Tsp.feasible_iff 3 [2, 0, 1]).mp (by decide)

/-- **C05 (TSP), the optimum stays reachable**: some complete mask-confined episode attains the minimum
tour length over ALL feasible tours, and no complete mask-confined episode is shorter. -/
theorem opt_reachable (i : Inst) (hpos : 0 < i.n) :
    ∃ as s, Run env i (env.reset i) as s ∧ env.done i s = true ∧
      (∀ bs, Spec.Tsp.Feasible i.n bs → Spec.Tsp.objective i.D as ≤ Spec.Tsp.objective i.D bs) ∧
      (∀ bs t, Run env i (env.reset i) bs t → env.done i t = true →
        Spec.Tsp.objective i.D as ≤ Spec.Tsp.objective i.D bs) := by
  obtain ⟨as, hperm, hmin⟩ := exists_min_perm (List.range i.n) (Spec.Tsp.objective i.D)
  have hfeas : ∀ bs, Spec.Tsp.Feasible i.n bs → Spec.Tsp.objective i.D as ≤ Spec.Tsp.objective i.D bs :=
    fun bs hb => hmin bs ((Spec.Tsp.feasible_iff_perm i.n bs).mp hb)
  obtain ⟨s, hrun, hd⟩ := run_of_feasible i hpos ((Spec.Tsp.feasible_iff_perm i.n as).mpr hperm)
  exact ⟨as, s, hrun, hd, hfeas, fun bs t hr hdt => hfeas bs (feasible_of_run i hr hdt)⟩

/-- in terms of the reward (symmetric distances): the best reward over complete mask-confined episodes is
attained and equals minus the optimal tour length -/
theorem opt_reachable_reward (i : Inst) (hs : ∀ a b, i.D a b = i.D b a) (hpos : 0 < i.n) :
    ∃ as s, Run env i (env.reset i) as s ∧ env.done i s = true ∧
      (∀ bs t, Run env i (env.reset i) bs t → env.done i t = true → reward i bs ≤ reward i as) ∧
      (∀ bs, Spec.Tsp.Feasible i.n bs → - Spec.Tsp.objective i.D bs ≤ reward i as) := by
  obtain ⟨as, s, hrun, hd, h1, h2⟩ := opt_reachable i hpos
  refine ⟨as, s, hrun, hd, ?_, ?_⟩
  · intro bs t hr hdt
    rw [reward_eq_objective i hs, reward_eq_objective i hs]
    have := h2 bs t hr hdt; omega
  · intro bs hb
    rw [reward_eq_objective i hs]
    have := h1 bs hb; omega

end Rl4co.Tsp
