/-
C05 for PDP (both `force_start_at_depot` values): the mask hides nothing — every customer sequence
that visits each pickup and delivery once with every pickup before its delivery is a mask-confined
finished episode (prefixed by the depot under the forced start).  With C01 the complete mask-confined
episodes ARE the feasible solutions, so the optimum stays reachable.
-/
import Rl4co.Props.C03.Pdp
import Rl4co.Proofs.TspfamOpt
import Rl4co.Proofs.TspfamPdp
import Rl4co.Props.C01.Pdp
import Rl4co.Props.C02.Pdp

namespace Rl4co.Pdp
open Rl4co.Tspfam

theorem spec_perm {h : Nat} {cs : List Nat} (hf : Spec.Pdp.Feasible h cs) :
    cs.Perm (List.range' 1 (2 * h)) :=
  (once_iff_perm (2 * h) cs).mp ⟨hf.range, hf.once⟩

theorem spec_nodup {h : Nat} {cs : List Nat} (hf : Spec.Pdp.Feasible h cs) : cs.Nodup :=
  (spec_perm hf).nodup_iff.mpr List.nodup_range'

theorem spec_length {h : Nat} {cs : List Nat} (hf : Spec.Pdp.Feasible h cs) : cs.length = 2 * h := by
  simpa using (spec_perm hf).length_eq

/-- core of C05: a duplicate-free list of available customers in which every still-open pickup
precedes its delivery is admitted step by step -/
theorem run_of_prec (i : Inst) :
    ∀ (cs : List Nat) (s : State), Main i s → cs.Nodup →
      (∀ a ∈ cs, 1 ≤ a ∧ a ≤ i.n ∧ s.avail a = true) →
      (∀ p, 1 ≤ p → p ≤ i.h → s.avail p = true → (p + i.h) ∈ cs → cs.idxOf p < cs.idxOf (p + i.h)) →
      Run env i s cs (exec env i s cs) := by
  intro cs
  induction cs with
  | nil => intro s _ _ _ _; exact Run.nil _
  | cons a cs ih =>
    intro s hm hnd hin hprec
    obtain ⟨ha1, ha2, hav⟩ := hin a (by simp)
    have hnd' := List.nodup_cons.mp hnd
    -- `a` is offered: available, and if it is a delivery its pickup is no longer open
    have htd : s.toDeliver a = true := by
      by_cases hah : a ≤ i.h
      · exact hm.tdp a hah
      · have hp1 : 1 ≤ a - i.h := by omega
        have hp2 : a - i.h ≤ i.h := by simp only [Inst.n] at ha2; omega
        have hjp : a - i.h + i.h = a := by omega
        have htdd := hm.tdd (a - i.h) hp1 hp2
        rw [hjp] at htdd
        rw [htdd]
        by_cases hpav : s.avail (a - i.h) = true
        · have := hprec (a - i.h) hp1 hp2 hpav (by rw [hjp]; simp)
          rw [hjp] at this
          simp [List.idxOf_cons] at this
        · simpa using hpav
    have hmask : env.mask i s a = true := by simp [env, mask, hm.am a, hav, htd]
    have halt : a < env.nAct i := by simp only [env]; omega
    refine Run.cons halt hmask ?_
    apply ih (env.step i s a) (main_step i s a hm halt hmask) hnd'.2
    · intro b hb
      obtain ⟨hb1, hb2, hbav⟩ := hin b (by simp [hb])
      have : b ≠ a := fun h => hnd'.1 (h ▸ hb)
      exact ⟨hb1, hb2, by simp [env, step, upd_apply, this, hbav]⟩
    · intro p hp1 hp2 hpav hmem
      have hpa : p ≠ a := by
        intro h; subst h; simp [env, step] at hpav
      have hpav' : s.avail p = true := by
        simpa [env, step, upd_apply, hpa] using hpav
      have hda : p + i.h ≠ a := fun h => hnd'.1 (h ▸ hmem)
      have := hprec p hp1 hp2 hpav' (by simp [hmem])
      have e1 : (a == p) = false := by simpa using fun h : a = p => hpa h.symm
      have e2 : (a == p + i.h) = false := by simpa using fun h : a = p + i.h => hda h.symm
      simp only [List.idxOf_cons, e1, e2, cond_false] at this
      omega

/-- **C05 (PDP, no forced start).** -/
theorem run_of_feasible (i : Inst) (hf : i.force = false) (hpos : 0 < i.h) {cs : List Nat}
    (hfe : Spec.Pdp.Feasible i.h cs) : ∃ s, Run env i (env.reset i) cs s ∧ env.done i s = true := by
  have hrun := run_of_prec i cs (env.reset i) (main_reset i hf) (spec_nodup hfe)
    (fun a ha => by
      have := hfe.range a ha
      refine ⟨this.1, by simp only [Inst.n]; omega, ?_⟩
      simp only [env, reset, hf, Bool.false_eq_true, if_false, decide_eq_true_eq]; omega)
    (fun p hp1 hp2 _ _ => hfe.prec p hp1 hp2)
  have hwf : WF i := by simp only [WF, len, hf, Inst.n]; simp; omega
  refine ⟨_, hrun, (run_length i hwf hrun).mpr ?_⟩
  simp only [len, hf, Inst.n]; simpa using spec_length hfe

/-- **C05 (PDP, forced start).** -/
theorem run_of_feasible_force (i : Inst) (hf : i.force = true) {as : List Nat}
    (hfe : Spec.Pdp.FeasibleF i.h as) : ∃ s, Run env i (env.reset i) as s ∧ env.done i s = true := by
  obtain ⟨cs, rfl, hfe⟩ := hfe
  have h0 : env.mask i (env.reset i) 0 = true := by simp [env, mask, reset, hf]
  have hrun' := run_of_prec i cs (env.step i (env.reset i) 0) (main_forced_first i hf) (spec_nodup hfe)
    (fun a ha => by
      have := hfe.range a ha
      refine ⟨this.1, by simp only [Inst.n]; omega, ?_⟩
      have : a ≠ 0 := by omega
      simp [env, reset, hf, step, upd_apply, this])
    (fun p hp1 hp2 _ _ => hfe.prec p hp1 hp2)
  have hrun : Run env i (env.reset i) (0 :: cs) _ := Run.cons (by simp [env]) h0 hrun'
  have hwf : WF i := by simp [WF, len, hf]
  refine ⟨_, hrun, (run_length i hwf hrun).mpr ?_⟩
  simp only [len, hf, Inst.n, if_true, List.length_cons]
  rw [spec_length hfe]

/-- complete mask-confined episodes = feasible solutions (C01 + C05) -/
theorem complete_run_iff_feasible (i : Inst) (hf : i.force = false) (hpos : 0 < i.h) (cs : List Nat) :
    (∃ s, Run env i (env.reset i) cs s ∧ env.done i s = true) ↔ Spec.Pdp.Feasible i.h cs :=
  ⟨fun ⟨_, h, hd⟩ => feasible_of_run i hf h hd, run_of_feasible i hf hpos⟩

theorem complete_run_iff_feasible_force (i : Inst) (hf : i.force = true) (as : List Nat) :
    (∃ s, Run env i (env.reset i) as s ∧ env.done i s = true) ↔ Spec.Pdp.FeasibleF i.h as :=
  ⟨fun ⟨_, h, hd⟩ => feasible_of_run_force i hf h hd, run_of_feasible_force i hf⟩

example : Spec.Pdp.Feasible 2 [2, 1, 4, 3] := (Spec.Pdp.feasible_iff 2 _).mp (by decide)

theorem idxOf_range' (n v : Nat) (h1 : 1 ≤ v) (h2 : v ≤ n) : (List.range' 1 n).idxOf v = v - 1 := by
  induction n with
  | zero => omega
  | succ n ih =>
    rw [List.range'_1_concat, List.idxOf_append]
    by_cases hv : v ≤ n
    · have : v ∈ List.range' 1 n := by simp [List.mem_range'_1]; omega
      rw [if_pos this]; exact ih hv
    · have : v ∉ List.range' 1 n := by simp [List.mem_range'_1]; omega
      have hv' : v = 1 + n := by omega
      rw [if_neg this]
      subst hv'
      simp

/-- a feasible solution exists: all pickups in index order, then all deliveries -/
theorem feasible_range' (h : Nat) : Spec.Pdp.Feasible h (List.range' 1 (2 * h)) := by
  obtain ⟨hr, ho⟩ := (once_iff_perm (2 * h) _).mpr (List.Perm.refl _)
  refine ⟨hr, ho, ?_⟩
  intro p hp1 hp2
  rw [idxOf_range' _ p hp1 (by omega), idxOf_range' _ (p + h) (by omega) (by omega)]
  omega

/-- **C05 (PDP, no forced start), the optimum stays reachable.** -/
theorem opt_reachable (i : Inst) (hf : i.force = false) (hpos : 0 < i.h) :
    ∃ cs s, Run env i (env.reset i) cs s ∧ env.done i s = true ∧
      (∀ bs, Spec.Pdp.Feasible i.h bs → Spec.Pdp.objective i.D cs ≤ Spec.Pdp.objective i.D bs) ∧
      (∀ bs t, Run env i (env.reset i) bs t → env.done i t = true →
        Spec.Pdp.objective i.D cs ≤ Spec.Pdp.objective i.D bs) := by
  obtain ⟨cs, hperm, hP, hmin⟩ := exists_min_filter_perm (List.range' 1 (2 * i.h)) (Spec.Pdp.feasible i.h)
    (Spec.Pdp.objective i.D) _ (List.Perm.refl _) ((Spec.Pdp.feasible_iff _ _).mpr (feasible_range' i.h))
  have hcs : Spec.Pdp.Feasible i.h cs := (Spec.Pdp.feasible_iff _ _).mp hP
  have hfeas : ∀ bs, Spec.Pdp.Feasible i.h bs → Spec.Pdp.objective i.D cs ≤ Spec.Pdp.objective i.D bs :=
    fun bs hb => hmin bs (spec_perm hb) ((Spec.Pdp.feasible_iff _ _).mpr hb)
  obtain ⟨s, hrun, hd⟩ := run_of_feasible i hf hpos hcs
  exact ⟨cs, s, hrun, hd, hfeas, fun bs t hr hdt => hfeas bs (feasible_of_run i hf hr hdt)⟩

/-- **C05 (PDP, forced start), the optimum stays reachable** (episodes are `0 :: customers`). -/
theorem opt_reachable_force (i : Inst) (hf : i.force = true) :
    ∃ as s, Run env i (env.reset i) as s ∧ env.done i s = true ∧
      (∀ bs, Spec.Pdp.FeasibleF i.h bs → Spec.Pdp.objective i.D as ≤ Spec.Pdp.objective i.D bs) ∧
      (∀ bs t, Run env i (env.reset i) bs t → env.done i t = true →
        Spec.Pdp.objective i.D as ≤ Spec.Pdp.objective i.D bs) := by
  obtain ⟨cs, hperm, hP, hmin⟩ := exists_min_filter_perm (List.range' 1 (2 * i.h)) (Spec.Pdp.feasible i.h)
    (fun bs => Spec.Pdp.objective i.D (0 :: bs)) _ (List.Perm.refl _)
    ((Spec.Pdp.feasible_iff _ _).mpr (feasible_range' i.h))
  have hcs : Spec.Pdp.Feasible i.h cs := (Spec.Pdp.feasible_iff _ _).mp hP
  have hfeas : ∀ bs, Spec.Pdp.FeasibleF i.h bs →
      Spec.Pdp.objective i.D (0 :: cs) ≤ Spec.Pdp.objective i.D bs := by
    rintro bs ⟨bs', rfl, hb⟩
    exact hmin bs' (spec_perm hb) ((Spec.Pdp.feasible_iff _ _).mpr hb)
  obtain ⟨s, hrun, hd⟩ := run_of_feasible_force i hf ⟨cs, rfl, hcs⟩
  exact ⟨0 :: cs, s, hrun, hd, hfeas, fun bs t hr hdt => hfeas bs (feasible_of_run_force i hf hr hdt)⟩

/-- reward form (symmetric distances, no forced start) -/
theorem opt_reachable_reward (i : Inst) (hf : i.force = false) (hs : ∀ a b, i.D a b = i.D b a)
    (hpos : 0 < i.h) :
    ∃ cs s, Run env i (env.reset i) cs s ∧ env.done i s = true ∧
      (∀ bs t, Run env i (env.reset i) bs t → env.done i t = true → reward i bs ≤ reward i cs) := by
  obtain ⟨cs, s, hrun, hd, _, h2⟩ := opt_reachable i hf hpos
  refine ⟨cs, s, hrun, hd, ?_⟩
  intro bs t hr hdt
  rw [reward_eq_objective i hs (zero_not_mem_of_feasible (feasible_of_run i hf hr hdt)),
    reward_eq_objective i hs (zero_not_mem_of_feasible (feasible_of_run i hf hrun hd))]
  have := h2 bs t hr hdt; omega

end Rl4co.Pdp
