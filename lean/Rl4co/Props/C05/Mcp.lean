/-
C05 for MCP: the mask hides no solution.  Every list of `n_sets_to_choose` distinct sets — every
k-subset in every order — is a mask-confined episode (stepped only while unfinished) that ends
finished; together with C08 the complete episodes are *exactly* the feasible selections, and the
reward of each is its objective, so the best reward reachable through the mask equals the
optimum over all feasible selections (no size bound).
-/
import Rl4co.Props.C08.Mcp
import Rl4co.Props.C03.Mcp

namespace Rl4co.Mcp
open Rl4co.Spec.Mcp

/-- **C05 (MCP)**: every feasible selection, in every order, is admitted and recognised as finished. -/
theorem run_of_feasible (i : Inst) (hwf : WF i) {as : List Nat} (hf : Feasible i as) :
    ∃ s, RunND env i (env.reset i) as s ∧ env.done i s = true :=
  Sel.run_of_feasible view (i := i) hwf.1 as hf.len hf.nodup (fun a ha => ⟨hf.range a ha, rfl⟩)

/-- the complete mask-confined episodes are exactly the feasible selections -/
theorem complete_iff_feasible (i : Inst) (hwf : WF i) (as : List Nat) :
    (∃ s, RunND env i (env.reset i) as s ∧ env.done i s = true) ↔ Feasible i as :=
  ⟨fun ⟨_, h, hd⟩ => feasible_of_run i hwf h hd, run_of_feasible i hwf⟩

/-- **optimum reachable**: for every feasible selection there is a complete mask-confined episode with
reward its objective, and every complete episode is such a selection — the set of reachable
rewards is `{objective as | Feasible as}`. -/
theorem opt_reachable (i : Inst) (hwf : WF i) (r : Int) :
    (∃ as s, RunND env i (env.reset i) as s ∧ env.done i s = true ∧ reward i s = r) ↔
    (∃ as, Feasible i as ∧ r = objective i as) := by
  constructor
  · rintro ⟨as, s, h, hd, hr⟩
    have hf := feasible_of_run i hwf h hd
    exact ⟨as, hf, by rw [← hr, reward_eq_objective i h.run]⟩
  · rintro ⟨as, hf, hr⟩
    obtain ⟨s, h, hd⟩ := run_of_feasible i hwf hf
    exact ⟨as, s, h, hd, by rw [hr, reward_eq_objective i h.run]⟩

/-- Non-vacuity: `[2, 0]` is feasible for a 3-set instance with quota 2. -/
example : Feasible ⟨3, 2, 1, 2, fun j _ => j + 1, fun _ => 1⟩ [2, 0] :=
  (feasible_iff _ _).mp (by decide)

end Rl4co.Mcp
