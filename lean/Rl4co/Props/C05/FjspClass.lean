/-
C05 for FJSP / JSSP, part 2: the converse direction and the resulting characterisation of the class
of schedules the action space expresses (an `iff` for both settings of `mask_no_ops`).

* `reach_induct`            induction over reachable states along the structure of `_step`
* `reachable_eventAligned`  every reachable schedule starts its operations at 0 or at completion times
* `reachable_nondelay`      `mask_no_ops = true`: every reachable schedule is non-delay
* `reachable_iff_wait_allowed` / `reachable_iff_no_wait`
      reachable ⇔ valid ∧ event-aligned            (`mask_no_ops = false`)
      reachable ⇔ valid ∧ event-aligned ∧ non-delay (`mask_no_ops = true`)
-/
import Rl4co.Props.C05.Fjsp

namespace Rl4co.Fjsp
open Rl4co.Spec.Fjsp (isReal opOf Sched ValidSchedule)

/-! ### the converse direction: what every reachable schedule looks like -/

/-- Induction over reachable states along the structure of `_step`: a property that holds at reset, is
preserved by `_make_step` on a selected (job, machine) pair and by `_transit_to_next_time` (entered either
because the state is stuck, or by an admitted wait action) holds in every reachable state. -/
theorem reach_induct {i : Inst} (hwf : WF i) (P : State → Prop) (h0 : P (reset i))
    (hmake : ∀ s j m, Inv i s → P s → s.done = false → Sel i s j m → P (makeStepAt s j (s.nextOp j) m))
    (htrans : ∀ s t', Inv i s → P s → s.done = false → nextTime i.M s.busy s.time = some t' →
      (stepComplete i s = true ∨ (i.maskNoOps = false ∧ mask i s 0 = true)) → P (transit i s)) :
    ∀ s, Reach env i s → P s := by
  have hauto : ∀ f s, Inv i s → P s → cntBusy i s < f → P (autoTransit i f s) := by
    intro f
    induction f with
    | zero => intro s _ _ h; omega
    | succ f ih =>
      intro s hinv hp hlt
      simp only [autoTransit]
      cases hsc : stepComplete i s with
      | false => simpa using hp
      | true =>
        simp only [if_true]
        obtain ⟨m, hm, hb⟩ := exists_busy_of_stepComplete hwf hinv hsc
        obtain ⟨t', ht'⟩ := nextTime_isSome hm hb
        have hd : s.done = false := by
          simp only [stepComplete, Bool.and_eq_true, Bool.not_eq_true'] at hsc; exact hsc.2
        exact ih _ (inv_transit hwf hinv ht') (htrans s t' hinv hp hd ht' (Or.inl hsc))
          (by have := cntBusy_transit_lt (i := i) ht'; omega)
  intro s hr
  have : Inv2 i s ∧ P s := by
    apply inv_of_reach (e := env) (Inv := fun s => Inv2 i s ∧ P s) ⟨inv2_reset hwf, h0⟩ _ hr
    intro s a ⟨h2, hp⟩ ha hm
    refine ⟨inv2_step hwf h2 ha hm, ?_⟩
    obtain ⟨hinv, _⟩ := h2
    simp only [env] at ha hm ⊢
    rw [step_eq]
    cases hd : s.done with
    | true => simpa using hp
    | false =>
      simp only [Bool.false_eq_true, if_false]
      by_cases ha0 : a = 0
      · subst ha0
        simp only [if_true]
        obtain ⟨hmno, m, hmM, hb⟩ := wait_busy hinv hd hm
        obtain ⟨t', ht'⟩ := nextTime_isSome hmM hb
        exact hauto _ _ (inv_transit hwf hinv ht') (htrans s t' hinv hp hd ht' (Or.inr ⟨hmno, hm⟩))
          (cntBusy_le_fuel i _)
      · simp only [ha0, if_false]
        obtain ⟨hsel, ho⟩ := sel_of_mask hwf hinv ha0 ha hm
        have hms : makeStep i s (a - 1) = makeStepAt s (translate i s (a - 1)).1
            (s.nextOp (translate i s (a - 1)).1) (translate i s (a - 1)).2.2 := by
          unfold makeStep; simp only [ho]
        rw [hms]
        exact hauto _ _ (inv_makeStepAt hwf hinv hsel) (hmake s _ _ hinv hp hd hsel) (cntBusy_le_fuel i _)
  exact this.2

theorem transit_fields {i : Inst} {s : State} {t' : Int} (h : nextTime i.M s.busy s.time = some t') :
    (transit i s).time = t' ∧ (transit i s).sched = s.sched ∧ (transit i s).start = s.start ∧
    (transit i s).finish = s.finish ∧ (transit i s).assign = s.assign := by
  rw [transit, advance_some h]; exact ⟨rfl, rfl, rfl, rfl, rfl⟩

/-- every reachable state: the clock and every start time is 0 or a completion time -/
def EAState (s : State) : Prop :=
  (s.time = 0 ∨ ∃ o, s.sched o = true ∧ s.finish o = s.time) ∧
  ∀ o, s.sched o = true → s.start o = 0 ∨ ∃ o', s.sched o' = true ∧ s.finish o' = s.start o

theorem eaState_of_reach {i : Inst} (hwf : WF i) : ∀ s, Reach env i s → EAState s := by
  apply reach_induct hwf EAState
  · exact ⟨Or.inl rfl, fun o h => by simp [reset] at h⟩
  · intro s j m hinv ⟨h1, h2⟩ _ hsel
    obtain ⟨hns, _, _, _⟩ := sel_facts hwf hinv hsel
    -- completion times of already scheduled operations are untouched
    have keep : ∀ o', s.sched o' = true →
        (makeStepAt s j (s.nextOp j) m).sched o' = true ∧ (makeStepAt s j (s.nextOp j) m).finish o' = s.finish o' := by
      intro o' hs'
      have hne : o' ≠ s.nextOp j := by intro h; subst h; rw [hns] at hs'; simp at hs'
      simp [makeStepAt, hne, hs']
    have h1' : (makeStepAt s j (s.nextOp j) m).time = 0 ∨
        ∃ o, (makeStepAt s j (s.nextOp j) m).sched o = true ∧
          (makeStepAt s j (s.nextOp j) m).finish o = (makeStepAt s j (s.nextOp j) m).time := by
      rcases h1 with h | ⟨o', hs', hf'⟩
      · exact Or.inl h
      · exact Or.inr ⟨o', (keep o' hs').1, by rw [(keep o' hs').2]; exact hf'⟩
    refine ⟨h1', fun o hs => ?_⟩
    by_cases ho : o = s.nextOp j
    · subst ho
      have : (makeStepAt s j (s.nextOp j) m).start (s.nextOp j) = (makeStepAt s j (s.nextOp j) m).time := by
        simp [makeStepAt]
      rw [this]; exact h1'
    · have hso : s.sched o = true := by simpa [makeStepAt, ho] using hs
      have hst : (makeStepAt s j (s.nextOp j) m).start o = s.start o := by simp [makeStepAt, ho]
      rw [hst]
      rcases h2 o hso with h | ⟨o', hs', hf'⟩
      · exact Or.inl h
      · exact Or.inr ⟨o', (keep o' hs').1, by rw [(keep o' hs').2]; exact hf'⟩
  · intro s t' hinv ⟨_, h2⟩ _ ht' _
    obtain ⟨e1, e2, e3, e4, _⟩ := transit_fields (i := i) ht'
    obtain ⟨hlt, ⟨m0, hm0, hb0⟩, _⟩ := nextTime_some ht'
    refine ⟨Or.inr ?_, ?_⟩
    · rcases hinv.busyAtt m0 with h | ⟨o, hs, _, hf⟩
      · have := hinv.time0; omega
      · exact ⟨o, by rw [e2]; exact hs, by rw [e4, e1]; omega⟩
    · intro o hs
      rw [e2] at hs; rw [e3, e2, e4]
      exact h2 o hs

/-- **every reachable finished schedule is event-aligned** (both `mask_no_ops` settings) -/
theorem reachable_eventAligned (i : Inst) (hwf : WF i) (as : List Nat) (s : State)
    (hrun : Run env i (env.reset i) as s) : EventAligned i (schedOf s) := by
  have hinv := (inv2_of_reach hwf ⟨as, hrun⟩).1
  have hea := eaState_of_reach hwf s ⟨as, hrun⟩
  intro o ho hr
  obtain ⟨j, hj, h1, h2⟩ := job_of_real hr
  simp only [schedOf]
  cases hs : s.sched o with
  | false =>
    -- an unscheduled operation carries the filler `start = 0`
    left
    have : ∀ s', Reach env i s' → ∀ o, s'.sched o = false → s'.start o = 0 := by
      apply reach_induct hwf (fun s' => ∀ o, s'.sched o = false → s'.start o = 0)
      · intro o _; rfl
      · intro s' j' m' _ hp _ _ o' hs'
        by_cases ho' : o' = s'.nextOp j'
        · simp [makeStepAt, ho'] at hs'
        · simp only [makeStepAt, upd_apply, ho', if_false] at hs' ⊢; exact hp o' hs'
      · intro s' t'' _ hp _ ht'' _ o' hs'
        obtain ⟨_, e2, e3, _, _⟩ := transit_fields (i := i) ht''
        rw [e2] at hs'; rw [e3]; exact hp o' hs'
    exact this s ⟨as, hrun⟩ o hs
  | true =>
    rcases hea.2 o hs with h | ⟨o', hs', hf'⟩
    · exact Or.inl h
    · obtain ⟨j', hj', h1', h2'⟩ := hinv.schedReal o' hs'
      exact Or.inr ⟨o', by have := (hwf.rng j' hj').2; omega, real_of_job hj' h1' h2', hf'⟩

/-- the non-delay property of the part of the schedule that lies before the current time -/
def NDState (i : Inst) (s : State) : Prop :=
  ∀ (t : Int) (m o : Nat), 0 ≤ t → t < s.time → m < i.M → isReal i o = true → 0 < i.proc m o →
    (∀ o', s.sched o' = true → s.assign m o' = true → ¬ (s.start o' ≤ t ∧ t < s.finish o')) →
    (∀ j, j < i.J → i.startOp j < o → o ≤ i.endOp j → s.sched (o - 1) = true ∧ s.finish (o - 1) ≤ t) →
    s.sched o = true ∧ s.start o ≤ t

theorem ndState_of_reach {i : Inst} (hwf : WF i) (hmno : i.maskNoOps = true) :
    ∀ s, Reach env i s → NDState i s := by
  apply reach_induct hwf (NDState i)
  · intro t m o h0 hlt; simp [reset] at hlt; omega
  · -- `_make_step`: the new operation starts now, later than every `t` in question
    intro s j m hinv hp _ hsel t m' o h0 hlt hm' hr hpos hidle hpred
    obtain ⟨hns, hpe, hpp, _⟩ := sel_facts hwf hinv hsel
    have hlt' : t < s.time := hlt
    have hold := hp t m' o h0 hlt' hm' hr hpos ?_ ?_
    · have hne : o ≠ s.nextOp j := by intro h; subst h; rw [hns] at hold; simp at hold
      simp only [makeStepAt, upd_apply, hne, if_false]; exact hold
    · intro o' hs' ha'
      have hne : o' ≠ s.nextOp j := by intro h; subst h; rw [hns] at hs'; simp at hs'
      have := hidle o' (by simp [makeStepAt, hne, hs']) (by simp [makeStepAt, hne, ha'])
      simpa [makeStepAt, upd_apply, hne] using this
    · intro j' hj' h1 h2
      have := hpred j' hj' h1 h2
      by_cases hne : o - 1 = s.nextOp j
      · exfalso
        have hf := this.2
        simp only [makeStepAt, upd_apply, hne, if_true] at hf
        rw [hpe] at hf; omega
      · simpa [makeStepAt, upd_apply, hne] using this
  · -- the clock advances only from a stuck state (waiting is masked): nothing was schedulable in between
    intro s t' hinv hp hd ht' hcase
    have hsc : stepComplete i s = true := by
      rcases hcase with h | ⟨h, _⟩
      · exact h
      · rw [hmno] at h; simp at h
    obtain ⟨e1, e2, e3, e4, e5⟩ := transit_fields (i := i) ht'
    obtain ⟨hlt', _, hmin⟩ := nextTime_some ht'
    intro t m o h0 hlt hm hr hpos hidle hpred
    rw [e1] at hlt
    rw [e2, e3] at *
    rw [e4] at hidle hpred
    rw [e5] at hidle
    by_cases hpast : t < s.time
    · exact hp t m o h0 hpast hm hr hpos hidle hpred
    · cases hs : s.sched o with
      | true => exact ⟨rfl, by have := hinv.startLe o hs; omega⟩
      | false =>
        exfalso
        obtain ⟨j, hj, h1, h2⟩ := job_of_real hr
        have hrng := hinv.nextRng j hj
        have hiff := hinv.schedIff j hj o h1 h2
        have hnot : ¬ (o < s.nextOp j ∨ (o = s.nextOp j ∧ (s.inProc j = true ∨ s.jobDone j = true))) := by
          intro h; rw [hiff.mpr h] at hs; simp at hs
        -- `o` is the next operation of its idle, unfinished job
        have hnext : s.nextOp j = o := by
          by_cases hfirst : o = i.startOp j
          · apply Classical.byContradiction; intro hne
            exact hnot (Or.inl (by omega))
          · have hp1 := hpred j hj (by omega) h2
            -- the predecessor completed by the current time: nothing completes strictly inside (time, t')
            have hfin : s.finish (o - 1) ≤ s.time := by
              apply Classical.byContradiction; intro hc
              obtain ⟨mm, hmm, ha, _, _, _, _, _⟩ := hinv.asg (o - 1) hp1.1
              have hb := busy_eq_finish_of_running hinv hp1.1 ha (by omega)
              have := hmin mm hmm (by omega)
              omega
            rcases (hinv.schedIff j hj (o - 1) (by omega) (by omega)).mp hp1.1 with h | ⟨h, hh⟩
            · apply Classical.byContradiction; intro hne
              exact hnot (Or.inl (by omega))
            · exfalso
              rcases hh with hip | hjd
              · have := hinv.inflight j hip; rw [← h] at this; omega
              · have := (hinv.jdone j hj hjd).1; omega
        have hnip : s.inProc j = false := by
          cases hip : s.inProc j with
          | false => rfl
          | true => exact absurd (Or.inr ⟨hnext.symm, Or.inl hip⟩) hnot
        have hnjd : s.jobDone j = false := by
          cases hjd : s.jobDone j with
          | false => rfl
          | true => exact absurd (Or.inr ⟨hnext.symm, Or.inr hjd⟩) hnot
        have hbusy : s.busy m ≤ s.time := by
          apply Classical.byContradiction; intro hc
          rcases hinv.busyAtt m with hz | ⟨o2, hs2, ha2, hf2⟩
          · have := hinv.time0; omega
          · have hsl := hinv.startLe o2 hs2
            have := hmin m hm (by omega)
            exact hidle o2 hs2 ha2 ⟨by omega, by omega⟩
        have hproc : s.proc m (s.nextOp j) ≠ 0 := by
          rw [hinv.procEq, hnext]; simp [hs]; omega
        have hav : avail i s j m = true := by
          simp only [avail_eq, hnjd, hnip, Bool.not_false, Bool.true_and, Bool.and_eq_true, Bool.not_eq_true',
            decide_eq_false_iff_not, beq_eq_false_iff_ne]
          exact ⟨by omega, hproc⟩
        have hmask := mask_actOf hm hav
        simp only [stepComplete, Bool.and_eq_true, Bool.not_eq_true'] at hsc
        have := anyUpTo_eq_false.mp hsc.1 _ (actOf_lt hj hm)
        rw [hmask] at this; simp at this

/-- **C05 converse (`mask_no_ops = true`)**: every finished mask-confined episode yields a NON-DELAY
schedule — with waiting masked the action space expresses nothing else. -/
theorem reachable_nondelay (i : Inst) (hwf : WF i) (hmno : i.maskNoOps = true) (as : List Nat) (s : State)
    (hrun : Run env i (env.reset i) as s) (hd : s.done = true) : NonDelay i (schedOf s) := by
  have hinv := (inv2_of_reach hwf ⟨as, hrun⟩).1
  have hnd := ndState_of_reach hwf hmno s ⟨as, hrun⟩
  have hall := all_sched_of_done hinv hd
  intro t m o h0 hm ho hr hpos hidle hpred
  obtain ⟨j, hj, h1, h2⟩ := job_of_real hr
  have hso := hall j hj o h1 h2
  simp only [schedOf] at hidle hpred ⊢
  by_cases hpast : t < s.time
  · refine (hnd t m o h0 hpast hm hr hpos ?_ ?_).2
    · intro o' hs' ha'
      obtain ⟨j', hj', h1', h2'⟩ := hinv.schedReal o' hs'
      exact hidle o' (by have := (hwf.rng j' hj').2; omega) (real_of_job hj' h1' h2') ha'
    · intro j' hj' h1' h2'
      exact ⟨hall j' hj' (o - 1) (by omega) (by omega), hpred j' hj' h1' h2'⟩
  · have := hinv.startLe o hso; omega

/-! ### the reachable class as an `iff`, for both settings of `mask_no_ops` -/

/-- two schedules agree on the real operations (and machines) of the instance -/
def SameOn (i : Inst) (σ σ' : Sched) : Prop :=
  ∀ o, o < i.N → isReal i o = true →
    σ.start o = σ'.start o ∧ σ.finish o = σ'.finish o ∧ ∀ m, m < i.M → σ.assign m o = σ'.assign m o

theorem SameOn.symm {i : Inst} {σ σ' : Sched} (h : SameOn i σ σ') : SameOn i σ' σ :=
  fun o ho hr => ⟨(h o ho hr).1.symm, (h o ho hr).2.1.symm, fun m hm => ((h o ho hr).2.2 m hm).symm⟩

theorem valid_congr {i : Inst} (hwf : WF i) {σ σ' : Sched} {mk : Int} (h : SameOn i σ σ')
    (hv : ValidSchedule i σ mk) : ValidSchedule i σ' mk := by
  refine ⟨?_, ?_, ?_, ?_, ?_⟩
  · intro o ho hr
    obtain ⟨e1, e2, e3⟩ := h o ho hr
    obtain ⟨hc, h0, hall⟩ := hv.once o ho hr
    refine ⟨?_, by rw [← e1]; exact h0, fun m hm ha => ?_⟩
    · rw [← hc]; exact cnt_congr (fun m hm => (e3 m hm).symm)
    · rw [← e3 m hm] at ha
      rw [← e1, ← e2]; exact hall m hm ha
  · intro j hj o ho h1 h2
    have hr := real_of_job hj h1 (show o ≤ i.endOp j by omega)
    have hr' := real_of_job hj (show i.startOp j ≤ o + 1 by omega) (show o + 1 ≤ i.endOp j by omega)
    have hN := (hwf.rng j hj).2
    rw [← (h o ho hr).2.1, ← (h (o + 1) (by omega) hr').1]
    exact hv.order j hj o ho h1 h2
  · intro m hm o1 ho1 o2 ho2 hr1 hr2 hne ha1 ha2
    obtain ⟨a1, a2, a3⟩ := h o1 ho1 hr1
    obtain ⟨b1, b2, b3⟩ := h o2 ho2 hr2
    rw [← a3 m hm] at ha1; rw [← b3 m hm] at ha2
    rw [← a1, ← a2, ← b1, ← b2]
    exact hv.machine m hm o1 ho1 o2 ho2 hr1 hr2 hne ha1 ha2
  · intro o ho hr; rw [← (h o ho hr).2.1]; exact hv.mkUpper o ho hr
  · obtain ⟨o, ho, hr, he⟩ := hv.mkAttained
    exact ⟨o, ho, hr, by rw [← (h o ho hr).2.1]; exact he⟩

theorem eventAligned_congr {i : Inst} {σ σ' : Sched} (h : SameOn i σ σ') (hea : EventAligned i σ) :
    EventAligned i σ' := by
  intro o ho hr
  rcases hea o ho hr with h0 | ⟨o', ho', hr', hf⟩
  · left; rw [← (h o ho hr).1]; exact h0
  · right; exact ⟨o', ho', hr', by rw [← (h o' ho' hr').2.1, ← (h o ho hr).1]; exact hf⟩

theorem nonDelay_congr {i : Inst} (hwf : WF i) {σ σ' : Sched} (h : SameOn i σ σ') (hnd : NonDelay i σ) :
    NonDelay i σ' := by
  intro t m o h0 hm ho hr hpos hidle hpred
  rw [← (h o ho hr).1]
  apply hnd t m o h0 hm ho hr hpos
  · intro o' ho' hr' ha'
    obtain ⟨e1, e2, e3⟩ := h o' ho' hr'
    rw [e1, e2]
    exact hidle o' ho' hr' (by rw [← e3 m hm]; exact ha')
  · intro j hj h1 h2
    have hN := (hwf.rng j hj).2
    have hrp := real_of_job hj (show i.startOp j ≤ o - 1 by omega) (show o - 1 ≤ i.endOp j by omega)
    rw [(h (o - 1) (by omega) hrp).2.1]
    exact hpred j hj h1 h2

/-- a schedule is *reachable* if some finished mask-confined episode records it (on the real operations) -/
def Reachable (i : Inst) (σ : Sched) : Prop :=
  ∃ as s, Run env i (env.reset i) as s ∧ s.done = true ∧ SameOn i (schedOf s) σ

/-- **C05, `mask_no_ops = false`: the action space expresses exactly the valid event-aligned schedules**
(every operation starts at 0 or at a completion time — in particular all semi-active schedules). -/
theorem reachable_iff_wait_allowed (i : Inst) (hwf : WF i) (hmno : i.maskNoOps = false) (σ : Sched) :
    Reachable i σ ↔ ((∃ mk, ValidSchedule i σ mk) ∧ EventAligned i σ) := by
  constructor
  · rintro ⟨as, s, hrun, hd, hsame⟩
    exact ⟨⟨_, valid_congr hwf hsame (schedule_valid i hwf as s hrun hd)⟩,
      eventAligned_congr hsame (reachable_eventAligned i hwf as s hrun)⟩
  · rintro ⟨⟨mk, hv⟩, hea⟩
    obtain ⟨as, s, hrun, hd, hsame, _⟩ := schedule_reachable i hwf hmno σ mk hv hea
    exact ⟨as, s, hrun, hd, hsame⟩

/-- **C05, `mask_no_ops = true` (default): the action space expresses exactly the valid event-aligned
NON-DELAY schedules.** -/
theorem reachable_iff_no_wait (i : Inst) (hwf : WF i) (hmno : i.maskNoOps = true) (σ : Sched) :
    Reachable i σ ↔ ((∃ mk, ValidSchedule i σ mk) ∧ EventAligned i σ ∧ NonDelay i σ) := by
  constructor
  · rintro ⟨as, s, hrun, hd, hsame⟩
    exact ⟨⟨_, valid_congr hwf hsame (schedule_valid i hwf as s hrun hd)⟩,
      eventAligned_congr hsame (reachable_eventAligned i hwf as s hrun),
      nonDelay_congr hwf hsame (reachable_nondelay i hwf hmno as s hrun hd)⟩
  · rintro ⟨⟨mk, hv⟩, hea, hnd⟩
    obtain ⟨as, s, hrun, hd, hsame, _⟩ := nondelay_schedule_reachable i hwf hmno σ mk hv hea hnd
    exact ⟨as, s, hrun, hd, hsame⟩

end Rl4co.Fjsp
