/-
C05 for SVRP.  `run_of_feasible`: every solution that is feasible by the independent definition, visits
the depot at least once and is *canonical* — a technician is sent home without a customer (depot→depot
move, also at the very start) only when he can serve none of the customers still to be served — is a
mask-confined run that the environment declares finished.  Skill requirements met with equality are
included (`≤`).

`run_of_feasible_counterexample`: without the canonicity clause the statement is FALSE, and the pruning is
not harmless: the mask never lets an able technician stay at home, although skipping a cheap but weak
technician can be strictly better (`skipped_technician_better`).  Known finding
`svrp-skipped-technician-C05`.
-/
import Rl4co.Env.Svrp
import Rl4co.Spec.Svrp
import Rl4co.Props.C01.Svrp

namespace Rl4co.Svrp
open Rl4co.Spec.Svrp

/-- canonicity from technician `k`, `atDepot` = the vehicle is at the depot (start or just returned) -/
def canonFrom (i : Inst) : Nat → Bool → List Nat → Prop
  | _, _, [] => True
  | k, atDepot, a :: as =>
    (a = 0 → atDepot = true → ∀ j ∈ as, j ≠ 0 → ¬ (i.skills j ≤ i.techs k)) ∧
    canonFrom i (if a = 0 then k + 1 else k) (decide (a = 0)) as

structure Canonical (i : Inst) (as : List Nat) : Prop where
  prune : canonFrom i 0 true as
  depot : 0 ∈ as

theorem exists_route_of_mem (as : List Nat) : ∀ a ∈ as, a ≠ 0 → ∃ r ∈ routes as, a ∈ r := by
  induction as with
  | nil => intro a ha; simp at ha
  | cons b as ih =>
    intro a ha h0
    obtain ⟨r1, rs1, h1⟩ := routes_cons_exists as
    by_cases hb : b = 0
    · subst hb
      have : a ∈ as := by
        rcases List.mem_cons.mp ha with h | h
        · exact absurd h h0
        · exact h
      obtain ⟨r, hr, hm⟩ := ih a this h0
      exact ⟨r, by simp [routes, hr], hm⟩
    · simp only [routes, hb, if_false, h1]
      rcases List.mem_cons.mp ha with h | h
      · subst h; exact ⟨a :: r1, by simp, by simp⟩
      · obtain ⟨r, hr, hm⟩ := ih a h h0
        rw [h1] at hr
        rcases List.mem_cons.mp hr with hh | hh
        · subst hh; exact ⟨b :: r, by simp, by simp [hm]⟩
        · exact ⟨r, by simp [hh], hm⟩

/-- routes driven by technicians beyond the last one are empty -/
theorem routes_empty_of_ok (i : Inst) (rs : List (List Nat)) : ∀ k, i.T ≤ k → routesOk i k rs = true →
    ∀ r ∈ rs, r = [] := by
  induction rs with
  | nil => intro _ _ _ r hr; simp at hr
  | cons r rs ih =>
    intro k hk h r' hr'
    simp only [routesOk, routeOk, Bool.and_eq_true, Bool.or_eq_true, List.isEmpty_iff, decide_eq_true_eq] at h
    rcases List.mem_cons.mp hr' with hh | hh
    · subst hh
      rcases h.1 with h1 | h1
      · exact h1
      · omega
    · exact ih (k + 1) (by omega) h.2 r' hh

/-- Generalised over the start state. -/
theorem run_of_ok (i : Inst) (as : List Nat) :
    ∀ s : State,
      (∀ a ∈ as, a ≤ i.n) →
      (∀ j, 1 ≤ j → j ∈ as → s.vis j = false) →
      (∀ j, 1 ≤ j → j ≤ i.n → s.vis j = false → j ∈ as) →
      (∀ j, 1 ≤ j → as.count j ≤ 1) →
      (∀ r rs, routes as = r :: rs →
        (∀ j ∈ r, i.skills j ≤ i.techs s.tech) ∧ routesOk i (s.tech + 1) rs = true) →
      canonFrom i s.tech (s.cur == 0) as →
      ∃ s', Run env i s as s' ∧ ∀ j, s'.vis j = (s.vis j || decide (j ∈ as)) := by
  induction as with
  | nil => intro s _ _ _ _ _ _; exact ⟨s, Run.nil s, by simp⟩
  | cons a as ih =>
    intro s hr hv hcov hc hsk hcan
    obtain ⟨r1, rs1, h1⟩ := routes_cons_exists as
    have ha : a < env.nAct i := by have := hr a (by simp); simp [env]; omega
    simp only [canonFrom] at hcan
    obtain ⟨hcan1, hcan2⟩ := hcan
    by_cases h0 : a = 0
    · subst h0
      have hsk' := hsk [] (routes as) (by simp [routes])
      -- no customer is free whenever the depot rule would close the depot
      have hm : env.mask i s 0 = true := by
        simp only [env, mask_eq, maskRef, if_true, Bool.not_eq_true', Bool.and_eq_false_iff, Bool.or_eq_false_iff,
          beq_eq_false_iff_ne, ne_eq]
        by_cases hcur : s.cur = 0
        · right
          simp only [anyLoc, List.any_eq_false, List.mem_range]
          intro k hk
          by_cases hvk : s.vis (k + 1) = true
          · simp [locOk, hvk]
          · have hvk' : s.vis (k + 1) = false := by simpa using hvk
            have hmem := hcov (k + 1) (by omega) (by omega) hvk'
            have hmem' : k + 1 ∈ as := by
              rcases List.mem_cons.mp hmem with h | h
              · omega
              · exact h
            have := hcan1 rfl (by simp [hcur]) (k + 1) hmem' (by omega)
            simp [locOk, Params.svrpMaskSkillCmp, Cmp.eval, this]
        · by_cases hlast : s.tech = i.T - 1
          · right
            have hempty := routes_empty_of_ok i (routes as) (s.tech + 1) (by omega) hsk'.2
            simp only [anyLoc, List.any_eq_false, List.mem_range]
            intro k hk
            by_cases hvk : s.vis (k + 1) = true
            · simp [locOk, hvk]
            · have hvk' : s.vis (k + 1) = false := by simpa using hvk
              have hmem := hcov (k + 1) (by omega) (by omega) hvk'
              have hmem' : k + 1 ∈ as := by
                rcases List.mem_cons.mp hmem with h | h
                · omega
                · exact h
              obtain ⟨r, hr', hin⟩ := exists_route_of_mem as (k + 1) hmem' (by omega)
              have := hempty r hr'
              subst this
              simp at hin
          · left; exact ⟨hcur, hlast⟩
      obtain ⟨s', hrun, hvis⟩ := ih (env.step i s 0)
        (fun b hb => hr b (by simp [hb]))
        (fun j hj hmem => by
          have := hv j hj (by simp [hmem])
          simp only [env, step_eq, stepRef, upd_apply]
          have : j ≠ 0 := by omega
          simp [*])
        (fun j hj1 hj2 hvj => by
          have hne : j ≠ 0 := by omega
          have : s.vis j = false := by
            simp only [env, step_eq, stepRef, upd_apply, hne, if_false] at hvj
            exact hvj
          have := hcov j hj1 hj2 this
          rcases List.mem_cons.mp this with h | h
          · omega
          · exact h)
        (fun j hj => by
          have := hc j hj
          rw [List.count_cons] at this
          omega)
        (fun r rs hrs => by
          rw [h1] at hsk'
          rw [h1] at hrs
          simp only [List.cons.injEq] at hrs
          obtain ⟨e1, e2⟩ := hrs; subst e1 e2
          have h2 := hsk'.2
          simp only [routesOk, routeOk, Bool.and_eq_true, Bool.or_eq_true, List.isEmpty_iff,
            List.all_eq_true, decide_eq_true_eq] at h2
          have htech : (env.step i s 0).tech = s.tech + 1 := by simp [env, step_eq, stepRef]
          rw [htech]
          refine ⟨?_, h2.2⟩
          rcases h2.1 with h | h
          · subst h; simp
          · exact h.2)
        (by
          have htech : (env.step i s 0).tech = s.tech + 1 := by simp [env, step_eq, stepRef]
          have hcur : (env.step i s 0).cur = 0 := rfl
          rw [htech, hcur]
          simpa using hcan2)
      refine ⟨s', Run.cons ha hm hrun, fun j => ?_⟩
      rw [hvis j]
      simp only [env, step_eq, stepRef, upd_apply, List.mem_cons]
      by_cases hj : j = 0 <;> simp [hj]
    · have hva : s.vis a = false := hv a (by omega) (by simp)
      have hsk' := hsk (a :: r1) rs1 (by simp [routes, h0, h1])
      have hm : env.mask i s a = true := by
        have := hsk'.1 a (by simp)
        simp [env, mask_eq, maskRef, h0, locOk, hva, Params.svrpMaskSkillCmp, Cmp.eval, this]
      have hnotin : a ∉ as := by
        intro hmem
        have h2 := hc a (by omega)
        rw [List.count_cons] at h2
        have h3 := List.count_pos_iff.mpr hmem
        simp only [beq_self_eq_true, if_true] at h2
        omega
      have htech : (env.step i s a).tech = s.tech := by simp [env, step_eq, stepRef, h0]
      obtain ⟨s', hrun, hvis⟩ := ih (env.step i s a)
        (fun b hb => hr b (by simp [hb]))
        (fun j hj hmem => by
          have := hv j hj (by simp [hmem])
          simp only [env, step_eq, stepRef, upd_apply]
          have : j ≠ a := fun h => hnotin (h ▸ hmem)
          simp [*])
        (fun j hj1 hj2 hvj => by
          by_cases hja : j = a
          · subst hja; simp [env, step_eq, stepRef] at hvj
          · have : s.vis j = false := by
              simp only [env, step_eq, stepRef, upd_apply, hja, if_false] at hvj
              exact hvj
            have := hcov j hj1 hj2 this
            rcases List.mem_cons.mp this with h | h
            · exact absurd h hja
            · exact h)
        (fun j hj => by
          have := hc j hj
          rw [List.count_cons] at this
          omega)
        (fun r rs hrs => by
          rw [h1] at hrs
          simp only [List.cons.injEq] at hrs
          obtain ⟨e1, e2⟩ := hrs; subst e1 e2
          rw [htech]
          exact ⟨fun j hj => hsk'.1 j (by simp [hj]), hsk'.2⟩)
        (by
          have hcur : (env.step i s a).cur = a := rfl
          rw [htech, hcur]
          have e : (a == 0) = false := by simp [h0]
          rw [e]
          simpa [h0] using hcan2)
      refine ⟨s', Run.cons ha hm hrun, fun j => ?_⟩
      rw [hvis j]
      simp only [env, step_eq, stepRef, upd_apply, List.mem_cons]
      by_cases hj : j = a <;> simp [hj]

/-- **C05 (SVRP).** -/
theorem run_of_feasible (i : Inst) (as : List Nat) (hf : Feasible i as) (hc : Canonical i as) :
    ∃ s, Run env i (env.reset i) as s ∧ env.done i s = true := by
  obtain ⟨s, hrun, hvis⟩ := run_of_ok i as (env.reset i) hf.range
    (fun _ _ _ => rfl)
    (fun j hj1 hj2 _ => List.count_pos_iff.mp (by rw [hf.once j hj1 hj2]; exact Nat.one_pos))
    (fun j hj => by
      by_cases hjn : j ≤ i.n
      · rw [hf.once j hj hjn]; exact Nat.le_refl 1
      · have : j ∉ as := fun hm => hjn (hf.range j hm)
        simp [List.count_eq_zero_of_not_mem this])
    (fun r rs hrs => by
      have := hf.skill
      rw [hrs] at this
      simp only [routesOk, routeOk, Bool.and_eq_true, Bool.or_eq_true, List.isEmpty_iff,
        List.all_eq_true, decide_eq_true_eq] at this
      refine ⟨?_, by simpa [env, reset] using this.2⟩
      rcases this.1 with h | h
      · subst h; simp
      · simpa [env, reset] using h.2)
    (by simpa [env, reset] using hc.prune)
  refine ⟨s, hrun, ?_⟩
  have : cnt (i.n + 1) s.vis = i.n + 1 := by
    apply cnt_eq_n.mpr
    intro j hj
    rw [hvis j]
    simp only [env, reset, Bool.false_or, decide_eq_true_eq]
    by_cases h0 : j = 0
    · subst h0; exact hc.depot
    · have := hf.once j (by omega) (by omega)
      exact List.count_pos_iff.mp (by omega)
  simp [env, done, Params.svrpDoneCmp, Cmp.evalNat, this]

/-- the executable canonicity test of the Spec (used by the harness to tell the known pruning from any
other blocked solution) decides `Canonical` -/
theorem canonFromB_iff (i : Inst) (as : List Nat) : ∀ k b, canonFromB i k b as = true ↔ canonFrom i k b as := by
  induction as with
  | nil => intro k b; simp [canonFromB, canonFrom]
  | cons a as ih =>
    intro k b
    simp only [canonFromB, canonFrom, Bool.and_eq_true, Bool.or_eq_true, Bool.not_eq_true',
      Bool.and_eq_false_iff, beq_eq_false_iff_ne, List.all_eq_true, beq_iff_eq, decide_eq_false_iff_not, ih]
    have hdec : decide (a = 0) = (a == 0) := by by_cases h : a = 0 <;> simp [h]
    rw [hdec]
    constructor
    · rintro ⟨h1, h2⟩
      refine ⟨fun ha hb j hj hj0 => ?_, h2⟩
      rcases h1 with (h | h) | h
      · exact absurd ha h
      · rw [hb] at h; exact absurd h (by simp)
      · rcases h j hj with h' | h'
        · exact absurd h' hj0
        · exact h'
    · rintro ⟨h1, h2⟩
      refine ⟨?_, h2⟩
      by_cases ha : a = 0
      · by_cases hb : b = true
        · right
          intro j hj
          by_cases hj0 : j = 0
          · left; exact hj0
          · right; exact h1 ha hb j hj hj0
        · left; right; simpa using hb
      · left; left; exact ha

theorem canonical_iff (i : Inst) (as : List Nat) : canonical i as = true ↔ Canonical i as := by
  simp only [canonical, Bool.and_eq_true, canonFromB_iff, List.contains_iff_mem]
  exact ⟨fun ⟨h1, h2⟩ => ⟨h1, h2⟩, fun h => ⟨h.prune, h.depot⟩⟩

/-- the statement without the canonicity clause -/
def run_of_feasible_statement : Prop :=
  ∀ (i : Inst) (as : List Nat), WF i → Feasible i as → 0 ∈ as →
    ∃ s, Run env i (env.reset i) as s ∧ env.done i s = true

/-- depot at 0, customers at 4 and 6 on a line (ticks), technician 0 (level 1, cost 1) can serve customer 1
only, technician 1 (level 2, cost 2) both. -/
def skipInst : Inst :=
  { n := 2, T := 2, techs := fun k => if k = 0 then 1 else 2, skills := fun j => if j = 1 then 1 else 2,
    costs := fun k => (k : Int) + 1,
    D := fun a b => if a = b then 0 else if (a = 0 ∧ b = 1) ∨ (a = 1 ∧ b = 0) then 4
      else if (a = 0 ∧ b = 2) ∨ (a = 2 ∧ b = 0) then 6 else 2 }

theorem skipInst_wf : WF skipInst := by
  refine ⟨by decide, ?_⟩
  intro j h1 h2
  have h2' : j ≤ 2 := h2
  have : j = 1 ∨ j = 2 := by omega
  rcases this with h | h <;> subst h <;> decide

/-- `[0,1,2]` (technician 0 stays at home) is feasible but its first move is not offered. -/
theorem run_of_feasible_counterexample : ¬ run_of_feasible_statement := by
  intro h
  obtain ⟨s, hrun, _⟩ := h skipInst [0, 1, 2] skipInst_wf ((feasible_iff _ _).1 (by decide)) (by decide)
  have := ((run_iff_admitted _ _ _ _ _).1 hrun).1
  revert this
  decide

/-- … and it is strictly better (cost 24) than the only mask-confined complete episodes `[1,0,2]` and
`[1,0,2]`-with-padding (cost 8·1 + 12·2 = 32): every admitted run starts with customer 1 followed by the
depot. -/
theorem skipped_technician_better :
    objective skipInst [0, 1, 2] = 24 ∧ objective skipInst [1, 0, 2] = 32 ∧
    (∀ a, a < env.nAct skipInst → env.mask skipInst (env.reset skipInst) a = true → a = 1) ∧
    (∀ a, a < env.nAct skipInst →
      env.mask skipInst (env.step skipInst (env.reset skipInst) 1) a = true → a = 0) := by
  refine ⟨by decide, by decide, ?_, ?_⟩
  · intro a ha
    have ha' : a < 3 := ha
    have : a = 0 ∨ a = 1 ∨ a = 2 := by omega
    rcases this with h | h | h <;> subst h <;> decide
  · intro a ha
    have ha' : a < 3 := ha
    have : a = 0 ∨ a = 1 ∨ a = 2 := by omega
    rcases this with h | h | h <;> subst h <;> decide

/-- Non-vacuity: the instance of C01 (skill exactly = technician level; the last technician). -/
example : Feasible exInst [1, 0, 2] ∧ Canonical exInst [1, 0, 2] := by
  refine ⟨(feasible_iff _ _).1 (by decide), ⟨?_, by decide⟩⟩
  simp [canonFrom]

end Rl4co.Svrp
