/-
C05 for FJSP / JSSP, part 3 (`mask_no_ops = false`): the optimum over ALL valid schedules is reachable,
without the event-alignment hypothesis of `schedule_reachable` — `dominating_run` builds, with the
environment itself, the left-shift of an arbitrary valid schedule; `best_reachable_eq_optimum` /
`optimum_reachable` state "best makespan through the mask = minimum makespan over all valid schedules".
-/
import Rl4co.Props.C05.FjspClass

namespace Rl4co.Fjsp
open Rl4co.Spec.Fjsp (isReal opOf Sched ValidSchedule)

/-! ### C05, `mask_no_ops = false`: the optimum over ALL valid schedules is reachable

Given any valid schedule `σ` (not necessarily semi-active), the environment is driven by the policy
"dispatch an operation on `σ`'s machine as soon as its job predecessor has completed, the machine is
idle and all operations that `σ` puts earlier on that machine are scheduled; otherwise wait".  The
resulting schedule uses `σ`'s machines and machine orders and starts and completes every operation
no later than `σ` does — the left-shift of `σ`, built by the environment itself. -/

/-- the state dominates `σ` so far -/
structure Dom (i : Inst) (σ : Sched) (s : State) : Prop where
  sch : ∀ o, o < i.N → isReal i o = true → s.sched o = true →
    (∀ m, m < i.M → s.assign m o = σ.assign m o) ∧ s.start o ≤ σ.start o ∧ s.finish o ≤ σ.finish o
  uns : ∀ o, o < i.N → isReal i o = true → s.sched o = false → s.time ≤ σ.start o
  pre : ∀ m, m < i.M → ∀ o1, o1 < i.N → isReal i o1 = true → ∀ o2, o2 < i.N → isReal i o2 = true →
    σ.assign m o1 = true → σ.assign m o2 = true → s.sched o2 = true → σ.start o1 < σ.start o2 → s.sched o1 = true

/-- operation `o = next_op j` may be dispatched on `σ`'s machine `m` now without breaking `σ`'s machine order -/
structure Disp (i : Inst) (σ : Sched) (s : State) (j m : Nat) : Prop where
  sel : Sel i s j m
  onM : σ.assign m (s.nextOp j) = true
  ord : ∀ o1, o1 < i.N → isReal i o1 = true → σ.assign m o1 = true → σ.start o1 < σ.start (s.nextOp j) →
    s.sched o1 = true

theorem dom_makeStepAt {i : Inst} (hwf : WF i) {σ : Sched} {mk : Int} (hv : ValidSchedule i σ mk)
    {s : State} (hinv : Inv i s) (hdom : Dom i σ s) {j m : Nat} (hd : Disp i σ s j m) :
    Dom i σ (makeStepAt s j (s.nextOp j) m) := by
  have hsel := hd.sel
  obtain ⟨hns, hpe, hpos, hoN⟩ := sel_facts hwf hinv hsel
  have hr := hinv.nextRng j hsel.hj
  have hreal := real_of_job hsel.hj hr.1 hr.2
  obtain ⟨m0, hm0, ha0, hu0, hp0, hf0, _⟩ := sigma_machine hv hoN hreal
  have hmm : m = m0 := hu0 m hsel.hm hd.onM
  subst hmm
  have hst := hdom.uns _ hoN hreal hns
  refine ⟨?_, ?_, ?_⟩
  · intro o ho hro hso
    simp only [makeStepAt, upd_apply] at hso ⊢
    by_cases heq : o = s.nextOp j
    · subst heq
      simp only [if_true, and_true]
      refine ⟨fun m' hm' => ?_, hst, by rw [hpe, hf0]; omega⟩
      by_cases hmm : m' = m
      · subst hmm; simp [ha0]
      · simp only [hmm, if_false, hinv.unasg _ hns m']
        cases hσ : σ.assign m' (s.nextOp j) with
        | false => rfl
        | true => exact absurd (hu0 m' hm' hσ) hmm
    · simp only [heq, if_false, and_false] at hso ⊢
      exact hdom.sch o ho hro hso
  · intro o ho hro hso
    simp only [makeStepAt, upd_apply] at hso ⊢
    by_cases heq : o = s.nextOp j
    · simp [heq] at hso
    · simp only [heq, if_false] at hso
      exact hdom.uns o ho hro hso
  · intro m' hm' o1 ho1 hr1 o2 ho2 hr2 ha1 ha2 hs2 hlt
    simp only [makeStepAt, upd_apply] at hs2 ⊢
    have hs1 : s.sched o1 = true := by
      by_cases heq : o2 = s.nextOp j
      · subst heq
        have : m' = m := hu0 m' hm' ha2
        subst this
        exact hd.ord o1 ho1 hr1 ha1 hlt
      · simp only [heq, if_false] at hs2
        exact hdom.pre m' hm' o1 ho1 hr1 o2 ho2 hr2 ha1 ha2 hs2 hlt
    by_cases h1 : o1 = s.nextOp j <;> simp [h1, hs1]

/-- If nothing can be dispatched and no scheduled operation completes strictly between now and `bound`,
no unscheduled operation starts (in `σ`) before `bound`. -/
theorem no_start_before {i : Inst} (hwf : WF i) {σ : Sched} {mk : Int} (hv : ValidSchedule i σ mk)
    {s : State} (hinv : Inv i s) (hdom : Dom i σ s) (hno : ∀ j m, ¬ Disp i σ s j m) (bound : Int)
    (hquiet : ∀ o', s.sched o' = true → s.finish o' ≤ s.time ∨ bound ≤ s.finish o') :
    ∀ (n : Nat) (o : Nat), o < i.N → isReal i o = true → s.sched o = false → σ.start o < n → bound ≤ σ.start o := by
  intro n
  induction n with
  | zero =>
    intro o ho hr _ hlt
    obtain ⟨_, _, _, _, _, _, h0⟩ := sigma_machine hv ho hr
    omega
  | succ n ih =>
    intro o ho hr hs hlt
    by_cases hsmall : σ.start o < n
    · exact ih o ho hr hs hsmall
    · apply Classical.byContradiction
      intro hb
      -- every operation that `σ` starts earlier is scheduled
      have hearlier : ∀ o1, o1 < i.N → isReal i o1 = true → σ.start o1 < σ.start o → s.sched o1 = true := by
        intro o1 ho1 hr1 hlt1
        cases hs1 : s.sched o1 with
        | true => rfl
        | false => have := ih o1 ho1 hr1 hs1 (by omega); omega
      obtain ⟨j, hj, h1, h2⟩ := job_of_real hr
      obtain ⟨m, hm, hσm, hum, hpm, hfm, hs0⟩ := sigma_machine hv ho hr
      have hrng := hinv.nextRng j hj
      have hiff := hinv.schedIff j hj o h1 h2
      have hnot : ¬ (o < s.nextOp j ∨ (o = s.nextOp j ∧ (s.inProc j = true ∨ s.jobDone j = true))) := by
        intro h; rw [hiff.mpr h] at hs; simp at hs
      have hnext : s.nextOp j = o := by
        by_cases hfirst : o = i.startOp j
        · apply Classical.byContradiction; intro hne
          exact hnot (Or.inl (by omega))
        · have hN := (hwf.rng j hj).2
          have hrp := real_of_job hj (show i.startOp j ≤ o - 1 by omega) (show o - 1 ≤ i.endOp j by omega)
          obtain ⟨mp, _, _, _, hpp, hfp, _⟩ := sigma_machine hv (show o - 1 < i.N by omega) hrp
          have hord := hv.order j hj (o - 1) (by omega) (by omega) (by omega)
          have hoo : o - 1 + 1 = o := by omega
          rw [hoo] at hord
          have hsp := hearlier (o - 1) (by omega) hrp (by omega)
          have hfin : s.finish (o - 1) ≤ s.time := by
            have hd1 := (hdom.sch (o - 1) (by omega) hrp hsp).2.2
            rcases hquiet (o - 1) hsp with h | h
            · exact h
            · omega
          rcases (hinv.schedIff j hj (o - 1) (by omega) (by omega)).mp hsp with h | ⟨h, hh⟩
          · apply Classical.byContradiction; intro hne
            exact hnot (Or.inl (by omega))
          · exfalso
            rcases hh with hip | hjd
            · have := hinv.inflight j hip; rw [← h] at this; omega
            · have := (hinv.jdone j hj hjd).1; omega
      have hnip : s.inProc j = false := by
        cases hip : s.inProc j with
        | false => rfl
        | true => exact absurd (Or.inr ⟨hnext.symm, Or.inl hip⟩) hnot
      have hnjd : s.jobDone j = false := by
        cases hjd : s.jobDone j with
        | false => rfl
        | true => exact absurd (Or.inr ⟨hnext.symm, Or.inr hjd⟩) hnot
      have hbusy : s.busy m ≤ s.time := by
        apply Classical.byContradiction; intro hc
        rcases hinv.busyAtt m with hz | ⟨o2, hs2, ha2, hf2⟩
        · have := hinv.time0; omega
        · obtain ⟨j2, hj2, h12, h22⟩ := hinv.schedReal o2 hs2
          have hr2 := real_of_job hj2 h12 h22
          have ho2 : o2 < i.N := by have := (hwf.rng j2 hj2).2; omega
          obtain ⟨has2, _, hfi2⟩ := hdom.sch o2 ho2 hr2 hs2
          have hσ2 : σ.assign m o2 = true := by rw [← has2 m hm]; exact ha2
          have hne : o2 ≠ o := by intro h; subst h; rw [hs] at hs2; simp at hs2
          rcases hv.machine m hm o2 ho2 o ho hr2 hr hne hσ2 hσm with h | h
          · rcases hquiet o2 hs2 with hq | hq <;> omega
          · have := hdom.pre m hm o ho hr o2 ho2 hr2 hσm hσ2 hs2 (by omega)
            rw [hs] at this; simp at this
      have hsel : Sel i s j m := ⟨hj, hm, hnjd, hnip, hbusy, by
        rw [hinv.procEq, hnext]; simp [hs]; omega⟩
      exact hno j m ⟨hsel, by rw [hnext]; exact hσm, fun o1 ho1 hr1 _ hlt1 => hearlier o1 ho1 hr1 (by rw [hnext] at hlt1; exact hlt1)⟩

theorem dominated_from {i : Inst} (hwf : WF i) (hmno : i.maskNoOps = false) {σ : Sched} {mk : Int}
    (hv : ValidSchedule i σ mk) :
    ∀ (n : Nat) (s : State), mu i s ≤ n → Inv2 i s → Dom i σ s →
      ∃ as s', Run env i s as s' ∧ s'.done = true ∧ Inv i s' ∧ Dom i σ s' := by
  intro n
  induction n with
  | zero =>
    intro s hmu h2 hdom
    cases hd : s.done with
    | true => exact ⟨[], s, Run.nil s, hd, h2.1, hdom⟩
    | false =>
      exfalso
      obtain ⟨hinv, hsc⟩ := h2
      have hany : anyMask i s = true := by
        simp only [stepComplete, hd, Bool.not_false, Bool.and_true, Bool.not_eq_false'] at hsc; exact hsc
      obtain ⟨a, ha, hm⟩ := anyUpTo_iff.mp hany
      have := mu_decreases hwf ⟨hinv, by simp [stepComplete, hany]⟩ hd ha hm
      omega
  | succ n ih =>
    intro s hmu h2 hdom
    cases hd : s.done with
    | true => exact ⟨[], s, Run.nil s, hd, h2.1, hdom⟩
    | false =>
      have hinv := h2.1
      have cont : ∀ a, a < nAct i → mask i s a = true → Dom i σ (step i s a) →
          ∃ as s', Run env i s as s' ∧ s'.done = true ∧ Inv i s' ∧ Dom i σ s' := by
        intro a ha hm hdom'
        have hdec := mu_decreases hwf h2 hd ha hm
        obtain ⟨as, s', hrun, hd', hinv', hdom''⟩ := ih (step i s a) (by omega) (inv2_step hwf h2 ha hm) hdom'
        exact ⟨a :: as, s', Run.cons ha hm hrun, hd', hinv', hdom''⟩
      by_cases hdisp : ∃ j m, Disp i σ s j m
      · -- (A) dispatch
        obtain ⟨j, m, hdp⟩ := hdisp
        have hsel := hdp.sel
        have hav : avail i s j m = true := by
          simp only [avail_eq, hsel.notDone, hsel.notProc, Bool.not_false, Bool.true_and, Bool.and_eq_true,
            Bool.not_eq_true', decide_eq_false_iff_not, beq_eq_false_iff_ne]
          exact ⟨by have := hsel.idle; omega, hsel.elig⟩
        have hmask := mask_actOf hsel.hm hav
        have hact := actOf_lt (i := i) hsel.hj hsel.hm
        have ha0 : actOf i j m ≠ 0 := by unfold actOf; split <;> omega
        apply cont _ hact hmask
        rw [step_wait_allowed hwf hmno h2 hd hact hmask]
        simp only [ha0, if_false]
        obtain ⟨ht1, ht2, ht3⟩ := translate_actOf hwf hinv hsel
        have hms : makeStep i s (actOf i j m - 1) = makeStepAt s j (s.nextOp j) m := by
          unfold makeStep; simp only [ht1, ht2, ht3]
        rw [hms]
        exact dom_makeStepAt hwf hv hinv hdom hdp
      · -- (B) nothing to dispatch: wait
        have hno : ∀ j m, ¬ Disp i σ s j m := fun j m h => hdisp ⟨j, m, h⟩
        -- some job is in process (otherwise the earliest unscheduled operation of `σ` could be dispatched)
        have hip : ∃ j, j < i.J ∧ s.inProc j = true := by
          apply Classical.byContradiction; intro hcon
          have hnone : ∀ j, j < i.J → s.inProc j = false := by
            intro j hj
            cases h : s.inProc j with
            | false => rfl
            | true => exact absurd ⟨j, hj, h⟩ hcon
          have : ∃ j, j < i.J ∧ s.jobDone j = false := by
            have hdd := hinv.doneIff; rw [hd] at hdd
            apply Classical.byContradiction; intro hc
            have : allUpTo i.J s.jobDone = true := allUpTo_iff.mpr (fun j hj => by
              cases hjd : s.jobDone j with
              | true => rfl
              | false => exact absurd ⟨j, hj, hjd⟩ hc)
            rw [this] at hdd; simp at hdd
          obtain ⟨j, hj, hjd⟩ := this
          have hr := hinv.nextRng j hj
          have hns : s.sched (s.nextOp j) = false := by
            cases hs : s.sched (s.nextOp j) with
            | false => rfl
            | true =>
              have := (hinv.schedIff j hj _ hr.1 hr.2).mp hs
              simp [hnone j hj, hjd] at this
          have hoN : s.nextOp j < i.N := by have := (hwf.rng j hj).2; omega
          have hreal := real_of_job hj hr.1 hr.2
          obtain ⟨_, _, _, _, _, _, h0⟩ := sigma_machine hv hoN hreal
          have hq : ∀ o', s.sched o' = true → s.finish o' ≤ s.time ∨ σ.start (s.nextOp j) + 1 ≤ s.finish o' := by
            intro o' hs'
            obtain ⟨j', hj', h1', h2'⟩ := hinv.schedReal o' hs'
            exact Or.inl (hinv.finished j' hj' o' h1' h2' hs' (Or.inr (hnone j' hj')))
          have := no_start_before hwf hv hinv hdom hno (σ.start (s.nextOp j) + 1) hq
            ((σ.start (s.nextOp j)).toNat + 1) _ hoN hreal hns (by omega)
          omega
        obtain ⟨jp, hjp, hipp⟩ := hip
        have hmask0 : mask i s 0 = true := by
          simp only [mask, if_true, noOpMask_eq, hmno, Bool.false_eq_true, if_false, hd, Bool.not_false,
            Bool.and_true, Bool.or_false]
          exact anyUpTo_iff.mpr ⟨jp, hjp, hipp⟩
        have hact0 : 0 < nAct i := by unfold nAct; split <;> omega
        obtain ⟨_, mb, hmb, hbb⟩ := wait_busy hinv hd hmask0
        obtain ⟨t', ht'⟩ := nextTime_isSome hmb hbb
        obtain ⟨hlt', _, hmin⟩ := nextTime_some ht'
        apply cont 0 hact0 hmask0
        rw [step_wait_allowed hwf hmno h2 hd hact0 hmask0]
        simp only [if_true]
        obtain ⟨e1, e2, e3, e4, e5⟩ := transit_fields (i := i) ht'
        have hq : ∀ o', s.sched o' = true → s.finish o' ≤ s.time ∨ t' ≤ s.finish o' := by
          intro o' hs'
          by_cases hfin : s.finish o' ≤ s.time
          · exact Or.inl hfin
          · right
            obtain ⟨mm, hmm, ha, _, _, _, _, _⟩ := hinv.asg o' hs'
            have hb := busy_eq_finish_of_running hinv hs' ha (by omega)
            have := hmin mm hmm (by omega)
            omega
        refine ⟨?_, ?_, ?_⟩
        · intro o ho hr hs
          rw [e2] at hs; rw [e3, e4, e5]
          exact hdom.sch o ho hr hs
        · intro o ho hr hs
          rw [e2] at hs; rw [e1]
          obtain ⟨_, _, _, _, _, _, h0⟩ := sigma_machine hv ho hr
          exact no_start_before hwf hv hinv hdom hno t' hq ((σ.start o).toNat + 1) o ho hr hs (by omega)
        · intro m hm o1 ho1 hr1 o2 ho2 hr2 ha1 ha2 hs2 hlt
          rw [e2] at hs2 ⊢
          exact hdom.pre m hm o1 ho1 hr1 o2 ho2 hr2 ha1 ha2 hs2 hlt

/-- **C05 (FJSP/JSSP, `mask_no_ops = false`), unconditional**: for EVERY valid schedule `σ` some
mask-confined finished episode is at least as good — it runs every operation on `σ`'s machine and
starts and completes it no later than `σ`. -/
theorem dominating_run (i : Inst) (hwf : WF i) (hmno : i.maskNoOps = false) (σ : Sched) (mk : Int)
    (hv : ValidSchedule i σ mk) :
    ∃ as s, Run env i (env.reset i) as s ∧ s.done = true ∧
      (∀ o, o < i.N → isReal i o = true →
        (∀ m, m < i.M → s.assign m o = σ.assign m o) ∧ s.start o ≤ σ.start o ∧ s.finish o ≤ σ.finish o) ∧
      - reward i s ≤ mk := by
  have hdom0 : Dom i σ (reset i) := by
    refine ⟨fun o _ _ h => by simp [reset] at h, fun o ho hr _ => ?_, fun m _ o1 _ _ o2 _ _ _ _ h => by simp [reset] at h⟩
    obtain ⟨_, _, _, _, _, _, h0⟩ := sigma_machine hv ho hr
    simpa [reset] using h0
  obtain ⟨as, s, hrun, hd, hinv, hdom⟩ :=
    dominated_from hwf hmno hv (mu i (reset i)) (reset i) (Nat.le_refl _) (inv2_reset hwf) hdom0
  have hall := all_sched_of_done hinv hd
  have hsame : ∀ o, o < i.N → isReal i o = true →
      (∀ m, m < i.M → s.assign m o = σ.assign m o) ∧ s.start o ≤ σ.start o ∧ s.finish o ≤ σ.finish o := by
    intro o ho hr
    obtain ⟨j, hj, h1, h2⟩ := job_of_real hr
    exact hdom.sch o ho hr (hall j hj o h1 h2)
  refine ⟨as, s, hrun, hd, hsame, ?_⟩
  obtain ⟨_, o1, ho1, hr1, he1⟩ := neg_reward_is_latest_completion i hwf s
  have := (hsame o1 ho1 hr1).2.2
  have := hv.mkUpper o1 ho1 hr1
  omega

/-- `opt_reachable_statement` restricted to `mask_no_ops = false` holds without any further hypothesis -/
theorem opt_reachable_wait_allowed (i : Inst) (hwf : WF i) (hmno : i.maskNoOps = false) (σ : Sched) (mk : Int)
    (hv : ValidSchedule i σ mk) :
    ∃ as s, Run env i (env.reset i) as s ∧ s.done = true ∧ - reward i s ≤ mk := by
  obtain ⟨as, s, h1, h2, _, h4⟩ := dominating_run i hwf hmno σ mk hv
  exact ⟨as, s, h1, h2, h4⟩

/-- makespans of finished mask-confined episodes / of valid schedules -/
def ReachMk (i : Inst) (r : Int) : Prop := ∃ as s, Run env i (env.reset i) as s ∧ s.done = true ∧ - reward i s = r
def ValidMk (i : Inst) (r : Int) : Prop := ∃ σ, ValidSchedule i σ r

/-- **"the best reward reachable through the mask equals the brute-force optimum"** (`mask_no_ops = false`),
as an equation of minima: the reachable makespans are makespans of valid schedules, every valid
makespan is matched or beaten by a reachable one, hence a value is the least reachable makespan iff it
is the least makespan of any valid schedule. -/
theorem best_reachable_eq_optimum (i : Inst) (hwf : WF i) (hmno : i.maskNoOps = false) (r : Int) :
    (ReachMk i r ∧ ∀ r', ReachMk i r' → r ≤ r') ↔ (ValidMk i r ∧ ∀ r', ValidMk i r' → r ≤ r') := by
  have h1 : ∀ x, ReachMk i x → ValidMk i x := by
    rintro x ⟨as, s, hrun, hd, he⟩
    exact ⟨schedOf s, by rw [← he]; exact schedule_valid i hwf as s hrun hd⟩
  have h2 : ∀ x, ValidMk i x → ∃ y, y ≤ x ∧ ReachMk i y := by
    rintro x ⟨σ, hv⟩
    obtain ⟨as, s, hrun, hd, hle⟩ := opt_reachable_wait_allowed i hwf hmno σ x hv
    exact ⟨- reward i s, hle, as, s, hrun, hd, rfl⟩
  constructor
  · rintro ⟨hr, hmin⟩
    refine ⟨h1 r hr, fun r' hv' => ?_⟩
    obtain ⟨y, hy, hry⟩ := h2 r' hv'
    have := hmin y hry; omega
  · rintro ⟨hv, hmin⟩
    obtain ⟨y, hy, hry⟩ := h2 r hv
    have hyr : r ≤ y := hmin y (h1 y hry)
    have : y = r := by omega
    subst this
    exact ⟨hry, fun r' hr' => hmin r' (h1 r' hr')⟩

/-! ### the optimum exists, so the equation above is about an actual value -/

theorem finish_from {i : Inst} (hwf : WF i) :
    ∀ (n : Nat) (s : State), mu i s ≤ n → Inv2 i s → ∃ as s', Run env i s as s' ∧ s'.done = true := by
  intro n
  induction n with
  | zero =>
    intro s hmu h2
    cases hd : s.done with
    | true => exact ⟨[], s, Run.nil s, hd⟩
    | false =>
      exfalso
      have hany : anyMask i s = true := by
        have := h2.2
        simp only [stepComplete, hd, Bool.not_false, Bool.and_true, Bool.not_eq_false'] at this; exact this
      obtain ⟨a, ha, hm⟩ := anyUpTo_iff.mp hany
      have := mu_decreases hwf h2 hd ha hm
      omega
  | succ n ih =>
    intro s hmu h2
    cases hd : s.done with
    | true => exact ⟨[], s, Run.nil s, hd⟩
    | false =>
      have hany : anyMask i s = true := by
        have := h2.2
        simp only [stepComplete, hd, Bool.not_false, Bool.and_true, Bool.not_eq_false'] at this; exact this
      obtain ⟨a, ha, hm⟩ := anyUpTo_iff.mp hany
      have hdec := mu_decreases hwf h2 hd ha hm
      obtain ⟨as, s', hrun, hd'⟩ := ih (step i s a) (by omega) (inv2_step hwf h2 ha hm)
      exact ⟨a :: as, s', Run.cons ha hm hrun, hd'⟩

/-- every well-formed instance has a finished mask-confined episode (any policy that follows the mask
gets there: `mask_nonempty` + the step bound) -/
theorem exists_finished_run (i : Inst) (hwf : WF i) : ∃ r, ReachMk i r := by
  obtain ⟨as, s, hrun, hd⟩ := finish_from hwf (mu i (reset i)) (reset i) (Nat.le_refl _) (inv2_reset hwf)
  exact ⟨_, as, s, hrun, hd, rfl⟩

theorem reachMk_nonneg (i : Inst) (hwf : WF i) {r : Int} (h : ReachMk i r) : 0 ≤ r := by
  obtain ⟨as, s, hrun, hd, he⟩ := h
  have hinv := (inv2_of_reach hwf ⟨as, hrun⟩).1
  obtain ⟨_, o1, ho1, hr1, he1⟩ := neg_reward_is_latest_completion i hwf s
  obtain ⟨j, hj, h1, h2⟩ := job_of_real hr1
  obtain ⟨m, _, _, _, hp, hf, hs0, _⟩ := hinv.asg o1 (all_sched_of_done hinv hd j hj o1 h1 h2)
  omega

/-- a least reachable makespan exists -/
theorem best_reachable_exists (i : Inst) (hwf : WF i) : ∃ r, ReachMk i r ∧ ∀ r', ReachMk i r' → r ≤ r' := by
  have key : ∀ n : Nat, (∃ r, ReachMk i r ∧ r.toNat ≤ n) → ∃ r, ReachMk i r ∧ ∀ r', ReachMk i r' → r ≤ r' := by
    intro n
    induction n with
    | zero =>
      rintro ⟨r, hr, hle⟩
      refine ⟨r, hr, fun r' hr' => ?_⟩
      have := reachMk_nonneg i hwf hr
      have := reachMk_nonneg i hwf hr'
      omega
    | succ n ih =>
      rintro ⟨r, hr, hle⟩
      by_cases hsm : ∃ r0, ReachMk i r0 ∧ r0.toNat ≤ n
      · exact ih hsm
      · refine ⟨r, hr, fun r' hr' => ?_⟩
        have h0 := reachMk_nonneg i hwf hr
        have h0' := reachMk_nonneg i hwf hr'
        apply Classical.byContradiction; intro hc
        exact hsm ⟨r', hr', by omega⟩
  obtain ⟨r, hr⟩ := exists_finished_run i hwf
  exact key r.toNat ⟨r, hr, Nat.le_refl _⟩

/-- **C05 as the property text states it (`mask_no_ops = false`)**: there is a best makespan reachable
through the mask, and it is the minimum makespan over all valid schedules of the instance. -/
theorem optimum_reachable (i : Inst) (hwf : WF i) (hmno : i.maskNoOps = false) :
    ∃ r, (ReachMk i r ∧ ∀ r', ReachMk i r' → r ≤ r') ∧ (ValidMk i r ∧ ∀ r', ValidMk i r' → r ≤ r') := by
  obtain ⟨r, hr⟩ := best_reachable_exists i hwf
  exact ⟨r, hr, (best_reachable_eq_optimum i hwf hmno r).mp hr⟩

/-- non-vacuity on the delay instance with waiting allowed: its optimum 12 is the best reachable makespan -/
example : ∃ r, (ReachMk { exDelay with maskNoOps := false } r ∧ ∀ r', ReachMk { exDelay with maskNoOps := false } r' → r ≤ r') ∧
    ValidMk { exDelay with maskNoOps := false } r :=
  let ⟨r, h1, h2, _⟩ := optimum_reachable { exDelay with maskNoOps := false } (wf_setMaskNoOps exDelay_wf false) rfl
  ⟨r, h1, h2⟩

end Rl4co.Fjsp

namespace Rl4co.Jssp
open Rl4co.Fjsp

theorem optimum_reachable (i : Inst) (_ : i.jssp = true) (hwf : WF i) (hmno : i.maskNoOps = false) :
    ∃ r, (ReachMk i r ∧ ∀ r', ReachMk i r' → r ≤ r') ∧ (ValidMk i r ∧ ∀ r', ValidMk i r' → r ≤ r') :=
  Fjsp.optimum_reachable i hwf hmno

theorem reachable_iff_wait_allowed (i : Inst) (_ : i.jssp = true) (hwf : WF i) (hmno : i.maskNoOps = false)
    (σ : Spec.Fjsp.Sched) :
    Reachable i σ ↔ ((∃ mk, Spec.Fjsp.ValidSchedule i σ mk) ∧ EventAligned i σ) :=
  Fjsp.reachable_iff_wait_allowed i hwf hmno σ

theorem reachable_iff_no_wait (i : Inst) (_ : i.jssp = true) (hwf : WF i) (hmno : i.maskNoOps = true)
    (σ : Spec.Fjsp.Sched) :
    Reachable i σ ↔ ((∃ mk, Spec.Fjsp.ValidSchedule i σ mk) ∧ EventAligned i σ ∧ NonDelay i σ) :=
  Fjsp.reachable_iff_no_wait i hwf hmno σ

end Rl4co.Jssp
