/-
C05 for mTSP: the mask hides no feasible solution.  Every Spec-feasible solution in canonical form
(no pointless depot visits: it starts with a customer, never visits the depot twice in a row and ends
with a customer) is a mask-confined run of the environment that ends finished — for every instance
and every such solution, in particular for the ones that use all `m` agents (`#tours = m`, the
boundary of the agent constraint).  Every feasible solution has a canonical form with the same tours
(`canonize_spec`), so the best reward reachable through the mask is the optimum, for both cost types
(`opt_reachable`, stated as ∃ / ∀).
-/
import Rl4co.Proofs.Mtsp
import Rl4co.Props.C01.Mtsp
import Rl4co.Props.C03.Mtsp

namespace Rl4co.Mtsp
open Rl4co.Spec.Mtsp

/-- canonical form relative to the previously visited node `p`: no depot visit directly after the
depot, the list ends on a customer -/
def canon : Nat → List Nat → Bool
  | p, [] => decide (p ≠ 0)
  | p, a :: as => (decide (a ≠ 0) || decide (p ≠ 0)) && canon a as

def Canonical (as : List Nat) : Prop := canon 0 as = true

/-- what the generalised induction needs to know about a state and the rest of the solution -/
structure Ready (i : Inst) (s : State) (as : List Nat) : Prop where
  range  : ∀ a ∈ as, a ≤ i.n
  nodup  : ∀ j, 1 ≤ j → as.count j ≤ 1
  avail  : ∀ j, 1 ≤ j → j ≤ i.n → (s.avail j = true ↔ j ∈ as)
  canon  : canon s.cur as = true
  depot  : s.done = false → s.avail 0 = (decide (s.cur ≠ 0) && decide (s.agent + 1 < i.m))
  budget : starts s.cur as + s.agent + (if s.cur ≠ 0 then 1 else 0) ≤ i.m
  doneEq : s.done = !(anyCust i.n s.avail)

theorem starts_pos_of_canon_zero {as : List Nat} (h : canon 0 as = true) : 1 ≤ starts 0 as := by
  cases as with
  | nil => simp [canon] at h
  | cons a as =>
    simp only [canon, ne_eq, not_true_eq_false, decide_false, Bool.or_false, Bool.and_eq_true,
      decide_eq_true_eq] at h
    simp [starts, h.1]

theorem run_of_ready (i : Inst) {as : List Nat} : ∀ {s : State}, Ready i s as →
    ∃ s', RunND env i s as s' ∧ s'.done = true := by
  induction as with
  | nil =>
    intro s hr
    refine ⟨s, RunND.nil _, ?_⟩
    rw [hr.doneEq]
    have : anyCust i.n s.avail = false := by
      apply anyCust_eq_false.mpr
      intro j h1 h2
      cases hj : s.avail j with
      | false => rfl
      | true => have := (hr.avail j h1 h2).mp hj; simp at this
    simp [this]
  | cons a rest ih =>
    intro s hr
    have han : a ≤ i.n := hr.range a (by simp)
    have hcan := hr.canon
    simp only [canon, Bool.and_eq_true, Bool.or_eq_true, decide_eq_true_eq] at hcan
    obtain ⟨hcan1, hcan2⟩ := hcan
    -- the state is unfinished: some customer of `a :: rest` is still available
    have hnd : s.done = false := by
      rw [hr.doneEq]
      have : anyCust i.n s.avail = true := by
        apply anyCust_eq_true.mpr
        by_cases h0 : a = 0
        · subst h0
          cases rest with
          | nil => simp [canon] at hcan2
          | cons b bs =>
            simp only [canon, ne_eq, not_true_eq_false, decide_false, Bool.or_false,
              Bool.and_eq_true, decide_eq_true_eq] at hcan2
            have hb : b ≤ i.n := hr.range b (by simp)
            exact ⟨b, by omega, hb, (hr.avail b (by omega) hb).mpr (by simp)⟩
        · exact ⟨a, by omega, han, (hr.avail a (by omega) han).mpr (by simp)⟩
      simp [this]
    -- the action is offered
    have hmask : s.avail a = true := by
      by_cases h0 : a = 0
      · subst h0
        have hc : s.cur ≠ 0 := by simpa using hcan1
        have hb := hr.budget
        have hs : starts s.cur (0 :: rest) = starts 0 rest := by simp [starts]
        have := starts_pos_of_canon_zero hcan2
        rw [hr.depot hnd]
        simp only [hc, ne_eq, not_false_eq_true, decide_true, Bool.true_and, decide_eq_true_eq]
        rw [hs] at hb; simp only [hc, ne_eq, not_false_eq_true, if_true] at hb
        omega
      · exact (hr.avail a (by omega) han).mpr (by simp)
    have hnotin : a ≠ 0 → a ∉ rest := by
      intro h0 hmem
      have := hr.nodup a (by omega)
      rw [List.count_cons_self] at this
      have := List.count_pos_iff.mpr hmem
      omega
    -- the successor state is ready for the rest
    have hready : Ready i (step i s a) rest := by
      refine ⟨fun b hb => hr.range b (by simp [hb]), ?_, ?_, hcan2, ?_, ?_, step_done i s a⟩
      · intro j hj
        have := hr.nodup j hj
        rw [List.count_cons] at this
        omega
      · intro j h1 h2
        rw [step_avail_cust i s a j (by omega)]
        by_cases hja : j = a
        · subst hja
          simp only [if_true, Bool.false_eq_true, false_iff]
          exact hnotin (by omega)
        · simp only [hja, if_false]
          rw [hr.avail j h1 h2]
          simp [hja]
      · intro hd'
        rw [step_avail_depot, hd']
        simp only [Bool.false_or, step_cur, step_agent]
        by_cases h0 : a = 0
        · subst h0; simp
        · simp [h0]
      · have hb := hr.budget
        simp only [step_cur, step_agent]
        by_cases h0 : a = 0
        · subst h0
          have hc : s.cur ≠ 0 := by simpa using hcan1
          have hs : starts s.cur (0 :: rest) = starts 0 rest := by simp [starts]
          rw [hs] at hb
          simp only [hc, ne_eq, not_false_eq_true, if_true] at hb
          simp; omega
        · have hs : starts s.cur (a :: rest) = (if s.cur = 0 then 1 else 0) + starts a rest := by
            simp [starts, h0]
          rw [hs] at hb
          simp only [h0, ne_eq, not_false_eq_true, if_true, if_false, Nat.add_zero]
          by_cases hc : s.cur = 0 <;> simp [hc] at hb <;> omega
    obtain ⟨s', hrun, hdone⟩ := ih hready
    exact ⟨s', RunND.cons hnd (by simp only [env]; omega) hmask hrun, hdone⟩

/-- **C05 (mTSP).** Every canonical feasible solution is admitted by the mask step by step and ends
in a finished state (the run never steps a finished state, so it is also the run a decoding loop makes). -/
theorem run_of_feasible (i : Inst) {as : List Nat} (hf : Feasible i as) (hc : Canonical as) :
    ∃ s, RunND env i (env.reset i) as s ∧ env.done i s = true := by
  have hn : 1 ≤ i.n := by
    cases as with
    | nil => simp [Canonical, canon] at hc
    | cons a as =>
      simp only [Canonical, canon, ne_eq, not_true_eq_false, decide_false, Bool.or_false,
        Bool.and_eq_true, decide_eq_true_eq] at hc
      have := hf.range a (by simp)
      omega
  apply run_of_ready i
  refine ⟨hf.range, ?_, ?_, hc, ?_, ?_, ?_⟩
  · intro j hj
    by_cases hjn : j ≤ i.n
    · rw [hf.once j hj hjn]; omega
    · have : j ∉ as := fun hmem => hjn (hf.range j hmem)
      rw [List.count_eq_zero_of_not_mem this]; omega
  · intro j h1 h2
    have hcount := hf.once j h1 h2
    have : j ∈ as := List.count_pos_iff.mp (by omega)
    simp only [env, reset, ne_eq, decide_eq_true_eq, this, iff_true]
    omega
  · intro _; simp [env, reset]
  · have := hf.agents
    rw [tours_length_eq_starts] at this
    simpa [env, reset] using this
  · have : anyCust i.n (reset i).avail = true :=
      anyCust_eq_true.mpr ⟨1, by omega, hn, by simp [reset]⟩
    show (reset i).done = !(anyCust i.n (reset i).avail)
    rw [this]; rfl

/-- Non-vacuity: a canonical feasible solution that uses all agents (3 customers, 2 agents, 2 tours). -/
example : Feasible ⟨3, 2, fun _ _ => 1⟩ [2, 0, 3, 1] ∧ Canonical [2, 0, 3, 1] :=
  ⟨(feasible_iff _ _).mp (by decide), by unfold Canonical; decide⟩

/-! ### every feasible solution has a canonical form with the same tours -/

/-- the tours joined by single depot visits -/
def join0 : List (List Nat) → List Nat
  | [] => []
  | [t] => t
  | t :: t' :: ts => t ++ 0 :: join0 (t' :: ts)

/-- zero-free -/
def ZF (t : List Nat) : Prop := ∀ x ∈ t, x ≠ 0

theorem routes_zf (t : List Nat) (h : ZF t) : routes t = [t] := by
  induction t with
  | nil => rfl
  | cons x t ih =>
    have hx : x ≠ 0 := h x (by simp)
    simp [routes, hx, ih (fun y hy => h y (by simp [hy]))]

theorem routes_zf_append (t rest : List Nat) (h : ZF t) : routes (t ++ 0 :: rest) = t :: routes rest := by
  induction t with
  | nil => simp [routes]
  | cons x t ih =>
    have hx : x ≠ 0 := h x (by simp)
    simp [routes, hx, ih (fun y hy => h y (by simp [hy]))]

theorem routes_join0 (ts : List (List Nat)) (h : ∀ t ∈ ts, ZF t) (hne : ts ≠ []) : routes (join0 ts) = ts := by
  induction ts with
  | nil => exact absurd rfl hne
  | cons t ts ih =>
    cases ts with
    | nil => simp [join0, routes_zf t (h t (by simp))]
    | cons t' ts =>
      simp only [join0]
      rw [routes_zf_append t _ (h t (by simp)), ih (fun u hu => h u (by simp [hu])) (by simp)]

theorem canon_zf_append (t l : List Nat) (h : ZF t) (hne : t ≠ []) (p : Nat) :
    ∃ q, q ≠ 0 ∧ canon p (t ++ l) = canon q l := by
  induction t generalizing p with
  | nil => exact absurd rfl hne
  | cons x t ih =>
    have hx : x ≠ 0 := h x (by simp)
    cases t with
    | nil => exact ⟨x, hx, by simp [canon, hx]⟩
    | cons y t =>
      obtain ⟨q, hq, e⟩ := ih (fun z hz => h z (by simp [hz])) (by simp) x
      exact ⟨q, hq, by simp only [List.cons_append, canon, hx, ne_eq, not_false_eq_true, decide_true, Bool.true_or, Bool.true_and] at e ⊢; exact e⟩

theorem canon_join0 (ts : List (List Nat)) (h : ∀ t ∈ ts, ZF t ∧ t ≠ []) (hne : ts ≠ []) (p : Nat) :
    canon p (join0 ts) = true := by
  induction ts generalizing p with
  | nil => exact absurd rfl hne
  | cons t ts ih =>
    cases ts with
    | nil =>
      obtain ⟨q, hq, e⟩ := canon_zf_append t [] (h t (by simp)).1 (h t (by simp)).2 p
      simp only [List.append_nil] at e
      simp [join0, e, canon, hq]
    | cons t' ts =>
      obtain ⟨q, hq, e⟩ := canon_zf_append t (0 :: join0 (t' :: ts)) (h t (by simp)).1 (h t (by simp)).2 p
      simp only [join0, e, canon, hq, ne_eq, not_false_eq_true, decide_true, Bool.or_true, Bool.true_and]
      exact ih (fun u hu => h u (by simp [hu])) (by simp) 0

theorem count_join0 (ts : List (List Nat)) (j : Nat) (hj : j ≠ 0) :
    (join0 ts).count j = ((ts.map (List.count j)).sum) := by
  induction ts with
  | nil => rfl
  | cons t ts ih =>
    cases ts with
    | nil => simp [join0]
    | cons t' ts =>
      have h0 : (0 == j) = false := by simp; omega
      simp only [join0, List.count_append, List.count_cons, h0, ih, List.map_cons, List.sum_cons]
      simp

theorem mem_join0 (ts : List (List Nat)) (x : Nat) (hx : x ∈ join0 ts) : x = 0 ∨ ∃ t ∈ ts, x ∈ t := by
  induction ts with
  | nil => simp [join0] at hx
  | cons t ts ih =>
    cases ts with
    | nil => exact Or.inr ⟨t, by simp, by simpa [join0] using hx⟩
    | cons t' ts =>
      simp only [join0, List.mem_append, List.mem_cons] at hx
      rcases hx with hx | hx | hx
      · exact Or.inr ⟨t, by simp, hx⟩
      · exact Or.inl hx
      · rcases ih hx with h | ⟨u, hu, hxu⟩
        · exact Or.inl h
        · exact Or.inr ⟨u, by simp [List.mem_cons] at hu ⊢; exact Or.inr hu, hxu⟩

theorem routes_mem (as : List Nat) : ∀ r ∈ routes as, ZF r ∧ ∀ x ∈ r, x ∈ as := by
  induction as with
  | nil => intro r hr; simp [routes] at hr; subst hr; exact ⟨fun _ h => by simp at h, fun _ h => by simp at h⟩
  | cons a as ih =>
    intro r hr
    by_cases h0 : a = 0
    · subst h0
      simp only [routes, if_true, List.mem_cons] at hr
      rcases hr with hr | hr
      · subst hr; exact ⟨fun _ h => by simp at h, fun _ h => by simp at h⟩
      · obtain ⟨h1, h2⟩ := ih r hr
        exact ⟨h1, fun x hx => by simp [h2 x hx]⟩
    · obtain ⟨r1, rs, h1⟩ := routes_cons_exists as
      simp only [routes, h0, if_false, h1, List.mem_cons] at hr
      rcases hr with hr | hr
      · subst hr
        obtain ⟨z1, z2⟩ := ih r1 (by simp [h1])
        refine ⟨?_, ?_⟩
        · intro x hx; rcases List.mem_cons.mp hx with h | h
          · subst h; exact h0
          · exact z1 x h
        · intro x hx; rcases List.mem_cons.mp hx with h | h
          · simp [h]
          · simp [z2 x h]
      · obtain ⟨z1, z2⟩ := ih r (by simp [h1, hr])
        exact ⟨z1, fun x hx => by simp [z2 x hx]⟩

theorem count_routes (as : List Nat) (j : Nat) (hj : j ≠ 0) :
    as.count j = (((routes as).map (List.count j)).sum) := by
  induction as with
  | nil => simp [routes]
  | cons a as ih =>
    by_cases h0 : a = 0
    · subst h0
      have : (0 == j) = false := by simp; omega
      simp [routes, List.count_cons, this, ih]
    · obtain ⟨r1, rs, h1⟩ := routes_cons_exists as
      rw [h1] at ih
      simp only [routes, h0, if_false, h1, List.map_cons, List.sum_cons, List.count_cons] at ih ⊢
      omega

theorem sum_count_tours (l : List (List Nat)) (j : Nat) :
    (((l.filter (fun r => !r.isEmpty)).map (List.count j)).sum) = ((l.map (List.count j)).sum) := by
  induction l with
  | nil => rfl
  | cons r l ih =>
    cases r with
    | nil => simp [ih]
    | cons x r => simp [ih]

theorem maxList_tours (D : Nat → Nat → Int) (l : List (List Nat)) :
    maxList ((l.filter (fun r => !r.isEmpty)).map (routeLen D)) = maxList (l.map (routeLen D)) := by
  induction l with
  | nil => rfl
  | cons r l ih =>
    cases r with
    | nil =>
      have := maxList_nonneg (l.map (routeLen D))
      simp only [List.filter_cons, List.isEmpty_nil, Bool.not_true, Bool.false_eq_true, if_false, ih,
        List.map_cons, maxList, routeLen, if_true]
      omega
    | cons x r => simp [maxList, ih]

theorem sum_tours (D : Nat → Nat → Int) (l : List (List Nat)) :
    (((l.filter (fun r => !r.isEmpty)).map (routeLen D)).sum) = ((l.map (routeLen D)).sum) := by
  induction l with
  | nil => rfl
  | cons r l ih =>
    cases r with
    | nil => simp [ih, routeLen]
    | cons x r => simp [ih]

/-- the canonical form of a solution: its (non-empty) tours joined by single depot visits -/
def canonize (as : List Nat) : List Nat := join0 (tours as)

/-- A feasible solution and its canonical form have the same tours, hence the same objectives; the
canonical form is feasible and canonical. -/
theorem canonize_spec (i : Inst) (hn : 1 ≤ i.n) {sol : List Nat} (hf : Feasible i sol) :
    Feasible i (canonize sol) ∧ Canonical (canonize sol) ∧
    objMinmax i (canonize sol) = objMinmax i sol ∧ objSum i (canonize sol) = objSum i sol := by
  have hzf : ∀ t ∈ tours sol, ZF t ∧ t ≠ [] := by
    intro t ht
    simp only [tours, List.mem_filter, Bool.not_eq_true', List.isEmpty_eq_false_iff] at ht
    exact ⟨(routes_mem sol t ht.1).1, ht.2⟩
  have hcount : ∀ j, j ≠ 0 → (canonize sol).count j = sol.count j := by
    intro j hj
    rw [canonize, count_join0 _ j hj, tours, sum_count_tours, ← count_routes sol j hj]
  have hne : tours sol ≠ [] := by
    intro h
    have := hcount 1 (by omega)
    rw [canonize, h] at this
    have h1 := hf.once 1 (by omega) hn
    simp [join0] at this; omega
  have hroutes : routes (canonize sol) = tours sol := routes_join0 _ (fun t ht => (hzf t ht).1) hne
  have htours : tours (canonize sol) = tours sol := by
    rw [tours, hroutes]
    apply List.filter_eq_self.mpr
    intro t ht
    simp [(hzf t ht).2]
  refine ⟨⟨?_, ?_, ?_⟩, canon_join0 _ hzf hne 0, ?_, ?_⟩
  · intro x hx
    rcases mem_join0 _ x hx with h | ⟨t, ht, hxt⟩
    · omega
    · simp only [tours, List.mem_filter] at ht
      exact hf.range x ((routes_mem sol t ht.1).2 x hxt)
  · intro j h1 h2
    rw [hcount j (by omega)]; exact hf.once j h1 h2
  · rw [htours]; exact hf.agents
  · simp only [objMinmax, hroutes, tours, maxList_tours]
  · simp only [objSum, routesLen, hroutes, tours, sum_tours]

/-- **C05 (mTSP), the optimum is reachable — both cost types.**  (∃) every feasible solution is matched
by a mask-confined finished episode with exactly its objective as (negated) reward, for `minmax` and for
`sum`; (∀) every mask-confined finished episode is a feasible solution whose objectives are its rewards.
So the best reward reachable through the mask equals the optimum over all feasible solutions. -/
theorem opt_reachable (i : Inst) (hwf : WFD i) (hn : 1 ≤ i.n) (hm : 1 ≤ i.m) :
    (∀ sol, Feasible i sol → ∃ as s, RunND env i (env.reset i) as s ∧ env.done i s = true ∧
        rewardMinmax s = - objMinmax i sol ∧ rewardSum i as = - objSum i sol) ∧
    (∀ as s, Run env i (env.reset i) as s → env.done i s = true →
        Feasible i as ∧ rewardMinmax s = - objMinmax i as ∧ rewardSum i as = - objSum i as) := by
  constructor
  · intro sol hf
    obtain ⟨hfc, hcan, e1, e2⟩ := canonize_spec i hn hf
    obtain ⟨s, hrun, hd⟩ := run_of_feasible i hfc hcan
    refine ⟨canonize sol, s, hrun, hd, ?_, ?_⟩
    · rw [reward_minmax_eq_objective i hwf hm hrun.run hd, e1]
    · rw [reward_sum_eq_objective i hwf.2, e2]
  · intro as s hrun hd
    exact ⟨feasible_of_run i hm hrun hd, reward_minmax_eq_objective i hwf hm hrun hd,
      reward_sum_eq_objective i hwf.2 as⟩

/-- Non-vacuity: a feasible solution with pointless depot visits and its canonical form. -/
example : canonize [0, 2, 0, 0, 3, 1, 0] = [2, 0, 3, 1] := by decide

end Rl4co.Mtsp
