/-
C05 for mTSP: the mask hides no feasible solution.  Every Spec-feasible solution in canonical form
(no pointless depot visits: it starts with a customer, never visits the depot twice in a row and ends
with a customer) is a mask-confined run of the environment that ends finished — for every instance
and every such solution, in particular for the ones that use all `m` agents (`#tours = m`, the
boundary of the agent constraint).  Hence the best reward reachable through the mask is the optimum.
-/
import Rl4co.Proofs.Mtsp
import Rl4co.Props.C01.Mtsp

namespace Rl4co.Mtsp
open Rl4co.Spec.Mtsp

/-- canonical form relative to the previously visited node `p`: no depot visit directly after the
depot, the list ends on a customer -/
def canon : Nat → List Nat → Bool
  | p, [] => decide (p ≠ 0)
  | p, a :: as => (decide (a ≠ 0) || decide (p ≠ 0)) && canon a as

def Canonical (as : List Nat) : Prop := canon 0 as = true

/-- what the generalised induction needs to know about a state and the rest of the solution -/
structure Ready (i : Inst) (s : State) (as : List Nat) : Prop where
  range  : ∀ a ∈ as, a ≤ i.n
  nodup  : ∀ j, 1 ≤ j → as.count j ≤ 1
  avail  : ∀ j, 1 ≤ j → j ≤ i.n → (s.avail j = true ↔ j ∈ as)
  canon  : canon s.cur as = true
  depot  : s.done = false → s.avail 0 = (decide (s.cur ≠ 0) && decide (s.agent + 1 < i.m))
  budget : starts s.cur as + s.agent + (if s.cur ≠ 0 then 1 else 0) ≤ i.m
  doneEq : s.done = !(anyCust i.n s.avail)

theorem starts_pos_of_canon_zero {as : List Nat} (h : canon 0 as = true) : 1 ≤ starts 0 as := by
  cases as with
  | nil => simp [canon] at h
  | cons a as =>
    simp only [canon, ne_eq, not_true_eq_false, decide_false, Bool.or_false, Bool.and_eq_true,
      decide_eq_true_eq] at h
    simp [starts, h.1]

theorem run_of_ready (i : Inst) {as : List Nat} : ∀ {s : State}, Ready i s as →
    ∃ s', RunND env i s as s' ∧ s'.done = true := by
  induction as with
  | nil =>
    intro s hr
    refine ⟨s, RunND.nil _, ?_⟩
    rw [hr.doneEq]
    have : anyCust i.n s.avail = false := by
      apply anyCust_eq_false.mpr
      intro j h1 h2
      cases hj : s.avail j with
      | false => rfl
      | true => have := (hr.avail j h1 h2).mp hj; simp at this
    simp [this]
  | cons a rest ih =>
    intro s hr
    have han : a ≤ i.n := hr.range a (by simp)
    have hcan := hr.canon
    simp only [canon, Bool.and_eq_true, Bool.or_eq_true, decide_eq_true_eq] at hcan
    obtain ⟨hcan1, hcan2⟩ := hcan
    -- the state is unfinished: some customer of `a :: rest` is still available
    have hnd : s.done = false := by
      rw [hr.doneEq]
      have : anyCust i.n s.avail = true := by
        apply anyCust_eq_true.mpr
        by_cases h0 : a = 0
        · subst h0
          cases rest with
          | nil => simp [canon] at hcan2
          | cons b bs =>
            simp only [canon, ne_eq, not_true_eq_false, decide_false, Bool.or_false,
              Bool.and_eq_true, decide_eq_true_eq] at hcan2
            have hb : b ≤ i.n := hr.range b (by simp)
            exact ⟨b, by omega, hb, (hr.avail b (by omega) hb).mpr (by simp)⟩
        · exact ⟨a, by omega, han, (hr.avail a (by omega) han).mpr (by simp)⟩
      simp [this]
    -- the action is offered
    have hmask : s.avail a = true := by
      by_cases h0 : a = 0
      · subst h0
        have hc : s.cur ≠ 0 := by simpa using hcan1
        have hb := hr.budget
        have hs : starts s.cur (0 :: rest) = starts 0 rest := by simp [starts]
        have := starts_pos_of_canon_zero hcan2
        rw [hr.depot hnd]
        simp only [hc, ne_eq, not_false_eq_true, decide_true, Bool.true_and, decide_eq_true_eq]
        rw [hs] at hb; simp only [hc, ne_eq, not_false_eq_true, if_true] at hb
        omega
      · exact (hr.avail a (by omega) han).mpr (by simp)
    have hnotin : a ≠ 0 → a ∉ rest := by
      intro h0 hmem
      have := hr.nodup a (by omega)
      rw [List.count_cons_self] at this
      have := List.count_pos_iff.mpr hmem
      omega
    -- the successor state is ready for the rest
    have hready : Ready i (step i s a) rest := by
      refine ⟨fun b hb => hr.range b (by simp [hb]), ?_, ?_, hcan2, ?_, ?_, step_done i s a⟩
      · intro j hj
        have := hr.nodup j hj
        rw [List.count_cons] at this
        omega
      · intro j h1 h2
        rw [step_avail_cust i s a j (by omega)]
        by_cases hja : j = a
        · subst hja
          simp only [if_true, Bool.false_eq_true, false_iff]
          exact hnotin (by omega)
        · simp only [hja, if_false]
          rw [hr.avail j h1 h2]
          simp [hja]
      · intro hd'
        rw [step_avail_depot, hd']
        simp only [Bool.false_or, step_cur, step_agent]
        by_cases h0 : a = 0
        · subst h0; simp
        · simp [h0]
      · have hb := hr.budget
        simp only [step_cur, step_agent]
        by_cases h0 : a = 0
        · subst h0
          have hc : s.cur ≠ 0 := by simpa using hcan1
          have hs : starts s.cur (0 :: rest) = starts 0 rest := by simp [starts]
          rw [hs] at hb
          simp only [hc, ne_eq, not_false_eq_true, if_true] at hb
          simp; omega
        · have hs : starts s.cur (a :: rest) = (if s.cur = 0 then 1 else 0) + starts a rest := by
            simp [starts, h0]
          rw [hs] at hb
          simp only [h0, ne_eq, not_false_eq_true, if_true, if_false, Nat.add_zero]
          by_cases hc : s.cur = 0 <;> simp [hc] at hb <;> omega
    obtain ⟨s', hrun, hdone⟩ := ih hready
    exact ⟨s', RunND.cons hnd (by simp only [env]; omega) hmask hrun, hdone⟩

/-- **C05 (mTSP).** Every canonical feasible solution is admitted by the mask step by step and ends
in a finished state (the run never steps a finished state, so it is also the run a decoding loop makes). -/
theorem run_of_feasible (i : Inst) {as : List Nat} (hf : Feasible i as) (hc : Canonical as) :
    ∃ s, RunND env i (env.reset i) as s ∧ env.done i s = true := by
  have hn : 1 ≤ i.n := by
    cases as with
    | nil => simp [Canonical, canon] at hc
    | cons a as =>
      simp only [Canonical, canon, ne_eq, not_true_eq_false, decide_false, Bool.or_false,
        Bool.and_eq_true, decide_eq_true_eq] at hc
      have := hf.range a (by simp)
      omega
  apply run_of_ready i
  refine ⟨hf.range, ?_, ?_, hc, ?_, ?_, ?_⟩
  · intro j hj
    by_cases hjn : j ≤ i.n
    · rw [hf.once j hj hjn]; omega
    · have : j ∉ as := fun hmem => hjn (hf.range j hmem)
      rw [List.count_eq_zero_of_not_mem this]; omega
  · intro j h1 h2
    have hcount := hf.once j h1 h2
    have : j ∈ as := List.count_pos_iff.mp (by omega)
    simp only [env, reset, ne_eq, decide_eq_true_eq, this, iff_true]
    omega
  · intro _; simp [env, reset]
  · have := hf.agents
    rw [tours_length_eq_starts] at this
    simpa [env, reset] using this
  · have : anyCust i.n (reset i).avail = true :=
      anyCust_eq_true.mpr ⟨1, by omega, hn, by simp [reset]⟩
    show (reset i).done = !(anyCust i.n (reset i).avail)
    rw [this]; rfl

/-- Non-vacuity: a canonical feasible solution that uses all agents (3 customers, 2 agents, 2 tours). -/
example : Feasible ⟨3, 2, fun _ _ => 1⟩ [2, 0, 3, 1] ∧ Canonical [2, 0, 3, 1] :=
  ⟨(feasible_iff _ _).mp (by decide), by unfold Canonical; decide⟩

end Rl4co.Mtsp
