/-
C05 for FJSP / JSSP, part 4 — the classical schedule classes and the optimum of each setting.

  non-delay ∧ valid  ⇒  active  ⇒  semi-active  ⇒  event-aligned      (`nonDelay_active`, `active_semiActive`,
                                                                        `semiActive_eventAligned`)
so with `mask_no_ops = false` every valid ACTIVE (and every semi-active) schedule is reachable
(`active_schedule_reachable`), and for both settings the reachable makespans are characterised exactly
(`reachMk_iff_wait_allowed`, `reachMk_iff_no_wait`): the best reward through the mask is the optimum of
the event-aligned class (= the optimum over all valid schedules, `optimum_reachable`) when waiting is
allowed, and the optimum of the NON-DELAY class when it is masked (`best_reachable_eq_nondelay_optimum`) —
which can be strictly worse (`nondelay_optimum_gap`: 21 vs 12 on `exDelay`).
-/
import Rl4co.Props.C05.FjspOptimum

namespace Rl4co.Fjsp
open Rl4co.Spec.Fjsp (isReal opOf Sched ValidSchedule)

/-- Semi-active: no operation can start earlier without changing the order on its machine: for every
earlier time `t`, the job predecessor or an operation that precedes it on its machine is still running. -/
def SemiActive (i : Inst) (σ : Sched) : Prop :=
  ∀ o, o < i.N → isReal i o = true → ∀ t : Int, 0 ≤ t → t < σ.start o →
    (∃ j, j < i.J ∧ i.startOp j < o ∧ o ≤ i.endOp j ∧ t < σ.finish (o - 1)) ∨
    (∃ m o', m < i.M ∧ o' < i.N ∧ isReal i o' = true ∧ σ.assign m o = true ∧ σ.assign m o' = true ∧
      σ.start o' < σ.start o ∧ t < σ.finish o')

/-- Active: no operation can start earlier at all (not even by jumping into a gap) while every other
operation keeps its place: starting `o` at `t` would precede its job predecessor's completion or
overlap another operation on its machine. -/
def Active (i : Inst) (σ : Sched) : Prop :=
  ∀ o, o < i.N → isReal i o = true → ∀ t : Int, 0 ≤ t → t < σ.start o →
    (∃ j, j < i.J ∧ i.startOp j < o ∧ o ≤ i.endOp j ∧ t < σ.finish (o - 1)) ∨
    (∃ m o', m < i.M ∧ o' < i.N ∧ isReal i o' = true ∧ o' ≠ o ∧ σ.assign m o = true ∧ σ.assign m o' = true ∧
      σ.start o' < t + (σ.finish o - σ.start o) ∧ t < σ.finish o')

theorem active_semiActive {i : Inst} {σ : Sched} {mk : Int} (hv : ValidSchedule i σ mk) (ha : Active i σ) :
    SemiActive i σ := by
  intro o ho hr t h0 hlt
  rcases ha o ho hr t h0 hlt with h | ⟨m, o', hm, ho', hr', hne, ha1, ha2, hs, hf⟩
  · exact Or.inl h
  · right
    refine ⟨m, o', hm, ho', hr', ha1, ha2, ?_, hf⟩
    obtain ⟨_, _, _, _, hp', hfin', _⟩ := sigma_machine hv ho' hr'
    rcases hv.machine m hm o' ho' o ho hr' hr hne ha2 ha1 with h | h <;> omega

theorem semiActive_eventAligned {i : Inst} {σ : Sched} {mk : Int} (hv : ValidSchedule i σ mk)
    (hsa : SemiActive i σ) : EventAligned i σ := by
  intro o ho hr
  obtain ⟨_, _, _, _, _, _, h0⟩ := sigma_machine hv ho hr
  by_cases hz : σ.start o = 0
  · exact Or.inl hz
  · right
    -- times are integers: look at the instant just before the start
    rcases hsa o ho hr (σ.start o - 1) (by omega) (by omega) with ⟨j, hj, h1, h2, hf⟩ | ⟨m, o', hm, ho', hr', ha1, ha2, hs, hf⟩
    · have hN := (hv.order j hj (o - 1) (by omega) (by omega) (by omega))
      have hoo : o - 1 + 1 = o := by omega
      rw [hoo] at hN
      exact ⟨o - 1, by omega, real_of_job hj (by omega) (by omega), by omega⟩
    · have hne : o' ≠ o := by intro h; subst h; omega
      obtain ⟨_, _, _, _, hp', hfin', _⟩ := sigma_machine hv ho' hr'
      refine ⟨o', ho', hr', ?_⟩
      rcases hv.machine m hm o' ho' o ho hr' hr hne ha2 ha1 with h | h <;> omega

theorem nonDelay_active {i : Inst} {σ : Sched} {mk : Int} (hv : ValidSchedule i σ mk) (hnd : NonDelay i σ) :
    Active i σ := by
  intro o ho hr t h0 hlt
  obtain ⟨m, hm, hσm, hum, hpm, hfm, _⟩ := sigma_machine hv ho hr
  apply Classical.byContradiction
  intro hcon
  have hA : ¬ ∃ j, j < i.J ∧ i.startOp j < o ∧ o ≤ i.endOp j ∧ t < σ.finish (o - 1) := fun h => hcon (Or.inl h)
  have hB : ∀ o', o' < i.N → isReal i o' = true → o' ≠ o → σ.assign m o' = true →
      ¬ (σ.start o' < t + (σ.finish o - σ.start o) ∧ t < σ.finish o') :=
    fun o' ho' hr' hne ha' hc => hcon (Or.inr ⟨m, o', hm, ho', hr', hne, hσm, ha', hc.1, hc.2⟩)
  have := hnd t m o h0 hm ho hr hpm ?_ ?_
  · omega
  · intro o' ho' hr' ha' hc
    by_cases hne : o' = o
    · subst hne; omega
    · exact hB o' ho' hr' hne ha' ⟨by omega, hc.2⟩
  · intro j hj h1 h2
    apply Classical.byContradiction; intro hc
    exact hA ⟨j, hj, h1, h2, by omega⟩

/-- **`mask_no_ops = false` reaches every active schedule** (and every semi-active one), exactly. -/
theorem active_schedule_reachable (i : Inst) (hwf : WF i) (hmno : i.maskNoOps = false) (σ : Sched) (mk : Int)
    (hv : ValidSchedule i σ mk) (ha : Active i σ) : Reachable i σ :=
  (reachable_iff_wait_allowed i hwf hmno σ).mpr
    ⟨⟨mk, hv⟩, semiActive_eventAligned hv (active_semiActive hv ha)⟩

theorem semiActive_schedule_reachable (i : Inst) (hwf : WF i) (hmno : i.maskNoOps = false) (σ : Sched) (mk : Int)
    (hv : ValidSchedule i σ mk) (hsa : SemiActive i σ) : Reachable i σ :=
  (reachable_iff_wait_allowed i hwf hmno σ).mpr ⟨⟨mk, hv⟩, semiActive_eventAligned hv hsa⟩

/-- with waiting masked every reachable schedule is active (non-delay schedules are) -/
theorem reachable_active_no_wait (i : Inst) (hwf : WF i) (hmno : i.maskNoOps = true) (as : List Nat) (s : State)
    (hrun : Run env i (env.reset i) as s) (hd : s.done = true) : Active i (schedOf s) :=
  nonDelay_active (schedule_valid i hwf as s hrun hd) (reachable_nondelay i hwf hmno as s hrun hd)

/-! ### the reachable makespans, exactly -/

theorem reachMk_iff_wait_allowed (i : Inst) (hwf : WF i) (hmno : i.maskNoOps = false) (r : Int) :
    ReachMk i r ↔ ∃ σ, ValidSchedule i σ r ∧ EventAligned i σ := by
  constructor
  · rintro ⟨as, s, hrun, hd, he⟩
    exact ⟨schedOf s, by rw [← he]; exact schedule_valid i hwf as s hrun hd, reachable_eventAligned i hwf as s hrun⟩
  · rintro ⟨σ, hv, hea⟩
    obtain ⟨as, s, hrun, hd, _, he⟩ := schedule_reachable i hwf hmno σ r hv hea
    exact ⟨as, s, hrun, hd, he⟩

theorem reachMk_iff_no_wait (i : Inst) (hwf : WF i) (hmno : i.maskNoOps = true) (r : Int) :
    ReachMk i r ↔ ∃ σ, ValidSchedule i σ r ∧ EventAligned i σ ∧ NonDelay i σ := by
  constructor
  · rintro ⟨as, s, hrun, hd, he⟩
    exact ⟨schedOf s, by rw [← he]; exact schedule_valid i hwf as s hrun hd, reachable_eventAligned i hwf as s hrun,
      reachable_nondelay i hwf hmno as s hrun hd⟩
  · rintro ⟨σ, hv, hea, hnd⟩
    obtain ⟨as, s, hrun, hd, _, he⟩ := nondelay_schedule_reachable i hwf hmno σ r hv hea hnd
    exact ⟨as, s, hrun, hd, he⟩

/-- makespans of the valid non-delay (event-aligned) schedules -/
def NonDelayMk (i : Inst) (r : Int) : Prop := ∃ σ, ValidSchedule i σ r ∧ EventAligned i σ ∧ NonDelay i σ

/-- **the converse optimum statement (`mask_no_ops = true`)**: the best makespan through the default mask
exists and is exactly the optimum of the non-delay class — nothing of that class is hidden, and nothing
better is reachable. -/
theorem best_reachable_eq_nondelay_optimum (i : Inst) (hwf : WF i) (hmno : i.maskNoOps = true) :
    ∃ r, (ReachMk i r ∧ ∀ r', ReachMk i r' → r ≤ r') ∧ (NonDelayMk i r ∧ ∀ r', NonDelayMk i r' → r ≤ r') := by
  obtain ⟨r, hr, hmin⟩ := best_reachable_exists i hwf
  refine ⟨r, ⟨hr, hmin⟩, (reachMk_iff_no_wait i hwf hmno r).mp hr, fun r' h' => ?_⟩
  exact hmin r' ((reachMk_iff_no_wait i hwf hmno r').mpr h')

/-- … and that optimum can be strictly worse than the optimum over all valid schedules:
on `exDelay` the non-delay optimum is 21, the optimum 12. -/
theorem nondelay_optimum_gap :
    (∀ r, NonDelayMk exDelay r → 21 ≤ r) ∧ ValidMk exDelay 12 := by
  refine ⟨fun r h => ?_, exDelayOpt, exDelayOpt_valid⟩
  obtain ⟨as, s, hrun, hd, he⟩ := (reachMk_iff_no_wait exDelay exDelay_wf rfl r).mpr h
  obtain ⟨b, hb, hle⟩ := reward_le_bestDone exDelay exDelay_wf hrun hd
  rw [exDelay_best] at hb
  simp at hb
  omega

end Rl4co.Fjsp

namespace Rl4co.Jssp
open Rl4co.Fjsp

theorem active_schedule_reachable (i : Inst) (_ : i.jssp = true) (hwf : WF i) (hmno : i.maskNoOps = false)
    (σ : Spec.Fjsp.Sched) (mk : Int) (hv : Spec.Fjsp.ValidSchedule i σ mk) (ha : Active i σ) : Reachable i σ :=
  Fjsp.active_schedule_reachable i hwf hmno σ mk hv ha

theorem best_reachable_eq_nondelay_optimum (i : Inst) (_ : i.jssp = true) (hwf : WF i) (hmno : i.maskNoOps = true) :
    ∃ r, (ReachMk i r ∧ ∀ r', ReachMk i r' → r ≤ r') ∧ (NonDelayMk i r ∧ ∀ r', NonDelayMk i r' → r ≤ r') :=
  Fjsp.best_reachable_eq_nondelay_optimum i hwf hmno

end Rl4co.Jssp
