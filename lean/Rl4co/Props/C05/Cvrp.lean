/-
C05 for CVRP: the mask hides no feasible solution.  Every solution that is feasible by the
independent definition and *canonical* (it does not start at the depot, never stays at the depot
twice in a row, and visits the depot at least once — exactly the documented pruning) is a
mask-confined run that the environment declares finished.  Together with C01 this says that the
mask-confined finished runs are exactly the canonical feasible solutions, so the best reward
reachable through the mask is the optimum.  Equality cases (load = capacity) are included because
`Feasible` uses `≤`.
-/
import Rl4co.Env.Cvrp
import Rl4co.Spec.Cvrp
import Rl4co.Props.C01.Cvrp

namespace Rl4co.Cvrp
open Rl4co.Spec.Cvrp

/-- no two consecutive depot visits -/
def noDoubleDepot : List Nat → Prop
  | [] => True
  | [_] => True
  | a :: b :: r => ¬(a = 0 ∧ b = 0) ∧ noDoubleDepot (b :: r)

structure Canonical (as : List Nat) : Prop where
  start : as.head? ≠ some 0
  nodouble : noDoubleDepot as
  depot : 0 ∈ as

theorem routeLoad_nonneg (i : Inst) (hd : ∀ j, 0 ≤ i.demand j) (r : List Nat) : 0 ≤ routeLoad i r := by
  induction r with
  | nil => simp [routeLoad]
  | cons a r ih =>
    simp only [routeLoad, List.map_cons, List.sum_cons] at ih ⊢
    have := hd a; omega

/-- Generalised over the start state. -/
theorem run_of_ok (i : Inst) (hd : ∀ j, 0 ≤ i.demand j) (as : List Nat) :
    ∀ s : State,
      (∀ a ∈ as, a ≤ i.n) →
      (∀ j, 1 ≤ j → j ∈ as → s.vis j = false) →
      (∀ j, 1 ≤ j → as.count j ≤ 1) →
      (∀ r rs, routes as = r :: rs → routeLoad i r + s.used ≤ i.cap ∧ ∀ r' ∈ rs, routeLoad i r' ≤ i.cap) →
      noDoubleDepot as → (s.cur = 0 → as.head? ≠ some 0) →
      ∃ s', Run env i s as s' ∧ ∀ j, s'.vis j = (s.vis j || decide (j ∈ as)) := by
  induction as with
  | nil => intro s _ _ _ _ _ _; exact ⟨s, Run.nil s, by simp⟩
  | cons a as ih =>
    intro s hr hv hc hl hnd hst
    obtain ⟨r1, rs1, h1⟩ := routes_cons_exists as
    have ha : a < env.nAct i := by have := hr a (by simp); simp [env]; omega
    have hnd' : noDoubleDepot as := by
      cases as with
      | nil => trivial
      | cons b r => exact hnd.2
    by_cases h0 : a = 0
    · subst h0
      have hcur : s.cur ≠ 0 := fun h => hst h (by simp)
      have hm : env.mask i s 0 = true := by simp [env, mask, hcur]
      have hl' := hl [] (routes as) (by simp [routes])
      obtain ⟨s', hrun, hvis⟩ := ih (env.step i s 0)
        (fun b hb => hr b (by simp [hb]))
        (fun j hj hmem => by
          have := hv j hj (by simp [hmem])
          simp only [env, step, upd_apply]
          have : j ≠ 0 := by omega
          simp [*])
        (fun j hj => by
          have := hc j hj
          rw [List.count_cons] at this
          omega)
        (fun r rs hrs => by
          rw [h1] at hl'
          rw [h1] at hrs
          simp only [List.cons.injEq] at hrs
          obtain ⟨e1, e2⟩ := hrs; subst e1 e2
          refine ⟨?_, fun r' hr' => hl'.2 r' (by simp [hr'])⟩
          have := hl'.2 _ (List.mem_cons_self)
          simpa [env, step] using this)
        hnd'
        (fun _ => by
          cases as with
          | nil => simp
          | cons b r =>
            have := hnd.1
            simp only [true_and] at this
            simpa using this)
      refine ⟨s', Run.cons ha hm hrun, fun j => ?_⟩
      rw [hvis j]
      simp only [env, step, upd_apply, List.mem_cons]
      by_cases hj : j = 0 <;> simp [hj]
    · have hva : s.vis a = false := hv a (by omega) (by simp)
      have hl' := hl (a :: r1) rs1 (by simp [routes, h0, h1])
      have hsel := sel_eq h0 ha
      have hr1 := routeLoad_nonneg i hd r1
      have hload : ¬ (i.demand a + s.used > i.cap) := by
        have := hl'.1
        simp only [routeLoad, List.map_cons, List.sum_cons] at this hr1
        omega
      have hm : env.mask i s a = true := by
        simp [env, mask, h0, locOk, hva, Params.cvrpMaskCapCmp, Cmp.eval]
        omega
      have hnotin : a ∉ as := by
        intro hmem
        have h2 := hc a (by omega)
        rw [List.count_cons] at h2
        have h3 := List.count_pos_iff.mpr hmem
        simp only [beq_self_eq_true, if_true] at h2
        omega
      obtain ⟨s', hrun, hvis⟩ := ih (env.step i s a)
        (fun b hb => hr b (by simp [hb]))
        (fun j hj hmem => by
          have := hv j hj (by simp [hmem])
          simp only [env, step, upd_apply]
          have : j ≠ a := fun h => hnotin (h ▸ hmem)
          simp [*])
        (fun j hj => by
          have := hc j hj
          rw [List.count_cons] at this
          omega)
        (fun r rs hrs => by
          rw [h1] at hrs
          simp only [List.cons.injEq] at hrs
          obtain ⟨e1, e2⟩ := hrs; subst e1 e2
          refine ⟨?_, hl'.2⟩
          have := hl'.1
          simp only [routeLoad, List.map_cons, List.sum_cons] at this ⊢
          simp only [env, step, h0, ne_eq, not_false_eq_true, if_true, hsel]
          omega)
        hnd'
        (fun h => by simp [env, step] at h; exact absurd h h0)
      refine ⟨s', Run.cons ha hm hrun, fun j => ?_⟩
      rw [hvis j]
      simp only [env, step, upd_apply, List.mem_cons]
      by_cases hj : j = a <;> simp [hj]

/-- **C05 (CVRP).** -/
theorem run_of_feasible (i : Inst) (hd : ∀ j, 0 ≤ i.demand j) (as : List Nat)
    (hf : Feasible i as) (hc : Canonical as) :
    ∃ s, Run env i (env.reset i) as s ∧ env.done i s = true := by
  obtain ⟨s, hrun, hvis⟩ := run_of_ok i hd as (env.reset i) hf.range
    (fun _ _ _ => rfl)
    (fun j hj => by
      by_cases hjn : j ≤ i.n
      · rw [hf.once j hj hjn]; exact Nat.le_refl 1
      · have : j ∉ as := fun hm => hjn (hf.range j hm)
        simp [List.count_eq_zero_of_not_mem this])
    (fun r rs hrs => by
      refine ⟨?_, fun r' hr' => hf.load r' (by rw [hrs]; simp [hr'])⟩
      have := hf.load r (by rw [hrs]; simp)
      simpa [env, reset] using this)
    hc.nodouble (fun _ => hc.start)
  refine ⟨s, hrun, ?_⟩
  have : cnt (i.n + 1) s.vis = i.n + 1 := by
    apply cnt_eq_n.mpr
    intro j hj
    rw [hvis j]
    simp only [env, reset, Bool.false_or, decide_eq_true_eq]
    by_cases h0 : j = 0
    · subst h0; exact hc.depot
    · have := hf.once j (by omega) (by omega)
      exact List.count_pos_iff.mp (by omega)
  simp [env, done, Params.cvrpDoneCmp, Cmp.evalNat, this]

/-- Non-vacuity: a boundary instance where the two customers fill the vehicle exactly. -/
example : Feasible ⟨2, 8, fun _ => 4, fun _ _ => 1⟩ [1, 2, 0] ∧ Canonical [1, 2, 0] := by
  refine ⟨(feasible_iff _ _).1 (by decide), ⟨by decide, ?_, by decide⟩⟩
  simp [noDoubleDepot]

end Rl4co.Cvrp
