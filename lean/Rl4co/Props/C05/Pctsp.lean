/-
C05 for PCTSP / SPCTSP: the mask hides no feasible solution.  Every canonical feasible solution —
customers in any order, each at most once, then one return to the depot, the collected real prize
reaching the requirement (EQUALITY included: the mask closes the depot only while
`cur_total_prize < 1.0`) or every customer visited — is a finished mask-confined run
(`run_of_feasible`).  Every other feasible action list (no final return, depot padding, depot visits
in between) has a canonical representative that is feasible and not worse (`canon_feasible`,
`canon_objective_le`), hence the best reward over mask-confined complete runs equals the optimum over
feasible solutions (`opt_reachable`).

`Canonical` removes exactly the documented pruning: the episode ends at the first return to the
depot; the empty tour is `[0, 0]` (the code does not count a depot step at `i = 0` as a return; it is
feasible only without customers or with a non-positive requirement).
-/
import Rl4co.Env.Pctsp
import Rl4co.Spec.Pctsp
import Rl4co.Props.C01.Pctsp
import Rl4co.Props.C03.Pctsp

namespace Rl4co.Pctsp
open Rl4co.Spec.Pctsp Rl4co.Prize

/-- canonical complete solutions: customers, then one return; or the empty tour `[0, 0]` -/
def Canonical (as : List Nat) : Prop :=
  as = [0, 0] ∨ ∃ cs, cs ≠ [] ∧ (∀ c ∈ cs, c ≠ 0) ∧ as = cs ++ [0]

/-- unvisited customers are admitted one after the other (generalised start state) -/
theorem run_customers (i : Inst) :
    ∀ (cs : List Nat) (s : State), s.vis 0 = false →
      (∀ c ∈ cs, c ≠ 0 ∧ c ≤ i.n ∧ s.vis c = false) → cs.Nodup →
      ∃ s', Run env i s cs s' ∧ s'.i = s.i + cs.length := by
  intro cs
  induction cs with
  | nil => intro s _ _ _; exact ⟨s, Run.nil s, by simp⟩
  | cons c t ih =>
    intro s hv0 hcs hnd
    obtain ⟨hc0, hcn, hvc⟩ := hcs c (List.mem_cons_self)
    obtain ⟨hnot, hnd'⟩ := List.nodup_cons.mp hnd
    have hmask : env.mask i s c = true := by simp [env, mask, hc0, hvc, hv0]
    have hv0' : (env.step i s c).vis 0 = false := by
      have : (0 : Nat) ≠ c := fun h => hc0 h.symm
      simp [env, step, this, hv0]
    have hcs' : ∀ d ∈ t, d ≠ 0 ∧ d ≤ i.n ∧ (env.step i s c).vis d = false := by
      intro d hd
      obtain ⟨hd0, hdn, hvd⟩ := hcs d (List.mem_cons_of_mem _ hd)
      refine ⟨hd0, hdn, ?_⟩
      have : d ≠ c := fun h => hnot (h ▸ hd)
      simp [env, step, this, hvd]
    obtain ⟨s', hr, hi'⟩ := ih (env.step i s c) hv0' hcs' hnd'
    refine ⟨s', Run.cons (by simp [env]; omega) hmask hr, ?_⟩
    rw [hi']; simp [env, step]; omega

/-- **C05 (PCTSP / SPCTSP).**  Every canonical feasible solution is a finished mask-confined run. -/
theorem run_of_feasible (i : Inst) {as : List Nat} (hf : Feasible i as) (hc : Canonical as) :
    ∃ s, Run env i (env.reset i) as s ∧ env.done i s = true := by
  rcases hc with h00 | ⟨cs, hne, hnz, has⟩
  · subst h00
    -- the empty tour is feasible only if the requirement is ≤ 0 or there is no customer
    have hopen : ¬ (0 < i.req ∧ 0 < i.n) := by
      rintro ⟨h1, h2⟩
      rcases hf.prize with hp | hall
      · have : collected i [0, 0] = 0 := by
          simp only [collected]
          have : sumTo i.n (fun k => if k + 1 ∈ [0, 0] then realPrize i (k + 1) else 0) =
              sumTo i.n (fun _ => 0) := sumTo_congr (fun k _ => by simp)
          rw [this, sumTo_zero]
        omega
      · have := hall 1 (by omega) (by omega)
        simp at this
    have hcnt0 : visitedCustomers i (reset i) = 0 := by
      apply cnt_eq_zero.mpr; intro j _; simp [reset]
    have hm1 : env.mask i (env.reset i) 0 = true := by
      simp only [env, mask, if_true, maskReq_eq, Params.pctspMaskPrizeCmp, Params.pctspMaskCountCmp, Cmp.eval,
        Cmp.evalNat, hcnt0, Bool.not_eq_true', Bool.and_eq_false_iff, decide_eq_false_iff_not]
      simp only [reset]
      omega
    have hm2 : env.mask i (env.step i (env.reset i) 0) 0 = true := by
      have hc := visitedCustomers_step_depot i (reset i)
      simp only [env, mask, if_true, maskReq_eq, Params.pctspMaskPrizeCmp, Params.pctspMaskCountCmp, Cmp.eval,
        Cmp.evalNat, hc, hcnt0, Bool.not_eq_true', Bool.and_eq_false_iff, decide_eq_false_iff_not]
      simp only [step, reset, padded, if_true]
      omega
    refine ⟨_, Run.cons (by simp [env]) hm1 (Run.cons (by simp [env]) hm2 (Run.nil _)), ?_⟩
    simp [env, done, step, reset, Params.pctspDoneCmp, Cmp.evalNat]
  · subst has
    have hcs : ∀ c ∈ cs, c ≠ 0 ∧ c ≤ i.n ∧ (env.reset i).vis c = false := by
      intro c hc
      exact ⟨hnz c hc, hf.range c (List.mem_append_left _ hc), rfl⟩
    have hnd : cs.Nodup := by
      rw [List.nodup_iff_count]
      intro a
      by_cases hmem : a ∈ cs
      · have ha0 := hnz a hmem
        have han := hf.range a (List.mem_append_left _ hmem)
        have := hf.once a (by omega) han
        rw [List.count_append] at this
        omega
      · rw [List.count_eq_zero_of_not_mem hmem]; omega
    obtain ⟨s', hr, hi'⟩ := run_customers i cs (env.reset i) rfl hcs hnd
    -- the state after the customers: prize gathered, visited set known
    have htot := tot_of_run i hr
    obtain ⟨hr1, _, hr3, hr4⟩ := visits_of_run i hr
    have hm0 : env.mask i s' 0 = true := by
      simp only [env, mask, if_true, maskReq_eq, Params.pctspMaskPrizeCmp, Params.pctspMaskCountCmp, Cmp.eval,
        Cmp.evalNat, Bool.not_eq_true', Bool.and_eq_false_iff, decide_eq_false_iff_not]
      rcases hf.prize with hp | hall
      · left
        have hcol : collected i (cs ++ [0]) = gatherSum (realPrize i) cs := by
          simp only [collected]
          rw [gatherSum_eq_sumTo i.n (realPrize i) cs hr1 (fun j hj _ => hr3 j hj)]
          apply sumTo_congr
          intro k _
          simp
        simp only [env, reset, Int.zero_add] at htot
        omega
      · right
        have : visitedCustomers i s' = i.n := by
          apply cnt_eq_n.mpr
          intro k hk
          rw [hr4 (k + 1)]
          have := hall (k + 1) (by omega) (by omega)
          have hmem : k + 1 ∈ cs := by
            rcases List.mem_append.mp this with h | h
            · exact h
            · simp at h
          simp [hmem]
        omega
    refine ⟨env.step i s' 0, hr.snoc (by simp [env]) hm0, ?_⟩
    have hpos : 0 < cs.length := List.length_pos_iff.mpr hne
    simp only [env, reset] at hi'
    simp [env, done, step, Params.pctspDoneCmp, Cmp.evalNat, hi']
    omega

theorem canon_canonical (as : List Nat) : Canonical (canon as) := by
  unfold canon
  split
  · exact Or.inl rfl
  · rename_i h
    exact Or.inr ⟨customers as, h, fun c hc => (mem_customers.mp hc).2, rfl⟩

theorem collected_canon (i : Inst) (as : List Nat) : collected i (canon as) = collected i as := by
  simp only [collected]
  apply sumTo_congr
  intro k _
  have : (k + 1 ∈ canon as) ↔ (k + 1 ∈ as) := mem_canon (by omega)
  by_cases h : k + 1 ∈ as <;> simp [h, this]

/-- the canonical representative of a feasible solution is feasible -/
theorem canon_feasible (i : Inst) {as : List Nat} (hf : Feasible i as) : Feasible i (canon as) := by
  refine ⟨canon_range hf.range, ?_, ?_⟩
  · intro j h1 h2
    rw [count_canon as j (by omega)]
    exact hf.once j h1 h2
  · rcases hf.prize with hp | hall
    · left; rw [collected_canon]; exact hp
    · right
      intro j h1 h2
      exact (mem_canon (by omega)).mpr (hall j h1 h2)

/-- … and not worse -/
theorem canon_objective_le (i : Inst) (h00 : i.D 0 0 = 0) (htri : ∀ a b, i.D a b ≤ i.D a 0 + i.D 0 b)
    (as : List Nat) : objective i (canon as) ≤ objective i as := by
  simp only [objective]
  have h1 := pathLen_canon_le i.D h00 htri as
  have h2 : sumTo i.n (fun k => if k + 1 ∈ canon as then 0 else i.pen (k + 1)) =
      sumTo i.n (fun k => if k + 1 ∈ as then 0 else i.pen (k + 1)) := by
    apply sumTo_congr
    intro k _
    have : (k + 1 ∈ canon as) ↔ (k + 1 ∈ as) := mem_canon (by omega)
    by_cases h : k + 1 ∈ as <;> simp [h, this]
  omega

/-- **C05 (PCTSP / SPCTSP), optimum reachable.**  For every feasible solution — canonical or not —
there is a finished mask-confined episode whose reward is at least minus the solution's objective.
Together with C01 + C03 (every finished mask-confined episode is feasible and its reward is minus its
objective) the best reward reachable through the mask equals the optimum over feasible solutions. -/
theorem opt_reachable (i : Inst) (h00 : i.D 0 0 = 0) (htri : ∀ a b, i.D a b ≤ i.D a 0 + i.D 0 b)
    {as : List Nat} (hf : Feasible i as) :
    ∃ as' s, Run env i (env.reset i) as' s ∧ env.done i s = true ∧ - objective i as ≤ reward i as' := by
  obtain ⟨s, hr, hd⟩ := run_of_feasible i (canon_feasible i hf) (canon_canonical as)
  refine ⟨canon as, s, hr, hd, ?_⟩
  rw [reward_eq_objective i hr hd]
  have := canon_objective_le i h00 htri as
  omega

/-- rewards of finished mask-confined episodes -/
def ReachableReward (i : Inst) (v : Int) : Prop :=
  ∃ as s, Run env i (env.reset i) as s ∧ env.done i s = true ∧ reward i as = v

/-- values (minus the objective) of feasible solutions -/
def FeasibleValue (i : Inst) (v : Int) : Prop := ∃ as, Feasible i as ∧ - objective i as = v

/-- `v` is the maximum of the set `P` -/
def IsMaxOf (P : Int → Prop) (v : Int) : Prop := P v ∧ ∀ w, P w → w ≤ v

/-- every reward reachable through the mask is the value of a feasible solution (C01 + C03) -/
theorem feasibleValue_of_reachable (i : Inst) {v : Int} (h : ReachableReward i v) : FeasibleValue i v := by
  obtain ⟨as, s, hr, hd, hv⟩ := h
  exact ⟨as, feasible_of_run i hr hd, by rw [← reward_eq_objective i hr hd, hv]⟩

/-- **C05 (PCTSP / SPCTSP), the property text as an equation of optima**: the best reward over finished
mask-confined episodes EQUALS the optimum (best value) over all feasible solutions — `v` is the maximum
of one set iff it is the maximum of the other. -/
theorem opt_eq (i : Inst) (h00 : i.D 0 0 = 0) (htri : ∀ a b, i.D a b ≤ i.D a 0 + i.D 0 b) (v : Int) :
    IsMaxOf (ReachableReward i) v ↔ IsMaxOf (FeasibleValue i) v := by
  constructor
  · rintro ⟨hv, hmax⟩
    refine ⟨feasibleValue_of_reachable i hv, ?_⟩
    rintro w ⟨as, hf, hw⟩
    obtain ⟨as', s, hr, hd, hge⟩ := opt_reachable i h00 htri hf
    have := hmax (reward i as') ⟨as', s, hr, hd, rfl⟩
    omega
  · rintro ⟨⟨as, hf, hv⟩, hmax⟩
    obtain ⟨as', s, hr, hd, hge⟩ := opt_reachable i h00 htri hf
    have hreach : ReachableReward i (reward i as') := ⟨as', s, hr, hd, rfl⟩
    have hle := hmax _ (feasibleValue_of_reachable i hreach)
    have heq : reward i as' = v := by omega
    refine ⟨heq ▸ hreach, ?_⟩
    intro w hw
    exact hmax w (feasibleValue_of_reachable i hw)

/-- Non-vacuity: `[1, 2, 0]` collects EXACTLY the requirement (2 + 2 = 4) on the example instance,
is Spec-feasible and canonical. -/
example : Feasible exInst [1, 2, 0] := (feasible_iff _ _).mp (by decide)
example : Spec.Pctsp.slack exInst [1, 2, 0] = 0 := by decide
example : Canonical [1, 2, 0] := Or.inr ⟨[1, 2], by simp, by simp, rfl⟩

/-! ### the depot rule, exactly, with the constants of the property text -/

/-- the depot is offered IFF the collected prize has reached the requirement (EQUALITY included) or no
customer is left — in every state -/
theorem mask_depot_iff (i : Inst) (s : State) :
    env.mask i s 0 = true ↔ (i.req ≤ s.tot ∨ visitedCustomers i s = i.n) := by
  have hle : visitedCustomers i s ≤ i.n := cnt_le _ _
  simp only [env, mask, if_true, maskReq_eq, Params.pctspMaskPrizeCmp, Params.pctspMaskCountCmp, Cmp.eval,
    Cmp.evalNat, Bool.not_eq_true', Bool.and_eq_false_iff, decide_eq_false_iff_not]
  constructor
  · rintro (h | h)
    · exact Or.inl (by omega)
    · exact Or.inr (by omega)
  · rintro (h | h)
    · exact Or.inl (by omega)
    · exact Or.inr (by omega)

/-- "collected prize exactly reaching the requirement … is offered": at `cur_total_prize = 1.0` the return to
the depot is admitted, whatever else the state is -/
theorem depot_offered_at_exactly_required (i : Inst) (s : State) (h : s.tot = i.req) :
    env.mask i s 0 = true :=
  (mask_depot_iff i s).mpr (Or.inl (by omega))

/-- one tick below the requirement, with a customer left, it is not -/
theorem depot_masked_below_required (i : Inst) (s : State) (h : s.tot < i.req)
    (hu : visitedCustomers i s < i.n) : env.mask i s 0 = false := by
  cases hm : env.mask i s 0 with
  | false => rfl
  | true => rcases (mask_depot_iff i s).mp hm with h' | h' <;> omega

/-- **C05, the equality case of the property text**: a canonical solution whose collected (real) prize is
EXACTLY the required prize is a finished mask-confined run. -/
theorem run_of_feasible_exact (i : Inst) {as : List Nat}
    (hr : ∀ a ∈ as, a ≤ i.n) (ho : ∀ j, 1 ≤ j → j ≤ i.n → as.count j ≤ 1)
    (hexact : collected i as = i.req) (hc : Canonical as) :
    ∃ s, Run env i (env.reset i) as s ∧ env.done i s = true :=
  run_of_feasible i ⟨hr, ho, Or.inl (by omega)⟩ hc

/-- Non-vacuity: on the example instance `[1, 2, 0]` collects exactly the requirement (2 + 2 = 4). -/
example : collected exInst [1, 2, 0] = exInst.req := by decide

end Rl4co.Pctsp
