/-
C05 for ATSP: the mask hides nothing — every permutation of the nodes is a mask-confined episode that
the environment declares finished; together with C01 the set of complete mask-confined episodes IS
the set of feasible tours, so the best reward reachable through the mask is the optimum.
-/
import Rl4co.Props.C03.Atsp
import Rl4co.Proofs.TspfamOpt
import Rl4co.Proofs.TspfamAtsp
import Rl4co.Spec.Atsp
import Rl4co.Props.C01.Atsp

namespace Rl4co.Atsp
open Rl4co.Tspfam

/-- **C05 (ATSP).** -/
theorem run_of_feasible (i : Inst) (hpos : 0 < i.n) {as : List Nat} (hf : Spec.Atsp.Feasible i.n as) :
    ∃ s, Run env i (env.reset i) as s ∧ env.done i s = true := by
  have hrun := availEnv.run_of_nodup mask_eq_avail (i := i) as (env.reset i) hf.nodup hf.range
    (fun _ _ => rfl)
  exact ⟨_, hrun, (availEnv.run_length hpos hrun).mpr hf.length_eq⟩

/-- complete mask-confined episodes = feasible tours (C01 + C05) -/
theorem complete_run_iff_feasible (i : Inst) (hpos : 0 < i.n) (as : List Nat) :
    (∃ s, Run env i (env.reset i) as s ∧ env.done i s = true) ↔ Spec.Atsp.Feasible i.n as :=
  ⟨fun ⟨_, h, hd⟩ => feasible_of_run i h hd, run_of_feasible i hpos⟩

/-- Non-vacuity. -/
example : Spec.Atsp.Feasible 3 [2, 0, 1] := (Spec.Tsp.feasible_iff 3 [2, 0, 1]).mp (by decide)

/-- **C05 (ATSP), the optimum stays reachable.** -/
theorem opt_reachable (i : Inst) (hpos : 0 < i.n) :
    ∃ as s, Run env i (env.reset i) as s ∧ env.done i s = true ∧
      (∀ bs, Spec.Atsp.Feasible i.n bs → Spec.Atsp.objective i.M as ≤ Spec.Atsp.objective i.M bs) ∧
      (∀ bs t, Run env i (env.reset i) bs t → env.done i t = true → reward i bs ≤ reward i as) := by
  obtain ⟨as, hperm, hmin⟩ := exists_min_perm (List.range i.n) (Spec.Atsp.objective i.M)
  have hfeas : ∀ bs, Spec.Atsp.Feasible i.n bs → Spec.Atsp.objective i.M as ≤ Spec.Atsp.objective i.M bs :=
    fun bs hb => hmin bs ((Spec.Tsp.feasible_iff_perm i.n bs).mp hb)
  obtain ⟨s, hrun, hd⟩ := run_of_feasible i hpos ((Spec.Tsp.feasible_iff_perm i.n as).mpr hperm)
  refine ⟨as, s, hrun, hd, hfeas, ?_⟩
  intro bs t hr hdt
  rw [reward_eq_objective, reward_eq_objective]
  have := hfeas bs (feasible_of_run i hr hdt); omega

end Rl4co.Atsp
