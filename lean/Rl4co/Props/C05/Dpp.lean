/-
C05 for DPP / MDPP: every list of `max_decaps` distinct allowed cells (offered by the instance, not a
probing port), in every order, is a mask-confined episode that ends finished; the complete episodes
are exactly the feasible placements.  (The objective — the impedance simulator — is not modelled.)
-/
import Rl4co.Props.C08.Dpp

namespace Rl4co.Dpp
open Rl4co.Spec.Dpp

theorem run_of_feasible (i : Inst) (hwf : WF i) {as : List Nat} (hf : Feasible i as) :
    ∃ s, RunND env i (env.reset i) as s ∧ env.done i s = true :=
  Sel.run_of_feasible view (i := i) hwf.1 as hf.len hf.nodup
    (fun a ha => ⟨hf.range a ha, by
      show allowed0 i a = true
      rw [allowed0_eq_spec i hwf.2.2]; exact hf.ok a ha⟩)

theorem complete_iff_feasible (i : Inst) (hwf : WF i) (as : List Nat) :
    (∃ s, RunND env i (env.reset i) as s ∧ env.done i s = true) ↔ Feasible i as :=
  ⟨fun ⟨_, h, hd⟩ => feasible_of_run i hwf h hd, run_of_feasible i hwf⟩

example : Feasible exInst [2, 0] := (feasible_iff _ _).mp (by decide)

end Rl4co.Dpp
