/-
C05 for MDCPDP with the INTENDED `current_depot` rule (`envFixed`): the mask is `envAdmitsX` on the state of the Spec's own
simulation (`mask_eq_admitsX`), a visit list is a run iff every visit is admitted (`run_iff_admitsAllX`), and — the full
completeness statement — EVERY feasible solution in canonical form is a mask-confined finished run (`run_of_feasible`).
-/
import Rl4co.Props.C03.MdcpdpFixed
import Rl4co.Props.C05.Mdcpdp

namespace Rl4co.Mdcpdp.Fixed
open Rl4co.Mdcpdp Rl4co.Spec.Mdcpdp

theorem anyIn_K_iff (i : Inst) {b : Bool} {s : State} {σ : Sim} (hr : RelX i b s σ) :
    anyIn i.K s.avail = depLeft (problemOf i) σ := by
  cases h : depLeft (problemOf i) σ with
  | true =>
    simp only [depLeft, List.any_eq_true, List.mem_range, decide_eq_true_eq] at h
    obtain ⟨d, hd, hno⟩ := h
    have hd' : d < i.K := hd
    apply anyIn_eq_true.mpr
    refine ⟨d, hd', ?_⟩
    cases hav : s.avail d with
    | true => rfl
    | false => exact absurd ((hr.opened d hd').mpr hav) hno
  | false =>
    apply anyIn_eq_false.mpr
    intro d hd
    cases hav : s.avail d with
    | false => rfl
    | true =>
      have : depLeft (problemOf i) σ = true := by
        simp only [depLeft, List.any_eq_true, List.mem_range, decide_eq_true_eq]
        refine ⟨d, hd, fun hmem => ?_⟩
        have := (hr.opened d hd).mp hmem
        rw [hav] at this; cases this
      rw [h] at this; cases this

theorem done_iff_allDone (i : Inst) (hwf : WFX i) {b : Bool} {s : State} {σ : Sim} (hi : InvX i s)
    (hr : RelX i b s σ) : s.done = allDone (problemOf i) σ := by
  have hev := hwf.wf.even
  rw [hi.doneEq]
  cases h : allDone (problemOf i) σ with
  | true =>
    simp only [allDone, Bool.and_eq_true, List.all_eq_true, List.mem_range, decide_eq_true_eq] at h
    have : anyIn i.N s.avail = false := by
      apply anyIn_eq_false.mpr
      intro j hj
      by_cases hjK : j < i.K
      · exact (hr.opened j hjK).mp (h.1 j hjK)
      · have := h.2 (j - i.K) (by show j - i.K < 2 * i.h; omega)
        have e : (problemOf i).K + (j - i.K) = j := by show i.K + (j - i.K) = j; omega
        rw [e] at this
        exact ((hr.served j).mp this).2.2
    simp [this]
  | false =>
    have : anyIn i.N s.avail = true := by
      cases hany : anyIn i.N s.avail with
      | true => rfl
      | false =>
        exfalso
        have hall := anyIn_eq_false.mp hany
        have : allDone (problemOf i) σ = true := by
          simp only [allDone, Bool.and_eq_true, List.all_eq_true, List.mem_range, decide_eq_true_eq]
          refine ⟨fun d hd => (hr.opened d hd).mpr (hall d (by have : d < i.K := hd; omega)), ?_⟩
          intro k hk
          have hk' : k < 2 * i.h := hk
          exact (hr.served (i.K + k)).mpr ⟨by omega, by omega, hall (i.K + k) (by omega)⟩
        rw [h] at this; cases this
    simp [this]

/-- **The mask is `envAdmitsX`** in every state after the first step (intended rule). -/
theorem mask_eq_admitsX (i : Inst) (hwf : WFX i) {b : Bool} {s : State} {σ : Sim} (hi : InvX i s)
    (hr : RelX i b s σ) (a : Nat) (ha : a < i.N) : s.mask a = envAdmitsX (problemOf i) σ a := by
  have hev := hwf.wf.even
  have hk := hwf.wf.kpos
  have hpd : i.pd = i.h + i.K := rfl
  have hdK := hi.depK
  have hdopen : s.depot ∈ σ.opened := (hr.opened s.depot hdK).mpr hr.zero
  have hopne : σ.opened.isEmpty = false := by
    cases ho : σ.opened with
    | nil => rw [ho] at hdopen; cases hdopen
    | cons _ _ => rfl
  have hcarry : decide (s.carry > 0) = !σ.onboard.isEmpty := by
    have := hr.carry
    cases ho : σ.onboard with
    | nil => rw [ho] at this; simp at this; simp [← this]
    | cons x xs => rw [ho] at this; simp at this; simp; omega
  have hdone := done_iff_allDone i hwf hi hr
  have hany := anyIn_K_iff i hr
  rw [hr.mask]
  by_cases haK : a < i.K
  · have haK' : a < (problemOf i).K := haK
    by_cases had : a = s.depot
    · subst had
      have hnot : decide (s.depot ∉ σ.opened) = false := by simp [hdopen]
      cases b with
      | false =>
        have hv := hr.veh.2 rfl
        simp [maskOf, haK, envAdmitsX, haK', hcarry, hany, hdone, hv, hnot]
        cases σ.onboard.isEmpty <;> cases depLeft (problemOf i) σ <;> cases allDone (problemOf i) σ <;> rfl
      | true =>
        have hv := hr.veh.1 rfl
        have hp : σ.pos = s.depot := by rw [hr.pos, hr.homePos rfl]
        simp [maskOf, haK, envAdmitsX, haK', hcarry, hany, hdone, hv, hnot, hp]
    · have hav : s.avail a = decide (a ∉ σ.opened) := by
        cases h : s.avail a with
        | false => simp [(hr.opened a haK).mpr h]
        | true =>
          have : a ∉ σ.opened := fun hm => by have := (hr.opened a haK).mp hm; rw [h] at this; cases this
          simp [this]
      have htd := hi.tdLow a (by omega)
      have hdl : s.avail a = true → depLeft (problemOf i) σ = true := by
        intro h; rw [← hany]; exact anyIn_eq_true.mpr ⟨a, haK, h⟩
      cases b with
      | false =>
        have hv := hr.veh.2 rfl
        have hne : (some s.depot == some a) = false := by simp; exact fun h => had h.symm
        simp [maskOf, haK, had, envAdmitsX, haK', hv, hne]
      | true =>
        have hv := hr.veh.1 rfl
        have hp : σ.pos = s.depot := by rw [hr.pos, hr.homePos rfl]
        have hpa : decide (a = σ.pos) = false := by rw [hp]; simp [had]
        simp only [maskOf, capFlagOf_eq, carryFlagOf_eq, lastDepotOf_eq, haK, if_true, had, if_false, envAdmitsX, haK',
          hcarry, hany, htd, hv, hopne, hav, hpa]
        rw [hav] at hdl
        cases hd : decide (a ∉ σ.opened) <;> cases σ.onboard.isEmpty <;> cases allDone (problemOf i) σ <;> simp_all
  · have haK' : ¬ a < (problemOf i).K := haK
    have hav : s.avail a = decide (a ∉ σ.served) := by
      cases h : s.avail a with
      | false => simp [(hr.served a).mpr ⟨by omega, ha, h⟩]
      | true =>
        have : a ∉ σ.served := fun hm => by have := ((hr.served a).mp hm).2.2; rw [h] at this; cases this
        simp [this]
    cases b with
    | true =>
      have hv := hr.veh.1 rfl
      simp [maskOf, haK, envAdmitsX, haK', hv]
    | false =>
      have hv := hr.veh.2 rfl
      have hvc : vehCap (problemOf i) σ = i.cap s.depot := by simp [vehCap, hv, problemOf]
      by_cases hp : a < i.pd
      · have hp' : a < (problemOf i).K + (problemOf i).h := by show a < i.K + i.h; omega
        have htd := hi.tdLow a (by omega)
        have hcap : (!decide (s.carry ≥ i.cap s.depot)) = decide ((σ.onboard.length : Int) + 1 ≤ i.cap s.depot) := by
          have := hr.carry
          by_cases hc : s.carry ≥ i.cap s.depot
          · have : ¬ ((σ.onboard.length : Int) + 1 ≤ i.cap s.depot) := by omega
            simp [hc, this]
          · have : (σ.onboard.length : Int) + 1 ≤ i.cap s.depot := by omega
            simp [hc, this]
        simp only [maskOf, capFlagOf_eq, carryFlagOf_eq, lastDepotOf_eq, haK, if_false, hp, if_true, envAdmitsX, haK',
          hp', hav, htd, hcap, hv, hvc, Bool.and_true, Option.isSome_some, Bool.not_false, Bool.true_and]
      · have hp' : ¬ a < (problemOf i).K + (problemOf i).h := by show ¬ a < i.K + i.h; omega
        have htd : s.avail a = true → s.toDeliver a = decide ((a - (problemOf i).h) ∈ σ.onboard) := by
          intro hava
          have := hi.tdDel (a - i.h) (by omega) (by omega)
          have e : a - i.h + i.h = a := by omega
          rw [e] at this
          rw [this]
          show _ = decide ((a - i.h) ∈ σ.onboard)
          cases hpk : s.avail (a - i.h) with
          | true =>
            have : (a - i.h) ∉ σ.onboard := fun hm => by have := ((hr.onboard _).mp hm).2.2.1; rw [hpk] at this; cases this
            simp [this]
          | false =>
            have : (a - i.h) ∈ σ.onboard := (hr.onboard _).mpr ⟨by omega, by omega, hpk, by rw [e]; exact hava⟩
            simp [this]
        simp only [maskOf, capFlagOf_eq, carryFlagOf_eq, lastDepotOf_eq, haK, if_false, hp, envAdmitsX, haK', hp', hv]
        cases hava : s.avail a with
        | false => rw [hav] at hava; simp [hava]
        | true => rw [htd hava]; rw [hav] at hava; simp [hava]

theorem reset_mask_eq_admitsX (i : Inst) (hwf : WFX i) (a : Nat) :
    (reset i).mask a = envAdmitsX (problemOf i) {} a := by
  have hk := hwf.wf.kpos
  have hnd : allDone (problemOf i) {} = false := by
    simp only [allDone, Bool.and_eq_false_iff]
    left
    simp only [List.all_eq_false, List.mem_range]
    exact ⟨0, hk, by simp⟩
  by_cases haK : a < i.K
  · have haK' : a < (problemOf i).K := haK
    simp [reset, envAdmitsX, haK', hnd]
  · have haK' : ¬ a < (problemOf i).K := haK
    have : a ≠ 0 := by omega
    simp [reset, envAdmitsX, haK', this]

def TiedX (i : Inst) (s : State) (σ : Sim) : Prop :=
  (s = reset i ∧ σ = {}) ∨ (InvX i s ∧ ∃ b, RelX i b s σ)

theorem tied_mask (i : Inst) (hwf : WFX i) {s : State} {σ : Sim} (ht : TiedX i s σ) (a : Nat) (ha : a < i.N) :
    s.mask a = envAdmitsX (problemOf i) σ a := by
  rcases ht with ⟨h1, h2⟩ | ⟨hi, b, hr⟩
  · subst h1 h2; exact reset_mask_eq_admitsX i hwf a
  · exact mask_eq_admitsX i hwf hi hr a ha

theorem tied_step (i : Inst) (hwf : WFX i) {s : State} {σ : Sim} (ht : TiedX i s σ) (a : Nat) (ha : a < i.N)
    (hm : s.mask a = true) : TiedX i (stepX i s a) (simStep (problemOf i) v1 σ a) := by
  rcases ht with ⟨h1, h2⟩ | ⟨hi, b, hr⟩
  · subst h1 h2
    have ha0 : a = 0 := by simpa [reset] using hm
    subst ha0
    exact Or.inr ⟨inv_step hwf (inv_reset i hwf) ha hm, false, rel_first i hwf⟩
  · exact Or.inr ⟨inv_step hwf hi ha hm, _, rel_step i hwf hi hr ha hm⟩

theorem run_iff_admitsAllX_from (i : Inst) (hwf : WFX i) (as : List Nat) : ∀ {s : State} {σ : Sim}, TiedX i s σ →
    ((∃ s', Run envFixed i s as s') ↔ admitsAllX (problemOf i) σ as = true) := by
  have hN := pN i hwf.wf
  induction as with
  | nil => intro s σ _; exact ⟨fun _ => rfl, fun _ => ⟨s, Run.nil s⟩⟩
  | cons a as ih =>
    intro s σ ht
    constructor
    · rintro ⟨s', hrun⟩
      cases hrun with
      | cons ha hm hrest =>
        have ha' : a < i.N := ha
        have hm' : s.mask a = true := hm
        have := (ih (tied_step i hwf ht a ha' hm')).mp ⟨s', hrest⟩
        simp only [admitsAllX, Bool.and_eq_true, decide_eq_true_eq, hN]
        exact ⟨⟨ha', by rw [← tied_mask i hwf ht a ha']; exact hm'⟩, this⟩
    · intro h
      simp only [admitsAllX, Bool.and_eq_true, decide_eq_true_eq, hN] at h
      obtain ⟨⟨ha, hadm⟩, hrest⟩ := h
      have hm : s.mask a = true := by rw [tied_mask i hwf ht a ha]; exact hadm
      obtain ⟨s', hrun⟩ := (ih (tied_step i hwf ht a ha hm)).mpr hrest
      exact ⟨s', Run.cons ha hm hrun⟩

/-- the class of visit lists the mask admits under the intended rule, as an iff -/
theorem run_iff_admitsAllX (i : Inst) (hwf : WFX i) (as : List Nat) :
    (∃ s, Run envFixed i (envFixed.reset i) as s) ↔ admitsAllX (problemOf i) {} as = true :=
  run_iff_admitsAllX_from i hwf as (Or.inl ⟨rfl, rfl⟩)

/-! ### completeness: every canonical feasible solution is a run -/

/-- the documented pruning, on the state of the Spec simulation: the very first visit is depot 0; a vehicle returns only while
some depot's vehicle is still to start; nobody waits at a depot -/
def canonStep (p : Problem) (σ : Sim) (a : Nat) : Bool :=
  (!σ.opened.isEmpty || decide (a = 0)) &&
  (if a < p.K ∧ a ∈ σ.opened then σ.veh.isSome && depLeft p σ else true)

def canonAll (p : Problem) : Sim → List Nat → Bool
  | _, [] => true
  | σ, a :: as => canonStep p σ a && canonAll p (simStep p v1 σ a) as

/-- nothing is on board while no vehicle is out -/
def SimOk (σ : Sim) : Prop := σ.veh = none → σ.onboard = []

theorem fail_err (σ : Sim) (e : Nat) (he : σ.err = 0) (hne : e ≠ 0) : (σ.fail e).err ≠ 0 := by
  simp [Sim.fail, he, hne]

/-- a visit the Spec accepts and the pruning allows is offered by the mask -/
theorem admits_of_legal (p : Problem) (σ : Sim) (a : Nat) (hok : SimOk σ) (he : σ.err = 0)
    (he' : (simStep p v1 σ a).err = 0) (hc : canonStep p σ a = true) :
    a < p.N ∧ envAdmitsX p σ a = true ∧ SimOk (simStep p v1 σ a) := by
  simp only [canonStep, Bool.and_eq_true, Bool.or_eq_true, Bool.not_eq_true', decide_eq_true_eq] at hc
  obtain ⟨hc1, hc2⟩ := hc
  by_cases hN : a ≥ p.N
  · exfalso
    have : simStep p v1 σ a = σ.fail 1 := by simp [simStep, he, hN]
    rw [this] at he'; exact fail_err σ 1 he (by omega) he'
  refine ⟨by omega, ?_⟩
  by_cases haK : a < p.K
  · by_cases hop : a ∈ σ.opened
    · -- a return
      have hc2' : σ.veh.isSome = true ∧ depLeft p σ = true := by simpa [haK, hop] using hc2
      cases hv : σ.veh with
      | none => rw [hv] at hc2'; simp at hc2'
      | some d =>
        by_cases hon : σ.onboard = []
        · by_cases had : a = d
          · subst had
            have e : simStep p v1 σ a =
                { σ with veh := none, pos := a,
                         clock := σ.clock + (if p.openMode then 0 else if σ.pos < p.K then 0 else p.D σ.pos a),
                         lens := addLen σ.lens a (if p.openMode then 0 else if σ.pos < p.K then 0 else p.D σ.pos a) } := by
              simp [simStep, he, hN, haK, hop, hv, hon, v1]
            refine ⟨?_, ?_⟩
            · simp [envAdmitsX, haK, hv, hon, hc2'.2]
            · rw [e]; intro _; exact hon
          · exfalso
            have : simStep p v1 σ a = σ.fail 7 := by simp [simStep, he, hN, haK, hop, hv, hon, v1, had]
            rw [this] at he'; exact fail_err σ 7 he (by omega) he'
        · exfalso
          have : simStep p v1 σ a = σ.fail 6 := by simp [simStep, he, hN, haK, hop, hv, hon]
          rw [this] at he'; exact fail_err σ 6 he (by omega) he'
    · -- a start
      cases hv : σ.veh with
      | some d =>
        exfalso
        have : simStep p v1 σ a = σ.fail 2 := by simp [simStep, he, hN, haK, hop, hv]
        rw [this] at he'; exact fail_err σ 2 he (by omega) he'
      | none =>
        have hon := hok hv
        have e : simStep p v1 σ a = { σ with opened := a :: σ.opened, veh := some a, pos := a, clock := 0 } := by
          simp [simStep, he, hN, haK, hop, hv, v1]
        refine ⟨?_, ?_⟩
        · have h1 : (!σ.opened.isEmpty || decide (a = 0)) = true := by
            rcases hc1 with h | h
            · simp [h]
            · simp [h]
          simp [envAdmitsX, haK, hop, hv, hon, h1]
        · rw [e]; intro h; cases h
  · -- a customer
    cases hv : σ.veh with
    | none =>
      exfalso
      have : simStep p v1 σ a = σ.fail 2 := by simp [simStep, he, hN, haK, hv]
      rw [this] at he'; exact fail_err σ 2 he (by omega) he'
    | some d =>
      by_cases hs : a ∈ σ.served
      · exfalso
        have : simStep p v1 σ a = σ.fail 3 := by simp [simStep, he, hN, haK, hv, hs]
        rw [this] at he'; exact fail_err σ 3 he (by omega) he'
      · by_cases hp : a < p.K + p.h
        · by_cases hcap : (σ.onboard.length : Int) + 1 > p.cap d
          · exfalso
            have : simStep p v1 σ a = σ.fail 4 := by simp [simStep, he, hN, haK, hv, hs, hp, hcap, v1]
            rw [this] at he'; exact fail_err σ 4 he (by omega) he'
          · refine ⟨?_, ?_⟩
            · have : (σ.onboard.length : Int) + 1 ≤ p.cap d := by omega
              simp [envAdmitsX, haK, hv, hs, hp, vehCap, this]
            · have : (simStep p v1 σ a).veh = some d := by simp [simStep, he, hN, haK, hv, hs, hp, hcap, v1]
              intro h; rw [this] at h; cases h
        · by_cases hon : (a - p.h) ∈ σ.onboard
          · refine ⟨?_, ?_⟩
            · simp [envAdmitsX, haK, hv, hs, hp, hon]
            · have : (simStep p v1 σ a).veh = some d := by simp [simStep, he, hN, haK, hv, hs, hp, hon, v1]
              intro h; rw [this] at h; cases h
          · exfalso
            have : simStep p v1 σ a = σ.fail 5 := by simp [simStep, he, hN, haK, hv, hs, hp, hon, v1]
            rw [this] at he'; exact fail_err σ 5 he (by omega) he'

theorem step_err_sticky (p : Problem) (v : Variant) (σ : Sim) (a : Nat) (h : σ.err ≠ 0) : simStep p v σ a = σ := by
  simp [simStep, h]

theorem fold_err_sticky (p : Problem) (v : Variant) (as : List Nat) : ∀ σ : Sim, σ.err ≠ 0 →
    as.foldl (simStep p v) σ = σ := by
  induction as with
  | nil => intro σ _; rfl
  | cons a as ih => intro σ h; simp only [List.foldl_cons, step_err_sticky p v σ a h]; exact ih σ h

theorem simEnd_err_sticky (p : Problem) (v : Variant) (σ : Sim) (h : σ.err ≠ 0) : (simEnd p v σ).err ≠ 0 := by
  simp [simEnd, h]

theorem admitsAllX_of_legal (p : Problem) (as : List Nat) : ∀ σ : Sim, SimOk σ → σ.err = 0 →
    (as.foldl (simStep p v1) σ).err = 0 → canonAll p σ as = true → admitsAllX p σ as = true := by
  induction as with
  | nil => intro _ _ _ _ _; rfl
  | cons a as ih =>
    intro σ hok he hfin hcan
    simp only [canonAll, Bool.and_eq_true] at hcan
    simp only [List.foldl_cons] at hfin
    have he' : (simStep p v1 σ a).err = 0 := by
      apply Classical.byContradiction
      intro hne
      rw [fold_err_sticky p v1 as _ hne] at hfin
      exact hne hfin
    obtain ⟨h1, h2, h3⟩ := admits_of_legal p σ a hok he he' hcan.1
    simp only [admitsAllX, Bool.and_eq_true, decide_eq_true_eq]
    exact ⟨⟨h1, h2⟩, ih _ h3 he' hfin hcan.2⟩

/-- **C05 in full for the intended `current_depot` rule**: every feasible solution in canonical form in which every
depot's vehicle is started is a mask-confined run that ends finished — for any number of depots and any per-depot
capacities (so a larger capacity than depot 0's can be used and the way home is the own depot). -/
theorem run_of_feasible (i : Inst) (hwf : WFX i) {as : List Nat} (hf : Feasible (problemOf i) as)
    (hcan : canonAll (problemOf i) {} as = true) (hne : as ≠ [])
    (hstart : (List.range i.K).all (fun d => decide (d ∈ (simOf i v1 as).opened)) = true) :
    ∃ s, Run envFixed i (envFixed.reset i) as s ∧ envFixed.done i s = true := by
  simp only [Feasible, feasible, verdict, sim, beq_iff_eq] at hf
  have e : as.foldl (simStep (problemOf i) {}) {} = simOf i v1 as := rfl
  rw [e] at hf
  have hfold : (simOf i v1 as).err = 0 := by
    apply Classical.byContradiction
    intro hne'
    exact simEnd_err_sticky _ _ _ hne' hf
  have hadm := admitsAllX_of_legal (problemOf i) as {} (fun _ => rfl) rfl hfold hcan
  obtain ⟨s, hrun⟩ := (run_iff_admitsAllX i hwf as).mpr hadm
  obtain ⟨hi, hrel⟩ := sim_refines i hwf hrun
  obtain ⟨b, hr⟩ := hrel hne
  refine ⟨s, hrun, ?_⟩
  show s.done = true
  rw [done_iff_allDone i hwf hi hr]
  -- every vehicle started (hypothesis) and every customer served (end-of-list check of the Spec)
  have hserved : (List.range (2 * (problemOf i).h)).all (fun k => decide ((problemOf i).K + k ∈ (simOf i v1 as).served)) = true := by
    cases hs : (List.range (2 * (problemOf i).h)).all (fun k => decide ((problemOf i).K + k ∈ (simOf i v1 as).served)) with
    | true => rfl
    | false =>
      exfalso
      have : (simEnd (problemOf i) {} (simOf i v1 as)).err ≠ 0 := by
        simp only [simEnd, hfold, ne_eq, not_true_eq_false, if_false, hs, Bool.not_false, if_true]
        split
        · exact fail_err _ 8 hfold (by omega)
        · exact fail_err _ 8 hfold (by omega)
      exact this hf
  simp only [allDone, Bool.and_eq_true]
  exact ⟨hstart, hserved⟩

/-- Non-vacuity, on the instance whose feasible solution the code as it is hides (`cexHome`, 3 depots): the solution in
which the vehicle of depot 1 returns to depot 1 is feasible, canonical, starts every vehicle — and is a finished run here. -/
example : Feasible (problemOf cexHome) [0, 0, 1, 3, 4, 1, 2] ∧ canonAll (problemOf cexHome) {} [0, 0, 1, 3, 4, 1, 2] = true ∧
    (List.range cexHome.K).all (fun d => decide (d ∈ (simOf cexHome v1 [0, 0, 1, 3, 4, 1, 2]).opened)) = true := by
  refine ⟨by unfold Feasible; decide, by decide, by decide⟩

end Rl4co.Mdcpdp.Fixed
