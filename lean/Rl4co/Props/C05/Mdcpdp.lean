/-
C05 for MDCPDP.  The statement "every feasible solution in canonical form (vehicle of depot 0 first,
every depot's vehicle started) is admitted by the mask" is false of the code: because `current_depot`
never leaves depot 0, (a) a vehicle's return to its OWN depot is never offered — only node 0 is —
(`run_of_feasible_counterexample`), and (b) a vehicle whose depot has a larger capacity than depot 0
cannot use it (`run_of_feasible_capacity_counterexample`).  No completeness theorem is claimed; the
unit checks completeness by exhaustive enumeration on tiny instances (single depot and two depots with
equal capacities, where no solution is hidden).
-/
import Rl4co.Proofs.Mdcpdp
import Rl4co.Props.C01.Mdcpdp

namespace Rl4co.Mdcpdp
open Rl4co.Spec.Mdcpdp

/-- canonical form: the vehicle of depot 0 starts, and every depot's vehicle is started -/
def Canonical (p : Problem) (as : List Nat) : Prop :=
  as.head? = some 0 ∧ ∀ d, d < p.K → d ∈ as

def run_of_feasible_statement : Prop :=
  ∀ (i : Inst) (as : List Nat), WF i → (∀ d, d < i.K → 1 ≤ i.cap d) →
    Feasible (problemOf i) as → Canonical (problemOf i) as →
      ∃ s, Run env i (env.reset i) as s ∧ env.done i s = true

theorem not_run_of_not_admitted {i : Inst} {as : List Nat}
    (h : admitted env i (env.reset i) as = false) : ¬ ∃ s, Run env i (env.reset i) as s ∧ env.done i s = true := by
  rintro ⟨s, hr, _⟩
  have := ((run_iff_admitted _ _ _ _ _).1 hr).1
  rw [h] at this; cases this

/-- 3 depots, one order: `[0,0,1,3,4,1,2]` (the vehicle of depot 1 serves the order and returns to
depot 1) is feasible, but after `…3,4` the mask offers only node 0 as the way home. -/
theorem run_of_feasible_counterexample : ¬ run_of_feasible_statement := by
  intro h
  have := h cexHome [0, 0, 1, 3, 4, 1, 2] ⟨by decide, by decide, by decide, by decide, by decide, by decide⟩
    (by intro d _; simp [cexHome]) (by unfold Feasible; decide)
    ⟨rfl, by intro d hd; have : d < 3 := hd; (rcases d with _ | _ | _ | d) <;> simp <;> omega⟩
  exact not_run_of_not_admitted (by decide) this

/-- 2 depots with capacities 1 and 2, two orders -/
def cexCap2 : Inst :=
  { N := 6, K := 2, split0 := 4, KG := 2, cap := fun d => if d = 0 then 1 else 2,
    D := fun _ _ => 1, openMode := false, wNum := 0, wDen := 1 }

/-- The vehicle of depot 1 (capacity 2) may carry both orders at once, but the mask applies depot 0's
capacity 1 and hides the second pickup. -/
theorem run_of_feasible_capacity_counterexample : ¬ run_of_feasible_statement := by
  intro h
  have := h cexCap2 [0, 0, 1, 2, 3, 4, 5] ⟨by decide, by decide, by decide, by decide, by decide, by decide⟩
    (by intro d _; simp only [cexCap2]; split <;> omega) (by unfold Feasible; decide)
    ⟨rfl, by intro d hd; have : d < 2 := hd; (rcases d with _ | _ | d) <;> simp <;> omega⟩
  exact not_run_of_not_admitted (by decide) this

end Rl4co.Mdcpdp
