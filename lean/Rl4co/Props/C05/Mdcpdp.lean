/-
C05 for MDCPDP.  The statement "every feasible solution in canonical form (vehicle of depot 0 first,
every depot's vehicle started) is admitted by the mask" is false of the code: because `current_depot`
never leaves depot 0, (a) a vehicle's return to its OWN depot is never offered — only node 0 is —
(`run_of_feasible_counterexample`), and (b) a vehicle whose depot has a larger capacity than depot 0
cannot use it (`run_of_feasible_capacity_counterexample`).

What the mask DOES admit is characterised exactly (`run_iff_admitsAll`, `finished_iff`): a visit list is a
mask-confined run iff every visit is offered by `envAdmits`, a predicate on the state of the Spec's own
simulation (`mask_eq_admits`: in every reachable state the mask IS `envAdmits`).  Compared with what the
Spec accepts (with depot 0's capacity), `envAdmits` prunes: the return to a depot other than node 0,
the return when no depot is left, and waiting at the depot before everything is done.
-/
import Rl4co.Proofs.Mdcpdp
import Rl4co.Props.C01.Mdcpdp
import Rl4co.Props.C03.MdcpdpSim

namespace Rl4co.Mdcpdp
open Rl4co.Spec.Mdcpdp

/-- canonical form: the vehicle of depot 0 starts, and every depot's vehicle is started -/
def Canonical (p : Problem) (as : List Nat) : Prop :=
  as.head? = some 0 ∧ ∀ d, d < p.K → d ∈ as

def run_of_feasible_statement : Prop :=
  ∀ (i : Inst) (as : List Nat), WF i → (∀ d, d < i.K → 1 ≤ i.cap d) →
    Feasible (problemOf i) as → Canonical (problemOf i) as →
      ∃ s, Run env i (env.reset i) as s ∧ env.done i s = true

theorem not_run_of_not_admitted {i : Inst} {as : List Nat}
    (h : admitted env i (env.reset i) as = false) : ¬ ∃ s, Run env i (env.reset i) as s ∧ env.done i s = true := by
  rintro ⟨s, hr, _⟩
  have := ((run_iff_admitted _ _ _ _ _).1 hr).1
  rw [h] at this; cases this

/-- 3 depots, one order: `[0,0,1,3,4,1,2]` (the vehicle of depot 1 serves the order and returns to
depot 1) is feasible, but after `…3,4` the mask offers only node 0 as the way home. -/
theorem run_of_feasible_counterexample : ¬ run_of_feasible_statement := by
  intro h
  have := h cexHome [0, 0, 1, 3, 4, 1, 2] ⟨by decide, by decide, by decide, by decide, by decide, by decide⟩
    (by intro d _; simp [cexHome]) (by unfold Feasible; decide)
    ⟨rfl, by intro d hd; have : d < 3 := hd; (rcases d with _ | _ | _ | d) <;> simp <;> omega⟩
  exact not_run_of_not_admitted (by decide) this

/-- 2 depots with capacities 1 and 2, two orders -/
def cexCap2 : Inst :=
  { N := 6, K := 2, split0 := 4, KG := 2, cap := fun d => if d = 0 then 1 else 2,
    D := fun _ _ => 1, openMode := false, wNum := 0, wDen := 1 }

/-- The vehicle of depot 1 (capacity 2) may carry both orders at once, but the mask applies depot 0's
capacity 1 and hides the second pickup. -/
theorem run_of_feasible_capacity_counterexample : ¬ run_of_feasible_statement := by
  intro h
  have := h cexCap2 [0, 0, 1, 2, 3, 4, 5] ⟨by decide, by decide, by decide, by decide, by decide, by decide⟩
    (by intro d _; simp only [cexCap2]; split <;> omega) (by unfold Feasible; decide)
    ⟨rfl, by intro d hd; have : d < 2 := hd; (rcases d with _ | _ | d) <;> simp <;> omega⟩
  exact not_run_of_not_admitted (by decide) this

/-! ### the class of solutions the mask admits, in terms of the Spec's own simulation state -/

theorem anyIn_K_iff (i : Inst) {b : Bool} {s : State} {σ : Sim} (hr : Rel i b s σ) :
    anyIn i.K s.avail = depLeft (problemOf i) σ := by
  cases h : depLeft (problemOf i) σ with
  | true =>
    simp only [depLeft, List.any_eq_true, List.mem_range, decide_eq_true_eq] at h
    obtain ⟨d, hd, hno⟩ := h
    have hd' : d < i.K := hd
    apply anyIn_eq_true.mpr
    refine ⟨d, hd', ?_⟩
    cases hav : s.avail d with
    | true => rfl
    | false => exact absurd ((hr.opened d hd').mpr hav) hno
  | false =>
    apply anyIn_eq_false.mpr
    intro d hd
    cases hav : s.avail d with
    | false => rfl
    | true =>
      have : depLeft (problemOf i) σ = true := by
        simp only [depLeft, List.any_eq_true, List.mem_range, decide_eq_true_eq]
        refine ⟨d, hd, fun hmem => ?_⟩
        have := (hr.opened d hd).mp hmem
        rw [hav] at this; cases this
      rw [h] at this; cases this

theorem done_iff_allDone (i : Inst) (hwf : WF i) {b : Bool} {s : State} {σ : Sim} (hi : Inv i s)
    (hr : Rel i b s σ) : s.done = allDone (problemOf i) σ := by
  have hev := hwf.even
  rw [hi.doneEq]
  cases h : allDone (problemOf i) σ with
  | true =>
    simp only [allDone, Bool.and_eq_true, List.all_eq_true, List.mem_range, decide_eq_true_eq] at h
    have : anyIn i.N s.avail = false := by
      apply anyIn_eq_false.mpr
      intro j hj
      by_cases hjK : j < i.K
      · exact (hr.opened j hjK).mp (h.1 j hjK)
      · have := h.2 (j - i.K) (by show j - i.K < 2 * i.h; omega)
        have e : (problemOf i).K + (j - i.K) = j := by show i.K + (j - i.K) = j; omega
        rw [e] at this
        exact ((hr.served j).mp this).2.2
    simp [this]
  | false =>
    have : anyIn i.N s.avail = true := by
      cases hany : anyIn i.N s.avail with
      | true => rfl
      | false =>
        exfalso
        have hall := anyIn_eq_false.mp hany
        have : allDone (problemOf i) σ = true := by
          simp only [allDone, Bool.and_eq_true, List.all_eq_true, List.mem_range, decide_eq_true_eq]
          refine ⟨fun d hd => (hr.opened d hd).mpr (hall d (by have : d < i.K := hd; omega)), ?_⟩
          intro k hk
          have hk' : k < 2 * i.h := hk
          exact (hr.served (i.K + k)).mpr ⟨by omega, by omega, hall (i.K + k) (by omega)⟩
        rw [h] at this; cases this
    simp [this]

/-- **The mask is `envAdmits`** in every state after the first step. -/
theorem mask_eq_admits (i : Inst) (hwf : WF i) {b : Bool} {s : State} {σ : Sim} (hi : Inv i s)
    (hr : Rel i b s σ) (a : Nat) (ha : a < i.N) : s.mask a = envAdmits (problemOf i) σ a := by
  have hev := hwf.even
  have hk := hwf.kpos
  have hpd : i.pd = i.h + i.K := rfl
  have h0open : 0 ∈ σ.opened := (hr.opened 0 (by omega)).mpr hr.zero
  have hopne : σ.opened.isEmpty = false := by
    cases ho : σ.opened with
    | nil => rw [ho] at h0open; cases h0open
    | cons _ _ => rfl
  have hcarry : decide (s.carry > 0) = !σ.onboard.isEmpty := by
    have := hr.carry
    cases ho : σ.onboard with
    | nil => rw [ho] at this; simp at this; simp [← this]
    | cons x xs => rw [ho] at this; simp at this; simp; omega
  have hvb : σ.veh.isSome = !b ∧ σ.veh.isNone = b := by
    cases b with
    | true => rw [hr.veh.1 rfl]; exact ⟨rfl, rfl⟩
    | false => obtain ⟨d, hd⟩ := hr.veh.2 rfl; rw [hd]; exact ⟨rfl, rfl⟩
  have hdone := done_iff_allDone i hwf hi hr
  have hany := anyIn_K_iff i hr
  rw [hr.mask]
  by_cases haK : a < i.K
  · have haK' : a < (problemOf i).K := haK
    by_cases ha0 : a = 0
    · subst ha0
      simp only [maskOf, capFlagOf_eq, carryFlagOf_eq, lastDepotOf_eq, haK, if_true, envAdmits, haK',
        hcarry, hany, hdone, hvb.1, hvb.2, hopne, decide_true, Bool.true_and]
      have : decide (0 ∉ σ.opened) = false := by simp [h0open]
      simp [this]
      cases b <;> cases σ.onboard.isEmpty <;> cases depLeft (problemOf i) σ <;> cases allDone (problemOf i) σ <;> rfl
    · have hav : s.avail a = decide (a ∉ σ.opened) := by
        cases h : s.avail a with
        | false => simp [(hr.opened a haK).mpr h]
        | true =>
          have : a ∉ σ.opened := fun hm => by have := (hr.opened a haK).mp hm; rw [h] at this; cases this
          simp [this]
      have htd := hi.tdLow a (by omega)
      have hdl : s.avail a = true → depLeft (problemOf i) σ = true := by
        intro h; rw [← hany]; exact anyIn_eq_true.mpr ⟨a, haK, h⟩
      simp only [maskOf, capFlagOf_eq, carryFlagOf_eq, lastDepotOf_eq, haK, if_true, ha0, if_false, envAdmits, haK',
        hcarry, hany, htd, hvb.2, hopne, hav, decide_false, Bool.false_and, Bool.or_false, Bool.not_false,
        Bool.true_or, Bool.and_true, Bool.not_not]
      rw [hav] at hdl
      cases hd : decide (a ∉ σ.opened) <;> cases b <;> cases σ.onboard.isEmpty <;> simp_all
  · have haK' : ¬ a < (problemOf i).K := haK
    have hav : s.avail a = decide (a ∉ σ.served) := by
      cases h : s.avail a with
      | false => simp [(hr.served a).mpr ⟨by omega, ha, h⟩]
      | true =>
        have : a ∉ σ.served := fun hm => by have := ((hr.served a).mp hm).2.2; rw [h] at this; cases this
        simp [this]
    by_cases hp : a < i.pd
    · have hp' : a < (problemOf i).K + (problemOf i).h := by show a < i.K + i.h; omega
      have htd := hi.tdLow a (by omega)
      have hcap : (!decide (s.carry ≥ i.cap 0)) = decide ((σ.onboard.length : Int) + 1 ≤ (problemOf i).cap 0) := by
        have := hr.carry
        show _ = decide ((σ.onboard.length : Int) + 1 ≤ i.cap 0)
        by_cases hc : s.carry ≥ i.cap 0
        · have : ¬ ((σ.onboard.length : Int) + 1 ≤ i.cap 0) := by omega
          simp [hc, this]
        · have : (σ.onboard.length : Int) + 1 ≤ i.cap 0 := by omega
          simp [hc, this]
      simp only [maskOf, capFlagOf_eq, carryFlagOf_eq, lastDepotOf_eq, haK, if_false, hp, if_true, envAdmits, haK',
        hp', hav, htd, hcap, hvb.1, Bool.and_true]
      cases decide (a ∉ σ.served) <;> cases b <;> cases decide ((σ.onboard.length : Int) + 1 ≤ (problemOf i).cap 0) <;> rfl
    · have hp' : ¬ a < (problemOf i).K + (problemOf i).h := by show ¬ a < i.K + i.h; omega
      have htd : s.avail a = true → s.toDeliver a = decide ((a - (problemOf i).h) ∈ σ.onboard) := by
        intro hava
        have := hi.tdDel (a - i.h) (by omega) (by omega)
        have e : a - i.h + i.h = a := by omega
        rw [e] at this
        rw [this]
        show _ = decide ((a - i.h) ∈ σ.onboard)
        cases hpk : s.avail (a - i.h) with
        | true =>
          have : (a - i.h) ∉ σ.onboard := fun hm => by have := ((hr.onboard _).mp hm).2.2.1; rw [hpk] at this; cases this
          simp [this]
        | false =>
          have : (a - i.h) ∈ σ.onboard := (hr.onboard _).mpr ⟨by omega, by omega, hpk, by rw [e]; exact hava⟩
          simp [this]
      simp only [maskOf, capFlagOf_eq, carryFlagOf_eq, lastDepotOf_eq, haK, if_false, hp, envAdmits, haK', hp', hvb.1]
      cases hava : s.avail a with
      | false => rw [hav] at hava; simp [hava]
      | true => rw [htd hava]; rw [hav] at hava; simp [hava]; cases b <;> simp

theorem reset_mask_eq_admits (i : Inst) (hwf : WF i) (a : Nat) :
    (reset i).mask a = envAdmits (problemOf i) {} a := by
  have hk := hwf.kpos
  have hnd : allDone (problemOf i) {} = false := by
    simp only [allDone, Bool.and_eq_false_iff]
    left
    simp only [List.all_eq_false, List.mem_range]
    exact ⟨0, hk, by simp⟩
  by_cases haK : a < i.K
  · have haK' : a < (problemOf i).K := haK
    simp [reset, envAdmits, haK', hnd]
  · have haK' : ¬ a < (problemOf i).K := haK
    have : a ≠ 0 := by omega
    simp [reset, envAdmits, haK', this]

/-- an environment state together with the simulation state of its history -/
def Tied (i : Inst) (s : State) (σ : Sim) : Prop :=
  (s = reset i ∧ σ = {}) ∨ (Inv i s ∧ ∃ b, Rel i b s σ)

theorem tied_mask (i : Inst) (hwf : WF i) {s : State} {σ : Sim} (ht : Tied i s σ) (a : Nat) (ha : a < i.N) :
    s.mask a = envAdmits (problemOf i) σ a := by
  rcases ht with ⟨h1, h2⟩ | ⟨hi, b, hr⟩
  · subst h1 h2; exact reset_mask_eq_admits i hwf a
  · exact mask_eq_admits i hwf hi hr a ha

theorem tied_step (i : Inst) (hwf : WF i) {s : State} {σ : Sim} (ht : Tied i s σ) (a : Nat) (ha : a < i.N)
    (hm : s.mask a = true) : Tied i (step i s a) (simStep (problemOf i) v0 σ a) := by
  rcases ht with ⟨h1, h2⟩ | ⟨hi, b, hr⟩
  · subst h1 h2
    have ha0 : a = 0 := by simpa [reset] using hm
    subst ha0
    exact Or.inr ⟨inv_step hwf (inv_reset i hwf) ha hm, false, rel_first i hwf⟩
  · exact Or.inr ⟨inv_step hwf hi ha hm, _, rel_step i hwf hi hr ha hm⟩

theorem run_iff_admitsAll_from (i : Inst) (hwf : WF i) (as : List Nat) : ∀ {s : State} {σ : Sim}, Tied i s σ →
    ((∃ s', Run env i s as s') ↔ admitsAll (problemOf i) σ as = true) := by
  have hN := pN i hwf
  induction as with
  | nil => intro s σ _; exact ⟨fun _ => rfl, fun _ => ⟨s, Run.nil s⟩⟩
  | cons a as ih =>
    intro s σ ht
    constructor
    · rintro ⟨s', hrun⟩
      cases hrun with
      | cons ha hm hrest =>
        have ha' : a < i.N := ha
        have hm' : s.mask a = true := hm
        have := (ih (tied_step i hwf ht a ha' hm')).mp ⟨s', hrest⟩
        simp only [admitsAll, Bool.and_eq_true, decide_eq_true_eq, hN]
        exact ⟨⟨ha', by rw [← tied_mask i hwf ht a ha']; exact hm'⟩, this⟩
    · intro h
      simp only [admitsAll, Bool.and_eq_true, decide_eq_true_eq, hN] at h
      obtain ⟨⟨ha, hadm⟩, hrest⟩ := h
      have hm : s.mask a = true := by rw [tied_mask i hwf ht a ha]; exact hadm
      obtain ⟨s', hrun⟩ := (ih (tied_step i hwf ht a ha hm)).mpr hrest
      exact ⟨s', Run.cons ha hm hrun⟩

/-- **C05 (MDCPDP): the class of visit lists the mask admits, as an iff** (solo row, well-formed
instance, start_mode "order"). -/
theorem run_iff_admitsAll (i : Inst) (hwf : WF i) (as : List Nat) :
    (∃ s, Run env i (env.reset i) as s) ↔ admitsAll (problemOf i) {} as = true :=
  run_iff_admitsAll_from i hwf as (Or.inl ⟨rfl, rfl⟩)

/-- … and a mask-confined run is finished iff every depot's vehicle was started and every customer served. -/
theorem finished_iff (i : Inst) (hwf : WF i) (as : List Nat) :
    (∃ s, Run env i (env.reset i) as s ∧ env.done i s = true) ↔
      (admitsAll (problemOf i) {} as = true ∧ as ≠ [] ∧ allDone (problemOf i) (simOf i v0 as) = true) := by
  constructor
  · rintro ⟨s, hrun, hd⟩
    have hne : as ≠ [] := by
      intro he; subst he
      cases hrun; simp [env, reset] at hd
    obtain ⟨hi, hrel⟩ := sim_refines i hwf hrun
    obtain ⟨b, hr⟩ := hrel hne
    refine ⟨(run_iff_admitsAll i hwf as).mp ⟨s, hrun⟩, hne, ?_⟩
    rw [← done_iff_allDone i hwf hi hr]; exact hd
  · rintro ⟨hadm, hne, hall⟩
    obtain ⟨s, hrun⟩ := (run_iff_admitsAll i hwf as).mpr hadm
    obtain ⟨hi, hrel⟩ := sim_refines i hwf hrun
    obtain ⟨b, hr⟩ := hrel hne
    exact ⟨s, hrun, by show s.done = true; rw [done_iff_allDone i hwf hi hr]; exact hall⟩

/-- Non-vacuity: the two-tour episode of `cexMM` is admitted and finished; the feasible solution in which
the vehicle of depot 1 returns to depot 1 (`cexHome`) is not admitted. -/
example : admitsAll (problemOf cexMM) {} [0, 2, 4, 0, 1, 3, 5] = true ∧
    allDone (problemOf cexMM) (simOf cexMM v0 [0, 2, 4, 0, 1, 3, 5]) = true := by decide
example : admitsAll (problemOf cexHome) {} [0, 0, 1, 3, 4, 1, 2] = false := by decide

end Rl4co.Mdcpdp
