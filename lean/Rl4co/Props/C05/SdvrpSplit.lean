/-
C05 for SDVRP at the level of split solutions (visit sequence + amounts).  Among the valid splits of the
independent Spec, the environment reaches exactly the SATURATING ones: every customer visit either completes
the customer's remaining demand or fills the vehicle (the analogue of the non-delay class of a scheduling
problem) — in canonical shape (no leading / repeated depot visit, positive amounts, ending at a customer).
`saturating_iff_greedy`: a split is saturating iff its amounts are those of the greedy rule;
`split_reachable_iff`: (finished run of the decoding loop on `as`, delivering `qs`) ⇔ (`as.zip qs` is a valid
split, saturating, positive, canonical shape).
-/
import Rl4co.Props.C05.SdvrpClass

namespace Rl4co.Sdvrp
open Rl4co.Spec.Sdvrp

/-- every customer visit completes the customer or fills the vehicle (amounts within both limits) -/
def saturating (i : Inst) : (Nat → Int) → Int → List (Nat × Int) → Prop
  | _, _, [] => True
  | rem, used, (a, q) :: r =>
    if a = 0 then q = 0 ∧ saturating i rem 0 r
    else q ≤ rem a ∧ used + q ≤ i.cap ∧ (q = rem a ∨ used + q = i.cap) ∧
         saturating i (upd rem a (rem a - q)) (used + q) r

theorem saturating_iff_greedy (i : Inst) (as : List Nat) : ∀ (qs : List Int) rem used, qs.length = as.length →
    (saturating i rem used (as.zip qs) ↔ qs = greedy i rem used as) := by
  induction as with
  | nil =>
    intro qs rem used hl
    have : qs = [] := by simpa using hl
    subst this; simp [saturating, greedy]
  | cons a as ih =>
    intro qs rem used hl
    cases qs with
    | nil => simp at hl
    | cons q qs =>
      have hl' : qs.length = as.length := by simpa using hl
      by_cases h0 : a = 0
      · subst h0
        simp only [List.zip_cons_cons, saturating, if_true, greedy, List.cons.injEq]
        rw [ih qs rem 0 hl']
      · simp only [List.zip_cons_cons, saturating, h0, if_false, greedy, List.cons.injEq]
        constructor
        · rintro ⟨h1, h2, h3, h4⟩
          have hq : q = min (rem a) (i.cap - used) := by omega
          subst hq
          exact ⟨rfl, (ih qs _ _ hl').1 h4⟩
        · rintro ⟨hq, hr⟩
          subst hq
          refine ⟨by omega, by omega, by omega, (ih qs _ _ hl').2 hr⟩

/-- **which split solutions the mask reaches** -/
theorem split_reachable_iff (i : Inst) (hw : WFpos i) (hpos : ∃ j, 1 ≤ j ∧ j ≤ i.n ∧ 0 < i.demand j)
    (as : List Nat) (qs : List Int) (hl : qs.length = as.length) :
    ((∃ s, RunND env i (env.reset i) as s ∧ env.done i s = true) ∧ qs = greedy i i.demand 0 as) ↔
      (as ≠ [] ∧ ValidSplit i (as.zip qs) ∧ saturating i i.demand 0 (as.zip qs) ∧
        allPositive (as.zip qs) = true ∧ as.head? ≠ some 0 ∧ noDoubleDepot as = true ∧ as.getLast? ≠ some 0) := by
  rw [complete_iff i hw hpos as, saturating_iff_greedy i as qs i.demand 0 hl]
  constructor
  · rintro ⟨⟨hne, hgf, hcan, hlast⟩, hq⟩
    subst hq
    simp only [canonical, Bool.and_eq_true, bne_iff_ne, ne_eq] at hcan
    exact ⟨hne, (validSplit_iff i _).1 hgf, rfl, hcan.2, hcan.1.1, hcan.1.2, hlast⟩
  · rintro ⟨hne, hv, hq, hp, hh, hnd, hlast⟩
    subst hq
    refine ⟨⟨hne, (validSplit_iff i _).2 hv, ?_, hlast⟩, rfl⟩
    simp only [canonical, Bool.and_eq_true, bne_iff_ne, ne_eq]
    exact ⟨⟨hh, hnd⟩, hp⟩

/-- Non-vacuity: the C01 example with its amounts 4, 4, –, 8 (customer 2 split: the first visit fills the vehicle) -/
example : saturating exInst exInst.demand 0 ([1, 2, 0, 2].zip [4, 4, 0, 8]) := by
  simp [saturating, exInst, upd]
/-- … and a valid split that is NOT saturating (3 + 5 instead of 4 + 4 for customer 2 is not even within demand
order; here: customer 2 receives only 3 although 4 fit): never produced by the environment -/
example : ¬ saturating exInst exInst.demand 0 ([1, 2, 0, 2].zip [4, 3, 0, 9]) := by
  simp [saturating, exInst, upd]

end Rl4co.Sdvrp
