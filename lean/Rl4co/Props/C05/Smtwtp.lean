/-
C05 for SMTWTP: every order of the jobs `1..n` is a mask-confined finished episode; with C07 the set
of complete mask-confined episodes IS the set of schedules, so the optimum stays reachable.
-/
import Rl4co.Props.C03.Smtwtp
import Rl4co.Proofs.TspfamOpt
import Rl4co.Proofs.TspfamSmtwtp
import Rl4co.Props.C07.Smtwtp

namespace Rl4co.Smtwtp
open Rl4co.Tspfam

/-- **C05 (SMTWTP).** -/
theorem run_of_feasible (i : Inst) (hpos : 0 < i.n) {as : List Nat}
    (hf : Spec.Smtwtp.Feasible i.n as) : ∃ s, Run env i (env.reset i) as s ∧ env.done i s = true := by
  have hrun := availEnv.run_of_nodup mask_eq_avail (i := i) as (env.reset i) hf.nodup
    (fun a ha => by have := hf.range a ha; simp only [env]; omega)
    (fun a ha => by have := hf.range a ha; simp only [availEnv, env, reset, decide_eq_true_eq]; omega)
  exact ⟨_, hrun, (availEnv.run_length hpos hrun).mpr hf.length_eq⟩

theorem complete_run_iff_feasible (i : Inst) (hpos : 0 < i.n) (as : List Nat) :
    (∃ s, Run env i (env.reset i) as s ∧ env.done i s = true) ↔ Spec.Smtwtp.Feasible i.n as :=
  ⟨fun ⟨_, h, hd⟩ => perm_of_run i h hd, run_of_feasible i hpos⟩

example : Spec.Smtwtp.Feasible 3 [2, 3, 1] := (Spec.Smtwtp.feasible_iff 3 [2, 3, 1]).mp (by decide)

/-- **C05 (SMTWTP), the optimum stays reachable**: some complete mask-confined episode attains the minimum
total weighted tardiness over all job orders, and no complete episode has a better reward. -/
theorem opt_reachable (i : Inst) (hpos : 0 < i.n) :
    ∃ as s, Run env i (env.reset i) as s ∧ env.done i s = true ∧
      (∀ bs, Spec.Smtwtp.Feasible i.n bs →
        Spec.Smtwtp.objective i.p i.d i.w as ≤ Spec.Smtwtp.objective i.p i.d i.w bs) ∧
      (∀ bs t, Run env i (env.reset i) bs t → env.done i t = true → reward i bs ≤ reward i as) := by
  obtain ⟨as, hperm, hmin⟩ := exists_min_perm (List.range' 1 i.n) (Spec.Smtwtp.objective i.p i.d i.w)
  have hfeas : ∀ bs, Spec.Smtwtp.Feasible i.n bs →
      Spec.Smtwtp.objective i.p i.d i.w as ≤ Spec.Smtwtp.objective i.p i.d i.w bs :=
    fun bs hb => hmin bs ((Spec.Smtwtp.feasible_iff_perm i.n bs).mp hb)
  obtain ⟨s, hrun, hd⟩ := run_of_feasible i hpos ((Spec.Smtwtp.feasible_iff_perm i.n as).mpr hperm)
  refine ⟨as, s, hrun, hd, hfeas, ?_⟩
  intro bs t hr hdt
  rw [reward_eq_objective, reward_eq_objective]
  have := hfeas bs (perm_of_run i hr hdt); omega

end Rl4co.Smtwtp
