/-
C05 for FJSP / JSSP — which schedules can the action space express, and is the optimum among them?

* The FULL statement `opt_reachable_statement` ("for every valid schedule some mask-confined finished
  episode is at least as good") is FALSE for `mask_no_ops = true`, the environments' default:
  `optimum_hidden_when_waits_masked` (instance `exDelay`, 2 jobs × 2 machines: a valid schedule with
  makespan 12 exists, every finished mask-confined episode has makespan ≥ 21 — proved by exhausting the
  model's mask with `bestDone` up to the step bound of C02).  With waiting masked the time only
  advances when nothing is schedulable, so exactly the *non-delay* schedules are reachable (checked
  exhaustively against the real env by the harness), and the optimum need not be non-delay.
* For `mask_no_ops = false` the mask hides nothing: `schedule_reachable` — EVERY valid schedule whose
  operations start at event times (0 or a completion time; in particular every semi-active schedule,
  hence an optimal one) is reproduced exactly by a mask-confined finished episode with reward
  −makespan; `opt_reachable_partial` is the corresponding part of the full statement.
* For `mask_no_ops = true`: `nondelay_schedule_reachable` — every valid NON-DELAY schedule is
  reproduced exactly, i.e. the default mask hides nothing of the class it is meant to express; the
  converse (only non-delay schedules are reachable) is checked exhaustively by the harness.
-/
import Rl4co.Props.C02.Fjsp
import Rl4co.Props.C07.Fjsp

namespace Rl4co.Fjsp
open Rl4co.Spec.Fjsp (isReal opOf Sched ValidSchedule)

/-! ### exhaustive search through the model's mask (executable, used for the counterexample) -/

def optMax : Option Int → Option Int → Option Int
  | none, y => y
  | x, none => x
  | some x, some y => some (if x ≤ y then y else x)

/-- best of `g a` over `a < n` -/
def bestOver (g : Nat → Option Int) : Nat → Option Int
  | 0 => none
  | n + 1 => optMax (bestOver g n) (g n)

/-- best reward over all mask-confined runs of at most `d` steps from `s` that end finished -/
def bestDone (i : Inst) : Nat → State → Option Int
  | 0, s => if s.done then some (reward i s) else none
  | d + 1, s =>
    if s.done then some (reward i s)
    else bestOver (fun a => if mask i s a then bestDone i d (step i s a) else none) (nAct i)

theorem optMax_ge_left {x y : Option Int} {r : Int} (h : x = some r) : ∃ r', optMax x y = some r' ∧ r ≤ r' := by
  subst h
  cases y with
  | none => exact ⟨r, rfl, by omega⟩
  | some y => simp only [optMax]; split <;> exact ⟨_, rfl, by omega⟩

theorem optMax_ge_right {x y : Option Int} {r : Int} (h : y = some r) : ∃ r', optMax x y = some r' ∧ r ≤ r' := by
  subst h
  cases x with
  | none => exact ⟨r, rfl, by omega⟩
  | some x => simp only [optMax]; split <;> exact ⟨_, rfl, by omega⟩

theorem bestOver_ge {g : Nat → Option Int} {n a : Nat} {r : Int} (ha : a < n) (h : g a = some r) :
    ∃ r', bestOver g n = some r' ∧ r ≤ r' := by
  induction n with
  | zero => omega
  | succ n ih =>
    simp only [bestOver]
    by_cases han : a = n
    · subst han; exact optMax_ge_right h
    · obtain ⟨r1, h1, hle⟩ := ih (by omega)
      obtain ⟨r2, h2, hle2⟩ := optMax_ge_left (y := g n) h1
      exact ⟨r2, h2, by omega⟩

theorem bestDone_ge (i : Inst) {s s' : State} {as : List Nat} (h : RunND env i s as s')
    (hd : s'.done = true) : ∀ d, as.length ≤ d → ∃ r, bestDone i d s = some r ∧ reward i s' ≤ r := by
  induction h with
  | nil s =>
    intro d _
    cases d <;> exact ⟨reward i s, by simp [bestDone, hd], by omega⟩
  | @cons s s' a as hnd ha hm _ ih =>
    intro d hlen
    cases d with
    | zero => simp at hlen
    | succ d =>
      obtain ⟨r, hr, hle⟩ := ih hd d (by simp at hlen; omega)
      simp only [env] at hnd ha hm
      simp only [bestDone, hnd, Bool.false_eq_true, if_false]
      have : (fun a => if mask i s a = true then bestDone i d (step i s a) else none) a = some r := by
        simp only [hm, if_true]; exact hr
      obtain ⟨r', h1, h2⟩ := bestOver_ge
        (g := fun a => if mask i s a = true then bestDone i d (step i s a) else none) ha this
      exact ⟨r', h1, by omega⟩

/-- a finished run can be cut at its first finished state (later steps are the identity) -/
theorem runND_of_run (i : Inst) {s s' : State} {as : List Nat} (h : Run env i s as s')
    (hd : s'.done = true) : ∃ as', RunND env i s as' s' := by
  induction h with
  | nil s => exact ⟨[], RunND.nil s⟩
  | @cons s s' a as ha hm hrun ih =>
    cases hds : s.done with
    | true =>
      -- all further steps are the identity
      have hid : ∀ (s1 s2 : State) (bs : List Nat), Run env i s1 bs s2 → s1.done = true → s2 = s1 := by
        intro s1 s2 bs hr
        induction hr with
        | nil _ => intro _; rfl
        | @cons t t' b bs _ _ _ ih' =>
          intro hdt
          have : env.step i t b = t := step_of_done i t b hdt
          rw [this] at ih'
          exact ih' hdt
      have h1 : env.step i s a = s := step_of_done i s a hds
      rw [h1] at hrun
      have := hid s s' as hrun hds
      subst this
      exact ⟨[], RunND.nil _⟩
    | false =>
      obtain ⟨as', h'⟩ := ih hd
      exact ⟨a :: as', RunND.cons hds ha hm h'⟩

/-- every finished mask-confined run from reset has reward at most `bestDone` with depth `2·#ops` -/
theorem reward_le_bestDone (i : Inst) (hwf : WF i) {as : List Nat} {s : State}
    (h : Run env i (env.reset i) as s) (hd : s.done = true) :
    ∃ r, bestDone i (2 * nReal i) (reset i) = some r ∧ reward i s ≤ r := by
  obtain ⟨as', h'⟩ := runND_of_run i h hd
  exact bestDone_ge i h' hd _ (steps_le i hwf as' s h')

/-! ### C05: the full statement, and its failure when waiting is masked -/

/-- **C05, full strength**: for every well-formed instance, whatever valid schedule exists, some
mask-confined finished episode is at least as good — "the optimum stays reachable through the mask". -/
def opt_reachable_statement : Prop :=
  ∀ i : Inst, WF i → ∀ (σ : Sched) (mk : Int), ValidSchedule i σ mk →
    ∃ as s, Run env i (env.reset i) as s ∧ s.done = true ∧ - reward i s ≤ mk

/-- the instance on which delaying pays: job 0 = one long operation on machine 0; job 1 = short on
machine 1, short on machine 0, long on machine 1; `mask_no_ops = true` (the environments' default) -/
def exDelay : Inst :=
  { J := 2, M := 2, N := 4, startOp := fun j => if j = 0 then 0 else 1, endOp := fun j => if j = 0 then 0 else 3,
    proc := fun m o => if m = 0 then (if o = 0 then 10 else if o = 2 then 1 else 0)
                       else (if o = 1 then 1 else if o = 3 then 10 else 0),
    pad := fun _ => false, maskNoOps := true, jssp := false }

theorem exDelay_wf : WF exDelay where
  jpos := by decide
  rng := by decide
  disj := by
    intro j j' hj hj' h
    simp only [exDelay] at hj hj' ⊢
    have h0 : j = 0 := by omega
    have h1 : j' = 1 := by omega
    subst h0; subst h1; decide
  procNN := by
    intro m o _ _; simp only [exDelay]; repeat' split
    all_goals omega
  elig := by
    intro j hj o h1 h2
    simp only [exDelay] at hj h1 h2 ⊢
    by_cases hj0 : j = 0
    · subst hj0
      have : o = 0 := by simpa using h2
      subst this; exact ⟨0, by omega, by decide⟩
    · simp only [hj0, if_false] at h1 h2
      by_cases ho : o = 2
      · subst ho; exact ⟨0, by omega, by decide⟩
      · refine ⟨1, by omega, ?_⟩
        have : o = 1 ∨ o = 3 := by omega
        rcases this with h | h <;> subst h <;> decide
  uniq := by intro h; simp [exDelay] at h
  padIff := by decide

/-- the optimal schedule (makespan 12): machine 0 is kept idle during [0,1) -/
def exDelayOpt : Sched :=
  { start := fun o => if o = 0 then 2 else if o = 1 then 0 else if o = 2 then 1 else 2,
    finish := fun o => if o = 0 then 12 else if o = 1 then 1 else if o = 2 then 2 else 12,
    assign := fun m o => if m = 0 then (o == 0 || o == 2) else (o == 1 || o == 3) }

theorem exDelayOpt_valid : ValidSchedule exDelay exDelayOpt 12 :=
  (Spec.Fjsp.valid_iff _ _ _).mp (by decide)

theorem exDelay_best : bestDone exDelay (2 * nReal exDelay) (reset exDelay) = some (-21) := by decide

/-- **C05 fails for `mask_no_ops = true`**: on `exDelay` a valid schedule of makespan 12 exists, but
every finished mask-confined episode has makespan ≥ 21. -/
theorem optimum_hidden_when_waits_masked : ¬ opt_reachable_statement := by
  intro h
  obtain ⟨as, s, hrun, hd, hle⟩ := h exDelay exDelay_wf exDelayOpt 12 exDelayOpt_valid
  obtain ⟨r, hr, hle2⟩ := reward_le_bestDone exDelay exDelay_wf hrun hd
  rw [exDelay_best] at hr
  simp at hr
  omega

/-! ### C05 for `mask_no_ops = false`: every event-aligned valid schedule is reproduced by a run -/

/-- every real operation starts at time 0 or at the completion time of some real operation
(true of every semi-active schedule: there an operation starts when its job predecessor or its
machine predecessor completes, or at 0) -/
def EventAligned (i : Inst) (σ : Sched) : Prop :=
  ∀ o, o < i.N → isReal i o = true →
    σ.start o = 0 ∨ ∃ o', o' < i.N ∧ isReal i o' = true ∧ σ.finish o' = σ.start o

/-- the state has built the part of `σ` that starts before (or, partly, at) the current time -/
structure Agree (i : Inst) (σ : Sched) (s : State) : Prop where
  sch : ∀ o, o < i.N → isReal i o = true → s.sched o = true →
    s.start o = σ.start o ∧ s.finish o = σ.finish o ∧ (∀ m, m < i.M → s.assign m o = σ.assign m o)
  uns : ∀ o, o < i.N → isReal i o = true → s.sched o = false → s.time ≤ σ.start o

theorem cnt_one_unique {n : Nat} {p : Nat → Bool} (h : cnt n p = 1) {a b : Nat} (ha : a < n) (hb : b < n)
    (hpa : p a = true) (hpb : p b = true) : a = b := by
  apply Classical.byContradiction
  intro hne
  have h1 := cnt_upd_false ha hpa
  rw [h] at h1
  have h0 : cnt n (upd p a false) = 0 := by omega
  have := cnt_eq_zero.mp h0 b hb
  rw [upd_other _ _ _ _ (fun h => hne h.symm)] at this
  rw [hpb] at this; simp at this

theorem real_of_job {i : Inst} {j o : Nat} (hj : j < i.J) (h1 : i.startOp j ≤ o) (h2 : o ≤ i.endOp j) :
    isReal i o = true := anyUpTo_iff.mpr ⟨j, hj, by simp [opOf, h1, h2]⟩

theorem job_of_real {i : Inst} {o : Nat} (h : isReal i o = true) :
    ∃ j, j < i.J ∧ i.startOp j ≤ o ∧ o ≤ i.endOp j := by
  obtain ⟨j, hj, hop⟩ := anyUpTo_iff.mp h
  simp only [opOf, Bool.and_eq_true, decide_eq_true_eq] at hop
  exact ⟨j, hj, hop.1, hop.2⟩

/-- the machine `σ` runs a real operation on, with the facts validity gives about it -/
theorem sigma_machine {i : Inst} {σ : Sched} {mk : Int} (hv : ValidSchedule i σ mk) {o : Nat} (ho : o < i.N)
    (hr : isReal i o = true) :
    ∃ m, m < i.M ∧ σ.assign m o = true ∧ (∀ m', m' < i.M → σ.assign m' o = true → m' = m) ∧
      0 < i.proc m o ∧ σ.finish o = σ.start o + i.proc m o ∧ 0 ≤ σ.start o := by
  obtain ⟨hc, h0, hall⟩ := hv.once o ho hr
  have hpos : 0 < cnt i.M (fun m => σ.assign m o) := by omega
  obtain ⟨m, hm, ha⟩ := cnt_pos.mp hpos
  obtain ⟨hp, hf⟩ := hall m hm ha
  exact ⟨m, hm, ha, fun m' hm' ha' => cnt_one_unique hc hm' hm ha' ha, hp, hf, h0⟩

/-- if an unscheduled operation starts (in `σ`) later than now, some already scheduled operation is
still running and completes no later than that start — by descending along `EventAligned` -/
theorem running_before {i : Inst} {σ : Sched} {mk : Int} (hv : ValidSchedule i σ mk) (hea : EventAligned i σ)
    {s : State} (hinv : Inv i s) (hag : Agree i σ s)
    (hnow : ∀ o, o < i.N → isReal i o = true → s.sched o = false → σ.start o ≠ s.time) :
    ∀ (n : Nat) (o : Nat), o < i.N → isReal i o = true → s.sched o = false → σ.start o - s.time ≤ n →
      ∃ o', o' < i.N ∧ isReal i o' = true ∧ s.sched o' = true ∧ s.time < σ.finish o' ∧ σ.finish o' ≤ σ.start o := by
  intro n
  induction n with
  | zero =>
    intro o ho hr hs hle
    have h1 := hag.uns o ho hr hs
    have h2 := hnow o ho hr hs
    omega
  | succ n ih =>
    intro o ho hr hs hle
    have h1 := hag.uns o ho hr hs
    have h2 := hnow o ho hr hs
    rcases hea o ho hr with h0 | ⟨o', ho', hr', hf'⟩
    · have := hinv.time0; omega
    · cases hs' : s.sched o' with
      | true => exact ⟨o', ho', hr', hs', by omega, by omega⟩
      | false =>
        have h3 := hag.uns o' ho' hr' hs'
        have h4 := hnow o' ho' hr' hs'
        obtain ⟨m, _, _, _, hp, hfin, _⟩ := sigma_machine hv ho' hr'
        obtain ⟨o'', ho'', hr'', hs'', hlt, hle''⟩ := ih o' ho' hr' hs' (by omega)
        exact ⟨o'', ho'', hr'', hs'', hlt, by omega⟩

/-- in `σ`, a scheduled operation that is still running keeps its machine busy exactly until it completes,
and the next event time of the environment is not later -/
theorem nextTime_le_running {i : Inst} {σ : Sched} {s : State} (hinv : Inv i s) (hag : Agree i σ s)
    {t' : Int} (ht : nextTime i.M s.busy s.time = some t') {o : Nat} (ho : o < i.N) (hr : isReal i o = true)
    (hs : s.sched o = true) (hrun : s.time < σ.finish o) : t' ≤ σ.finish o := by
  obtain ⟨_, hfin, _⟩ := hag.sch o ho hr hs
  obtain ⟨m, hm, ha, _, _, _, _, _⟩ := hinv.asg o hs
  have hb := busy_eq_finish_of_running hinv hs ha (by omega)
  have := (nextTime_some ht).2.2 m hm (by omega)
  omega

/-- with waiting allowed a step is just `_transit_to_next_time` or `_make_step` (the loop is idle) -/
theorem step_wait_allowed {i : Inst} (hwf : WF i) (hmno : i.maskNoOps = false) {s : State} (h : Inv2 i s)
    (hd : s.done = false) {a : Nat} (ha : a < nAct i) (hm : mask i s a = true) :
    step i s a = if a = 0 then transit i s else makeStep i s (a - 1) := by
  have h2 := inv2_step hwf h ha hm
  obtain ⟨hinv, _⟩ := h
  rw [step_eq]
  simp only [hd, Bool.false_eq_true, if_false]
  by_cases ha0 : a = 0
  · subst ha0
    simp only [if_true]
    obtain ⟨_, m, hmM, hb⟩ := wait_busy hinv hd hm
    obtain ⟨t', ht'⟩ := nextTime_isSome hmM hb
    exact autoTransit_of_not_stepComplete
      (not_stepComplete_of_wait_allowed hwf hmno (inv_transit hwf hinv ht')) _
  · simp only [ha0, if_false]
    obtain ⟨hsel, ho⟩ := sel_of_mask hwf hinv ha0 ha hm
    have hinv' : Inv i (makeStep i s (a - 1)) := by
      unfold makeStep; simp only [ho]; exact inv_makeStepAt hwf hinv hsel
    exact autoTransit_of_not_stepComplete (not_stepComplete_of_wait_allowed hwf hmno hinv') _

/-- dispatching, at its `σ`-start time, the next operation of a job on `σ`'s machine keeps agreement -/
theorem agree_makeStepAt {i : Inst} (hwf : WF i) {σ : Sched} {mk : Int} (hv : ValidSchedule i σ mk)
    {s : State} (hinv : Inv i s) (hag : Agree i σ s) {j m : Nat} (hsel : Sel i s j m)
    (hst : σ.start (s.nextOp j) = s.time) (hσm : σ.assign m (s.nextOp j) = true) :
    Agree i σ (makeStepAt s j (s.nextOp j) m) := by
  obtain ⟨hns, hpe, hpos, hoN⟩ := sel_facts hwf hinv hsel
  have hr := hinv.nextRng j hsel.hj
  have hreal := real_of_job hsel.hj hr.1 hr.2
  obtain ⟨m0, hm0, ha0, hu0, hp0, hf0, _⟩ := sigma_machine hv hoN hreal
  have hmm : m = m0 := hu0 m hsel.hm hσm
  subst hmm
  refine ⟨?_, ?_⟩
  · intro o ho hro hso
    simp only [makeStepAt, upd_apply] at hso ⊢
    by_cases heq : o = s.nextOp j
    · subst heq
      simp only [if_true, and_true]
      refine ⟨hst.symm, by rw [hpe, hf0, hst], fun m' hm' => ?_⟩
      by_cases hmm : m' = m
      · subst hmm; simp [ha0]
      · simp only [hmm, if_false, hinv.unasg _ hns m']
        cases hσ : σ.assign m' (s.nextOp j) with
        | false => rfl
        | true => exact absurd (hu0 m' hm' hσ) hmm
    · simp only [heq, if_false, and_false] at hso ⊢
      exact hag.sch o ho hro hso
  · intro o ho hro hso
    simp only [makeStepAt, upd_apply] at hso ⊢
    by_cases heq : o = s.nextOp j
    · simp [heq] at hso
    · simp only [heq, if_false] at hso
      exact hag.uns o ho hro hso

theorem opt_reachable_from {i : Inst} (hwf : WF i) (hmno : i.maskNoOps = false) {σ : Sched} {mk : Int}
    (hv : ValidSchedule i σ mk) (hea : EventAligned i σ) :
    ∀ (n : Nat) (s : State), mu i s ≤ n → Inv2 i s → Agree i σ s →
      ∃ as s', Run env i s as s' ∧ s'.done = true ∧ Inv i s' ∧ Agree i σ s' := by
  intro n
  induction n with
  | zero =>
    intro s hmu h2 hag
    cases hd : s.done with
    | true => exact ⟨[], s, Run.nil s, hd, h2.1, hag⟩
    | false =>
      -- an unfinished state has an admitted action, which would decrease the measure below 0
      exfalso
      obtain ⟨hinv, hsc⟩ := h2
      have hany : anyMask i s = true := by
        simp only [stepComplete, hd, Bool.not_false, Bool.and_true, Bool.not_eq_false'] at hsc; exact hsc
      obtain ⟨a, ha, hm⟩ := anyUpTo_iff.mp hany
      have := mu_decreases hwf ⟨hinv, by simp [stepComplete, hany]⟩ hd ha hm
      omega
  | succ n ih =>
    intro s hmu h2 hag
    cases hd : s.done with
    | true => exact ⟨[], s, Run.nil s, hd, h2.1, hag⟩
    | false =>
      have hinv := h2.1
      -- the common continuation: take the admitted action `a`, whose result agrees with `σ`
      have cont : ∀ a, a < nAct i → mask i s a = true → Agree i σ (step i s a) →
          ∃ as s', Run env i s as s' ∧ s'.done = true ∧ Inv i s' ∧ Agree i σ s' := by
        intro a ha hm hag'
        have hdec := mu_decreases hwf h2 hd ha hm
        obtain ⟨as, s', hrun, hd', hinv', hag''⟩ := ih (step i s a) (by omega) (inv2_step hwf h2 ha hm) hag'
        exact ⟨a :: as, s', Run.cons ha hm hrun, hd', hinv', hag''⟩
      by_cases hnow : ∃ o, o < i.N ∧ isReal i o = true ∧ s.sched o = false ∧ σ.start o = s.time
      · -- (A) some unscheduled operation starts now in `σ`: dispatch it on `σ`'s machine
        obtain ⟨o, ho, hro, hso, hst⟩ := hnow
        obtain ⟨j, hj, h1, h2'⟩ := job_of_real hro
        obtain ⟨m, hm, hσm, hum, hpm, hfm, hs0⟩ := sigma_machine hv ho hro
        have hr := hinv.nextRng j hj
        -- `o` is the next operation of its job, which is idle and not done
        have hnext : s.nextOp j = o ∧ s.inProc j = false ∧ s.jobDone j = false := by
          have hiff := hinv.schedIff j hj o h1 h2'
          have hnot : ¬ (o < s.nextOp j ∨ (o = s.nextOp j ∧ (s.inProc j = true ∨ s.jobDone j = true))) := by
            intro h; rw [hiff.mpr h] at hso; simp at hso
          have hle : s.nextOp j ≤ o := by
            apply Classical.byContradiction; intro hc; exact hnot (Or.inl (by omega))
          by_cases heq : s.nextOp j = o
          · refine ⟨heq, ?_, ?_⟩
            · cases hip : s.inProc j with
              | false => rfl
              | true => exact absurd (Or.inr ⟨heq.symm, Or.inl hip⟩) hnot
            · cases hjd : s.jobDone j with
              | false => rfl
              | true => exact absurd (Or.inr ⟨heq.symm, Or.inr hjd⟩) hnot
          · -- the job predecessor `o - 1 ≥ nextOp j` would be unscheduled yet complete before `o` starts
            exfalso
            have hlt : s.nextOp j < o := by omega
            have hpred_uns : s.sched (o - 1) = false ∨ (o - 1 = s.nextOp j ∧ (s.inProc j = true ∨ s.jobDone j = true)) := by
              cases hsp : s.sched (o - 1) with
              | false => exact Or.inl rfl
              | true =>
                right
                rcases (hinv.schedIff j hj (o - 1) (by omega) (by omega)).mp hsp with h | h
                · omega
                · exact h
            have hord := hv.order j hj (o - 1) (by omega) (by omega) (by omega)
            have hoo : o - 1 + 1 = o := by omega
            rw [hoo] at hord
            have hrp := real_of_job hj (show i.startOp j ≤ o - 1 by omega) (show o - 1 ≤ i.endOp j by omega)
            obtain ⟨mp, _, _, _, hpp, hfp, _⟩ := sigma_machine hv (show o - 1 < i.N by omega) hrp
            rcases hpred_uns with hu | ⟨heq', hip | hjd⟩
            · have := hag.uns (o - 1) (by omega) hrp hu; omega
            · have hsp : s.sched (o - 1) = true :=
                (hinv.schedIff j hj (o - 1) (by omega) (by omega)).mpr (Or.inr ⟨heq', Or.inl hip⟩)
              have := (hag.sch (o - 1) (by omega) hrp hsp).2.1
              have hfl := hinv.inflight j hip
              rw [← heq'] at hfl; omega
            · have := (hinv.jdone j hj hjd).1; omega
        obtain ⟨hno, hnip, hnjd⟩ := hnext
        -- `σ`'s machine is idle now
        have hidle : s.busy m ≤ s.time := by
          apply Classical.byContradiction; intro hc
          rcases hinv.busyAtt m with h0 | ⟨o2, hs2, ha2, hf2⟩
          · have := hinv.time0; omega
          · obtain ⟨j2, hj2, h12, h22⟩ := hinv.schedReal o2 hs2
            have hr2 := real_of_job hj2 h12 h22
            have ho2 : o2 < i.N := by have := (hwf.rng j2 hj2).2; omega
            obtain ⟨hst2, hfi2, has2⟩ := hag.sch o2 ho2 hr2 hs2
            have hσ2 : σ.assign m o2 = true := by rw [← has2 m hm]; exact ha2
            have hne : o2 ≠ o := by intro h; subst h; rw [hso] at hs2; simp at hs2
            have hsl := hinv.startLe o2 hs2
            rcases hv.machine m hm o2 ho2 o ho hr2 hro hne hσ2 hσm with h | h <;> omega
        have hsel : Sel i s j m := ⟨hj, hm, hnjd, hnip, hidle, by
          rw [hinv.procEq, hno]; simp [hso]; omega⟩
        have hav : avail i s j m = true := by
          simp only [avail_eq, hnjd, hnip, Bool.not_false, Bool.true_and, Bool.and_eq_true, Bool.not_eq_true',
            decide_eq_false_iff_not, beq_eq_false_iff_ne]
          exact ⟨by omega, hsel.elig⟩
        have hmask := mask_actOf hm hav
        have hact := actOf_lt (i := i) hj hm
        have ha0 : actOf i j m ≠ 0 := by unfold actOf; split <;> omega
        apply cont _ hact hmask
        rw [step_wait_allowed hwf hmno h2 hd hact hmask]
        simp only [ha0, if_false]
        -- the translated action is (j, nextOp j, m): for JSSP the unique eligible machine is σ's
        obtain ⟨hsel', ho'⟩ := sel_of_mask hwf hinv ha0 hact hmask
        have htr : (translate i s (actOf i j m - 1)).1 = j ∧ (translate i s (actOf i j m - 1)).2.2 = m := by
          cases hjs : i.jssp with
          | true =>
            have hj1 : actOf i j m - 1 = j := by simp [actOf, hjs]
            have h1' : (translate i s (actOf i j m - 1)).1 = j := by simp [translate_eq, hjs, hj1]
            refine ⟨h1', ?_⟩
            rw [h1'] at hsel'
            obtain ⟨_, hpe', hpos', _⟩ := sel_facts hwf hinv hsel'
            have := hwf.uniq hjs j hj (s.nextOp j) hr.1 hr.2 _ m hsel'.hm hm hpos' (by rw [hno]; exact hpm)
            exact this
          | false =>
            have hj1 : actOf i j m - 1 = j * i.M + m := by simp [actOf, hjs]
            simp [translate_eq, hjs, hj1, flat_div hm, flat_mod hm]
        unfold makeStep
        simp only [ho', htr.1, htr.2]
        exact agree_makeStepAt hwf hv hinv hag hsel (by rw [hno]; exact hst) (by rw [hno]; exact hσm)
      · -- (B) nothing starts now: wait for the next completion
        have hnow' : ∀ o, o < i.N → isReal i o = true → s.sched o = false → σ.start o ≠ s.time :=
          fun o ho hr hs heq => hnow ⟨o, ho, hr, hs, heq⟩
        have hchain := running_before hv hea hinv hag hnow'
        -- some job is in process, so the wait action is open
        have hip : ∃ j, j < i.J ∧ s.inProc j = true := by
          have : ∃ j, j < i.J ∧ s.jobDone j = false := by
            have hdd := hinv.doneIff; rw [hd] at hdd
            apply Classical.byContradiction; intro hcon
            have : allUpTo i.J s.jobDone = true := allUpTo_iff.mpr (fun j hj => by
              cases hjd : s.jobDone j with
              | true => rfl
              | false => exact absurd ⟨j, hj, hjd⟩ hcon)
            rw [this] at hdd; simp at hdd
          obtain ⟨j, hj, hjd⟩ := this
          cases hipj : s.inProc j with
          | true => exact ⟨j, hj, hipj⟩
          | false =>
            have hr := hinv.nextRng j hj
            have hns : s.sched (s.nextOp j) = false := by
              cases hs : s.sched (s.nextOp j) with
              | false => rfl
              | true =>
                have := (hinv.schedIff j hj _ hr.1 hr.2).mp hs
                simp [hipj, hjd] at this
            have hoN : s.nextOp j < i.N := by have := (hwf.rng j hj).2; omega
            have hreal := real_of_job hj hr.1 hr.2
            obtain ⟨o', ho', hr', hs', hlt, _⟩ := hchain (σ.start (s.nextOp j) - s.time).toNat _ hoN hreal hns (by omega)
            obtain ⟨j', hj', h1', h2'⟩ := job_of_real hr'
            have hfin := (hag.sch o' ho' hr' hs').2.1
            exact ⟨j', hj', (inProc_of_running hinv hj' h1' h2' hs' (by omega)).1⟩
        obtain ⟨jp, hjp, hipp⟩ := hip
        have hmask0 : mask i s 0 = true := by
          simp only [mask, if_true, noOpMask_eq, hmno, Bool.false_eq_true, if_false, hd, Bool.not_false,
            Bool.and_true, Bool.or_false]
          exact anyUpTo_iff.mpr ⟨jp, hjp, hipp⟩
        have hact0 : 0 < nAct i := by unfold nAct; split <;> omega
        obtain ⟨_, mb, hmb, hbb⟩ := wait_busy hinv hd hmask0
        obtain ⟨t', ht'⟩ := nextTime_isSome hmb hbb
        apply cont 0 hact0 hmask0
        rw [step_wait_allowed hwf hmno h2 hd hact0 hmask0]
        simp only [if_true]
        rw [transit, advance_some ht']
        refine ⟨?_, ?_⟩
        · intro o ho hr hs
          exact hag.sch o ho hr hs
        · intro o ho hr hs
          have hs0 : s.sched o = false := hs
          obtain ⟨o', ho', hr', hs', hlt, hle⟩ := hchain (σ.start o - s.time).toNat o ho hr hs0 (by omega)
          have := nextTime_le_running hinv hag ht' ho' hr' hs' hlt
          show t' ≤ σ.start o
          omega

/-- **C05 (FJSP/JSSP, `mask_no_ops = false`)**: every valid schedule whose operations start at event
times (in particular every semi-active schedule, among which an optimal one is found) is reproduced
EXACTLY — same machines, same start and completion times — by a mask-confined finished episode, whose
reward is minus that schedule's makespan.  The mask therefore hides no such schedule. -/
theorem schedule_reachable (i : Inst) (hwf : WF i) (hmno : i.maskNoOps = false) (σ : Sched) (mk : Int)
    (hv : ValidSchedule i σ mk) (hea : EventAligned i σ) :
    ∃ as s, Run env i (env.reset i) as s ∧ s.done = true ∧
      (∀ o, o < i.N → isReal i o = true →
        s.start o = σ.start o ∧ s.finish o = σ.finish o ∧ ∀ m, m < i.M → s.assign m o = σ.assign m o) ∧
      - reward i s = mk := by
  have hag0 : Agree i σ (reset i) := by
    refine ⟨fun o _ _ h => by simp [reset] at h, fun o ho hr _ => ?_⟩
    obtain ⟨_, _, _, _, _, _, h0⟩ := sigma_machine hv ho hr
    simpa [reset] using h0
  obtain ⟨as, s, hrun, hd, hinv, hag⟩ :=
    opt_reachable_from hwf hmno hv hea (mu i (reset i)) (reset i) (Nat.le_refl _) (inv2_reset hwf) hag0
  have hall := all_sched_of_done hinv hd
  have hsame : ∀ o, o < i.N → isReal i o = true →
      s.start o = σ.start o ∧ s.finish o = σ.finish o ∧ ∀ m, m < i.M → s.assign m o = σ.assign m o := by
    intro o ho hr
    obtain ⟨j, hj, h1, h2⟩ := job_of_real hr
    exact hag.sch o ho hr (hall j hj o h1 h2)
  refine ⟨as, s, hrun, hd, hsame, ?_⟩
  -- both `-reward` and `mk` are the maximum of the (equal) completion times
  obtain ⟨hup, o1, ho1, hr1, he1⟩ := neg_reward_is_latest_completion i hwf s
  obtain ⟨o2, ho2, hr2, he2⟩ := hv.mkAttained
  have h1 := hup o2 ho2 hr2
  have h2 := hv.mkUpper o1 ho1 hr1
  rw [(hsame o2 ho2 hr2).2.1] at h1
  rw [← (hsame o1 ho1 hr1).2.1] at h2
  omega

/-- **the strongest provable part of `opt_reachable_statement`**: with waiting allowed, the best
reward through the mask is at least as good as any event-aligned (semi-active) valid schedule. -/
theorem opt_reachable_partial (i : Inst) (hwf : WF i) (hmno : i.maskNoOps = false) (σ : Sched) (mk : Int)
    (hv : ValidSchedule i σ mk) (hea : EventAligned i σ) :
    ∃ as s, Run env i (env.reset i) as s ∧ s.done = true ∧ - reward i s ≤ mk := by
  obtain ⟨as, s, hrun, hd, _, he⟩ := schedule_reachable i hwf hmno σ mk hv hea
  exact ⟨as, s, hrun, hd, by omega⟩

/-! ### non-vacuity of `schedule_reachable`: the delay instance with waiting allowed reaches makespan 12 -/

theorem wf_setMaskNoOps {i : Inst} (h : WF i) (b : Bool) : WF { i with maskNoOps := b } :=
  ⟨h.jpos, h.rng, h.disj, h.procNN, h.elig, h.uniq, h.padIff⟩

theorem exDelayOpt_eventAligned : EventAligned { exDelay with maskNoOps := false } exDelayOpt := by
  intro o ho _
  have : o = 0 ∨ o = 1 ∨ o = 2 ∨ o = 3 := by simp only [exDelay] at ho; omega
  rcases this with h | h | h | h <;> subst h
  · exact Or.inr ⟨2, by decide, by decide, by decide⟩
  · exact Or.inl (by decide)
  · exact Or.inr ⟨1, by decide, by decide, by decide⟩
  · exact Or.inr ⟨2, by decide, by decide, by decide⟩

example : ∃ as s, Run env { exDelay with maskNoOps := false } (env.reset { exDelay with maskNoOps := false }) as s ∧
    s.done = true ∧ - reward { exDelay with maskNoOps := false } s = 12 := by
  obtain ⟨as, s, h1, h2, _, h4⟩ := schedule_reachable { exDelay with maskNoOps := false }
    (wf_setMaskNoOps exDelay_wf false) rfl exDelayOpt 12
    ((Spec.Fjsp.valid_iff _ _ _).mp (by decide)) exDelayOpt_eventAligned
  exact ⟨as, s, h1, h2, h4⟩

/-- … and concretely: the action list found by the harness (wait = 0) -/
example :
    let i : Inst := { exDelay with maskNoOps := false }
    admitted env i (env.reset i) [4, 0, 3, 0, 1, 4, 0] = true ∧
    reward i (exec env i (env.reset i) [4, 0, 3, 0, 1, 4, 0]) = -12 := by decide

/-! ### C05 for `mask_no_ops = true`: exactly the non-delay schedules stay reachable (completeness half) -/

/-- Non-delay schedule: at no time `t ≥ 0` is a machine `m` idle while an operation that `m` could
process, and whose job predecessor has completed by `t`, starts only later. -/
def NonDelay (i : Inst) (σ : Sched) : Prop :=
  ∀ (t : Int) (m o : Nat), 0 ≤ t → m < i.M → o < i.N → isReal i o = true → 0 < i.proc m o →
    (∀ o', o' < i.N → isReal i o' = true → σ.assign m o' = true → ¬ (σ.start o' ≤ t ∧ t < σ.finish o')) →
    (∀ j, j < i.J → i.startOp j < o → o ≤ i.endOp j → σ.finish (o - 1) ≤ t) →
    σ.start o ≤ t

/-- an unscheduled operation that starts now in `σ` is the next operation of an idle, unfinished job -/
theorem next_of_starts_now {i : Inst} {σ : Sched} {mk : Int} (hv : ValidSchedule i σ mk)
    {s : State} (hinv : Inv i s) (hag : Agree i σ s) {j o : Nat} (hj : j < i.J) (h1 : i.startOp j ≤ o)
    (h2' : o ≤ i.endOp j) (ho : o < i.N) (hso : s.sched o = false) (hst : σ.start o = s.time) :
    s.nextOp j = o ∧ s.inProc j = false ∧ s.jobDone j = false := by
  have hr := hinv.nextRng j hj
  have hiff := hinv.schedIff j hj o h1 h2'
  have hnot : ¬ (o < s.nextOp j ∨ (o = s.nextOp j ∧ (s.inProc j = true ∨ s.jobDone j = true))) := by
    intro h; rw [hiff.mpr h] at hso; simp at hso
  have hle : s.nextOp j ≤ o := by
    apply Classical.byContradiction; intro hc; exact hnot (Or.inl (by omega))
  by_cases heq : s.nextOp j = o
  · refine ⟨heq, ?_, ?_⟩
    · cases hip : s.inProc j with
      | false => rfl
      | true => exact absurd (Or.inr ⟨heq.symm, Or.inl hip⟩) hnot
    · cases hjd : s.jobDone j with
      | false => rfl
      | true => exact absurd (Or.inr ⟨heq.symm, Or.inr hjd⟩) hnot
  · exfalso
    have hlt : s.nextOp j < o := by omega
    have hpred_uns : s.sched (o - 1) = false ∨ (o - 1 = s.nextOp j ∧ (s.inProc j = true ∨ s.jobDone j = true)) := by
      cases hsp : s.sched (o - 1) with
      | false => exact Or.inl rfl
      | true =>
        right
        rcases (hinv.schedIff j hj (o - 1) (by omega) (by omega)).mp hsp with h | h
        · omega
        · exact h
    have hord := hv.order j hj (o - 1) (by omega) (by omega) (by omega)
    have hoo : o - 1 + 1 = o := by omega
    rw [hoo] at hord
    have hrp := real_of_job hj (show i.startOp j ≤ o - 1 by omega) (show o - 1 ≤ i.endOp j by omega)
    obtain ⟨mp, _, _, _, hpp, hfp, _⟩ := sigma_machine hv (show o - 1 < i.N by omega) hrp
    rcases hpred_uns with hu | ⟨heq', hip | hjd⟩
    · have := hag.uns (o - 1) (by omega) hrp hu; omega
    · have hsp : s.sched (o - 1) = true :=
        (hinv.schedIff j hj (o - 1) (by omega) (by omega)).mpr (Or.inr ⟨heq', Or.inl hip⟩)
      have := (hag.sch (o - 1) (by omega) hrp hsp).2.1
      have hfl := hinv.inflight j hip
      rw [← heq'] at hfl; omega
    · have := (hinv.jdone j hj hjd).1; omega

/-- … and `σ`'s machine for it is idle now -/
theorem idle_of_starts_now {i : Inst} (hwf : WF i) {σ : Sched} {mk : Int} (hv : ValidSchedule i σ mk)
    {s : State} (hinv : Inv i s) (hag : Agree i σ s) {m o : Nat} (hm : m < i.M) (ho : o < i.N)
    (hro : isReal i o = true) (hso : s.sched o = false) (hst : σ.start o = s.time)
    (hσm : σ.assign m o = true) : s.busy m ≤ s.time := by
  obtain ⟨m0, _, _, _, hpm, hfm, _⟩ := sigma_machine hv ho hro
  apply Classical.byContradiction; intro hc
  rcases hinv.busyAtt m with h0 | ⟨o2, hs2, ha2, hf2⟩
  · have := hinv.time0; omega
  · obtain ⟨j2, hj2, h12, h22⟩ := hinv.schedReal o2 hs2
    have hr2 := real_of_job hj2 h12 h22
    have ho2 : o2 < i.N := by have := (hwf.rng j2 hj2).2; omega
    obtain ⟨hst2, hfi2, has2⟩ := hag.sch o2 ho2 hr2 hs2
    have hσ2 : σ.assign m o2 = true := by rw [← has2 m hm]; exact ha2
    have hne : o2 ≠ o := by intro h; subst h; rw [hso] at hs2; simp at hs2
    have hsl := hinv.startLe o2 hs2
    rcases hv.machine m hm o2 ho2 o ho hr2 hro hne hσ2 hσm with h | h <;> omega

/-- so it is offered by the mask: a state in which something starts now (in `σ`) is not stuck -/
theorem avail_of_starts_now {i : Inst} (hwf : WF i) {σ : Sched} {mk : Int} (hv : ValidSchedule i σ mk)
    {s : State} (hinv : Inv i s) (hag : Agree i σ s) {o : Nat} (ho : o < i.N)
    (hro : isReal i o = true) (hso : s.sched o = false) (hst : σ.start o = s.time) :
    ∃ j m, j < i.J ∧ m < i.M ∧ s.nextOp j = o ∧ σ.assign m o = true ∧ Sel i s j m ∧ avail i s j m = true := by
  obtain ⟨j, hj, h1, h2'⟩ := job_of_real hro
  obtain ⟨m, hm, hσm, _, hpm, _, _⟩ := sigma_machine hv ho hro
  obtain ⟨hno, hnip, hnjd⟩ := next_of_starts_now hv hinv hag hj h1 h2' ho hso hst
  have hidle := idle_of_starts_now hwf hv hinv hag hm ho hro hso hst hσm
  have hsel : Sel i s j m := ⟨hj, hm, hnjd, hnip, hidle, by
    rw [hinv.procEq, hno]; simp [hso]; omega⟩
  have hav : avail i s j m = true := by
    simp only [avail_eq, hnjd, hnip, Bool.not_false, Bool.true_and, Bool.and_eq_true, Bool.not_eq_true',
      decide_eq_false_iff_not, beq_eq_false_iff_ne]
    exact ⟨by omega, hsel.elig⟩
  exact ⟨j, m, hj, hm, hno, hσm, hsel, hav⟩

/-- advancing the clock to the next completion keeps agreement when nothing starts now -/
theorem agree_transit {i : Inst} {σ : Sched} {mk : Int} (hv : ValidSchedule i σ mk) (hea : EventAligned i σ)
    {s : State} (hinv : Inv i s) (hag : Agree i σ s)
    (hnow : ∀ o, o < i.N → isReal i o = true → s.sched o = false → σ.start o ≠ s.time)
    {t' : Int} (ht' : nextTime i.M s.busy s.time = some t') : Agree i σ (transit i s) := by
  have hchain := running_before hv hea hinv hag hnow
  rw [transit, advance_some ht']
  refine ⟨fun o ho hr hs => hag.sch o ho hr hs, fun o ho hr hs => ?_⟩
  have hs0 : s.sched o = false := hs
  obtain ⟨o', ho', hr', hs', hlt, hle⟩ := hchain (σ.start o - s.time).toNat o ho hr hs0 (by omega)
  have := nextTime_le_running hinv hag ht' ho' hr' hs' hlt
  show t' ≤ σ.start o
  omega

/-- the time-advance loop (which only runs while nothing at all is schedulable) keeps agreement -/
theorem agree_autoTransit {i : Inst} (hwf : WF i) {σ : Sched} {mk : Int} (hv : ValidSchedule i σ mk)
    (hea : EventAligned i σ) (f : Nat) :
    ∀ s, Inv i s → Agree i σ s → cntBusy i s < f → Agree i σ (autoTransit i f s) := by
  induction f with
  | zero => intro s _ _ h; omega
  | succ f ih =>
    intro s hinv hag hlt
    simp only [autoTransit]
    cases hsc : stepComplete i s with
    | false => simpa using hag
    | true =>
      simp only [if_true]
      have hnow : ∀ o, o < i.N → isReal i o = true → s.sched o = false → σ.start o ≠ s.time := by
        intro o ho hr hs hst
        obtain ⟨j, m, hj, hm, _, _, _, hav⟩ := avail_of_starts_now hwf hv hinv hag ho hr hs hst
        have h1 := mask_actOf hm hav
        simp only [stepComplete, Bool.and_eq_true, Bool.not_eq_true'] at hsc
        have h2 := anyUpTo_eq_false.mp hsc.1 _ (actOf_lt hj hm)
        rw [h1] at h2; simp at h2
      obtain ⟨m, hm, hb⟩ := exists_busy_of_stepComplete hwf hinv hsc
      obtain ⟨t', ht'⟩ := nextTime_isSome hm hb
      exact ih _ (inv_transit hwf hinv ht') (agree_transit hv hea hinv hag hnow ht')
        (by have := cntBusy_transit_lt (i := i) ht'; omega)

/-- the translated action of `actOf i j m` is `(j, next_op j, m)` (JSSP: `m` must be the eligible machine) -/
theorem translate_actOf {i : Inst} (hwf : WF i) {s : State} (hinv : Inv i s) {j m : Nat}
    (hsel : Sel i s j m) :
    (translate i s (actOf i j m - 1)).1 = j ∧ (translate i s (actOf i j m - 1)).2.1 = s.nextOp j ∧
    (translate i s (actOf i j m - 1)).2.2 = m := by
  have hj := hsel.hj
  have hm := hsel.hm
  have hr := hinv.nextRng j hj
  obtain ⟨hns, hpe, hpos, _⟩ := sel_facts hwf hinv hsel
  cases hjs : i.jssp with
  | true =>
    have hj1 : actOf i j m - 1 = j := by simp [actOf, hjs]
    have hf := findMa_spec (M := i.M) (p := fun m' => s.proc m' (s.nextOp j))
      ⟨m, hm, by show 0 < s.proc m (s.nextOp j); rw [hpe]; exact hpos⟩
    have hpm : ∀ m', s.proc m' (s.nextOp j) = i.proc m' (s.nextOp j) := by
      intro m'; rw [hinv.procEq]; simp [hns]
    have heq : findMa i.M (fun m' => s.proc m' (s.nextOp j)) = m := by
      apply hwf.uniq hjs j hj _ hr.1 hr.2 _ _ hf.1 hm _ hpos
      have h2 : 0 < s.proc (findMa i.M (fun m' => s.proc m' (s.nextOp j))) (s.nextOp j) := hf.2
      rw [hpm] at h2; exact h2
    simp [translate_eq, hjs, hj1, heq]
  | false =>
    have hj1 : actOf i j m - 1 = j * i.M + m := by simp [actOf, hjs]
    simp [translate_eq, hjs, hj1, flat_div hm, flat_mod hm]

theorem nondelay_reachable_from {i : Inst} (hwf : WF i) (hmno : i.maskNoOps = true) {σ : Sched} {mk : Int}
    (hv : ValidSchedule i σ mk) (hea : EventAligned i σ) (hnd : NonDelay i σ) :
    ∀ (n : Nat) (s : State), mu i s ≤ n → Inv2 i s → Agree i σ s →
      ∃ as s', Run env i s as s' ∧ s'.done = true ∧ Inv i s' ∧ Agree i σ s' := by
  intro n
  induction n with
  | zero =>
    intro s hmu h2 hag
    cases hd : s.done with
    | true => exact ⟨[], s, Run.nil s, hd, h2.1, hag⟩
    | false =>
      exfalso
      obtain ⟨hinv, hsc⟩ := h2
      have hany : anyMask i s = true := by
        simp only [stepComplete, hd, Bool.not_false, Bool.and_true, Bool.not_eq_false'] at hsc; exact hsc
      obtain ⟨a, ha, hm⟩ := anyUpTo_iff.mp hany
      have := mu_decreases hwf ⟨hinv, by simp [stepComplete, hany]⟩ hd ha hm
      omega
  | succ n ih =>
    intro s hmu h2 hag
    cases hd : s.done with
    | true => exact ⟨[], s, Run.nil s, hd, h2.1, hag⟩
    | false =>
      have hinv := h2.1
      by_cases hnow : ∃ o, o < i.N ∧ isReal i o = true ∧ s.sched o = false ∧ σ.start o = s.time
      · -- (A) dispatch the operation that starts now on `σ`'s machine; the loop then advances the clock
        obtain ⟨o, ho, hro, hso, hst⟩ := hnow
        obtain ⟨j, m, hj, hm, hno, hσm, hsel, hav⟩ := avail_of_starts_now hwf hv hinv hag ho hro hso hst
        have hmask := mask_actOf hm hav
        have hact := actOf_lt (i := i) hj hm
        have ha0 : actOf i j m ≠ 0 := by unfold actOf; split <;> omega
        have hdec := mu_decreases hwf h2 hd hact hmask
        have hag' : Agree i σ (step i s (actOf i j m)) := by
          rw [step_eq]
          simp only [hd, Bool.false_eq_true, if_false, ha0]
          obtain ⟨ht1, ht2, ht3⟩ := translate_actOf hwf hinv hsel
          have hms : makeStep i s (actOf i j m - 1) = makeStepAt s j (s.nextOp j) m := by
            unfold makeStep; simp only [ht1, ht2, ht3]
          rw [hms]
          exact agree_autoTransit hwf hv hea (fuel i) _ (inv_makeStepAt hwf hinv hsel)
            (agree_makeStepAt hwf hv hinv hag hsel (by rw [hno]; exact hst) (by rw [hno]; exact hσm))
            (cntBusy_le_fuel i _)
        obtain ⟨as, s', hrun, hd', hinv', hag''⟩ :=
          ih (step i s (actOf i j m)) (by omega) (inv2_step hwf h2 hact hmask) hag'
        exact ⟨actOf i j m :: as, s', Run.cons hact hmask hrun, hd', hinv', hag''⟩
      · -- (B) impossible: the state is at rest, so some pair is schedulable now, while in `σ` nothing
        -- starts now — `σ` would leave an idle machine and an available operation waiting
        exfalso
        have hnow' : ∀ o, o < i.N → isReal i o = true → s.sched o = false → σ.start o ≠ s.time :=
          fun o ho hr hs heq => hnow ⟨o, ho, hr, hs, heq⟩
        have hany : anyMask i s = true := by
          have := h2.2
          simp only [stepComplete, hd, Bool.not_false, Bool.and_true, Bool.not_eq_false'] at this; exact this
        obtain ⟨a, ha, hma⟩ := anyUpTo_iff.mp hany
        have ha0 : a ≠ 0 := by
          intro h0; subst h0
          simp [mask, noOpMask_eq, hmno, hd] at hma
        obtain ⟨hsel, ho'⟩ := sel_of_mask hwf hinv ha0 ha hma
        generalize (translate i s (a - 1)).1 = j at hsel ho'
        generalize (translate i s (a - 1)).2.2 = m at hsel
        obtain ⟨hns, hpe, hpos, hoN⟩ := sel_facts hwf hinv hsel
        have hr := hinv.nextRng j hsel.hj
        have hreal := real_of_job hsel.hj hr.1 hr.2
        have hge := hag.uns _ hoN hreal hns
        have hne := hnow' _ hoN hreal hns
        have := hnd s.time m (s.nextOp j) hinv.time0 hsel.hm hoN hreal hpos ?_ ?_
        · omega
        · -- machine `m` is idle at `time` in `σ`
          intro o' ho' hr' hσ' hcon
          cases hs' : s.sched o' with
          | true =>
            obtain ⟨_, hfi, has⟩ := hag.sch o' ho' hr' hs'
            have ha' : s.assign m o' = true := by rw [has m hsel.hm]; exact hσ'
            obtain ⟨m0, _, _, hu, _, _, _, hb⟩ := hinv.asg o' hs'
            have := hu m ha'; subst this
            have := hsel.idle
            omega
          | false =>
            have h1 := hag.uns o' ho' hr' hs'
            have h2' := hnow' o' ho' hr' hs'
            omega
        · -- the job predecessor of `next_op j` has completed
          intro j' hj' h1 h2'
          have hjj : j' = j := job_unique hwf hj' hsel.hj (by omega) h2' hr.1 hr.2
          subst hjj
          have hsp : s.sched (s.nextOp j' - 1) = true :=
            (hinv.schedIff j' hj' _ (by omega) (by omega)).mpr (Or.inl (by omega))
          have hrp := real_of_job hj' (show i.startOp j' ≤ s.nextOp j' - 1 by omega)
            (show s.nextOp j' - 1 ≤ i.endOp j' by omega)
          have hfin := hinv.finished j' hj' (s.nextOp j' - 1) (by omega) (by omega) hsp (Or.inl (by omega))
          have := (hag.sch _ (by omega) hrp hsp).2.1
          omega

/-- **C05 (FJSP/JSSP, `mask_no_ops = true`)**: every valid NON-DELAY schedule (operations starting at
event times) is reproduced exactly by a mask-confined finished episode.  Together with the exhaustive
comparison done by the harness (the reachable schedules of the real env are exactly the non-delay ones)
this pins down the class of schedules the default action space expresses. -/
theorem nondelay_schedule_reachable (i : Inst) (hwf : WF i) (hmno : i.maskNoOps = true) (σ : Sched) (mk : Int)
    (hv : ValidSchedule i σ mk) (hea : EventAligned i σ) (hnd : NonDelay i σ) :
    ∃ as s, Run env i (env.reset i) as s ∧ s.done = true ∧
      (∀ o, o < i.N → isReal i o = true →
        s.start o = σ.start o ∧ s.finish o = σ.finish o ∧ ∀ m, m < i.M → s.assign m o = σ.assign m o) ∧
      - reward i s = mk := by
  have hag0 : Agree i σ (reset i) := by
    refine ⟨fun o _ _ h => by simp [reset] at h, fun o ho hr _ => ?_⟩
    obtain ⟨_, _, _, _, _, _, h0⟩ := sigma_machine hv ho hr
    simpa [reset] using h0
  obtain ⟨as, s, hrun, hd, hinv, hag⟩ :=
    nondelay_reachable_from hwf hmno hv hea hnd (mu i (reset i)) (reset i) (Nat.le_refl _) (inv2_reset hwf) hag0
  have hall := all_sched_of_done hinv hd
  have hsame : ∀ o, o < i.N → isReal i o = true →
      s.start o = σ.start o ∧ s.finish o = σ.finish o ∧ ∀ m, m < i.M → s.assign m o = σ.assign m o := by
    intro o ho hr
    obtain ⟨j, hj, h1, h2⟩ := job_of_real hr
    exact hag.sch o ho hr (hall j hj o h1 h2)
  refine ⟨as, s, hrun, hd, hsame, ?_⟩
  obtain ⟨hup, o1, ho1, hr1, he1⟩ := neg_reward_is_latest_completion i hwf s
  obtain ⟨o2, ho2, hr2, he2⟩ := hv.mkAttained
  have h1 := hup o2 ho2 hr2
  have h2 := hv.mkUpper o1 ho1 hr1
  rw [(hsame o2 ho2 hr2).2.1] at h1
  rw [← (hsame o1 ho1 hr1).2.1] at h2
  omega

/-- non-vacuity of `nondelay_schedule_reachable`: two single-operation jobs on their own machines,
both started at time 0 (a valid, event-aligned, non-delay schedule) -/
def exTwo : Inst :=
  { J := 2, M := 2, N := 2, startOp := fun j => j, endOp := fun j => j,
    proc := fun m o => if m = o then 3 else 0, pad := fun _ => false, maskNoOps := true, jssp := false }

theorem exTwo_wf : WF exTwo where
  jpos := by decide
  rng := by intro j hj; simp only [exTwo] at hj ⊢; omega
  disj := by intro j j' _ _ h; simp only [exTwo]; omega
  procNN := by intro m o _ _; simp only [exTwo]; split <;> omega
  elig := by
    intro j hj o h1 h2
    simp only [exTwo] at hj h1 h2 ⊢
    exact ⟨o, by omega, by simp⟩
  uniq := by intro h; simp [exTwo] at h
  padIff := by decide

example : ∃ as s, Run env exTwo (env.reset exTwo) as s ∧ s.done = true ∧ - reward exTwo s = 3 := by
  let σ : Sched := ⟨fun _ => 0, fun _ => 3, fun m o => m == o⟩
  have hv : ValidSchedule exTwo σ 3 := (Spec.Fjsp.valid_iff _ _ _).mp (by decide)
  have hea : EventAligned exTwo σ := fun o _ _ => Or.inl rfl
  have hnd : NonDelay exTwo σ := fun t m o ht _ _ _ _ _ _ => ht
  obtain ⟨as, s, h1, h2, _, h4⟩ := nondelay_schedule_reachable exTwo exTwo_wf rfl σ 3 hv hea hnd
  exact ⟨as, s, h1, h2, h4⟩

end Rl4co.Fjsp

namespace Rl4co.Jssp
open Rl4co.Fjsp

/-- **C05 (JSSP, `mask_no_ops = false`)** -/
theorem schedule_reachable (i : Inst) (_ : i.jssp = true) (hwf : WF i) (hmno : i.maskNoOps = false)
    (σ : Spec.Fjsp.Sched) (mk : Int) (hv : Spec.Fjsp.ValidSchedule i σ mk) (hea : EventAligned i σ) :
    ∃ as s, Run env i (env.reset i) as s ∧ s.done = true ∧
      (∀ o, o < i.N → Spec.Fjsp.isReal i o = true →
        s.start o = σ.start o ∧ s.finish o = σ.finish o ∧ ∀ m, m < i.M → s.assign m o = σ.assign m o) ∧
      - reward i s = mk := Fjsp.schedule_reachable i hwf hmno σ mk hv hea

/-- the same counterexample in the JSSP action space (every operation of `exDelay` has one machine) -/
theorem nondelay_schedule_reachable (i : Inst) (_ : i.jssp = true) (hwf : WF i) (hmno : i.maskNoOps = true)
    (σ : Spec.Fjsp.Sched) (mk : Int) (hv : Spec.Fjsp.ValidSchedule i σ mk) (hea : EventAligned i σ)
    (hnd : NonDelay i σ) :
    ∃ as s, Run env i (env.reset i) as s ∧ s.done = true ∧
      (∀ o, o < i.N → Spec.Fjsp.isReal i o = true →
        s.start o = σ.start o ∧ s.finish o = σ.finish o ∧ ∀ m, m < i.M → s.assign m o = σ.assign m o) ∧
      - reward i s = mk := Fjsp.nondelay_schedule_reachable i hwf hmno σ mk hv hea hnd

theorem optimum_hidden_when_waits_masked :
    ¬ (∀ i : Inst, i.jssp = true → WF i → ∀ (σ : Spec.Fjsp.Sched) (mk : Int), Spec.Fjsp.ValidSchedule i σ mk →
        ∃ as s, Run env i (env.reset i) as s ∧ s.done = true ∧ - reward i s ≤ mk) := by
  intro h
  have hwf : WF { exDelay with jssp := true } :=
    ⟨exDelay_wf.jpos, exDelay_wf.rng, exDelay_wf.disj, exDelay_wf.procNN, exDelay_wf.elig, by
      intro _ j hj o h1 h2 m m' hm hm' hp hp'
      simp only [exDelay] at hm hm' hp hp'
      have : m = 0 ∨ m = 1 := by omega
      have : m' = 0 ∨ m' = 1 := by omega
      rcases ‹m = 0 ∨ m = 1› with a | a <;> rcases ‹m' = 0 ∨ m' = 1› with b | b <;> subst a <;> subst b <;>
        simp at hp hp' <;> (try rfl) <;> (repeat' split at hp) <;> (repeat' split at hp') <;> omega,
      exDelay_wf.padIff⟩
  obtain ⟨as, s, hrun, hd, hle⟩ := h { exDelay with jssp := true } rfl hwf exDelayOpt 12
    ((Spec.Fjsp.valid_iff _ _ _).mp (by decide))
  obtain ⟨r, hr, hle2⟩ := reward_le_bestDone { exDelay with jssp := true } hwf hrun hd
  have hb : bestDone { exDelay with jssp := true } (2 * nReal { exDelay with jssp := true })
      (reset { exDelay with jssp := true }) = some (-21) := by decide
  rw [hb] at hr
  simp at hr
  omega

end Rl4co.Jssp
