/-
C05 for CVRP, optimum form: the best reward reachable through the mask EQUALS the optimum over all
feasible solutions (not only the canonical ones): every feasible solution can be brought into
canonical form (pointless depot visits removed, one depot visit guaranteed) without changing its
objective or its feasibility, and canonical feasible solutions are finished mask-confined episodes
(`run_of_feasible`).  Unbounded in the number of customers; equality cases (load = capacity) included.
-/
import Rl4co.Props.C01.Cvrp
import Rl4co.Props.C03.Cvrp
import Rl4co.Props.C05.Cvrp

namespace Rl4co.Cvrp
open Rl4co.Spec.Cvrp

/-- remove the pointless depot visits: leading ones and repeated ones (`prev` = the previous position
is the depot) -/
def canonAux : Bool → List Nat → List Nat
  | _, [] => []
  | prev, a :: as =>
    if a = 0 then (if prev then canonAux true as else 0 :: canonAux true as)
    else a :: canonAux false as

/-- canonical form of a solution: pointless depot visits removed, one depot visit guaranteed -/
def canon (as : List Nat) : List Nat :=
  let c := canonAux true as
  if 0 ∈ c then c else c ++ [0]

theorem canonAux_mem (b : Bool) (as : List Nat) : ∀ x ∈ canonAux b as, x ∈ as := by
  induction as generalizing b with
  | nil => simp [canonAux]
  | cons a as ih =>
    intro x hx
    simp only [canonAux] at hx
    split at hx
    · split at hx
      · exact List.mem_cons_of_mem _ (ih _ x hx)
      · rcases List.mem_cons.mp hx with h | h
        · simp_all
        · exact List.mem_cons_of_mem _ (ih _ x h)
    · rcases List.mem_cons.mp hx with h | h
      · simp [h]
      · exact List.mem_cons_of_mem _ (ih _ x h)

theorem canonAux_count (b : Bool) (as : List Nat) (j : Nat) (hj : 1 ≤ j) :
    (canonAux b as).count j = as.count j := by
  induction as generalizing b with
  | nil => simp [canonAux]
  | cons a as ih =>
    simp only [canonAux]
    by_cases h0 : a = 0
    · subst h0
      have hne : (0 == j) = false := by simp; omega
      cases b <;> simp [List.count_cons, hne, ih]
    · simp [h0, List.count_cons, ih]

theorem canonAux_head (as : List Nat) : (canonAux true as).head? ≠ some 0 := by
  induction as with
  | nil => simp [canonAux]
  | cons a as ih =>
    simp only [canonAux]
    by_cases h0 : a = 0
    · simp [h0, ih]
    · simp [h0]

theorem canonAux_nodouble (b : Bool) (as : List Nat) :
    noDoubleDepot (canonAux b as) ∧ (b = true → (canonAux b as).head? ≠ some 0) := by
  induction as generalizing b with
  | nil => simp [canonAux, noDoubleDepot]
  | cons a as ih =>
    simp only [canonAux]
    by_cases h0 : a = 0
    · subst h0
      cases b
      · simp only [if_true, Bool.false_eq_true, if_false, false_implies, and_true]
        have := ih true
        cases hc : canonAux true as with
        | nil => simp [noDoubleDepot]
        | cons c cs =>
          rw [hc] at this
          refine ⟨?_, this.1⟩
          have h2 := this.2 rfl
          simp at h2
          simp [h2]
      · simp only [if_true]
        have := ih true
        exact ⟨this.1, fun _ => this.2 rfl⟩
    · simp only [h0, if_false]
      have := ih false
      refine ⟨?_, by simp [h0]⟩
      cases hc : canonAux false as with
      | nil => simp [noDoubleDepot]
      | cons c cs =>
        rw [hc] at this
        exact ⟨by simp [h0], this.1⟩

theorem noDoubleDepot_append_zero (c : List Nat) (h : noDoubleDepot c) (h0 : 0 ∉ c) :
    noDoubleDepot (c ++ [0]) := by
  induction c with
  | nil => simp [noDoubleDepot]
  | cons a as ih =>
    cases as with
    | nil =>
      simp only [List.cons_append, List.nil_append, noDoubleDepot, and_true]
      simp at h0
      omega
    | cons b r =>
      simp only [List.cons_append, noDoubleDepot] at h ⊢
      refine ⟨h.1, ?_⟩
      exact ih h.2 (by simp at h0 ⊢; exact ⟨h0.2.1, h0.2.2⟩)

/-- path formulation: removing pointless depot visits does not change the length -/
theorem pathLen_canonAux (D : Nat → Nat → Int) (h00 : D 0 0 = 0) (as : List Nat) :
    ∀ x, pathLen D (x :: canonAux (x == 0) as ++ [0]) = pathLen D (x :: as ++ [0]) := by
  induction as with
  | nil => intro x; simp [canonAux]
  | cons a as ih =>
    intro x
    simp only [canonAux]
    by_cases h0 : a = 0
    · subst h0
      by_cases hx : x = 0
      · subst hx
        have := ih 0
        simp only [beq_self_eq_true, if_true] at this ⊢
        simp only [List.cons_append, pathLen_cons_cons] at this ⊢
        rw [this, h00]; simp
      · have hx' : (x == 0) = false := by simp [hx]
        have := ih 0
        simp only [beq_self_eq_true] at this
        simp only [hx', if_true, Bool.false_eq_true, if_false, List.cons_append, pathLen_cons_cons] at this ⊢
        rw [this]
    · have ha : (a == 0) = false := by simp [h0]
      have := ih a
      rw [ha] at this
      simp only [h0, if_false, List.cons_append, pathLen_cons_cons] at this ⊢
      rw [this]

theorem objective_canon (i : Inst) (h00 : i.D 0 0 = 0) (as : List Nat) :
    objective i (canon as) = objective i as := by
  simp only [objective]
  rw [← closed_eq_routesLen i.D h00, ← closed_eq_routesLen i.D h00]
  have h1 := pathLen_canonAux i.D h00 as 0
  simp only [beq_self_eq_true] at h1
  simp only [canon]
  split
  · exact h1
  · have : 0 :: (canonAux true as ++ [0]) ++ [0] = (0 :: (canonAux true as ++ [0])) ++ [0] := by simp
    rw [this, pathLen_append_singleton]
    have h2 : (0 :: (canonAux true as ++ [0])).getLast (by simp) = 0 := by
      rw [List.getLast_cons (by simp)]; simp
    rw [h2, h00]
    simp only [List.cons_append] at h1
    simpa using h1

end Rl4co.Cvrp

namespace Rl4co.Cvrp
open Rl4co.Spec.Cvrp

/-- left-to-right formulation of the capacity constraint: running load, reset at the depot -/
def scanOk (i : Inst) : Int → List Nat → Prop
  | _, [] => True
  | u, a :: as => if a = 0 then scanOk i 0 as else (u + i.demand a ≤ i.cap ∧ scanOk i (u + i.demand a) as)

theorem scan_iff_routes (i : Inst) (hd : ∀ j, 0 ≤ i.demand j) (hcap : 0 ≤ i.cap) (as : List Nat) :
    ∀ u, 0 ≤ u → u ≤ i.cap →
      (scanOk i u as ↔ ∀ r rs, routes as = r :: rs →
        routeLoad i r + u ≤ i.cap ∧ ∀ r' ∈ rs, routeLoad i r' ≤ i.cap) := by
  induction as with
  | nil =>
    intro u _ hu
    simp only [scanOk, routes, List.cons.injEq, true_iff]
    rintro r rs ⟨h1, h2⟩; subst h1 h2
    simp [routeLoad, hu]
  | cons a as ih =>
    intro u hu0 hu
    obtain ⟨r1, rs1, h1⟩ := routes_cons_exists as
    by_cases h0 : a = 0
    · subst h0
      simp only [scanOk, if_true, routes, List.cons.injEq]
      rw [ih 0 (Int.le_refl 0) hcap]
      constructor
      · rintro h r rs ⟨e1, e2⟩; subst e1 e2
        refine ⟨by simp [routeLoad, hu], fun r' hr' => ?_⟩
        have := h r1 rs1 h1
        rw [h1] at hr'
        rcases List.mem_cons.mp hr' with hh | hh
        · subst hh; omega
        · exact this.2 r' hh
      · intro h r rs hrs
        have := (h [] (routes as) ⟨rfl, rfl⟩).2
        rw [hrs] at this
        exact ⟨by have := this r (by simp); omega, fun r' hr' => this r' (by simp [hr'])⟩
    · simp only [scanOk, h0, if_false, routes, h1, List.cons.injEq]
      have hda := hd a
      constructor
      · rintro ⟨hle, hs⟩ r rs ⟨e1, e2⟩; subst e1 e2
        have := (ih (u + i.demand a) (by omega) hle).1 hs r1 rs1 h1
        refine ⟨?_, this.2⟩
        have h2 := this.1
        simp only [routeLoad, List.map_cons, List.sum_cons] at h2 ⊢
        omega
      · intro h
        have h2 := h (a :: r1) rs1 ⟨rfl, rfl⟩
        have hr1 := routeLoad_nonneg i hd r1
        have h3 := h2.1
        simp only [routeLoad, List.map_cons, List.sum_cons] at h3 hr1
        have hle : u + i.demand a ≤ i.cap := by omega
        refine ⟨hle, (ih (u + i.demand a) (by omega) hle).2 ?_⟩
        intro r rs hrs
        rw [h1] at hrs
        simp only [List.cons.injEq] at hrs
        obtain ⟨e1, e2⟩ := hrs; subst e1 e2
        exact ⟨by simp only [routeLoad]; omega, h2.2⟩

theorem scan_canonAux (i : Inst) (as : List Nat) :
    ∀ b u, (b = true → u = 0) → (scanOk i u (canonAux b as) ↔ scanOk i u as) := by
  induction as with
  | nil => intro b u _; simp [canonAux]
  | cons a as ih =>
    intro b u hb
    simp only [canonAux]
    by_cases h0 : a = 0
    · subst h0
      cases b
      · simp only [if_true, Bool.false_eq_true, if_false, scanOk]
        exact ih true 0 (fun _ => rfl)
      · have hu := hb rfl
        subst hu
        simp only [if_true, scanOk]
        exact ih true 0 (fun _ => rfl)
    · simp only [h0, if_false, scanOk]
      rw [ih false (u + i.demand a) (by simp)]

theorem scan_append_zero (i : Inst) (c : List Nat) : ∀ u, scanOk i u (c ++ [0]) ↔ scanOk i u c := by
  induction c with
  | nil => intro u; simp [scanOk]
  | cons a as ih =>
    intro u
    simp only [List.cons_append, scanOk]
    by_cases h0 : a = 0
    · simp [h0, ih]
    · simp [h0, ih]

/-- canonicalisation keeps a solution feasible -/
theorem feasible_canon (i : Inst) (hd : ∀ j, 0 ≤ i.demand j) (hcap : 0 ≤ i.cap) (as : List Nat)
    (hf : Feasible i as) : Feasible i (canon as) := by
  have hscan : scanOk i 0 as := (scan_iff_routes i hd hcap as 0 (Int.le_refl 0) hcap).2
    (fun r rs hrs => ⟨by have := hf.load r (by rw [hrs]; simp); omega,
      fun r' hr' => hf.load r' (by rw [hrs]; simp [hr'])⟩)
  have hscan' : scanOk i 0 (canonAux true as) := (scan_canonAux i as true 0 (fun _ => rfl)).2 hscan
  have hscan'' : scanOk i 0 (canon as) := by
    simp only [canon]; split
    · exact hscan'
    · exact (scan_append_zero i _ 0).2 hscan'
  refine ⟨?_, ?_, ?_⟩
  · intro a ha
    simp only [canon] at ha
    split at ha
    · exact hf.range a (canonAux_mem true as a ha)
    · rcases List.mem_append.mp ha with h | h
      · exact hf.range a (canonAux_mem true as a h)
      · simp at h; omega
  · intro j hj1 hj2
    have hc := canonAux_count true as j hj1
    simp only [canon]
    split
    · rw [hc]; exact hf.once j hj1 hj2
    · rw [List.count_append, hc, hf.once j hj1 hj2]
      have : (0 == j) = false := by simp; omega
      simp [List.count_cons, this]
  · intro r hr
    obtain ⟨r1, rs1, h1⟩ := routes_cons_exists (canon as)
    have := (scan_iff_routes i hd hcap (canon as) 0 (Int.le_refl 0) hcap).1 hscan'' r1 rs1 h1
    rw [h1] at hr
    rcases List.mem_cons.mp hr with hh | hh
    · subst hh; omega
    · exact this.2 r hh

theorem canonical_canon (i : Inst) (hn : 1 ≤ i.n) (as : List Nat) (hf : Feasible i as) :
    Canonical (canon as) := by
  have hnd := (canonAux_nodouble true as).1
  have hhead := canonAux_head as
  -- customer 1 occurs in `as`, hence in the canonical list: it is not empty
  have h1 : 1 ∈ canonAux true as := by
    have := hf.once 1 (Nat.le_refl 1) hn
    have hc := canonAux_count true as 1 (Nat.le_refl 1)
    exact List.count_pos_iff.mp (by omega)
  simp only [canon]
  split
  · exact ⟨hhead, hnd, by assumption⟩
  · rename_i h0
    refine ⟨?_, noDoubleDepot_append_zero _ hnd h0, by simp⟩
    cases hc : canonAux true as with
    | nil => rw [hc] at h1; simp at h1
    | cons c cs =>
      rw [hc] at hhead
      simpa using hhead

/-- **C05 (CVRP), optimum form.** The rewards of finished mask-confined episodes are exactly the
negated objectives of the feasible solutions: every finished episode is a feasible solution whose
reward is minus its objective, and every feasible solution — canonical or not — has a finished
mask-confined episode with the same objective.  Hence the best reward reachable through the mask
equals the optimum (in particular when the optimum fills a vehicle exactly). -/
theorem opt_reachable (i : Inst) (hd : ∀ j, 0 ≤ i.demand j) (hcap : 0 ≤ i.cap) (h00 : i.D 0 0 = 0)
    (hn : 1 ≤ i.n) :
    (∀ as s, Run env i (env.reset i) as s → env.done i s = true →
        Feasible i as ∧ reward i as = - objective i as) ∧
    (∀ as, Feasible i as → ∃ as' s, Run env i (env.reset i) as' s ∧ env.done i s = true ∧
        reward i as' = - objective i as) := by
  refine ⟨fun as s hr hdn => ⟨feasible_of_run i hcap hr hdn, reward_eq_objective i h00 as⟩, ?_⟩
  intro as hf
  have hf' := feasible_canon i hd hcap as hf
  obtain ⟨s, hrun, hdone⟩ := run_of_feasible i hd (canon as) hf' (canonical_canon i hn as hf)
  exact ⟨canon as, s, hrun, hdone, by rw [reward_eq_objective i h00, objective_canon i h00]⟩

/-- the optimum is attained through the mask: if `as` is an optimal feasible solution, some finished
mask-confined episode has reward `−objective as`, and no finished episode has a larger reward -/
theorem best_reward_eq_optimum (i : Inst) (hd : ∀ j, 0 ≤ i.demand j) (hcap : 0 ≤ i.cap)
    (h00 : i.D 0 0 = 0) (hn : 1 ≤ i.n) (opt : List Nat) (hopt : Feasible i opt)
    (hmin : ∀ as, Feasible i as → objective i opt ≤ objective i as) :
    (∃ as s, Run env i (env.reset i) as s ∧ env.done i s = true ∧ reward i as = - objective i opt) ∧
    (∀ as s, Run env i (env.reset i) as s → env.done i s = true → reward i as ≤ - objective i opt) := by
  obtain ⟨h1, h2⟩ := opt_reachable i hd hcap h00 hn
  refine ⟨h2 opt hopt, fun as s hr hdn => ?_⟩
  obtain ⟨hf, hrw⟩ := h1 as s hr hdn
  have := hmin as hf
  omega

end Rl4co.Cvrp

namespace Rl4co.Cvrp
/-- Non-vacuity: hypotheses are satisfiable, and an exact-fill optimum `[1,2,0]` is reachable. -/
example : ∃ as s, Run env ⟨2, 8, fun _ => 4, fun a b => if a = b then 0 else 1⟩
    (env.reset ⟨2, 8, fun _ => 4, fun a b => if a = b then 0 else 1⟩) as s ∧
    env.done ⟨2, 8, fun _ => 4, fun a b => if a = b then 0 else 1⟩ s = true ∧
    reward ⟨2, 8, fun _ => 4, fun a b => if a = b then 0 else 1⟩ as =
      - Spec.Cvrp.objective ⟨2, 8, fun _ => 4, fun a b => if a = b then 0 else 1⟩ [1, 2] :=
  (opt_reachable _ (by intro j; simp) (by decide) (by simp) (by decide)).2 [1, 2]
    ((Spec.Cvrp.feasible_iff _ _).1 (by decide))
end Rl4co.Cvrp
