/-
C04 / C08 for FLP and MCP at the level of the BATCH: the decoding loop `while not done.all()` over rows with
their own quotas (`Bat.Loop`, `Rl4co/Env/SelectBatch.lean`), the batched `_step` of FLP with its batch-wide
`nonzero().view(B, -1)` (`Flp.batchStep_eq_map`), MCP's `[B,B]` `done` matrix (`Mcp.batchDone_eq_row`), the
positive theorem for equal quotas (`batch_equal_quota`) and the mixed-quota FINDING as a theorem about the loop
(`batch_quota_statement` / `batch_quota_counterexample`).  No Mathlib.
-/
import Rl4co.Env.SelectBatch
import Rl4co.Props.C08.Flp
import Rl4co.Props.C08.Mcp
import Rl4co.Props.C03.Flp
import Rl4co.Props.C03.Mcp

namespace Rl4co

/-! ### generic facts about the decoding loop -/
namespace Bat
variable {I S : Type} {e : Env I S}

theorem allDone_iff (b : Bat I S) : allDone e b = true ↔ ∀ r, r < b.B → e.done (b.inst r) (b.st r) = true := by
  simp [allDone, List.all_eq_true, List.mem_range]

theorem not_allDone (b : Bat I S) (h : allDone e b = false) : ∃ r, r < b.B ∧ e.done (b.inst r) (b.st r) = false := by
  apply Classical.byContradiction
  intro hne
  have : allDone e b = true := (allDone_iff b).mpr (fun r hr => by
    cases hd : e.done (b.inst r) (b.st r)
    · exact absurd ⟨r, hr, hd⟩ hne
    · rfl)
  rw [this] at h; cases h

/-- every row of the loop is a mask-confined run of that row's own environment, of the common length -/
theorem Loop.rows {b b' : Bat I S} {steps : List (Nat → Nat)} (h : Loop e b steps b') :
    b'.B = b.B ∧ ∀ r, r < b.B → b'.inst r = b.inst r ∧
      Run e (b.inst r) (b.st r) (rowActs steps r) (b'.st r) := by
  induction h with
  | stop _ => exact ⟨rfl, fun r _ => ⟨rfl, Run.nil _⟩⟩
  | @step b b' acts steps _ ha _ ih =>
    refine ⟨ih.1, fun r hr => ?_⟩
    obtain ⟨h1, h2⟩ := ih.2 r hr
    exact ⟨h1, Run.cons (ha r hr).1 (ha r hr).2 h2⟩

theorem Loop.allDone_end {b b' : Bat I S} {steps : List (Nat → Nat)} (h : Loop e b steps b') :
    allDone e b' = true := by
  induction h with
  | stop hd => exact hd
  | step _ _ _ ih => exact ih

/-- before each step the loop takes, some row is unfinished -/
theorem Loop.running {b b' : Bat I S} {steps : List (Nat → Nat)} (h : Loop e b steps b') :
    ∀ k, k < steps.length → ∃ r, r < b.B ∧
      e.done (b.inst r) (exec e (b.inst r) (b.st r) ((rowActs steps r).take k)) = false := by
  induction h with
  | stop _ => intro k hk; simp at hk
  | @step b b' acts steps hnd _ _ ih =>
    intro k hk
    cases k with
    | zero =>
      obtain ⟨r, hr, hd⟩ := not_allDone b hnd
      exact ⟨r, hr, by simpa [exec] using hd⟩
    | succ k =>
      obtain ⟨r, hr, hd⟩ := ih k (by simpa using hk)
      exact ⟨r, hr, by simpa [rowActs, exec, stepRows] using hd⟩

theorem rowActs_length (steps : List (Nat → Nat)) (r : Nat) : (rowActs steps r).length = steps.length := by
  simp [rowActs]

end Bat

/-- a prefix of a mask-confined run is a mask-confined run -/
theorem Run.take {I S : Type} {e : Env I S} {i : I} {s s' : S} {as : List Nat} (h : Run e i s as s') (k : Nat) :
    Run e i s (as.take k) (exec e i s (as.take k)) := by
  induction h generalizing k with
  | nil s => simpa [exec] using Run.nil s
  | cons h1 h2 _ ih =>
    cases k with
    | zero => simpa [exec] using Run.nil _
    | succ k => simpa [exec] using Run.cons h1 h2 (ih k)

/-! ### selection environments in the loop (any `Sel.View`) -/
namespace Sel
open Bat
variable {I S : Type} {e : Env I S} (v : View e)

/-- the loop started at reset runs exactly as long as the largest quota of the batch:
every quota is reached, and (if any step is taken) some row's quota equals the number of steps -/
theorem loop_length {B : Nat} {inst : Nat → I} (hq : ∀ r, r < B → 1 ≤ v.quota (inst r))
    {steps : List (Nat → Nat)} {b' : Bat I S} (h : Loop e (Bat.reset e B inst) steps b') :
    (∀ r, r < B → v.quota (inst r) ≤ steps.length) ∧
    (steps ≠ [] → ∃ r, r < B ∧ v.quota (inst r) = steps.length) := by
  have hrows := h.rows
  have hend := (allDone_iff b').mp h.allDone_end
  have hge : ∀ r, r < B → v.quota (inst r) ≤ steps.length := by
    intro r hr
    obtain ⟨h1, h2⟩ := hrows.2 r hr
    have hd := hend r (by rw [hrows.1]; exact hr)
    rw [h1] at hd
    have := (done_iff v (hq r hr) h2).mp hd
    rwa [rowActs_length] at this
  refine ⟨hge, fun hne => ?_⟩
  have hpos : 0 < steps.length := List.length_pos_iff.mpr hne
  obtain ⟨r, hr, hd⟩ := h.running (steps.length - 1) (by omega)
  refine ⟨r, hr, ?_⟩
  obtain ⟨_, h2⟩ := hrows.2 r hr
  have hrun := h2.take (steps.length - 1)
  have hlt := (not_congr (done_iff v (hq r hr) hrun)).mp (by rw [show inst r = (Bat.reset e B inst).inst r from rfl, hd]; simp)
  have hlen : ((rowActs steps r).take (steps.length - 1)).length = steps.length - 1 := by
    rw [List.length_take, rowActs_length]; omega
  rw [hlen] at hlt
  have := hge r hr
  omega

/-- **positive batch theorem**: in a batch whose rows all have the quota `q`, the loop takes exactly
`q` steps, and every row selects `q` pairwise distinct items that its reset mask offered -/
theorem loop_equal_quota {B : Nat} {inst : Nat → I} {q : Int} (hq1 : 1 ≤ q)
    (hq : ∀ r, r < B → v.quota (inst r) = q) (hB : 0 < B)
    {steps : List (Nat → Nat)} {b' : Bat I S} (h : Loop e (Bat.reset e B inst) steps b') :
    (steps.length : Int) = q ∧ ∀ r, r < B →
      ((rowActs steps r).length : Int) = v.quota (inst r) ∧ (rowActs steps r).Nodup ∧
      ∀ a ∈ rowActs steps r, a < e.nAct (inst r) ∧ v.allowed (inst r) a = true := by
  have hl := loop_length v (fun r hr => by rw [hq r hr]; exact hq1) h
  have hlen : (steps.length : Int) = q := by
    have h0 := hl.1 0 hB
    rw [hq 0 hB] at h0
    have hne : steps ≠ [] := by intro h0'; subst h0'; simp at h0; omega
    obtain ⟨r, hr, he⟩ := hl.2 hne
    rw [hq r hr] at he; exact he.symm
  refine ⟨hlen, fun r hr => ?_⟩
  obtain ⟨_, h2⟩ := h.rows.2 r hr
  have hi := inv_of_run v h2
  exact ⟨by rw [rowActs_length, hq r hr]; exact hlen, hi.nodup, hi.ok⟩

end Sel

/-! ### helper lemmas on counts and on `nonzero().view(B, -1)` -/

theorem cnt_add_cnt_not (n : Nat) (p : Nat → Bool) : cnt n p + cnt n (fun j => !p j) = n := by
  induction n with
  | zero => simp [cnt]
  | succ n ih => rw [cnt_succ, cnt_succ]; cases p n <;> simp <;> omega

theorem flatMap_range_length (B w : Nat) (f : Nat → List Nat) (hw : ∀ r, r < B → (f r).length = w) :
    ((List.range B).flatMap f).length = B * w := by
  induction B with
  | zero => simp
  | succ B ih =>
    rw [List.range_succ, List.flatMap_append, List.length_append, ih (fun r hr => hw r (by omega))]
    simp [hw B (by omega), Nat.succ_mul]

theorem flatMap_range_piece (B w : Nat) (f : Nat → List Nat) (hw : ∀ r, r < B → (f r).length = w)
    (r : Nat) (hr : r < B) : (((List.range B).flatMap f).drop (r * w)).take w = f r := by
  induction B with
  | zero => omega
  | succ B ih =>
    have hlen := flatMap_range_length B w f (fun r hr => hw r (by omega))
    rw [List.range_succ, List.flatMap_append]
    have hfB : List.flatMap f [B] = f B := by simp
    rw [hfB]
    rcases Nat.lt_succ_iff_lt_or_eq.mp hr with hlt | heq
    · have h1 : r * w ≤ ((List.range B).flatMap f).length := by
        rw [hlen]; exact Nat.mul_le_mul_right w (by omega)
      have h2 : (r + 1) * w ≤ B * w := Nat.mul_le_mul_right w hlt
      rw [List.drop_append_of_le_length h1, List.take_append_of_le_length]
      · exact ih (fun r hr => hw r (by omega)) hlt
      · rw [List.length_drop, hlen]; rw [Nat.succ_mul] at h2; omega
    · subst heq
      have : r * w = ((List.range r).flatMap f).length := hlen.symm
      rw [this, List.drop_left, List.take_of_length_le]
      rw [hw r (by omega)]; exact Nat.le_refl _

namespace Flp
open Bat

/-- number of chosen locations after a mask-confined run = number of steps -/
theorem chosen_count {i : Inst} {s : State} {as : List Nat} (h : Run env i (env.reset i) as s) :
    (chosenIdx i.n s.chosen).length = as.length := by
  have hf := (Sel.inv_of_run view h).free
  have h1 : cnt i.n (fun _ : Nat => true) = i.n := cnt_true i.n
  have h2 := cnt_add_cnt_not i.n s.chosen
  show cnt i.n s.chosen = as.length
  have hf' : cnt i.n (fun j => !s.chosen j) + as.length = cnt i.n (fun _ : Nat => true) := hf
  rw [h1] at hf'
  omega

/-- **batchStep_eq_map (FLP)**: when the rows of the batch are mask-confined runs of one common length
(which is what the decoding loop produces, `Bat.Loop.rows`), the batched `_step` — with its batch-wide
`nonzero().view(B, -1)` — is the row-wise map of the per-instance step. -/
theorem batchStep_eq_map (b : Bat Inst State) (acts : Nat → Nat) (t : Nat) (hist : Nat → List Nat)
    (hrun : ∀ r, r < b.B → Run env (b.inst r) (env.reset (b.inst r)) (hist r) (b.st r) ∧ (hist r).length = t)
    (hadm : Admitted env b acts) :
    ∀ r, r < b.B → (batchStep b acts).st r = env.step (b.inst r) (b.st r) (acts r) := by
  intro r hr
  have hB : 0 < b.B := by omega
  -- every row holds t+1 chosen locations after this step
  have hw : ∀ r, r < b.B →
      (chosenIdx (b.inst r).n (upd (b.st r).chosen (acts r) true)).length = t + 1 := by
    intro r hr
    have hs := (hrun r hr).1.snoc (hadm r hr).1 (hadm r hr).2
    have := chosen_count hs
    rw [List.length_append, (hrun r hr).2] at this
    exact this
  have hflat := flatMap_range_length b.B (t + 1)
    (fun r => chosenIdx (b.inst r).n (upd (b.st r).chosen (acts r) true)) hw
  have hpiece := flatMap_range_piece b.B (t + 1)
    (fun r => chosenIdx (b.inst r).n (upd (b.st r).chosen (acts r) true)) hw r hr
  have hview : viewRow b.B (flatIdx b.B (fun r => (b.inst r).n) (fun r => upd (b.st r).chosen (acts r) true)) r
      = chosenIdx (b.inst r).n (upd (b.st r).chosen (acts r) true) := by
    unfold viewRow flatIdx
    rw [hflat, Nat.mul_div_cancel_left _ hB]
    exact hpiece
  simp only [batchStep, env, step]
  rw [hview]
  have hd : (fun j => minList ((chosenIdx (b.inst r).n (upd (b.st r).chosen (acts r) true)).map
      (fun c => gathered Params.flpStepGatherDim (b.inst r) c j))) =
      curMinDist (b.inst r) (upd (b.st r).chosen (acts r) true) := by
    funext j; simp [curMinDist, minOver, Params.flpStepMinDim]
  rw [hd]

/-- outside that regime the `view` really mixes rows: row 0 holds one chosen location, row 1 three
(not reachable through the masks in lock-step) — row 0 is handed `[0, 0]`, i.e. one of row 1's indices -/
example : viewRow 2 (flatIdx 2 (fun _ => 3) (fun r j => if r = 0 then j = 0 else true)) 0 = [0, 0] := by decide

/-- Full batch statement of C08: every row of every batch the loop decodes selects exactly its own quota. -/
def batch_quota_statement : Prop :=
  ∀ (B : Nat) (inst : Nat → Inst) (steps : List (Nat → Nat)) (b' : Bat Inst State),
    (∀ r, r < B → WF (inst r)) → Loop env (Bat.reset env B inst) steps b' →
    ∀ r, r < B → ((rowActs steps r).length : Int) = (inst r).quota

/-- witness: the same two locations in both rows, quotas 1 and 2; both rows select 0 then 1 -/
def cexBatch (r : Nat) : Inst := if r = 0 then cexInst else { cexInst with quota := 2 }

theorem cexBatch_loop : Loop env (Bat.reset env 2 cexBatch) [fun _ => 0, fun _ => 1]
    (stepRows env (stepRows env (Bat.reset env 2 cexBatch) (fun _ => 0)) (fun _ => 1)) := by
  refine Loop.step (by decide) ?_ (Loop.step (by decide) ?_ (Loop.stop (by decide)))
  · intro r hr
    have : r = 0 ∨ r = 1 := by simp [Bat.reset] at hr; omega
    rcases this with h | h <;> subst h <;> exact ⟨by decide, by decide⟩
  · intro r hr
    have : r = 0 ∨ r = 1 := by simp [Bat.reset, stepRows] at hr; omega
    rcases this with h | h <;> subst h <;> exact ⟨by decide, by decide⟩

theorem batch_quota_counterexample : ¬ batch_quota_statement := by
  intro h
  have hwf : ∀ r, r < 2 → WF (cexBatch r) := by
    intro r hr
    have : r = 0 ∨ r = 1 := by omega
    rcases this with h | h <;> subst h <;> exact ⟨by decide, by decide⟩
  have := h 2 cexBatch _ _ hwf cexBatch_loop 0 (by omega)
  exact absurd this (by decide)

/-- … and its reward in the batch (0) is not the reward of its own one-location selection (−512) -/
example : reward (cexBatch 0) ((stepRows env (stepRows env (Bat.reset env 2 cexBatch) (fun _ => 0)) (fun _ => 1)).st 0) = 0 ∧
    reward (cexBatch 0) (env.step (cexBatch 0) (env.reset (cexBatch 0)) 0) = -512 := by decide

/-- **C08/C04 (FLP), positive batch theorem**: in a batch whose rows share the quota `q` (all the
bundled generator produces) the loop takes exactly `q` steps, every row's selection is feasible by
the independent specification, and its reward is minus the objective of exactly that selection. -/
theorem batch_equal_quota {B : Nat} {inst : Nat → Inst} {q : Int} (hB : 0 < B)
    (hwf : ∀ r, r < B → WF (inst r)) (hq : ∀ r, r < B → (inst r).quota = q)
    {steps : List (Nat → Nat)} {b' : Bat Inst State} (h : Loop env (Bat.reset env B inst) steps b') :
    (steps.length : Int) = q ∧ ∀ r, r < B →
      Spec.Flp.Feasible (inst r) (rowActs steps r) ∧
      reward (inst r) (b'.st r) = - Spec.Flp.objective (inst r) (rowActs steps r) := by
  have hq1 : 1 ≤ q := by rw [← hq 0 hB]; exact (hwf 0 hB).1
  obtain ⟨hlen, hrows⟩ := Sel.loop_equal_quota view hq1 hq hB h
  refine ⟨hlen, fun r hr => ?_⟩
  obtain ⟨h1, h2, h3⟩ := hrows r hr
  obtain ⟨_, hrun⟩ := h.rows.2 r hr
  have hne : rowActs steps r ≠ [] := by
    intro h0; rw [h0] at h1; simp [view] at h1; have := (hwf r hr).1; omega
  exact ⟨⟨h1, h2, fun a ha => (h3 a ha).1⟩, reward_eq_objective (inst r) hrun hne⟩

/-- in general the loop runs to the largest quota of the batch -/
theorem batch_length {B : Nat} {inst : Nat → Inst} (hwf : ∀ r, r < B → WF (inst r))
    {steps : List (Nat → Nat)} {b' : Bat Inst State} (h : Loop env (Bat.reset env B inst) steps b') :
    (∀ r, r < B → (inst r).quota ≤ steps.length) ∧
    (steps ≠ [] → ∃ r, r < B ∧ (inst r).quota = steps.length) :=
  Sel.loop_length view (fun r hr => (hwf r hr).1) h

end Flp

namespace Mcp
open Bat

/-- the counter after a mask-confined run is the number of steps -/
theorem ctr_eq {i : Inst} {s : State} {as : List Nat} (h : Run env i (env.reset i) as s) : s.i = as.length :=
  (Sel.inv_of_run view h).ctr

/-- **MCP `done` of shape `[B,B]`**: when the rows are runs of one common length, every entry of row `r`
of the matrix equals the per-instance `done` of row `r` after the step … -/
theorem batchDone_eq_row (b : Bat Inst State) (acts : Nat → Nat) (t : Nat) (hist : Nat → List Nat)
    (hrun : ∀ r, r < b.B → Run env (b.inst r) (env.reset (b.inst r)) (hist r) (b.st r) ∧ (hist r).length = t)
    (r c : Nat) (hr : r < b.B) (hc : c < b.B) :
    batchDone b r c = env.done (b.inst r) (env.step (b.inst r) (b.st r) (acts r)) := by
  have h1 := ctr_eq (hrun r hr).1
  have h2 := ctr_eq (hrun c hc).1
  simp only [batchDone, env, done, step]
  rw [h1, h2, (hrun r hr).2, (hrun c hc).2]

/-- … hence the loop guard `.all()` over the matrix is the guard over the per-row flags. -/
theorem batchAllDone_eq (b : Bat Inst State) (acts : Nat → Nat) (t : Nat) (hist : Nat → List Nat)
    (hrun : ∀ r, r < b.B → Run env (b.inst r) (env.reset (b.inst r)) (hist r) (b.st r) ∧ (hist r).length = t) :
    batchAllDone b = allDone env (stepRows env b acts) := by
  rw [Bool.eq_iff_iff, allDone_iff]
  simp only [batchAllDone, List.all_eq_true, List.mem_range, stepRows]
  constructor
  · intro h r hr
    rw [← batchDone_eq_row b acts t hist hrun r r hr hr]; exact h r hr r hr
  · intro h r hr c hc
    rw [batchDone_eq_row b acts t hist hrun r c hr hc]; exact h r hr

def batch_quota_statement : Prop :=
  ∀ (B : Nat) (inst : Nat → Inst) (steps : List (Nat → Nat)) (b' : Bat Inst State),
    (∀ r, r < B → WF (inst r)) → Loop env (Bat.reset env B inst) steps b' →
    ∀ r, r < B → ((rowActs steps r).length : Int) = (inst r).quota

def cexBatch (r : Nat) : Inst := if r = 0 then cexInst else { cexInst with quota := 2 }

theorem cexBatch_loop : Loop env (Bat.reset env 2 cexBatch) [fun _ => 0, fun _ => 1]
    (stepRows env (stepRows env (Bat.reset env 2 cexBatch) (fun _ => 0)) (fun _ => 1)) := by
  refine Loop.step (by decide) ?_ (Loop.step (by decide) ?_ (Loop.stop (by decide)))
  · intro r hr
    have : r = 0 ∨ r = 1 := by simp [Bat.reset] at hr; omega
    rcases this with h | h <;> subst h <;> exact ⟨by decide, by decide⟩
  · intro r hr
    have : r = 0 ∨ r = 1 := by simp [Bat.reset, stepRows] at hr; omega
    rcases this with h | h <;> subst h <;> exact ⟨by decide, by decide⟩

theorem batch_quota_counterexample : ¬ batch_quota_statement := by
  intro h
  have hwf : ∀ r, r < 2 → WF (cexBatch r) := by
    intro r hr
    have : r = 0 ∨ r = 1 := by omega
    rcases this with h | h <;> subst h <;> exact ⟨by decide, by decide⟩
  have := h 2 cexBatch _ _ hwf cexBatch_loop 0 (by omega)
  exact absurd this (by decide)

example : reward (cexBatch 0) ((stepRows env (stepRows env (Bat.reset env 2 cexBatch) (fun _ => 0)) (fun _ => 1)).st 0) = 3 ∧
    reward (cexBatch 0) (env.step (cexBatch 0) (env.reset (cexBatch 0)) 0) = 1 := by decide

theorem batch_equal_quota {B : Nat} {inst : Nat → Inst} {q : Int} (hB : 0 < B)
    (hwf : ∀ r, r < B → WF (inst r)) (hq : ∀ r, r < B → (inst r).quota = q)
    {steps : List (Nat → Nat)} {b' : Bat Inst State} (h : Loop env (Bat.reset env B inst) steps b') :
    (steps.length : Int) = q ∧ ∀ r, r < B →
      Spec.Mcp.Feasible (inst r) (rowActs steps r) ∧
      reward (inst r) (b'.st r) = Spec.Mcp.objective (inst r) (rowActs steps r) := by
  have hq1 : 1 ≤ q := by rw [← hq 0 hB]; exact (hwf 0 hB).1
  obtain ⟨hlen, hrows⟩ := Sel.loop_equal_quota view hq1 hq hB h
  refine ⟨hlen, fun r hr => ?_⟩
  obtain ⟨h1, h2, h3⟩ := hrows r hr
  obtain ⟨_, hrun⟩ := h.rows.2 r hr
  exact ⟨⟨h1, h2, fun a ha => (h3 a ha).1⟩, reward_eq_objective (inst r) hrun⟩

theorem batch_length {B : Nat} {inst : Nat → Inst} (hwf : ∀ r, r < B → WF (inst r))
    {steps : List (Nat → Nat)} {b' : Bat Inst State} (h : Loop env (Bat.reset env B inst) steps b') :
    (∀ r, r < B → (inst r).quota ≤ steps.length) ∧
    (steps ≠ [] → ∃ r, r < B ∧ (inst r).quota = steps.length) :=
  Sel.loop_length view (fun r hr => (hwf r hr).1) h

end Mcp
end Rl4co
