/-
C04 for OP (padding part): once an instance is finished, the only action its mask offers is the
depot, and stepping it again (as happens while slower batch-mates are still running) changes neither
`done`, nor the advertised mask, nor the reward of the episode.  The batch part of C04 is carried by
the correspondence: the model is per-instance by construction, every row of the real batched
environment is compared with it, and the only batch-global construct of the code (the single-column
test `actions.size(-1) == 1` in `_get_reward`) cannot apply to a finished batch (C03:
`two_le_length_of_done`).
-/
import Rl4co.Env.Op
import Rl4co.Props.C02.Op
import Rl4co.Props.C03.Op

namespace Rl4co.Op
open Rl4co.Prize

/-- **C04 (OP), padding is a no-op.** -/
theorem pad_noop (i : Inst) {as : List Nat} {s : State} (h : Run env i (env.reset i) as s)
    (hd : env.done i s = true) (a : Nat) (hm : env.mask i s a = true) :
    a = 0 ∧
    env.done i (env.step i s a) = true ∧
    (∀ b, env.mask i (env.step i s a) b = env.mask i s b) ∧
    reward i (as ++ [a]) = reward i as := by
  have hreach : Reach env i s := ⟨as, h⟩
  have hinv := inv_of_reach' i hreach
  have hv := hinv.done_vis hd
  have ha0 : a = 0 := by
    have := mask_of_vis0 i s hv a
    rw [hm] at this
    simpa using this.symm
  have hd' := done_stable i s a hreach hd hm
  refine ⟨ha0, hd', ?_, ?_⟩
  · intro b
    have hv' : (env.step i s a).vis 0 = true := by
      subst ha0; simp [env, step]
    rw [mask_of_vis0 i s hv b, mask_of_vis0 i _ hv' b]
  · subst ha0
    have h2 := two_le_length_of_done i h hd
    have hl1 : as.length ≠ 1 := by omega
    have hl2 : (as ++ [0]).length ≠ 1 := by
      have : (as ++ [0]).length = as.length + 1 := by simp
      omega
    rw [reward_eq, reward_eq]
    simp only [hl1, hl2, if_false]
    rw [gatherSum_append, gatherSum_zero]
    omega

/-- Non-vacuity: the finished episode `[1, 0]` of the example instance, padded once. -/
example : env.done exInst (exec env exInst (env.reset exInst) [1, 0]) = true ∧
    env.mask exInst (exec env exInst (env.reset exInst) [1, 0]) 0 = true := by decide

end Rl4co.Op
