/- C04 for FJSP / JSSP, part 3: whole batched episodes equal row-wise stepping (`runBatch_eq_runRows`). -/
import Rl4co.Props.C04.FjspPadding
namespace Rl4co.Fjsp

/-! ### (vi) whole batched episodes -/

/-- a batched episode: `steps[t][k]` is the action of row `k` at step `t` -/
def runBatch (fuel : Nat) : List Row → List (List Nat) → List Row
  | rows, [] => rows
  | rows, acts :: rest => runBatch fuel (stepBatch fuel (rows.zip acts)) rest

/-- the same episode with every row stepped on its own -/
def runRows : List Row → List (List Nat) → List Row
  | rows, [] => rows
  | rows, acts :: rest => runRows ((rows.zip acts).map (fun x => (x.1.1, step x.1.1 x.1.2 x.2))) rest

/-- every action of the episode is admitted by the mask of the row it is given to -/
def AdmB : List Row → List (List Nat) → Prop
  | _, [] => True
  | rows, acts :: rest =>
    (∀ x, x ∈ rows.zip acts → x.2 < nAct x.1.1 ∧ mask x.1.1 x.1.2 x.2 = true) ∧
    AdmB ((rows.zip acts).map (fun x => (x.1.1, step x.1.1 x.1.2 x.2))) rest

/-- **C04, episode form (∀ batch, ∀ step, ∀ row)**: a whole mask-confined batched episode — rows of
arbitrary well-formed instances in reachable states, finishing at different steps, padded with wait
actions — equals stepping every row alone, at every step. -/
theorem runBatch_eq_runRows (M : Nat) (steps : List (List Nat)) :
    ∀ rows : List Row, (∀ r, r ∈ rows → RowOK r ∧ r.1.M = M) → AdmB rows steps →
      runBatch (M + 1) rows steps = runRows rows steps := by
  induction steps with
  | nil => intro rows _ _; rfl
  | cons acts rest ih =>
    intro rows hok hadm
    obtain ⟨hadm1, hadm2⟩ := hadm
    have hokz : ∀ x, x ∈ rows.zip acts → RowOK x.1 ∧ x.1.1.M = M :=
      fun x hx => hok x.1 (List.of_mem_zip hx).1
    simp only [runBatch, runRows]
    rw [stepBatch_eq_map_step M (rows.zip acts) hokz hadm1]
    apply ih _ _ hadm2
    intro r hr
    obtain ⟨x, hx, rfl⟩ := List.mem_map.mp hr
    obtain ⟨⟨hwf, h2⟩, hM⟩ := hokz x hx
    obtain ⟨ha, hm⟩ := hadm1 x hx
    exact ⟨⟨hwf, inv2_step hwf h2 ha hm⟩, hM⟩

/-- non-vacuity: two different instances, one finishing three steps before the other and padded with waits -/
example :
    let rows : List Row := [(exFjsp, reset exFjsp), ({ exFjsp with endOp := fun j => 2 * j, proc := fun _ o => if o = 0 ∨ o = 2 then 3 else 0 },
                              reset { exFjsp with endOp := fun j => 2 * j, proc := fun _ o => if o = 0 ∨ o = 2 then 3 else 0 })]
    let steps := [[1, 1], [4, 4], [0, 0], [1, 0], [4, 0], [0, 0]]
    (runBatch 3 rows steps).map (fun r => (r.2.time, r.2.done)) = (runRows rows steps).map (fun r => (r.2.time, r.2.done)) ∧
    (runBatch 3 rows steps).map (fun r => (r.2.time, r.2.done)) = [(6, true), (3, true)] := by decide

end Rl4co.Fjsp
