/-
C04 for FFSP: a row's outcome does not depend on its batch-mates, its position, or on being padded
with wait actions after it finished.

The only batch-global constructs of the code are (a) `td["done"].all()` in `_step` — modelled as the
flag `g` of `stepG`, computed over the whole batch in `batchStep` — and (b) `IndexTables.bs`
(`pomo_idx = row // bs`, the machine permutation of a row under the k-major multi-start layout).
(c) `_move_to_next_machine` loops "while any row is not ready" over a shrinking index set — modelled as
`batchMoveLoop`, proved equal to the per-row loops `moveNext` (`batchMove_eq_moveNext`); the real loop
is compared with the per-row model on every run (clock of every row of every batch).

What is batch-dependent *by construction*: the reward is written, and the mask refreshed or not, at the
step where `done.all()` becomes true.  Theorems: the masks of all states in which the row still acts,
the clock, the schedule, the finishing step and the value of the reward once written are those of the
solo run; the mask of the row's *terminal* state is not (`terminal_mask_batch_dependent`, known finding).
-/
import Rl4co.Props.C02.Ffsp
namespace Rl4co.Ffsp

/-- `td["done"].all()` after the bookkeeping half of the batched `_step` -/
def allDoneAfter (rows : List (Inst × State)) (acts : List Nat) : Bool :=
  (List.zipWith (fun (r : Inst × State) a => (r.1, apply r.1 r.2 a)) rows acts).all (fun r => r.2.done)

/-- (a) **The batched `_step` is the per-row step with one common flag.** -/
theorem batchStep_eq (rows : List (Inst × State)) (acts : List Nat) :
    batchStep rows acts =
      List.zipWith (fun (r : Inst × State) a => (r.1, stepG r.1 r.2 a (allDoneAfter rows acts))) rows acts := by
  simp [batchStep, allDoneAfter, List.map_zipWith, stepG]

/-- while the row itself is unfinished after its step, the solo step *is* the step next to running
batch-mates (so every mask the row acts on, the clock and the schedule coincide) -/
theorem step_eq_stepM (i : Inst) (s : State) (a : Nat) (hd : (apply i s a).done = false) :
    step i s a = stepM i s a := by simp [step, stepM, hd]

/-- at the step that finishes the row, the solo step and the step next to running batch-mates agree on
everything except the mask and the reward field -/
theorem finishing_step_agree (i : Inst) (s : State) (a : Nat) (hd : (apply i s a).done = true) :
    (step i s a).sched = (stepM i s a).sched ∧ (step i s a).done = (stepM i s a).done ∧
    (step i s a).time = (stepM i s a).time ∧ (step i s a).sub = (stepM i s a).sub ∧
    (step i s a).jloc = (stepM i s a).jloc ∧ (step i s a).midx = (stepM i s a).midx ∧
    (step i s a).mwait = (stepM i s a).mwait ∧ (step i s a).jwait = (stepM i s a).jwait := by
  simp [step, stepM, stepG, finish, moveNext, updateMask, hd]

theorem rewardVal_congr (i : Inst) {s s' : State}
    (h : ∀ m j, j < i.J → s.sched m j = s'.sched m j) : rewardVal i s = rewardVal i s' := by
  unfold rewardVal endMax
  congr 2
  apply List.map_congr_left
  intro m _
  congr 1
  apply List.map_congr_left
  intro j hj
  rw [h m j (List.mem_range.mp hj)]

/-- (b) **Padding is a no-op.**  A finished row next to running batch-mates can only be stepped with
the wait action; that changes neither `done`, nor its mask, clock, real-job schedule or reward value. -/
theorem pad_noop (i : Inst) (h : WF i) {s : State} (hr : Reach envM i s) (hd : s.done = true)
    (a : Nat) (hm : s.mask a = true) (g : Bool) :
    a = i.J ∧ (stepG i s a g).done = true ∧
    (∀ b, (stepM i s a).mask b = s.mask b) ∧
    (∀ m j, j < i.J → (stepG i s a g).sched m j = s.sched m j) ∧
    rewardVal i (stepG i s a g) = rewardVal i s ∧
    (stepG i s a g).time = s.time ∧ (stepG i s a g).sub = s.sub := by
  have l := live_of_reach i h hr
  have haJ : a = i.J := by
    have := mask_of_done i s l hd a
    rw [hm] at this; simpa using this.symm
  have hdone := done_stable i h hr hd a hm
  have hap : (apply i s a).done = true := by
    have := hdone true; simpa [stepG, finish] using this
  have hsched : ∀ m j, j < i.J → (stepG i s a g).sched m j = s.sched m j := by
    intro m j hj
    have : (stepG i s a g).sched = (apply i s a).sched := by
      cases g <;> simp [stepG, finish, moveNext, updateMask, hap]
    rw [this, apply_sched]
    have : ¬ (m = s.midx ∧ j = a) := by omega
    simp [this]
  refine ⟨haJ, hdone g, ?_, hsched, rewardVal_congr i hsched, ?_, ?_⟩
  · intro b
    have l' := live_stepM i h s l a (by omega) hm
    rw [mask_of_done i _ l' (hdone false) b, mask_of_done i s l hd b]
  · have : (stepG i s a g).time = (apply i s a).time := by
      cases g <;> simp [stepG, finish, moveNext, updateMask, hap]
    rw [this]; rfl
  · have : (stepG i s a g).sub = (apply i s a).sub := by
      cases g <;> simp [stepG, finish, moveNext, updateMask, hap]
    rw [this]; rfl

/-- any amount of padding keeps a finished row finished with the same real-job schedule -/
theorem pads_keep (i : Inst) (h : WF i) : ∀ {pads : List Nat} {s1 s2 : State}, Reach envM i s1 →
    s1.done = true → Run envM i s1 pads s2 →
    Reach envM i s2 ∧ s2.done = true ∧ ∀ m j, j < i.J → s2.sched m j = s1.sched m j := by
  intro pads
  induction pads with
  | nil => intro s1 s2 hr hd hrun; cases hrun; exact ⟨hr, hd, fun _ _ _ => rfl⟩
  | cons a pads ih =>
    intro s1 s2 hr hd hrun
    cases hrun with
    | cons ha hm hrest =>
      have hm' : s1.mask a = true := hm
      obtain ⟨_, hd', _, hs, _⟩ := pad_noop i h hr hd a hm' false
      have hr' : Reach envM i (stepM i s1 a) := by
        obtain ⟨bs, hb⟩ := hr; exact ⟨bs ++ [a], hb.snoc ha hm⟩
      obtain ⟨r2, d2, e2⟩ := ih hr' hd' hrest
      exact ⟨r2, d2, fun m j hj => by rw [e2 m j hj]; exact hs m j hj⟩

/-- (c) **The reward does not depend on the batch-mates.**  A row that finishes with action `a` while
batch-mates run, is then padded arbitrarily long, and receives its reward at the batch's last step, gets
exactly the reward of the solo run with the same actions. -/
theorem reward_batch_invariant (i : Inst) (h : WF i) {s : State} (hr : Reach envM i s) (a : Nat)
    (ha : a < i.J + 1) (hm : s.mask a = true) (hfin : (apply i s a).done = true)
    {pads : List Nat} {s2 : State} (hp : Run envM i (stepM i s a) pads s2) (b : Nat)
    (hb : s2.mask b = true) : (stepG i s2 b true).reward = (step i s a).reward := by
  have hr1 : Reach envM i (stepM i s a) := by
    obtain ⟨bs, hbs⟩ := hr; exact ⟨bs ++ [a], hbs.snoc ha hm⟩
  have hd1 : (stepM i s a).done = true := by simp [stepM, stepG, finish, moveNext, updateMask, hfin]
  obtain ⟨r2, d2, e2⟩ := pads_keep i h hr1 hd1 hp
  obtain ⟨_, _, _, hs, _⟩ := pad_noop i h r2 d2 b hb true
  have e1 : (stepM i s a).sched = (apply i s a).sched := by
    simp [stepM, stepG, finish, moveNext, updateMask, hfin]
  have hL : (stepG i s2 b true).reward = some (rewardVal i (apply i s2 b)) := by simp [stepG, finish]
  have hR : (step i s a).reward = some (rewardVal i (apply i s a)) := by simp [step, stepG, finish, hfin]
  rw [hL, hR]
  congr 1
  apply rewardVal_congr
  intro m j hj
  have h3 : (stepG i s2 b true).sched = (apply i s2 b).sched := by simp [stepG, finish]
  rw [← h3, hs m j hj, e2 m j hj, e1]

/-- (d) **`IndexTables.bs`**: under the k-major layout of `batchify` (copy `j` of instance `b` at row
`j·B + b`) and `bs = B`, `pomo_idx = row // bs` is the copy index `j`; in particular every row of an
un-replicated batch uses permutation 0 wherever it sits. -/
theorem pomoIdx_eq (bs row : Nat) : pomoIdx bs row = row / bs := rfl

theorem pomoIdx_layout (B j b : Nat) (hb : b < B) : pomoIdx B (j * B + b) = j := by
  rw [pomoIdx_eq,
    Nat.add_comm, Nat.add_mul_div_right _ _ (by omega), Nat.div_eq_of_lt hb, Nat.zero_add]

/-- The full statement one would like — "the mask of the state a row ends in is the same alone and next
to running batch-mates" — and its refutation (1 stage, 1 machine, 1 job of duration 1). -/
def terminal_mask_independent_statement : Prop :=
  ∀ (i : Inst) (s : State) (a : Nat), WF i → Reach envM i s → s.mask a = true →
    (apply i s a).done = true → ∀ b, (step i s a).mask b = (stepM i s a).mask b

theorem terminal_mask_batch_dependent : ¬ terminal_mask_independent_statement := by
  intro hst
  have hw : WF one := ⟨by decide, by decide, by decide, fun p hp => hp, fun j m _ _ => small_lt_unset (by simp [one])⟩
  have := hst one (reset one) 0 hw ⟨[], Run.nil _⟩ (by decide) (by decide) 0
  revert this
  decide

/-- Non-vacuity of `reward_batch_invariant`: instance `one`, finishing action 0, two wait paddings. -/
example : (apply one (reset one) 0).done = true := by decide
example : Run envM one (stepM one (reset one) 0) [1, 1] (exec envM one (stepM one (reset one) 0) [1, 1]) :=
  Run.cons (by decide) (by decide) (Run.cons (by decide) (by decide) (Run.nil _))
example : (stepG one (exec envM one (stepM one (reset one) 0) [1, 1]) 1 true).reward = some (-1) := by decide


/-! ### The batched `while` of `_move_to_next_machine` is the per-row loop

`_move_to_next_machine` keeps an index set `idx` of the rows that are not yet ready, applies the loop
body to exactly those rows, and drops the rows that became ready (`idx = idx[~ready]`) until the set is
empty.  `batchMoveLoop` models this over rows tagged with "still selected"; the theorem says every row
ends exactly where its own loop `moveLoop` ends, independently of the other rows (and of how long they
keep the batch looping). -/

/-- one row of the batched loop: instance, state, still in `idx` -/
abbrev MRow := Inst × State × Bool

/-- loop body applied to the selected rows; rows that became ready leave `idx` -/
def batchMoveBody (rows : List MRow) : List MRow :=
  rows.map (fun r => if r.2.2 then (r.1, advance r.1 r.2.1, !ready r.1 (advance r.1 r.2.1)) else r)

/-- `while ~ready.all()` over the shrinking index set, with global fuel -/
def batchMoveLoop : Nat → List MRow → List MRow
  | 0, rows => rows
  | f + 1, rows => if rows.all (fun r => !r.2.2) then rows else batchMoveLoop f (batchMoveBody rows)

/-- what the batched loop does to one row, seen in isolation -/
def rowMove : Nat → MRow → MRow
  | 0, r => r
  | f + 1, r => if r.2.2 then rowMove f (r.1, advance r.1 r.2.1, !ready r.1 (advance r.1 r.2.1)) else r

theorem rowMove_inactive (f : Nat) (r : MRow) (h : r.2.2 = false) : rowMove f r = r := by
  cases f with
  | zero => rfl
  | succ f => simp [rowMove, h]

/-- **rows do not influence each other in the batched loop** -/
theorem batchMoveLoop_eq_map (f : Nat) (rows : List MRow) :
    batchMoveLoop f rows = rows.map (rowMove f) := by
  induction f generalizing rows with
  | zero => simp [batchMoveLoop, rowMove]
  | succ f ih =>
    simp only [batchMoveLoop]
    split
    · rename_i hall
      symm
      rw [List.map_congr_left (g := id)]
      · simp
      · intro r hr
        have := List.all_eq_true.mp hall r hr
        exact rowMove_inactive _ r (by simpa using this)
    · rw [ih, batchMoveBody, List.map_map]
      apply List.map_congr_left
      intro r _
      by_cases hact : r.2.2 = true
      · simp [rowMove, hact]
      · have hf : r.2.2 = false := by simpa using hact
        simp [rowMove, hf, rowMove_inactive]

/-- a selected row runs its own `moveLoop` -/
theorem rowMove_active (i : Inst) : ∀ (f : Nat) (s : State),
    (rowMove f (i, s, true)).1 = i ∧ (rowMove f (i, s, true)).2.1 = moveLoop i f s := by
  intro f
  induction f with
  | zero => intro s; exact ⟨rfl, rfl⟩
  | succ f ih =>
    intro s
    simp only [rowMove, if_true, moveLoop]
    by_cases hr : ready i (advance i s) = true
    · simp [hr, rowMove_inactive]
    · have hr' : ready i (advance i s) = false := by simpa using hr
      simp only [hr', Bool.not_false, Bool.false_eq_true, if_false]
      exact ih (advance i s)

/-- more fuel does not change the result once the loop has stopped on a ready state -/
theorem moveLoop_fuel_mono (i : Inst) : ∀ (f g : Nat) (s : State), f + 1 ≤ g →
    ready i (moveLoop i (f + 1) s) = true → moveLoop i g s = moveLoop i (f + 1) s := by
  intro f
  induction f with
  | zero =>
    intro g s hg hr
    obtain ⟨g', rfl⟩ : ∃ g', g = g' + 1 := ⟨g - 1, by omega⟩
    simp only [moveLoop] at hr ⊢
    by_cases h1 : ready i (advance i s) = true
    · simp [h1]
    · simp only [h1] at hr
      exact absurd hr h1
  | succ f ih =>
    intro g s hg hr
    obtain ⟨g', rfl⟩ : ∃ g', g = g' + 1 := ⟨g - 1, by omega⟩
    rw [moveLoop] at hr
    rw [moveLoop, moveLoop]
    by_cases h1 : ready i (advance i s) = true
    · simp [h1]
    · simp only [h1] at hr ⊢
      exact ih g' (advance i s) (by omega) hr

/-- **`_move_to_next_machine` on a batch = `moveNext` on every row**: with the rows that are not done
selected (`idx = idx[~done]`) and any global fuel covering each row's own fuel, the batched loop leaves
every row in the state its own `moveNext` produces — whatever the other rows are and however long they
keep the batch looping.  (`hready` is what `move_terminates` provides for rows of reachable states.) -/
theorem batchMove_eq_moveNext (rows : List (Inst × State)) (F : Nat)
    (hF : ∀ r ∈ rows, moveFuel r.1 r.2 ≤ F)
    (hready : ∀ r ∈ rows, r.2.done = false →
      1 ≤ moveFuel r.1 r.2 ∧ ready r.1 (moveLoop r.1 (moveFuel r.1 r.2) r.2) = true) :
    (batchMoveLoop F (rows.map (fun r => (r.1, r.2, !r.2.done)))).map (fun r => (r.1, r.2.1)) =
      rows.map (fun r => (r.1, moveNext r.1 r.2)) := by
  rw [batchMoveLoop_eq_map, List.map_map, List.map_map]
  apply List.map_congr_left
  intro r hr
  obtain ⟨i, s⟩ := r
  simp only [Function.comp]
  cases hd : s.done with
  | true =>
    simp [rowMove_inactive, moveNext, hd]
  | false =>
    obtain ⟨h1, h2⟩ := hready (i, s) hr hd
    simp only at h1
    obtain ⟨f, hf⟩ : ∃ f, moveFuel i s = f + 1 := ⟨moveFuel i s - 1, by omega⟩
    have hFle := hF (i, s) hr
    simp only at hFle h2
    rw [hf] at h2 hFle
    have hm := moveLoop_fuel_mono i f F s hFle h2
    obtain ⟨e1, e2⟩ := rowMove_active i F s
    simp only [Bool.not_false, moveNext, hd, Bool.false_eq_true, if_false]
    rw [hf, ← hm]
    exact Prod.ext e1 e2

/-- Non-vacuity: a batch of two rows, one finished (not selected) and one selected. -/
example : batchMoveLoop 10 [(one, apply one (reset one) 0, false), (one, reset one, true)] =
    [(one, apply one (reset one) 0, false), (one, reset one, true)].map (rowMove 10) :=
  batchMoveLoop_eq_map _ _

/-! ### The repaired clause for the terminal-mask finding

`terminal_mask_batch_dependent` is caused by one line: `_step` skips `_move_to_next_machine` /
`_update_step_state` when `done.all()`.  `stepGR` is the step with that shortcut removed (both always run —
`_move_to_next_machine` already leaves finished rows alone — and the reward is written when `done.all()`).
For it the full statements hold with no scope restriction: the terminal mask (indeed the whole state but
the reward field) does not depend on the batch-mates, every state reachable by *any* mask-confined run —
also beyond the point where everything is finished — offers an action, and `done` is absorbing.  On
everything the bundled loops observe, the repaired step agrees with the real one. -/

/-- second half of the repaired `_step` -/
def finishR (i : Inst) (s : State) (g : Bool) : State :=
  let s1 := updateMask i (moveNext i s)
  if g then { s1 with reward := some (rewardVal i s1) } else s1

def stepGR (i : Inst) (s : State) (a : Nat) (g : Bool) : State := finishR i (apply i s a) g

/-- the repaired environment stepped alone -/
def envR : Env Inst State where
  reset := reset
  nAct i := i.J + 1
  mask _ s a := s.mask a
  step i s a := stepGR i s a (apply i s a).done
  done _ s := s.done

/-- **repaired clause (C04)**: with the shortcut removed the state a row ends in — its mask in
particular — is the same alone and next to running batch-mates, up to the reward field -/
theorem repaired_state_batch_independent (i : Inst) (s : State) (a : Nat) (g : Bool) :
    stepGR i s a g = { stepM i s a with reward := (stepGR i s a g).reward } := by
  cases g <;> simp [stepGR, finishR, stepM, stepG, finish]

theorem repaired_terminal_mask_independent (i : Inst) (s : State) (a : Nat) (g g' : Bool) :
    (stepGR i s a g).mask = (stepGR i s a g').mask := by
  cases g <;> cases g' <;> simp [stepGR, finishR]

/-- the repaired step agrees with the real one wherever the real one is used: identical while a
batch-mate runs, and at the batch's last step identical schedule, clock, `done` and reward value -/
theorem repaired_agrees (i : Inst) (s : State) (a : Nat) :
    stepGR i s a false = stepG i s a false ∧
    ((apply i s a).done = true →
      (stepGR i s a true).sched = (stepG i s a true).sched ∧
      (stepGR i s a true).done = (stepG i s a true).done ∧
      (stepGR i s a true).time = (stepG i s a true).time ∧
      (stepGR i s a true).sub = (stepG i s a true).sub ∧
      (stepGR i s a true).reward = (stepG i s a true).reward) := by
  refine ⟨by simp [stepGR, finishR, stepG, finish], ?_⟩
  intro hd
  have hmv : moveNext i (apply i s a) = apply i s a := by simp [moveNext, hd]
  simp only [stepGR, finishR, stepG, finish, if_true, hmv]
  refine ⟨rfl, rfl, rfl, rfl, ?_⟩
  congr 1

theorem live_setReward (i : Inst) (s : State) (l : Live i s) (r : Option Int) :
    Live i { s with reward := r } :=
  ⟨core_setReward i s l.core r, l.fresh, l.rdy⟩

/-- every state of the repaired environment, reached by ANY mask-confined run, satisfies the invariant -/
theorem repaired_live (i : Inst) (h : WF i) {s : State} (hr : Reach envR i s) : Live i s :=
  inv_of_reach (e := envR) (Inv := Live i) (live_reset i h)
    (fun s a hl ha hm => by
      show Live i (stepGR i s a (apply i s a).done)
      rw [repaired_state_batch_independent]
      exact live_setReward i _ (live_stepM i h s hl a ha hm) _) hr

/-- **repaired clause (C02)**: no scope restriction — every reachable state offers an action … -/
theorem repaired_mask_nonempty (i : Inst) (h : WF i) {s : State} (hr : Reach envR i s) :
    ∃ a, a < envR.nAct i ∧ envR.mask i s a = true :=
  mask_nonempty_live i s (repaired_live i h hr)

/-- … and `done` is absorbing under every admitted step, also after the whole batch is finished -/
theorem repaired_done_absorbing (i : Inst) (h : WF i) {s : State} (hr : Reach envR i s)
    (hd : s.done = true) (a : Nat) (hm : s.mask a = true) : (envR.step i s a).done = true := by
  have l := repaired_live i h hr
  show (stepGR i s a (apply i s a).done).done = true
  rw [repaired_state_batch_independent]
  exact done_stable_live i h s l hd a hm false

/-- Non-vacuity: on `one` the real solo step leaves the stale mask `10`, the repaired one `01` — and
stepping on with the wait action keeps the repaired row finished. -/
example : (step one (reset one) 0).mask 0 = true ∧ (envR.step one (reset one) 0).mask 0 = false ∧
    (envR.step one (reset one) 0).mask 1 = true ∧
    (envR.step one (envR.step one (reset one) 0) 1).done = true ∧
    (envR.step one (reset one) 0).reward = (step one (reset one) 0).reward := by decide

end Rl4co.Ffsp
