/-
C04 for CVRPTW (padding part): once an instance is finished the only action its mask can offer is the
depot, and stepping it again (as happens while slower batch-mates are still running) changes neither
`done`, nor the advertised mask, nor the reward.  (That the depot IS offered in a finished state is
C02's `mask_nonempty`.)  The batch part of C04 is carried by the correspondence: the model is
per-instance by construction and every row of the real batched environment is compared with it.
-/
import Rl4co.Env.Cvrptw
import Rl4co.Props.C04.Cvrp
import Rl4co.Props.C01.Cvrptw
import Rl4co.Props.C02.Cvrptw

namespace Rl4co.Cvrptw

/-- **C04 (CVRPTW), padding is a no-op.** -/
theorem pad_noop (i : Inst) (h00 : i.base.D 0 0 = 0) (hE : 0 ≤ i.twE 0) (s : State) (as : List Nat)
    (hd : env.done i s = true) (a : Nat) (ha : a < env.nAct i) (hm : env.mask i s a = true) :
    a = 0 ∧
    env.done i (env.step i s a) = true ∧
    (∀ b, b < env.nAct i → env.mask i (env.step i s a) b = env.mask i s b) ∧
    reward i (as ++ [a]) = reward i as := by
  have hm' : (Cvrp.mask i.base s.base a && canReach i s a) = true := hm
  rw [Bool.and_eq_true] at hm'
  obtain ⟨ha0, hd', hmask, hrew⟩ := Cvrp.pad_noop i.base h00 s.base as hd a ha hm'.1
  refine ⟨ha0, hd', ?_, hrew⟩
  subst ha0
  intro b hb
  have hb1 := hmask b hb
  have e1 : env.mask i (env.step i s 0) b =
      (Cvrp.mask i.base (Cvrp.step i.base s.base 0) b && canReach i (env.step i s 0) b) := rfl
  have e2 : env.mask i s b = (Cvrp.mask i.base s.base b && canReach i s b) := rfl
  have hb1' : Cvrp.mask i.base (Cvrp.step i.base s.base 0) b = Cvrp.mask i.base s.base b := hb1
  rw [e1, e2, hb1']
  have hmd := Cvrp.mask_of_done i.base s.base hd b hb
  have hmd' : Cvrp.mask i.base s.base b = decide (b = 0) := hmd
  rw [hmd']
  by_cases hb0 : b = 0
  · subst hb0
    have h1 : canReach i s 0 = true := hm'.2
    have h2 : canReach i (env.step i s 0) 0 = true := by
      have ht : (env.step i s 0).time = 0 := by rw [step_time]; simp
      have hc : (env.step i s 0).base.cur = 0 := rfl
      simp [canReach, ht, hc, Params.cvrptwMaskTwCmp, Cmp.eval, h00, hE]
    rw [h1, h2]
  · simp [hb0]

end Rl4co.Cvrptw
