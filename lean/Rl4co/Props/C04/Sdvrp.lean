/-
C04 for SDVRP (padding part): once a reachable instance is finished (nothing left to deliver) the only
action its mask offers is the depot, and stepping it again (as happens while slower batch-mates are
still running) changes neither `done`, nor the advertised mask, nor the remaining demands, nor the
reward.  The batch part of C04 is carried by the correspondence (per-instance model vs every row of
the batched code).
-/
import Rl4co.Env.Sdvrp
import Rl4co.Props.C02.Sdvrp
import Rl4co.Props.C03.Sdvrp

namespace Rl4co.Sdvrp

theorem rem_zero_of_done (i : Inst) (s : State) (hi : EInv i s) (hd : env.done i s = true) :
    ∀ j, j ≤ i.n → s.rem j = 0 := by
  intro j hj
  have h1 := hi.flag hd j hj
  by_cases h0 : j = 0
  · subst h0; exact hi.rem0
  · have := hi.remNN j (by omega); omega

theorem locOk_false_of_rem_zero (i : Inst) (s : State) (j : Nat) (h : s.rem j = 0) : locOk i s j = false := by
  simp [locOk, Params.sdvrpMaskRemCmp, Cmp.eval, h]

/-- In a finished reachable state the mask offers exactly the depot. -/
theorem mask_of_done (i : Inst) (s : State) (hi : EInv i s) (hd : env.done i s = true) (a : Nat)
    (ha : a < env.nAct i) : env.mask i s a = decide (a = 0) := by
  have hz := rem_zero_of_done i s hi hd
  simp only [env] at ha
  by_cases h0 : a = 0
  · subst h0
    have : anyLoc i s = false := by
      simp only [anyLoc, List.any_eq_false, List.mem_range]
      intro k hk
      simp [locOk_false_of_rem_zero i s (k + 1) (hz (k + 1) (by omega))]
    simp [env, mask, this]
  · simp [env, mask, h0, locOk_false_of_rem_zero i s a (hz a (by omega))]

/-- **C04 (SDVRP), padding is a no-op.** -/
theorem pad_noop (i : Inst) (hw : WF i) (h00 : i.D 0 0 = 0) {s : State} (hr : Reach env i s) (as : List Nat)
    (hd : env.done i s = true) (a : Nat) (ha : a < env.nAct i) (hm : env.mask i s a = true) :
    a = 0 ∧
    env.done i (env.step i s a) = true ∧
    (∀ b, b < env.nAct i → env.mask i (env.step i s a) b = env.mask i s b) ∧
    (∀ j, (env.step i s a).rem j = s.rem j) ∧
    reward i (as ++ [a]) = reward i as := by
  have hi := (cinv_of_reach i hw hr).e
  have ha0 : a = 0 := by
    have := mask_of_done i s hi hd a ha
    rw [hm] at this
    simpa using this.symm
  have hd' := done_stable i hw hr a hd
  have hi' := einv_step i s a hi
  refine ⟨ha0, hd', ?_, ?_, ?_⟩
  · intro b hb
    rw [mask_of_done i s hi hd b hb, mask_of_done i _ hi' hd' b hb]
  · subst ha0
    intro j
    have hdel : delivered i s 0 = 0 := by
      have := hi.usedC
      simp only [delivered_eq, hi.rem0]; omega
    simp only [env, step, upd_apply, hdel]
    split
    · rename_i h; subst h; omega
    · rfl
  · subst ha0
    rw [reward_eq_objective i h00, reward_eq_objective i h00]
    simp only [Spec.Sdvrp.objective]
    rw [← closed_eq_routesLen i.D h00, ← closed_eq_routesLen i.D h00]
    have h1 : 0 :: (as ++ [0]) ++ [0] = (0 :: (as ++ [0])) ++ [0] := by simp
    rw [h1, pathLen_append_singleton]
    have h2 : (0 :: (as ++ [0])).getLast (by simp) = 0 := by
      rw [List.getLast_cons (by simp)]; simp
    rw [h2, h00]; simp

end Rl4co.Sdvrp
