/-
C04 for FLP.  The model is per-instance by construction (every quantity `_step` computes for a row is
a function of that row's instance, state and action); the correspondence compares every row of the
real batched environment with it, at every position and next to arbitrary batch-mates.

Padding part — FINDING (DESIGN §8).  A row is stepped after its own `done` exactly when a batch-mate
has a larger `to_choose`.  Such a step is *not* a no-op: the mask of a finished row is `~chosen`, the
row must select a further location, `chosen` grows and the reward (computed from `chosen`) changes.
`pad_noop_statement` / `pad_noop_counterexample`; what does hold:
  * `no_padding_of_equal_quota`: rows with equal quotas finish at the same step, so with the bundled
    generator (one `to_choose` per batch) no row is ever stepped after it finished;
  * `padded_only_if_larger_quota`;
  * the finishing step of a row (`done_iff_quota`, C08) and `done` staying set (`done_stable`, C02) do
    not depend on batch-mates or padding; the reward of a padded row is still minus the objective of
    everything it selected (`reward_eq_objective`, C03).
-/
import Rl4co.Props.C08.Flp
import Rl4co.Props.C03.Flp

namespace Rl4co.Flp

/-- Full statement: a step taken after the row finished changes nothing that matters. -/
def pad_noop_statement : Prop :=
  ∀ (i : Inst) (as : List Nat) (s : State) (a : Nat), WF i → Run env i (env.reset i) as s →
    env.done i s = true → a < env.nAct i → env.mask i s a = true →
    reward i (env.step i s a) = reward i s

/-- witness: locations at distance 512 ticks, quota 1; after selecting 0 the row is done with reward
−512; the only offered action is 1, after which the reward is 0. -/
theorem pad_noop_counterexample : ¬ pad_noop_statement := by
  intro h
  have hrun : Run env cexInst (env.reset cexInst) [0] (exec env cexInst (env.reset cexInst) [0]) :=
    (run_iff_admitted env cexInst _ _ [0]).mpr ⟨by decide, rfl⟩
  have := h cexInst [0] _ 1 ⟨by decide, by decide⟩ hrun (by decide) (by decide) (by decide)
  exact absurd this (by decide)

/-- **C04 (FLP), partial**: two rows with the same quota, stepped equally often, are both finished or
both unfinished — in a batch of equal quotas no row is stepped after it finished. -/
theorem no_padding_of_equal_quota (i i' : Inst) (hwf : WF i) (hq : i.quota = i'.quota)
    {as as' : List Nat} {s s' : State} (h : Run env i (env.reset i) as s)
    (h' : Run env i' (env.reset i') as' s') (hlen : as.length = as'.length) :
    env.done i s = env.done i' s' :=
  Sel.done_lockstep view hwf.1 hq h h' hlen

/-- a row is stepped after it finished only next to a batch-mate with a strictly larger quota -/
theorem padded_only_if_larger_quota (i i' : Inst) (hwf : WF i) (hwf' : WF i')
    {as as' : List Nat} {s s' : State} (h : Run env i (env.reset i) as s)
    (h' : Run env i' (env.reset i') as' s') (hlen : as.length = as'.length)
    (hd : env.done i s = true) (hd' : env.done i' s' = false) : i.quota < i'.quota :=
  Sel.padded_only_if_larger_quota view hwf.1 hwf'.1 h h' hlen hd hd'

/-- what a padding step does: it adds one more distinct location to `chosen` (never a no-op), keeps
`done`, and the reward stays minus the objective of everything selected so far. -/
theorem pad_effect (i : Inst) {as : List Nat} {s : State} (h : Run env i (env.reset i) as s)
    (hd : env.done i s = true) (a : Nat) (ha : a < env.nAct i) (hm : env.mask i s a = true) :
    a ∉ as ∧ env.done i (env.step i s a) = true ∧
    reward i (env.step i s a) = - Spec.Flp.objective i (as ++ [a]) := by
  refine ⟨?_, Sel.done_stable view h a hd, reward_eq_objective i (h.snoc ha hm) (by simp)⟩
  have := (chosen_eq_history i h a).2
  rw [hm] at this
  simpa using this.symm

end Rl4co.Flp
