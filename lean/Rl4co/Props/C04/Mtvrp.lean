/-
C04 for the multi-task VRP environment (padding part): once an instance is finished, the only action its
mask offers is the depot, and stepping it again (as happens while slower batch-mates are still running)
changes neither `done`, nor the advertised mask, nor the reward of the episode — for every feature
valuation (open or closed routes, any limit, any windows).  The batch part of C04 is carried by the
correspondence: the model is per-instance by construction, and every row of the real batched environment
(mixed variants, unequal capacities and speeds side by side) is compared with it.  The one batch-global
construct of this family sits in the checker (`_check_c1`), see C06.
-/
import Rl4co.Props.C02.Mtvrp
import Rl4co.Props.C03.Mtvrp

namespace Rl4co.Mtvrp

theorem anyCust_false_of_done (i : Inst) (s : State) (hd : env.done i s = true) :
    anyCust i s = false := by
  have hall := all_visited_of_done i s hd
  simp only [anyCust, List.any_eq_false, List.mem_range]
  intro k hk
  simp [canVisit, hall (k + 1) (by omega)]

/-- In a finished state the mask offers exactly the depot. -/
theorem mask_of_done (i : Inst) (s : State) (hd : env.done i s = true) (a : Nat) (ha : a < env.nAct i) :
    env.mask i s a = decide (a = 0) := by
  have hall := all_visited_of_done i s hd
  by_cases h0 : a = 0
  · subst h0; simp [env, mask_def, anyCust_false_of_done i s hd]
  · simp only [env] at ha
    simp [env, mask_def, h0, canVisit, hall a ha]

/-- **C04 (MTVRP), padding is a no-op.** -/
theorem pad_noop (i : Inst) (h00 : i.openR = true ∨ i.D 0 0 = 0) (s : State) (as : List Nat)
    (hd : env.done i s = true) (a : Nat) (ha : a < env.nAct i) (hm : env.mask i s a = true) :
    a = 0 ∧
    env.done i (env.step i s a) = true ∧
    (∀ b, b < env.nAct i → env.mask i (env.step i s a) b = env.mask i s b) ∧
    reward i (as ++ [a]) = reward i as := by
  have ha0 : a = 0 := by
    have := mask_of_done i s hd a ha
    rw [hm] at this
    simpa using this.symm
  have hd' := done_stable i s a hd
  refine ⟨ha0, hd', ?_, ?_⟩
  · intro b hb
    rw [mask_of_done i s hd b hb, mask_of_done i _ hd' b hb]
  · subst ha0
    have hc : charged i 0 0 = 0 := by
      rcases h00 with h | h
      · simp [charged_def, h]
      · simp only [charged_def]; split <;> simp [h]
    simp only [reward_def, rollLen_eq_closedLen, closedLen]
    have h1 : 0 :: (as ++ [0]) ++ [0] = (0 :: (as ++ [0])) ++ [0] := by simp
    rw [h1, pathLen_append_singleton]
    have h2 : (0 :: (as ++ [0])).getLast (by simp) = 0 := by
      rw [List.getLast_cons (by simp)]; simp
    rw [h2, hc]; simp

/-- Non-vacuity: `exInst` is finished after `[1, 2, 0]` and is then offered the depot. -/
example : env.done exInst (exec env exInst (env.reset exInst) [1, 2, 0]) = true ∧
    env.mask exInst (exec env exInst (env.reset exInst) [1, 2, 0]) 0 = true := by decide

end Rl4co.Mtvrp
