/-
C04 for MDCPDP (code after the upstream fix 476fa34).

Batch part.  No statement of `_step` reads another row any more (the step length and the `done` flag
are `[B, 1]` tensors), so the batched step is the row-wise step: `batchStep_eq_map`, with the
consequence `batch_rows` for the reward state of every row at every position of any batch.

Padding part.  In open mode a step taken after `done` (only node 0 is offered) changes neither `done`,
nor the mask, nor the `minsum` reward (`pad_noop_open`).  In close mode it adds the last vehicle's way
back (`pad_noop_counterexample`) — a leg that is missing from the unpadded reward (see C03; not fixed
upstream).
-/
import Rl4co.Proofs.Mdcpdp
import Rl4co.Props.C03.Mdcpdp

namespace Rl4co.Mdcpdp
open Rl4co.Spec.Mdcpdp

/-! ### batch part -/

/-- **C04 (MDCPDP), batch part: the batched step is the per-row step.** -/
theorem batchStep_eq_map (rows : List (Inst × State)) (acts : List Nat) :
    batchStep rows acts = List.zipWith (fun r a => (r.1, step r.1 r.2 a)) rows acts := rfl

/-- every row of the batched step, at any position and next to any batch-mates, is the row stepped on
its own -/
theorem batch_rows (rows : List (Inst × State)) (acts : List Nat) (k : Nat) (r0 : Inst × State)
    (a : Nat) (hr : rows[k]? = some r0) (ha : acts[k]? = some a) :
    (batchStep rows acts)[k]? = some (r0.1, step r0.1 r0.2 a) := by
  simp [batchStep, List.getElem?_zipWith, hr, ha]

/-! ### padding part -/

/-- a finished reachable state offers node 0 and nothing else -/
theorem mask_of_done {i : Inst} (hwf : WF i) {s : State} (hi : Inv i s) (hd : s.done = true)
    (b : Nat) (hb : b < i.N) : s.mask b = decide (b = 0) := by
  have hk := hwf.kpos
  have hall := avail_of_done hi hd
  rcases hi.phase with ⟨_, hav⟩ | ⟨bk, hmk, _, _⟩
  · have := hall 0 (by have := hwf.even; omega); rw [hav 0] at this; cases this
  · rw [hmk]
    by_cases hb0 : b = 0
    · subst hb0; simp [maskOf, (by omega : 0 < i.K), hd]
    · by_cases hbK : b < i.K
      · simp [maskOf, hbK, hb0, hall b hb]
      · simp [maskOf, hbK, hb0, hall b hb]

/-- **C04 (MDCPDP), padding in open mode.** -/
theorem pad_noop_open (i : Inst) (hwf : WF i) (hopen : i.openMode = true) {s : State}
    (h : Reach env i s) (hd : env.done i s = true) (a : Nat) (ha : a < env.nAct i)
    (hm : env.mask i s a = true) :
    a = 0 ∧
    env.done i (env.step i s a) = true ∧
    (∀ b, b < env.nAct i → env.mask i (env.step i s a) b = env.mask i s b) ∧
    reward .minsum i (env.step i s a) = reward .minsum i s := by
  have hi := inv_of_reach hwf h
  have hd' : s.done = true := hd
  have ha' : a < i.N := ha
  have hm' : s.mask a = true := hm
  have ha0 : a = 0 := by
    have := mask_of_done hwf hi hd' a ha'
    rw [hm'] at this; simpa using this.symm
  have hi' := inv_step hwf hi ha' hm'
  have hds : (step i s a).done = true := by
    have hall := avail_of_done hi hd'
    rw [step_done]
    have : anyIn i.N (upd s.avail a false) = false := by
      apply anyIn_eq_false.mpr
      intro j hj; simp only [upd_apply]; split
      · rfl
      · exact hall j hj
    simp [this]
  refine ⟨ha0, hds, ?_, ?_⟩
  · intro b hb
    show (step i s a).mask b = s.mask b
    rw [mask_of_done hwf hi' hds b hb, mask_of_done hwf hi hd' b hb]
  · obtain ⟨as, hr⟩ := h
    have h1 := reward_minsum_open i hwf hopen hr
    have h2 := reward_minsum_open i hwf hopen (hr.snoc ha hm)
    show reward .minsum i (step i s a) = _
    have e : env.step i s a = step i s a := rfl
    rw [e] at h2
    rw [h1, h2]
    -- the extra move ends at a depot, which is not charged
    have : ∀ (p : Problem) (l : List Nat) (prev x : Nat), x < p.K →
        openLength p prev (l ++ [x]) = openLength p prev l := by
      intro p l
      induction l with
      | nil => intro prev x hx; simp [openLength, hx]
      | cons y ys ih => intro prev x hx; simp [openLength, ih y x hx]
    rw [this (problemOf i) as 0 a (by subst ha0; exact hwf.kpos)]

def pad_noop_statement : Prop :=
  ∀ (i : Inst) (s : State) (a : Nat), WF i → Reach env i s → env.done i s = true →
    a < env.nAct i → env.mask i s a = true →
      reward .minsum i (env.step i s a) = reward .minsum i s

/-- Close mode: `[0,1,2]` has reward −2, after one more step with node 0 it is −3. -/
theorem pad_noop_counterexample : ¬ pad_noop_statement := by
  intro h
  have := h cexClose (exec env cexClose (env.reset cexClose) [0, 1, 2]) 0
    ⟨by decide, by decide, by decide, by decide, by decide, by decide⟩
    ⟨[0, 1, 2], (run_iff_admitted _ _ _ _ _).2 ⟨by decide, rfl⟩⟩ (by decide) (by decide) (by decide)
  revert this; decide

/-- Non-vacuity of `pad_noop_open`: a finished reachable state of an open-mode instance. -/
example : Reach env cexMM (exec env cexMM (env.reset cexMM) [0, 2, 4, 0, 1, 3, 5]) ∧
    env.done cexMM (exec env cexMM (env.reset cexMM) [0, 2, 4, 0, 1, 3, 5]) = true :=
  ⟨⟨_, (run_iff_admitted _ _ _ _ _).2 ⟨by decide, rfl⟩⟩, by decide⟩

end Rl4co.Mdcpdp
