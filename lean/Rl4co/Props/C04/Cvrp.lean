/-
C04 for CVRP (padding part): once an instance is finished, the only action its mask offers is the
depot, and stepping it again (as happens while slower batch-mates are still running) changes neither
`done`, nor the advertised mask, nor the reward of the episode.  The batch part of C04 is carried by
the correspondence: the model is per-instance by construction, and every row of the real batched
environment is compared with it.
-/
import Rl4co.Env.Cvrp
import Rl4co.Props.C02.Cvrp
import Rl4co.Props.C03.Cvrp

namespace Rl4co.Cvrp

theorem all_visited_of_done (i : Inst) (s : State) (hd : env.done i s = true) :
    ∀ j, j < i.n + 1 → s.vis j = true := by
  have h1 : cnt (i.n + 1) s.vis = i.n + 1 := by
    simpa [env, done, Params.cvrpDoneCmp, Cmp.evalNat] using hd
  exact cnt_eq_n.mp h1

theorem anyLoc_false_of_done (i : Inst) (s : State) (hd : env.done i s = true) :
    anyLoc i s = false := by
  have hall := all_visited_of_done i s hd
  simp only [anyLoc, List.any_eq_false, List.mem_range]
  intro k hk
  simp [locOk, hall (k + 1) (by omega)]

/-- In a finished state the mask offers exactly the depot. -/
theorem mask_of_done (i : Inst) (s : State) (hd : env.done i s = true) (a : Nat) (ha : a < env.nAct i) :
    env.mask i s a = decide (a = 0) := by
  have hall := all_visited_of_done i s hd
  by_cases h0 : a = 0
  · subst h0; simp [env, mask, anyLoc_false_of_done i s hd]
  · simp only [env] at ha
    simp [env, mask, h0, locOk, hall a ha]

/-- **C04 (CVRP), padding is a no-op.** -/
theorem pad_noop (i : Inst) (h00 : i.D 0 0 = 0) (s : State) (as : List Nat)
    (hd : env.done i s = true) (a : Nat) (ha : a < env.nAct i) (hm : env.mask i s a = true) :
    a = 0 ∧
    env.done i (env.step i s a) = true ∧
    (∀ b, b < env.nAct i → env.mask i (env.step i s a) b = env.mask i s b) ∧
    reward i (as ++ [a]) = reward i as := by
  have ha0 : a = 0 := by
    have := mask_of_done i s hd a ha
    rw [hm] at this
    simpa using this.symm
  have hd' := done_stable i s a hd
  refine ⟨ha0, hd', ?_, ?_⟩
  · intro b hb
    rw [mask_of_done i s hd b hb, mask_of_done i _ hd' b hb]
  · subst ha0
    rw [reward_eq_objective i h00, reward_eq_objective i h00]
    simp only [Spec.Cvrp.objective]
    rw [← closed_eq_routesLen i.D h00, ← closed_eq_routesLen i.D h00]
    have h1 : 0 :: (as ++ [0]) ++ [0] = (0 :: (as ++ [0])) ++ [0] := by simp
    rw [h1, pathLen_append_singleton]
    have h2 : (0 :: (as ++ [0])).getLast (by simp) = 0 := by
      rw [List.getLast_cons (by simp)]; simp
    rw [h2, h00]; simp

end Rl4co.Cvrp
