/-
C04 for MCP.  The model is per-instance by construction; the correspondence compares every row of the
real batched environment with it, at every position and next to arbitrary batch-mates.  (In the real
code `done` comes out with shape `[B, B]` when `n_sets_to_choose` has the generator's shape `[B, 1]`:
entry `[r][c]` compares the counter of row `c` with the quota of row `r`; the counters move in
lock-step, so each row of that matrix is constant and is the per-row flag modelled here.)

Padding part — FINDING (DESIGN §8), as for FLP: a row whose quota is reached keeps selecting sets
while a batch-mate with a larger quota runs, and its reward changes.
-/
import Rl4co.Props.C08.Mcp
import Rl4co.Props.C03.Mcp

namespace Rl4co.Mcp

def pad_noop_statement : Prop :=
  ∀ (i : Inst) (as : List Nat) (s : State) (a : Nat), WF i → Run env i (env.reset i) as s →
    env.done i s = true → a < env.nAct i → env.mask i s a = true →
    reward i (env.step i s a) = reward i s

/-- witness: sets `{1}`, `{2}`, weights 1 and 2, quota 1: reward 1 after selecting set 0; the padding
step must select set 1, reward 3. -/
theorem pad_noop_counterexample : ¬ pad_noop_statement := by
  intro h
  have hrun : Run env cexInst (env.reset cexInst) [0] (exec env cexInst (env.reset cexInst) [0]) :=
    (run_iff_admitted env cexInst _ _ [0]).mpr ⟨by decide, rfl⟩
  have := h cexInst [0] _ 1 ⟨by decide, by decide⟩ hrun (by decide) (by decide) (by decide)
  exact absurd this (by decide)

theorem no_padding_of_equal_quota (i i' : Inst) (hwf : WF i) (hq : i.quota = i'.quota)
    {as as' : List Nat} {s s' : State} (h : Run env i (env.reset i) as s)
    (h' : Run env i' (env.reset i') as' s') (hlen : as.length = as'.length) :
    env.done i s = env.done i' s' :=
  Sel.done_lockstep view hwf.1 hq h h' hlen

theorem padded_only_if_larger_quota (i i' : Inst) (hwf : WF i) (hwf' : WF i')
    {as as' : List Nat} {s s' : State} (h : Run env i (env.reset i) as s)
    (h' : Run env i' (env.reset i') as' s') (hlen : as.length = as'.length)
    (hd : env.done i s = true) (hd' : env.done i' s' = false) : i.quota < i'.quota :=
  Sel.padded_only_if_larger_quota view hwf.1 hwf'.1 h h' hlen hd hd'

theorem pad_effect (i : Inst) {as : List Nat} {s : State} (h : Run env i (env.reset i) as s)
    (hd : env.done i s = true) (a : Nat) (ha : a < env.nAct i) (hm : env.mask i s a = true) :
    a ∉ as ∧ env.done i (env.step i s a) = true ∧
    reward i (env.step i s a) = Spec.Mcp.objective i (as ++ [a]) := by
  refine ⟨?_, Sel.done_stable view h a hd, reward_eq_objective i (h.snoc ha hm)⟩
  have := (chosen_eq_history i h a).2
  rw [hm] at this
  simpa using this.symm

end Rl4co.Mcp
