/-
C04 for SVRP (padding part): once an instance is finished the only action its mask offers is the depot,
and stepping it again (as happens while slower batch-mates are still running) changes neither `done`,
nor the advertised mask, nor the reward — although `_step` keeps incrementing `current_tech` on those
padding steps: in a finished state no customer is free, so the mask does not depend on the technician,
and a trailing depot visit only appends an empty route.  (The real code additionally needs the index to
stay below T, which C02 `tech_lt_of_run` guarantees inside a batch loop.)  The batch part of C04 is
carried by the correspondence (per-instance model vs every row of the batched code, including the
row-by-row Python loop of `_get_reward`).
-/
import Rl4co.Env.Svrp
import Rl4co.Props.C02.Svrp
import Rl4co.Props.C03.Svrp

namespace Rl4co.Svrp
open Rl4co.Spec.Svrp

theorem anyLoc_false_of_done (i : Inst) (s : State) (hd : env.done i s = true) : anyLoc i s = false := by
  have hall := all_visited_of_done i s hd
  simp only [anyLoc, List.any_eq_false, List.mem_range]
  intro k hk
  simp [locOk, hall (k + 1) (by omega)]

/-- In a finished state the mask offers exactly the depot (whatever the technician index). -/
theorem mask_of_done (i : Inst) (s : State) (hd : env.done i s = true) (a : Nat) (ha : a < env.nAct i) :
    env.mask i s a = decide (a = 0) := by
  have hall := all_visited_of_done i s hd
  by_cases h0 : a = 0
  · subst h0; simp [env, mask_eq, maskRef, anyLoc_false_of_done i s hd]
  · simp only [env] at ha
    simp [env, mask_eq, maskRef, h0, locOk, hall a ha]

theorem routes_append_zero (as : List Nat) : routes (as ++ [0]) = routes as ++ [[]] := by
  induction as with
  | nil => simp [routes]
  | cons a as ih =>
    obtain ⟨r1, rs1, h1⟩ := routes_cons_exists as
    by_cases h0 : a = 0
    · subst h0; simp [routes, ih]
    · simp [routes, h0, ih, h1]

theorem weighted_append_empty (i : Inst) (rs : List (List Nat)) : ∀ k,
    weighted i k (rs ++ [[]]) = weighted i k rs := by
  induction rs with
  | nil => intro k; simp [weighted, routeLen]
  | cons r rs ih => intro k; simp [weighted, ih]

/-- **C04 (SVRP), padding is a no-op.** -/
theorem pad_noop (i : Inst) (h00 : i.D 0 0 = 0) (s : State) (as : List Nat)
    (hd : env.done i s = true) (a : Nat) (ha : a < env.nAct i) (hm : env.mask i s a = true) :
    a = 0 ∧
    env.done i (env.step i s a) = true ∧
    (∀ b, b < env.nAct i → env.mask i (env.step i s a) b = env.mask i s b) ∧
    reward i (as ++ [a]) = reward i as := by
  have ha0 : a = 0 := by
    have := mask_of_done i s hd a ha
    rw [hm] at this
    simpa using this.symm
  have hd' := done_stable i s a hd
  refine ⟨ha0, hd', ?_, ?_⟩
  · intro b hb
    rw [mask_of_done i s hd b hb, mask_of_done i _ hd' b hb]
  · subst ha0
    rw [reward_eq_objective i h00, reward_eq_objective i h00]
    simp only [objective, routes_append_zero, weighted_append_empty]

end Rl4co.Svrp
