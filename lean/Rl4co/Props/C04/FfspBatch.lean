/-
FFSP: the per-row theorems in their `∀ batch, ∀ row` form.  `BatchRun` are the states of a whole batch
(rows may be different instances of the same shape, any batch size, any mixture of finished and
unfinished rows) reached from a batched reset by the batched `_step` (`batchStep`, with the code's global
`done.all()`) under mask-admitted action vectors, as long as the batch is not finished.  Every row of every
such batch state is offered an action; and at the step that finishes the batch every row carries a valid,
expressible schedule whose makespan is the reward written for it.
-/
import Rl4co.Props.C04.Ffsp
import Rl4co.Props.C03.Ffsp
import Rl4co.Proofs.FfspExpr
import Rl4co.Props.C07.Ffsp
namespace Rl4co.Ffsp
open Rl4co.Spec.Ffsp

/-- two lists of equal length related element by element -/
inductive All2 {α β : Type} (P : α → β → Prop) : List α → List β → Prop
  | nil : All2 P [] []
  | cons {a b l1 l2} : P a b → All2 P l1 l2 → All2 P (a :: l1) (b :: l2)

/-- the action vector is admitted row by row -/
def Admitted (rows : List (Inst × State)) (acts : List Nat) : Prop :=
  All2 (fun (r : Inst × State) a => a < r.1.J + 1 ∧ r.2.mask a = true) rows acts

/-- batch states reachable while the batch is running -/
inductive BatchRun : List (Inst × State) → Prop
  | reset (is : List Inst) : BatchRun (is.map (fun i => (i, reset i)))
  | step {rows : List (Inst × State)} {acts : List Nat} : BatchRun rows → Admitted rows acts →
      allDoneAfter rows acts = false → BatchRun (batchStep rows acts)

theorem zipWith_mem {α β γ : Type} {P : α → β → Prop} {l1 : List α} {l2 : List β}
    (hf : All2 P l1 l2) (f : α → β → γ) :
    ∀ x, x ∈ List.zipWith f l1 l2 → ∃ a b, a ∈ l1 ∧ P a b ∧ x = f a b ∧
      ∀ {δ : Type} (g : α → β → δ), g a b ∈ List.zipWith g l1 l2 := by
  induction hf with
  | nil => intro x hx; simp at hx
  | cons hab _ ih =>
    intro x hx
    simp only [List.zipWith_cons_cons, List.mem_cons] at hx
    rcases hx with rfl | hx
    · exact ⟨_, _, List.mem_cons_self, hab, rfl, fun g => by simp⟩
    · obtain ⟨a, b, ha, hp, he, hg⟩ := ih x hx
      exact ⟨a, b, List.mem_cons_of_mem _ ha, hp, he, fun g => by
        simp only [List.zipWith_cons_cons]; exact List.mem_cons_of_mem _ (hg g)⟩

/-- **∀ batch, ∀ row**: every row of a running batch is in a state of its own per-row machine `envM` -/
theorem batchRun_row_reach {rows : List (Inst × State)} (hb : BatchRun rows) :
    ∀ r, r ∈ rows → Reach envM r.1 r.2 := by
  induction hb with
  | reset is =>
    intro r hr
    obtain ⟨i, _, rfl⟩ := List.mem_map.mp hr
    exact ⟨[], Run.nil _⟩
  | step _ hadm hg ih =>
    intro r hr
    rw [batchStep_eq, hg] at hr
    obtain ⟨r0, a, hr0, ⟨ha, hm⟩, rfl, _⟩ := zipWith_mem hadm _ r hr
    obtain ⟨bs, hbs⟩ := ih r0 hr0
    exact ⟨bs ++ [a], hbs.snoc ha hm⟩

/-- **C02, ∀ batch ∀ row**: in every batch that is still running, every row — finished or not — is
offered at least one action -/
theorem batch_mask_nonempty {rows : List (Inst × State)} (hb : BatchRun rows)
    (hwf : ∀ r, r ∈ rows → WF r.1) : ∀ r, r ∈ rows → ∃ a, a < r.1.J + 1 ∧ r.2.mask a = true :=
  fun r hr => mask_nonempty r.1 (hwf r hr) (batchRun_row_reach hb r hr)

/-- **C07 / C03 / C05, ∀ batch ∀ row**: at the step after which the whole batch is finished, every row of
the batch — whenever it finished, however long it was padded — carries a valid and expressible schedule,
and the reward written for it is minus that schedule's makespan -/
theorem batch_final (rows : List (Inst × State)) (acts : List Nat) (hb : BatchRun rows)
    (hadm : Admitted rows acts) (hfin : allDoneAfter rows acts = true)
    (hwf : ∀ r, r ∈ rows → WF r.1) :
    ∀ r, r ∈ batchStep rows acts →
      r.2.done = true ∧ Valid r.1 (ofMatrix r.1 r.2.sched) ∧
      r.2.reward = some (- makespan r.1 (ofMatrix r.1 r.2.sched)) := by
  intro r hr
  rw [batchStep_eq, hfin] at hr
  obtain ⟨r0, a, hr0, ⟨ha, hm⟩, rfl, hg⟩ := zipWith_mem hadm _ r hr
  have hre := batchRun_row_reach hb r0 hr0
  have h := hwf r0 hr0
  have hd : (apply r0.1 r0.2 a).done = true := by
    have hmem := hg (fun (r : Inst × State) a => (r.1, apply r.1 r.2 a))
    unfold allDoneAfter at hfin
    exact List.all_eq_true.mp hfin _ hmem
  have hdone : (stepG r0.1 r0.2 a true).done = true := by simp [stepG, finish, hd]
  exact ⟨hdone, schedule_valid_row r0.1 h hre a ha hm true hdone,
    reward_eq_makespan_row r0.1 h hre a ha hm hd⟩

/-- Non-vacuity: a batch of two different instances of shape 1×1×1 … the batch `[one, one]`, both rows
finishing at the first step. -/
example : BatchRun ([one, one].map (fun i => (i, reset i))) := BatchRun.reset _
example : allDoneAfter ([one, one].map (fun i => (i, reset i))) [0, 0] = true := by decide
example : Admitted ([one, one].map (fun i => (i, reset i))) [0, 0] :=
  All2.cons ⟨by decide, by decide⟩ (All2.cons ⟨by decide, by decide⟩ All2.nil)
/-- … and a batch that keeps running: `ex` (needs four steps) next to a copy of itself -/
example : BatchRun (batchStep ([ex, ex].map (fun i => (i, reset i))) [0, 1]) :=
  BatchRun.step (BatchRun.reset _) (All2.cons ⟨by decide, by decide⟩ (All2.cons ⟨by decide, by decide⟩ All2.nil))
    (by decide)

end Rl4co.Ffsp
