/-
C04 for DPP / MDPP.  The model is per-instance by construction; the correspondence compares every row
of the real batched environment with it.  `max_decaps` is one number per environment object, so all
rows of a batch are finished at the same step: no row is ever stepped after it finished and the
padding clause of C04 is vacuous (`done_lockstep`).  The reward (impedance simulator) is not modelled.
-/
import Rl4co.Props.C08.Dpp

namespace Rl4co.Dpp

/-- **C04 (DPP/MDPP)**: rows of one batch (same environment, hence same `max_decaps`), stepped equally
often, are both finished or both unfinished. -/
theorem done_lockstep (i i' : Inst) (hq : 1 ≤ i.quota) (hqq : i.quota = i'.quota)
    {as as' : List Nat} {s s' : State} (h : Run env i (env.reset i) as s)
    (h' : Run env i' (env.reset i') as' s') (hlen : as.length = as'.length) :
    env.done i s = env.done i' s' :=
  Sel.done_lockstep view hq hqq h h' hlen

/-- masks and `done` of a row are functions of its own instance and its own selections only -/
theorem outcome_row_local (i : Inst) (hq : 1 ≤ i.quota) {as : List Nat} {s : State}
    (h : Run env i (env.reset i) as s) :
    (∀ j, env.mask i s j = (allowed0 i j && !decide (j ∈ as))) ∧
    (env.done i s = true ↔ i.quota ≤ as.length) :=
  ⟨mask_eq_history i h, done_iff_quota i hq h⟩

example : env.done exInst (exec env exInst (env.reset exInst) [2]) = false := by decide

end Rl4co.Dpp
