/-
C04 for TSP: the batched `_step` decides "is this the first step?" ONCE for the whole batch
(`td["i"].all() == 0`).  Lock-step lemma: all rows of a batch that was reset together have the same
step counter, hence the batch-global flag equals every row's own flag and the batched step is the
row-wise map of the solo step — for any batch size, any instances, any actions.  Consequently the state
(mask, done, first/current node, counter) of row `r` after any number of batched steps is the solo
run of instance `r` on its own actions; the reward is a function of the instance and its own actions.
There is no post-finish padding in this family (C02: all rows finish at step `n`).
-/
import Rl4co.Props.C02.Tsp
import Rl4co.Env.Tsp
import Rl4co.Proofs.TspfamParams

namespace Rl4co.Tsp

/-- all rows carry the same step counter `k` -/
def LockStep (k : Nat) (rows : List (Inst × State)) : Prop := ∀ r ∈ rows, r.2.i = k

/-- the row-wise map of the solo step (manifestly independent of batch-mates) -/
def rowStep (rows : List (Inst × State)) (acts : List Nat) : List (Inst × State) :=
  List.zipWith (fun r a => (r.1, step r.1 r.2 a)) rows acts

theorem firstFlag_of_lockStep {k : Nat} {rows : List (Inst × State)} (h : LockStep k rows)
    {r : Inst × State} (hr : r ∈ rows) : firstFlag (rows.map (·.2)) = firstFlag [r.2] := by
  have hk := h r hr
  simp only [firstFlag_eq, List.all_cons, List.all_nil, Bool.and_true, List.all_map]
  by_cases h0 : k = 0
  · have : (rows.all ((fun s => s.i != 0) ∘ fun x => x.2)) = false := by
      apply List.all_eq_false.mpr
      exact ⟨r, hr, by simp [hk, h0]⟩
    simp [this, hk, h0]
  · have : (rows.all ((fun s => s.i != 0) ∘ fun x => x.2)) = true := by
      apply List.all_eq_true.mpr
      intro x hx
      simp [h x hx, h0]
    simp [this, hk, h0]

theorem zipWith_stepWith_eq (flag : Bool) (rows : List (Inst × State)) (acts : List Nat)
    (h : ∀ r ∈ rows, flag = firstFlag [r.2]) :
    List.zipWith (fun r a => (r.1, stepWith flag r.1 r.2 a)) rows acts = rowStep rows acts := by
  induction rows generalizing acts with
  | nil => simp [rowStep]
  | cons r rows ih =>
    cases acts with
    | nil => simp [rowStep]
    | cons a acts =>
      have ih' := ih acts (fun r' hr' => h r' (by simp [hr']))
      simp only [rowStep, step] at ih'
      simp only [rowStep, List.zipWith_cons_cons, step]
      rw [ih', ← h r (by simp)]

/-- **C04 (TSP), lock-step lemma**: on a batch whose rows share the step counter, the batched step
with its batch-global flag IS the row-wise solo step. -/
theorem batchStep_eq_rowStep {k : Nat} (rows : List (Inst × State)) (acts : List Nat)
    (h : LockStep k rows) : batchStep rows acts = rowStep rows acts := by
  simp only [batchStep]
  exact zipWith_stepWith_eq _ rows acts (fun r hr => firstFlag_of_lockStep h hr)

theorem lockStep_rowStep {k : Nat} (rows : List (Inst × State)) (acts : List Nat)
    (h : LockStep k rows) : LockStep (k + 1) (rowStep rows acts) := by
  induction rows generalizing acts with
  | nil => intro r hr; simp [rowStep] at hr
  | cons r rows ih =>
    cases acts with
    | nil => intro r hr; simp [rowStep] at hr
    | cons a acts =>
      intro r' hr'
      simp only [rowStep, List.zipWith_cons_cons, List.mem_cons] at hr'
      rcases hr' with hh | hh
      · subst hh; simp [step, stepWith, h r (by simp)]
      · exact ih acts (fun x hx => h x (by simp [hx])) r' hh

theorem lockStep_reset (insts : List Inst) : LockStep 0 (insts.map (fun i => (i, reset i))) := by
  intro r hr
  simp only [List.mem_map] at hr
  obtain ⟨i, _, rfl⟩ := hr
  rfl

/-- batched execution over a list of action columns (one action per row and step) -/
def batchExec (rows : List (Inst × State)) (cols : List (List Nat)) : List (Inst × State) :=
  cols.foldl batchStep rows
def rowExec (rows : List (Inst × State)) (cols : List (List Nat)) : List (Inst × State) :=
  cols.foldl rowStep rows

theorem batchExec_eq_rowExec_of_lockStep (cols : List (List Nat)) :
    ∀ (k : Nat) (rows : List (Inst × State)), LockStep k rows →
      batchExec rows cols = rowExec rows cols ∧ LockStep (k + cols.length) (batchExec rows cols) := by
  induction cols with
  | nil => intro k rows h; exact ⟨rfl, by simpa [batchExec] using h⟩
  | cons c cols ih =>
    intro k rows h
    have h1 := batchStep_eq_rowStep rows c h
    have h2 := lockStep_rowStep rows c h
    obtain ⟨e1, e2⟩ := ih (k + 1) (rowStep rows c) h2
    simp only [batchExec, rowExec, List.foldl_cons, h1] at e1 e2 ⊢
    refine ⟨e1, ?_⟩
    have : k + (cols.length + 1) = k + 1 + cols.length := by omega
    simpa [this] using e2

/-- **C04 (TSP)**: a batch reset together and stepped any number of times equals the row-wise
execution, and its rows keep a common step counter (`= number of steps`). -/
theorem batchExec_eq_rowExec (insts : List Inst) (cols : List (List Nat)) :
    batchExec (insts.map (fun i => (i, reset i))) cols = rowExec (insts.map (fun i => (i, reset i))) cols ∧
    LockStep cols.length (batchExec (insts.map (fun i => (i, reset i))) cols) := by
  have := batchExec_eq_rowExec_of_lockStep cols 0 _ (lockStep_reset insts)
  simpa using this

/-- row `r` of the row-wise execution is the solo run of that row on its own column entries -/
theorem rowExec_getElem? (cols : List (List Nat)) :
    ∀ (rows : List (Inst × State)) (r : Nat) (x : Inst × State), rows[r]? = some x →
      (∀ c ∈ cols, r < c.length) →
      (rowExec rows cols)[r]? = some (x.1, exec env x.1 x.2 (cols.map (fun c => c.getD r 0))) := by
  induction cols with
  | nil => intro rows r x hx _; simpa [rowExec, exec] using hx
  | cons c cols ih =>
    intro rows r x hx hc
    have hr : r < c.length := hc c (by simp)
    have h1 : (rowStep rows c)[r]? = some (x.1, step x.1 x.2 (c.getD r 0)) := by
      simp only [rowStep, List.getElem?_zipWith, hx]
      simp [List.getElem?_eq_getElem hr, List.getD_eq_getElem?_getD]
    have := ih (rowStep rows c) r _ h1 (fun c' hc' => hc c' (by simp [hc']))
    simpa [rowExec, exec, env] using this

/-- **C04 (TSP), outcome of a row is the solo outcome**: state of row `r` of the batched code after
the action columns `cols` = solo execution of instance `r` on its own actions. -/
theorem batch_row_eq_solo (insts : List Inst) (cols : List (List Nat)) (r : Nat) (i : Inst)
    (hi : insts[r]? = some i) (hc : ∀ c ∈ cols, r < c.length) :
    (batchExec (insts.map (fun i => (i, reset i))) cols)[r]? =
      some (i, exec env i (env.reset i) (cols.map (fun c => c.getD r 0))) := by
  rw [(batchExec_eq_rowExec insts cols).1]
  exact rowExec_getElem? cols _ r (i, reset i) (by simp [hi]) hc

/-- Non-vacuity: two rows, two steps; the flag is `true` at the first and `false` at the second step. -/
example : (batchExec ([⟨2, fun _ _ => 1⟩, ⟨2, fun _ _ => 1⟩].map (fun i => (i, reset i))) [[1, 0], [0, 1]]).map
    (fun r => (r.2.first, r.2.cur, r.2.i, r.2.done)) = [(1, 0, 2, true), (0, 1, 2, true)] := by decide

/-- **C04/C02 (TSP), `∀ batch, ∀ row`**: in ANY batch of instances of `n` nodes that was reset together and
stepped with mask-admitted action columns, EVERY row is finished exactly when `n` columns have been played —
all rows finish at the same step, whatever the batch size, the other instances and the actions are; and the
state of every row is the solo state (so mask, done flag, first/current node agree with the solo run). -/
theorem batch_rows_finish_together (n : Nat) (hpos : 0 < n) (insts : List Inst) (cols : List (List Nat))
    (hn : ∀ i ∈ insts, i.n = n) (hc : ∀ c ∈ cols, c.length = insts.length)
    (hadm : ∀ r i, insts[r]? = some i → admitted env i (env.reset i) (cols.map (fun c => c.getD r 0)) = true) :
    ∀ r i, insts[r]? = some i →
      ∃ s, (batchExec (insts.map (fun i => (i, reset i))) cols)[r]? = some (i, s) ∧
        s = exec env i (env.reset i) (cols.map (fun c => c.getD r 0)) ∧
        (s.done = true ↔ cols.length = n) := by
  intro r i hi
  have hr : r < insts.length := by
    rcases Nat.lt_or_ge r insts.length with h | h
    · exact h
    · rw [List.getElem?_eq_none h] at hi; cases hi
  have hrow := batch_row_eq_solo insts cols r i hi (fun c hcm => by rw [hc c hcm]; exact hr)
  refine ⟨_, hrow, rfl, ?_⟩
  have hrun : Run env i (env.reset i) (cols.map (fun c => c.getD r 0)) _ :=
    (run_iff_admitted env i _ _ _).mpr ⟨hadm r i hi, rfl⟩
  have hin : i.n = n := hn i (List.mem_of_getElem? hi)
  have := run_length i (by omega) hrun
  simp only [List.length_map, hin] at this
  exact this

/-- **C04 (TSP), any index set**: a batch indexed by an arbitrary index set `ι` (e.g. the pairs `(b1, b2)` of a
multi-dimensional batch size `[B1, B2]`) is the flat batch read through the flattening map `flat : ι → Nat`
(a reshape moves no data), so EVERY index `j : ι` carries the solo state of its own instance and is done exactly
when `n` columns have been played. -/
theorem batch_index_finish_together {ι : Type} (flat : ι → Nat) (n : Nat) (hpos : 0 < n) (insts : List Inst)
    (cols : List (List Nat)) (hn : ∀ i ∈ insts, i.n = n) (hc : ∀ c ∈ cols, c.length = insts.length)
    (hadm : ∀ r i, insts[r]? = some i → admitted env i (env.reset i) (cols.map (fun c => c.getD r 0)) = true) :
    ∀ (j : ι) (i : Inst), insts[flat j]? = some i →
      ∃ s, (batchExec (insts.map (fun i => (i, reset i))) cols)[flat j]? = some (i, s) ∧
        s = exec env i (env.reset i) (cols.map (fun c => c.getD (flat j) 0)) ∧
        (s.done = true ↔ cols.length = n) :=
  fun j i hi => batch_rows_finish_together n hpos insts cols hn hc hadm (flat j) i hi

end Rl4co.Tsp
