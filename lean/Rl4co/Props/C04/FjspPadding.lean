/-
C04 for FJSP / JSSP, part 2: the content of the padded operation columns is irrelevant
(`revar_run`, `revar_reward`) — see the section comment below.
-/
import Rl4co.Props.C04.Fjsp

namespace Rl4co.Fjsp
open Rl4co.Spec.Fjsp (isReal opOf)

/-! ### (v) the CONTENT of padded columns is irrelevant

`JSSPGenerator` leaves non-zero processing times in the padded operation columns (`FJSPGenerator` zeroes
them).  Padded columns are never read: an instance and any variant of it that differs in width, `pad_mask`
and in the processing times outside the job ranges run in lock step — same masks, same clock, same
`done`, same recorded schedule — and, when both are well-formed, have the same reward. -/

/-- a variant of `i`: other width, other `pad_mask`, other processing times -/
def revar (i : Inst) (N' : Nat) (pad' : Nat → Bool) (proc' : Nat → Nat → Int) : Inst :=
  { i with N := N', pad := pad', proc := proc' }

/-- the same state over another processing-time table -/
def withProc (s : State) (p : Nat → Nat → Int) : State := { s with proc := p }

/-- `p` agrees with the state's table on the real operations -/
def AgreeReal (i : Inst) (s : State) (p : Nat → Nat → Int) : Prop :=
  ∀ m o, isReal i o = true → p m o = s.proc m o

theorem real_nextOp {i : Inst} {s : State} (hinv : Inv i s) {j : Nat} (hj : j < i.J) :
    isReal i (s.nextOp j) = true := by
  have hr := hinv.nextRng j hj
  exact anyUpTo_iff.mpr ⟨j, hj, by simp [opOf, hr.1, hr.2]⟩

section
variable (i : Inst) (N' : Nat) (pad' : Nat → Bool) (proc' : Nat → Nat → Int)

theorem avail_revar {s : State} (hinv : Inv i s) {p : Nat → Nat → Int} (hp : AgreeReal i s p) {j : Nat}
    (hj : j < i.J) (m : Nat) : avail (revar i N' pad' proc') (withProc s p) j m = avail i s j m := by
  simp only [avail_eq, withProc]
  rw [hp m _ (real_nextOp hinv hj)]

theorem mask_revar {s : State} (hinv : Inv i s) {p : Nat → Nat → Int} (hp : AgreeReal i s p) {a : Nat}
    (ha : a < nAct i) : mask (revar i N' pad' proc') (withProc s p) a = mask i s a := by
  by_cases ha0 : a = 0
  · subst ha0; rfl
  · cases hjs : i.jssp with
    | true =>
      have hjs' : (revar i N' pad' proc').jssp = true := hjs
      simp only [nAct, hjs, if_true] at ha
      simp only [mask, ha0, if_false, hjs, hjs', if_true]
      have hj : a - 1 < i.J := by omega
      have : (fun m => avail (revar i N' pad' proc') (withProc s p) (a - 1) m) = fun m => avail i s (a - 1) m := by
        funext m; exact avail_revar i N' pad' proc' hinv hp hj m
      show anyUpTo i.M _ = anyUpTo i.M _
      rw [this]
    | false =>
      have hjs' : (revar i N' pad' proc').jssp = false := hjs
      simp only [nAct, hjs, Bool.false_eq_true, if_false] at ha
      simp only [mask, ha0, if_false, hjs, hjs', Bool.false_eq_true]
      have hM : 0 < i.M := by
        cases hM : i.M with
        | zero => rw [hM] at ha; simp at ha; omega
        | succ k => omega
      have hj : (a - 1) / i.M < i.J := by
        apply Nat.div_lt_of_lt_mul; rw [Nat.mul_comm]; omega
      exact avail_revar i N' pad' proc' hinv hp hj _

theorem stepComplete_revar {s : State} (hinv : Inv i s) {p : Nat → Nat → Int} (hp : AgreeReal i s p) :
    stepComplete (revar i N' pad' proc') (withProc s p) = stepComplete i s := by
  have : anyMask (revar i N' pad' proc') (withProc s p) = anyMask i s := by
    cases h : anyMask i s with
    | true =>
      obtain ⟨a, ha, hm⟩ := anyUpTo_iff.mp h
      exact anyUpTo_iff.mpr ⟨a, ha, by rw [mask_revar i N' pad' proc' hinv hp ha]; exact hm⟩
    | false =>
      apply anyUpTo_eq_false.mpr
      intro a ha
      have ha' : a < nAct i := ha
      rw [mask_revar i N' pad' proc' hinv hp ha']
      exact anyUpTo_eq_false.mp h a ha'
  simp only [stepComplete, this]; rfl

theorem transit_revar (s : State) (p : Nat → Nat → Int) :
    transit (revar i N' pad' proc') (withProc s p) = withProc (transit i s) p := by
  simp only [transit, advance, withProc, revar]
  cases nextTime i.M s.busy s.time <;> rfl

theorem agreeReal_transit {s : State} {p : Nat → Nat → Int} (hp : AgreeReal i s p) :
    AgreeReal i (transit i s) p := by
  intro m o hr
  have : (transit i s).proc = s.proc := by
    simp only [transit, advance]; cases nextTime i.M s.busy s.time <;> rfl
  rw [this]; exact hp m o hr

theorem autoTransit_revar (hwf : WF i) (f : Nat) :
    ∀ (s : State) (p : Nat → Nat → Int), Inv i s → AgreeReal i s p →
      autoTransit (revar i N' pad' proc') f (withProc s p) = withProc (autoTransit i f s) p ∧
      AgreeReal i (autoTransit i f s) p := by
  induction f with
  | zero => intro s p _ hp; exact ⟨rfl, hp⟩
  | succ f ih =>
    intro s p hinv hp
    simp only [autoTransit, stepComplete_revar i N' pad' proc' hinv hp]
    cases hsc : stepComplete i s with
    | false => exact ⟨by simp, by simpa using hp⟩
    | true =>
      simp only [if_true]
      obtain ⟨m, hm, hb⟩ := exists_busy_of_stepComplete hwf hinv hsc
      obtain ⟨t', ht'⟩ := nextTime_isSome hm hb
      rw [transit_revar]
      exact ih _ p (inv_transit hwf hinv ht') (agreeReal_transit i hp)

theorem findMa_congr {M : Nat} {f g : Nat → Int} (h : ∀ m, m < M → f m = g m) : findMa M f = findMa M g := by
  induction M with
  | zero => rfl
  | succ M ih =>
    have ih' := ih (fun m hm => h m (by omega))
    have hany : anyUpTo M (fun k => decide (f k > 0)) = anyUpTo M (fun k => decide (g k > 0)) := by
      cases hg : anyUpTo M (fun k => decide (g k > 0)) with
      | true =>
        obtain ⟨k, hk, hp⟩ := anyUpTo_iff.mp hg
        exact anyUpTo_iff.mpr ⟨k, hk, by rw [h k (by omega)]; exact hp⟩
      | false =>
        apply anyUpTo_eq_false.mpr
        intro k hk
        rw [h k (by omega)]
        exact anyUpTo_eq_false.mp hg k hk
    simp only [findMa, hany, ih']

theorem makeStep_revar {s : State} (hinv : Inv i s) {p : Nat → Nat → Int} (hp : AgreeReal i s p) {a : Nat}
    (ha0 : a ≠ 0) (ha : a < nAct i) :
    ∃ p', makeStep (revar i N' pad' proc') (withProc s p) (a - 1) = withProc (makeStep i s (a - 1)) p' ∧
      AgreeReal i (makeStep i s (a - 1)) p' := by
  -- the job addressed by the action
  have hjlt : (translate i s (a - 1)).1 < i.J := by
    cases hjs : i.jssp with
    | true =>
      simp only [nAct, hjs, if_true] at ha
      simp only [translate_eq, hjs, if_true]; omega
    | false =>
      simp only [nAct, hjs, Bool.false_eq_true, if_false] at ha
      simp only [translate_eq, hjs, Bool.false_eq_true, if_false]
      apply Nat.div_lt_of_lt_mul; rw [Nat.mul_comm]; omega
  have htr : translate (revar i N' pad' proc') (withProc s p) (a - 1) = translate i s (a - 1) := by
    cases hjs : i.jssp with
    | true =>
      have hjs' : (revar i N' pad' proc').jssp = true := hjs
      have hj : a - 1 < i.J := by simpa [translate_eq, hjs] using hjlt
      have hreal := real_nextOp hinv hj
      simp only [translate_eq, hjs, hjs', if_true, withProc]
      have : findMa (revar i N' pad' proc').M (fun m => p m (s.nextOp (a - 1))) =
          findMa i.M (fun m => s.proc m (s.nextOp (a - 1))) :=
        findMa_congr (fun m _ => hp m _ hreal)
      rw [this]
    | false =>
      have hjs' : (revar i N' pad' proc').jssp = false := hjs
      simp only [translate_eq, hjs, hjs', Bool.false_eq_true, if_false]; rfl
  have hreal : isReal i (s.nextOp (translate i s (a - 1)).1) = true := real_nextOp hinv hjlt
  have ho : (translate i s (a - 1)).2.1 = s.nextOp (translate i s (a - 1)).1 := by
    cases hjs : i.jssp <;> simp [translate_eq, hjs]
  refine ⟨fun m' o' => if o' = (translate i s (a - 1)).2.1 then 0 else p m' o', ?_, ?_⟩
  · unfold makeStep
    rw [htr]
    simp only [makeStepAt, withProc]
    rw [hp _ _ (by rw [ho]; exact hreal)]
    rfl
  · intro m o hr
    unfold makeStep
    simp only [makeStepAt]
    by_cases h : o = (translate i s (a - 1)).2.1
    · simp [h]
    · simp only [h, if_false]; exact hp m o hr

/-- one admitted step keeps the two instances in lock step -/
theorem step_revar (hwf : WF i) {s : State} (h2 : Inv2 i s) {p : Nat → Nat → Int} (hp : AgreeReal i s p) {a : Nat}
    (ha : a < nAct i) (hm : mask i s a = true) :
    ∃ p', step (revar i N' pad' proc') (withProc s p) a = withProc (step i s a) p' ∧ AgreeReal i (step i s a) p' := by
  obtain ⟨hinv, _⟩ := h2
  rw [step_eq, step_eq]
  have hdone : (withProc s p).done = s.done := rfl
  rw [hdone]
  cases hd : s.done with
  | true => exact ⟨p, by simp, by simpa using hp⟩
  | false =>
    simp only [Bool.false_eq_true, if_false]
    have hfuel : fuel (revar i N' pad' proc') = fuel i := rfl
    by_cases ha0 : a = 0
    · subst ha0
      simp only [if_true]
      obtain ⟨_, m, hmM, hb⟩ := wait_busy hinv hd hm
      obtain ⟨t', ht'⟩ := nextTime_isSome hmM hb
      rw [transit_revar, hfuel]
      obtain ⟨e, hag⟩ := autoTransit_revar i N' pad' proc' hwf (fuel i) _ p (inv_transit hwf hinv ht')
        (agreeReal_transit i hp)
      exact ⟨p, e, hag⟩
    · simp only [ha0, if_false]
      obtain ⟨p', e1, hag1⟩ := makeStep_revar i N' pad' proc' hinv hp ha0 ha
      obtain ⟨hsel, ho⟩ := sel_of_mask hwf hinv ha0 ha hm
      have hinv' : Inv i (makeStep i s (a - 1)) := by
        unfold makeStep; simp only [ho]; exact inv_makeStepAt hwf hinv hsel
      rw [e1, hfuel]
      obtain ⟨e, hag⟩ := autoTransit_revar i N' pad' proc' hwf (fuel i) _ p' hinv' hag1
      exact ⟨p', e, hag⟩

theorem revar_run_from (hwf : WF i) {as : List Nat} {s0 s : State} (hr : Run env i s0 as s) :
    ∀ (p0 : Nat → Nat → Int), Inv2 i s0 → AgreeReal i s0 p0 →
      ∃ p, Run env (revar i N' pad' proc') (withProc s0 p0) as (withProc s p) ∧ AgreeReal i s p ∧ Inv i s := by
  induction hr with
  | nil s0 => intro p0 h2 hp; exact ⟨p0, Run.nil _, hp, h2.1⟩
  | @cons s0 s1 a as ha hm _ ih =>
    intro p0 h2 hp
    simp only [env] at ha hm
    obtain ⟨p', e, hag⟩ := step_revar i N' pad' proc' hwf h2 hp ha hm
    obtain ⟨p'', hrun', hag', hinv'⟩ := ih p' (inv2_step hwf h2 ha hm) hag
    refine ⟨p'', ?_, hag', hinv'⟩
    refine Run.cons (e := env) (i := revar i N' pad' proc') ha ?_ ?_
    · show mask (revar i N' pad' proc') (withProc s0 p0) a = true
      rw [mask_revar i N' pad' proc' h2.1 hp ha]; exact hm
    · show Run env (revar i N' pad' proc') (step (revar i N' pad' proc') (withProc s0 p0) a) as (withProc s1 p'')
      rw [e]; exact hrun'

/-- **C04, content of padded columns**: every mask-confined run of `i` is, action by action, a
mask-confined run of the variant, ending in the same state up to the processing-time table (which
still agrees on the real operations): same clock, `next_op`, flags, `busy_until`, recorded schedule,
`done`; in particular the masks offered along the way coincide. -/
theorem revar_run (hwf : WF i) (hproc : ∀ m o, isReal i o = true → proc' m o = i.proc m o)
    {as : List Nat} {s : State} (hrun : Run env i (env.reset i) as s) :
    ∃ p, Run env (revar i N' pad' proc') (env.reset (revar i N' pad' proc')) as (withProc s p) ∧ AgreeReal i s p ∧
      ∀ a, a < nAct i → mask (revar i N' pad' proc') (withProc s p) a = mask i s a := by
  have h0 : AgreeReal i (reset i) proc' := fun m o hr => hproc m o hr
  obtain ⟨p, hr, hag, hinv⟩ := revar_run_from i N' pad' proc' hwf hrun proc' (inv2_reset hwf) h0
  exact ⟨p, hr, hag, fun a ha => mask_revar i N' pad' proc' hinv hag ha⟩

/-- … and the reward is the same whenever the variant is well-formed too -/
theorem revar_reward (hwf : WF i) (hwf' : WF (revar i N' pad' proc')) (s : State) (p : Nat → Nat → Int) :
    reward (revar i N' pad' proc') (withProc s p) = reward i s := by
  rw [reward_eq_makespan _ hwf' (withProc s p), reward_eq_makespan _ hwf s]
  congr 1
  unfold Spec.Fjsp.makespan
  have hlt : ∀ o, isReal i o = true → o < i.N ∧ o < N' := by
    intro o hr
    obtain ⟨j, hj, hop⟩ := anyUpTo_iff.mp hr
    simp only [Spec.Fjsp.opOf, Bool.and_eq_true, decide_eq_true_eq] at hop
    have h1 := (hwf.rng j hj).2
    have h2 := (hwf'.rng j hj).2
    simp only [revar] at h2
    omega
  show (match maxOver N' (isReal i) s.finish with | some x => x | none => 0) =
       (match maxOver i.N (isReal i) s.finish with | some x => x | none => 0)
  have key : ∀ a b, a ≤ b → (∀ o, isReal i o = true → o < a) →
      maxOver b (isReal i) s.finish = maxOver a (isReal i) s.finish := by
    intro a b hab hb
    have : b = a + (b - a) := by omega
    rw [this]
    apply maxOver_extend
    intro o h1 _
    cases hr : isReal i o with
    | false => rfl
    | true => have := hb o hr; omega
  rcases Nat.le_total i.N N' with h | h
  · rw [key i.N N' h (fun o hr => (hlt o hr).1)]
  · rw [key N' i.N h (fun o hr => (hlt o hr).2)]

end

/-- non-vacuity: `exFjsp` next to a wider variant whose padded columns carry processing times (as
`JSSPGenerator` produces them): the finished run of `Props/C02` is a run of both, with the same reward -/
example :
    let v := revar exFjsp 7 (fun o => decide (4 ≤ o)) (fun m o => if o < 4 then 3 else 5 + m)
    admitted env v (env.reset v) [1, 4, 0, 1, 4, 0] = true ∧
    reward v (exec env v (env.reset v) [1, 4, 0, 1, 4, 0]) = reward exFjsp (exec env exFjsp (env.reset exFjsp) [1, 4, 0, 1, 4, 0]) := by
  decide

end Rl4co.Fjsp
