/-
C04 for FJSP / JSSP.  The batched `_step` contains three batch-global constructs:
  * `if no_op.any(): _transit_to_next_time(no_op, td)`   — entered when ANY row waits;
  * inside `_transit_to_next_time` the release half (job release, `next_op`, `job_done`, `done`) is
    applied to EVERY row, only the clock is confined to the selected rows;
  * `while step_complete.any(): _transit_to_next_time(step_complete, td)` — iterated while ANY row is stuck.
`Fjsp.stepBatch` models exactly that.  Here:
  (i)   `batchedWhile_eq_map_soloWhile` — a generic lemma: a masked per-row update iterated "while any
        row needs it" equals the per-row while-loop, provided the update is the identity on rows that
        do not need it and a measure bounds the iterations by the fuel;
  (ii)  `stepBatch_eq_map_step` — on rows satisfying the state invariant the batched step equals the
        row-wise solo step, whatever the batch-mates are and do (different instances, different
        numbers of operations, finished rows, waiting rows);
  (iii) `pad_noop` — stepping a finished row (padding induced by slower batch-mates) is the identity;
  (iv)  `repad_step`, `repad_reward` — the number of padded operation columns (rows with fewer
        operations than the widest row of the batch) influences neither mask, step, done, schedule nor reward.
-/
import Rl4co.Props.C02.Fjsp
import Rl4co.Props.C03.Fjsp

namespace Rl4co.Fjsp
open Rl4co.Spec.Fjsp (isReal)

/-! ### (i) the generic loop lemma -/

section Generic
variable {σ : Type} (sel : σ → Bool) (f g : σ → σ)

/-- batched: while ANY row is selected, selected rows get `f`, all other rows get `g` -/
def bWhile : Nat → List σ → List σ
  | 0, rows => rows
  | k + 1, rows =>
    if rows.any sel then bWhile k (rows.map (fun s => if sel s then f s else g s)) else rows

/-- solo: while the row is selected apply `f` -/
def sWhile : Nat → σ → σ
  | 0, s => s
  | k + 1, s => if sel s then sWhile k (f s) else s

theorem sWhile_of_not_sel {s : σ} (h : sel s = false) (k : Nat) : sWhile sel f k s = s := by
  cases k <;> simp [sWhile, h]

/-- **batched while = map of solo while**, for rows on which `g` is the identity whenever they are not
selected (invariant `P`) and a measure `μ` that `f` strictly decreases and that is below the fuel. -/
theorem batchedWhile_eq_map_soloWhile (P : σ → Prop) (μ : σ → Nat)
    (hP : ∀ s, P s → sel s = true → P (f s))
    (hg : ∀ s, P s → sel s = false → g s = s)
    (hμ : ∀ s, P s → sel s = true → μ (f s) < μ s) :
    ∀ (k : Nat) (rows : List σ), (∀ s, s ∈ rows → P s ∧ (sel s = true → μ s < k)) →
      bWhile sel f g k rows = rows.map (sWhile sel f k) := by
  intro k
  induction k with
  | zero =>
    intro rows h
    simp only [bWhile, sWhile, List.map_id']
  | succ k ih =>
    intro rows h
    simp only [bWhile]
    cases hany : rows.any sel with
    | false =>
      simp only [Bool.false_eq_true, if_false]
      have : ∀ s, s ∈ rows → sWhile sel f (k + 1) s = s := by
        intro s hs
        have := List.any_eq_false.mp hany s hs
        exact sWhile_of_not_sel sel f (by simpa using this) _
      rw [List.map_congr_left this, List.map_id']
    | true =>
      simp only [if_true]
      rw [ih]
      · rw [List.map_map]
        apply List.map_congr_left
        intro s hs
        obtain ⟨hPs, hμs⟩ := h s hs
        simp only [Function.comp]
        cases hsel : sel s with
        | true => simp [sWhile, hsel]
        | false =>
          simp only [Bool.false_eq_true, if_false]
          rw [hg s hPs hsel, sWhile_of_not_sel sel f hsel, sWhile_of_not_sel sel f hsel]
      · intro s' hs'
        obtain ⟨s, hs, rfl⟩ := List.mem_map.mp hs'
        obtain ⟨hPs, hμs⟩ := h s hs
        cases hsel : sel s with
        | true =>
          simp only [if_true]
          refine ⟨hP s hPs hsel, fun _ => ?_⟩
          have := hμ s hPs hsel
          have := hμs hsel
          omega
        | false =>
          simp only [Bool.false_eq_true, if_false]
          rw [hg s hPs hsel]
          exact ⟨hPs, fun h' => by rw [hsel] at h'; simp at h'⟩

end Generic

/-! ### (ii) the batched step equals the row-wise solo step -/

/-- what is known about a row of the batch: well-formed instance, reachable-state invariant -/
def RowOK (r : Row) : Prop := WF r.1 ∧ Inv2 r.1 r.2

theorem autoTransitBatch_eq_bWhile (k : Nat) (rows : List Row) :
    autoTransitBatch k rows =
      bWhile (fun r : Row => stepComplete r.1 r.2) (fun r => (r.1, transit r.1 r.2))
        (fun r => (r.1, release r.1 r.2)) k rows := by
  induction k generalizing rows with
  | zero => rfl
  | succ k ih =>
    simp only [autoTransitBatch, bWhile]
    cases hany : rows.any (fun r : Row => stepComplete r.1 r.2) with
    | false => simp
    | true =>
      simp only [if_true]
      rw [ih]
      congr 1
      simp only [transitBatch]
      apply List.map_congr_left
      intro r _
      by_cases hsc : stepComplete r.1 r.2 = true
      · simp [hsc, transit]
      · simp [hsc]

theorem sWhile_eq_autoTransit (k : Nat) (r : Row) :
    sWhile (fun r : Row => stepComplete r.1 r.2) (fun r => (r.1, transit r.1 r.2)) k r =
      (r.1, autoTransit r.1 k r.2) := by
  induction k generalizing r with
  | zero => rfl
  | succ k ih =>
    simp only [sWhile, autoTransit]
    cases hsc : stepComplete r.1 r.2 with
    | false => simp
    | true => simp only [if_true]; rw [ih]

/-- the time-advance loop of the batch = the per-row loops (rows with a common number `M` of machines) -/
theorem autoTransitBatch_eq_map (M : Nat) (rows : List Row)
    (h : ∀ r, r ∈ rows → WF r.1 ∧ Inv r.1 r.2 ∧ r.1.M = M) :
    autoTransitBatch (M + 1) rows = rows.map (fun r => (r.1, autoTransit r.1 (fuel r.1) r.2)) := by
  rw [autoTransitBatch_eq_bWhile]
  rw [batchedWhile_eq_map_soloWhile (fun r : Row => stepComplete r.1 r.2) (fun r => (r.1, transit r.1 r.2))
    (fun r => (r.1, release r.1 r.2)) (fun r => WF r.1 ∧ Inv r.1 r.2) (fun r => cntBusy r.1 r.2)]
  · apply List.map_congr_left
    intro r hr
    rw [sWhile_eq_autoTransit]
    have := (h r hr).2.2
    simp [fuel, this]
  · intro r ⟨hwf, hinv⟩ hsc
    obtain ⟨m, hm, hb⟩ := exists_busy_of_stepComplete hwf hinv hsc
    obtain ⟨t', ht'⟩ := nextTime_isSome hm hb
    exact ⟨hwf, inv_transit hwf hinv ht'⟩
  · intro r ⟨_, hinv⟩ _
    simp only [release_id hinv]
  · intro r ⟨hwf, hinv⟩ hsc
    obtain ⟨m, hm, hb⟩ := exists_busy_of_stepComplete hwf hinv hsc
    obtain ⟨t', ht'⟩ := nextTime_isSome hm hb
    exact cntBusy_transit_lt ht'
  · intro r hr
    obtain ⟨hwf, hinv, hM⟩ := h r hr
    refine ⟨⟨hwf, hinv⟩, fun _ => ?_⟩
    have := cntBusy_le r.1 r.2
    omega

/-- the state of a row after the wait-transit and `_make_step` phases of the batched step, as the
solo step computes it -/
def preStep (x : Row × Nat) : Row :=
  (x.1.1, if x.1.2.done then x.1.2 else if x.2 = 0 then transit x.1.1 x.1.2 else makeStep x.1.1 x.1.2 (x.2 - 1))

theorem step_eq_autoTransit_preStep (x : Row × Nat) :
    (x.1.1, step x.1.1 x.1.2 x.2) = (x.1.1, autoTransit x.1.1 (fuel x.1.1) (preStep x).2) := by
  simp only [step_eq, preStep]
  cases hd : x.1.2.done with
  | true =>
    simp only [if_true]
    have : stepComplete x.1.1 x.1.2 = false := by simp [stepComplete, hd]
    simp [fuel, autoTransit, this]
  | false =>
    simp only [Bool.false_eq_true, if_false]
    split <;> rfl

theorem inv_preStep (x : Row × Nat) (h : RowOK x.1) (ha : x.2 < nAct x.1.1)
    (hm : mask x.1.1 x.1.2 x.2 = true) : Inv (preStep x).1 (preStep x).2 := by
  obtain ⟨hwf, hinv, _⟩ := h
  simp only [preStep]
  cases hd : x.1.2.done with
  | true => simpa using hinv
  | false =>
    simp only [Bool.false_eq_true, if_false]
    by_cases ha0 : x.2 = 0
    · simp only [ha0, if_true]
      rw [ha0] at hm
      obtain ⟨_, m, hmM, hb⟩ := wait_busy hinv hd hm
      obtain ⟨t', ht'⟩ := nextTime_isSome hmM hb
      exact inv_transit hwf hinv ht'
    · simp only [ha0, if_false]
      obtain ⟨hsel, ho⟩ := sel_of_mask hwf hinv ha0 ha hm
      unfold makeStep; simp only [ho]; exact inv_makeStepAt hwf hinv hsel

/-- **C04 (FJSP/JSSP): batched step = row-wise solo step.**  For any batch of rows in reachable
states (each with its own well-formed instance; only the number of machines is shared, as the tensor
shape demands) and any mask-admitted actions, the batched `_step` — with its `no_op.any()` branch, its
release applied to all rows and its `while step_complete.any()` loop — computes for every row exactly
what stepping that row alone computes. -/
theorem stepBatch_eq_map_step (M : Nat) (ra : List (Row × Nat))
    (hok : ∀ x, x ∈ ra → RowOK x.1 ∧ x.1.1.M = M)
    (hadm : ∀ x, x ∈ ra → x.2 < nAct x.1.1 ∧ mask x.1.1 x.1.2 x.2 = true) :
    stepBatch (M + 1) ra = ra.map (fun x => (x.1.1, step x.1.1 x.1.2 x.2)) := by
  -- phases 1+2 compute `preStep` for every row
  have hpre : ∀ (anyNo : Bool), (anyNo = false → ∀ x, x ∈ ra → noOpSel x = false) →
      ((if anyNo then
          ra.map (fun x => ((x.1.1, release x.1.1 (if noOpSel x then advance x.1.1 x.1.2 else x.1.2)), x.2, reqSel x))
        else ra.map (fun x => (x.1, x.2, reqSel x))).map
        (fun x : Row × Nat × Bool => if x.2.2 then (x.1.1, makeStep x.1.1 x.1.2 (x.2.1 - 1)) else x.1))
      = ra.map preStep := by
    intro anyNo hno
    cases anyNo with
    | true =>
      simp only [if_true, List.map_map]
      apply List.map_congr_left
      intro x hx
      obtain ⟨⟨hwf, hinv, _⟩, _⟩ := hok x hx
      simp only [Function.comp, preStep, noOpSel_eq, reqSel_eq]
      by_cases hd : x.1.2.done = true
      · simp [hd, release_id hinv]
      · by_cases ha0 : x.2 = 0
        · simp [hd, ha0, transit]
        · simp [hd, ha0, release_id hinv]
    | false =>
      simp only [Bool.false_eq_true, if_false, List.map_map]
      apply List.map_congr_left
      intro x hx
      have hn := hno rfl x hx
      simp only [Function.comp, preStep, reqSel_eq]
      simp only [noOpSel_eq, Bool.and_eq_false_iff, beq_eq_false_iff_ne, Bool.not_eq_false'] at hn
      by_cases hd : x.1.2.done = true
      · simp [hd]
      · rcases hn with hn | hn
        · simp [hd, hn]
        · exact absurd hn hd
  unfold stepBatch
  simp only [shifted_eq]
  rw [hpre (ra.any noOpSel) (fun h x hx => by
    have := List.any_eq_false.mp h x hx; simpa using this)]
  rw [autoTransitBatch_eq_map M]
  · rw [List.map_map]
    apply List.map_congr_left
    intro x hx
    simp only [Function.comp]
    have := step_eq_autoTransit_preStep x
    rw [this]
    simp [preStep]
  · intro r hr
    obtain ⟨x, hx, rfl⟩ := List.mem_map.mp hr
    obtain ⟨hrow, hM⟩ := hok x hx
    obtain ⟨ha, hm⟩ := hadm x hx
    exact ⟨hrow.1, inv_preStep x hrow ha hm, hM⟩

/-! ### (iii) padding after the finish is a no-op -/

/-- **C04, padding**: a finished row that keeps being stepped while batch-mates run is offered only
the wait action, and taking it changes nothing — state, mask, done, recorded schedule and reward. -/
theorem pad_noop (i : Inst) (hwf : WF i) (s : State) (h : Reach env i s) (hd : env.done i s = true)
    (a : Nat) (ha : a < env.nAct i) (hm : env.mask i s a = true) :
    a = 0 ∧ env.step i s a = s ∧ reward i (env.step i s a) = reward i s := by
  have h0 : a = 0 := by
    have := mask_of_done i hwf s h hd a ha
    rw [hm] at this
    simpa using this.symm
  have := step_of_done i s a hd
  exact ⟨h0, this, by rw [this]⟩

/-! ### (iv) the number of padded columns is irrelevant -/

/-- the same instance embedded in a wider (or narrower) padded tensor -/
def repad (i : Inst) (N' : Nat) (pad' : Nat → Bool) : Inst := { i with N := N', pad := pad' }

theorem autoTransit_repad (i : Inst) (N' : Nat) (pad' : Nat → Bool) :
    ∀ f s, autoTransit (repad i N' pad') f s = autoTransit i f s := by
  intro f
  induction f with
  | zero => intro s; rfl
  | succ f ih =>
    intro s
    have h1 : stepComplete (repad i N' pad') s = stepComplete i s := rfl
    have h2 : transit (repad i N' pad') s = transit i s := rfl
    simp only [autoTransit, h1, h2, ih]

/-- mask, step, done and the recorded schedule do not read `N` or `pad_mask` at all -/
theorem repad_step (i : Inst) (N' : Nat) (pad' : Nat → Bool) (s : State) (a : Nat) :
    env.reset (repad i N' pad') = env.reset i ∧ env.nAct (repad i N' pad') = env.nAct i ∧
    env.mask (repad i N' pad') s a = env.mask i s a ∧ env.step (repad i N' pad') s a = env.step i s a := by
  refine ⟨rfl, rfl, rfl, ?_⟩
  have h1 : transit (repad i N' pad') s = transit i s := rfl
  have h2 : makeStep (repad i N' pad') s (a - 1) = makeStep i s (a - 1) := rfl
  have h3 : fuel (repad i N' pad') = fuel i := rfl
  simp only [env, step_eq, h1, h2, h3, autoTransit_repad]

theorem maxOver_extend {keep : Nat → Bool} {f : Nat → Int} {n : Nat} (k : Nat)
    (h : ∀ o, n ≤ o → o < n + k → keep o = false) : maxOver (n + k) keep f = maxOver n keep f := by
  induction k with
  | zero => rfl
  | succ k ih =>
    have : n + (k + 1) = (n + k) + 1 := by omega
    rw [this]
    simp only [maxOver, h (n + k) (by omega) (by omega), Bool.false_eq_true, if_false]
    exact ih (fun o h1 h2 => h o h1 (by omega))

/-- … and the reward, which does, is the same for both paddings of a well-formed instance -/
theorem repad_reward (i : Inst) (N' : Nat) (pad' : Nat → Bool) (hwf : WF i) (hwf' : WF (repad i N' pad'))
    (s : State) : reward (repad i N' pad') s = reward i s := by
  rw [reward_eq_makespan _ hwf' s, reward_eq_makespan _ hwf s]
  congr 1
  unfold Spec.Fjsp.makespan
  -- real operations lie below both widths
  have hlt : ∀ o, isReal i o = true → o < i.N ∧ o < N' := by
    intro o hr
    obtain ⟨j, hj, hop⟩ := anyUpTo_iff.mp hr
    simp only [Spec.Fjsp.opOf, Bool.and_eq_true, decide_eq_true_eq] at hop
    have h1 := (hwf.rng j hj).2
    have h2 := (hwf'.rng j hj).2
    simp only [repad] at h2
    omega
  have hreal : isReal (repad i N' pad') = isReal i := rfl
  simp only [hreal, schedOf]
  show (match maxOver N' (isReal i) s.finish with | some x => x | none => 0) =
       (match maxOver i.N (isReal i) s.finish with | some x => x | none => 0)
  have key : ∀ a b, a ≤ b → (∀ o, isReal i o = true → o < a) →
      maxOver b (isReal i) s.finish = maxOver a (isReal i) s.finish := by
    intro a b hab hb
    have : b = a + (b - a) := by omega
    rw [this]
    apply maxOver_extend
    intro o h1 _
    cases hr : isReal i o with
    | false => rfl
    | true => have := hb o hr; omega
  rcases Nat.le_total i.N N' with h | h
  · rw [key i.N N' h (fun o hr => (hlt o hr).1)]
  · rw [key N' i.N h (fun o hr => (hlt o hr).2)]

/-- non-vacuity of (ii): a mixed batch — a finished row, a waiting row and a scheduling row of two
different instances — stepped together equals the three solo steps (mask, done, time and schedule
compared on the operations) -/
example :
    let r0 : Row := (exFjsp, exec env exFjsp (reset exFjsp) [1, 4, 0, 1, 4, 0])   -- finished
    let r1 : Row := (exFjsp, exec env exFjsp (reset exFjsp) [1])                   -- job 0 in process: may wait
    let r2 : Row := ({ exFjsp with proc := fun m o => if o < 4 then (if m = 0 then 2 else 5) else 0 },
                     reset { exFjsp with proc := fun m o => if o < 4 then (if m = 0 then 2 else 5) else 0 })
    let out := stepBatch 3 [(r0, 0), (r1, 0), (r2, 2)]
    let solo := [(r0, 0), (r1, 0), (r2, 2)].map (fun x : Row × Nat => (x.1.1, step x.1.1 x.1.2 x.2))
    out.map (fun r => (r.2.time, r.2.done, (List.range 4).map r.2.finish, (List.range 5).map (mask r.1 r.2))) =
    solo.map (fun r => (r.2.time, r.2.done, (List.range 4).map r.2.finish, (List.range 5).map (mask r.1 r.2))) ∧
    out.map (fun r => r.2.time) = [6, 3, 0] := by decide

end Rl4co.Fjsp

namespace Rl4co.Jssp
open Rl4co.Fjsp

theorem stepBatch_eq_map_step (M : Nat) (ra : List (Row × Nat))
    (_ : ∀ x, x ∈ ra → x.1.1.jssp = true)
    (hok : ∀ x, x ∈ ra → RowOK x.1 ∧ x.1.1.M = M)
    (hadm : ∀ x, x ∈ ra → x.2 < nAct x.1.1 ∧ mask x.1.1 x.1.2 x.2 = true) :
    stepBatch (M + 1) ra = ra.map (fun x => (x.1.1, step x.1.1 x.1.2 x.2)) :=
  Fjsp.stepBatch_eq_map_step M ra hok hadm

end Rl4co.Jssp
