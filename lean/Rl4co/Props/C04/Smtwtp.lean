/-
C04 for SMTWTP: the batched `_step` contains no batch-global construct (no step counter is read, the
processing time is gathered with the row's own index), so it is the row-wise map of the solo step by
definition; stated so that a mutation introducing a cross-row read breaks the correspondence with
this model.  Row `r` of any batch after any number of steps is the solo run of instance `r`.
-/
import Rl4co.Env.Smtwtp

namespace Rl4co.Smtwtp

def batchExec (rows : List (Inst × State)) (cols : List (List Nat)) : List (Inst × State) :=
  cols.foldl batchStep rows

/-- **C04 (SMTWTP)**: row `r` of the batched execution is the solo execution of that row. -/
theorem batchExec_getElem? (cols : List (List Nat)) :
    ∀ (rows : List (Inst × State)) (r : Nat) (x : Inst × State), rows[r]? = some x →
      (∀ c ∈ cols, r < c.length) →
      (batchExec rows cols)[r]? = some (x.1, exec env x.1 x.2 (cols.map (fun c => c.getD r 0))) := by
  induction cols with
  | nil => intro rows r x hx _; simpa [batchExec, exec] using hx
  | cons c cols ih =>
    intro rows r x hx hc
    have hr : r < c.length := hc c (by simp)
    have h1 : (batchStep rows c)[r]? = some (x.1, step x.1 x.2 (c.getD r 0)) := by
      simp only [batchStep, List.getElem?_zipWith, hx]
      simp [List.getElem?_eq_getElem hr, List.getD_eq_getElem?_getD]
    have := ih (batchStep rows c) r _ h1 (fun c' hc' => hc c' (by simp [hc']))
    simpa [batchExec, exec, env] using this

theorem batch_row_eq_solo (insts : List Inst) (cols : List (List Nat)) (r : Nat) (i : Inst)
    (hi : insts[r]? = some i) (hc : ∀ c ∈ cols, r < c.length) :
    (batchExec (insts.map (fun i => (i, reset i))) cols)[r]? =
      some (i, exec env i (env.reset i) (cols.map (fun c => c.getD r 0))) :=
  batchExec_getElem? cols _ r (i, reset i) (by simp [hi]) hc

example : (batchExec ([⟨2, fun _ => 1, fun _ => 1, fun _ => 1⟩, ⟨2, fun _ => 2, fun _ => 1, fun _ => 1⟩].map
    (fun i => (i, reset i))) [[1, 2], [2, 1]]).map (fun r => (r.2.cur, r.2.time, r.2.done)) =
    [(2, 2, true), (1, 4, true)] := by decide

end Rl4co.Smtwtp
