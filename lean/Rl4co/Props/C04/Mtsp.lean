/-
C04 for mTSP.

Batch part: the only batch-global read of `_step` is the first-step flag `batch_to_scalar(td["i"]) == 0`
(row 0's counter).  All rows of a batch carry the same counter (`LockStep`, preserved by every step),
so the batched step equals the row-wise step (`batchStep_eq_map`).

Padding part: a finished row only offers the depot; stepping it keeps `done` and the mask, but the
FIRST such step changes the reward state (`max_subtour_length` absorbs the way back of the last tour
a second time): `pad_noop_statement` is false of the code (`pad_noop_counterexample`).  What does hold
(`pad_noop_partial`): done and mask are kept, the new reward state is
`max(old, current_length + D cur 0 + D 0 0)`, and it is unchanged once the row stands at the depot
(second and later padding steps).
-/
import Rl4co.Proofs.Mtsp
import Rl4co.Props.C03.Mtsp

namespace Rl4co.Mtsp

/-! ### batch part -/

/-- all rows carry the same step counter -/
def LockStep (rows : List (Inst × State)) (c : Nat) : Prop := ∀ r ∈ rows, r.2.i = c

theorem zipWith_congr_mem {α β γ : Type} (f g : α → β → γ) (l : List α) (bs : List β)
    (h : ∀ x ∈ l, ∀ b, f x b = g x b) : List.zipWith f l bs = List.zipWith g l bs := by
  induction l generalizing bs with
  | nil => simp
  | cons x xs ih =>
    cases bs with
    | nil => simp
    | cons b bs =>
      simp only [List.zipWith_cons_cons]
      rw [h x (by simp) b, ih bs (fun y hy => h y (by simp [hy]))]

/-- **C04 (mTSP), batch part.** -/
theorem batchStep_eq_map (rows : List (Inst × State)) (acts : List Nat) (c : Nat)
    (h : LockStep rows c) :
    batchStep rows acts = List.zipWith (fun r a => (r.1, step r.1 r.2 a)) rows acts := by
  cases rows with
  | nil => simp [batchStep]
  | cons r rs =>
    simp only [batchStep]
    apply zipWith_congr_mem
    intro x hx b
    have h1 := h x hx
    have h2 := h r (by simp)
    simp only [step, h1, h2]

/-- lock-step is preserved: every row's counter is incremented -/
theorem lockStep_step (rows : List (Inst × State)) (acts : List Nat) (c : Nat) (h : LockStep rows c) :
    LockStep (List.zipWith (fun r a => (r.1, step r.1 r.2 a)) rows acts) (c + 1) := by
  induction rows generalizing acts with
  | nil => intro r hr; simp at hr
  | cons x xs ih =>
    cases acts with
    | nil => intro r hr; simp at hr
    | cons b bs =>
      intro r hr
      simp only [List.zipWith_cons_cons, List.mem_cons] at hr
      rcases hr with hr | hr
      · subst hr
        have := h x (by simp)
        simp [step, stepWith, this]
      · exact ih bs (fun y hy => h y (by simp [hy])) r hr

/-! ### padding part -/

/-- further invariant: at the depot the running length is 0; the running maximum is non-negative -/
structure InvLen (s : State) : Prop where
  atDepot : s.cur = 0 → s.curLen = 0
  maxNonneg : 0 ≤ s.maxLen

theorem invLen_of_reach (i : Inst) {s : State} (h : Reach env i s) : InvLen s := by
  refine Rl4co.inv_of_reach (e := env) (Inv := InvLen) ⟨fun _ => rfl, by simp [env, reset]⟩ ?_ h
  intro s a hi _ _
  refine ⟨?_, ?_⟩
  · intro hc
    have : a = 0 := hc
    show (step i s a).curLen = 0
    rw [step_curLen, if_pos this]
  · show 0 ≤ (step i s a).maxLen
    rw [step_maxLen]; have := hi.maxNonneg; omega

def pad_noop_statement : Prop :=
  ∀ (i : Inst) (s : State) (a : Nat), WFD i → 1 ≤ i.n → 1 ≤ i.m → Reach env i s →
    env.done i s = true → a < env.nAct i → env.mask i s a = true →
      env.done i (env.step i s a) = true ∧
      (∀ b, b < env.nAct i → env.mask i (env.step i s a) b = env.mask i s b) ∧
      rewardMinmax (env.step i s a) = rewardMinmax s

/-- One customer at distance 1: after `[1]` the reward is −2, after the padding step it is −3. -/
theorem pad_noop_counterexample : ¬ pad_noop_statement := by
  intro h
  have := h cexInst (exec env cexInst (env.reset cexInst) [1]) 0
    ⟨by intro a b; simp only [cexInst]; split <;> omega, rfl⟩ (by decide) (by decide)
    ⟨[1], (run_iff_admitted _ _ _ _ _).2 ⟨by decide, rfl⟩⟩ (by decide) (by decide) (by decide)
  revert this; decide

/-- **C04 (mTSP), padding part — what holds.** -/
theorem pad_noop_partial (i : Inst) (hn : 1 ≤ i.n) (hm : 1 ≤ i.m) {s : State} (h : Reach env i s)
    (hd : env.done i s = true) (a : Nat) (ha : a < env.nAct i) (hmask : env.mask i s a = true) :
    a = 0 ∧
    env.done i (env.step i s a) = true ∧
    (∀ b, b < env.nAct i → env.mask i (env.step i s a) b = env.mask i s b) ∧
    (env.step i s a).maxLen = max s.maxLen (s.curLen + i.D s.cur 0 + i.D 0 0) ∧
    (s.cur = 0 → i.D 0 0 = 0 → rewardMinmax (env.step i s a) = rewardMinmax s) := by
  have hi := inv_of_reach hn hm h
  have hl := invLen_of_reach i h
  have hd' : s.done = true := hd
  have h0 := mask_of_done hi hd' ha hmask
  subst h0
  have hds := done_step_of_done hi hd'
  have hi' := inv_step hi ha hmask
  have hmx : (step i s 0).maxLen = max s.maxLen (s.curLen + i.D s.cur 0 + i.D 0 0) := by
    rw [step_maxLen, hds]; simp
  refine ⟨rfl, hds, ?_, hmx, ?_⟩
  · intro b hb
    show (step i s 0).avail b = s.avail b
    cases b with
    | zero => rw [hi'.doneDep hds, hi.doneDep hd']
    | succ k =>
      simp only [env] at hb
      rw [hi'.doneNo hds (k + 1) (by omega) (by omega), hi.doneNo hd' (k + 1) (by omega) (by omega)]
  · intro hc h00
    show - (step i s 0).maxLen = - s.maxLen
    rw [hmx, hc, hl.atDepot hc, h00]
    have := hl.maxNonneg
    omega

/-- Non-vacuity: the finished state after `[1,2]` (2 customers, 1 agent) is reachable and offers the depot. -/
example : Reach env ⟨2, 1, fun _ _ => 1⟩ (exec env ⟨2, 1, fun _ _ => 1⟩ (env.reset ⟨2, 1, fun _ _ => 1⟩) [1, 2]) :=
  ⟨[1, 2], (run_iff_admitted _ _ _ _ _).2 ⟨by decide, rfl⟩⟩
example : env.done ⟨2, 1, fun _ _ => 1⟩ (exec env ⟨2, 1, fun _ _ => 1⟩ (env.reset ⟨2, 1, fun _ _ => 1⟩) [1, 2]) = true ∧
    env.mask ⟨2, 1, fun _ _ => 1⟩ (exec env ⟨2, 1, fun _ _ => 1⟩ (env.reset ⟨2, 1, fun _ _ => 1⟩) [1, 2]) 0 = true := by
  decide

end Rl4co.Mtsp
