/-
C04 for mTSP (code after the upstream fix 0b6c547).

Batch part: the only batch-global read of `_step` is the first-step flag `batch_to_scalar(td["i"]) == 0`
(row 0's counter).  All rows of a batch carry the same counter (`LockStep`, preserved by every step),
so the batched step equals the row-wise step (`batchStep_eq_map`).

Padding part (`pad_noop`): a finished row only offers the depot; stepping it — any number of times,
while slower batch-mates are still running — changes neither `done`, nor the mask, nor the reward.
-/
import Rl4co.Proofs.Mtsp
import Rl4co.Props.C03.Mtsp

namespace Rl4co.Mtsp

/-! ### batch part -/

/-- all rows carry the same step counter -/
def LockStep (rows : List (Inst × State)) (c : Nat) : Prop := ∀ r ∈ rows, r.2.i = c

theorem zipWith_congr_mem {α β γ : Type} (f g : α → β → γ) (l : List α) (bs : List β)
    (h : ∀ x ∈ l, ∀ b, f x b = g x b) : List.zipWith f l bs = List.zipWith g l bs := by
  induction l generalizing bs with
  | nil => simp
  | cons x xs ih =>
    cases bs with
    | nil => simp
    | cons b bs =>
      simp only [List.zipWith_cons_cons]
      rw [h x (by simp) b, ih bs (fun y hy => h y (by simp [hy]))]

/-- **C04 (mTSP), batch part.** -/
theorem batchStep_eq_map (rows : List (Inst × State)) (acts : List Nat) (c : Nat)
    (h : LockStep rows c) :
    batchStep rows acts = List.zipWith (fun r a => (r.1, step r.1 r.2 a)) rows acts := by
  cases rows with
  | nil => simp [batchStep]
  | cons r rs =>
    simp only [batchStep]
    apply zipWith_congr_mem
    intro x hx b
    have h1 := h x hx
    have h2 := h r (by simp)
    simp only [step, h1, h2]

/-- lock-step is preserved: every row's counter is incremented -/
theorem lockStep_step (rows : List (Inst × State)) (acts : List Nat) (c : Nat) (h : LockStep rows c) :
    LockStep (List.zipWith (fun r a => (r.1, step r.1 r.2 a)) rows acts) (c + 1) := by
  induction rows generalizing acts with
  | nil => intro r hr; simp at hr
  | cons x xs ih =>
    cases acts with
    | nil => intro r hr; simp at hr
    | cons b bs =>
      intro r hr
      simp only [List.zipWith_cons_cons, List.mem_cons] at hr
      rcases hr with hr | hr
      · subst hr
        have := h x (by simp)
        simp [step, stepWith, this]
      · exact ih bs (fun y hy => h y (by simp [hy])) r hr

/-! ### `∀ batch, ∀ row` forms (rows of one batch may have different `num_agents`) -/

/-- one batched step: row `k` of ANY lock-step batch — whatever the numbers of agents, the distances and
the progress of the other rows — is the row stepped on its own -/
theorem batch_rows (rows : List (Inst × State)) (acts : List Nat) (c : Nat) (h : LockStep rows c)
    (k : Nat) (r0 : Inst × State) (a : Nat) (hr : rows[k]? = some r0) (ha : acts[k]? = some a) :
    (batchStep rows acts)[k]? = some (r0.1, step r0.1 r0.2 a) := by
  rw [batchStep_eq_map rows acts c h]
  simp [List.getElem?_zipWith, hr, ha]

/-- the batched episode: all rows are stepped in lock step with the columns of an action matrix -/
def batchExec (rows : List (Inst × State)) : List (List Nat) → List (Inst × State)
  | [] => rows
  | acts :: rest => batchExec (batchStep rows acts) rest

/-- the per-row episodes -/
def rowsExec (rows : List (Inst × State)) : List (List Nat) → List (Inst × State)
  | [] => rows
  | acts :: rest => rowsExec (List.zipWith (fun r a => (r.1, step r.1 r.2 a)) rows acts) rest

/-- **C04 (mTSP), whole episodes: a batched episode is the family of its rows' own episodes**, for every
batch composition (mixed `num_agents`, sizes of the other rows' remaining work, any amount of padding). -/
theorem batchExec_eq_rows (actss : List (List Nat)) : ∀ (rows : List (Inst × State)) (c : Nat),
    LockStep rows c → batchExec rows actss = rowsExec rows actss := by
  induction actss with
  | nil => intro rows c _; rfl
  | cons acts rest ih =>
    intro rows c h
    simp only [batchExec, rowsExec]
    rw [batchStep_eq_map rows acts c h]
    exact ih _ (c + 1) (lockStep_step rows acts c h)

/-- a batch of freshly reset instances is in lock step -/
theorem lockStep_reset (insts : List Inst) : LockStep (insts.map (fun i => (i, reset i))) 0 := by
  intro r hr
  simp only [List.mem_map] at hr
  obtain ⟨i, _, rfl⟩ := hr
  rfl

/-! ### padding part -/

/-- **C04 (mTSP): padding is a no-op.** -/
theorem pad_noop (i : Inst) (hwf : WFD i) (hn : 1 ≤ i.n) (hm : 1 ≤ i.m) {s : State}
    (h : Reach env i s) (hd : env.done i s = true) (a : Nat) (ha : a < env.nAct i)
    (hmask : env.mask i s a = true) :
    a = 0 ∧
    env.done i (env.step i s a) = true ∧
    (∀ b, b < env.nAct i → env.mask i (env.step i s a) b = env.mask i s b) ∧
    rewardMinmax (env.step i s a) = rewardMinmax s := by
  obtain ⟨hi, hp⟩ := inv_both_of_reach hwf hn hm h
  have hd' : s.done = true := hd
  have h0 := mask_of_done hi hd' ha hmask
  subst h0
  have hds := done_step_of_done hi hd'
  have hi' := inv_step hi ha hmask
  refine ⟨rfl, hds, ?_, ?_⟩
  · intro b hb
    show (step i s 0).avail b = s.avail b
    cases b with
    | zero => rw [hi'.doneDep hds, hi.doneDep hd']
    | succ k =>
      have hb' : k + 1 < i.n + 1 := hb
      rw [hi'.doneNo hds (k + 1) (by omega) (by omega), hi.doneNo hd' (k + 1) (by omega) (by omega)]
  · show - (step i s 0).maxLen = - s.maxLen
    rw [maxLen_pad hwf hi hp hd']

/-- Non-vacuity: the finished state after `[1,2]` (2 customers, 1 agent) is reachable and offers the depot. -/
example : Reach env ⟨2, 1, fun _ _ => 1⟩ (exec env ⟨2, 1, fun _ _ => 1⟩ (env.reset ⟨2, 1, fun _ _ => 1⟩) [1, 2]) :=
  ⟨[1, 2], (run_iff_admitted _ _ _ _ _).2 ⟨by decide, rfl⟩⟩
example : env.done ⟨2, 1, fun _ _ => 1⟩ (exec env ⟨2, 1, fun _ _ => 1⟩ (env.reset ⟨2, 1, fun _ _ => 1⟩) [1, 2]) = true ∧
    env.mask ⟨2, 1, fun _ _ => 1⟩ (exec env ⟨2, 1, fun _ _ => 1⟩ (env.reset ⟨2, 1, fun _ _ => 1⟩) [1, 2]) 0 = true := by
  decide

end Rl4co.Mtsp
