/-
C11 / C02 (`Decode.loop_terminates`) — the `while not td["done"].all()` loop of
`ConstructivePolicy.forward` with its `max_steps` guard: given a step bound for the rows (C02) and a
selector that emits mask-admitted actions (C10), the loop halts with every row done before `max_steps`,
and never feeds a row with an all-false action mask to the decoder.
-/
import Rl4co.Proofs.Loglik

namespace Rl4co.Decode
open Rl4co.Spec.Loglik

variable {S : Type}

/-- **C11/C02, decode-loop termination.**  Given C02's facts about the rows (`LoopHyp`, with
`bound ≤ max_steps`) and a selector that only emits mask-admitted actions (C10), the
`while not done.all()` loop of `ConstructivePolicy.forward` — started after the pre-decoder hook —
exits with every row done, after at most `bound` passes (so the `max_steps` `break` is never taken),
and no pass ever looks at a row whose action mask is all `False`. -/
theorem loop_terminates (e : DEnv S) (π : S → Row) (sel : Nat → Nat → Row → Nat) (sA : Bool)
    (B N bound maxSteps : Nat) (start : Option (Nat → Nat)) (s0 : Nat → S)
    (H : LoopHyp e B bound (fun r => (pre e sA N start s0 r).s))
    (hsel : ∀ r t s, (∃ a, e.mask s a = true) → e.mask s (sel r t (π s)) = true)
    (hb : bound ≤ maxSteps) :
    allDone e B (decode e π sel sA B N maxSteps start s0).1 = true ∧
      (decode e π sel sA B N maxSteps start s0).2 ≤ bound ∧
      loopSafe e π sel sA B (maxSteps + 1) 0 (pre e sA N start s0) := by
  unfold decode
  apply loop_terminates_aux e π sel sA B bound _ H hsel (maxSteps + 1) 0
  · intro r _
    exact ⟨[], DRun.nil _, rfl⟩
  · omega
  · omega

/-- Without the step bound the loop still stops: it makes at most `max_steps + 1` passes (the
`if step > max_steps: break` is placed after the increment). -/
theorem loop_passes_le (e : DEnv S) (π : S → Row) (sel : Nat → Nat → Row → Nat) (sA : Bool) (B : Nat) :
    ∀ (f t : Nat) (b : Nat → RowSt S), (loop e π sel sA B f t b).2 ≤ t + f := by
  intro f
  induction f with
  | zero => intro t b; simp [loop]
  | succ f ih =>
    intro t b
    simp only [loop]
    split
    · omega
    · have := ih (t + 1) (iter e sA π (fun r row => sel r t row) b)
      omega


/-! ### non-vacuity -/
namespace ExampleLoop

def toyEnv : DEnv Nat :=
  { step := fun s _ => s + 1, done := fun s => decide (3 ≤ s), mask := fun s a => decide (a < 2) && decide (s < 3) }
def toyπ : Nat → Row := fun s => [some (-(s : Int) - 1), some (-5)]
def toySel : Nat → Nat → Row → Nat := fun r t _ => (r + t) % 2

theorem toy_run {s s' : Nat} {as : List Nat} (h : DRun toyEnv s as s') :
    s' = s + as.length ∧ (s ≤ 3 → s' ≤ 3) := by
  induction h with
  | nil => simp
  | snoc _ hm ih =>
    simp [toyEnv] at hm
    simp [toyEnv, ih.1]
    omega

/-- `LoopHyp` is satisfiable in its *equal-length* form (the mask of a finished row is all-false,
as in TSP), so the theorem is not vacuous there either -/
theorem toy_hyp : LoopHyp toyEnv 2 3 (fun r => (pre toyEnv false 2 none (fun _ => 0) r).s) := by
  constructor
  · intro r _ as s h hb
    have := (toy_run h).1
    simp [pre] at this
    simp [toyEnv]; omega
  · right
    refine ⟨3, fun r _ as s h => ?_⟩
    have h1 := (toy_run h).1
    have h2 := (toy_run h).2
    simp [pre] at h1 h2
    constructor
    · simp [toyEnv]; omega
    · intro hd
      refine ⟨0, ?_⟩
      simp [toyEnv] at hd ⊢
      omega

example : (∀ r t s, (∃ a, toyEnv.mask s a = true) → toyEnv.mask s (toySel r t (toyπ s)) = true) := by
  intro r t s ⟨a, ha⟩
  simp [toyEnv, toySel] at ha ⊢
  omega

theorem toy_sel : ∀ r t s, (∃ a, toyEnv.mask s a = true) → toyEnv.mask s (toySel r t (toyπ s)) = true := by
  intro r t s ⟨a, ha⟩
  simp [toyEnv, toySel] at ha ⊢
  omega

/-- the theorem applies (bound 3 ≤ max_steps 10) and its conclusion is the observed behaviour -/
example := loop_terminates toyEnv toyπ toySel false 2 2 3 10 none (fun _ => 0) toy_hyp toy_sel (by omega)

example : (decode toyEnv toyπ toySel false 2 2 10 none (fun _ => 0)).2 = 3 := by decide

end ExampleLoop

end Rl4co.Decode
