/-
C11 — returned log-likelihoods are those of the returned actions; evaluate round trip; PPO ratio.
Model: `Rl4co/Decode/Strategy.lean` (mirrors rl4co/utils/decoding.py, ConstructivePolicy.forward,
ops.calculate_entropy, PPO.shared_step); spec: `Rl4co/Spec/Loglik.lean`.  The policy network (with
`process_logits`, C10) is an uninterpreted function `π` of the row's decoding state, the selection
(argmax tie-breaking, multinomial sampler) an uninterpreted `sel`: every theorem holds for all of them,
for every batch size, action-space size, `max_steps`, `store_all_logp` setting and mask.
-/
import Rl4co.Proofs.Loglik

namespace Rl4co.Decode
open Rl4co.Spec.Loglik

variable {S : Type}

/-- **C11, first clause.**  For every policy `π`, selector (greedy, sampling, …), batch, `store_all_logp`
setting and step bound: the log-likelihood returned for row `r` is the sum over the returned actions of
the log-probability `π` assigns to that action in the state it was taken in — a forced multi-start first
move and steps whose `mask` entry is `False` contributing `0` (`Spec.Loglik.specLL`). -/
theorem ll_eq_sum_gather (e : DEnv S) (π : S → Row) (sel : Nat → Nat → Row → Nat) (storeAll : Bool)
    (B N maxSteps : Nat) (start : Option (Nat → Nat)) (s0 : Nat → S)
    (hstart : ∀ f, start = some f → ∀ r, f r < N) (mask : Option (List Bool)) (r : Nat) :
    let out := (decode e π sel storeAll B N maxSteps start s0).1 r
    getLLSum out.recs out.acts mask = specLL e π (s0 r) start.isSome out.acts mask := by
  intro out
  have h := decode_rowInv e π sel storeAll B N maxSteps start s0 hstart r
  rw [getLLSum_eq]
  unfold specLL
  rw [lpSum_eq_sumLP, getLL_mask, h.vals]

/-- per-step version (`return_sum_log_likelihood=False`) -/
theorem ll_steps_eq_gather (e : DEnv S) (π : S → Row) (sel : Nat → Nat → Row → Nat) (storeAll : Bool)
    (B N maxSteps : Nat) (start : Option (Nat → Nat)) (s0 : Nat → S)
    (hstart : ∀ f, start = some f → ∀ r, f r < N) (mask : Option (List Bool)) (r : Nat) :
    let out := (decode e π sel storeAll B N maxSteps start s0).1 r
    getLL out.recs out.acts mask = applyMask (specVals e π (s0 r) start.isSome out.acts) mask := by
  intro out
  have h := decode_rowInv e π sel storeAll B N maxSteps start s0 hstart r
  rw [getLL_mask, h.vals]

/-- the state the environment is left in is the one reached by the returned actions, and with
`store_all_logp` the returned `[T, N]` log-prob rows are the policy's distributions along them -/
theorem decode_state_rows (e : DEnv S) (π : S → Row) (sel : Nat → Nat → Row → Nat) (storeAll : Bool)
    (B N maxSteps : Nat) (start : Option (Nat → Nat)) (s0 : Nat → S)
    (hstart : ∀ f, start = some f → ∀ r, f r < N) (r : Nat) :
    let out := (decode e π sel storeAll B N maxSteps start s0).1 r
    out.s = execD e (s0 r) out.acts ∧
      (storeAll = true → fullRows out.recs = some (specRows e π N (s0 r) start.isSome out.acts)) := by
  intro out
  have h := decode_rowInv e π sel storeAll B N maxSteps start s0 hstart r
  exact ⟨h.state, h.rows⟩

/-! ### evaluate round trip -/

/-- **C11, second clause (evaluate round trip).**  For every policy `π` (a function of the row's
decoding state: the hypothesis `Deterministic π`), every selector and every `store_all_logp` setting
of the two calls: feeding the actions returned by a (non multi-start) rollout back through
`policy(td, env, actions=…)` makes the same number of passes, ends in the same environment states,
returns the same actions and the same per-step log-likelihoods under every `mask`; with
`store_all_logp` the `[T, N]` log-prob rows evaluate returns are the policy's distributions along
the returned actions (so is the entropy, whatever `term` is). -/
theorem evaluate_roundtrip (e : DEnv S) (π : S → Row) (sel : Nat → Nat → Row → Nat) (sA sA' : Bool)
    (B N maxSteps : Nat) (s0 : Nat → S) :
    let out := decode e π sel sA B N maxSteps none s0
    let ev := evaluate e π (fun r => (out.1 r).acts) sA' B N maxSteps s0
    ev.2 = out.2 ∧ ∀ r,
      (ev.1 r).s = (out.1 r).s ∧ (ev.1 r).acts = (out.1 r).acts ∧
      (∀ m, getLL (ev.1 r).recs (ev.1 r).acts m = getLL (out.1 r).recs (out.1 r).acts m) ∧
      (sA' = true → fullRows (ev.1 r).recs = some (tfRows e π (s0 r) (out.1 r).acts)) := by
  intro out ev
  have hsim0 : Sim (pre e sA N none s0) (pre e sA' N none s0) := by
    intro r; simp [pre]
  have hlen0 : ∀ r, ((pre e sA N none s0) r).acts.length = 0 := by
    intro r; simp [pre]
  have key := loop_eval_replay e π sel sA sA' B (maxSteps + 1) 0 _ _ hsim0 hlen0
  have hno : ∀ f, (none : Option (Nat → Nat)) = some f → ∀ r, f r < N := by
    intro f hf; cases hf
  refine ⟨key.1, fun r => ?_⟩
  have hs := key.2 r
  have hout := decode_rowInv e π sel sA B N maxSteps none s0 hno r
  have hev := decode_rowInv e π (evalSel (fun r => (out.1 r).acts)) sA' B N maxSteps none s0 hno r
  have hacts : (ev.1 r).acts = (out.1 r).acts := hs.2.symm
  refine ⟨hs.1.symm, hacts, ?_, ?_⟩
  · intro m
    rw [getLL_mask, getLL_mask (out.1 r).recs]
    have h1 : getLL (ev.1 r).recs (ev.1 r).acts none = specVals e π (s0 r) false (ev.1 r).acts := hev.vals
    have h2 : getLL (out.1 r).recs (out.1 r).acts none = specVals e π (s0 r) false (out.1 r).acts :=
      hout.vals
    rw [h1, h2, hacts]
  · intro h
    have h1 : fullRows (ev.1 r).recs = some (specRows e π N (s0 r) false (ev.1 r).acts) := hev.rows h
    rw [h1, hacts]
    simp [specRows]

/-- the reward (any function of the final environment state and the actions) is reproduced -/
theorem evaluate_roundtrip_reward {α : Type} (rew : S → List Nat → α) (e : DEnv S) (π : S → Row)
    (sel : Nat → Nat → Row → Nat) (sA sA' : Bool) (B N maxSteps : Nat) (s0 : Nat → S) (r : Nat) :
    let out := decode e π sel sA B N maxSteps none s0
    let ev := evaluate e π (fun r => (out.1 r).acts) sA' B N maxSteps s0
    rew (ev.1 r).s (ev.1 r).acts = rew (out.1 r).s (out.1 r).acts := by
  intro out ev
  have h := (evaluate_roundtrip e π sel sA sA' B N maxSteps s0).2 r
  rw [h.1, h.2.1]

/-- the entropy is reproduced (both calls storing all log-probs; `term` = the elementwise `-(exp x · x)`) -/
theorem evaluate_roundtrip_entropy (term : LP → Int) (e : DEnv S) (π : S → Row)
    (sel : Nat → Nat → Row → Nat) (B N maxSteps : Nat) (s0 : Nat → S) (r : Nat) :
    let out := decode e π sel true B N maxSteps none s0
    let ev := evaluate e π (fun r => (out.1 r).acts) true B N maxSteps s0
    (fullRows (ev.1 r).recs).map (calculateEntropy term) =
      (fullRows (out.1 r).recs).map (calculateEntropy term) := by
  intro out ev
  have h := (evaluate_roundtrip e π sel true true B N maxSteps s0).2 r
  have hno : ∀ f, (none : Option (Nat → Nat)) = some f → ∀ r, f r < N := by
    intro f hf; cases hf
  have hout := (decode_rowInv e π sel true B N maxSteps none s0 hno r).rows rfl
  rw [h.2.2.2 rfl]
  have : fullRows (out.1 r).recs = some (tfRows e π (s0 r) (out.1 r).acts) := by
    simpa [specRows] using hout
  rw [this]

/-- **C11, PPO clause.**  `ratio = exp(ll_new.sum(-1) − ll_old)` is exactly `1` at the first PPO epoch
(weights unchanged): `ll_old` is the summed log-likelihood of a sampling rollout (gathered per step),
`ll_new` the per-step log-likelihood of `policy(td, env, actions=…, return_entropy=True)` (all
log-probs stored, gathered at the end); `ex` is `exp`, of which only `exp 0 = 1` is used. -/
theorem ratio_one (ex : Int → Int) (hex : ex 0 = 1) (e : DEnv S) (π : S → Row)
    (sel : Nat → Nat → Row → Nat) (sA sA' : Bool) (B N maxSteps : Nat) (s0 : Nat → S)
    (m : Option (List Bool)) (r : Nat) (v : Int) :
    let out := decode e π sel sA B N maxSteps none s0
    let ev := evaluate e π (fun r => (out.1 r).acts) sA' B N maxSteps s0
    getLLSum (out.1 r).recs (out.1 r).acts m = some v →
    ppoRatio ex (getLL (ev.1 r).recs (ev.1 r).acts m) (getLLSum (out.1 r).recs (out.1 r).acts m)
      = some 1 := by
  intro out ev hv
  have h := ((evaluate_roundtrip e π sel sA sA' B N maxSteps s0).2 r).2.2.1 m
  unfold ppoRatio
  rw [h]
  have hv' : lpSum (getLL (out.1 r).recs (out.1 r).acts m) = some v := hv
  rw [hv', hv]
  simp [hex]

/-! ### best-of-starts selection -/

/-- `_select_best` / `_select_best_beam`: the row kept for instance `b` belongs to instance `b`
(index `≡ b mod B`), and its reward is the maximum over the instance's `K` copies. -/
theorem select_best_is_max (B K : Nat) (rew : Nat → Int) (arg : Nat → Nat)
    (h : ValidArgmax B K rew arg) (b : Nat) (hb : b < B) :
    selectBestRow B arg b % B = b ∧ selectBestRow B arg b / B = arg b ∧ arg b < K ∧
      ∀ k, k < K → rew (k * B + b) ≤ rew (selectBestRow B arg b) := by
  obtain ⟨h1, h2⟩ := validArgmax_le h b hb
  refine ⟨?_, ?_, h1, fun k hk => h2 k hk⟩
  · simp [selectBestRow, Nat.mul_add_mod_of_lt hb]
  · unfold selectBestRow
    rw [Nat.add_comm, Nat.add_mul_div_right _ _ (by omega : 0 < B), Nat.div_eq_of_lt hb]
    simp

/-- with `select_best`, the reward of the returned row is `Spec.bestReward` of its instance -/
theorem select_best_reward (B K : Nat) (rew : Nat → Int) (arg : Nat → Nat)
    (h : ValidArgmax B K rew arg) (b : Nat) (hb : b < B) :
    bestReward B rew b K = some (rew (selectBestRow B arg b)) := by
  obtain ⟨h1, h2⟩ := validArgmax_le h b hb
  cases hbest : bestReward B rew b K with
  | none =>
    cases K with
    | zero => omega
    | succ K' =>
      simp only [bestReward] at hbest
      cases h' : bestReward B rew b K' <;> simp [h'] at hbest
  | some m =>
    obtain ⟨⟨k, hk, hke⟩, hmax⟩ := bestReward_spec B rew b K m hbest
    have a1 := hmax (arg b) h1
    have a2 := h2 k hk
    simp only [selectBestRow] at *
    congr 1
    omega


/-! ### where C11, as worded ("every bundled policy"), fails on the unchanged code (DESIGN §4.3):
a network whose forward pass depends on more than the row's state — random draws (MatNet: known finding
`C11-matnet-stochastic-embedding`) or batch statistics (BatchNorm under PPO mini-batching: known finding
`C11-ppo-batchnorm-minibatch-ratio`) -/

/-- **Evaluate round trip for a network whose forward pass depends on a context `ω` beyond the row's
decoding state**: the random numbers it draws (MatNet's random one-hot initial embedding), or the
statistics of the batch it is evaluated in (BatchNorm in train mode: PPO re-evaluates on mini-batches).
The context of the evaluation is not the rollout's. -/
def evaluate_roundtrip_stochastic_statement : Prop :=
  ∀ (Ω S : Type) (e : DEnv S) (π : Ω → S → Row) (sel : Nat → Nat → Row → Nat) (B N maxSteps : Nat)
    (s0 : Nat → S) (ω ω' : Ω) (r : Nat), r < B →
    getLL ((evaluate e (π ω') (fun r => ((decode e (π ω) sel false B N maxSteps none s0).1 r).acts)
        true B N maxSteps s0).1 r).recs
      ((decode e (π ω) sel false B N maxSteps none s0).1 r).acts none
    = getLL ((decode e (π ω) sel false B N maxSteps none s0).1 r).recs
      ((decode e (π ω) sel false B N maxSteps none s0).1 r).acts none

theorem evaluate_roundtrip_stochastic_counterexample : ¬ evaluate_roundtrip_stochastic_statement := by
  intro h
  let e : DEnv Nat := { step := fun s _ => s + 1, done := fun s => decide (1 ≤ s), mask := fun _ _ => true }
  have := h Bool Nat e (fun ω _ => if ω then [some (-1)] else [some (-2)]) (fun _ _ _ => 0) 1 1 5
    (fun _ => 0) true false 0 (by decide)
  revert this
  decide

/-- partial: with the same draw (generator state restored) the round trip holds — this is
`evaluate_roundtrip` for the policy `π ω` -/
theorem evaluate_roundtrip_stochastic_partial {Ω : Type} (e : DEnv S) (π : Ω → S → Row)
    (sel : Nat → Nat → Row → Nat) (B N maxSteps : Nat) (s0 : Nat → S) (ω : Ω) (r : Nat) :
    getLL ((evaluate e (π ω) (fun r => ((decode e (π ω) sel false B N maxSteps none s0).1 r).acts)
        true B N maxSteps s0).1 r).recs
      ((decode e (π ω) sel false B N maxSteps none s0).1 r).acts none
    = getLL ((decode e (π ω) sel false B N maxSteps none s0).1 r).recs
      ((decode e (π ω) sel false B N maxSteps none s0).1 r).acts none := by
  have h := ((evaluate_roundtrip e (π ω) sel false true B N maxSteps s0).2 r)
  have h2 := h.2.2.1 none
  rw [h.2.1] at h2
  exact h2


/-! ### non-vacuity -/
namespace Example

/-- a three-step toy environment with two actions -/
def toyEnv : DEnv Nat :=
  { step := fun s _ => s + 1, done := fun s => decide (3 ≤ s), mask := fun _ a => decide (a < 2) }
def toyπ : Nat → Row := fun s => [some (-(s : Int) - 1), some (-5)]
def toySel : Nat → Nat → Row → Nat := fun r t _ => (r + t) % 2

/-- the hypothesis of `ll_eq_sum_gather` (start nodes in range) is satisfiable, and the statement is
about non-trivial values: row 1 of a multi-start run takes actions `[1 (forced), 1, 0]` with
log-likelihood `0 + (−5) + (−3)` -/
example : (∀ f, some (fun r : Nat => r % 2) = some f → ∀ r, f r < 2) := by
  intro f hf r; cases hf; exact Nat.mod_lt _ (by omega)

example :
    let out := (decode toyEnv toyπ toySel false 2 2 10 (some (fun r => r % 2)) (fun _ => 0)).1 1
    out.acts = [1, 1, 0] ∧ getLLSum out.recs out.acts none = some (-8) ∧
      specLL toyEnv toyπ 0 true out.acts none = some (-8) := by decide

/-- the finiteness hypothesis of `ratio_one` holds on a concrete rollout (`v = −9`) -/
example :
    let out := decode toyEnv toyπ toySel false 2 2 10 none (fun _ => 0)
    getLLSum (out.1 0).recs (out.1 0).acts none = some (-9) ∧ out.2 = 3 := by decide

/-- `ValidArgmax` is satisfiable with a non-constant reward -/
example : ValidArgmax 2 3 (fun i => [3, 1, 4, 1, 5, 9].getD i 0) (fun b => if b = 0 then 2 else 2) := by
  intro b hb
  have : b = 0 ∨ b = 1 := by omega
  rcases this with h | h <;> subst h <;> refine ⟨by decide, fun s hs => ?_⟩ <;>
    (have : s = 0 ∨ s = 1 ∨ s = 2 := by omega) <;> rcases this with h | h | h <;> subst h <;> decide

end Example

end Rl4co.Decode
