/-
C11 — (1) the stepwise PPO policies (`L2DPolicy4PPO.act` / `.evaluate`, the entry points of `StepwisePPO`):
act → evaluate round trip, resting on the extracted equality of the option arguments the two call sites hand
to `process_logits` (`stepwise_opts_eq`); (2) the property text made literal: a forced multi-start first move
contributes exactly zero, the entropy returned is the entropy of the policy's step distributions along the
returned actions; (3) sanity of `Spec.Loglik` independent of the model: one value per action, chain rule,
empty / fully masked sequences, `-inf` exactly when a step has probability zero.
-/
import Rl4co.Props.C11.Loglik

namespace Rl4co.Decode
open Rl4co.Spec.Loglik

variable {S : Type}


/-! ### stepwise PPO policies: act → evaluate -/

/-- **obligation (translator tie)**: the two `process_logits(logits, mask, …)` calls of
`L2DPolicy4PPO.act` and `L2DPolicy4PPO.evaluate` receive the same option arguments (extracted from the
source on every run).  Stops compiling as soon as one of them gains / loses / changes an option. -/
theorem stepwise_opts_eq : Params.stepwiseActOpts = Params.stepwiseEvalOpts := by decide

/-- `ratios = torch.exp(logprobs - previous_logp)` -/
theorem stepwiseRatio_eq (ex : Int → Int) (a b : Int) :
    stepwiseRatio ex (some a) (some b) = some (ex (a - b)) := by
  simp [stepwiseRatio, Params.stepwiseRatioNewMinusOld]

/-- **C11 for the stepwise policies (`StepwisePPO`'s act / evaluate pair).**  For every network and
`process_logits` (`proc`, any function of the option arguments and the state), every state and every
sampled action: the log-prob `act` stores is the one `evaluate` recomputes for the same action, the
distribution whose entropy `evaluate` returns is the one `act` sampled from, and the probability ratio
`exp(new − old)` of `StepwisePPO.update` is exactly 1 with unchanged weights (only `exp 0 = 1` is used). -/
theorem stepwise_roundtrip (proc : List String → S → Row) (s : S) (a : Nat) :
    (stepwiseEvaluate proc s a).1 = stepwiseAct proc s a ∧
      (stepwiseEvaluate proc s a).2 = stepwiseActRow proc s ∧
      ∀ (ex : Int → Int), ex 0 = 1 → ∀ v, stepwiseAct proc s a = some v →
        stepwiseRatio ex (stepwiseEvaluate proc s a).1 (stepwiseAct proc s a) = some 1 := by
  simp only [stepwiseEvaluate, stepwiseAct, stepwiseActRow, stepwise_opts_eq]
  refine ⟨trivial, trivial, fun ex hex v hv => ?_⟩
  rw [hv, stepwiseRatio_eq]
  simp [hex]

/-- the round trip for call sites with *unrelated* option lists -/
def stepwise_roundtrip_anyopts_statement : Prop :=
  ∀ (S : Type) (proc : List String → S → Row) (o₁ o₂ : List String) (s : S) (a : Nat),
    gather (proc o₂ s) a = gather (proc o₁ s) a

/-- … is false (a temperature passed to one call only changes the distribution): the equality of the
option lists is what the theorem rests on -/
theorem stepwise_roundtrip_anyopts_counterexample : ¬ stepwise_roundtrip_anyopts_statement := by
  intro h
  have := h Unit (fun o _ => if o = [] then [some (-1)] else [some (-2)]) [] ["temperature=self.temperature"] () 0
  revert this
  decide

/-! ### policy constructor options -/

/-- **obligation (translator tie)**: `AttentionModelPolicy.__init__` passes `mask_logits` (and `temperature`,
`tanh_clipping`) on unchanged — in particular the output logits are masked whenever the user asked for it,
whatever `mask_inner` is -/
theorem policyMaskLogits_eq (ctorArg other : Bool) : policyMaskLogits ctorArg other = ctorArg := by
  simp [policyMaskLogits, Params.amCtorDecodingArgsPassedThrough]

/-- the default (`mask_logits=True`) policy masks its output logits for every value of `mask_inner` -/
theorem policy_masks_by_default (maskInner : Bool) : policyMaskLogits true maskInner = true :=
  policyMaskLogits_eq true maskInner

/-! ### forced first move, per-step path, entropy: the property text made literal -/

/-- **obligation (translator tie)**: the multi-start pre-decoder hook takes the forced first moves from the
environment's own start rule `env.select_start_nodes` (extracted), not from the generic helper of utils/ops.py -/
theorem preStartRule_eq (envRule generic : Nat → Nat) : preStartRule envRule generic = envRule := by
  simp [preStartRule, hookStart, Params.preStartFromEnvRule]


/-- **"forced multi-start first moves contribute zero"**: in a multi-start decode the first returned
per-step log-likelihood of every row is `0` (whatever the policy), the first action is the start node,
and the returned log-likelihood is the sum over the remaining steps only. -/
theorem forced_move_contributes_zero (e : DEnv S) (π : S → Row) (sel : Nat → Nat → Row → Nat)
    (storeAll : Bool) (B N maxSteps : Nat) (f : Nat → Nat) (s0 : Nat → S) (hf : ∀ r, f r < N) (r : Nat) :
    let out := (decode e π sel storeAll B N maxSteps (some f) s0).1 r
    ∃ rest, out.acts = f r :: rest ∧
      getLL out.recs out.acts none = some 0 :: tfVals e π (e.step (s0 r) (f r)) rest ∧
      getLLSum out.recs out.acts none = sumLP (tfVals e π (e.step (s0 r) (f r)) rest) := by
  intro out
  have hstart : ∀ g, some f = some g → ∀ r, g r < N := by
    intro g hg r; cases hg; exact hf r
  have hinv := decode_rowInv e π sel storeAll B N maxSteps (some f) s0 hstart r
  have hll := ll_eq_sum_gather e π sel storeAll B N maxSteps (some f) s0 hstart none r
  -- the action buffer starts with the forced node: the loop only appends
  have hpre : ∃ ext, out.acts = (pre e storeAll N (some f) s0 r).acts ++ ext :=
    loop_acts_prefix e π sel storeAll B (loopFuel maxSteps) 0 _ r
  obtain ⟨rest, hrest⟩ := hpre
  refine ⟨rest, by simpa [pre] using hrest, ?_, ?_⟩
  · have h1 : out.acts = f r :: rest := by simpa [pre] using hrest
    have := hinv.vals
    simp only [Option.isSome] at this
    show getLL out.recs out.acts none = _
    rw [this, h1]
    simp [specVals]
  · have h1 : out.acts = f r :: rest := by simpa [pre] using hrest
    show getLLSum out.recs out.acts none = _
    rw [hll, h1]
    simp only [specLL, specVals, applyMask, sumLP, Option.isSome, if_true]
    cases sumLP (tfVals e π (e.step (s0 r) (f r)) rest) <;> simp

/-- the entropy of the policy along a sequence (independent definition): minus the sum over steps and
actions of `p·log p` of the policy's step distributions -/
def specEntropy (prod : LP → Int) (e : DEnv S) (π : S → Row) (s0 : S) (acts : List Nat) : Int :=
  -(((tfRows e π s0 acts).map (fun row => (row.map prod).foldr (· + ·) 0)).foldr (· + ·) 0)

/-- **entropy clause**: the entropy returned with `return_entropy=True` (rollout or evaluate, any
selector) is the entropy of the policy's step distributions along the returned actions. -/
theorem entropy_is_policy_entropy (prod : LP → Int) (e : DEnv S) (π : S → Row)
    (sel : Nat → Nat → Row → Nat) (B N maxSteps : Nat) (s0 : Nat → S) (r : Nat) :
    let out := (decode e π sel true B N maxSteps none s0).1 r
    (fullRows out.recs).map (calculateEntropy prod) = some (specEntropy prod e π (s0 r) out.acts) := by
  intro out
  have hno : ∀ f, (none : Option (Nat → Nat)) = some f → ∀ r, f r < N := by
    intro f hf; cases hf
  have h := (decode_state_rows e π sel true B N maxSteps none s0 hno r).2 rfl
  have h' : fullRows out.recs = some (tfRows e π (s0 r) out.acts) := by
    simpa [specRows] using h
  rw [h']
  simp [calculateEntropy_eq, specEntropy]

/-! ### the specification pinned down independently of the model (sanity of `Spec.Loglik`) -/

/-- one value per returned action -/
theorem specVals_length (e : DEnv S) (π : S → Row) (s0 : S) (forced : Bool) (acts : List Nat) :
    (specVals e π s0 forced acts).length = acts.length := by
  have htf : ∀ s as, (tfVals e π s as).length = as.length := by
    intro s as
    induction as generalizing s with
    | nil => simp [tfVals]
    | cons a as ih => simp [tfVals, ih]
  cases forced with
  | false => simp [specVals, htf]
  | true =>
    cases acts with
    | nil => simp [specVals]
    | cons a rest => simp [specVals, htf]

theorem sumLP_append (xs ys : List LP) :
    sumLP (xs ++ ys) = lpAdd (· + ·) (sumLP xs) (sumLP ys) := by
  induction xs with
  | nil => cases h : sumLP ys <;> simp [sumLP, lpAdd, h]
  | cons x xs ih =>
    cases x with
    | none => simp [sumLP, lpAdd]
    | some a =>
      simp only [List.cons_append, sumLP, ih]
      cases h1 : sumLP xs <;> cases h2 : sumLP ys <;> simp [lpAdd, Int.add_assoc]

theorem tfVals_append (e : DEnv S) (π : S → Row) (s : S) (as bs : List Nat) :
    tfVals e π s (as ++ bs) = tfVals e π s as ++ tfVals e π (execD e s as) bs := by
  induction as generalizing s with
  | nil => simp [tfVals, execD]
  | cons a as ih => simp [tfVals, execD_cons, ih]

/-- **chain rule**: the log-likelihood of a sequence is the log-likelihood of a prefix plus the
log-likelihood of the rest from the state the prefix leads to (so the spec really is "the log of the
product of the step probabilities") -/
theorem specLL_append (e : DEnv S) (π : S → Row) (s0 : S) (as bs : List Nat) :
    specLL e π s0 false (as ++ bs) none
      = lpAdd (· + ·) (specLL e π s0 false as none) (specLL e π (execD e s0 as) false bs none) := by
  simp [specLL, specVals, applyMask, tfVals_append, sumLP_append]

/-- the empty sequence has probability one, and a sequence all of whose steps are flagged irrelevant
has log-likelihood zero -/
theorem specLL_nil (e : DEnv S) (π : S → Row) (s0 : S) (forced : Bool) :
    specLL e π s0 forced [] none = some 0 := by
  cases forced <;> simp [specLL, specVals, tfVals, applyMask, sumLP]

theorem specLL_all_masked (e : DEnv S) (π : S → Row) (s0 : S) (forced : Bool) (acts : List Nat) :
    specLL e π s0 forced acts (some (List.replicate acts.length false)) = some 0 := by
  have hz : ∀ (vs : List LP), sumLP (List.zipWith (fun v keep => if keep = true then v else some 0) vs
      (List.replicate vs.length false)) = some 0 := by
    intro vs
    induction vs with
    | nil => simp [sumLP]
    | cons v vs ih => simp [List.replicate_succ, sumLP, ih]
  have := hz (specVals e π s0 forced acts)
  rw [specVals_length] at this
  simpa [specLL, applyMask] using this

/-- a log-likelihood is `-inf` exactly when some step has probability zero -/
theorem sumLP_eq_none_iff (xs : List LP) : sumLP xs = none ↔ none ∈ xs := by
  induction xs with
  | nil => simp [sumLP]
  | cons x xs ih =>
    cases x with
    | none => simp [sumLP]
    | some a =>
      simp only [sumLP]
      cases h : sumLP xs with
      | none => simp [← ih, h]
      | some b =>
        have : ¬ none ∈ xs := by rw [← ih, h]; simp
        simp [this]


/-! ### non-vacuity -/

/-- a temperature-like option really changes `proc`, and the theorem is about non-trivial values -/
example :
    let proc : List String → Nat → Row := fun o s => if o = ["tanh_clipping=self.tanh_clipping"] then [some (-1), some (-3)] else [some (-2), some (-2)]
    stepwiseAct proc 0 1 = some (-3) ∧ (stepwiseEvaluate proc 0 1).1 = some (-3) ∧
      stepwiseRatio (fun _ => 1) (stepwiseEvaluate proc 0 1).1 (stepwiseAct proc 0 1) = some 1 := by decide

end Rl4co.Decode
