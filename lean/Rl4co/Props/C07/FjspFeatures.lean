/-
C07 for FJSP / JSSP, part 2 — the `INIT_FINISH = 9999` filler (extracted: `Params.fjspInitFinish`) and
what depends on the clock staying below it.

* `filler_of_reach`   unscheduled operations carry `finish_times = INIT_FINISH`, `start_times = 0`
* the release guard: `_transit_to_next_time` tests `job_in_process & (finish[next_op] <= time)`.
  `releaseNG` is the variant WITHOUT the `job_in_process &` guard (relying on the filler being "in the
  future"): `release_guard_redundant_below_sentinel` — while `time < INIT_FINISH` both agree on every
  reachable state; `release_guard_needed_beyond_sentinel` — beyond it they differ (an unscheduled
  operation is skipped).  So the guard is exactly what makes C07 hold for all horizons.
* `op_is_ready` (feature `td["is_ready"]`, modelled as `Fjsp.isReady`, compared with the real tensor at
  every step): `isReady_iff_below_sentinel` — while `time < INIT_FINISH` it says "unscheduled and the
  job predecessor has completed"; `isReady_wrong_beyond_sentinel` — beyond it, it reports an operation
  ready whose predecessor is not even scheduled (the real code does the same; observation, not a C07 clause).
-/
import Rl4co.Props.C05.FjspClass

namespace Rl4co.Fjsp
open Rl4co.Spec.Fjsp (isReal opOf)

/-- the fillers of `_reset` stay on every unscheduled operation -/
theorem filler_of_reach {i : Inst} (hwf : WF i) :
    ∀ s, Reach env i s → ∀ o, s.sched o = false → s.finish o = initFinish ∧ s.start o = 0 := by
  apply reach_induct hwf (fun s => ∀ o, s.sched o = false → s.finish o = initFinish ∧ s.start o = 0)
  · intro o _; exact ⟨rfl, rfl⟩
  · intro s j m _ hp _ _ o hs
    by_cases ho : o = s.nextOp j
    · simp [makeStepAt, ho] at hs
    · simp only [makeStepAt, upd_apply, ho, if_false] at hs ⊢; exact hp o hs
  · intro s t' _ hp _ ht' _ o hs
    obtain ⟨_, e2, e3, e4, _⟩ := transit_fields (i := i) ht'
    rw [e2] at hs; rw [e3, e4]; exact hp o hs

/-- `_transit_to_next_time`'s release half WITHOUT the `job_in_process &` guard -/
def releaseNG (i : Inst) (s : State) : State :=
  let opFin : Nat → Bool := fun j => decide (s.finish (s.nextOp j) ≤ s.time)
  let jobFin : Nat → Bool := fun j => opFin j && (s.nextOp j == i.endOp j)
  let jobDone' : Nat → Bool := fun j => s.jobDone j || jobFin j
  { s with
    nextOp := fun j => if opFin j && !jobFin j then s.nextOp j + 1 else s.nextOp j
    inProc := fun j => if opFin j then false else s.inProc j
    jobDone := jobDone'
    done := allUpTo i.J jobDone' }

/-- the two release tests agree on job `j` of a reachable state while the clock is below the filler
(`time'` is the clock the test is evaluated at, e.g. the next event time) -/
theorem release_test_agree {i : Inst} (hwf : WF i) {s : State} (hr : Reach env i s) {j : Nat} (hj : j < i.J)
    (hnd : s.jobDone j = false) (t' : Int) (hlt : t' < initFinish) :
    (s.inProc j && decide (s.finish (s.nextOp j) ≤ t')) = decide (s.finish (s.nextOp j) ≤ t') := by
  have hinv := (inv2_of_reach hwf hr).1
  cases hip : s.inProc j with
  | true => simp
  | false =>
    have hr' := hinv.nextRng j hj
    have hns : s.sched (s.nextOp j) = false := by
      cases hs : s.sched (s.nextOp j) with
      | false => rfl
      | true =>
        have := (hinv.schedIff j hj _ hr'.1 hr'.2).mp hs
        simp [hip, hnd] at this
    have := (filler_of_reach hwf s hr _ hns).1
    simp [this]; omega

/-- **below the sentinel the guard is redundant** … -/
theorem release_guard_redundant_below_sentinel {i : Inst} (hwf : WF i) {s : State} (hr : Reach env i s)
    (hlt : s.time < initFinish) : ∀ j, j < i.J →
      (release i s).nextOp j = (releaseNG i s).nextOp j ∧ (release i s).inProc j = (releaseNG i s).inProc j ∧
      (release i s).jobDone j = (releaseNG i s).jobDone j := by
  intro j hj
  have hinv := (inv2_of_reach hwf hr).1
  cases hjd : s.jobDone j with
  | false =>
    have h := release_test_agree hwf hr hj hjd s.time hlt
    simp only [release_eq, releaseNG, h, hjd]
    cases hc : decide (s.finish (s.nextOp j) ≤ s.time) with
    | true =>
      rw [hc] at h
      simp
    | false => simp
  | true =>
    -- a finished job: its last operation is scheduled and complete, `next_op` stays at the last operation
    obtain ⟨hno, hip⟩ := hinv.jdone j hj hjd
    have hb : (s.nextOp j == i.endOp j) = true := by simp [hno]
    simp [release_eq, releaseNG, hjd, hip, hb]
    intro h; exact ⟨h, hno⟩

/-- two jobs on one machine: job 0 = one operation of 10000 time units, job 1 = two short operations -/
def exBig : Inst :=
  { J := 2, M := 1, N := 3, startOp := fun j => j, endOp := fun j => if j = 0 then 0 else 2,
    proc := fun _ o => if o = 0 then 10000 else 5, pad := fun _ => false, maskNoOps := true, jssp := false }

/-- … **beyond it the guard is needed**: one operation of 10000 time units, then a wait: the unguarded
test "releases" the other job's unscheduled first operation (filler 9999 ≤ 10000) and skips it. -/
theorem release_guard_needed_beyond_sentinel :
    let s := advance exBig (makeStep exBig (reset exBig) 0)
    s.time = 10000 ∧ (release exBig s).nextOp 1 = 1 ∧ (releaseNG exBig s).nextOp 1 = 2 ∧ s.sched 1 = false := by
  decide

/-! ### `op_is_ready` -/

/-- **`is_ready` below the sentinel**: exactly the unscheduled operations whose job predecessor (if any)
is scheduled and has completed. -/
theorem isReady_iff_below_sentinel {i : Inst} (hwf : WF i) {s : State} (hr : Reach env i s)
    (hlt : s.time < initFinish) {j o : Nat} (hj : j < i.J) (h1 : i.startOp j ≤ o) (h2 : o ≤ i.endOp j) :
    isReady i s o = true ↔
      (s.sched o = false ∧ (o = i.startOp j ∨ (s.sched (o - 1) = true ∧ s.finish (o - 1) ≤ s.time))) := by
  have hinv := (inv2_of_reach hwf hr).1
  -- `ma_assignment[:, o].sum().bool()` is the scheduled flag
  have hasg : anyUpTo i.M (fun m => s.assign m o) = s.sched o := by
    cases hs : s.sched o with
    | false => exact anyUpTo_eq_false.mpr (fun m _ => hinv.unasg o hs m)
    | true =>
      obtain ⟨m, hm, ha, _⟩ := hinv.asg o hs
      exact anyUpTo_iff.mpr ⟨m, hm, ha⟩
  -- which operations have a predecessor
  have hpred : anyUpTo i.J (fun j' => decide (i.startOp j' < o) && decide (o ≤ i.endOp j')) = decide (i.startOp j < o) := by
    by_cases hlt' : i.startOp j < o
    · simp only [hlt', decide_true]
      exact anyUpTo_iff.mpr ⟨j, hj, by simp [hlt', h2]⟩
    · simp only [hlt', decide_false]
      apply anyUpTo_eq_false.mpr
      intro j' hj'
      by_cases hc : i.startOp j' < o ∧ o ≤ i.endOp j'
      · exfalso
        have := job_unique hwf hj hj' h1 h2 (by omega) hc.2
        subst this; omega
      · simp only [Bool.and_eq_false_iff, decide_eq_false_iff_not]
        by_cases h : i.startOp j' < o
        · right; intro h2'; exact hc ⟨h, h2'⟩
        · left; exact h
  simp only [isReady, predFinish, hpred, hasg, Bool.and_eq_true, decide_eq_true_eq, Bool.not_eq_true']
  by_cases hfirst : o = i.startOp j
  · subst hfirst
    simp [hinv.time0]
  · have hlt' : i.startOp j < o := by omega
    simp only [hlt', if_true, hfirst, false_or]
    constructor
    · rintro ⟨hf, hs⟩
      refine ⟨hs, ?_, hf⟩
      cases hsp : s.sched (o - 1) with
      | true => rfl
      | false =>
        have := (filler_of_reach hwf s hr _ hsp).1
        omega
    · rintro ⟨hs, _, hf⟩
      exact ⟨hf, hs⟩

/-- **`is_ready` beyond the sentinel is wrong**: after one operation of 10000 time units the second
operation of the other job is reported ready although the first one has not been scheduled
(the real `op_is_ready` returns the same tensor `[False, True, True]`). -/
theorem isReady_wrong_beyond_sentinel :
    let s := step exBig (reset exBig) 1
    s.time = 10000 ∧ isReady exBig s 2 = true ∧ s.sched 1 = false ∧
    (List.range 3).map (isReady exBig s) = [false, true, true] := by
  decide

end Rl4co.Fjsp
