/-
C07, SMTWTP clause: every mask-confined episode that the environment declares finished schedules
every job `1..n` exactly once and nothing else; the dummy start node 0 is never offered by the mask
of any reachable state and never occurs in any mask-confined action sequence (finished or not).
-/
import Rl4co.Proofs.TspfamSmtwtp

namespace Rl4co.Smtwtp
open Rl4co.Tspfam

/-- the dummy node is not available in any reachable state -/
theorem dummy_unavailable (i : Inst) {s : State} (h : Reach env i s) : s.avail 0 = false := by
  obtain ⟨as, hr⟩ := h
  obtain ⟨_, _, _, h4⟩ := availEnv.visits_of_run hr trivial
  have := h4 0
  simp only [availEnv] at this
  rw [this]
  simp [env, reset]

/-- **C07 (SMTWTP)**: the dummy start node is never offered … -/
theorem dummy_never_offered (i : Inst) {s : State} (h : Reach env i s) : env.mask i s 0 = false :=
  dummy_unavailable i h

/-- … and never scheduled, in any mask-confined action sequence -/
theorem dummy_never_scheduled (i : Inst) {as : List Nat} {s : State}
    (h : Run env i (env.reset i) as s) : 0 ∉ as := by
  intro hm
  obtain ⟨_, h2, _, _⟩ := availEnv.visits_of_run h trivial
  have := h2 0 hm
  simp [availEnv, env, reset] at this

/-- **C07 (SMTWTP)**: a finished episode is a permutation of all jobs. -/
theorem perm_of_run (i : Inst) {as : List Nat} {s : State}
    (h : Run env i (env.reset i) as s) (hd : env.done i s = true) : Spec.Smtwtp.Feasible i.n as := by
  by_cases hpos : 0 < i.n
  · obtain ⟨h1, h2, _, _⟩ := availEnv.visits_of_run h trivial
    refine ⟨?_, ?_⟩
    · intro a ha
      have hlt := h1 a ha
      have hav := h2 a ha
      simp only [availEnv, env, reset, decide_eq_true_eq] at hav hlt
      omega
    · intro j hj1 hj2
      apply availEnv.count_eq_one_of_done hpos h hd (j := j) (by simp only [env]; omega)
      simp only [availEnv, env, reset, decide_eq_true_eq]; omega
  · cases h with
    | nil => cases hd
    | cons ha hm _ =>
      simp only [env] at ha hm
      have : ¬ (0 < i.n) := hpos
      simp only [mask, reset, decide_eq_true_eq] at hm
      omega

/-- as a permutation of `[1, …, n]` -/
theorem perm_range_of_run (i : Inst) {as : List Nat} {s : State}
    (h : Run env i (env.reset i) as s) (hd : env.done i s = true) : as.Perm (List.range' 1 i.n) :=
  (Spec.Smtwtp.feasible_iff_perm i.n as).mp (perm_of_run i h hd)

/-- Non-vacuity: three jobs scheduled in the order 2, 3, 1. -/
example : ∃ s, Run env ⟨3, fun _ => 1, fun _ => 1, fun _ => 1⟩ (env.reset ⟨3, fun _ => 1, fun _ => 1, fun _ => 1⟩) [2, 3, 1] s ∧
    env.done ⟨3, fun _ => 1, fun _ => 1, fun _ => 1⟩ s = true :=
  ⟨_, (run_iff_admitted _ _ _ _ _).2 ⟨by decide, rfl⟩, by decide⟩

end Rl4co.Smtwtp
