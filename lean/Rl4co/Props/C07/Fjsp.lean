/-
C07 for FJSP / JSSP: every finished mask-confined episode — any instance satisfying `WF`, any
admitted action list including waits, `mask_no_ops` on or off, FJSP or JSSP action space, any
amount of padding — leaves `start_times / finish_times / ma_assignment` that form a VALID SCHEDULE
in the sense of the independent `Spec.Fjsp.ValidSchedule`, whose makespan is minus the reward.
-/
import Rl4co.Props.C03.Fjsp

namespace Rl4co.Fjsp
open Rl4co.Spec.Fjsp (isReal opOf Sched ValidSchedule)

/-! ### C07: the final state of a finished episode is a valid schedule -/

theorem valid_of_inv_done {i : Inst} (hwf : WF i) {s : State} (hinv : Inv i s) (hd : s.done = true) :
    ValidSchedule i (schedOf s) (Spec.Fjsp.makespan i (schedOf s)) := by
  have hall := all_sched_of_done hinv hd
  have hms := makespan_spec hwf (schedOf s)
  refine ⟨?_, ?_, ?_, hms.1, hms.2⟩
  · -- once
    intro o _ hr
    obtain ⟨j, hj, hop⟩ := anyUpTo_iff.mp hr
    simp only [opOf, Bool.and_eq_true, decide_eq_true_eq] at hop
    obtain ⟨m, hm, ha, hu, hp, hf, hs0, _⟩ := hinv.asg o (hall j hj o hop.1 hop.2)
    refine ⟨cnt_eq_one_of_unique hm ha (fun k _ hk => hu k hk), hs0, fun m' _ hm' => ?_⟩
    have := hu m' hm'; subst this
    exact ⟨hp, hf⟩
  · -- order
    intro j hj o _ h1 h2
    exact hinv.order j hj o h1 h2 (hall j hj (o + 1) (by omega) (by omega))
  · -- machine
    intro m _ o1 _ o2 _ _ _ hne h1 h2
    exact hinv.mach m o1 o2 hne h1 h2

/-- **C07 (FJSP and JSSP, `mask_no_ops` on and off).**  Every finished mask-confined episode yields
a valid schedule: every real operation exactly once, on an eligible machine, for exactly its
processing time there; operations of a job in order without overlap; no two operations overlap on
a machine; and minus the reward is the latest completion time. -/
theorem schedule_valid (i : Inst) (hwf : WF i) (as : List Nat) (s : State)
    (hrun : Run env i (env.reset i) as s) (hd : env.done i s = true) :
    ValidSchedule i (schedOf s) (- reward i s) := by
  have hinv := (inv2_of_reach hwf ⟨as, hrun⟩).1
  rw [reward_eq_makespan i hwf s, Int.neg_neg]
  exact valid_of_inv_done hwf hinv hd

/-- the executable oracle agrees (what the harness evaluates on the real tensors) -/
theorem schedule_valid_bool (i : Inst) (hwf : WF i) (as : List Nat) (s : State)
    (hrun : Run env i (env.reset i) as s) (hd : env.done i s = true) :
    Spec.Fjsp.valid i (schedOf s) (- reward i s) = true :=
  (Spec.Fjsp.valid_iff _ _ _).mpr (schedule_valid i hwf as s hrun hd)

/-- invariants that hold in EVERY reachable state (finished or not): time is non-negative, no
assertion fired, `next_op` stays inside its job, an operation is scheduled iff it lies before
`next_op` (or is the current / last one), a machine is busy until at least the end of every
operation on it, scheduled operations never overlap on a machine. -/
theorem reachable_inv (i : Inst) (hwf : WF i) (s : State) (h : Reach env i s) : Inv i s :=
  (inv2_of_reach hwf h).1

/-- the clock never runs backwards -/
theorem time_monotone (i : Inst) (hwf : WF i) (s : State) (h : Reach env i s) (a : Nat)
    (ha : a < env.nAct i) (hm : env.mask i s a = true) : s.time ≤ (env.step i s a).time := by
  have hinv2 := inv2_of_reach hwf h
  -- generic: the loop only moves time forward
  have hloop : ∀ f s', Inv i s' → cntBusy i s' < f → s'.time ≤ (autoTransit i f s').time := by
    intro f
    induction f with
    | zero => intro s' _ h; omega
    | succ f ih =>
      intro s' hinv' hlt
      simp only [autoTransit]
      cases hsc : stepComplete i s' with
      | false => simp
      | true =>
        simp only [if_true]
        obtain ⟨m, hm, hb⟩ := exists_busy_of_stepComplete hwf hinv' hsc
        obtain ⟨t', ht'⟩ := nextTime_isSome hm hb
        have h1 := ih (transit i s') (inv_transit hwf hinv' ht')
          (by have := cntBusy_transit_lt (i := i) ht'; omega)
        have h2 : (transit i s').time = t' := by rw [transit, advance_some ht']; rfl
        have := (nextTime_some ht').1
        omega
  obtain ⟨hinv, _⟩ := hinv2
  simp only [env, step_eq]
  cases hd : s.done with
  | true => simp
  | false =>
    simp only [Bool.false_eq_true, if_false]
    by_cases ha0 : a = 0
    · subst ha0
      simp only [if_true]
      obtain ⟨_, m, hmM, hb⟩ := wait_busy hinv hd hm
      obtain ⟨t', ht'⟩ := nextTime_isSome hmM hb
      have h1 := hloop (fuel i) _ (inv_transit hwf hinv ht') (cntBusy_le_fuel i _)
      have h2 : (transit i s).time = t' := by rw [transit, advance_some ht']; rfl
      have := (nextTime_some ht').1
      omega
    · simp only [ha0, if_false]
      obtain ⟨hsel, ho⟩ := sel_of_mask hwf hinv ha0 ha hm
      have hinv' : Inv i (makeStep i s (a - 1)) := by
        unfold makeStep; simp only [ho]; exact inv_makeStepAt hwf hinv hsel
      have h1 := hloop (fuel i) _ hinv' (cntBusy_le_fuel i _)
      have h2 : (makeStep i s (a - 1)).time = s.time := rfl
      omega

/-- non-vacuity: the finished run on the concrete instance of `Props/C02/Fjsp.lean` and its schedule -/
example :
    let s := exec env exFjsp (env.reset exFjsp) [1, 4, 0, 1, 4, 0]
    s.done = true ∧ reward exFjsp s = -6 ∧ Spec.Fjsp.valid exFjsp (schedOf s) 6 = true ∧
    (List.range 4).map s.start = [0, 3, 0, 3] := by decide

end Rl4co.Fjsp

namespace Rl4co.Jssp
open Rl4co.Fjsp

/-- **C07 (JSSP)**: the same statement for the JSSP action space (`jssp = true`: action = job, the
machine is the unique eligible one). -/
theorem schedule_valid (i : Inst) (_ : i.jssp = true) (hwf : WF i) (as : List Nat) (s : State)
    (hrun : Run env i (env.reset i) as s) (hd : env.done i s = true) :
    Spec.Fjsp.ValidSchedule i (schedOf s) (- reward i s) := Fjsp.schedule_valid i hwf as s hrun hd

end Rl4co.Jssp
