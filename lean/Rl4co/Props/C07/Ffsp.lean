/-
C07 (FFSP clause): every mask-confined episode of `FFSPEnv` ends with a valid schedule — every job
passes every stage exactly once on a machine of that stage, for its duration there; the stages of a
job run in order without overlapping; no machine runs two jobs at once (`Spec.Ffsp.Valid`, read off
the environment's `schedule` matrix by `Spec.Ffsp.ofMatrix`).  Stated for the instance stepped alone
(`env`, batch of one) and for a row of any batch (`envM`-reachable state = the row while some
batch-mate runs, followed by a step with an arbitrary value `g` of the batch-global `done.all()`).
The "reported makespan = latest completion" clause is `Props/C03/Ffsp.lean`.
-/
import Rl4co.Proofs.Ffsp
namespace Rl4co.Ffsp
open Rl4co.Spec.Ffsp

/-- **C07 (FFSP), instance stepped alone.**  A finished mask-confined episode carries a valid schedule. -/
theorem schedule_valid (i : Inst) (h : WF i) {as : List Nat} {s : State}
    (hr : RunND env i (env.reset i) as s) (hd : s.done = true) : Valid i (ofMatrix i s.sched) :=
  core_valid i s (solo_inv' i h (live_reset i h) rfl hr).1 hd

/-- **C07 (FFSP), row of a batch.**  Whatever the batch-mates do (`g` is the code's `done.all()` at
this step), a row that is finished after an admitted step carries a valid schedule. -/
theorem schedule_valid_row (i : Inst) (h : WF i) {s : State} (hr : Reach envM i s) (a : Nat)
    (ha : a < i.J + 1) (hm : s.mask a = true) (g : Bool) (hd : (stepG i s a g).done = true) :
    Valid i (ofMatrix i (stepG i s a g).sched) :=
  core_valid i _ (core_stepG i h s (live_of_reach i h hr) a ha hm g) hd

/-- every action is recorded: `job_location[j]` counts how often `j` was chosen -/
theorem jloc_eq_count (i : Inst) {as : List Nat} {s : State} (hr : Run env i (env.reset i) as s) :
    ∀ j, s.jloc j = as.count j := by
  refine inv_of_run (e := env) (Inv := fun s h => ∀ j, s.jloc j = h.count j) (fun _ => rfl) ?_ hr
  intro s hist a ih _ _ j
  have hj : (env.step i s a).jloc = upd s.jloc a (s.jloc a + 1) := by
    show (step i s a).jloc = _
    simp only [step, stepG, finish]
    split
    · rfl
    · show (moveNext i (apply i s a)).jloc = _
      unfold moveNext
      split
      · rfl
      · obtain ⟨n, _, _, he⟩ := moveLoop_is_iter i (moveFuel i (apply i s a)) (apply i s a)
        rw [he, iter_jloc]; rfl
  rw [hj, upd_apply, List.count_append]
  by_cases hja : j = a
  · subst hja; simp [ih j]
  · have : ¬ (a = j) := fun hh => hja hh.symm
    simp [hja, this, ih j]

/-- **C07 (FFSP): each job is scheduled exactly once per stage** — in a finished solo episode job `j`
was chosen exactly `S` times (all other actions are waits). -/
theorem job_steps (i : Inst) (h : WF i) {as : List Nat} {s : State}
    (hr : RunND env i (env.reset i) as s) (hd : s.done = true) : ∀ j, j < i.J → as.count j = i.S := by
  intro j hj
  rw [← jloc_eq_count i hr.run j]
  exact jloc_of_done (solo_inv' i h (live_reset i h) rfl hr).1 hd j hj

/-- Non-vacuity: 2 stages × 1 machine, 2 jobs; the episode `[0, 1, wait, 0, 1]`… here `[0,1,0,1]`
is mask-confined, finishes, and its reward is −makespan = −4. -/
def ex : Inst := ⟨2, 1, 2, fun j m => if m = 0 then 1 + j else 2 - j, fun p => p, false⟩
example : WF ex := ⟨by decide, by decide, by decide, by intro p hp; exact hp, by
  intro j m hj _
  have : j < 2 := hj
  apply small_lt_unset; simp only [ex]; split <;> omega⟩

example : RunND env ex (env.reset ex) [0, 1, 0, 1] (exec env ex (env.reset ex) [0, 1, 0, 1]) := by
  refine RunND.cons (by decide) (by decide) (by decide) ?_
  refine RunND.cons (by decide) (by decide) (by decide) ?_
  refine RunND.cons (by decide) (by decide) (by decide) ?_
  refine RunND.cons (by decide) (by decide) (by decide) ?_
  exact RunND.nil _
example : (exec env ex (env.reset ex) [0, 1, 0, 1]).done = true := by decide
example : valid ex (ofMatrix ex (exec env ex (env.reset ex) [0, 1, 0, 1]).sched) = true := by decide

end Rl4co.Ffsp
