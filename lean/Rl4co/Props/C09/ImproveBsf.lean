/-
C09, best-so-far bookkeeping of the improvement environments (`TSPkoptEnv._step`,
`PDPRuinRepairEnv._step`).  Proved ONCE, for an ARBITRARY move operator `op` over an arbitrary
action type, an arbitrary distance matrix, an arbitrary initial successor array and EVERY sequence
of moves of any length (no admissibility, no validity of tours is needed for the bookkeeping).
-/
import Rl4co.Env.Improve

namespace Rl4co.Improve.Bsf

variable {A : Type} (n : Nat) (D : Nat → Nat → Int) (op : Rec → A → Rec)

/-- all states of a run: the start state, then the state after each move -/
def trace (s : State) : List A → List State
  | [] => [s]
  | a :: as => s :: trace (step n D op s a) as

/-- the state after all moves -/
def final (s : State) (as : List A) : State := as.foldl (step n D op) s

/-- the rewards handed out, one per move -/
def rewards (s : State) (as : List A) : List Int := ((trace n D op s as).drop 1).map (·.reward)

/-- `_step` when the new tour is strictly better than the best so far -/
theorem step_lt (s : State) (a : A) (hlt : cost n D (op s.recCur a) < s.costBsf) :
    step n D op s a =
      { recCur := op s.recCur a, recBest := op s.recCur a, costCur := cost n D (op s.recCur a),
        costBsf := cost n D (op s.recCur a), reward := s.costBsf - cost n D (op s.recCur a),
        vt := visitedTime n (op s.recCur a) } := by
  have h2 : s.costBsf - cost n D (op s.recCur a) > 0 := by omega
  simp only [step, hlt, if_true, h2]

/-- `_step` when it is not -/
theorem step_ge (s : State) (a : A) (hge : ¬ cost n D (op s.recCur a) < s.costBsf) :
    step n D op s a =
      { recCur := op s.recCur a, recBest := s.recBest, costCur := cost n D (op s.recCur a),
        costBsf := s.costBsf, reward := 0, vt := visitedTime n (op s.recCur a) } := by
  simp [step, hge]

/-- one step: the reward is the decrease of the best-so-far cost and is non-negative. -/
theorem reward_step (s : State) (a : A) :
    (step n D op s a).reward = s.costBsf - (step n D op s a).costBsf ∧ 0 ≤ (step n D op s a).reward := by
  by_cases hlt : cost n D (op s.recCur a) < s.costBsf
  · rw [step_lt n D op s a hlt]; simp; omega
  · rw [step_ge n D op s a hlt]; simp

/-- one step: best-so-far never increases -/
theorem bsf_step_le (s : State) (a : A) : (step n D op s a).costBsf ≤ s.costBsf := by
  by_cases hlt : cost n D (op s.recCur a) < s.costBsf
  · rw [step_lt n D op s a hlt]; simp; omega
  · rw [step_ge n D op s a hlt]; simp

theorem step_costCur (s : State) (a : A) :
    (step n D op s a).costCur = cost n D (step n D op s a).recCur := rfl

theorem step_costBsf (s : State) (a : A) (h : s.costBsf = cost n D s.recBest) :
    (step n D op s a).costBsf = cost n D (step n D op s a).recBest := by
  by_cases hlt : cost n D (op s.recCur a) < s.costBsf
  · rw [step_lt n D op s a hlt]
  · rw [step_ge n D op s a hlt]; exact h

/-- the new best-so-far is the old one or the cost of the new tour, and is ≤ both -/
theorem step_bsf_min (s : State) (a : A) :
    ((step n D op s a).costBsf = s.costBsf ∨ (step n D op s a).costBsf = cost n D (step n D op s a).recCur) ∧
    (step n D op s a).costBsf ≤ cost n D (step n D op s a).recCur := by
  by_cases hlt : cost n D (op s.recCur a) < s.costBsf
  · rw [step_lt n D op s a hlt]; simp
  · rw [step_ge n D op s a hlt]; simp; omega

theorem trace_ne_nil (s : State) (as : List A) : trace n D op s as ≠ [] := by
  cases as <;> simp [trace]

theorem drop_one_trace_cons (s : State) (a : A) (as : List A) :
    (trace n D op s (a :: as)).drop 1 = trace n D op (step n D op s a) as := by
  simp [trace]

theorem trace_head (s : State) (as : List A) : ∃ t, trace n D op s as = s :: t := by
  cases as <;> simp [trace]

/-- generalised over the start state -/
theorem inv_from (as : List A) : ∀ (s : State),
    s.costCur = cost n D s.recCur → s.costBsf = cost n D s.recBest →
    (final n D op s as).costCur = cost n D (final n D op s as).recCur ∧
    (final n D op s as).costBsf = cost n D (final n D op s as).recBest ∧
    (final n D op s as).costBsf ≤ s.costBsf ∧
    (∀ s' ∈ (trace n D op s as).drop 1, (final n D op s as).costBsf ≤ cost n D s'.recCur) ∧
    ((final n D op s as).costBsf = s.costBsf ∨
      ∃ s' ∈ (trace n D op s as).drop 1, (final n D op s as).costBsf = cost n D s'.recCur) ∧
    (rewards n D op s as).sum = s.costBsf - (final n D op s as).costBsf := by
  induction as with
  | nil =>
    intro s h1 h2
    simp [final, trace, rewards, h1, h2]
  | cons a as ih =>
    intro s h1 h2
    have hs1 := step_costCur n D op s a
    have hs2 := step_costBsf n D op s a h2
    obtain ⟨i1, i2, i3, i4, i5, i6⟩ := ih (step n D op s a) hs1 hs2
    have hle := bsf_step_le n D op s a
    have hmin := step_bsf_min n D op s a
    have hrew := reward_step n D op s a
    have hfin : final n D op s (a :: as) = final n D op (step n D op s a) as := rfl
    obtain ⟨t, ht⟩ := trace_head n D op (step n D op s a) as
    rw [hfin, drop_one_trace_cons]
    refine ⟨i1, i2, by omega, ?_, ?_, ?_⟩
    · intro s' hs'
      rw [ht] at hs'
      rcases List.mem_cons.mp hs' with rfl | hs'
      · omega
      · exact i4 s' (by rw [ht]; simpa using hs')
    · rcases i5 with h | ⟨s', hs', h⟩
      · rcases hmin.1 with h' | h'
        · left; omega
        · right
          exact ⟨step n D op s a, by rw [ht]; simp, by omega⟩
      · right
        refine ⟨s', ?_, h⟩
        rw [ht] at hs' ⊢
        simp at hs' ⊢
        exact Or.inr hs'
    · have : rewards n D op s (a :: as) = (step n D op s a).reward :: rewards n D op (step n D op s a) as := by
        simp only [rewards, drop_one_trace_cons]
        rw [ht]
        simp
      rw [this, List.sum_cons, i6]
      omega

/-- **C09 (bookkeeping).**  Start from `_reset` with ANY initial successor array and apply ANY
sequence of moves with ANY move operator.  In the final state (hence, the move list being arbitrary,
in every intermediate state):
 1. `cost_current` is the length of `rec_current`;
 2. `cost_bsf` is the length of `rec_best`;
 3. `cost_bsf` is ≤ the length of every tour seen so far (initial one included) …
 4. … and equals the length of one of them: it is their minimum;
 5. the rewards sum to (initial cost − best-so-far cost). -/
theorem invariants (rec0 : Rec) (as : List A) :
    let tr := trace n D op (reset n D rec0) as
    let f := final n D op (reset n D rec0) as
    f.costCur = cost n D f.recCur ∧
    f.costBsf = cost n D f.recBest ∧
    (∀ s ∈ tr, f.costBsf ≤ cost n D s.recCur) ∧
    (∃ s ∈ tr, f.costBsf = cost n D s.recCur) ∧
    (rewards n D op (reset n D rec0) as).sum = cost n D rec0 - f.costBsf := by
  intro tr f
  have h0a : (reset n D rec0).costCur = cost n D (reset n D rec0).recCur := rfl
  have h0b : (reset n D rec0).costBsf = cost n D (reset n D rec0).recBest := rfl
  obtain ⟨i1, i2, i3, i4, i5, i6⟩ := inv_from n D op as (reset n D rec0) h0a h0b
  obtain ⟨t, ht⟩ := trace_head n D op (reset n D rec0) as
  refine ⟨i1, i2, ?_, ?_, i6⟩
  · intro s hs
    simp only [tr] at hs
    rw [ht] at hs
    rcases List.mem_cons.mp hs with rfl | hs
    · exact i3
    · exact i4 s (by rw [ht]; simpa using hs)
  · rcases i5 with h | ⟨s', hs', h⟩
    · exact ⟨reset n D rec0, by simp only [tr]; rw [ht]; simp, h⟩
    · refine ⟨s', ?_, h⟩
      simp only [tr]
      rw [ht] at hs' ⊢
      simp at hs' ⊢
      exact Or.inr hs'

/-- **C09 (rewards).** every single reward is the decrease of the best-so-far cost, and is ≥ 0:
for every reachable (indeed every) state and every move. -/
theorem reward_eq_decrease (s : State) (a : A) :
    (step n D op s a).reward = s.costBsf - (step n D op s a).costBsf ∧
    0 ≤ (step n D op s a).reward := reward_step n D op s a

/-- **C09 (monotonicity).** along any move sequence the best-so-far cost never increases:
the value after `as ++ bs` is ≤ the value after `as`. -/
theorem bsf_antitone (s : State) (as bs : List A) :
    (final n D op s (as ++ bs)).costBsf ≤ (final n D op s as).costBsf := by
  have : final n D op s (as ++ bs) = final n D op (final n D op s as) bs := by
    simp [final, List.foldl_append]
  rw [this]
  generalize final n D op s as = s'
  clear this
  induction bs generalizing s' with
  | nil => simp [final]
  | cons b bs ih =>
    have h2 := bsf_step_le n D op s' b
    have h3 : final n D op s' (b :: bs) = final n D op (step n D op s' b) bs := rfl
    have h1 := ih (step n D op s' b)
    rw [h3]; omega

/-- a move sequence in which every move is admitted (by an arbitrary admissibility relation) at the
tour it is applied to -/
def AdmRun (Adm : Rec → A → Prop) : Rec → List A → Prop
  | _, [] => True
  | r, a :: as => Adm r a ∧ AdmRun Adm (op r a) as

/-- **C09 (validity of both stored tours).**  If every admitted move maps valid tours to valid tours
(`P` = any notion of validity), then after ANY admitted move sequence both `rec_current` and the stored
`rec_best` are valid. -/
theorem valid_of_run (P : Rec → Prop) (Adm : Rec → A → Prop)
    (hop : ∀ r a, P r → Adm r a → P (op r a)) (as : List A) :
    ∀ (s : State), P s.recCur → P s.recBest → AdmRun op Adm s.recCur as →
      P (final n D op s as).recCur ∧ P (final n D op s as).recBest := by
  induction as with
  | nil => intro s h1 h2 _; exact ⟨h1, h2⟩
  | cons a as ih =>
    intro s h1 h2 hadm
    have hn : P (op s.recCur a) := hop _ _ h1 hadm.1
    have hfin : final n D op s (a :: as) = final n D op (step n D op s a) as := rfl
    rw [hfin]
    apply ih
    · exact hn
    · by_cases hlt : cost n D (op s.recCur a) < s.costBsf
      · rw [step_lt n D op s a hlt]; exact hn
      · rw [step_ge n D op s a hlt]; exact h2
    · exact hadm.2

/-- Non-vacuity / sanity: 4 nodes on a line (`D a b = |a − b|`), start from the tour 0→2→1→3→0 of
length 8, move to 0→1→2→3→0 (length 6, improving) and back (worsening): rewards 2 then 0, the best
tour and its cost are kept while the current cost goes back to 8. -/
example :
    let D : Nat → Nat → Int := fun a b => if a ≤ b then (b - a : Nat) else (a - b : Nat)
    let good : Rec := fun j => [1, 2, 3, 0].getD j 0
    let bad : Rec := fun j => [2, 3, 1, 0].getD j 0
    let op : Rec → Bool → Rec := fun _ b => if b then good else bad
    let f := final 4 D op (reset 4 D bad) [true, false]
    rewards 4 D op (reset 4 D bad) [true, false] = [2, 0] ∧
    f.costBsf = 6 ∧ f.costCur = 8 ∧ (List.range 4).map f.recBest = [1, 2, 3, 0] := by
  decide

end Rl4co.Improve.Bsf

namespace Rl4co.Improve.Bsf
variable {A : Type} (n : Nat) (D : Nat → Nat → Int) (op : Rec → A → Rec)

/-- **C09, literal: "rewards sum to initial cost minus best cost".**  For any operator and ANY move list
`a₁ … a_T` from `_reset` on any initial array:  Σ_{t=1..T} reward_t = cost(rec₀) − cost_bsf_T. -/
theorem rewards_telescope (rec0 : Rec) (as : List A) :
    (rewards n D op (reset n D rec0) as).sum = cost n D rec0 - (final n D op (reset n D rec0) as).costBsf :=
  (invariants n D op rec0 as).2.2.2.2

/-- the best-so-far costs along a run (reset included) -/
def bsfs (s : State) (as : List A) : List Int := (trace n D op s as).map (·.costBsf)

/-- **C09, literal: "each step's reward equals the decrease of the best-so-far cost".**  The list of rewards is
the list of consecutive differences of the best-so-far costs, for any state and any move list. -/
theorem rewards_eq_decreases : ∀ (as : List A) (s : State),
    rewards n D op s as = List.zipWith (· - ·) (bsfs n D op s as) ((bsfs n D op s as).drop 1) := by
  intro as
  induction as with
  | nil => intro s; simp [rewards, bsfs, trace]
  | cons a as ih =>
    intro s
    obtain ⟨t, ht⟩ := trace_head n D op (step n D op s a) as
    have h1 : rewards n D op s (a :: as) = (step n D op s a).reward :: rewards n D op (step n D op s a) as := by
      simp only [rewards, drop_one_trace_cons]; rw [ht]; simp
    have h2 : bsfs n D op s (a :: as) = s.costBsf :: bsfs n D op (step n D op s a) as := by
      simp [bsfs, trace]
    have h3 : ∃ t', bsfs n D op (step n D op s a) as = (step n D op s a).costBsf :: t' := by
      simp only [bsfs]; rw [ht]; exact ⟨_, rfl⟩
    obtain ⟨t', ht'⟩ := h3
    rw [h1, h2, ih (step n D op s a), ht']
    simp only [List.drop_succ_cons, List.drop_zero, List.zipWith_cons_cons]
    rw [(reward_step n D op s a).1]

/-- every reward of a run is non-negative -/
theorem rewards_nonneg : ∀ (as : List A) (s : State), ∀ x ∈ rewards n D op s as, 0 ≤ x := by
  intro as
  induction as with
  | nil => intro s x hx; simp [rewards, trace] at hx
  | cons a as ih =>
    intro s x hx
    obtain ⟨t, ht⟩ := trace_head n D op (step n D op s a) as
    have h1 : rewards n D op s (a :: as) = (step n D op s a).reward :: rewards n D op (step n D op s a) as := by
      simp only [rewards, drop_one_trace_cons]; rw [ht]; simp
    rw [h1] at hx
    rcases List.mem_cons.mp hx with rfl | hx
    · exact (reward_step n D op s a).2
    · exact ih _ x hx

/-- **`step` is a function of (state, move) only.**  The model's `_step` returns a NEW state and never touches
the one it is given: running `pre` and then `as` is running `as` from the state reached by `pre` — whatever
other branch `bs` was or will be explored from that same state. -/
theorem step_pure (s : State) (pre as : List A) :
    final n D op s (pre ++ as) = final n D op (final n D op s pre) as := by
  simp [final, List.foldl_append]

/-- **C09 under branching.**  Explore two different continuations `as` and `bs` from the state reached by a
common prefix `pre` (look-ahead, stored transitions, stepping the same state twice): on EACH branch the
bookkeeping is exact and depends only on that branch's own moves — `cost_bsf` is the length of that branch's
`rec_best`, a lower bound for every tour seen on that branch, and the branch state is the one computed from
the common state alone. -/
theorem branching (rec0 : Rec) (pre as bs : List A) :
    let common := final n D op (reset n D rec0) pre
    let fa := final n D op common as
    let fb := final n D op common bs
    (fa.costBsf = cost n D fa.recBest ∧ fa.costCur = cost n D fa.recCur ∧
      ∀ s ∈ trace n D op (reset n D rec0) (pre ++ as), fa.costBsf ≤ cost n D s.recCur) ∧
    (fb.costBsf = cost n D fb.recBest ∧ fb.costCur = cost n D fb.recCur ∧
      ∀ s ∈ trace n D op (reset n D rec0) (pre ++ bs), fb.costBsf ≤ cost n D s.recCur) := by
  intro common fa fb
  have ha := invariants n D op rec0 (pre ++ as)
  have hb := invariants n D op rec0 (pre ++ bs)
  simp only [step_pure] at ha hb
  exact ⟨⟨ha.2.1, ha.1, ha.2.2.1⟩, ⟨hb.2.1, hb.1, hb.2.2.1⟩⟩

end Rl4co.Improve.Bsf
