/-
C09, moves of the bundled improvement policies (DACT, N2S, NeuOpt): the DECODING of a move from what the
decoding strategy selects is modelled (`dactMask`, `dactMove`, `n2sReinsertMaskFlat`, `n2sMove`, the k-opt builder);
the networks stay uninterpreted.  Given only "the selected index has a true mask entry" (C10), every emitted move is
admitted by the environment and keeps the tour valid.
-/
import Rl4co.Props.C09.ImproveCode

namespace Rl4co.Improve.Policy
open Rl4co.Spec.Improve

/-- translator obligations: both policies assemble the pair as `(k // seq_length, k % seq_length)`; N2S asks the
environment for the mask of pickup node `action_removal + 1` -/
theorem decode_ok : Params.improveDactDecodeDivFirst = true ∧ Params.improveN2sDecodeDivFirst = true ∧
    Params.improveN2sMaskPairOffset = 1 := by decide

/-- **C09 (DACT).**  Whatever the network computes: if the decoding strategy selects a flat index whose entry in
the mask DACT hands over is true, the emitted move `(k // n, k % n)` is in range and admitted by the
environment's `get_mask`. -/
theorem dact_move_admitted (n : Nat) (last : Option (Nat × Nat)) (k : Nat) (hk : k < n * n)
    (hm : dactMaskFlat n last k = true) :
    (Code.dactMove n k).1 < n ∧ (Code.dactMove n k).2 < n ∧
    mask2 (Code.dactMove n k).1 (Code.dactMove n k).2 = true := by
  have hn : 0 < n := by
    rcases Nat.eq_zero_or_pos n with h | h
    · subst h; simp at hk
    · exact h
  simp only [Code.dactMove, dactMove, decodePair, decode_ok.1, if_true]
  simp only [dactMaskFlat, dactMask, Bool.and_eq_true] at hm
  exact ⟨(Nat.div_lt_iff_lt_mul hn).mpr hk, Nat.mod_lt _ hn, hm.1⟩

/-- … and DACT never repeats its previous move (in either orientation) -/
theorem dact_move_fresh (n : Nat) (a b k : Nat) (hm : dactMaskFlat n (some (a, b)) k = true) :
    Code.dactMove n k ≠ (a, b) ∧ Code.dactMove n k ≠ (b, a) := by
  simp only [Code.dactMove, dactMove, decodePair, decode_ok.1, if_true]
  simp only [dactMaskFlat, dactMask, Bool.and_eq_true, Bool.not_eq_true', Bool.or_eq_false_iff,
    beq_eq_false_iff_ne, ne_eq, Option.some.injEq] at hm
  refine ⟨fun e => hm.2.1 e.symm, fun e => hm.2.2 ?_⟩
  rw [Prod.mk.injEq] at e ⊢
  exact ⟨e.2.symm, e.1.symm⟩

/-- **C09 (DACT keeps tours valid).** -/
theorem dact_preserves (n : Nat) (r : Rec) (ht : IsTour r n) (last : Option (Nat × Nat)) (k : Nat)
    (hk : k < n * n) (hm : dactMaskFlat n last k = true) :
    IsTour (Code.localOp2 n r (Code.dactMove n k).1 (Code.dactMove n k).2) n := by
  obtain ⟨h1, h2, h3⟩ := dact_move_admitted n last k hk hm
  exact Code.twoOpt_preserves n r _ _ h1 h2 (by simpa [mask2] using h3) ht

/-- **C09 (N2S).**  If the removal stage selects a pair index `pi < gs/2` and the reinsertion stage a flat index
whose entry in `env.get_mask(pi + 1, td).view(-1)` is true, the emitted move `(pi, k // gs, k % gs)` is admitted by
the environment's mask for that pair. -/
theorem n2s_move_admitted (gs : Nat) (r : Rec) (pi k : Nat) (hpi : pi < gs / 2) (hk : k < gs * gs)
    (hm : Code.n2sReinsertMaskFlat gs (visitedTime gs r) pi k = true) :
    PdpRR.Adm gs r (Code.n2sMove gs pi k) := by
  have hgs : 0 < gs := by
    rcases Nat.eq_zero_or_pos gs with h | h
    · subst h; simp at hk
    · exact h
  simp only [Code.n2sMove, n2sMove, decodePair, decode_ok.2.1, if_true]
  simp only [Code.n2sReinsertMaskFlat, n2sReinsertMaskFlat, decode_ok.2.2, Code.pdpMask_ok] at hm
  refine ⟨hpi, (Nat.div_lt_iff_lt_mul hgs).mpr hk, Nat.mod_lt _ hgs, ?_⟩
  have := congrFun (congrFun (congrFun (congrFun (congrFun Code.pdpMask_eq gs) (visitedTime gs r)) (pi + 1)) (k / gs)) (k % gs)
  simp only [Code.pdpMask, Code.pdpMask_ok] at this
  rw [← this]; exact hm

/-- **C09 (N2S keeps PDP tours valid).** -/
theorem n2s_preserves (gs : Nat) (r : Rec) (hodd : gs % 2 = 1) (hv : PdpValid r gs) (pi k : Nat)
    (hpi : pi < gs / 2) (hk : k < gs * gs)
    (hm : Code.n2sReinsertMaskFlat gs (visitedTime gs r) pi k = true) :
    PdpValid (pdpLocalOp gs r (Code.n2sMove gs pi k).1 (Code.n2sMove gs pi k).2.1 (Code.n2sMove gs pi k).2.2) gs := by
  obtain ⟨h1, h2, h3, h4⟩ := n2s_move_admitted gs r pi k hpi hk hm
  exact PdpRR.preserves gs r _ _ _ hodd h1 h2 h3 hv h4

/-- **C09 (NeuOpt).**  NeuOpt's decoding loop IS the modelled action builder started with the previous first
node masked: if every node the strategy selects is free in the builder's mask at its sub-step, the emitted
action keeps the tour a tour under the executed k-opt operator. -/
theorem neuopt_preserves (n : Nat) (r : Rec) (ht : IsTour r n) (prevFirst : Option Nat) (c0 : Nat) (cs : List Nat)
    (hadm : (genRun n (cs.length + 1) r (visitedTime n r) (fun j => prevFirst == some j) (c0 :: cs)).admitted = true) :
    IsTour (Code.localOpK n r
      (genAction (cs.length + 1) (genRun n (cs.length + 1) r (visitedTime n r) (fun j => prevFirst == some j) (c0 :: cs))).1
      (genAction (cs.length + 1) (genRun n (cs.length + 1) r (visitedTime n r) (fun j => prevFirst == some j) (c0 :: cs))).2.1
      (genAction (cs.length + 1) (genRun n (cs.length + 1) r (visitedTime n r) (fun j => prevFirst == some j) (c0 :: cs))).2.2) n :=
  Code.kopt_preserves n r ht _ c0 cs hadm

/-- Non-vacuity: n = 4, previous move (0, 2); flat index 7 = (1, 3) is free and decodes to the move (1, 3); flat
index 8 = (2, 0) is the previous move reversed and is masked. -/
example : dactMaskFlat 4 (some (0, 2)) 7 = true ∧ Code.dactMove 4 7 = (1, 3) ∧ dactMaskFlat 4 (some (0, 2)) 8 = false ∧
    Code.n2sMove 5 1 13 = (1, 2, 3) := by decide

end Rl4co.Improve.Policy
