/-
C09, batch dimension: the column-wise model of `_step` on a whole batch (`batchStepP` in Env/Improve.lean —
every source line acts on columns, `solution_best[index] = next_rec[index]` is the masked overwrite of the
`rec_best` tensor) equals the per-row `_step`, for every batch size and every token valuation; hence every
per-instance C09 theorem holds for every row of every batch.
-/
import Rl4co.Props.C09.ImproveCode

namespace Rl4co.Improve.Batch

/-- **batched `_step` = per-row `_step`.**  For every batch size, the column-wise `_step` (including the masked
in-place overwrite of `rec_best`) computes, row by row, exactly the per-instance `_step` — whatever the tokens
`P`, the operator and the rows' instances are. -/
theorem batchStep_eq_map {A : Type} (P : StepParams) (n : Nat) (op : Rec → A → Rec) :
    ∀ (ss : List State) (Ds : List (Nat → Nat → Int)) (as : List A),
      Ds.length = ss.length → as.length = ss.length →
      batchStepP P n Ds op ss as = List.zipWith3 (fun D s a => stepP P n D op s a) Ds ss as := by
  intro ss
  induction ss with
  | nil =>
    intro Ds as h1 h2
    cases Ds <;> cases as <;> simp_all [batchStepP, assemble, List.zipWith3]
  | cons s ss ih =>
    intro Ds as h1 h2
    cases Ds with
    | nil => simp at h1
    | cons D Ds =>
      cases as with
      | nil => simp at h2
      | cons a as =>
        have := ih Ds as (by simpa using h1) (by simpa using h2)
        simp only [batchStepP] at this ⊢
        simp only [List.map_cons, List.zipWith_cons_cons, maskedAssign, assemble, List.zipWith3, this]
        rfl

theorem batchStep_length {A : Type} (P : StepParams) (n : Nat) (op : Rec → A → Rec)
    (ss : List State) (Ds : List (Nat → Nat → Int)) (as : List A)
    (h1 : Ds.length = ss.length) (h2 : as.length = ss.length) :
    (batchStepP P n Ds op ss as).length = ss.length := by
  rw [batchStep_eq_map P n op ss Ds as h1 h2]
  induction ss generalizing Ds as with
  | nil => cases Ds <;> cases as <;> simp [List.zipWith3]
  | cons s ss ih =>
    cases Ds with
    | nil => simp at h1
    | cons D Ds =>
      cases as with
      | nil => simp at h2
      | cons a as => simp [List.zipWith3, ih Ds as (by simpa using h1) (by simpa using h2)]

/-- a whole batched run: one list of per-row actions per step -/
def batchRun {A : Type} (P : StepParams) (n : Nat) (Ds : List (Nat → Nat → Int)) (op : Rec → A → Rec) :
    List State → List (List A) → List State
  | ss, [] => ss
  | ss, as :: ass => batchRun P n Ds op (batchStepP P n Ds op ss as) ass

/-- row `b` of a list of per-step action batches -/
def rowActions {A : Type} (b : Nat) (ass : List (List A)) : List A := ass.filterMap (·[b]?)

/-- **∀ batch, ∀ row.** after any number of batched steps, row `b` of the batch is the state the per-instance
environment reaches on that row's instance with that row's actions: rows never influence each other. -/
theorem batchRun_row {A : Type} (P : StepParams) (n : Nat) (op : Rec → A → Rec) (Ds : List (Nat → Nat → Int)) :
    ∀ (ass : List (List A)) (ss : List State), Ds.length = ss.length → (∀ as ∈ ass, as.length = ss.length) →
    ∀ (b : Nat) (hb : b < ss.length) (hD : b < Ds.length),
      (batchRun P n Ds op ss ass)[b]? =
        some ((rowActions b ass).foldl (stepP P n (Ds[b]) op) (ss[b])) := by
  intro ass
  induction ass with
  | nil => intro ss _ _ b hb _; simp [batchRun, rowActions, List.getElem?_eq_getElem hb]
  | cons as ass ih =>
    intro ss hD hA b hb hDb
    have hlas : as.length = ss.length := hA as (by simp)
    have hlen := batchStep_length P n op ss Ds as hD hlas
    have hb' : b < (batchStepP P n Ds op ss as).length := by omega
    have hrow : (batchStepP P n Ds op ss as)[b] = stepP P n (Ds[b]) op (ss[b]) (as[b]'(by omega)) := by
      have e := batchStep_eq_map P n op ss Ds as hD hlas
      have : ∀ (ss : List State) (Ds : List (Nat → Nat → Int)) (as : List A) (b : Nat)
          (h1 : b < ss.length) (h2 : b < Ds.length) (h3 : b < as.length)
          (h4 : b < (List.zipWith3 (fun D s a => stepP P n D op s a) Ds ss as).length),
          (List.zipWith3 (fun D s a => stepP P n D op s a) Ds ss as)[b] = stepP P n (Ds[b]) op (ss[b]) (as[b]) := by
        intro ss
        induction ss with
        | nil => intro _ _ b h1; simp at h1
        | cons s ss ih2 =>
          intro Ds as b h1 h2 h3 h4
          cases Ds with
          | nil => simp at h2
          | cons D Ds =>
            cases as with
            | nil => simp at h3
            | cons a as =>
              cases b with
              | zero => simp [List.zipWith3]
              | succ b =>
                simp only [List.zipWith3, List.getElem_cons_succ]
                exact ih2 Ds as b (by simpa using h1) (by simpa using h2) (by simpa using h3) _
      simp only [e]
      exact this ss Ds as b hb hDb (by omega) _
    have := ih (batchStepP P n Ds op ss as) (by omega) (fun as' h' => by rw [hlen]; exact hA as' (by simp [h'])) b hb' hDb
    simp only [batchRun]
    rw [this, hrow]
    have : rowActions b (as :: ass) = as[b]'(by omega) :: rowActions b ass := by
      simp [rowActions, List.getElem?_eq_getElem (show b < as.length by omega)]
    rw [this]; rfl

/-- Non-vacuity: a batch of two rows (same 4 collinear points) where only row 0 improves: row 0's best tour is
overwritten in place, row 1's is kept. -/
example :
    let D : Nat → Nat → Int := fun a b => if a ≤ b then (b - a : Nat) else (a - b : Nat)
    let good : Rec := fun j => [1, 2, 3, 0].getD j 0
    let bad : Rec := fun j => [2, 3, 1, 0].getD j 0
    let op : Rec → Bool → Rec := fun _ b => if b then good else bad
    let out := batchStepP StepParams.std 4 [D, D] op [reset 4 D bad, reset 4 D bad] [true, false]
    out.map (·.reward) = [2, 0] ∧ out.map (fun s => (List.range 4).map s.recBest) = [[1, 2, 3, 0], [2, 3, 1, 0]] := by
  decide

end Rl4co.Improve.Batch
