/-
C09 for TSPkoptEnv in 2-opt mode (DACT): `_local_operator` maps a single n-cycle to a single n-cycle
for every n and every admitted (first, second)  (`Kopt.twoOpt_preserves`).
General k-opt branch (NeuOpt), every n and k_max:
  * `KoptK.koptMove_isTour`: the relinking walk turns a tour into a tour for every WELL-FORMED move
    (`Spec.Improve.KoptMoveWF`: the move reverses consecutive segments in place);
  * `Kopt.koptAction_wellformed`: the action builder (`_random_action`, NeuOptPolicy's internal masks) only
    emits well-formed moves;
  * `Kopt.kopt_preserves` / `Kopt.kopt_run_valid`: hence every emitted k-opt move keeps the tour a tour.
-/
import Rl4co.Proofs.ImproveCycle
import Rl4co.Proofs.ImproveKoptK
import Rl4co.Proofs.ImproveKoptGen
import Rl4co.Props.C09.ImproveBsf

namespace Rl4co.Improve.Kopt
open Rl4co.Spec.Improve

theorem upd_self (r : Rec) (x : Nat) : upd r x (r x) = r := by
  funext j; by_cases h : j = x <;> simp [upd, h]

/-- once `cur` has reached `second` the reverse loop idles -/
theorem revLoop_idle (sol : Rec) (b : Nat) : ∀ (k : Nat) (rc : Rec), revLoop sol b k b rc = rc := by
  intro k
  induction k with
  | zero => intro rc; rfl
  | succ k ih =>
    intro rc
    simp only [revLoop, ne_eq, not_true_eq_false, if_false]
    rw [upd_self, ih]

/-- the reverse loop along a duplicate-free chain `cur :: T` of the old solution that ends in
`second`: every link of the chain is turned around, nothing else is touched. -/
theorem revLoop_spec (sol : Rec) (b : Nat) : ∀ (T : List Nat) (cur : Nat) (k : Nat) (rc : Rec),
    Linked sol (cur :: T) → (cur :: T).Nodup → (cur :: T).getLast? = some b → T.length ≤ k →
    Linked (revLoop sol b k cur rc) ((cur :: T).reverse) ∧
    (∀ z, z ∉ T → revLoop sol b k cur rc z = rc z) := by
  intro T
  induction T with
  | nil =>
    intro cur k rc _ _ hlast _
    simp at hlast
    subst hlast
    rw [revLoop_idle]
    exact ⟨by simp [Linked], fun z _ => rfl⟩
  | cons t T ih =>
    intro cur k rc hl hnd hlast hk
    rw [linked_cons_cons] at hl
    rw [List.getLast?_cons_cons] at hlast
    have hnd' := List.nodup_cons.mp hnd
    have hcb : cur ≠ b := by
      intro e
      exact hnd'.1 (e ▸ List.mem_of_getLast? hlast)
    cases k with
    | zero => simp at hk
    | succ k =>
      have hk' : T.length ≤ k := by simpa using hk
      have hstep : revLoop sol b (k + 1) cur rc = revLoop sol b k t (upd rc t cur) := by
        simp only [revLoop, ne_eq, hcb, not_false_eq_true, if_true, hl.1]
      rw [hstep]
      obtain ⟨ih1, ih2⟩ := ih t k (upd rc t cur) hl.2 hnd'.2 hlast hk'
      have htT : t ∉ T := (List.nodup_cons.mp hnd'.2).1
      constructor
      · have : (cur :: t :: T).reverse = (t :: T).reverse ++ [cur] := by simp
        rw [this]
        have h2 : (t :: T).reverse = T.reverse ++ [t] := by simp
        rw [h2, List.append_assoc]
        show Linked _ (T.reverse ++ t :: [cur])
        rw [linked_append_mid]
        refine ⟨by rw [← h2]; exact ih1, ?_⟩
        show _ = cur ∧ True
        refine ⟨?_, trivial⟩
        rw [ih2 t htT]; simp [upd]
      · intro z hz
        simp only [List.mem_cons, not_or] at hz
        rw [ih2 z hz.2]
        simp [upd, hz.1]


theorem linked_head_congr (r r' : Rec) (u u' : Nat) (K : List Nat)
    (h : Linked r (u :: K)) (hu : r' u' = r u) (hK : ∀ z ∈ K.dropLast, r' z = r z) :
    Linked r' (u' :: K) := by
  cases K with
  | nil => trivial
  | cons k K' =>
    rw [linked_cons_cons] at h ⊢
    exact ⟨by rw [hu, h.1], (linked_congr r' r (k :: K') hK).mpr h.2⟩

/-- **C09 (2-opt).**  For every `n`, every single `n`-cycle `r` and every admitted pair
`first ≠ second`, `_local_operator` returns a single `n`-cycle (the stretch `first … second` of the
tour is reversed in place). -/
theorem twoOpt_preservesC (sub : Nat) (hsub : sub ≤ 1) (n : Nat) (r : Rec) (a b : Nat) (ha : a < n) (hb : b < n)
    (hab : a ≠ b) (ht : IsTour r n) : IsTour (localOp2C sub n r a b) n := by
  obtain ⟨seq, hperm, hcyc⟩ := ht
  have hmem : ∀ z, z ∈ seq ↔ z < n := fun z => hperm.mem_iff.trans List.mem_range
  -- rotate the cycle so that it starts at `first`
  obtain ⟨X, Y, hX⟩ := List.append_of_mem ((hmem a).mpr ha)
  have hcyc1 : CycleOf r ((a :: Y) ++ X) := by
    rw [hX] at hcyc; exact (cycleOf_rotate r X (a :: Y)).mp hcyc
  have hperm1 : ((a :: Y) ++ X).Perm (List.range n) := by
    rw [hX] at hperm; exact List.perm_append_comm.trans hperm
  have hbW : b ∈ Y ++ X := by
    have : b ∈ (a :: Y) ++ X := hperm1.mem_iff.mpr (List.mem_range.mpr hb)
    simp only [List.cons_append, List.mem_cons] at this
    rcases this with h | h
    · exact absurd h.symm hab
    · exact h
  obtain ⟨M, Y', hW⟩ := List.append_of_mem hbW
  have hseq : (a :: Y) ++ X = a :: (M ++ b :: Y') := by simp [hW]
  rw [hseq] at hcyc1 hperm1
  clear hseq hW hbW hX hcyc hperm hmem
  have hnd : (a :: (M ++ b :: Y')).Nodup := hperm1.nodup_iff.mpr List.nodup_range
  have hmem : ∀ z, z ∈ a :: (M ++ b :: Y') ↔ z < n := fun z => hperm1.mem_iff.trans List.mem_range
  have hlen : (a :: (M ++ b :: Y')).length = n := hperm1.length_eq.trans List.length_range
  -- the chain first … second of the old tour
  have hchain : Linked r (a :: (M ++ [b])) := by
    rw [cycleOf_cons] at hcyc1
    have : a :: (M ++ b :: Y') ++ [a] = (a :: M) ++ b :: (Y' ++ [a]) := by simp
    rw [this, linked_append_mid] at hcyc1
    simpa using hcyc1.1
  have htail : Linked r (b :: (Y' ++ [a])) := by
    rw [cycleOf_cons] at hcyc1
    have : a :: (M ++ b :: Y') ++ [a] = (a :: M) ++ b :: (Y' ++ [a]) := by simp
    rw [this, linked_append_mid] at hcyc1
    exact hcyc1.2
  have hndS : (a :: (M ++ [b])).Nodup := by
    have hsub : (a :: (M ++ [b])).Sublist (a :: (M ++ b :: Y')) := by
      apply List.Sublist.cons_cons
      apply List.Sublist.append_left
      exact List.Sublist.cons_cons _ (List.nil_sublist _)
    exact hsub.nodup hnd
  have hlastS : (a :: (M ++ [b])).getLast? = some b := by
    rw [List.getLast?_eq_some_iff]; exact ⟨a :: M, by simp⟩
  have hfuel : (M ++ [b]).length ≤ n - sub := by
    have : (a :: (M ++ b :: Y')).length = (M ++ [b]).length + 1 + Y'.length := by
      simp only [List.length_cons, List.length_append, List.length_nil]; omega
    omega
  -- the new cyclic order
  refine ⟨(a :: (M ++ [b])).reverse ++ Y', ?_, ?_⟩
  · refine List.Perm.trans ?_ hperm1
    have : a :: (M ++ b :: Y') = (a :: (M ++ [b])) ++ Y' := by simp
    rw [this]
    exact List.Perm.append_right _ (List.reverse_perm _)
  · rcases List.eq_nil_or_concat Y' with hY | ⟨Z, pa, hY⟩
    · -- `second` is the predecessor of `first`: the whole tour is reversed
      subst hY
      have hba : r b = a := by simpa [Linked] using htail
      have hpred : argsort n r a = b := argsort_of_cycle n r _ hperm1 hcyc1 b a hb hba
      have hop : localOp2C sub n r a b = revLoop r b (n - sub) a (upd (upd r a b) a b) := by
        simp [localOp2C, hpred, hba]
      rw [hop]
      obtain ⟨h1, h2⟩ := revLoop_spec r b (M ++ [b]) a (n - sub) (upd (upd r a b) a b) hchain hndS hlastS hfuel
      have haT : a ∉ M ++ [b] := (List.nodup_cons.mp hndS).1
      have hra : revLoop r b (n - sub) a (upd (upd r a b) a b) a = b := by rw [h2 a haT]; simp [upd]
      rw [List.append_nil]
      have hrev : (a :: (M ++ [b])).reverse = b :: (M.reverse ++ [a]) := by simp
      rw [hrev] at h1 ⊢
      rw [cycleOf_cons]
      have : b :: (M.reverse ++ [a]) ++ [b] = (b :: M.reverse) ++ a :: [b] := by simp
      rw [this, linked_append_mid]
      exact ⟨by simpa using h1, hra, trivial⟩
    · -- general case: `pa` (≠ second) is the predecessor of `first`
      rw [List.concat_eq_append] at hY
      subst hY
      have hpa_a : r pa = a := by
        have : b :: (Z ++ [pa] ++ [a]) = (b :: Z) ++ pa :: [a] := by simp
        rw [this, linked_append_mid] at htail
        exact htail.2.1
      have hpamem : pa ∈ a :: (M ++ b :: (Z ++ [pa])) := by simp
      have hpan : pa < n := (hmem pa).mp hpamem
      have hpred : argsort n r a = pa := argsort_of_cycle n r _ hperm1 hcyc1 pa a hpan hpa_a
      have hpab : pa ≠ b := by
        intro e
        have := hnd
        simp [List.nodup_cons, List.nodup_append, e] at this
      have hpaa : pa ≠ a := by
        intro e
        have := hnd
        simp [List.nodup_cons, e] at this
      have hrb : r b ≠ a := by
        intro e
        have hbm : b ∈ a :: (M ++ b :: (Z ++ [pa])) := by simp
        exact hpab (cycleOf_inj r _ hcyc1 hnd hpamem hbm (by rw [hpa_a, e]))
      have hop : localOp2C sub n r a b = revLoop r b (n - sub) a (upd (upd r pa b) a (r b)) := by
        simp [localOp2C, hpred, hpab, hrb]
      rw [hop]
      obtain ⟨h1, h2⟩ := revLoop_spec r b (M ++ [b]) a (n - sub) (upd (upd r pa b) a (r b)) hchain hndS hlastS hfuel
      generalize hres : revLoop r b (n - sub) a (upd (upd r pa b) a (r b)) = res at h1 h2
      have haT : a ∉ M ++ [b] := (List.nodup_cons.mp hndS).1
      have hZT : ∀ z ∈ Z ++ [pa], z ∉ M ++ [b] ∧ z ≠ a := by
        intro z hz
        have := hnd
        simp only [List.nodup_cons, List.nodup_append, List.mem_append, List.mem_cons] at this
        obtain ⟨hna, hM, hbZ, hdis⟩ := this
        have hz' : z ∈ Z ∨ z = pa := by simpa using hz
        constructor
        · intro hzm
          have hzm' : z ∈ M ∨ z = b := by simpa using hzm
          rcases hzm' with hzm' | hzm'
          · exact hdis z hzm' z (Or.inr (by simpa using hz)) rfl
          · subst hzm'
            exact hbZ.1 (by simpa using hz)
        · intro e
          subst e
          exact hna (Or.inr (Or.inr (by simpa using hz)))
      have hres_a : res a = r b := by rw [h2 a haT]; simp [upd]
      have hres_pa : res pa = b := by
        rw [h2 pa (hZT pa (by simp)).1]; simp [upd, hpaa]
      have hres_Z : ∀ z ∈ Z, res z = r z := by
        intro z hz
        have hz1 := hZT z (by simp [hz])
        have hzpa : z ≠ pa := by
          intro e
          subst e
          have hsub : (Z ++ [z]).Sublist (a :: (M ++ b :: (Z ++ [z]))) :=
            (List.sublist_append_right (a :: M) _).trans (by simp)
          have := hsub.nodup hnd
          rw [List.nodup_append] at this
          exact this.2.2 z hz z (by simp) rfl
        rw [h2 z hz1.1]; simp [upd, hz1.2, hzpa]
      have hrev : (a :: (M ++ [b])).reverse = b :: (M.reverse ++ [a]) := by simp
      rw [hrev] at h1 ⊢
      show CycleOf res (b :: (M.reverse ++ [a]) ++ (Z ++ [pa]))
      rw [List.cons_append, cycleOf_cons]
      have : b :: (M.reverse ++ [a] ++ (Z ++ [pa])) ++ [b] = (b :: M.reverse) ++ a :: (Z ++ pa :: [b]) := by simp
      rw [this, linked_append_mid]
      refine ⟨by simpa using h1, ?_⟩
      have : a :: (Z ++ pa :: [b]) = (a :: Z) ++ pa :: [b] := by simp
      rw [this, linked_append_mid]
      refine ⟨?_, hres_pa, trivial⟩
      have hbZ : Linked r (b :: (Z ++ [pa])) := by
        have : b :: (Z ++ [pa] ++ [a]) = (b :: Z) ++ pa :: [a] := by simp
        rw [this, linked_append_mid] at htail
        simpa using htail.1
      have := linked_head_congr r res b a (Z ++ [pa]) hbZ hres_a (by
        intro z hz; rw [List.dropLast_concat] at hz; exact hres_Z z hz)
      simpa using this


/-- **C09 (2-opt).** the instance at the source's trip count `range(num_loc)` -/
theorem twoOpt_preserves (n : Nat) (r : Rec) (a b : Nat) (ha : a < n) (hb : b < n) (hab : a ≠ b)
    (ht : IsTour r n) : IsTour (localOp2 n r a b) n :=
  twoOpt_preservesC 0 (by omega) n r a b ha hb hab ht

/-- every move `get_mask` admits (`first ≠ second`, both in range) keeps a tour a tour, so does every
sequence of such moves -/
theorem twoOpt_preserves_run (n : Nat) (moves : List (Nat × Nat)) :
    ∀ (r : Rec), IsTour r n → (∀ m ∈ moves, m.1 < n ∧ m.2 < n ∧ mask2 m.1 m.2 = true) →
    IsTour (moves.foldl (fun r m => localOp2 n r m.1 m.2) r) n := by
  induction moves with
  | nil => intro r h _; exact h
  | cons m ms ih =>
    intro r h hm
    have hm1 := hm m (by simp)
    apply ih
    · exact twoOpt_preserves n r m.1 m.2 hm1.1 hm1.2.1 (by simpa [mask2] using hm1.2.2) h
    · intro m' hm'; exact hm m' (by simp [hm'])

/-- **C09 (2-opt, whole runs).** from a tour, after ANY sequence of `get_mask`-admitted 2-opt moves both
`rec_current` and `rec_best` of the environment state are single `n`-cycles. -/
theorem twoOpt_run_valid (n : Nat) (D : Nat → Nat → Int) (rec0 : Rec) (h0 : IsTour rec0 n)
    (ms : List (Nat × Nat))
    (hadm : Bsf.AdmRun (fun r m => localOp2 n r m.1 m.2)
      (fun _ m => m.1 < n ∧ m.2 < n ∧ mask2 m.1 m.2 = true) rec0 ms) :
    let f := Bsf.final n D (fun r m => localOp2 n r m.1 m.2) (reset n D rec0) ms
    IsTour f.recCur n ∧ IsTour f.recBest n :=
  Bsf.valid_of_run n D _ (fun r => IsTour r n) _
    (fun r m hr hm => twoOpt_preserves n r m.1 m.2 hm.1 hm.2.1 (by simpa [mask2] using hm.2.2) hr)
    ms (reset n D rec0) h0 h0 hadm

/-- Non-vacuity: the tour 0→1→2→3→4→0 is a tour; the admitted move (1, 3) reverses 1…3 and gives
0→3→2→1→4→0; the wrap-around move (3, 1) reverses 3→4→0→1. -/
example :
    let r : Rec := fun j => [1, 2, 3, 4, 0].getD j 0
    IsTour r 5 ∧ mask2 1 3 = true ∧
    (List.range 5).map (localOp2 5 r 1 3) = [3, 4, 1, 2, 0] ∧
    (List.range 5).map (localOp2 5 r 3 1) = [4, 0, 1, 2, 3] := by
  refine ⟨⟨[0, 1, 2, 3, 4], by decide, by simp [CycleOf, Linked]⟩, by decide, by decide, by decide⟩

end Rl4co.Improve.Kopt

namespace Rl4co.Improve.KoptK
open Rl4co.Spec.Improve

/-- **C09 (general k-opt, partial).**  For every `n`, every `k` and every well-formed k-opt move
the NeuOpt branch of `_local_operator` returns a single `n`-cycle, namely the old tour with every
segment reversed in place. -/
theorem koptMove_preserves (n : Nat) (r : Rec) (sel left right : List Nat) (t0 : Nat)
    (segs : List (List Nat)) (R : List Nat) (h : KoptMoveWF n r sel left right t0 segs R) :
    (t0 :: newTail segs R).Perm (List.range n) ∧
    CycleOf (localOpK n r sel left right) (t0 :: newTail segs R) := by
  obtain ⟨hne, hperm, hcyc, hhead, hsub, hsup, hsel, hR⟩ := h
  have hnd : (t0 :: (segs.flatten ++ R)).Nodup := hperm.nodup_iff.mpr List.nodup_range
  -- left nodes are distinct, so the scattered pairs are functional
  have hheads : (t0 :: segs.map (·.headD t0)).Nodup := by
    have hsub' : (segs.map (·.headD t0)).Sublist segs.flatten := by
      clear hsub hsup hsel hperm hcyc hnd
      induction segs with
      | nil => simp
      | cons S segs ih =>
        have hS := hne S (by simp)
        cases S with
        | nil => exact absurd rfl hS
        | cons a S' =>
          simp only [List.map_cons, List.headD_cons, List.flatten_cons, List.cons_append]
          exact List.Sublist.cons_cons a
            ((ih (fun S'' h'' => hne S'' (List.mem_cons_of_mem _ h''))).trans (List.sublist_append_right _ _))
    exact (List.Sublist.cons_cons t0 (hsub'.trans (List.sublist_append_left _ _))).nodup hnd
  have hpf : ∀ p ∈ pairs t0 t0 segs R, ∀ q ∈ pairs t0 t0 segs R, p.1 = q.1 → p = q := by
    have hnd' : ((pairs t0 t0 segs R).map Prod.fst).Nodup := by rw [pairs_fst]; exact hheads
    intro p hp q hq hpq
    exact inj_of_nodup_map' _ hnd' p hp q hq hpq
  have hfun : ∀ p ∈ left.zip right, ∀ q ∈ left.zip right, p.1 = q.1 → p.2 = q.2 := by
    intro p hp q hq hpq
    rw [hpf p (hsub p hp) q (hsub q hq) hpq]
  obtain ⟨hs1, hs2⟩ := scatterL_spec left right r hfun
  have hlk : Links (scatterL r left right) t0 t0 segs R :=
    links_of_pairs _ t0 segs R t0 hne (fun p hp => hs1 p (hsup p hp))
  have hrec0 : ∀ x ∈ R, scatterL r left right x = r x := by
    intro x hx
    apply hs2
    intro hm
    obtain ⟨p, hp, hpx⟩ := List.mem_map.mp hm
    have : x ∈ (pairs t0 t0 segs R).map Prod.fst := List.mem_map.mpr ⟨p, hsub p hp, hpx⟩
    rw [pairs_fst] at this
    -- a node of R is neither t0 nor the first node of a segment
    have hx' : x ∈ t0 :: segs.flatten := by
      rcases List.mem_cons.mp this with h | h
      · simp [h]
      · right
        obtain ⟨S, hS, hSx⟩ := List.mem_map.mp h
        have hSne := hne S hS
        cases S with
        | nil => exact absurd rfl hSne
        | cons a S' =>
          simp only [List.headD_cons] at hSx
          exact List.mem_flatten.mpr ⟨a :: S', hS, by simp [hSx]⟩
    have hdis := hnd
    rw [show t0 :: (segs.flatten ++ R) = (t0 :: segs.flatten) ++ R by simp, List.nodup_append] at hdis
    exact hdis.2.2 x hx' x hx rfl
  have hrn : ∀ v, R.head? = some v → v ∈ sel.map r := by
    intro v hv
    apply hR
    cases R with
    | nil => simp at hv
    | cons a R' => simp at hv ⊢; exact hv.symm
  have := relink_cycle n r t0 segs R (sel.map r) (scatterL r left right) hne hperm hcyc hlk hrec0 hsel hrn
  have hop : localOpK n r sel left right =
      koptLoop (argsort n r) (sel.map r) (n - 2) t0 (scatterL r left right) := by
    simp only [localOpK, localOpKC, hhead]
    rfl
  rw [hop]
  exact this

theorem koptMove_isTour (n : Nat) (r : Rec) (sel left right : List Nat) (t0 : Nat)
    (segs : List (List Nat)) (R : List Nat) (h : KoptMoveWF n r sel left right t0 segs R) :
    IsTour (localOpK n r sel left right) n :=
  ⟨_, (koptMove_preserves n r sel left right t0 segs R h).1,
    (koptMove_preserves n r sel left right t0 segs R h).2⟩

/-- Non-vacuity: on the tour 0→1→2→3→4→5→0 the NeuOpt action built from the node sequence 0, 2, 4, 5
(`sel = [0,2,4,5]`, `left = [0,1,3,3]`, `right = [2,4,5,5]`) is well-formed with segments [1,2], [3,4] and
rest [5]; the operator returns 0→2→1→4→3→5→0. -/
example :
    let r : Rec := fun j => [1, 2, 3, 4, 5, 0].getD j 0
    KoptMoveWF 6 r [0, 2, 4, 5] [0, 1, 3, 3] [2, 4, 5, 5] 0 [[1, 2], [3, 4]] [5] ∧
    findWitness 6 r [0, 1, 3, 3] [2, 4, 5, 5] = (0, [[1, 2], [3, 4]], [5]) ∧
    (List.range 6).map (localOpK 6 r [0, 2, 4, 5] [0, 1, 3, 3] [2, 4, 5, 5]) = [2, 4, 1, 5, 3, 0] := by
  refine ⟨by decide, by decide, by decide⟩

end Rl4co.Improve.KoptK

namespace Rl4co.Improve.Kopt
open Rl4co.Spec.Improve Rl4co.Improve.KoptGen

/-- **C09 (k-opt sampler / NeuOpt masks).**  Every action the sequential builder can emit — any tour,
any `k_max`, any initial mask, any node sequence each of whose nodes was free in the builder's own mask at
its sub-step — is a well-formed segment-reversal move on the current tour (this is `randomAction_admitted`
for `k_max > 2`, where the environment has no mask of its own). -/
theorem koptAction_wellformed (n : Nat) (r : Rec) (ht : IsTour r n) (mask0 : Nat → Bool) (c0 : Nat)
    (cs : List Nat)
    (hadm : (genRun n (cs.length + 1) r (visitedTime n r) mask0 (c0 :: cs)).admitted = true) :
    ∃ segs R, KoptMoveWF n r
      (genAction (cs.length + 1) (genRun n (cs.length + 1) r (visitedTime n r) mask0 (c0 :: cs))).1
      (genAction (cs.length + 1) (genRun n (cs.length + 1) r (visitedTime n r) mask0 (c0 :: cs))).2.1
      (genAction (cs.length + 1) (genRun n (cs.length + 1) r (visitedTime n r) mask0 (c0 :: cs))).2.2
      c0 segs R :=
  builder_wf n r ht mask0 c0 cs hadm

/-- **C09 (general k-opt).**  Every move the action builder can emit (any `k_max`, any tour size, any
admitted node sequence) turns a single `n`-cycle into a single `n`-cycle under the NeuOpt branch of
`_local_operator`. -/
theorem kopt_preserves (n : Nat) (r : Rec) (ht : IsTour r n) (mask0 : Nat → Bool) (c0 : Nat) (cs : List Nat)
    (hadm : (genRun n (cs.length + 1) r (visitedTime n r) mask0 (c0 :: cs)).admitted = true) :
    IsTour (localOpK n r
      (genAction (cs.length + 1) (genRun n (cs.length + 1) r (visitedTime n r) mask0 (c0 :: cs))).1
      (genAction (cs.length + 1) (genRun n (cs.length + 1) r (visitedTime n r) mask0 (c0 :: cs))).2.1
      (genAction (cs.length + 1) (genRun n (cs.length + 1) r (visitedTime n r) mask0 (c0 :: cs))).2.2) n := by
  obtain ⟨segs, R, hwf⟩ := builder_wf n r ht mask0 c0 cs hadm
  exact KoptK.koptMove_isTour n r _ _ _ c0 segs R hwf


/-- the k-opt operator applied to the action built from an initial mask and a node sequence -/
def koptOp (n : Nat) (r : Rec) (m : (Nat → Bool) × Nat × List Nat) : Rec :=
  localOpK n r
    (genAction (m.2.2.length + 1) (genRun n (m.2.2.length + 1) r (visitedTime n r) m.1 (m.2.1 :: m.2.2))).1
    (genAction (m.2.2.length + 1) (genRun n (m.2.2.length + 1) r (visitedTime n r) m.1 (m.2.1 :: m.2.2))).2.1
    (genAction (m.2.2.length + 1) (genRun n (m.2.2.length + 1) r (visitedTime n r) m.1 (m.2.1 :: m.2.2))).2.2

/-- **C09 (k-opt, whole runs).** from a tour, after ANY sequence of builder-admitted k-opt moves (any mix of
`k_max`) both `rec_current` and `rec_best` of the environment state are single `n`-cycles. -/
theorem kopt_run_valid (n : Nat) (D : Nat → Nat → Int) (rec0 : Rec) (h0 : IsTour rec0 n)
    (ms : List ((Nat → Bool) × Nat × List Nat))
    (hadm : Bsf.AdmRun (koptOp n)
      (fun r m => (genRun n (m.2.2.length + 1) r (visitedTime n r) m.1 (m.2.1 :: m.2.2)).admitted = true)
      rec0 ms) :
    let f := Bsf.final n D (koptOp n) (reset n D rec0) ms
    IsTour f.recCur n ∧ IsTour f.recBest n :=
  Bsf.valid_of_run n D _ (fun r => IsTour r n) _
    (fun r m hr hm => kopt_preserves n r hr m.1 m.2.1 m.2.2 hm)
    ms (reset n D rec0) h0 h0 hadm

/-- **C09 (`_random_action`, 2-opt).** every action the sampler can emit is in range and admitted by `get_mask` -/
theorem randomAction2_admitted (n : Nat) (m : Nat × Nat) (h : m ∈ randomActions2 n) :
    m.1 < n ∧ m.2 < n ∧ mask2 m.1 m.2 = true := by
  simp only [randomActions2, List.mem_map, List.mem_filter, List.mem_range] at h
  obtain ⟨k, ⟨hk, hm⟩, rfl⟩ := h
  have hn : 0 < n := by
    rcases Nat.eq_zero_or_pos n with h0 | h0
    · subst h0; simp at hk
    · exact h0
  exact ⟨(Nat.div_lt_iff_lt_mul hn).mpr hk, Nat.mod_lt _ hn, hm⟩

/-- Non-vacuity: on the tour 0→1→2→3→4→5→0 the node sequence 0, 2, 4, 5 is admitted by the builder's masks
(`k_max = 4`, empty initial mask). -/
example :
    (genRun 6 4 (fun j => [1, 2, 3, 4, 5, 0].getD j 0)
      (visitedTime 6 (fun j => [1, 2, 3, 4, 5, 0].getD j 0)) (fun _ => false) [0, 2, 4, 5]).admitted = true ∧
    randomActions2 3 = [(0, 1), (0, 2), (1, 0), (1, 2), (2, 0), (2, 1)] := by
  decide

end Rl4co.Improve.Kopt
