/-
C09 for PDPRuinRepairEnv: every mask-admitted ruin-and-repair move keeps the tour a single cycle with
every pickup before its delivery.  Unbounded in the number of nodes; the hypotheses are the validity
of the current tour and the truth of `get_mask` for the chosen (pair, first, second).
-/
import Rl4co.Proofs.ImproveCycle
import Rl4co.Props.C09.ImproveBsf

namespace Rl4co.Improve.PdpRR
open Rl4co.Spec.Improve

theorem filter_ne_decomp (L R : List Nat) (v : Nat) (hnd : (L ++ v :: R).Nodup) :
    (L ++ v :: R).filter (fun z => z != v) = L ++ R := by
  have h := hnd
  simp only [List.nodup_append, List.nodup_cons, List.mem_cons] at h
  obtain ⟨_, ⟨hvR, _⟩, hLR⟩ := h
  have hvL : v ∉ L := fun hm => (hLR v hm v (Or.inl rfl)) rfl
  rw [List.filter_append, List.filter_cons]
  simp only [bne_self_eq_false, Bool.false_eq_true, if_false]
  rw [List.filter_eq_self.mpr, List.filter_eq_self.mpr]
  · intro a ha; simp; intro e; exact hvR (e ▸ ha)
  · intro a ha; simp; intro e; exact hvL (e ▸ ha)

theorem decomp_after_head (rest : List Nat) (v : Nat) (hv : v ∈ 0 :: rest) (h0 : v ≠ 0) :
    ∃ L x R, 0 :: rest = L ++ x :: v :: R := by
  have hv' : v ∈ rest := by
    rcases List.mem_cons.mp hv with h | h
    · exact absurd h h0
    · exact h
  obtain ⟨s, t, hst⟩ := List.append_of_mem hv'
  refine ⟨(0 :: s).dropLast, (0 :: s).getLast (by simp), t, ?_⟩
  have := List.dropLast_concat_getLast (l := 0 :: s) (by simp)
  calc 0 :: rest = (0 :: s) ++ v :: t := by rw [hst]; simp
    _ = ((0 :: s).dropLast ++ [(0 :: s).getLast (by simp)]) ++ v :: t := by rw [this]
    _ = _ := by simp


theorem nodup_remove {L R : List Nat} {v : Nat} (h : (L ++ v :: R).Nodup) :
    (L ++ R).Nodup ∧ v ∉ L ++ R := by
  have hp : (L ++ v :: R).Perm (v :: (L ++ R)) := List.perm_middle
  have := hp.nodup_iff.mp h
  exact ⟨(List.nodup_cons.mp this).2, (List.nodup_cons.mp this).1⟩

theorem nodup_insert {L R : List Nat} {v : Nat} (h : (L ++ R).Nodup) (hv : v ∉ L ++ R) :
    (L ++ v :: R).Nodup := by
  have hp : (L ++ v :: R).Perm (v :: (L ++ R)) := List.perm_middle
  exact hp.nodup_iff.mpr (List.nodup_cons.mpr ⟨hv, h⟩)

theorem head_insert {A B B' t : List Nat} {f : Nat} (h : A ++ f :: B = 0 :: t) :
    ∃ t', A ++ f :: B' = 0 :: t' := by
  cases A with
  | nil => simp at h; exact ⟨B', by simp [h.1]⟩
  | cons a A' => simp at h; exact ⟨A' ++ f :: B', by simp [h.1]⟩

/-- **C09 (PDP ruin and repair).**  For every number of nodes `gs = 2h+1`, every valid PDP tour
(single cycle through `0..gs-1`; read from the depot every pickup precedes its delivery), every
pair index and every `(first, second)` admitted by `get_mask`, the successor array produced by
`_local_operator` is again a valid PDP tour. -/
theorem preserves (gs : Nat) (r : Rec) (pi f s : Nat)
    (hodd : gs % 2 = 1) (hpi : pi < gs / 2) (hf : f < gs) (hs : s < gs)
    (hv : PdpValid r gs)
    (hm : pdpMask gs (visitedTime gs r) (pi + 1) f s = true) :
    PdpValid (pdpLocalOp gs r pi f s) gs := by
  obtain ⟨rest, hperm, hcyc, hprec⟩ := hv
  have hnd : (0 :: rest).Nodup := hperm.nodup_iff.mpr List.nodup_range
  have hmem : ∀ z, z ∈ 0 :: rest ↔ z < gs := fun z => hperm.mem_iff.trans List.mem_range
  have hlen : (0 :: rest).length = gs := hperm.length_eq.trans List.length_range
  -- the mask
  simp only [pdpMask, Bool.not_eq_true', Bool.or_eq_false_iff, decide_eq_false_iff_not,
    beq_eq_false_iff_ne, ne_eq] at hm
  obtain ⟨⟨⟨⟨hvt, hfp⟩, hfd⟩, hsp⟩, hsd⟩ := hm
  generalize hp : pi + 1 = p at *
  generalize hd : p + gs / 2 = d at *
  have hp0 : p ≠ 0 := by omega
  have hd0 : d ≠ 0 := by omega
  have hpd : p ≠ d := by omega
  have hpgs : p < gs := by omega
  have hdgs : d < gs := by omega
  -- (A) unlink the pickup
  obtain ⟨L, x, R, hdecP⟩ := decomp_after_head rest p ((hmem p).mpr hpgs) hp0
  rw [hdecP] at hcyc hnd
  have hxp : r x = p := cycleOf_adjacent r L R x p hcyc
  have hxgs : x < gs := (hmem x).mp (by rw [hdecP]; simp)
  have hpred1 : argsort gs r p = x :=
    argsort_of_cycle gs r _ (hdecP ▸ hperm) hcyc x p hxgs hxp
  have hc1a := cycle_remove r L R x p hcyc hnd
  have hnd1' := nodup_remove (L := L ++ [x]) (R := R) (v := p) (by simpa using hnd)
  have hnd1 : (L ++ x :: R).Nodup := by simpa using hnd1'.1
  have hp1 : p ∉ L ++ x :: R := by simpa using hnd1'.2
  have hc1 := (cycleOf_upd_notMem (upd r x (r p)) _ p p hp1).mpr hc1a
  have hfilt1 : (0 :: rest).filter (fun z => z != p) = L ++ x :: R := by
    rw [hdecP]
    have := filter_ne_decomp (L ++ [x]) R p (by simpa using hnd)
    simpa using this
  have hmem1 : ∀ z, z ∈ L ++ x :: R ↔ z < gs ∧ z ≠ p := by
    intro z; rw [← hfilt1, List.mem_filter, hmem]; simp
  generalize hr1 : upd (upd r x (r p)) p p = r1 at hc1
  have h0p : (0 != p) = true := by simp; omega
  rw [List.filter_cons, if_pos h0p] at hfilt1
  generalize hrest1 : rest.filter (fun z => z != p) = rest1 at hfilt1
  -- (B) unlink the delivery
  obtain ⟨L2, x2, R2, hdecD⟩ := decomp_after_head rest1 d
    (by rw [hfilt1]; exact (hmem1 d).mpr ⟨hdgs, hpd.symm⟩) hd0
  rw [← hfilt1, hdecD] at hc1 hnd1 hmem1
  have hx2d : r1 x2 = d := cycleOf_adjacent r1 L2 R2 x2 d hc1
  have hx2gs : x2 < gs := ((hmem1 x2).mp (by simp)).1
  have hr1p : r1 p = p := by rw [← hr1]; simp [upd]
  have hpred2 : argsort gs r1 d = x2 := by
    -- after the pickup is unlinked the array is still a permutation (the pickup is a fixed point)
    have hpermP : (p :: (L2 ++ x2 :: d :: R2)).Perm (List.range gs) := by
      rw [← hdecD, hfilt1]
      have e : (L ++ x :: p :: R).Perm (p :: (L ++ x :: R)) := by
        have := List.perm_middle (a := p) (l₁ := L ++ [x]) (l₂ := R)
        simpa using this
      exact e.symm.trans (hdecP ▸ hperm)
    exact argsort_eq gs r1 (map_perm_of_cycle_fix gs r1 _ p hpermP hc1 hr1p) x2 d hx2gs hx2d
  have hc2 := cycle_remove r1 L2 R2 x2 d hc1 hnd1
  have hnd2' := nodup_remove (L := L2 ++ [x2]) (R := R2) (v := d) (by simpa using hnd1)
  have hnd2 : (L2 ++ x2 :: R2).Nodup := by simpa using hnd2'.1
  have hd2 : d ∉ L2 ++ x2 :: R2 := by simpa using hnd2'.2
  have hfilt2 : (L2 ++ x2 :: d :: R2).filter (fun z => z != d) = L2 ++ x2 :: R2 := by
    have := filter_ne_decomp (L2 ++ [x2]) R2 d (by simpa using hnd1)
    simpa using this
  have hmem2 : ∀ z, z ∈ L2 ++ x2 :: R2 ↔ z < gs ∧ z ≠ p ∧ z ≠ d := by
    intro z; rw [← hfilt2, List.mem_filter, hmem1]; simp [and_assoc]
  have hp2 : p ∉ L2 ++ x2 :: R2 := fun h => ((hmem2 p).mp h).2.1 rfl
  generalize hr2 : upd r1 x2 (r1 d) = r2 at hc2
  -- seq2 as the doubly filtered original tour
  have hseq2 : ((0 :: rest).filter (fun z => z != p)).filter (fun z => z != d) = L2 ++ x2 :: R2 := by
    rw [List.filter_cons, if_pos h0p, hrest1, hdecD, hfilt2]
  -- (C) order of first and second in the original tour
  obtain ⟨A, B, hdecS⟩ := List.append_of_mem ((hmem s).mpr hs)
  have hnd0 : (0 :: rest).Nodup := hperm.nodup_iff.mpr List.nodup_range
  have hcyc0 : CycleOf r (0 :: rest) := by rw [hdecP]; exact hcyc
  have hvts := vt_of_cycle gs r rest hcyc0 hnd0 hlen A s B hdecS
  have hfA : f = s ∨ f ∈ A := by
    by_cases hfs : f = s
    · exact Or.inl hfs
    · right
      have hfm : f ∈ A ++ s :: B := hdecS ▸ (hmem f).mpr hf
      rcases List.mem_append.mp hfm with h | h
      · exact h
      · rcases List.mem_cons.mp h with h | h
        · exact absurd h hfs
        · obtain ⟨B1, B2, hB⟩ := List.append_of_mem h
          have hdecF : 0 :: rest = (A ++ s :: B1) ++ f :: B2 := by rw [hdecS, hB]; simp
          have hvtf := vt_of_cycle gs r rest hcyc0 hnd0 hlen _ f B2 hdecF
          simp only [List.length_append, List.length_cons] at hvtf
          omega
  generalize hS1 : (A.filter (fun z => z != p)).filter (fun z => z != d) = S1 at *
  generalize hS2 : (B.filter (fun z => z != p)).filter (fun z => z != d) = S2 at *
  have hsp' : (s != p) = true := by simpa using hsp
  have hsd' : (s != d) = true := by simpa using hsd
  have hseq2' : L2 ++ x2 :: R2 = S1 ++ s :: S2 := by
    rw [← hseq2, hdecS, List.filter_append, List.filter_cons, if_pos hsp', List.filter_append,
      List.filter_cons, if_pos hsd', hS1, hS2]
  have hfS1 : f = s ∨ f ∈ S1 := by
    rcases hfA with h | h
    · exact Or.inl h
    · right; rw [← hS1]
      simp only [List.mem_filter, bne_iff_ne, ne_eq]
      exact ⟨⟨h, hfp⟩, hfd⟩
  rw [hseq2'] at hc2 hnd2 hd2 hp2 hmem2
  have hsS := nodup_remove hnd2
  -- (D) splice the delivery after `second`
  have hdS : d ∉ S1 ++ S2 := fun h => hd2 (by
    rcases List.mem_append.mp h with h | h
    · exact List.mem_append_left _ h
    · exact List.mem_append_right _ (List.mem_cons_of_mem _ h))
  have hpS : p ∉ S1 ++ S2 := fun h => hp2 (by
    rcases List.mem_append.mp h with h | h
    · exact List.mem_append_left _ h
    · exact List.mem_append_right _ (List.mem_cons_of_mem _ h))
  have hc3 := cycle_insert r2 S1 S2 s d hc2 hsS.2 hdS hsd
  generalize hr3 : upd (upd r2 s d) d (r2 s) = r3 at hc3
  have hnd3 : (S1 ++ s :: d :: S2).Nodup := by
    have h1 : (S1 ++ s :: S2).Nodup := hnd2
    have := nodup_insert (L := S1 ++ [s]) (R := S2) (v := d) (by simpa using h1) (by simpa using hd2)
    simpa using this
  have hp3 : p ∉ S1 ++ s :: d :: S2 := by
    intro h
    simp only [List.mem_append, List.mem_cons] at h
    rcases h with h | h | h | h
    · exact hpS (List.mem_append_left _ h)
    · exact hsp h.symm
    · exact hpd h
    · exact hpS (List.mem_append_right _ h)
  -- the model's operator is the composition of these updates
  have hop : pdpLocalOp gs r pi f s = upd (upd r3 f p) p (r3 f) := by
    simp only [pdpLocalOp, hp, hd, hpred1, hr1, hpred2, hr2, hr3]
  rw [hop]
  -- common shape: seq2 = T1 ++ f :: T2', seq3 = T1 ++ f :: T2, d ∈ T2, T2' <+ T2
  obtain ⟨T1, T2, T2', hseq2T, hseq3T, hdT2, hsub⟩ :
      ∃ T1 T2 T2', S1 ++ s :: S2 = T1 ++ f :: T2' ∧ S1 ++ s :: d :: S2 = T1 ++ f :: T2 ∧
        d ∈ T2 ∧ T2'.Sublist T2 := by
    rcases hfS1 with h | h
    · subst h
      exact ⟨S1, d :: S2, S2, rfl, rfl, by simp, List.sublist_cons_self _ _⟩
    · obtain ⟨U1, U2, hU⟩ := List.append_of_mem h
      refine ⟨U1, U2 ++ s :: d :: S2, U2 ++ s :: S2, by rw [hU]; simp, by rw [hU]; simp, by simp, ?_⟩
      exact List.Sublist.append_left
        (List.Sublist.cons_cons _ (List.sublist_cons_self _ _)) _
  rw [hseq3T] at hc3 hnd3 hp3
  have hfT := nodup_remove hnd3
  have hpT : p ∉ T1 ++ T2 := fun h => hp3 (by
    rcases List.mem_append.mp h with h | h
    · exact List.mem_append_left _ h
    · exact List.mem_append_right _ (List.mem_cons_of_mem _ h))
  have hc4 := cycle_insert r3 T1 T2 f p hc3 hfT.2 hpT hfp
  -- head of the new sequence
  have hhead : ∃ t, T1 ++ f :: T2' = 0 :: t := by
    rw [← hseq2T, ← hseq2', ← hseq2, List.filter_cons, if_pos h0p, List.filter_cons]
    have h0d : (0 != d) = true := by simp; omega
    rw [if_pos h0d]
    exact ⟨_, rfl⟩
  obtain ⟨t, ht⟩ := hhead
  obtain ⟨rest4, hrest4⟩ := head_insert (B' := p :: T2) ht
  refine ⟨rest4, ?_, ?_, ?_⟩
  · -- permutation of 0..gs-1
    rw [← hrest4]
    have e1 : (T1 ++ f :: p :: T2).Perm (p :: (T1 ++ f :: T2)) := by
      have := List.perm_middle (a := p) (l₁ := T1 ++ [f]) (l₂ := T2)
      simpa using this
    have e2 : (S1 ++ s :: d :: S2).Perm (d :: (S1 ++ s :: S2)) := by
      have := List.perm_middle (a := d) (l₁ := S1 ++ [s]) (l₂ := S2)
      simpa using this
    have e3 : (L2 ++ x2 :: d :: R2).Perm (d :: (L2 ++ x2 :: R2)) := by
      have := List.perm_middle (a := d) (l₁ := L2 ++ [x2]) (l₂ := R2)
      simpa using this
    have e4 : (L ++ x :: p :: R).Perm (p :: (L ++ x :: R)) := by
      have := List.perm_middle (a := p) (l₁ := L ++ [x]) (l₂ := R)
      simpa using this
    have e5 : (p :: (T1 ++ f :: T2)).Perm (0 :: rest) := by
      rw [← hseq3T]
      refine List.Perm.trans (List.Perm.cons p e2) ?_
      rw [← hseq2']
      refine List.Perm.trans (List.Perm.cons p e3.symm) ?_
      rw [← hdecD, hfilt1, hdecP]
      exact e4.symm
    exact (e1.trans e5).trans hperm
  · rw [← hrest4]; exact hc4
  · -- pickups before deliveries
    intro i hi1 hi2
    rw [← hrest4]
    unfold Before
    by_cases hip : i = p
    · subst hip
      rw [hd]
      have : [i, d].Sublist (i :: T2) :=
        List.Sublist.cons_cons _ (List.singleton_sublist.mpr hdT2)
      exact (this.trans (List.sublist_cons_self f _)).trans (List.sublist_append_right T1 _)
    · have h0 := hprec i hi1 hi2
      unfold Before at h0
      have hne1 : (i != p) = true := by simpa using hip
      have hne2 : (i + gs / 2 != p) = true := by simp; omega
      have hne3 : (i != d) = true := by simp; omega
      have hne4 : (i + gs / 2 != d) = true := by simp; omega
      have h1 := (h0.filter (fun z => z != p)).filter (fun z => z != d)
      simp only [List.filter_cons, hne1, hne2, hne3, hne4, if_true, List.filter_nil] at h1
      have h1' : [i, i + gs / 2].Sublist (T1 ++ f :: T2') := by
        rw [← hseq2T, ← hseq2', ← hseq2]
        simpa [List.filter_cons, h0p] using h1
      have hsub' : (T1 ++ f :: T2').Sublist (T1 ++ f :: p :: T2) :=
        List.Sublist.append_left (List.Sublist.cons_cons _ ((hsub.trans (List.sublist_cons_self p _)))) _
      exact h1'.trans hsub'


/-- a ruin-repair move `(pair, first, second)` is admitted at tour `r`: indices in range and `get_mask` true -/
def Adm (gs : Nat) (r : Rec) (m : Nat × Nat × Nat) : Prop :=
  m.1 < gs / 2 ∧ m.2.1 < gs ∧ m.2.2 < gs ∧ pdpMask gs (visitedTime gs r) (m.1 + 1) m.2.1 m.2.2 = true

/-- **C09 (PDP, whole runs).** from a valid initial tour, after ANY sequence of mask-admitted moves of
any length, both `rec_current` and `rec_best` of the environment state are valid PDP tours. -/
theorem run_valid (gs : Nat) (D : Nat → Nat → Int) (hodd : gs % 2 = 1) (rec0 : Rec)
    (h0 : PdpValid rec0 gs) (ms : List (Nat × Nat × Nat))
    (hadm : Bsf.AdmRun (fun r m => pdpLocalOp gs r m.1 m.2.1 m.2.2) (Adm gs) rec0 ms) :
    let f := Bsf.final gs D (fun r m => pdpLocalOp gs r m.1 m.2.1 m.2.2) (reset gs D rec0) ms
    PdpValid f.recCur gs ∧ PdpValid f.recBest gs :=
  Bsf.valid_of_run gs D _ (fun r => PdpValid r gs) (Adm gs)
    (fun r m hr hm => preserves gs r m.1 m.2.1 m.2.2 hodd hm.1 hm.2.1 hm.2.2.1 hr hm.2.2.2)
    ms (reset gs D rec0) h0 h0 hadm

/-- **C09 (`_random_action`, PDP).** every action the sampler can emit is admitted by `get_mask` -/
theorem randomAction_admitted (gs : Nat) (r : Rec) (m : Nat × Nat × Nat)
    (h : m ∈ randomActionsPdp gs (visitedTime gs r)) : Adm gs r m := by
  simp only [randomActionsPdp, List.mem_flatMap, List.mem_map, List.mem_filter, List.mem_range] at h
  obtain ⟨pi, hpi, k, ⟨hk, hm⟩, rfl⟩ := h
  have hgs : 0 < gs := by
    rcases Nat.eq_zero_or_pos gs with h0 | h0
    · subst h0; simp at hk
    · exact h0
  exact ⟨hpi, (Nat.div_lt_iff_lt_mul hgs).mpr hk, Nat.mod_lt _ hgs, hm⟩

/-- Non-vacuity: 5 nodes, tour 0→1→3→2→4→0 (pickups 1, 2; deliveries 3, 4) is valid; removing the
pair (1, 3) and re-inserting the pickup after node 2 and the delivery after node 4 is admitted by
the mask and yields 0→2→1→4→3→0. -/
example :
    let r : Rec := fun j => [1, 3, 4, 2, 0].getD j 0
    PdpValid r 5 ∧ pdpMask 5 (visitedTime 5 r) 1 2 4 = true ∧
    (List.range 5).map (pdpLocalOp 5 r 0 2 4) = [2, 4, 1, 0, 3] := by
  refine ⟨⟨[1, 3, 2, 4], by decide, by simp [CycleOf, Linked], ?_⟩, by decide, by decide⟩
  intro i h1 h2
  have : i = 1 ∨ i = 2 := by omega
  rcases this with rfl | rfl <;> (unfold Before; decide)

end Rl4co.Improve.PdpRR
