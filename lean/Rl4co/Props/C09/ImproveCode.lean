/-
C09 translator tie: proof obligations on the tokens `harness/extract.py` regenerates from the Python AST of
TSPkoptEnv / PDPRuinRepairEnv (`Generated/Params.lean`, names `improve…`), and the C09 theorems restated for
the definitions the driver EXECUTES (`Rl4co.Improve.Code.*`, instantiated with those tokens).  A source edit
that changes `reward > 0.0`, `new_obj < cost_bsf`, the `where` branches, the reward sign, a `visited_time`
stamp / trip count, `range(num_loc)` / `range(num_loc - 2)`, the PDP mask operator, the `+ 1` of `pair_index`
or the order / targets of the PDP re-insertion makes one of the `decide`s below fail at `lake build`.
-/
import Rl4co.Props.C09.ImproveBsf
import Rl4co.Props.C09.ImprovePdp
import Rl4co.Props.C09.ImproveKopt

namespace Rl4co.Improve.Code
open Rl4co.Spec.Improve

/-! ### proof obligations on the tokens extracted from the current source (`Generated/Params.lean`) -/

/-- `TSPkoptEnv._step/_reset`: `new_obj < cost_bsf`, `where(cond, new_obj, cost_bsf)`, `cost_bsf - now_bsf`,
`reward > 0.0`, stamps `i + 1` over `range(gs)` -/
theorem koptParams_std : koptParams = StepParams.std := by decide

/-- `PDPRuinRepairEnv._step/_reset`: the same tokens -/
theorem pdpParams_std : pdpParams = StepParams.std := by decide

/-- 2-opt reverse loop: `range(num_loc - c)` with `c ≤ 1` (the longest stretch has `num_loc - 1` links) -/
theorem kopt2Loop_ok : Params.improveKopt2LoopSub ≤ 1 := by decide

/-- k-opt relink loop: exactly `range(num_loc - 2)` -/
theorem koptKLoop_ok : Params.improveKoptKLoopSub = 2 := by decide

/-- PDP re-insertion: `pair_index = action[:,0] + 1`; the delivery is spliced in after `second` BEFORE the
pickup is spliced in after `first` -/
theorem pdpOp_ok : Params.improvePdpPairOffset = 1 ∧ Params.improvePdpDeliveryFirst = true ∧
    Params.improvePdpSecondGetsDelivery = true := by decide

/-- PDP mask: a pair `(first, second)` is masked when `visited_time[first] > visited_time[second]` -/
theorem pdpMask_ok : Params.improvePdpMaskCmp = .gt := by decide

/-! ### the code-instantiated definitions are the ones the theorems are about -/

theorem vtLoopC_one (r : Rec) : ∀ (k i pre : Nat) (vt : Nat → Nat),
    vtLoopC 1 r k i pre vt = vtLoop r k i pre vt := by
  intro k
  induction k with
  | zero => intro _ _ _; rfl
  | succ k ih => intro i pre vt; simp only [vtLoopC, vtLoop]; exact ih _ _ _

theorem visitedTimeC_std (n : Nat) (r : Rec) : visitedTimeC (1, 0) n r = visitedTime n r := by
  simp only [visitedTimeC, visitedTime, Nat.sub_zero]; exact vtLoopC_one r n 0 0 _

theorem stepP_std {A : Type} (n : Nat) (D : Nat → Nat → Int) (op : Rec → A → Rec) (s : State) (a : A) :
    stepP StepParams.std n D op s a = step n D op s a := by
  simp only [stepP, step, StepParams.std, Cmp.eval, visitedTimeC_std, ticksPerUnit, if_true]
  simp

theorem resetP_std (n : Nat) (D : Nat → Nat → Int) (r : Rec) : resetP StepParams.std n D r = reset n D r := by
  simp only [resetP, reset, StepParams.std, visitedTimeC_std]

/-- **tie (k-opt env).** the executed `_step`/`_reset` with the extracted tokens are the ones of the theorems -/
theorem step_kopt_eq {A : Type} (n : Nat) (D : Nat → Nat → Int) (op : Rec → A → Rec) (s : State) (a : A) :
    stepP koptParams n D op s a = step n D op s a := by rw [koptParams_std, stepP_std]
theorem reset_kopt_eq (n : Nat) (D : Nat → Nat → Int) (r : Rec) : resetP koptParams n D r = reset n D r := by
  rw [koptParams_std, resetP_std]

/-- **tie (PDP env).** -/
theorem step_pdp_eq {A : Type} (n : Nat) (D : Nat → Nat → Int) (op : Rec → A → Rec) (s : State) (a : A) :
    stepP pdpParams n D op s a = step n D op s a := by rw [pdpParams_std, stepP_std]
theorem reset_pdp_eq (n : Nat) (D : Nat → Nat → Int) (r : Rec) : resetP pdpParams n D r = reset n D r := by
  rw [pdpParams_std, resetP_std]

theorem localOpK_eq : Code.localOpK = Improve.localOpK := by
  unfold Code.localOpK Improve.localOpK; rw [koptKLoop_ok]

theorem pdpLocalOpC_std (gs : Nat) (r : Rec) (pi f s : Nat) :
    pdpLocalOpC 1 true true gs r pi f s = Improve.pdpLocalOp gs r pi f s := by
  simp only [pdpLocalOpC, Improve.pdpLocalOp, if_true]

theorem pdpLocalOp_eq : Code.pdpLocalOp = Improve.pdpLocalOp := by
  funext gs r pi f s
  unfold Code.pdpLocalOp
  rw [pdpOp_ok.1, pdpOp_ok.2.1, pdpOp_ok.2.2]
  exact pdpLocalOpC_std gs r pi f s

theorem pdpMask_eq : Code.pdpMask = Improve.pdpMask := by
  funext gs vt p f s
  unfold Code.pdpMask
  rw [pdpMask_ok]
  simp [pdpMaskC, Improve.pdpMask, Cmp.evalNat]

/-! ### the C09 theorems, stated for the code-instantiated definitions -/

/-- **C09 (2-opt, code).** -/
theorem twoOpt_preserves (n : Nat) (r : Rec) (a b : Nat) (ha : a < n) (hb : b < n) (hab : a ≠ b)
    (ht : IsTour r n) : IsTour (Code.localOp2 n r a b) n :=
  Kopt.twoOpt_preservesC _ kopt2Loop_ok n r a b ha hb hab ht

/-- **C09 (k-opt, code).** every action the builder can emit keeps a tour a tour under the executed operator -/
theorem kopt_preserves (n : Nat) (r : Rec) (ht : IsTour r n) (mask0 : Nat → Bool) (c0 : Nat) (cs : List Nat)
    (hadm : (genRun n (cs.length + 1) r (visitedTime n r) mask0 (c0 :: cs)).admitted = true) :
    IsTour (Code.localOpK n r
      (genAction (cs.length + 1) (genRun n (cs.length + 1) r (visitedTime n r) mask0 (c0 :: cs))).1
      (genAction (cs.length + 1) (genRun n (cs.length + 1) r (visitedTime n r) mask0 (c0 :: cs))).2.1
      (genAction (cs.length + 1) (genRun n (cs.length + 1) r (visitedTime n r) mask0 (c0 :: cs))).2.2) n := by
  rw [localOpK_eq]; exact Kopt.kopt_preserves n r ht mask0 c0 cs hadm

/-- **C09 (PDP, code).** every move admitted by the executed mask keeps a valid PDP tour valid under the
executed operator -/
theorem pdp_preserves (gs : Nat) (r : Rec) (pi f s : Nat)
    (hodd : gs % 2 = 1) (hpi : pi < gs / 2) (hf : f < gs) (hs : s < gs) (hv : PdpValid r gs)
    (hm : Code.pdpMask gs (visitedTime gs r) (pi + 1) f s = true) :
    PdpValid (Code.pdpLocalOp gs r pi f s) gs := by
  rw [pdpLocalOp_eq]; rw [pdpMask_eq] at hm
  exact PdpRR.preserves gs r pi f s hodd hpi hf hs hv hm

/-- the executed `_step` stores the `visited_time` the mask theorems speak about -/
theorem step_vt {A : Type} (P : StepParams) (hP : P = StepParams.std) (n : Nat) (D : Nat → Nat → Int)
    (op : Rec → A → Rec) (s : State) (a : A) :
    (stepP P n D op s a).vt = visitedTime n (stepP P n D op s a).recCur := by
  subst hP; rw [stepP_std]; rfl

theorem final_prefix_mem {A : Type} (n : Nat) (D : Nat → Nat → Int) (op : Rec → A → Rec) :
    ∀ (pre : List A) (s0 : State) (suf : List A),
      Bsf.final n D op s0 pre ∈ Bsf.trace n D op s0 (pre ++ suf) := by
  intro pre
  induction pre with
  | nil =>
    intro s0 suf
    obtain ⟨t, ht⟩ := Bsf.trace_head n D op s0 ([] ++ suf)
    rw [ht]; simp [Bsf.final]
  | cons a pre ih =>
    intro s0 suf
    have := ih (step n D op s0 a) suf
    simp only [List.cons_append, Bsf.trace, List.mem_cons]
    right; exact this

/-- **C09 (bookkeeping, code).** the Bsf invariants for the executed `_reset`/`_step` of either environment
(`P = koptParams` or `pdpParams`, see `koptParams_std` / `pdpParams_std`), any operator, any move sequence:
costs are the lengths of the stored tours, and `cost_bsf` is ≤ the length of the initial tour and of the
current tour after EVERY prefix of the move sequence. -/
theorem bsf_invariants {A : Type} (P : StepParams) (hP : P = StepParams.std) (n : Nat) (D : Nat → Nat → Int)
    (op : Rec → A → Rec) (rec0 : Rec) (as : List A) :
    let f := as.foldl (stepP P n D op) (resetP P n D rec0)
    f.costCur = cost n D f.recCur ∧ f.costBsf = cost n D f.recBest ∧
    f.costBsf ≤ cost n D rec0 ∧
    (∀ pre suf, as = pre ++ suf →
      f.costBsf ≤ cost n D (pre.foldl (stepP P n D op) (resetP P n D rec0)).recCur) := by
  subst hP
  have hfold : ∀ (l : List A) (s : State), l.foldl (stepP StepParams.std n D op) s = Bsf.final n D op s l := by
    intro l; induction l with
    | nil => intro s; rfl
    | cons a l ih => intro s; simp only [List.foldl_cons, stepP_std, ih]; rfl
  simp only [hfold, resetP_std]
  have hinv := Bsf.invariants n D op rec0 as
  refine ⟨hinv.1, hinv.2.1, ?_, ?_⟩
  · exact hinv.2.2.1 (reset n D rec0) (by
      obtain ⟨t, ht⟩ := Bsf.trace_head n D op (reset n D rec0) as
      rw [ht]; simp)
  · intro pre suf hps
    apply hinv.2.2.1
    rw [hps]
    exact final_prefix_mem n D op pre _ suf

end Rl4co.Improve.Code
